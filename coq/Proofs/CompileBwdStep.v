(* CompileBwdStep.v: the vocabulary of the converse (divergence-preserving) direction of the
   compiler-correctness theorem.

   - [wt_stmt] / [wt_block]: the syntactic weight of a tree: an upper bound of the evaluator
     fuel that is spent by merely descending into it (one unit per statement, per list cell
     and per nesting level); [call_weight funs]: 1 + the weight of the heaviest function body.
   - [cl_s] / [cl_b]: every call of the tree has a body in [funs] (otherwise the evaluator
     answers [SUnsup] while the machine jumps to an unrelated address).
   - [inreg K lo hi s]: the machine is inside a region: in the activation that entered it
     ([rskeys s = K]) the instruction pointer is in [lo, hi), or the return stack is deeper
     (a call made from inside the region is running).
   - [treach R s s']: [s'] is reached from [s] and every state before it satisfies [R];
     [stays R N s]: the first [N] states of the run from [s] exist and satisfy [R].
   - [okq]: the strengthened form of [ok] (CompileStep.v): the intermediate states are inside
     the region, [SOut] means "the machine makes at least B / W steps inside", [SUnsup] means
     "the machine gets stuck inside on a panic / unsupported result". *)
From Xeh Require Import Model.Prelude Model.Bits Model.Codec Model.Cell Model.Lexer Model.Fmt
                        Model.Vm Model.Words Model.Struct
                        Proofs.VmFrame Proofs.CompileSim Proofs.CompileLayout Proofs.CompileStep
                        Proofs.CompileEval.
Local Notation length := List.length.

#[local] Arguments Z.add : simpl never.
#[local] Arguments Z.sub : simpl never.
#[local] Arguments Z.mul : simpl never.
#[local] Arguments Z.ltb : simpl never.
#[local] Arguments Z.leb : simpl never.
#[local] Arguments Z.eqb : simpl never.
#[local] Arguments Z.of_nat : simpl never.
#[local] Arguments Z.to_nat : simpl never.

(* ---------- weights ---------- *)
Fixpoint wt_stmt (x : stmt) : nat :=
  let wb := fix wb (l : list stmt) : nat := match l with [] => 1 | y :: r => 1 + wt_stmt y + wb r end in
  match x with
  | SIf _ t => 1 + wb t
  | SIfE _ t e => 1 + wb t + wb e
  | SCase arms d =>
    1 + (fix go (l : list (list stmt * pos * list stmt)) : nat :=
           match l with
           | [] => 0
           | (pre, _, body) :: r => wb pre + wb body + go r
           end) arms + wb d
  | SUntil b _ => 1 + wb b
  | SRepeat b => 1 + wb b
  | SWhile c _ b => 1 + wb c + wb b
  | SDo _ b _ => 1 + wb b
  | _ => 1
  end.

Fixpoint wt_block (l : list stmt) : nat :=
  match l with
  | [] => 1
  | x :: r => 1 + wt_stmt x + wt_block r
  end.

Fixpoint wt_arms (l : list arm) : nat :=
  match l with
  | [] => 0
  | (pre, _, body) :: r => wt_block pre + wt_block body + wt_arms r
  end.

Lemma wt_SIf : forall p t, wt_stmt (SIf p t) = 1 + wt_block t.
Proof. reflexivity. Qed.
Lemma wt_SIfE : forall p t e, wt_stmt (SIfE p t e) = 1 + wt_block t + wt_block e.
Proof. reflexivity. Qed.
Lemma wt_SCase : forall arms d, wt_stmt (SCase arms d) = 1 + wt_arms arms + wt_block d.
Proof. reflexivity. Qed.
Lemma wt_SUntil : forall b p, wt_stmt (SUntil b p) = 1 + wt_block b.
Proof. reflexivity. Qed.
Lemma wt_SRepeat : forall b, wt_stmt (SRepeat b) = 1 + wt_block b.
Proof. reflexivity. Qed.
Lemma wt_SWhile : forall c p b, wt_stmt (SWhile c p b) = 1 + wt_block c + wt_block b.
Proof. reflexivity. Qed.
Lemma wt_SDo : forall p b pl, wt_stmt (SDo p b pl) = 1 + wt_block b.
Proof. reflexivity. Qed.

Lemma wt_stmt_pos : forall x, 1 <= wt_stmt x.
Proof. destruct x; cbn [wt_stmt]; lia. Qed.
Lemma wt_block_pos : forall l, 1 <= wt_block l.
Proof. destruct l; cbn [wt_block]; lia. Qed.

(* the weight of a call: more than the weight of every function body *)
Fixpoint max_body (fs : list (nat * list stmt)) : nat :=
  match fs with
  | [] => 0
  | (_, b) :: r => Nat.max (wt_block b) (max_body r)
  end.
Definition call_weight (fs : list (nat * list stmt)) : nat := S (max_body fs).

Lemma max_body_ge : forall fs g body, fun_body fs g = Some body -> wt_block body <= max_body fs.
Proof.
  induction fs as [|[k b] r IH]; intros g body H; cbn [fun_body] in H; [discriminate|].
  cbn [max_body]. destruct (k =? g).
  - injection H as <-. apply Nat.le_max_l.
  - etransitivity; [eapply IH; exact H|apply Nat.le_max_r].
Qed.

Lemma call_weight_ge : forall fs g body, fun_body fs g = Some body -> wt_block body <= call_weight fs.
Proof. intros fs g body H. unfold call_weight. pose proof (max_body_ge fs g body H). lia. Qed.
Lemma call_weight_pos : forall fs, 1 <= call_weight fs.
Proof. intro fs. unfold call_weight. lia. Qed.

(* ---------- every call has a body ---------- *)
(* [cg_s G x]: every function called in the tree [x] satisfies [G] *)
Section Calls.
  Variable G : nat -> Prop.

  Inductive cg_s : stmt -> Prop :=
  | cg_Lit : forall c p, cg_s (SLit c p)
  | cg_Prim : forall w p, cg_s (SPrim w p)
  | cg_Call : forall g p, G g -> cg_s (SCall g p)
  | cg_Get : forall a p, cg_s (SGet a p)
  | cg_Set : forall a p, cg_s (SSet a p)
  | cg_LocGet : forall i p, cg_s (SLocGet i p)
  | cg_LocSet : forall i p, cg_s (SLocSet i p)
  | cg_If : forall p t, cg_b t -> cg_s (SIf p t)
  | cg_IfE : forall p t e, cg_b t -> cg_b e -> cg_s (SIfE p t e)
  | cg_Case : forall arms d, cg_a arms -> cg_b d -> cg_s (SCase arms d)
  | cg_Until : forall b p, cg_b b -> cg_s (SUntil b p)
  | cg_Repeat : forall b, cg_b b -> cg_s (SRepeat b)
  | cg_While : forall c p b, cg_b c -> cg_b b -> cg_s (SWhile c p b)
  | cg_Do : forall p b pl, cg_b b -> cg_s (SDo p b pl)
  | cg_Break : cg_s SBreak
  | cg_Def : forall g, cg_s (SDef g)
  with cg_b : list stmt -> Prop :=
  | cg_nil : cg_b []
  | cg_cons : forall x r, cg_s x -> cg_b r -> cg_b (x :: r)
  with cg_a : list arm -> Prop :=
  | cga_nil : cg_a []
  | cga_cons : forall pre p body r, cg_b pre -> cg_b body -> cg_a r -> cg_a ((pre, p, body) :: r).
End Calls.

Scheme cg_s_mut := Minimality for cg_s Sort Prop
  with cg_b_mut := Minimality for cg_b Sort Prop
  with cg_a_mut := Minimality for cg_a Sort Prop.
Combined Scheme cg_mutind from cg_s_mut, cg_b_mut, cg_a_mut.

Lemma cg_mono_all : forall (G G' : nat -> Prop), (forall g, G g -> G' g) ->
  (forall x, cg_s G x -> cg_s G' x) /\ (forall l, cg_b G l -> cg_b G' l) /\ (forall a, cg_a G a -> cg_a G' a).
Proof. intros G G' H. apply cg_mutind; intros; constructor; auto. Qed.

Lemma cg_s_mono : forall (G G' : nat -> Prop) x, (forall g, G g -> G' g) -> cg_s G x -> cg_s G' x.
Proof. intros G G' x H. apply (cg_mono_all G G' H). Qed.
Lemma cg_b_mono : forall (G G' : nat -> Prop) l, (forall g, G g -> G' g) -> cg_b G l -> cg_b G' l.
Proof. intros G G' l H. apply (cg_mono_all G G' H). Qed.

(* the functions of [funs] that have a body *)
Definition has_body (funs : list (nat * list stmt)) (g : nat) : Prop := fun_body funs g <> None.
Definition cl_s (funs : list (nat * list stmt)) : stmt -> Prop := cg_s (has_body funs).
Definition cl_b (funs : list (nat * list stmt)) : list stmt -> Prop := cg_b (has_body funs).
Definition cl_a (funs : list (nat * list stmt)) : list arm -> Prop := cg_a (has_body funs).
Definition funs_closed (funs : list (nat * list stmt)) : Prop :=
  forall g body, fun_body funs g = Some body -> cl_b funs body.

(* ---------- regions ---------- *)
Definition inreg (K : list (nat * nat)) (lo hi : nat) (s : state) : Prop :=
  (rskeys s = K /\ lo <= ip s < hi) \/ (exists pre, pre <> [] /\ rskeys s = pre ++ K).

Lemma inreg_here : forall K lo hi s, rskeys s = K -> lo <= ip s < hi -> inreg K lo hi s.
Proof. intros. left. split; assumption. Qed.

Lemma inreg_sub : forall K K' lo hi lo' hi' s,
  K' = K -> lo <= lo' -> hi' <= hi -> inreg K' lo' hi' s -> inreg K lo hi s.
Proof.
  intros K K' lo hi lo' hi' s -> H1 H2 [[E H]|H].
  - left. split; [exact E|lia].
  - right. exact H.
Qed.

Lemma inreg_deeper : forall K k lo hi lo' hi' s, inreg (k :: K) lo' hi' s -> inreg K lo hi s.
Proof.
  intros K k lo hi lo' hi' s [[E H]|(pre & Hne & E)].
  - right. exists [k]. split; [discriminate|exact E].
  - right. exists (pre ++ [k]). split; [destruct pre; discriminate|].
    rewrite <- app_assoc. exact E.
Qed.

Lemma inreg_deeper_here : forall K k lo hi s, rskeys s = k :: K -> inreg K lo hi s.
Proof. intros K k lo hi s E. right. exists [k]. split; [discriminate|exact E]. Qed.

(* a state at the exit, in the activation that entered the region, is outside of it *)
Lemma inreg_not_exit : forall K lo hi s, inreg K lo hi s -> rskeys s = K -> lo <= ip s < hi.
Proof.
  intros K lo hi s [[E H]|(pre & Hne & E)] HK; [exact H|].
  exfalso. rewrite HK in E. apply (f_equal (@length _)) in E. rewrite app_length in E.
  destruct pre; [contradiction|cbn [length] in E; lia].
Qed.

(* ---------- runs ---------- *)
Section Trace.
  Variable nf : natives.

  Lemma steps_split : forall n m s s2, steps nf (n + m) s = Some s2 ->
    exists s1, steps nf n s = Some s1 /\ steps nf m s1 = Some s2.
  Proof.
    induction n as [|n IH]; intros m s s2 H.
    - exists s. split; [reflexivity|exact H].
    - cbn [steps Nat.add] in *. destruct (fetch_and_run nf s) as [u s'| | |]; try discriminate.
      apply IH. exact H.
  Qed.

  Lemma steps_prefix : forall n m s sn, steps nf n s = Some sn -> m <= n -> exists sm, steps nf m s = Some sm.
  Proof.
    intros n m s sn H Hle. replace n with (m + (n - m)) in H by lia.
    destruct (steps_split _ _ _ _ H) as (s1 & H1 & _). eauto.
  Qed.

  Lemma steps_S_last : forall n s sn s', steps nf n s = Some sn -> fetch_and_run nf sn = ROk tt s' ->
    steps nf (S n) s = Some s'.
  Proof.
    intros n s sn s' H F. replace (S n) with (n + 1) by lia. eapply steps_app; [exact H|].
    cbn [steps]. rewrite F. reflexivity.
  Qed.

  (* a step beyond [n] exists only if the instruction at step [n] succeeded *)
  Lemma steps_S_inv : forall n s sn s2, steps nf n s = Some sn -> steps nf (S n) s = Some s2 ->
    fetch_and_run nf sn = ROk tt s2.
  Proof.
    intros n s sn s2 H H2. replace (S n) with (n + 1) in H2 by lia.
    destruct (steps_split _ _ _ _ H2) as (s1 & H1 & H3). rewrite H in H1. injection H1 as <-.
    cbn [steps] in H3. destruct (fetch_and_run nf sn) as [[] s'| | |]; try discriminate.
    injection H3 as <-. reflexivity.
  Qed.

  Definition treach (R : state -> Prop) (s s' : state) : Prop :=
    exists n, steps nf n s = Some s' /\ forall m, m < n -> exists sm, steps nf m s = Some sm /\ R sm.

  Definition stays (R : state -> Prop) (N : nat) (s : state) : Prop :=
    forall m, m < N -> exists sm, steps nf m s = Some sm /\ R sm.

  Lemma treach_refl : forall R s, treach R s s.
  Proof. intros R s. exists 0. split; [reflexivity|]. intros m H. lia. Qed.

  Lemma treach_step : forall (R : state -> Prop) s s1 s', R s -> fetch_and_run nf s = ROk tt s1 ->
    treach R s1 s' -> treach R s s'.
  Proof.
    intros R s s1 s' HR F (n & Hn & Hm). exists (S n). split.
    - cbn [steps]. rewrite F. exact Hn.
    - intros m Hlt. destruct m as [|m].
      + exists s. split; [reflexivity|exact HR].
      + cbn [steps]. rewrite F. apply Hm. lia.
  Qed.

  Lemma treach_one : forall (R : state -> Prop) s s1, R s -> fetch_and_run nf s = ROk tt s1 -> treach R s s1.
  Proof. intros. eapply treach_step; eauto using treach_refl. Qed.

  Lemma treach_trans : forall R a b d, treach R a b -> treach R b d -> treach R a d.
  Proof.
    intros R a b d (n & Hn & Hm) (k & Hk & Hj). exists (n + k). split.
    - eapply steps_app; eauto.
    - intros m Hlt. destruct (Nat.lt_ge_cases m n) as [H|H]; [apply Hm; exact H|].
      destruct (Hj (m - n) ltac:(lia)) as (sm & Hs & HR). exists sm. split; [|exact HR].
      replace m with (n + (m - n)) by lia. eapply steps_app; eauto.
  Qed.

  Lemma treach_mono : forall (R R' : state -> Prop) s s', (forall x, R x -> R' x) -> treach R s s' -> treach R' s s'.
  Proof.
    intros R R' s s' Hi (n & Hn & Hm). exists n. split; [exact Hn|].
    intros m Hlt. destruct (Hm m Hlt) as (sm & Hs & HR). eauto.
  Qed.

  Lemma treach_reaches : forall R s s', treach R s s' -> reaches nf s s'.
  Proof. intros R s s' (n & Hn & _). exists n. exact Hn. Qed.

  Lemma stays_0 : forall R s, stays R 0 s.
  Proof. intros R s m H. lia. Qed.

  Lemma stays_le : forall R N N' s, N' <= N -> stays R N s -> stays R N' s.
  Proof. intros R N N' s Hle H m Hm. apply H. lia. Qed.

  Lemma stays_mono : forall (R R' : state -> Prop) N s, (forall x, R x -> R' x) -> stays R N s -> stays R' N s.
  Proof. intros R R' N s Hi H m Hm. destruct (H m Hm) as (sm & Hs & HR). eauto. Qed.

  Lemma stays_step : forall (R : state -> Prop) N s s1, R s -> fetch_and_run nf s = ROk tt s1 ->
    stays R N s1 -> stays R (S N) s.
  Proof.
    intros R N s s1 HR F H m Hm. destruct m as [|m].
    - exists s. split; [reflexivity|exact HR].
    - cbn [steps]. rewrite F. apply H. lia.
  Qed.

  Lemma stays_reach : forall R N a b, treach R a b -> stays R N b -> stays R N a.
  Proof.
    intros R N a b (n & Hn & Hm) H m Hlt.
    destruct (Nat.lt_ge_cases m n) as [Hc|Hc]; [apply Hm; exact Hc|].
    destruct (H (m - n) ltac:(lia)) as (sm & Hs & HR). exists sm. split; [|exact HR].
    replace m with (n + (m - n)) by lia. eapply steps_app; eauto.
  Qed.

  (* the machine stops on an instruction that exists, with a panic / unsupported result *)
  Definition stuck (s : state) : Prop :=
    is_running s = true /\ (fetch_and_run nf s = RPanic \/ fetch_and_run nf s = RUnsup).
End Trace.

Lemma running_at : forall c s op, mach c s -> nth_error c (ip s) = Some op -> is_running s = true.
Proof.
  intros c s op [Mc _ _] H. unfold is_running. apply Nat.ltb_lt. apply nth_error_Some. rewrite Mc. congruence.
Qed.

(* ---------- the strengthened simulation predicate ---------- *)
Section RunQ.
  Variable nf : natives.
  Variable c : list opcode.
  Variable W : nat.          (* the weight of one machine step, in units of evaluator fuel *)

  Definition okq (R : state -> Prop) (s : state) (endp : nat) (bc : brk_ctx) (B : nat) (r : sres) : Prop :=
    match r with
    | SDone t' =>
      exists s', treach nf R s s' /\ mach c s' /\ ip s' = endp /\ sim t' s' /\ rskeys s' = rskeys s
    | SBroke t' =>
      exists s', treach nf R s s' /\ R s' /\ mach c s' /\
                 nth_error c (ip s') = Some (brk_op (ip s') bc) /\
                 bc <> BNone /\ sim t' s' /\ rskeys s' = rskeys s
    | SFail k pl _ t' =>
      exists sN s', treach nf R s sN /\ R sN /\ mach c sN /\ fetch_and_run nf sN = RErr k pl s' /\ sim t' s'
    | SOut => forall N, W * N <= B -> stays nf R N s
    | SUnsup => exists sN, treach nf R s sN /\ R sN /\ stuck nf sN
    end.

  Lemma okq_reach : forall R s s1 endp bc B r,
    treach nf R s s1 -> rskeys s1 = rskeys s -> okq R s1 endp bc B r -> okq R s endp bc B r.
  Proof.
    intros R s s1 endp bc B r Hr Hk H. destruct r as [t'|t'|k pl p t'| |]; cbn [okq] in *.
    - destruct H as (s' & T & M & I & S & K). exists s'.
      split; [eapply treach_trans; eauto|]. repeat (split; [assumption|]). congruence.
    - destruct H as (s' & T & HR & M & I & Bn & S & K). exists s'.
      split; [eapply treach_trans; eauto|]. repeat (split; [assumption|]). congruence.
    - destruct H as (sN & s' & T & HR & MN & F & S). exists sN, s'.
      split; [eapply treach_trans; eauto|]. auto.
    - intros N HN. eapply stays_reach; [exact Hr|]. apply H. exact HN.
    - destruct H as (sN & T & HR & St). exists sN. split; [eapply treach_trans; eauto|]. auto.
  Qed.

  Lemma okq_weaken : forall R s endp bc B B1 r, B <= B1 -> okq R s endp bc B1 r -> okq R s endp bc B r.
  Proof.
    intros R s endp bc B B1 r Hle H. destruct r as [t'|t'|k pl p t'| |]; cbn [okq] in *; auto.
    intros N HN. apply H. lia.
  Qed.

  (* one machine step pays for W units of fuel *)
  Lemma okq_step : forall (R : state -> Prop) s s1 endp bc B B1 r,
    R s -> fetch_and_run nf s = ROk tt s1 -> rskeys s1 = rskeys s ->
    okq R s1 endp bc B1 r -> B <= B1 + W -> okq R s endp bc B r.
  Proof.
    intros R s s1 endp bc B B1 r HR F Hk H Hle.
    destruct r as [t'|t'|k pl p t'| |]; cbn [okq] in *.
    - destruct H as (s' & T & M & I & S & K). exists s'.
      split; [eapply treach_step; eauto|]. repeat (split; [assumption|]). congruence.
    - destruct H as (s' & T & HR' & M & I & Bn & S & K). exists s'.
      split; [eapply treach_step; eauto|]. repeat (split; [assumption|]). congruence.
    - destruct H as (sN & s' & T & HR' & MN & F' & S). exists sN, s'.
      split; [eapply treach_step; eauto|]. auto.
    - intros N HN. destruct N as [|N]; [apply stays_0|].
      eapply stays_step; [exact HR|exact F|]. apply H. rewrite Nat.mul_succ_r in HN. lia.
    - destruct H as (sN & T & HR' & St). exists sN. split; [eapply treach_step; eauto|]. auto.
  Qed.

  Lemma okq_step0 : forall (R : state -> Prop) s s1 endp bc B r,
    R s -> fetch_and_run nf s = ROk tt s1 -> rskeys s1 = rskeys s ->
    okq R s1 endp bc B r -> okq R s endp bc B r.
  Proof. intros. eapply okq_step; eauto. lia. Qed.

  Lemma okq_mono : forall (R R' : state -> Prop) s endp bc B r,
    (forall x, R x -> R' x) -> okq R s endp bc B r -> okq R' s endp bc B r.
  Proof.
    intros R R' s endp bc B r Hi H. destruct r as [t'|t'|k pl p t'| |]; cbn [okq] in *.
    - destruct H as (s' & T & M & I & S & K). exists s'. split; [eapply treach_mono; eauto|]. auto.
    - destruct H as (s' & T & HR & M & I & Bn & S & K). exists s'.
      split; [eapply treach_mono; eauto|]. split; [auto|]. auto.
    - destruct H as (sN & s' & T & HR & MN & F & S). exists sN, s'.
      split; [eapply treach_mono; eauto|]. split; [auto|]. auto.
    - intros N HN. eapply stays_mono; [exact Hi|]. apply H. exact HN.
    - destruct H as (sN & T & HR & St). exists sN. split; [eapply treach_mono; eauto|]. split; [auto|exact St].
  Qed.

  Lemma okq_done_here : forall R s t bc B, mach c s -> sim t s -> okq R s (ip s) bc B (SDone t).
  Proof.
    intros R s t bc B M S. exists s. split; [apply treach_refl|].
    repeat (split; [assumption || reflexivity|]). reflexivity.
  Qed.

  Lemma okq_endp : forall R s e e' bc B r, e = e' -> okq R s e bc B r -> okq R s e' bc B r.
  Proof. intros; subst; assumption. Qed.

  (* no budget: nothing to show about an evaluator that ran out of fuel *)
  Lemma okq_out_small : forall R s endp bc B, B < W -> okq R s endp bc B SOut.
  Proof.
    intros R s endp bc B H N HN. destruct N as [|N]; [apply stays_0|].
    rewrite Nat.mul_succ_r in HN. lia.
  Qed.

  (* ---------- one instruction whose action is a shared program [m] ---------- *)
  Lemma step_parq : forall A (m : M A) (km : A -> M unit) t s op,
    par m -> sim t s -> mach c s ->
    nth_error c (ip s) = Some op -> (forall n, op <> OResolve n) ->
    (forall s1, exec_op nf (ip s) op s1 = bind m km s1) ->
    match m t with
    | ROk a t' => exists s1, fetch_and_run nf s = km a s1 /\ sim t' s1 /\ after c s s1
    | RErr k pl t' => exists s', fetch_and_run nf s = RErr k pl s' /\ sim t' s'
    | RPanic => fetch_and_run nf s = RPanic
    | RUnsup => fetch_and_run nf s = RUnsup
    end.
  Proof.
    intros A m km t s op Hp Hs M Hn Hr He.
    destruct M as [Mc Ml Mi].
    rewrite (fetch_plain nf s op Mi) by (rewrite ?Mc; assumption). rewrite He. unfold bind.
    assert (Hs' : sim t (set_meter s (meter s + 1)%Z)) by (apply sim_set_meter_r; exact Hs).
    specialize (Hp t _ Hs' Ml).
    destruct (m t) as [a t1|k p t1| |], (m (set_meter s (meter s + 1)%Z)) as [b s1|k' p' s1| |];
      cbn [rrel] in Hp; try contradiction; auto.
    - destruct Hp as (<- & S1 & K1). exists s1. split; [reflexivity|]. split; [exact S1|].
      destruct K1 as (K1&K2&K3&K4&K5&K6). split; [|split].
      + split; [ rewrite K3; exact Mc | rewrite K5; exact Ml | rewrite K4; exact Mi ].
      + exact K1.
      + exact K6.
    - destruct Hp as (<- & <- & S1 & K1). exists s1. split; [reflexivity|exact S1].
  Qed.

  Lemma step_run_mq : forall A (m : M A) (km : A -> M unit) (ke : A -> state -> sres) p t s op endp bc (R : state -> Prop) B,
    par m -> sim t s -> mach c s -> R s ->
    nth_error c (ip s) = Some op -> (forall n, op <> OResolve n) ->
    (forall s1, exec_op nf (ip s) op s1 = bind m km s1) ->
    (forall a t' s1, m t = ROk a t' -> sim t' s1 -> after c s s1 ->
                     fetch_and_run nf s = km a s1 -> okq R s endp bc B (ke a t')) ->
    okq R s endp bc B (@run_m A m p t ke).
  Proof.
    intros A m km ke p t s op endp bc R B Hp Hs M HR Hn Hr He Hk.
    pose proof (step_parq A m km t s op Hp Hs M Hn Hr He) as H.
    unfold run_m. destruct (m t) as [a t1|k pl t1| |] eqn:E; cbn [okq].
    - destruct H as (s1 & F & S1 & A1). eapply Hk; eauto.
    - destruct H as (s' & F & S1). exists s, s'. split; [apply treach_refl|]. auto.
    - exists s. split; [apply treach_refl|]. split; [exact HR|]. split; [eapply running_at; eauto|left; exact H].
    - exists s. split; [apply treach_refl|]. split; [exact HR|]. split; [eapply running_at; eauto|right; exact H].
  Qed.

  (* a one-cell statement *)
  Lemma simple_stmtq : forall (m : M unit) p t s op bc (R : state -> Prop) B,
    par m -> sim t s -> mach c s -> R s ->
    nth_error c (ip s) = Some op -> (forall n, op <> OResolve n) ->
    (forall s1, exec_op nf (ip s) op s1 = bind m (fun _ => next_ip) s1) ->
    okq R s (ip s + 1) bc B (@run_m unit m p t (fun _ t' => SDone t')).
  Proof.
    intros m p t s op bc R B Hp Hs M HR Hn Hr He.
    eapply step_run_mq; eauto.
    intros [] t' s1 Em S1 A1 F. cbn beta in F.
    destruct (after_next _ _ _ A1) as (E & M2 & K2). rewrite E in F.
    exists (set_ip_raw s1 (S (ip s))). split; [|split; [exact M2|split; [|split]]].
    - eapply treach_one; eauto.
    - rewrite ip_set_ip. lia.
    - apply sim_set_ip_r. exact S1.
    - exact K2.
  Qed.

  (* a second shared action inside the same instruction *)
  Lemma cont_run_mq : forall A (m : M A) (km : A -> M unit) (ke : A -> state -> sres) p t1 s s1 op endp bc (R : state -> Prop) B,
    par m -> mach c s -> nth_error c (ip s) = Some op -> R s -> sim t1 s1 -> after c s s1 ->
    fetch_and_run nf s = bind m km s1 ->
    (forall a t2 s2, m t1 = ROk a t2 -> sim t2 s2 -> after c s s2 -> fetch_and_run nf s = km a s2 ->
                     okq R s endp bc B (ke a t2)) ->
    okq R s endp bc B (run_m m p t1 ke).
  Proof.
    intros A m km ke p t1 s s1 op endp bc R B Hp M0 Hop HR S1 A1 F Hk.
    destruct A1 as (M1 & I1 & K1).
    pose proof (Hp t1 s1 S1 (m_rlog _ _ M1)) as H. unfold bind in F. unfold run_m.
    destruct (m t1) as [a t2|k pl t2| |] eqn:E1, (m s1) as [b s2|k' pl' s2| |] eqn:E2;
      cbn [rrel] in H; try contradiction; cbn [okq].
    - destruct H as (<- & S2 & K2). eapply Hk; eauto.
      destruct K2 as (Ka&Kb&Kc&Kd&Ke&Kf). split; [|split].
      + destruct M1 as [Mc Ml Mi]. split; congruence.
      + congruence.
      + unfold rskeys in *. congruence.
    - destruct H as (<- & <- & S2 & K2). exists s, s2. split; [apply treach_refl|]. auto.
    - exists s. split; [apply treach_refl|]. split; [exact HR|]. split; [eapply running_at; eauto|left; exact F].
    - exists s. split; [apply treach_refl|]. split; [exact HR|]. split; [eapply running_at; eauto|right; exact F].
  Qed.

  (* a finished tree followed by a jump *)
  Lemma okq_then_jump : forall (R : state -> Prop) s e e' bc B r rel,
    okq R s e bc B r -> nth_error c e = Some (OJump rel) -> jump_target e rel = e' ->
    (forall s1, ip s1 = e -> rskeys s1 = rskeys s -> R s1) ->
    okq R s e' bc B r.
  Proof.
    intros R s e e' bc B r rel H Hn Hj HR. destruct r as [t'|t'|k pl p t'| |]; cbn [okq] in *; auto.
    destruct H as (s1 & T & M & I & Hsim & K). subst e.
    destruct (jump_to nf c s1 t' rel M Hsim Hn) as (s2 & F & M2 & I2 & S2 & K2).
    exists s2. split; [eapply treach_trans; [exact T|eapply treach_one; [apply HR; auto|exact F]]|].
    split; [exact M2|]. split; [congruence|]. split; [exact S2|congruence].
  Qed.
End RunQ.
