(* DbgMapStmts2.v (C17): provenance / multi-source / build-error lemmas in the form in which
   Props/C17.v states them. *)
From Xeh Require Import Model.Prelude Model.Bits Model.Codec Model.Cell Model.Lexer Model.Fmt
                        Model.Vm Model.Words Model.Build Model.Boot.
From Xeh Require Import Proofs.LexLoc Proofs.LexBasic Proofs.LexNext Proofs.LexAll Proofs.NoPanicLex.
From Xeh Require Import Proofs.VmFrame Proofs.VmLimits Proofs.DbgMapVm Proofs.DbgMapGen
                        Proofs.DbgMapAlign Proofs.DbgMapRun Proofs.DbgMapProv Proofs.DbgMapProvApi
                        Proofs.DbgMapMulti Proofs.DbgMapErr.

(* ---------- provenance: per operation ---------- *)
Lemma prov_eval_compile_res : forall fo pr rf fuel src s, PT s ->
  res_all PT (eval fo pr rf fuel src s) /\ res_all PT (compile fo pr rf fuel src s).
Proof. intros. split; [apply PT_eval|apply PT_compile]; assumption. Qed.

Lemma prov_machine_res : forall fo s, PT s ->
  res_all PT (fetch_and_run (native_fn fo) s) /\
  res_all PT (next (native_fn fo) s) /\
  (forall fuel, match run (native_fn fo) fuel s with Some r => res_all PT r | None => True end) /\
  res_all PT (rnext s).
Proof.
  intros fo s Hs. split; [|split; [|split]].
  - eapply res_all_vm; [|apply far_vmrel, native_wl]. intros s' V. eapply PT_vm; eassumption.
  - eapply res_all_vm; [|apply next_vmrel, native_wl]. intros s' V. eapply PT_vm; eassumption.
  - intros fuel. pose proof (run_vmrel (native_fn fo) (native_wl fo) fuel s) as H.
    destruct (run (native_fn fo) fuel s); [|exact I].
    eapply res_all_vm; [|exact H]. intros s' V. eapply PT_vm; eassumption.
  - pose proof (rnext_frm s) as H.
    destruct (rnext s); cbn [res_all] in *; auto; (eapply PT_vm; [apply vmrel_frm; exact H|exact Hs]).
Qed.

Lemma prov_contexts_res : forall fo rf s, P1 s ->
  (forall m, match context_open m s with ROk _ s' => P1 s' | RErr _ _ s' => PE s' | _ => True end) /\
  match context_close fo rf s with ROk _ s' => P1 s' | RErr _ _ s' => PE s' | _ => True end /\
  (forall t, match intern_source t s with ROk _ s' => P1 s' | RErr _ _ s' => PE s' | _ => True end).
Proof.
  intros fo rf s Hs. split; [intros m; exact (prov_open m s Hs)|].
  split; [exact (prov_close fo rf s Hs)|intros t; exact (prov_intern t s Hs)].
Qed.

Lemma prov_unwind_res : forall depth inputs dsl heapl s, PE s ->
  PE (build_unwind depth inputs dsl heapl s) /\
  (inputs = 0 -> input (build_unwind depth inputs dsl heapl s) = []) /\
  last_tok (build_unwind depth inputs dsl heapl s) = last_tok s /\
  sources (build_unwind depth inputs dsl heapl s) = sources s.
Proof. exact PE_build_unwind. Qed.

(* the emitted entry is the current token *)
Lemma prov_emit_entry : forall op s, P1 s ->
  exists t s', last_tok s = Some t /\ code_emit op s = ROk tt s' /\
               dbg s' = dbg s ++ [t] /\ code s' = code s ++ [op] /\ tok_ok s' t /\ P1 s'.
Proof.
  intros op s Hs. pose proof (prov_emit op s Hs) as H.
  destruct Hs as (((Ha & Hd & Hl & Hr) & Hi) & Hn).
  rewrite code_emit_al in * by exact Ha.
  destruct (last_tok s) as [t|] eqn:El; [|congruence].
  exists t, (emit_state op s). split; [reflexivity|]. split; [reflexivity|].
  split; [unfold emit_state, cur_tok; rewrite El; reflexivity|].
  split; [reflexivity|]. split; [|exact H].
  unfold last_ok in Hl. rewrite El in Hl. eapply tok_ok_eq; [|exact Hl]. reflexivity.
Qed.

(* ---------- the location of an entry is the true position of a token ---------- *)
Theorem api_location : forall fo pr s i n a b src,
  api_reach fo pr s -> nth_error (dbg s) i = Some (n, a, b) -> nth_error (sources s) n = Some src ->
  (exists tk, In (tk, a, b) (lex_string src) /\ nonws tk = true) /\
  (valid_utf8 src = true ->
   a <= b /\ b <= String.length src /\
   (src <> EmptyString ->
    token_location src a = (spec_line src a, spec_col src a, spec_line_start src a, spec_line_end src a))).
Proof.
  intros fo pr s i n a b src Hr Hn Hs.
  destruct (api_prov fo pr s Hr) as (H1 & _ & _). specialize (H1 i _ Hn). cbn [entry_ok] in H1.
  destruct H1 as (src' & E & Htk & Hb). assert (src' = src) by congruence. subst src'.
  split; [exact Htk|]. intros Hv. destruct (Hb Hv) as [B1 B2]. split; [exact B1|]. split; [exact B2|].
  intros Hne. apply token_location_spec_weak; [exact Hv|exact Hne|lia].
Qed.

(* the same for the last token (build-time errors) *)
Theorem api_location_last : forall fo pr s n a b src,
  api_reach fo pr s -> last_tok s = Some (n, a, b) -> nth_error (sources s) n = Some src ->
  (exists tk, In (tk, a, b) (lex_string src) /\ nonws tk = true) /\
  (valid_utf8 src = true ->
   a <= b /\ b <= String.length src /\
   (src <> EmptyString ->
    token_location src a = (spec_line src a, spec_col src a, spec_line_start src a, spec_line_end src a))).
Proof.
  intros fo pr s n a b src Hr Hn Hs.
  destruct (api_prov fo pr s Hr) as (_ & H1 & _). specialize (H1 _ Hn). cbn [entry_ok] in H1.
  destruct H1 as (src' & E & Htk & Hb). assert (src' = src) by congruence. subst src'.
  split; [exact Htk|]. intros Hv. destruct (Hb Hv) as [B1 B2]. split; [exact B1|]. split; [exact B2|].
  intros Hne. apply token_location_spec_weak; [exact Hv|exact Hne|lia].
Qed.

(* ---------- multi-source ---------- *)
Lemma multi_eval_compile_res : forall fo pr rf fuel src s, al s ->
  res_all (keeps_earlier s src) (eval fo pr rf fuel src s) /\
  res_all (keeps_earlier s src) (compile fo pr rf fuel src s).
Proof. intros. split; [apply multi_eval|apply multi_compile]; assumption. Qed.

(* ---------- which token a cell gets ---------- *)
Section Cells.
  Variable fo : fops.
  Variable pr : string -> option Z.
  Variable rf : nat.

  (* a literal: one cell, tagged with the literal's own token *)
  Theorem literal_cell : forall s v s1, P0 s -> get_token pr s = ROk (BLit v) s1 ->
    exists t s2, last_tok s1 = Some t /\ tok_ok s1 t /\
                 code_emit_value v s1 = ROk tt s2 /\
                 dbg s2 = dbg s1 ++ [t] /\ code s2 = code s1 ++ [load_value_opcode v] /\
                 (last_is s1 (TLit v) \/
                  exists txt r, last_is s1 (TReal txt) /\ pr txt = Some r /\ v = CReal r).
  Proof.
    intros s v s1 Hs H. pose proof (get_token_prov pr s Hs) as T. rewrite H in T. cbn [tok_post] in T.
    destruct T as [T1 T2].
    destruct (prov_emit_entry (load_value_opcode v) s1 T1) as (t & s2 & A1 & A2 & A3 & A4 & A5 & A6).
    exists t, s2. split; [exact A1|]. split.
    - destruct T1 as (((_ & _ & Hl & _) & _) & _). unfold last_ok in Hl. rewrite A1 in Hl. exact Hl.
    - split; [exact A2|]. split; [exact A3|]. split; [exact A4|exact T2].
  Qed.

  (* a word that is not immediate (constant, variable, interpreted or native function): one
     cell - the instruction the entry resolves to - tagged with the word's own token *)
  Theorem word_cell : forall fuel s w s1 e, P0 s -> get_token pr s = ROk (BWord w) s1 ->
    dict_entry s1 w = Some e -> (forall f len, e <> DFun true f len) ->
    build_word fo pr rf fuel w s1 = code_emit (resolve_op e) s1 /\
    exists t s2, last_tok s1 = Some t /\ code_emit (resolve_op e) s1 = ROk tt s2 /\
                 dbg s2 = dbg s1 ++ [t] /\ code s2 = code s1 ++ [resolve_op e] /\
                 last_is_word s1 w.
  Proof.
    intros fuel s w s1 e Hs H Hd Hni. destruct (get_token_word pr s w s1 Hs H) as [W1 W2].
    split.
    - unfold build_word, bind, get. rewrite Hd.
      destruct e as [c|a|imm f len]; [reflexivity|reflexivity|].
      destruct imm; [exfalso; eapply Hni; reflexivity|]. destruct f; reflexivity.
    - destruct (prov_emit_entry (resolve_op e) s1 W2) as (t & s2 & A1 & A2 & A3 & A4 & _).
      exists t, s2. auto.
  Qed.
End Cells.

(* ---------- the only write of the machine to the code ---------- *)
Theorem far_code_change : forall fo s,
  res_all (fun s' => code s' = code s \/
                     exists name e, nth_error (code s) (ip s) = Some (OResolve name) /\
                                    dict_entry s name = Some e /\
                                    code s' = list_set (code s) (ip s) (resolve_op e))
          (fetch_and_run (native_fn fo) s).
Proof.
  intros fo s. pose proof (far_spec_holds (native_fn fo) s) as FS.
  assert (X : forall i o s1 (Q : state -> Prop), (forall s', code s' = code s1 -> Q s') ->
                res_all Q (exec_op (native_fn fo) i o s1)).
  { intros i o s1 Q HQ. pose proof (exec_op_frm (native_fn fo) (native_wl fo) i o s1) as F.
    destruct (exec_op (native_fn fo) i o s1); cbn [res_all] in *; auto; apply HQ; exact (proj1 F). }
  inversion FS as [ Hm | | op Hm Hn Hr Hx | name Hm Hn Hd | name e Hm Hn Hd Hm2 | name e Hm Hn Hd Hm2 Hx ];
    cbn [res_all]; try exact I.
  - left. reflexivity.
  - apply X. intros s' E. left. exact E.
  - left. reflexivity.
  - right. exists name, e. auto.
  - apply X. intros s' E. right. exists name, e. auto.
Qed.
