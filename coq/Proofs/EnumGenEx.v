(* EnumGenEx.v (C11): the hypotheses of EnumGenMain.v are checkable by computation and hold of
   real text on the boot state; the overflow branch. *)
From Xeh Require Import Model.Prelude Model.Bits Model.Codec Model.Cell Model.Lexer Model.Fmt
                        Model.Vm Model.Words Model.Build Model.Boot.
From Xeh Require Import Proofs.VmFrame Proofs.NoPanicBuild Proofs.MetaPurge Proofs.EnumGen Proofs.EnumGenMain
                        Proofs.UnwindMain Proofs.UnwindWitness.
Local Notation length := List.length.
Local Open Scope string_scope.
Local Open Scope list_scope.

Section Check.
  Variable pr : string -> option Z.

  Definition nn_step (i : list inlex) (l : option tokref) : option (string * list inlex * option tokref) :=
    match next_name pr (tk_skel i l) with ROk w r => Some (w, input r, last_tok r) | _ => None end.
  Definition gt_step (i : list inlex) (l : option tokref) : option (string * list inlex * option tokref) :=
    match get_token pr (tk_skel i l) with ROk (BWord w) r => Some (w, input r, last_tok r) | _ => None end.

  Lemma skel_fix r i l : r = tk_upd (tk_skel i l) r -> r = tk_skel (input r) (last_tok r).
  Proof. intros H. rewrite H at 1. reflexivity. Qed.

  Lemma nn_step_reads i l w i' l' : nn_step i l = Some (w, i', l') -> reads pr i l w i' l'.
  Proof.
    unfold nn_step. intros H. apply reads_skel.
    pose proof (next_name_indep pr (tk_skel i l)) as X.
    change (input (tk_skel i l)) with i in X. change (last_tok (tk_skel i l)) with l in X.
    destruct (next_name pr (tk_skel i l)) as [w0 r|? ? ?| |]; try discriminate.
    injection H as <- <- <-. cbn [rmap] in X. injection X as X. f_equal. apply (skel_fix r i l X).
  Qed.

  Lemma gt_step_reads i l w i' l' : gt_step i l = Some (w, i', l') -> tokreads pr i l w i' l'.
  Proof.
    unfold gt_step. intros H. apply tokreads_skel.
    pose proof (get_token_indep pr (tk_skel i l)) as X.
    change (input (tk_skel i l)) with i in X. change (last_tok (tk_skel i l)) with l in X.
    destruct (get_token pr (tk_skel i l)) as [tk r|? ? ?| |]; try discriminate.
    destruct tk as [|w0|]; try discriminate.
    injection H as <- <- <-. cbn [rmap] in X. injection X as X. f_equal. apply (skel_fix r i l X).
  Qed.

  (* does the pending input (i, l) continue with ": f1 ... : fn endenum" ? *)
  Fixpoint check_fields (i : list inlex) (l : option tokref) (fs : list string) : option (list inlex * option tokref) :=
    match fs with
    | [] => match gt_step i l with
            | Some (w, i2, l2) => if String.eqb w "endenum" then Some (i2, l2) else None
            | None => None
            end
    | f :: r =>
      match gt_step i l with
      | Some (w, i0, l0) =>
        if String.eqb w ":" then
          match nn_step i0 l0 with
          | Some (w1, i1, l1) => if String.eqb w1 f then check_fields i1 l1 r else None
          | None => None
          end
        else None
      | None => None
      end
    end.

  Lemma check_fields_sound : forall fs i l i2 l2,
    check_fields i l fs = Some (i2, l2) -> feeds_fields pr i l fs i2 l2.
  Proof.
    induction fs as [|f fs IH]; intros i l i2 l2 H; cbn [check_fields] in H.
    - destruct (gt_step i l) as [[[w i3] l3]|] eqn:G; [|discriminate].
      destruct (String.eqb w "endenum") eqn:E; [|discriminate]. apply String.eqb_eq in E. subst w.
      injection H as <- <-. apply ff_end. apply gt_step_reads. exact G.
    - destruct (gt_step i l) as [[[w i0] l0]|] eqn:G; [|discriminate].
      destruct (String.eqb w ":") eqn:E; [|discriminate]. apply String.eqb_eq in E. subst w.
      destruct (nn_step i0 l0) as [[[w1 i1] l1]|] eqn:N; [|discriminate].
      destruct (String.eqb w1 f) eqn:E1; [|discriminate]. apply String.eqb_eq in E1. subst w1.
      eapply ff_field; [apply gt_step_reads; exact G|apply nn_step_reads; exact N|apply IH; exact H].
  Qed.

  (* the whole hypothesis of enum_seq_spec about the text, as a boolean *)
  Definition check_enum_text (s : state) (E : string) (fs : list string) : option (list inlex * option tokref) :=
    match nn_step (input s) (last_tok s) with
    | Some (w, i1, l1) => if String.eqb w E then check_fields i1 l1 fs else None
    | None => None
    end.

  Theorem enum_seq_checked fo rf s E fs i2 l2 :
    enum_pre_b s = true -> check_enum_text s E fs = Some (i2, l2) ->
    (Z.of_nat (length fs) <= two127)%Z ->
    enum_seq fo pr rf (length fs) s = ROk tt (efinal s (numbered 0 fs) i2 l2).
  Proof.
    intros P C Hn. unfold check_enum_text in C.
    destruct (nn_step (input s) (last_tok s)) as [[[w i1] l1]|] eqn:N; [|discriminate].
    destruct (String.eqb w E) eqn:Ew; [|discriminate]. apply String.eqb_eq in Ew. subst w.
    eapply enum_seq_spec; [apply enum_pre_b_sound; exact P|apply nn_step_reads; exact N|
                           apply check_fields_sound; exact C|exact Hn].
  Qed.
End Check.

(* ---------- real text on the boot state ---------- *)
Definition ex_txt : string := "enum Color : Red : Green : Blue : Alpha endenum".
(* the state in which build1 has just read the token `enum` of ex_txt, submitted to eval on boot *)
Definition ex_s : state :=
  match get_token wit_pr (wit_opened ex_txt boot) with ROk _ s => s | _ => boot end.

Lemma ex_hypotheses :
  enum_pre_b boot = true /\ enum_pre_b ex_s = true /\
  exists i2 l2, check_enum_text wit_pr ex_s "Color" ["Red"; "Green"; "Blue"; "Alpha"] = Some (i2, l2).
Proof. vm_compute. split; [reflexivity|]. split; [reflexivity|]. eexists. eexists. reflexivity. Qed.

(* the theorem applied, and the agreement with what eval really does with the text: the same
   dictionary (old ++ the constants in purge order), everything else as in boot *)
Lemma ex_applied :
  exists i2 l2,
    enum_seq wit_fo wit_pr 999 4 ex_s =
      ROk tt (efinal ex_s [("Red", 0%Z); ("Green", 1%Z); ("Blue", 2%Z); ("Alpha", 3%Z)] i2 l2) /\
    enum_order (map const_of [("Red", 0%Z); ("Green", 1%Z); ("Blue", 2%Z); ("Alpha", 3%Z)]) =
      [mkdent "Alpha" (DConst (CInt 3)); mkdent "Blue" (DConst (CInt 2));
       mkdent "Red" (DConst (CInt 0)); mkdent "Green" (DConst (CInt 1))] /\
    match wit_eval ex_txt boot with
    | ROk _ s' => dict s' = dict boot ++ enum_order (map const_of [("Red", 0%Z); ("Green", 1%Z); ("Blue", 2%Z); ("Alpha", 3%Z)]) /\
                  same_machine (set_dict boot (dict s')) s'
    | _ => False
    end.
Proof.
  destruct ex_hypotheses as (_ & P & i2 & l2 & C).
  exists i2, l2. split.
  - apply (enum_seq_checked wit_pr wit_fo 999 ex_s "Color" ["Red"; "Green"; "Blue"; "Alpha"] i2 l2 P C).
    vm_compute. discriminate.
  - split; [reflexivity|]. unfold same_machine. vm_compute. repeat split; reflexivity.
Qed.

(* ---------- the overflow branch ---------- *)
(* a field without value after a field whose value is i128::MAX: the field word fails with
   EOverflow before anything is defined (field_overflow), the build is rejected and - C10 - unwound *)
Definition ovf_txt : string := "enum E 170141183460469231731687303715884105727 = A : B endenum".

Lemma ex_overflow :
  enum_next_value [("A", i128_max)] = None /\
  wit_built ovf_txt boot = RErr EOverflow None (wit_state (wit_built ovf_txt boot)) /\
  calls_bad wit_fo wit_pr wit_rf (length (dict boot)) wit_fuel
            (length (nested (wit_opened ovf_txt boot))) (wit_opened ovf_txt boot) = false /\
  wit_eval ovf_txt boot = RErr EOverflow None (wit_unwound ovf_txt boot) /\
  same_machine boot (wit_unwound ovf_txt boot).
Proof. unfold same_machine. vm_compute. repeat split; reflexivity. Qed.
