(* CursorDefs.v: the vocabulary of the C06 statements: what the binary parsing cursor of a
   machine state is, what a successful read and a failing word look like. Definitions only. *)
From Xeh Require Import Model.Prelude Model.Bits Model.Codec Model.Cell Model.Lexer Model.Fmt
                        Model.Vm Model.Words Proofs.VmStep.
Local Notation length := List.length.

(* ---------- observing the cursor cells of a heap ---------- *)
Definition h_input (h : list cell) : option cbs :=
  match nth_error h R_INPUT with
  | Some c => match value c with CBits b => Some b | _ => None end
  | None => None
  end.

Definition h_offset (h : list cell) : option Z :=
  match nth_error h R_OFFSET with
  | Some c => match value c with CInt z => Some z | _ => None end
  | None => None
  end.

Definition h_stash (h : list cell) : option (list cell) :=
  match nth_error h R_STASH with
  | Some c => match value c with CVec v => Some v | _ => None end
  | None => None
  end.

(* the byte order the unsuffixed words use: "big" unless the cell equals the integer 0 *)
Definition h_order (h : list cell) : option order :=
  match nth_error h R_BIG with
  | Some c => Some (if negb (cell_eqb c (cint 0)) then Big else Little)
  | None => None
  end.

(* ---------- the cursor invariant ----------
   the heap has the six cells of the module, R_INPUT holds a well-formed bit-string [inp]
   (any alignment, any stale bits around it) whose end is addressable, R_OFFSET holds an
   absolute bit offset inside [cstart inp, cend inp] *)
Definition hcursor (h : list cell) (inp : cbs) (off : Z) : Prop :=
  6 <= length h /\
  h_input h = Some inp /\ h_offset h = Some off /\
  wf inp /\ (Z.of_nat (cend inp) < two64)%Z /\
  (Z.of_nat (cstart inp) <= off <= Z.of_nat (cend inp))%Z.

Definition cursor (s : state) (inp : cbs) (off : Z) : Prop :=
  notmeta s /\ hcursor (heap s) inp off.

(* bits [off, off+n) of the input, as a value and as a bit sequence *)
Definition sub (inp : cbs) (off n : Z) : cbs :=
  mkcbs (Z.to_nat off) (Z.to_nat (off + n)) (cdata inp).

Definition slice_bits (inp : cbs) (off n : Z) : list bool :=
  firstn (Z.to_nat n) (skipn (Z.to_nat off - cstart inp) (abs inp)).

(* a successful read of [n] bits that pushes [v] on top of [rest]: only the offset cell
   changes, and it advances by exactly [n] *)
Definition read_done (s s' : state) (inp : cbs) (off n : Z) (rest : list cell) (v : cell) : Prop :=
  (0 <= n)%Z /\ (off + n <= Z.of_nat (cend inp))%Z /\
  ds s' = v :: rest /\
  heap s' = list_set (heap s) R_OFFSET (cint (off + n)) /\
  sim s s'.

(* a failing word, whatever the error kind (read past the end, mismatch, type or range error of
   an argument, float length, the data-stack limit refusing the result): heap (input, offset,
   stash, ...) untouched; the data stack is the original minus the arguments popped so far (at
   most [ar]); nothing else changed *)
Definition fail_frame (ar : nat) (s s' : state) : Prop :=
  heap s' = heap s /\ sim s s' /\
  exists args, ds s = args ++ ds s' /\ length args <= ar.

(* ---------- the stash of suspended inputs ---------- *)
Definition entry_input (e : cell) : option cbs :=
  match value e with CBits b => Some b | _ => None end.
Definition entry_offset (e : cell) : option Z :=
  match get_tag e offset_lit with
  | Some c => match value c with CInt z => Some z | _ => None end
  | None => None
  end.

(* a stash entry is a valid suspended cursor *)
Definition entry_ok (e : cell) : Prop :=
  exists b o, entry_input e = Some b /\ entry_offset e = Some o /\
              wf b /\ (Z.of_nat (cend b) < two64)%Z /\
              (Z.of_nat (cstart b) <= o <= Z.of_nat (cend b))%Z.

(* bit-strings on the data stack are well-formed and addressable *)
Definition cell_ok (c : cell) : Prop :=
  forall b, value c = CBits b -> wf b /\ (Z.of_nat (cend b) < two64)%Z.

(* the full invariant kept by every parsing word *)
Definition cur_inv (s : state) : Prop :=
  (exists inp off, cursor s inp off) /\
  (exists v, h_stash (heap s) = Some v /\ Forall entry_ok v) /\
  Forall cell_ok (ds s).

(* ---------- the NUL-terminated reads, as functions of the remaining bits ---------- *)
Definition rest_of (inp : cbs) (off : Z) : list bool :=
  skipn (Z.to_nat off - cstart inp) (abs inp).
(* number of bits up to and including the first zero byte (all of them if there is none) *)
Definition nul_bits (l : list bool) : nat := nul_len (map grp (chunk8 l)) 0.
(* the characters before the first zero byte *)
Definition cstr_of (l : list bool) : string := cstr_chars (map grp (chunk8 l)).

(* the float codec as a function of the bit sequence *)
Definition fbits_of (k : nat) (o : order) (l : list bool) : Z :=
  let buf := take_pad k (map bits_to_N (chunk8 l)) in
  match o with Big => be_bytes_to_Z buf | Little => be_bytes_to_Z (rev buf) end.

(* ---------- the shape of the word theorems ---------- *)
(* [behaves r Q E]: the word returned normally in a state satisfying [Q], or failed with
   error kind [k] leaving a state satisfying [E k]; it neither panicked nor left the model *)
Definition behaves (r : res unit) (Q : state -> Prop) (E : ekind -> state -> Prop) : Prop :=
  match r with
  | ROk _ s' => Q s'
  | RErr k _ s' => E k s'
  | RPanic => False
  | RUnsup => False
  end.

(* a number [x] read from [n] bits in byte order [o]: tagged integer on top of [rest] *)
Definition num_read (s s' : state) (inp : cbs) (off n : Z) (rest : list cell) (o : order) (x : Z) : Prop :=
  exists v, read_done s s' inp off n rest v /\ cursor s' inp (off + n) /\
            value v = CInt x /\ tags_of v = Some (num_tags (sub inp off n) o).

(* a float with bit pattern [pat] read from [n] bits *)
Definition real_read (s s' : state) (inp : cbs) (off n : Z) (rest : list cell) (o : order) (pat : Z) : Prop :=
  exists v, read_done s s' inp off n rest v /\ cursor s' inp (off + n) /\
            value v = CReal pat /\ tags_of v = Some (num_tags (sub inp off n) o).

(* a bit-string read: the value pushed denotes exactly bits [off, off+n) of the input *)
Definition bits_read (s s' : state) (inp : cbs) (off n : Z) (rest : list cell) : Prop :=
  exists b, read_done s s' inp off n rest (CBits b) /\ cursor s' inp (off + n) /\
            wf b /\ abs b = slice_bits inp off n /\ b = sub inp off n.

(* the pattern of a float field of [n] bits as a function of the bits *)
Definition float_pat (fo : fops) (n : Z) (o : order) (l : list bool) (pat : Z) : Prop :=
  (n = 32%Z /\ pat = f_of_f32 fo (fbits_of 4 o l)) \/ (n = 64%Z /\ pat = fbits_of 8 o l).
