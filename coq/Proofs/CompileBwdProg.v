(* CompileBwdProg.v: the converse direction of the compiler-correctness theorem, in its final
   form for blocks, statements and whole programs:
   - the traced forward simulation ([agreesq]);
   - the quantitative lemma: an evaluator that runs out of fuel corresponds to a machine that
     makes many steps inside the code of the tree;
   - divergence: an evaluator that is out of fuel for every fuel corresponds to a machine that
     runs forever inside the code of the tree;
   - termination reflection: a machine that leaves the code of the tree or stops corresponds to
     an evaluator that returns a result, and the result is the one the machine exhibits. *)
From Xeh Require Import Model.Prelude Model.Bits Model.Codec Model.Cell Model.Lexer Model.Fmt
                        Model.Vm Model.Words Model.Struct
                        Proofs.VmFrame Proofs.VmDrive Proofs.CompileSim Proofs.CompileLayout Proofs.CompileStep
                        Proofs.CompileEval Proofs.CompileFwd Proofs.CompileFwd2 Proofs.CompileProg
                        Proofs.CompileMain Proofs.CompileBwdStep Proofs.CompileBwdFwd Proofs.CompileBwdFwd2.
Local Notation length := List.length.

#[local] Arguments Z.add : simpl never.
#[local] Arguments Z.sub : simpl never.
#[local] Arguments Z.mul : simpl never.
#[local] Arguments Z.of_nat : simpl never.
#[local] Arguments Z.to_nat : simpl never.

(* the strengthened result of the evaluator against the machine, spelled out: [R] is the
   region, [W] the weight of a machine step, [B] the fuel that is left after the descent *)
Definition agreesq (nf : natives) (R : state -> Prop) (W : nat) (s : state) (endp : nat) (bc : brk_ctx)
           (B : nat) (r : sres) : Prop :=
  match r with
  | SDone t' =>
    exists n s', steps nf n s = Some s' /\
                 (forall m, m < n -> exists sm, steps nf m s = Some sm /\ R sm) /\
                 ip s' = endp /\ sim t' s' /\
                 code s' = code s /\ rlog s' = None /\ insn_limit s' = None /\ rskeys s' = rskeys s
  | SBroke t' =>
    exists n s', steps nf n s = Some s' /\
                 (forall m, m <= n -> exists sm, steps nf m s = Some sm /\ R sm) /\
                 nth_error (code s) (ip s') = Some (brk_op (ip s') bc) /\ bc <> BNone /\ sim t' s' /\
                 code s' = code s /\ rlog s' = None /\ insn_limit s' = None /\ rskeys s' = rskeys s
  | SFail k pl _ t' =>
    exists n sN s', steps nf n s = Some sN /\
                    (forall m, m <= n -> exists sm, steps nf m s = Some sm /\ R sm) /\
                    insn_limit sN = None /\ fetch_and_run nf sN = RErr k pl s' /\ sim t' s'
  | SOut => forall m, W * S m <= B -> exists sm, steps nf m s = Some sm /\ R sm
  | SUnsup =>
    exists n sN, steps nf n s = Some sN /\
                 (forall m, m <= n -> exists sm, steps nf m s = Some sm /\ R sm) /\
                 is_running sN = true /\
                 (fetch_and_run nf sN = RPanic \/ fetch_and_run nf sN = RUnsup)
  end.

Lemma upto_incl : forall nf (R : state -> Prop) n s sn,
  steps nf n s = Some sn -> R sn ->
  (forall m, m < n -> exists sm, steps nf m s = Some sm /\ R sm) ->
  forall m, m <= n -> exists sm, steps nf m s = Some sm /\ R sm.
Proof.
  intros nf R n s sn Hn HR H m Hm. destruct (Nat.eq_dec m n) as [->|Hne]; [eauto|]. apply H. lia.
Qed.

Lemma okq_agreesq : forall nf W R s endp bc B r,
  okq nf (code s) W R s endp bc B r -> agreesq nf R W s endp bc B r.
Proof.
  intros nf W R s endp bc B r H. destruct r as [t'|t'|k pl p t'| |]; cbn [okq agreesq] in *.
  - destruct H as (s' & (n & Hn & Hm) & [M1 M2 M3] & I & Hs & K). exists n, s'.
    repeat (split; [assumption|]). assumption.
  - destruct H as (s' & (n & Hn & Hm) & HR & [M1 M2 M3] & Bk & Hne & Hs & K). exists n, s'.
    split; [exact Hn|]. split; [eapply upto_incl; eauto|]. repeat (split; [assumption|]). assumption.
  - destruct H as (sN & s' & (n & Hn & Hm) & HR & [M1 M2 M3] & F & Hs). exists n, sN, s'.
    split; [exact Hn|]. split; [eapply upto_incl; eauto|]. auto.
  - intros m Hm. apply (H (S m) Hm m). lia.
  - destruct H as (sN & (n & Hn & Hm) & HR & Hrun & St). exists n, sN.
    split; [exact Hn|]. split; [eapply upto_incl; eauto|]. auto.
Qed.

(* ---------- what [run] returns, inverted ---------- *)
Section RunInv.
  Variable nf : natives.

  Lemma run_some_inv : forall k s r, run nf k s = Some r ->
    exists n sn, n < k /\ steps nf n s = Some sn /\
      ((is_running sn = false /\ r = ROk tt sn) \/
       (is_running sn = true /\ fetch_and_run nf sn = r /\ forall u s', r <> ROk u s')).
  Proof.
    induction k as [|k IH]; intros s r H; [discriminate|]. cbn [run] in H.
    destruct (is_running s) eqn:Er.
    - destruct (fetch_and_run nf s) as [[] s1|kd pl s1| |] eqn:F.
      + destruct (IH s1 r H) as (n & sn & Hlt & Hn & Hc). exists (S n), sn.
        split; [lia|]. split; [cbn [steps]; rewrite F; exact Hn|exact Hc].
      + injection H as <-. exists 0, s. split; [lia|]. split; [reflexivity|].
        right. split; [exact Er|]. split; [exact F|discriminate].
      + injection H as <-. exists 0, s. split; [lia|]. split; [reflexivity|].
        right. split; [exact Er|]. split; [exact F|discriminate].
      + injection H as <-. exists 0, s. split; [lia|]. split; [reflexivity|].
        right. split; [exact Er|]. split; [exact F|discriminate].
    - injection H as <-. exists 0, s. split; [lia|]. split; [reflexivity|]. left. auto.
  Qed.

  Lemma run_steps_stop : forall n s sN r fuel,
    steps nf n s = Some sN -> is_running sN = true -> fetch_and_run nf sN = r ->
    (forall u s', r <> ROk u s') -> n < fuel -> run nf fuel s = Some r.
  Proof.
    intros n s sN r fuel Hn Hr He Hne Hlt.
    rewrite (run_is_stepping nf n s sN fuel Hn Hlt). rewrite Hr.
    destruct (fuel - n) as [|m] eqn:E; [lia|]. cbn [run]. rewrite Hr, He.
    destruct r as [u s'| | |]; try reflexivity. exfalso. eapply Hne. reflexivity.
  Qed.

  (* a machine that makes n + 2 steps has not stopped after n steps *)
  Lemma stays_run_none : forall (R : state -> Prop) s,
    (forall m, exists sm, steps nf m s = Some sm /\ R sm) -> forall k, run nf k s = None.
  Proof.
    intros R s H k. destruct (run nf k s) as [r|] eqn:E; [|reflexivity]. exfalso.
    destruct (run_some_inv k s r E) as (n & sn & _ & Hn & Hc).
    destruct (H (S n)) as (s2 & H2 & _).
    pose proof (steps_S_inv nf n s sn s2 Hn H2) as F.
    destruct Hc as [[Hr _]|[_ [Hf Hne]]].
    - rewrite (step_ok_running _ _ _ _ F) in Hr. discriminate.
    - rewrite F in Hf. eapply Hne. symmetry. exact Hf.
  Qed.
End RunInv.

Section FinalQ.
  Variable fo : fops.
  Variable funs : list (nat * list stmt).
  Notation nf := (native_fn fo).
  Notation Wc := (call_weight funs).

  (* ---------- blocks and statements ---------- *)
  Lemma block_okq : forall faddr fuel b org bc t s,
    funs_placed funs faddr (code s) -> funs_closed funs -> wf_b b -> cl_b funs b -> brk_ok bc b ->
    firstn (size_block b) (skipn org (code s)) = lay_block faddr b org bc ->
    rlog s = None -> insn_limit s = None -> ip s = org -> sim t s ->
    okq nf (code s) Wc (inreg (rskeys s) org (org + size_block b)) s (org + size_block b) bc
        (fuel - wt_block b) (sblock fo funs fuel b t).
  Proof.
    intros faddr fuel b org bc t s P Cf Wf Cl B C Hl Hi Hip Hs.
    apply (proj1 (fwdq_all fo funs faddr (code s) Wc P Cf (call_weight_pos funs) (call_weight_ge funs) fuel));
      try assumption.
    - apply code_at_slice. rewrite lay_block_length. exact C.
    - split; auto.
  Qed.

  Lemma stmt_okq : forall faddr fuel x org bc t s,
    funs_placed funs faddr (code s) -> funs_closed funs -> wf_s x -> cl_s funs x -> brk_ok_s bc x ->
    firstn (size_stmt x) (skipn org (code s)) = lay_stmt faddr x org bc ->
    rlog s = None -> insn_limit s = None -> ip s = org -> sim t s ->
    okq nf (code s) Wc (inreg (rskeys s) org (org + size_stmt x)) s (org + size_stmt x) bc
        (fuel - wt_stmt x) (sstmt fo funs fuel x t).
  Proof.
    intros faddr fuel x org bc t s P Cf Wf Cl B C Hl Hi Hip Hs.
    apply (proj2 (fwdq_all fo funs faddr (code s) Wc P Cf (call_weight_pos funs) (call_weight_ge funs) fuel));
      try assumption.
    - apply code_at_slice. rewrite lay_stmt_length. exact C.
    - split; auto.
  Qed.

  Theorem fwdq_block : forall faddr fuel b org bc t s,
    funs_placed funs faddr (code s) -> funs_closed funs -> wf_b b -> cl_b funs b -> brk_ok bc b ->
    firstn (size_block b) (skipn org (code s)) = lay_block faddr b org bc ->
    rlog s = None -> insn_limit s = None -> ip s = org -> sim t s ->
    agreesq nf (inreg (rskeys s) org (org + size_block b)) Wc s (org + size_block b) bc
            (fuel - wt_block b) (sblock fo funs fuel b t).
  Proof. intros. apply okq_agreesq. eapply block_okq; eauto. Qed.

  Theorem fwdq_stmt : forall faddr fuel x org bc t s,
    funs_placed funs faddr (code s) -> funs_closed funs -> wf_s x -> cl_s funs x -> brk_ok_s bc x ->
    firstn (size_stmt x) (skipn org (code s)) = lay_stmt faddr x org bc ->
    rlog s = None -> insn_limit s = None -> ip s = org -> sim t s ->
    agreesq nf (inreg (rskeys s) org (org + size_stmt x)) Wc s (org + size_stmt x) bc
            (fuel - wt_stmt x) (sstmt fo funs fuel x t).
  Proof. intros. apply okq_agreesq. eapply stmt_okq; eauto. Qed.

  (* 1. the quantitative lemma *)
  Theorem block_out_steps : forall faddr fuel b org bc t s,
    funs_placed funs faddr (code s) -> funs_closed funs -> wf_b b -> cl_b funs b -> brk_ok bc b ->
    firstn (size_block b) (skipn org (code s)) = lay_block faddr b org bc ->
    rlog s = None -> insn_limit s = None -> ip s = org -> sim t s ->
    sblock fo funs fuel b t = SOut ->
    forall m, wt_block b + Wc * S m <= fuel ->
      exists sm, steps nf m s = Some sm /\ inreg (rskeys s) org (org + size_block b) sm.
  Proof.
    intros faddr fuel b org bc t s P Cf Wf Cl B C Hl Hi Hip Hs E m Hm.
    pose proof (fwdq_block faddr fuel b org bc t s P Cf Wf Cl B C Hl Hi Hip Hs) as H.
    rewrite E in H. cbn [agreesq] in H. apply H. lia.
  Qed.

  (* the same with the bound written as a quotient *)
  Theorem block_out_steps_div : forall faddr fuel b org bc t s,
    funs_placed funs faddr (code s) -> funs_closed funs -> wf_b b -> cl_b funs b -> brk_ok bc b ->
    firstn (size_block b) (skipn org (code s)) = lay_block faddr b org bc ->
    rlog s = None -> insn_limit s = None -> ip s = org -> sim t s ->
    sblock fo funs fuel b t = SOut ->
    forall m, m < (fuel - wt_block b) / Wc ->
      exists sm, steps nf m s = Some sm /\ inreg (rskeys s) org (org + size_block b) sm.
  Proof.
    intros faddr fuel b org bc t s P Cf Wf Cl B C Hl Hi Hip Hs E m Hm.
    eapply block_out_steps; eauto.
    pose proof (call_weight_pos funs) as HW.
    assert (H1 : Wc * S m <= fuel - wt_block b).
    { etransitivity; [apply Nat.mul_le_mono_l; exact Hm|]. apply Nat.mul_div_le. lia. }
    destruct (Nat.le_gt_cases (wt_block b) fuel) as [H2|H2]; [lia|].
    replace (fuel - wt_block b) with 0 in Hm by lia. rewrite Nat.div_0_l in Hm by lia. lia.
  Qed.

  (* 2. divergence *)
  Theorem block_diverges : forall faddr b org bc t s,
    funs_placed funs faddr (code s) -> funs_closed funs -> wf_b b -> cl_b funs b -> brk_ok bc b ->
    firstn (size_block b) (skipn org (code s)) = lay_block faddr b org bc ->
    rlog s = None -> insn_limit s = None -> ip s = org -> sim t s ->
    (forall fuel, sblock fo funs fuel b t = SOut) ->
    forall n, exists sn s', steps nf n s = Some sn /\ inreg (rskeys s) org (org + size_block b) sn /\
                            fetch_and_run nf sn = ROk tt s' /\
                            (rskeys sn = rskeys s -> org <= ip sn < org + size_block b).
  Proof.
    intros faddr b org bc t s P Cf Wf Cl B C Hl Hi Hip Hs E n.
    destruct (block_out_steps faddr _ b org bc t s P Cf Wf Cl B C Hl Hi Hip Hs (E (wt_block b + Wc * S (S n))) n)
      as (sn & Hn & HR); [pose proof (call_weight_pos funs); lia|].
    destruct (block_out_steps faddr _ b org bc t s P Cf Wf Cl B C Hl Hi Hip Hs (E (wt_block b + Wc * S (S n))) (S n))
      as (s2 & H2 & _); [lia|].
    exists sn, s2. split; [exact Hn|]. split; [exact HR|]. split; [eapply steps_S_inv; eauto|].
    apply inreg_not_exit. exact HR.
  Qed.

  (* the same for one statement, in particular for a loop: a loop that structurally never
     terminates never falls through *)
  Theorem stmt_out_steps : forall faddr fuel x org bc t s,
    funs_placed funs faddr (code s) -> funs_closed funs -> wf_s x -> cl_s funs x -> brk_ok_s bc x ->
    firstn (size_stmt x) (skipn org (code s)) = lay_stmt faddr x org bc ->
    rlog s = None -> insn_limit s = None -> ip s = org -> sim t s ->
    sstmt fo funs fuel x t = SOut ->
    forall m, wt_stmt x + Wc * S m <= fuel ->
      exists sm, steps nf m s = Some sm /\ inreg (rskeys s) org (org + size_stmt x) sm.
  Proof.
    intros faddr fuel x org bc t s P Cf Wf Cl B C Hl Hi Hip Hs E m Hm.
    pose proof (fwdq_stmt faddr fuel x org bc t s P Cf Wf Cl B C Hl Hi Hip Hs) as H.
    rewrite E in H. cbn [agreesq] in H. apply H. lia.
  Qed.

  Theorem stmt_diverges : forall faddr x org bc t s,
    funs_placed funs faddr (code s) -> funs_closed funs -> wf_s x -> cl_s funs x -> brk_ok_s bc x ->
    firstn (size_stmt x) (skipn org (code s)) = lay_stmt faddr x org bc ->
    rlog s = None -> insn_limit s = None -> ip s = org -> sim t s ->
    (forall fuel, sstmt fo funs fuel x t = SOut) ->
    forall n, exists sn s', steps nf n s = Some sn /\ inreg (rskeys s) org (org + size_stmt x) sn /\
                            fetch_and_run nf sn = ROk tt s' /\
                            (rskeys sn = rskeys s -> org <= ip sn < org + size_stmt x).
  Proof.
    intros faddr x org bc t s P Cf Wf Cl B C Hl Hi Hip Hs E n.
    destruct (stmt_out_steps faddr _ x org bc t s P Cf Wf Cl B C Hl Hi Hip Hs (E (wt_stmt x + Wc * S (S n))) n)
      as (sn & Hn & HR); [pose proof (call_weight_pos funs); lia|].
    destruct (stmt_out_steps faddr _ x org bc t s P Cf Wf Cl B C Hl Hi Hip Hs (E (wt_stmt x + Wc * S (S n))) (S n))
      as (s2 & H2 & _); [lia|].
    exists sn, s2. split; [exact Hn|]. split; [exact HR|]. split; [eapply steps_S_inv; eauto|].
    apply inreg_not_exit. exact HR.
  Qed.

  (* 3. termination reflection: within n steps the machine has left the region or stopped, so
     the evaluator returns a result with an explicit fuel *)
  Theorem block_terminates : forall faddr b org bc t s n sn,
    funs_placed funs faddr (code s) -> funs_closed funs -> wf_b b -> cl_b funs b -> brk_ok bc b ->
    firstn (size_block b) (skipn org (code s)) = lay_block faddr b org bc ->
    rlog s = None -> insn_limit s = None -> ip s = org -> sim t s ->
    steps nf n s = Some sn ->
    (~ inreg (rskeys s) org (org + size_block b) sn \/ (forall s', fetch_and_run nf sn <> ROk tt s')) ->
    sblock fo funs (wt_block b + Wc * S (S n)) b t <> SOut.
  Proof.
    intros faddr b org bc t s n sn P Cf Wf Cl B C Hl Hi Hip Hs Hn Hc E.
    destruct (block_out_steps faddr _ b org bc t s P Cf Wf Cl B C Hl Hi Hip Hs E n) as (sm & Hm & HR);
      [pose proof (call_weight_pos funs); lia|].
    rewrite Hn in Hm. injection Hm as <-.
    destruct Hc as [Hc|Hc]; [exact (Hc HR)|].
    destruct (block_out_steps faddr _ b org bc t s P Cf Wf Cl B C Hl Hi Hip Hs E (S n)) as (s2 & H2 & _); [lia|].
    eapply Hc. eapply steps_S_inv; eauto.
  Qed.

  (* a run of [n] steps and a run of [m] steps from the same state *)
  Lemma steps_le_or : forall n m s sn sm, steps nf n s = Some sn -> steps nf m s = Some sm ->
    (m <= n /\ steps nf (n - m) sm = Some sn) \/ (n < m /\ steps nf (m - n) sn = Some sm).
  Proof.
    intros n m s sn sm Hn Hm. destruct (Nat.le_gt_cases m n) as [H|H].
    - left. split; [exact H|]. replace n with (m + (n - m)) in Hn by lia.
      destruct (steps_split nf _ _ _ _ Hn) as (s1 & H1 & H2). congruence.
    - right. split; [exact H|]. replace m with (n + (m - n)) in Hm by lia.
      destruct (steps_split nf _ _ _ _ Hm) as (s1 & H1 & H2). congruence.
  Qed.

  Lemma steps_beyond_ok : forall n m s sn sm, steps nf n s = Some sn -> steps nf m s = Some sm -> n < m ->
    exists s', fetch_and_run nf sn = ROk tt s'.
  Proof.
    intros n m s sn sm Hn Hm Hlt.
    destruct (steps_prefix nf m (S n) s sm Hm ltac:(lia)) as (s2 & H2). exists s2. eapply steps_S_inv; eauto.
  Qed.

  (* the machine has left the region: the evaluator finished the tree (or stopped at a `break`
     of the enclosing loop), and the state at the first exit is the evaluator's *)
  Theorem block_leaves : forall faddr b org bc t s n sn,
    funs_placed funs faddr (code s) -> funs_closed funs -> wf_b b -> cl_b funs b -> brk_ok bc b ->
    firstn (size_block b) (skipn org (code s)) = lay_block faddr b org bc ->
    rlog s = None -> insn_limit s = None -> ip s = org -> sim t s ->
    steps nf n s = Some sn -> ~ inreg (rskeys s) org (org + size_block b) sn ->
    exists fuel m sm, m <= n /\ steps nf m s = Some sm /\
      (forall k, k < m -> exists sk, steps nf k s = Some sk /\ inreg (rskeys s) org (org + size_block b) sk) /\
      match sblock fo funs fuel b t with
      | SDone t' => ip sm = org + size_block b /\ sim t' sm /\ rskeys sm = rskeys s
      | SBroke t' => m < n /\ inreg (rskeys s) org (org + size_block b) sm /\
                     nth_error (code s) (ip sm) = Some (brk_op (ip sm) bc) /\ bc <> BNone /\
                     sim t' sm /\ rskeys sm = rskeys s
      | _ => False
      end.
  Proof.
    intros faddr b org bc t s n sn P Cf Wf Cl B C Hl Hi Hip Hs Hn Hout.
    set (fuel := wt_block b + Wc * S (S n)).
    pose proof (block_terminates faddr b org bc t s n sn P Cf Wf Cl B C Hl Hi Hip Hs Hn (or_introl Hout)) as Hne.
    pose proof (fwdq_block faddr fuel b org bc t s P Cf Wf Cl B C Hl Hi Hip Hs) as H.
    fold fuel in Hne. exists fuel.
    destruct (sblock fo funs fuel b t) as [t'|t'|k pl p t'| |]; cbn [agreesq] in H.
    - destruct H as (m & sm & Hm & Hin & I & S' & _ & _ & _ & K).
      exists m, sm. split; [|split; [exact Hm|split; [exact Hin|auto]]].
      destruct (Nat.le_gt_cases m n) as [Hle|Hgt]; [exact Hle|]. exfalso.
      destruct (Hin n Hgt) as (sn' & Hn' & HR). rewrite Hn in Hn'. injection Hn' as <-. exact (Hout HR).
    - destruct H as (m & sm & Hm & Hin & Bk & Hb & S' & _ & _ & _ & K).
      exists m, sm.
      assert (Hlt : m < n).
      { destruct (Nat.le_gt_cases n m) as [Hle|Hgt]; [|exact Hgt]. exfalso.
        destruct (Hin n Hle) as (sn' & Hn' & HR). rewrite Hn in Hn'. injection Hn' as <-. exact (Hout HR). }
      split; [lia|]. split; [exact Hm|]. split; [intros k Hk; apply Hin; lia|].
      split; [exact Hlt|]. split; [|auto].
      destruct (Hin m (Nat.le_refl m)) as (sm' & Hm' & HR). congruence.
    - exfalso. destruct H as (m & sN & s' & Hm & Hin & _ & F & _).
      destruct (Nat.le_gt_cases n m) as [Hle|Hgt].
      + destruct (Hin n Hle) as (sn' & Hn' & HR). rewrite Hn in Hn'. injection Hn' as <-. exact (Hout HR).
      + destruct (steps_beyond_ok m n s sN sn Hm Hn Hgt) as (s2 & F2). congruence.
    - exfalso. apply Hne. reflexivity.
    - exfalso. destruct H as (m & sN & Hm & Hin & _ & F).
      destruct (Nat.le_gt_cases n m) as [Hle|Hgt].
      + destruct (Hin n Hle) as (sn' & Hn' & HR). rewrite Hn in Hn'. injection Hn' as <-. exact (Hout HR).
      + destruct (steps_beyond_ok m n s sN sn Hm Hn Hgt) as (s2 & F2). destruct F; congruence.
  Qed.

  (* no enclosing loop: the first arrival at the cell behind the tree, in the activation that
     entered it, is the evaluator's final state *)
  Theorem block_done_converse : forall faddr b org t s n sn,
    funs_placed funs faddr (code s) -> funs_closed funs -> wf_b b -> cl_b funs b -> nb_b b ->
    firstn (size_block b) (skipn org (code s)) = lay_block faddr b org BNone ->
    rlog s = None -> insn_limit s = None -> ip s = org -> sim t s ->
    steps nf n s = Some sn -> ip sn = org + size_block b -> rskeys sn = rskeys s ->
    (forall k sk, k < n -> steps nf k s = Some sk -> ~ (ip sk = org + size_block b /\ rskeys sk = rskeys s)) ->
    exists fuel t', sblock fo funs fuel b t = SDone t' /\ sim t' sn.
  Proof.
    intros faddr b org t s n sn P Cf Wf Cl N C Hl Hi Hip Hs Hn Hex Hk Hfirst.
    assert (Hout : ~ inreg (rskeys s) org (org + size_block b) sn).
    { intro HR. pose proof (inreg_not_exit _ _ _ _ HR Hk). lia. }
    destruct (block_leaves faddr b org BNone t s n sn P Cf Wf Cl (fun _ => N) C Hl Hi Hip Hs Hn Hout)
      as (fuel & m & sm & Hle & Hm & Hin & H).
    exists fuel. destruct (sblock fo funs fuel b t) as [t'|t'|k pl p t'| |]; try contradiction.
    - destruct H as (I & S' & K). exists t'. split; [reflexivity|].
      destruct (Nat.eq_dec m n) as [->|Hne]; [congruence|].
      exfalso. apply (Hfirst m sm ltac:(lia) Hm). auto.
    - destruct H as (_ & _ & _ & Hb & _). contradiction Hb. reflexivity.
  Qed.

  (* no enclosing loop: a machine that fails while it has not left the region fails like the
     evaluator *)
  Theorem block_fail_converse : forall faddr b org t s n sn k pl s',
    funs_placed funs faddr (code s) -> funs_closed funs -> wf_b b -> cl_b funs b -> nb_b b ->
    firstn (size_block b) (skipn org (code s)) = lay_block faddr b org BNone ->
    rlog s = None -> insn_limit s = None -> ip s = org -> sim t s ->
    steps nf n s = Some sn -> fetch_and_run nf sn = RErr k pl s' ->
    (forall m sm, m <= n -> steps nf m s = Some sm -> inreg (rskeys s) org (org + size_block b) sm) ->
    exists fuel p t', sblock fo funs fuel b t = SFail k pl p t' /\ sim t' s'.
  Proof.
    intros faddr b org t s n sn k pl s' P Cf Wf Cl N C Hl Hi Hip Hs Hn Hf Hin.
    set (fuel := wt_block b + Wc * S (S n)).
    assert (Hne : sblock fo funs fuel b t <> SOut).
    { eapply block_terminates; eauto. intro E; exact N. right. intros s2 E. congruence. }
    pose proof (fwdq_block faddr fuel b org BNone t s P Cf Wf Cl (fun _ => N) C Hl Hi Hip Hs) as H.
    exists fuel.
    destruct (sblock fo funs fuel b t) as [t'|t'|k0 pl0 p t'| |]; cbn [agreesq] in H.
    - exfalso. destruct H as (m & sm & Hm & _ & I & _ & _ & _ & _ & K).
      destruct (Nat.le_gt_cases m n) as [Hle|Hgt].
      + pose proof (inreg_not_exit _ _ _ _ (Hin m sm Hle Hm) K). lia.
      + destruct (steps_beyond_ok n m s sn sm Hn Hm Hgt) as (s2 & F2). congruence.
    - exfalso. destruct H as (_ & _ & _ & _ & _ & Hb & _). contradiction Hb. reflexivity.
    - destruct H as (m & sN & s2 & Hm & _ & _ & F & S2).
      destruct (steps_le_or n m s sn sN Hn Hm) as [[Hle H2]|[Hlt H2]].
      + destruct (n - m) as [|d] eqn:Ed.
        * cbn [steps] in H2. injection H2 as <-. rewrite F in Hf. injection Hf as <- <- <-.
          exists p, t'. split; [reflexivity|exact S2].
        * cbn [steps] in H2. rewrite F in H2. discriminate.
      + destruct (m - n) as [|d] eqn:Ed; [lia|]. cbn [steps] in H2. rewrite Hf in H2. discriminate.
    - exfalso. apply Hne. reflexivity.
    - exfalso. destruct H as (m & sN & Hm & _ & _ & F).
      destruct (steps_le_or n m s sn sN Hn Hm) as [[Hle H2]|[Hlt H2]].
      + destruct (n - m) as [|d] eqn:Ed.
        * cbn [steps] in H2. injection H2 as <-. destruct F; congruence.
        * cbn [steps] in H2. destruct F as [F|F]; rewrite F in H2; discriminate.
      + destruct (m - n) as [|d] eqn:Ed; [lia|]. cbn [steps] in H2. rewrite Hf in H2. discriminate.
  Qed.

  (* ---------- whole programs ---------- *)
  Lemma top_okq : forall faddr c W,
    funs_placed funs faddr c -> funs_closed funs -> 1 <= W ->
    (forall g body, fun_body funs g = Some body -> wt_block body <= W) ->
    forall l f org t s,
      wf_b l -> nb_b l -> cl_b funs l -> code_at c org (lay_top funs faddr l org) ->
      mach c s -> ip s = org -> sim t s ->
      okq nf c W (inreg (rskeys s) org (org + size_top funs l)) s (org + size_top funs l) BNone
          (f - wt_block l) (sblock fo funs f l t).
  Proof.
    intros faddr c W P Cf HW HWb. induction l as [|x r IH]; intros f org t s Wf N Cl C M Hip Hs.
    - destruct f; [apply okq_out_small; lia|]. rewrite sblock_nil. cbn [size_top]. rewrite Nat.add_0_r, <- Hip.
      apply okq_done_here; assumption.
    - destruct f as [|f]; [apply okq_out_small; lia|]. rewrite sblock_cons.
      inversion Wf as [|x' r' Wx Wr]; subst x' r'. inversion N as [|x' r' Nx Nr]; subst x' r'.
      inversion Cl as [|x' r' Clx Clr]; subst x' r'.
      destruct (is_def_dec x) as [[g ->]|Hx].
      + destruct f as [|f]; [cbn [sstmt wt_block]; apply okq_out_small; lia|]. rewrite sstmt_Def.
        cbn [lay_top size_top wt_block] in *. change (wt_stmt (SDef g)) with 1. cbv zeta in C.
        apply code_at_app in C. destruct C as [C0 C1]. cbn [length] in C1. rewrite lay_block_length in C1.
        apply code_at_cons in C0. destruct C0 as [C0 _].
        apply code_at_cons in C1. destruct C1 as [_ C2].
        rewrite <- Hip in C0.
        destruct (jump_to nf c s t _ M Hs C0) as (s1 & F & M1 & I1 & S1 & K1).
        eapply okq_step0; [reg_here|exact F|exact K1|]. rewrite jt_fwd in I1.
        eapply okq_endp; cycle 1.
        { eapply okq_weaken; [|eapply okq_mono; [|apply (IH (S f) (org + size_block (body_of funs g) + 2) t s1); try assumption]].
          - lia.
          - reg_sub.
          - replace (S (org + S (size_block (body_of funs g)))) with (org + size_block (body_of funs g) + 2) in C2 by lia.
            exact C2.
          - lia. }
        lia.
      + rewrite lay_top_other in C by exact Hx. rewrite size_top_other by exact Hx. cbn [wt_block].
        apply code_at_app in C. destruct C as [Cx Cr]. rewrite lay_stmt_length in Cr.
        pose proof (proj2 (fwdq_all fo funs faddr c W P Cf HW HWb f) x org BNone t s Wx Clx (fun _ => Nx) Cx M Hip Hs) as H.
        eapply okq_mono with (R' := inreg (rskeys s) org (org + (size_stmt x + size_top funs r))) in H; [|reg_sub].
        eapply okq_weaken with (B := S f - (1 + wt_stmt x + wt_block r)) in H; [|lia].
        destruct (sstmt fo funs f x t) as [t1|t1|k pl p t1| |]; try exact H.
        cbn [okq] in H. destruct H as (s1 & R & M1 & I1 & S1 & K1).
        eapply okq_reach; [exact R|exact K1|].
        rewrite Nat.add_assoc.
        eapply okq_weaken; [|eapply okq_mono; [|apply IH; assumption]]; [lia|reg_sub].
  Qed.

  (* a closed program: every call, at top level and in the function bodies, has a body *)
  Definition prog_closed (l : list stmt) : Prop := cl_b funs l /\ funs_closed funs.

  Lemma program_okq : forall l org prog fuel t s,
    layout_program funs l org = Some prog -> prog_wf funs l -> prog_closed l ->
    firstn (length prog) (skipn org (code s)) = prog ->
    rlog s = None -> insn_limit s = None -> ip s = org -> sim t s ->
    okq nf (code s) Wc (inreg (rskeys s) org (org + length prog)) s (org + length prog) BNone
        (fuel - wt_block l) (sblock fo funs fuel l t).
  Proof.
    intros l org prog fuel t s HL HW [Cl Cf] C Hl Hi Hip Hs.
    unfold layout_program in HL. destruct (well_placed funs l); [|discriminate]. injection HL as <-.
    apply code_at_slice in C. rewrite lay_top_length.
    eapply top_okq; try eassumption.
    - apply (prog_placed funs l org); assumption.
    - apply call_weight_pos.
    - apply call_weight_ge.
    - apply HW.
    - apply HW.
    - split; auto.
  Qed.

  Theorem fwdq_program : forall l org prog fuel t s,
    layout_program funs l org = Some prog -> prog_wf funs l -> prog_closed l ->
    firstn (length prog) (skipn org (code s)) = prog ->
    rlog s = None -> insn_limit s = None -> ip s = org -> sim t s ->
    agreesq nf (inreg (rskeys s) org (org + length prog)) Wc s (org + length prog) BNone
            (fuel - wt_block l) (sblock fo funs fuel l t).
  Proof. intros. apply okq_agreesq. eapply program_okq; eauto. Qed.

  Theorem program_out_steps : forall l org prog fuel t s,
    layout_program funs l org = Some prog -> prog_wf funs l -> prog_closed l ->
    firstn (length prog) (skipn org (code s)) = prog ->
    rlog s = None -> insn_limit s = None -> ip s = org -> sim t s ->
    sblock fo funs fuel l t = SOut ->
    forall m, wt_block l + Wc * S m <= fuel ->
      exists sm, steps nf m s = Some sm /\ inreg (rskeys s) org (org + length prog) sm.
  Proof.
    intros l org prog fuel t s HL HW HC C Hl Hi Hip Hs E m Hm.
    pose proof (fwdq_program l org prog fuel t s HL HW HC C Hl Hi Hip Hs) as H.
    rewrite E in H. cbn [agreesq] in H. apply H. lia.
  Qed.

  Theorem program_diverges : forall l org prog t s,
    layout_program funs l org = Some prog -> prog_wf funs l -> prog_closed l ->
    firstn (length prog) (skipn org (code s)) = prog ->
    rlog s = None -> insn_limit s = None -> ip s = org -> sim t s ->
    (forall fuel, sblock fo funs fuel l t = SOut) ->
    forall n, exists sn s', steps nf n s = Some sn /\ inreg (rskeys s) org (org + length prog) sn /\
                            fetch_and_run nf sn = ROk tt s' /\
                            (rskeys sn = rskeys s -> org <= ip sn < org + length prog).
  Proof.
    intros l org prog t s HL HW HC C Hl Hi Hip Hs E n.
    destruct (program_out_steps l org prog _ t s HL HW HC C Hl Hi Hip Hs (E (wt_block l + Wc * S (S n))) n)
      as (sn & Hn & HR); [pose proof (call_weight_pos funs); lia|].
    destruct (program_out_steps l org prog _ t s HL HW HC C Hl Hi Hip Hs (E (wt_block l + Wc * S (S n))) (S n))
      as (s2 & H2 & _); [lia|].
    exists sn, s2. split; [exact Hn|]. split; [exact HR|]. split; [eapply steps_S_inv; eauto|].
    apply inreg_not_exit. exact HR.
  Qed.

  (* ---------- what [run] returns ---------- *)
  Lemma firstn_of_skipn : forall (prog : list opcode) org cd, skipn org cd = prog ->
    firstn (length prog) (skipn org cd) = prog.
  Proof. intros prog org cd H. rewrite H. apply firstn_all. Qed.

  (* the evaluator answers [SUnsup]: [run] stops on a panic / unsupported result *)
  Theorem program_run_unsup : forall l org prog fuel t s,
    layout_program funs l org = Some prog -> prog_wf funs l -> prog_closed l ->
    skipn org (code s) = prog ->
    rlog s = None -> insn_limit s = None -> ip s = org -> sim t s ->
    sblock fo funs fuel l t = SUnsup ->
    exists N r, (r = RPanic \/ r = RUnsup) /\ forall k, N < k -> run nf k s = Some r.
  Proof.
    intros l org prog fuel t s HL HW HC C Hl Hi Hip Hs E.
    pose proof (fwdq_program l org prog fuel t s HL HW HC (firstn_of_skipn _ _ _ C) Hl Hi Hip Hs) as H.
    rewrite E in H. cbn [agreesq] in H. destruct H as (n & sN & Hn & _ & Hr & F).
    exists n, (fetch_and_run nf sN). split; [destruct F as [F|F]; rewrite F; auto|].
    intros k Hk. eapply run_steps_stop; eauto. intros u s' E'. destruct F as [F|F]; congruence.
  Qed.

  (* the evaluator is out of fuel for every fuel: [run] never returns *)
  Theorem program_run_diverges : forall l org prog t s,
    layout_program funs l org = Some prog -> prog_wf funs l -> prog_closed l ->
    skipn org (code s) = prog ->
    rlog s = None -> insn_limit s = None -> ip s = org -> sim t s ->
    (forall fuel, sblock fo funs fuel l t = SOut) ->
    forall rf, run nf rf s = None.
  Proof.
    intros l org prog t s HL HW HC C Hl Hi Hip Hs E rf.
    apply (stays_run_none nf (inreg (rskeys s) org (org + length prog))). intro m.
    destruct (program_diverges l org prog t s HL HW HC (firstn_of_skipn _ _ _ C) Hl Hi Hip Hs E m)
      as (sm & _ & Hm & HR & _). eauto.
  Qed.

  (* [run] returns: the evaluator returns a result, with an explicit fuel *)
  Theorem program_run_terminates : forall l org prog t s k r,
    layout_program funs l org = Some prog -> prog_wf funs l -> prog_closed l ->
    skipn org (code s) = prog ->
    rlog s = None -> insn_limit s = None -> ip s = org -> sim t s ->
    run nf k s = Some r ->
    sblock fo funs (wt_block l + Wc * S k) l t <> SOut.
  Proof.
    intros l org prog t s k r HL HW HC C Hl Hi Hip Hs Hr E.
    destruct (run_some_inv nf k s r Hr) as (n & sn & Hlt & Hn & Hc).
    destruct (program_out_steps l org prog _ t s HL HW HC (firstn_of_skipn _ _ _ C) Hl Hi Hip Hs E (S n))
      as (s2 & H2 & _).
    { pose proof (call_weight_pos funs) as HWp.
      assert (Wc * S (S n) <= Wc * S k) by (apply Nat.mul_le_mono_l; lia). lia. }
    pose proof (steps_S_inv nf n s sn s2 Hn H2) as F.
    destruct Hc as [[Hrun _]|[_ [Hf Hne]]].
    - rewrite (step_ok_running _ _ _ _ F) in Hrun. discriminate.
    - rewrite F in Hf. eapply Hne. symmetry. exact Hf.
  Qed.

  (* the converse of [fwd_program_run]: what [run] returns is what the evaluator returns for a
     large enough fuel *)
  Definition run_reflects (t : state) (l : list stmt) (r : res unit) : Prop :=
    match r with
    | ROk _ s' => exists fuel t', sblock fo funs fuel l t = SDone t' /\ sim t' s'
    | RErr kd pl s' => exists fuel p t', sblock fo funs fuel l t = SFail kd pl p t' /\ sim t' s'
    | RPanic => exists fuel, sblock fo funs fuel l t = SUnsup
    | RUnsup => exists fuel, sblock fo funs fuel l t = SUnsup
    end.

  Theorem program_run_converse : forall l org prog t s k r,
    layout_program funs l org = Some prog -> prog_wf funs l -> prog_closed l ->
    skipn org (code s) = prog ->
    rlog s = None -> insn_limit s = None -> ip s = org -> sim t s ->
    run nf k s = Some r -> run_reflects t l r.
  Proof.
    intros l org prog t s k r HL HW HC C Hl Hi Hip Hs Hr.
    pose proof (program_run_terminates l org prog t s k r HL HW HC C Hl Hi Hip Hs Hr) as Hne.
    set (fuel := wt_block l + Wc * S k) in *.
    pose proof (fwd_program_run fo funs l org prog fuel t s HL HW C Hl Hi Hip Hs) as H.
    pose proof (fwd_program fo funs l org prog fuel t s HL HW (firstn_of_skipn _ _ _ C) Hl Hi Hip Hs) as Hb.
    pose proof (program_run_unsup l org prog fuel t s HL HW HC C Hl Hi Hip Hs) as Hu.
    destruct (sblock fo funs fuel l t) as [t'|t'|kd pl p t'| |] eqn:E; cbn [run_agrees agrees] in *.
    - destruct H as (N & s' & HN & S').
      pose proof (HN (S (N + k)) ltac:(lia)) as H1.
      pose proof (CompileMain.run_mono fo k (S (N + k)) s r Hr ltac:(lia)) as H2.
      assert (Er : r = ROk tt s') by congruence. subst r. cbn [run_reflects]. eauto.
    - exfalso. destruct Hb as (_ & _ & _ & _ & Hb & _). contradiction Hb. reflexivity.
    - destruct H as (N & s' & HN & S').
      pose proof (HN (S (N + k)) ltac:(lia)) as H1.
      pose proof (CompileMain.run_mono fo k (S (N + k)) s r Hr ltac:(lia)) as H2.
      assert (Er : r = RErr kd pl s') by congruence. subst r. cbn [run_reflects]. eauto.
    - exfalso. apply Hne. reflexivity.
    - destruct (Hu eq_refl) as (N & r' & Hr' & HN).
      pose proof (HN (S (N + k)) ltac:(lia)) as H1.
      pose proof (CompileMain.run_mono fo k (S (N + k)) s r Hr ltac:(lia)) as H2.
      assert (Er : r = r') by congruence. subst r'. destruct Hr' as [->| ->]; cbn [run_reflects]; eauto.
  Qed.

  (* both directions together: termination, failure and divergence are the same on both sides *)
  Theorem program_run_iff : forall l org prog t s,
    layout_program funs l org = Some prog -> prog_wf funs l -> prog_closed l ->
    skipn org (code s) = prog ->
    rlog s = None -> insn_limit s = None -> ip s = org -> sim t s ->
    ((exists k s', run nf k s = Some (ROk tt s')) <-> (exists fuel t', sblock fo funs fuel l t = SDone t')) /\
    ((exists k kd pl s', run nf k s = Some (RErr kd pl s')) <->
     (exists fuel kd pl p t', sblock fo funs fuel l t = SFail kd pl p t')) /\
    ((forall k, run nf k s = None) <-> (forall fuel, sblock fo funs fuel l t = SOut)).
  Proof.
    intros l org prog t s HL HW HC C Hl Hi Hip Hs.
    split; [|split].
    - split.
      + intros (k & s' & Hr).
        destruct (program_run_converse l org prog t s k _ HL HW HC C Hl Hi Hip Hs Hr) as (fuel & t' & E & _). eauto.
      + intros (fuel & t' & E).
        pose proof (fwd_program_run fo funs l org prog fuel t s HL HW C Hl Hi Hip Hs) as H.
        rewrite E in H. cbn [run_agrees] in H. destruct H as (N & s' & HN & _). exists (S N), s'. apply HN. lia.
    - split.
      + intros (k & kd & pl & s' & Hr).
        destruct (program_run_converse l org prog t s k _ HL HW HC C Hl Hi Hip Hs Hr) as (fuel & p & t' & E & _).
        exists fuel, kd, pl, p, t'. exact E.
      + intros (fuel & kd & pl & p & t' & E).
        pose proof (fwd_program_run fo funs l org prog fuel t s HL HW C Hl Hi Hip Hs) as H.
        rewrite E in H. cbn [run_agrees] in H. destruct H as (N & s' & HN & _). exists (S N), kd, pl, s'. apply HN. lia.
    - split.
      + intros Hnone fuel.
        pose proof (fwd_program_run fo funs l org prog fuel t s HL HW C Hl Hi Hip Hs) as H.
        pose proof (fwd_program fo funs l org prog fuel t s HL HW (firstn_of_skipn _ _ _ C) Hl Hi Hip Hs) as Hb.
        pose proof (program_run_unsup l org prog fuel t s HL HW HC C Hl Hi Hip Hs) as Hu.
        destruct (sblock fo funs fuel l t) as [t'|t'|kd pl p t'| |] eqn:E; cbn [run_agrees agrees] in *.
        * exfalso. destruct H as (N & s' & HN & _). specialize (HN (S N) ltac:(lia)). rewrite Hnone in HN. discriminate.
        * exfalso. destruct Hb as (_ & _ & _ & _ & Hb & _). contradiction Hb. reflexivity.
        * exfalso. destruct H as (N & s' & HN & _). specialize (HN (S N) ltac:(lia)). rewrite Hnone in HN. discriminate.
        * reflexivity.
        * exfalso. destruct (Hu eq_refl) as (N & r' & _ & HN). specialize (HN (S N) ltac:(lia)).
          rewrite Hnone in HN. discriminate.
      + intros Hout k. eapply program_run_diverges; eauto.
  Qed.
End FinalQ.
