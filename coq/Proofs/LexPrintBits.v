(* printing a bit-string literal and lexing the text back *)
From Xeh Require Import Model.Prelude Model.Bits Model.Cell Model.Lexer Model.Fmt.
From Xeh Require Import Proofs.BitsBasic Proofs.BitsKernel Proofs.BitsLists Proofs.BitsMirror Proofs.BitsProofs.
From Xeh Require Import Proofs.LexLoc Proofs.LexBasic Proofs.LexNext Proofs.LexAll Proofs.LexPrintInt.
From Coq Require Import ZifyBool ZifyNat ZifyN.
Local Open Scope string_scope.

(* the bits a piece of literal text contributes, as the lexer reads it *)
Fixpoint text_bits (s : string) : option (list N) :=
  match s with
  | "" => Some []
  | String c r =>
    match text_bits r with
    | None => None
    | Some rest =>
      match hex_digit c with
      | Some x => Some (nibble_N x ++ rest)%list
      | None =>
        if is_ws c then Some rest
        else if (byte_of c =? 46)%N then Some (0%N :: rest)
        else if (byte_of c =? 120)%N then Some (1%N :: rest)
        else None
      end
    end
  end.

Lemma Some_inj {A} (a b : A) : Some a = Some b -> a = b.
Proof. congruence. Qed.

Lemma text_bits_app : forall a b x y,
  text_bits a = Some x -> text_bits b = Some y -> text_bits (a ++ b) = Some (x ++ y)%list.
Proof.
  induction a as [|c a IH]; intros b x y Ha Hb.
  - cbn [text_bits] in Ha. injection Ha as <-. exact Hb.
  - cbn [append text_bits] in *. destruct (text_bits a) as [ra|] eqn:Era; [|discriminate].
    rewrite (IH b ra y eq_refl Hb).
    destruct (hex_digit c).
    { injection Ha as <-. reflexivity. }
    destruct (is_ws c); [injection Ha as <-; reflexivity|].
    destruct (byte_of c =? 46)%N; [injection Ha as <-; reflexivity|].
    destruct (byte_of c =? 120)%N; [injection Ha as <-; reflexivity|discriminate].
Qed.

Lemma lex_bits_text : forall t bits rest pos b endpos, text_bits t = Some bits ->
  lex_bits (t ++ rest) pos b endpos =
  lex_bits rest (pos + String.length t) (fold_left append_bit bits b) endpos.
Proof.
  induction t as [|c t IH]; intros bits rest pos b endpos H.
  - cbn [text_bits] in H. injection H as <-. cbn [append String.length fold_left].
    rewrite Nat.add_0_r. reflexivity.
  - cbn [text_bits] in H. destruct (text_bits t) as [rt|] eqn:Et; [|discriminate].
    cbn [append lex_bits String.length]. replace (pos + S (String.length t)) with (S pos + String.length t) by lia.
    destruct (hex_digit c).
    { apply Some_inj in H. subst bits. rewrite fold_left_app. apply IH. reflexivity. }
    destruct (is_ws c); [injection H as <-; apply IH; reflexivity|].
    destruct (byte_of c =? 46)%N; [injection H as <-; cbn [fold_left]; apply IH; reflexivity|].
    destruct (byte_of c =? 120)%N; [injection H as <-; cbn [fold_left]; apply IH; reflexivity|discriminate].
Qed.

(* one printed group reads back as its bits: all 511 groups of at most 8 bits *)
Definition group_ok (g : list bool) : bool :=
  match text_bits (fmt_group (bits_to_N g) (List.length g)) with
  | Some l => list_eqb N.eqb l (map b2n g)
  | None => false
  end.

Lemma k_group_all : forallb (fun n => forallb group_ok (all_lists n)) (seq 0 9) = true.
Proof. vm_compute. reflexivity. Qed.

Lemma group_kernel g : List.length g <= 8 ->
  text_bits (fmt_group (bits_to_N g) (List.length g)) = Some (map b2n g).
Proof.
  intros Hg.
  pose proof (sweep_nat _ _ k_group_all (List.length g) ltac:(lia)) as H1. cbv beta in H1.
  rewrite forallb_forall in H1. specialize (H1 g (in_all_lists g)). unfold group_ok in H1.
  destruct (text_bits (fmt_group (bits_to_N g) (List.length g))) as [l|]; [|discriminate].
  apply (list_eqb_spec N.eqb N.eqb_eq) in H1. rewrite H1. reflexivity.
Qed.

Lemma groups_text : forall X first, Forall (fun g => List.length g <= 8) X ->
  text_bits (fmt_groups (map grp X) first) = Some (map b2n (List.concat X)).
Proof.
  induction X as [|g X IH]; intros first H; [reflexivity|].
  inversion H as [|? ? Hg HX]; subst.
  cbn [map fmt_groups grp List.concat]. unfold grp at 1. rewrite map_app.
  change (map b2n g ++ map b2n (List.concat X))%list with ([] ++ (map b2n g ++ map b2n (List.concat X)))%list.
  apply text_bits_app.
  - destruct first; reflexivity.
  - apply text_bits_app; [apply group_kernel; exact Hg|apply IH; exact HX].
Qed.

Lemma lex_bits_bar pos b endpos :
  lex_bits "|" pos b endpos = (TLit (CBits (bvb_finish b)), "", S pos).
Proof. reflexivity. Qed.

Lemma print_read_bitstr : forall b, wf b ->
  let txt := fmt_bitstr b in
  exists b', lex_string txt = [(TLit (CBits b'), 0, String.length txt); (TEnd, String.length txt, String.length txt)]
             /\ wf b' /\ abs b' = abs b.
Proof.
  intros b Hb txt.
  exists (of_bools (abs b)). destruct (of_bools_spec (abs b)) as [W A].
  split; [|split; [exact W|exact A]].
  set (G := fmt_groups (iter8 b) true).
  assert (Et : txt = String "|" (G ++ "|")) by reflexivity.
  assert (Hg : text_bits G = Some (map b2n (abs b))).
  { unfold G. rewrite iter8_spec by exact Hb.
    rewrite groups_text by apply chunks8_len_le8. rewrite concat_chunk8. reflexivity. }
  rewrite Et. apply lex_string_one_literal; [discriminate|].
  rewrite lex_next_unfold. cbv zeta. unfold lex_new. cbn [lrest lpos llen skip_ws].
  change (is_ws "|") with false. cbn [Nat.ltb Nat.leb].
  change (byte_of "|" =? 34)%N with false.
  rewrite (starts_ldq_false "|" (G ++ "|") eq_refl).
  change (byte_of "|" =? 124)%N with true. cbv iota.
  rewrite (lex_bits_text G _ "|" 1 bvb_empty _ Hg), lex_bits_bar.
  cbn [String.length]. rewrite app_length_s. cbn [String.length].
  unfold of_bools, from_bits. f_equal. f_equal. lia.
Qed.
