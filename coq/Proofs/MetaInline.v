(* MetaInline.v (C11): a successful build is a chain of token steps; a whole meta block
   compared with compiling its result values as literals at the place of the block. *)
From Xeh Require Import Model.Prelude Model.Bits Model.Codec Model.Cell Model.Lexer Model.Fmt
                        Model.Vm Model.Words Model.Build.
From Xeh Require Import Proofs.VmFrame Proofs.VmLimits Proofs.NoPanic Proofs.NoPanicBuild Proofs.NoPanicFlow
                        Proofs.MetaBase Proofs.MetaPurge Proofs.MetaBuild Proofs.MetaClose Proofs.MetaPrefix
                        Proofs.MetaPrefixBuild Proofs.MetaPrefixWords Proofs.MetaBlock Proofs.MetaSeg.
Local Notation length := List.length.
Local Open Scope string_scope.
Local Open Scope list_scope.

(* compiling a list of values as literals, first element first *)
Fixpoint emit_values (vs : list cell) : M unit :=
  match vs with
  | [] => ret tt
  | v :: r => code_emit_value v ;; emit_values r
  end.

Lemma emit_values_spec : forall vs s, cd_inv s ->
  exists s1, emit_values vs s = ROk tt s1 /\ code s1 = code s ++ map load_value_opcode vs /\
             dict s1 = dict s /\ score s1 = score s /\ cd_inv s1.
Proof.
  induction vs as [|v r IH]; intros s Hcd; cbn [emit_values].
  - exists s. split; [reflexivity|]. cbn [map]. rewrite app_nil_r.
    split; [reflexivity|]. split; [reflexivity|]. split; [reflexivity|exact Hcd].
  - unfold code_emit_value at 1.
    destruct (code_emit_run (load_value_opcode v) s Hcd) as (s1 & E & C1 & D1 & _ & _ & _ & Hcd1).
    pose proof (scorep_code_emit (load_value_opcode v) s) as Sc. rewrite E in Sc. cbn [res_all] in Sc.
    destruct (IH s1 Hcd1) as (s2 & E2 & C2 & D2 & Sc2 & Hcd2).
    exists s2. unfold bind. rewrite E. split; [exact E2|].
    cbn [map]. rewrite C2, C1, <- app_assoc. repeat split; congruence.
Qed.

Section Inline.
  Variable fo : fops.
  Variable pr : string -> option Z.
  Variable rf : nat.

  (* ---------- build1 is a chain of token steps ---------- *)
  (* no token that [build1 fuel] reads from [s] on is a word of the enum builder *)
  Fixpoint enum_free (fuel : nat) (s : state) : Prop :=
    match fuel with
    | O => True
    | S f =>
      forall s1 t s2, pre_run fo rf s = ROk tt s1 -> get_token pr s1 = ROk t s2 ->
        enum_tok s2 t = false /\ forall s3, tok_act fo pr rf f t s2 = ROk tt s3 -> enum_free f s3
    end.

  Theorem build1_step f d s s' : enum_free (S f) s -> build1 fo pr rf (S f) d s = ROk tt s' ->
    (exists s1 s2, pre_run fo rf s = ROk tt s1 /\ get_token pr s1 = ROk BEnd s2 /\
                   build_end d s2 = ROk tt s') \/
    (exists s3, tstep fo pr rf f s s3 /\ enum_free f s3 /\ build1 fo pr rf f d s3 = ROk tt s').
  Proof.
    intros EF. rewrite build1_S. unfold bind at 1.
    destruct (pre_run fo rf s) as [[] s1|? ? ?| |] eqn:E1; try discriminate.
    unfold bind at 1. destruct (get_token pr s1) as [t s2|? ? ?| |] eqn:E2; try discriminate.
    destruct (EF s1 t s2 E1 E2) as [Hn Hk].
    destruct t as [|w|c].
    - intros E. left. exists s1, s2. repeat split; assumption.
    - unfold bind. destruct (tok_act fo pr rf f (BWord w) s2) as [[] s3|? ? ?| |] eqn:E3; try discriminate.
      intros E. right. exists s3. split; [|split; [apply Hk; reflexivity|exact E]].
      exists s1, (BWord w), s2. repeat split; try assumption. discriminate.
    - unfold bind. destruct (tok_act fo pr rf f (BLit c) s2) as [[] s3|? ? ?| |] eqn:E3; try discriminate.
      intros E. right. exists s3. split; [|split; [apply Hk; reflexivity|exact E]].
      exists s1, (BLit c), s2. repeat split; try assumption. discriminate.
  Qed.

  Lemma bpath_cons s s1 x : anystep fo pr rf s s1 -> bpath fo pr rf 0 s1 x -> bpath fo pr rf 0 s x.
  Proof.
    intros St Hb. induction Hb as [|x y Hb IH Sy Hd].
    - eapply bp_snoc; [apply bp_nil|exact St|lia].
    - eapply bp_snoc; [exact IH|exact Sy|lia].
  Qed.

  Theorem build1_path : forall f d s s', enum_free f s -> build1 fo pr rf f d s = ROk tt s' ->
    exists x s1, bpath fo pr rf 0 s x /\ pre_run fo rf x = ROk tt s1 /\ get_token pr s1 = ROk BEnd s' /\
                 depth s' = d /\ has_pending_flow s' = false.
  Proof.
    induction f as [|f IH]; intros d s s' EF E; [discriminate|].
    destruct (build1_step f d s s' EF E) as [(s1 & s2 & E1 & E2 & E3)|(s3 & St & EF3 & E3)].
    - exists s, s1. split; [apply bp_nil|]. split; [exact E1|].
      unfold build_end, bind, get in E3.
      destruct (negb (length (nested s2) =? d)%nat) eqn:En; [discriminate|].
      destruct (has_pending_flow s2) eqn:Ep; [discriminate|].
      injection E3 as <-. split; [exact E2|]. split; [|exact Ep].
      apply negb_false_iff, Nat.eqb_eq in En. exact En.
    - destruct (IH d s3 s' EF3 E3) as (x & s1 & Hb & R).
      exists x, s1. split; [|exact R]. eapply bpath_cons; [exists f; exact St|exact Hb].
  Qed.

  (* ---------- the block and the literals ---------- *)
  (* the block was opened in a state t whose context is not a meta context *)
  Theorem block_inline t u t' :
    wfm t -> cd_inv t -> cmode (cx t) <> MMeta ->
    bpath fo pr rf (S (depth t)) (opened t) u ->
    anystep fo pr rf u t' -> depth t' <= depth t ->
    exists vs ts tc,
      emit_values vs t = ROk tt ts /\
      (t' = tc \/ exists txt, t' = interned txt tc) /\
      rpatch (code ts) (code tc) /\ heap tc = heap ts /\ ds tc = ds ts /\
      cx tc = cx ts /\ nested tc = nested ts /\ flows tc = flows ts /\
      (exists d' k, cpatch (dict ts) d' /\ dict tc = d' ++ k /\ Forall (fun e => is_dconst e = true) k) /\
      (exists a, rs tc = a ++ rs ts) /\ (exists a, loops tc = a ++ loops ts) /\
      (exists a, special tc = a ++ special ts).
  Proof.
    intros W Hcd Hnm Hb St Hd.
    destruct (block_theorem fo pr rf t u t' W Hcd Hb St Hd) as (_ & w1 & Hw & Fl & D).
    destruct (block_spec t w1 W Hcd Hw Fl)
      as (B1 & B2 & B3 & B4 & (c' & Rc & Ec) & (d' & Rd & Ed) & Eg & Kd & Eds & Kr & Kl & Ks & Ef).
    assert (Em : emit_flag w1 (cx t) = true).
    { rewrite Ef. destruct (cmode (cx t)); try reflexivity. contradiction Hnm. reflexivity. }
    rewrite Em in *.
    destruct (emit_values_spec (results w1) t Hcd) as (ts & Ev & Ct & Dt & Sc & _).
    unfold score in Sc. injection Sc as S1 S2 S3 S4 S5 S6 S7 S8.
    exists (results w1), ts, (close_state w1 (cx t)).
    split; [exact Ev|]. split; [exact D|].
    split; [rewrite Ct, Ec; apply rpatch_app; exact Rc|].
    split; [congruence|]. split.
    { rewrite Eds, S4.
      assert (En : ds_len (open_ctx t) = length (ds t)).
      { unfold open_ctx. cbn [ds_len]. destruct (cmode (cx t)); try reflexivity. contradiction Hnm. reflexivity. }
      rewrite En. apply lastn_all. lia. }
    split; [congruence|]. split; [congruence|]. split; [congruence|].
    split; [exists d', (purge_all (skipn (length (dict t)) (dict w1))); rewrite Dt;
            split; [exact Rd|split; [exact Ed|apply purge_all_const]]|].
    rewrite S5, S6, S7.
    split; [apply keeps_all; exact Kr|]. split; [apply keeps_all; exact Kl|apply keeps_all; exact Ks].
  Qed.
End Inline.
