(* ArithNum.v: the number-level facts behind C09: two's complement wrapping, truncating
   division, bitwise operations on the 128-bit representation, shifts, population count,
   and the sign bit of a binary64 pattern. *)
From Xeh Require Import Model.Prelude Model.Cell Model.Words.
From Coq Require Import ZifyBool ZifyNat.
Local Ltac Zify.zify_post_hook ::= Z.div_mod_to_equations.
Local Notation length := List.length.
Local Open Scope Z_scope.

#[local] Arguments Z.add : simpl never.
#[local] Arguments Z.sub : simpl never.
#[local] Arguments Z.mul : simpl never.
#[local] Arguments Z.pow : simpl never.
#[local] Arguments Z.modulo : simpl never.
#[local] Arguments Z.div : simpl never.
#[local] Arguments Z.ltb : simpl never.
#[local] Arguments Z.leb : simpl never.
#[local] Arguments Z.eqb : simpl never.
#[local] Arguments Z.of_nat : simpl never.

Lemma two128_val : two128 = 340282366920938463463374607431768211456.
Proof. reflexivity. Qed.
Lemma two127_val : two127 = 170141183460469231731687303715884105728.
Proof. reflexivity. Qed.
Lemma two64_val : two64 = 18446744073709551616.
Proof. reflexivity. Qed.

Ltac i128 :=
  unfold in_i128, i128_min, i128_max, wrap128, to_u128, of_u128 in *;
  rewrite ?two128_val, ?two127_val in *; cbv zeta in *;
  repeat match goal with
         | |- context [if ?b then _ else _] => destruct b eqn:?
         | H : context [if ?b then _ else _] |- _ => destruct b eqn:?
         end.

(* ---------- wrapping ---------- *)
Lemma wrap128_id z : in_i128 z = true -> wrap128 z = z.
Proof. intros H. i128; lia. Qed.

Lemma wrap128_in z : in_i128 (wrap128 z) = true.
Proof. i128; lia. Qed.

Lemma wrap128_u128 z : to_u128 (wrap128 z) = to_u128 z.
Proof. i128; lia. Qed.

(* the wrapped value is the exact one moved by a multiple of 2^128 *)
Lemma wrap128_closed z : wrap128 z = z - two128 * ((z + two127) / two128).
Proof. i128; lia. Qed.

Lemma wrap128_id_iff z : wrap128 z = z <-> in_i128 z = true.
Proof. split; [intros <-; apply wrap128_in|apply wrap128_id]. Qed.

(* ---------- truncating division ---------- *)
Lemma quot_abs_le x y : y <> 0 -> Z.abs (Z.quot x y) <= Z.abs x.
Proof.
  intros Hy. rewrite <- Z.quot_abs by assumption.
  apply Z.quot_le_upper_bound; [lia|]. nia.
Qed.

Lemma quot_overflow x y : in_i128 x = true -> in_i128 y = true -> y <> 0 ->
  (in_i128 (Z.quot x y) = false <-> x = i128_min /\ y = -1).
Proof.
  intros Hx Hyr Hy. split.
  - intros Hq. pose proof (quot_abs_le x y Hy) as Hle.
    assert (Hq' : Z.quot x y = two127).
    { i128; lia. }
    assert (Hax : Z.abs x = two127) by (i128; lia).
    assert (Hx' : x = i128_min) by (i128; lia).
    split; [assumption|].
    destruct (Z.eq_dec y (-1)) as [|Hn1]; [assumption|exfalso].
    destruct (Z.eq_dec y 1) as [->|Hn2].
    { rewrite Z.quot_1_r in Hq'. i128; lia. }
    assert (Hay : 2 <= Z.abs y) by lia.
    assert (Hb : Z.quot (Z.abs x) (Z.abs y) <= 2 ^ 126).
    { apply Z.quot_le_upper_bound; [lia|]. rewrite Hax, two127_val.
      change (2 ^ 126) with 85070591730234615865843651857942052864. lia. }
    rewrite Z.quot_abs in Hb by assumption. rewrite Hq', two127_val in Hb.
    change (2 ^ 126) with 85070591730234615865843651857942052864 in Hb. lia.
  - intros [-> ->]. reflexivity.
Qed.

Lemma rem_in x y : in_i128 x = true -> y <> 0 -> in_i128 (Z.rem x y) = true.
Proof.
  intros Hx Hy. assert (H : Z.abs (Z.rem x y) <= Z.abs x).
  { rewrite Z.rem_mod by assumption. rewrite Z.abs_mul.
    assert (0 <= Z.abs x mod Z.abs y <= Z.abs x).
    { split; [apply Z.mod_pos_bound; lia|apply Z.mod_le; lia]. }
    destruct (Z.sgn_spec x) as [(?&->)|[(?&->)|(?&->)]]; lia. }
  assert (Hs : Z.rem x y = 0 \/ Z.sgn (Z.rem x y) = Z.sgn x).
  { destruct (Z.eq_dec (Z.rem x y) 0); [left; assumption|right; apply Z.rem_sign_nz; assumption]. }
  i128; lia.
Qed.

Lemma rem_laws x y : y <> 0 ->
  x = y * Z.quot x y + Z.rem x y /\ Z.abs (Z.rem x y) < Z.abs y /\
  (Z.rem x y <> 0 -> Z.sgn (Z.rem x y) = Z.sgn x).
Proof.
  intros Hy. split; [apply Z.quot_rem'|]. split; [apply Z.rem_bound_abs; assumption|].
  apply Z.rem_sign_nz. assumption.
Qed.

Lemma neg_overflow x : in_i128 x = true -> (in_i128 (- x) = false <-> x = i128_min).
Proof. intros H. i128; lia. Qed.

Lemma abs_overflow x : in_i128 x = true -> (in_i128 (Z.abs x) = false <-> x = i128_min).
Proof. intros H. i128; lia. Qed.

Lemma min_in x y : in_i128 x = true -> in_i128 y = true -> in_i128 (Z.min x y) = true.
Proof. intros. i128; lia. Qed.
Lemma max_in x y : in_i128 x = true -> in_i128 y = true -> in_i128 (Z.max x y) = true.
Proof. intros. i128; lia. Qed.

(* ---------- comparisons ---------- *)
Lemma cmp_flags x y :
  is_lt (x ?= y) = (x <? y) /\ is_le (x ?= y) = (x <=? y) /\
  is_gt (x ?= y) = (y <? x) /\ is_ge (x ?= y) = (y <=? x) /\
  is_eq (x ?= y) = (x =? y) /\ is_ne (x ?= y) = negb (x =? y).
Proof.
  destruct (Z.compare_spec x y) as [->|H|H]; cbn [is_lt is_le is_gt is_ge is_eq is_ne]; repeat split; lia.
Qed.

(* ---------- bitwise operations: two's complement ---------- *)
Lemma to_u128_land_ones z : to_u128 z = Z.land z (Z.ones 128).
Proof. unfold to_u128, two128. symmetry. apply Z.land_ones. lia. Qed.

Lemma land_u128 x y : to_u128 (Z.land x y) = Z.land (to_u128 x) (to_u128 y).
Proof.
  rewrite !to_u128_land_ones. apply Z.bits_inj'. intros n Hn. rewrite !Z.land_spec.
  destruct (Z.testbit x n), (Z.testbit y n), (Z.testbit (Z.ones 128) n); reflexivity.
Qed.
Lemma lor_u128 x y : to_u128 (Z.lor x y) = Z.lor (to_u128 x) (to_u128 y).
Proof.
  rewrite !to_u128_land_ones. apply Z.bits_inj'. intros n Hn. rewrite !Z.land_spec, !Z.lor_spec, !Z.land_spec.
  destruct (Z.testbit x n), (Z.testbit y n), (Z.testbit (Z.ones 128) n); reflexivity.
Qed.
Lemma lxor_u128 x y : to_u128 (Z.lxor x y) = Z.lxor (to_u128 x) (to_u128 y).
Proof.
  rewrite !to_u128_land_ones. apply Z.bits_inj'. intros n Hn. rewrite !Z.land_spec, !Z.lxor_spec, !Z.land_spec.
  destruct (Z.testbit x n), (Z.testbit y n), (Z.testbit (Z.ones 128) n); reflexivity.
Qed.
Lemma lnot_u128 x : to_u128 (Z.lnot x) = two128 - 1 - to_u128 x.
Proof. unfold Z.lnot. i128; lia. Qed.
Lemma lnot_val x : Z.lnot x = - x - 1.
Proof. unfold Z.lnot. lia. Qed.

Lemma in_i128_shiftr z : in_i128 z = true <-> (Z.shiftr z 127 = 0 \/ Z.shiftr z 127 = -1).
Proof.
  rewrite Z.shiftr_div_pow2 by lia. change (2 ^ 127) with 170141183460469231731687303715884105728.
  i128; lia.
Qed.

Lemma land_in x y : in_i128 x = true -> in_i128 y = true -> in_i128 (Z.land x y) = true.
Proof.
  rewrite !in_i128_shiftr, Z.shiftr_land. intros [-> | ->] [-> | ->]; cbn; auto.
Qed.
Lemma lor_in x y : in_i128 x = true -> in_i128 y = true -> in_i128 (Z.lor x y) = true.
Proof.
  rewrite !in_i128_shiftr, Z.shiftr_lor. intros [-> | ->] [-> | ->]; cbn; auto.
Qed.
Lemma lxor_in x y : in_i128 x = true -> in_i128 y = true -> in_i128 (Z.lxor x y) = true.
Proof.
  rewrite !in_i128_shiftr, Z.shiftr_lxor. intros [-> | ->] [-> | ->]; cbn; auto.
Qed.
Lemma lnot_in x : in_i128 x = true -> in_i128 (Z.lnot x) = true.
Proof. intros H. rewrite lnot_val. i128; lia. Qed.

(* ---------- shifts with a count in 0..127 ---------- *)
Lemma shift_count n : 0 <= n < 128 -> (n mod two64) mod 128 = n.
Proof. intros H. rewrite two64_val. lia. Qed.

Lemma shl128_spec x n : 0 <= n < 128 -> shl128 x n = wrap128 (x * 2 ^ n).
Proof. intros H. unfold shl128. rewrite shift_count by assumption. rewrite Z.shiftl_mul_pow2 by lia. reflexivity. Qed.

Lemma shr128_spec x n : 0 <= n < 128 -> shr128 x n = x / 2 ^ n.
Proof. intros H. unfold shr128. rewrite shift_count by assumption. apply Z.shiftr_div_pow2. lia. Qed.

Lemma shr_in x n : in_i128 x = true -> 0 <= n -> in_i128 (x / 2 ^ n) = true.
Proof.
  intros Hx Hn. assert (Hp : 1 <= 2 ^ n) by (pose proof (Z.pow_pos_nonneg 2 n); lia).
  set (d := 2 ^ n) in *.
  assert (H : (0 <= x -> 0 <= x / d <= x) /\ (x < 0 -> x <= x / d < 0)).
  { split; intros Hs.
    - split; [apply Z.div_pos; lia|]. apply Z.div_le_upper_bound; [lia|nia].
    - split; [apply Z.div_le_lower_bound; [lia|nia]|apply Z.div_lt_upper_bound; lia]. }
  i128; lia.
Qed.

(* ---------- population count ---------- *)
Lemma fold_count (P : nat -> bool) l : forall a,
  fold_left (fun acc i => if P i then acc + 1 else acc) l a = a + Z.of_nat (length (filter P l)).
Proof.
  induction l as [|i l IH]; intros a; cbn [fold_left filter].
  - cbn [List.length]. lia.
  - rewrite IH. destruct (P i); cbn [List.length]; lia.
Qed.

Lemma popcount_spec x :
  popcount x = Z.of_nat (length (filter (fun i => Z.testbit (to_u128 x) (Z.of_nat i)) (seq 0 128))).
Proof. unfold popcount, to_u128. cbv zeta. rewrite fold_count. lia. Qed.

Lemma filter_len_le {A} (P : A -> bool) l : (length (filter P l) <= length l)%nat.
Proof. induction l as [|a l IH]; cbn [filter List.length]; [lia|]. destruct (P a); cbn [List.length]; lia. Qed.

Lemma popcount_range x : 0 <= popcount x <= 128.
Proof.
  rewrite popcount_spec.
  pose proof (filter_len_le (fun i => Z.testbit (to_u128 x) (Z.of_nat i)) (seq 0 128)) as H.
  rewrite seq_length in H. lia.
Qed.

Lemma popcount_in x : in_i128 (popcount x) = true.
Proof. pose proof (popcount_range x). i128; lia. Qed.

(* ---------- the sign bit of a binary64 pattern ---------- *)
Lemma testbit63 r : 0 <= r < 2 ^ 64 -> Z.testbit r 63 = (2 ^ 63 <=? r).
Proof.
  intros H. change (2 ^ 64) with 18446744073709551616 in H.
  destruct (Z.testbit r 63) eqn:E.
  - apply Z.testbit_true in E; [|lia]. change (2 ^ 63) with 9223372036854775808 in *. lia.
  - apply Z.testbit_false in E; [|lia]. change (2 ^ 63) with 9223372036854775808 in *. lia.
Qed.

Lemma land_pow63 r : Z.testbit r 63 = false -> Z.land r (2 ^ 63) = 0.
Proof.
  intros H. apply Z.bits_inj'. intros n Hn. rewrite Z.land_spec, Z.bits_0, Z.pow2_bits_eqb by lia.
  destruct (Z.eqb_spec 63 n) as [<-|]; [rewrite H; reflexivity|apply Bool.andb_false_r].
Qed.

Lemma lxor63 r : 0 <= r < 2 ^ 64 ->
  Z.lxor r (2 ^ 63) = if 2 ^ 63 <=? r then r - 2 ^ 63 else r + 2 ^ 63.
Proof.
  intros H. pose proof (testbit63 r H) as T.
  destruct (2 ^ 63 <=? r) eqn:E.
  - assert (T' : Z.testbit (r - 2 ^ 63) 63 = false).
    { rewrite testbit63; change (2 ^ 64) with 18446744073709551616 in *;
        change (2 ^ 63) with 9223372036854775808 in *; lia. }
    pose proof (Z.add_nocarry_lxor _ _ (land_pow63 _ T')) as A.
    replace (Z.lxor r (2 ^ 63)) with (Z.lxor (r - 2 ^ 63 + 2 ^ 63) (2 ^ 63)) by (f_equal; lia).
    rewrite A. rewrite Z.lxor_assoc, Z.lxor_nilpotent, Z.lxor_0_r. reflexivity.
  - symmetry. apply Z.add_nocarry_lxor. apply land_pow63. assumption.
Qed.

Definition f64_pat (r : Z) : Prop := 0 <= r < 2 ^ 64.

Ltac p63 :=
  change (2 ^ 64) with 18446744073709551616 in *; change (2 ^ 63) with 9223372036854775808 in *;
  repeat match goal with
         | |- context [if ?b then _ else _] => destruct b eqn:?
         | H : context [if ?b then _ else _] |- _ => destruct b eqn:?
         end; try lia.

(* neg flips the sign bit and abs clears it; the other 63 bits are untouched *)
Lemma f64_neg_flip r : f64_pat r ->
  f64_pat (Z.lxor r (2 ^ 63)) /\ f64_neg (Z.lxor r (2 ^ 63)) = negb (f64_neg r) /\
  (Z.lxor r (2 ^ 63)) mod 2 ^ 63 = r mod 2 ^ 63.
Proof.
  intros H. unfold f64_pat, f64_neg in *. pose proof (lxor63 r H) as L.
  assert (Hr : 0 <= Z.lxor r (2 ^ 63) < 2 ^ 64).
  { rewrite L. p63. }
  split; [assumption|]. rewrite !testbit63 by assumption. rewrite L. p63.
Qed.

Lemma f64_abs_clear r : f64_pat r ->
  f64_pat (r mod 2 ^ 63) /\ f64_neg (r mod 2 ^ 63) = false /\ (r mod 2 ^ 63) mod 2 ^ 63 = r mod 2 ^ 63.
Proof.
  intros H. unfold f64_pat, f64_neg in *.
  assert (Hr : 0 <= r mod 2 ^ 63 < 2 ^ 64).
  { change (2 ^ 64) with 18446744073709551616 in *. change (2 ^ 63) with 9223372036854775808 in *. lia. }
  split; [assumption|]. rewrite testbit63 by assumption.
  change (2 ^ 64) with 18446744073709551616 in *. change (2 ^ 63) with 9223372036854775808 in *. lia.
Qed.

Lemma f64_key_neg r : f64_pat r -> f64_key (Z.lxor r (2 ^ 63)) = - f64_key r.
Proof.
  intros H. destruct (f64_neg_flip r H) as (_ & H2 & H3). unfold f64_key. rewrite H2, H3.
  destruct (f64_neg r); cbn [negb]; lia.
Qed.

Lemma f64_key_abs r : f64_pat r -> f64_key (r mod 2 ^ 63) = Z.abs (f64_key r).
Proof.
  intros H. destruct (f64_abs_clear r H) as (_ & H2 & H3). unfold f64_key. rewrite H2, H3.
  assert (0 <= r mod 2 ^ 63) by (apply Z.mod_pos_bound; reflexivity).
  destruct (f64_neg r); lia.
Qed.
