(* CompileLayout.v: facts about the jump-resolved layout of Struct.v: unfolding equations
   for [size_stmt] / [lay_stmt] (their nested fixpoints are [size_block] / [lay_block]),
   the length of a layout, the algebra of "the code vector contains this list at this
   address", and the well-formedness conditions the simulation theorem needs. *)
From Xeh Require Import Model.Prelude Model.Bits Model.Codec Model.Cell Model.Lexer Model.Fmt
                        Model.Vm Model.Words Model.Struct.
Local Notation length := List.length.

#[local] Arguments Z.add : simpl never.
#[local] Arguments Z.sub : simpl never.
#[local] Arguments Z.mul : simpl never.
#[local] Arguments Z.of_nat : simpl never.
#[local] Arguments Z.to_nat : simpl never.

Definition arm : Type := (list stmt * pos * list stmt)%type.

(* ---------- induction over statements ---------- *)
Section StmtInd.
  Variable P : stmt -> Prop.
  Variable Q : list stmt -> Prop.
  Variable R : list arm -> Prop.
  Hypothesis Hnil : Q [].
  Hypothesis Hcons : forall x r, P x -> Q r -> Q (x :: r).
  Hypothesis Rnil : R [].
  Hypothesis Rcons : forall pre p body r, Q pre -> Q body -> R r -> R ((pre, p, body) :: r).
  Hypothesis HLit : forall c p, P (SLit c p).
  Hypothesis HPrim : forall w p, P (SPrim w p).
  Hypothesis HCall : forall g p, P (SCall g p).
  Hypothesis HGet : forall a p, P (SGet a p).
  Hypothesis HSet : forall a p, P (SSet a p).
  Hypothesis HLocGet : forall i p, P (SLocGet i p).
  Hypothesis HLocSet : forall i p, P (SLocSet i p).
  Hypothesis HIf : forall p t, Q t -> P (SIf p t).
  Hypothesis HIfE : forall p t e, Q t -> Q e -> P (SIfE p t e).
  Hypothesis HCase : forall arms d, R arms -> Q d -> P (SCase arms d).
  Hypothesis HUntil : forall b p, Q b -> P (SUntil b p).
  Hypothesis HRepeat : forall b, Q b -> P (SRepeat b).
  Hypothesis HWhile : forall c p b, Q c -> Q b -> P (SWhile c p b).
  Hypothesis HDo : forall p b pl, Q b -> P (SDo p b pl).
  Hypothesis HBreak : P SBreak.
  Hypothesis HDef : forall g, P (SDef g).

  Fixpoint stmt_ind2 (x : stmt) : P x :=
    let lp := fix lp (l : list stmt) : Q l :=
                match l with
                | [] => Hnil
                | y :: r => Hcons y r (stmt_ind2 y) (lp r)
                end in
    match x with
    | SLit c p => HLit c p
    | SPrim w p => HPrim w p
    | SCall g p => HCall g p
    | SGet a p => HGet a p
    | SSet a p => HSet a p
    | SLocGet i p => HLocGet i p
    | SLocSet i p => HLocSet i p
    | SIf p t => HIf p t (lp t)
    | SIfE p t e => HIfE p t e (lp t) (lp e)
    | SCase arms d =>
      HCase arms d
            ((fix go (l : list arm) : R l :=
                match l with
                | [] => Rnil
                | (pre, p, body) :: r => Rcons pre p body r (lp pre) (lp body) (go r)
                end) arms) (lp d)
    | SUntil b p => HUntil b p (lp b)
    | SRepeat b => HRepeat b (lp b)
    | SWhile c p b => HWhile c p b (lp c) (lp b)
    | SDo p b pl => HDo p b pl (lp b)
    | SBreak => HBreak
    | SDef g => HDef g
    end.

  Fixpoint block_ind2 (l : list stmt) : Q l :=
    match l with
    | [] => Hnil
    | y :: r => Hcons y r (stmt_ind2 y) (block_ind2 r)
    end.
End StmtInd.

(* ---------- sizes ---------- *)
Fixpoint size_arms (l : list arm) : nat :=
  match l with
  | [] => 0
  | (pre, _, body) :: r => size_block pre + 1 + size_block body + 1 + size_arms r
  end.

Lemma sb_eq : forall l,
  (fix sb (l : list stmt) : nat := match l with [] => 0 | y :: r => size_stmt y + sb r end) l = size_block l.
Proof. intros. reflexivity. Qed.

Lemma size_SIf : forall p t, size_stmt (SIf p t) = 1 + size_block t.
Proof. intros. cbn [size_stmt]. rewrite sb_eq. reflexivity. Qed.
Lemma size_SIfE : forall p t e, size_stmt (SIfE p t e) = 2 + size_block t + size_block e.
Proof. intros. cbn [size_stmt]. rewrite !sb_eq. reflexivity. Qed.
Lemma size_SUntil : forall b p, size_stmt (SUntil b p) = size_block b + 1.
Proof. intros. cbn [size_stmt]. rewrite sb_eq. reflexivity. Qed.
Lemma size_SRepeat : forall b, size_stmt (SRepeat b) = size_block b + 1.
Proof. intros. cbn [size_stmt]. rewrite sb_eq. reflexivity. Qed.
Lemma size_SWhile : forall c p b, size_stmt (SWhile c p b) = size_block c + 1 + size_block b + 1.
Proof. intros. cbn [size_stmt]. rewrite !sb_eq. reflexivity. Qed.
Lemma size_SDo : forall p b pl, size_stmt (SDo p b pl) = 1 + size_block b + 1.
Proof. intros. cbn [size_stmt]. rewrite sb_eq. reflexivity. Qed.
Lemma size_SCase : forall arms d, size_stmt (SCase arms d) = size_arms arms + size_block d.
Proof.
  intros. reflexivity.
Qed.

(* ---------- layouts ---------- *)
Section Lay.
  Variable faddr : nat -> nat.

  Fixpoint lay_arms (bc : brk_ctx) (endp : nat) (l : list arm) (d : list stmt) (o : nat) : list opcode :=
    match l with
    | [] => lay_block faddr d o bc
    | (pre, _, body) :: r =>
      let o1 := o + size_block pre in
      let o2 := S o1 + size_block body in
      lay_block faddr pre o bc ++ (OCaseOf (Z.of_nat (2 + size_block body)) :: lay_block faddr body (S o1) bc)
      ++ (OJump (rel o2 endp) :: lay_arms bc endp r d (S o2))
    end.

  Lemma lb_eq : forall l o bc,
    (fix lb (l : list stmt) (o : nat) (bc : brk_ctx) : list opcode :=
       match l with
       | [] => []
       | y :: r => lay_stmt faddr y o bc ++ lb r (o + size_stmt y) bc
       end) l o bc = lay_block faddr l o bc.
  Proof. intros. reflexivity. Qed.

  Lemma lay_SIf : forall p t org bc,
    lay_stmt faddr (SIf p t) org bc = OJumpIfNot (Z.of_nat (1 + size_block t)) :: lay_block faddr t (S org) bc.
  Proof. intros. cbn [lay_stmt]. rewrite lb_eq. reflexivity. Qed.

  Lemma lay_SIfE : forall p t e org bc,
    lay_stmt faddr (SIfE p t e) org bc =
    (OJumpIfNot (Z.of_nat (2 + size_block t)) :: lay_block faddr t (S org) bc)
    ++ (OJump (Z.of_nat (1 + size_block e)) :: lay_block faddr e (org + 2 + size_block t) bc).
  Proof. intros. cbn [lay_stmt]. rewrite !lb_eq. reflexivity. Qed.

  Lemma lay_SUntil : forall b p org bc,
    lay_stmt faddr (SUntil b p) org bc = lay_block faddr b org BNone ++ [OJumpIfNot (- Z.of_nat (size_block b))%Z].
  Proof. intros. cbn [lay_stmt]. rewrite lb_eq. reflexivity. Qed.

  Lemma lay_SRepeat : forall b org bc,
    lay_stmt faddr (SRepeat b) org bc =
    lay_block faddr b org (BJump (org + size_block b + 1)) ++ [OJump (- Z.of_nat (size_block b))%Z].
  Proof. intros. cbn [lay_stmt]. rewrite lb_eq. reflexivity. Qed.

  Lemma lay_SWhile : forall c p b org bc,
    lay_stmt faddr (SWhile c p b) org bc =
    let nc := size_block c in
    let nb := size_block b in
    let endp := org + nc + 1 + nb + 1 in
    lay_block faddr c org (BJump endp)
    ++ (OJumpIfNot (Z.of_nat (nb + 2)) :: lay_block faddr b (org + nc + 1) (BJump endp))
    ++ [OJump (- Z.of_nat (nc + 1 + nb))%Z].
  Proof. intros. cbn [lay_stmt]. rewrite !lb_eq. reflexivity. Qed.

  Lemma lay_SDo : forall p b pl org bc,
    lay_stmt faddr (SDo p b pl) org bc =
    (ODo (Z.of_nat (size_block b + 2)) :: lay_block faddr b (S org) (BLoop (org + size_block b + 2)))
    ++ [OLoop (- Z.of_nat (size_block b))%Z].
  Proof. intros. cbn [lay_stmt]. rewrite lb_eq. reflexivity. Qed.

  Lemma lay_SCase : forall arms d org bc,
    lay_stmt faddr (SCase arms d) org bc = lay_arms bc (org + size_stmt (SCase arms d)) arms d org.
  Proof.
    intros. cbn [lay_stmt].
    remember (org + size_stmt (SCase arms d)) as endp eqn:E. clear E.
    generalize org. induction arms as [|[[pre p] body] r IH]; intro o.
    - cbn [lay_arms]. apply lb_eq.
    - cbn [lay_arms]. rewrite <- IH. rewrite !lb_eq. reflexivity.
  Qed.

  Definition brk_op (p : nat) (bc : brk_ctx) : opcode :=
    match bc with
    | BJump t => OJump (rel p t)
    | BLoop t => OBreak (rel p t)
    | BNone => ONop
    end.

  Lemma lay_SBreak : forall org bc, lay_stmt faddr SBreak org bc = [brk_op org bc].
  Proof. intros. destruct bc; reflexivity. Qed.

  (* ---------- the length of a layout ---------- *)
  Lemma lay_length_all :
    (forall x, forall org bc, length (lay_stmt faddr x org bc) = size_stmt x).
  Proof.
    apply (stmt_ind2
             (fun x => forall org bc, length (lay_stmt faddr x org bc) = size_stmt x)
             (fun l => forall org bc, length (lay_block faddr l org bc) = size_block l)
             (fun arms => forall d bc endp o,
                  (forall org bc, length (lay_block faddr d org bc) = size_block d) ->
                  length (lay_arms bc endp arms d o) = size_arms arms + size_block d)).
    - reflexivity.
    - intros x r Hx Hr org bc. cbn [lay_block size_block]. rewrite app_length, Hx, Hr. reflexivity.
    - intros d bc endp o Hd. cbn [lay_arms size_arms]. apply Hd.
    - intros pre p body r Hpre Hbody Hr d bc endp o Hd. cbn [lay_arms size_arms].
      rewrite ?app_length. cbn [length]. rewrite ?app_length. cbn [length].
      rewrite Hpre, Hbody, (Hr d bc endp _ Hd). lia.
    - reflexivity.
    - reflexivity.
    - reflexivity.
    - reflexivity.
    - reflexivity.
    - reflexivity.
    - reflexivity.
    - intros p t Ht org bc. rewrite lay_SIf, size_SIf. cbn [length]. rewrite Ht. reflexivity.
    - intros p t e Ht He org bc. rewrite lay_SIfE, size_SIfE. rewrite app_length. cbn [length]. rewrite Ht, He. lia.
    - intros arms d Ha Hd org bc. rewrite lay_SCase, size_SCase. apply Ha. exact Hd.
    - intros b p Hb org bc. rewrite lay_SUntil, size_SUntil, app_length, Hb. reflexivity.
    - intros b Hb org bc. rewrite lay_SRepeat, size_SRepeat, app_length, Hb. reflexivity.
    - intros c p b Hc Hb org bc. rewrite lay_SWhile, size_SWhile. cbv zeta.
      rewrite ?app_length. cbn [length]. rewrite ?app_length. cbn [length]. rewrite Hc, Hb. lia.
    - intros p b pl Hb org bc. rewrite lay_SDo, size_SDo, app_length. cbn [length]. rewrite Hb. lia.
    - intros org bc. rewrite lay_SBreak. reflexivity.
    - reflexivity.
  Qed.

  Lemma lay_stmt_length : forall x org bc, length (lay_stmt faddr x org bc) = size_stmt x.
  Proof. exact lay_length_all. Qed.

  Lemma lay_block_length : forall l org bc, length (lay_block faddr l org bc) = size_block l.
  Proof.
    induction l as [|x r IH]; intros org bc; [reflexivity|].
    cbn [lay_block size_block]. rewrite app_length, lay_stmt_length, IH. reflexivity.
  Qed.

  Lemma lay_arms_length : forall arms d bc endp o,
    length (lay_arms bc endp arms d o) = size_arms arms + size_block d.
  Proof.
    induction arms as [|[[pre p] body] r IH]; intros d bc endp o; cbn [lay_arms size_arms].
    - apply lay_block_length.
    - rewrite ?app_length. cbn [length]. rewrite ?app_length. cbn [length].
      rewrite !lay_block_length, IH. lia.
  Qed.
End Lay.

(* ---------- the code vector contains [l] at [org] ---------- *)
Definition code_at (c : list opcode) (org : nat) (l : list opcode) : Prop :=
  forall i op, nth_error l i = Some op -> nth_error c (org + i) = Some op.

Lemma code_at_nil : forall c org, code_at c org [].
Proof. intros c org i op H. destruct i; discriminate. Qed.

Lemma code_at_cons : forall c org x l,
  code_at c org (x :: l) <-> nth_error c org = Some x /\ code_at c (S org) l.
Proof.
  intros c org x l. split.
  - intro H. split.
    + specialize (H 0 x eq_refl). rewrite Nat.add_0_r in H. exact H.
    + intros i op Hi. specialize (H (S i) op Hi). rewrite Nat.add_succ_r in H. exact H.
  - intros [H0 H1] i op Hi. destruct i as [|i].
    + cbn in Hi. injection Hi as <-. rewrite Nat.add_0_r. exact H0.
    + rewrite Nat.add_succ_r. apply (H1 i op Hi).
Qed.

Lemma code_at_app : forall c org a b,
  code_at c org (a ++ b) <-> code_at c org a /\ code_at c (org + length a) b.
Proof.
  intros c org a b. split.
  - intro H. split.
    + intros i op Hi. apply H. rewrite nth_error_app1; [exact Hi|]. apply nth_error_Some. congruence.
    + intros i op Hi. rewrite <- Nat.add_assoc. apply H.
      rewrite nth_error_app2 by lia. replace (length a + i - length a) with i by lia. exact Hi.
  - intros [Ha Hb] i op Hi. destruct (Nat.lt_ge_cases i (length a)) as [Hlt|Hge].
    + rewrite nth_error_app1 in Hi by exact Hlt. apply Ha. exact Hi.
    + rewrite nth_error_app2 in Hi by exact Hge. specialize (Hb _ _ Hi).
      replace (org + i) with (org + length a + (i - length a)) by lia. exact Hb.
Qed.

Lemma code_at_one : forall c org x, code_at c org [x] <-> nth_error c org = Some x.
Proof.
  intros. rewrite code_at_cons. split; [tauto|]. intro H. split; [exact H|apply code_at_nil].
Qed.

Lemma nth_firstn_lt : forall A n (l : list A) i, i < n -> nth_error (firstn n l) i = nth_error l i.
Proof.
  induction n as [|n IH]; intros l i H; [lia|].
  destruct l as [|x l]; [destruct i; reflexivity|]. destruct i as [|i]; [reflexivity|].
  cbn [firstn nth_error]. apply IH. lia.
Qed.

Lemma nth_skipn_add : forall A n (l : list A) i, nth_error (skipn n l) i = nth_error l (n + i).
Proof.
  induction n as [|n IH]; intros l i; [reflexivity|].
  destruct l as [|x l]; [destruct i; reflexivity|]. cbn [skipn Nat.add nth_error]. apply IH.
Qed.

Lemma code_at_slice : forall c org l, firstn (length l) (skipn org c) = l -> code_at c org l.
Proof.
  intros c org l H i op Hi.
  assert (Hlt : i < length l) by (apply nth_error_Some; congruence).
  rewrite <- H in Hi. rewrite nth_firstn_lt in Hi by exact Hlt.
  rewrite nth_skipn_add in Hi. exact Hi.
Qed.

Lemma code_at_middle : forall pre l post, code_at (pre ++ l ++ post) (length pre) l.
Proof.
  intros pre l post i op Hi. rewrite nth_error_app2 by lia.
  replace (length pre + i - length pre) with i by lia.
  rewrite nth_error_app1; [exact Hi|]. apply nth_error_Some. congruence.
Qed.

(* ---------- well-formed trees ---------- *)
(* [nb_*]: no `break` that belongs to a loop outside of the tree *)
Inductive nb_s : stmt -> Prop :=
| nb_Lit : forall c p, nb_s (SLit c p)
| nb_Prim : forall w p, nb_s (SPrim w p)
| nb_Call : forall g p, nb_s (SCall g p)
| nb_Get : forall a p, nb_s (SGet a p)
| nb_Set : forall a p, nb_s (SSet a p)
| nb_LocGet : forall i p, nb_s (SLocGet i p)
| nb_LocSet : forall i p, nb_s (SLocSet i p)
| nb_If : forall p t, nb_b t -> nb_s (SIf p t)
| nb_IfE : forall p t e, nb_b t -> nb_b e -> nb_s (SIfE p t e)
| nb_Case : forall arms d, nb_a arms -> nb_b d -> nb_s (SCase arms d)
| nb_Until : forall b p, nb_b b -> nb_s (SUntil b p)
| nb_Repeat : forall b, nb_s (SRepeat b)
| nb_While : forall c p b, nb_s (SWhile c p b)
| nb_Do : forall p b pl, nb_s (SDo p b pl)
| nb_Def : forall g, nb_s (SDef g)
with nb_b : list stmt -> Prop :=
| nb_nil : nb_b []
| nb_cons : forall x r, nb_s x -> nb_b r -> nb_b (x :: r)
with nb_a : list arm -> Prop :=
| nba_nil : nb_a []
| nba_cons : forall pre p body r, nb_b pre -> nb_b body -> nb_a r -> nb_a ((pre, p, body) :: r).

(* [wf_*]: the body of every begin ... until is free of pending breaks (the compiler
   refuses the others: `until` finds a Break on the flow stack) *)
Inductive wf_s : stmt -> Prop :=
| wf_Lit : forall c p, wf_s (SLit c p)
| wf_Prim : forall w p, wf_s (SPrim w p)
| wf_Call : forall g p, wf_s (SCall g p)
| wf_Get : forall a p, wf_s (SGet a p)
| wf_Set : forall a p, wf_s (SSet a p)
| wf_LocGet : forall i p, wf_s (SLocGet i p)
| wf_LocSet : forall i p, wf_s (SLocSet i p)
| wf_If : forall p t, wf_b t -> wf_s (SIf p t)
| wf_IfE : forall p t e, wf_b t -> wf_b e -> wf_s (SIfE p t e)
| wf_Case : forall arms d, wf_a arms -> wf_b d -> wf_s (SCase arms d)
| wf_Until : forall b p, wf_b b -> nb_b b -> wf_s (SUntil b p)
| wf_Repeat : forall b, wf_b b -> wf_s (SRepeat b)
| wf_While : forall c p b, wf_b c -> wf_b b -> wf_s (SWhile c p b)
| wf_Do : forall p b pl, wf_b b -> wf_s (SDo p b pl)
| wf_Break : wf_s SBreak
| wf_Def : forall g, wf_s (SDef g)
with wf_b : list stmt -> Prop :=
| wf_nil : wf_b []
| wf_cons : forall x r, wf_s x -> wf_b r -> wf_b (x :: r)
with wf_a : list arm -> Prop :=
| wfa_nil : wf_a []
| wfa_cons : forall pre p body r, wf_b pre -> wf_b body -> wf_a r -> wf_a ((pre, p, body) :: r).

(* what `break` may be in a context: with no enclosing loop there must be none *)
Definition brk_ok (bc : brk_ctx) (b : list stmt) : Prop := bc = BNone -> nb_b b.
Definition brk_ok_s (bc : brk_ctx) (x : stmt) : Prop := bc = BNone -> nb_s x.
Definition brk_ok_a (bc : brk_ctx) (a : list arm) : Prop := bc = BNone -> nb_a a.
