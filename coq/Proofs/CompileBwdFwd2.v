(* CompileBwdFwd2.v: the strengthened forward simulation, part 2: do ... loop,
   case ... endcase, and the induction on the evaluator's fuel (follows CompileFwd2.v). *)
From Xeh Require Import Model.Prelude Model.Bits Model.Codec Model.Cell Model.Lexer Model.Fmt
                        Model.Vm Model.Words Model.Struct
                        Proofs.VmFrame Proofs.CompileSim Proofs.CompileLayout Proofs.CompileStep
                        Proofs.CompileEval Proofs.CompileFwd Proofs.CompileBwdStep Proofs.CompileBwdFwd.
Local Notation length := List.length.

#[local] Arguments Z.add : simpl never.
#[local] Arguments Z.sub : simpl never.
#[local] Arguments Z.mul : simpl never.
#[local] Arguments Z.ltb : simpl never.
#[local] Arguments Z.leb : simpl never.
#[local] Arguments Z.eqb : simpl never.
#[local] Arguments Z.of_nat : simpl never.
#[local] Arguments Z.to_nat : simpl never.

Section FwdQ2.
  Variable fo : fops.
  Variable funs : list (nat * list stmt).
  Variable faddr : nat -> nat.
  Variable c : list opcode.
  Variable W : nat.
  Notation nf := (native_fn fo).
  Notation Qb := (Qb fo funs faddr c W).
  Notation Qs := (Qs fo funs faddr c W).
  Notation Qs_at := (Qs_at fo funs faddr c W).

  Hypothesis placed : funs_placed funs faddr c.
  Hypothesis closed : funs_closed funs.
  Hypothesis W_pos : 1 <= W.
  Hypothesis W_body : forall g body, fun_body funs g = Some body -> wt_block body <= W.

  Ltac ok_shift := (eapply okq_endp; cycle 1).

  (* ---------- do ... loop ---------- *)
  (* the region is the whole statement [org, endp); the budget is bounded by what the body may
     spend and by the number of trips that are left: every trip is at least one machine step *)
  Lemma do_loopq : forall f b0 pl org bc endp K,
    Qb f -> wf_b b0 -> cl_b funs b0 ->
    code_at c (S org) (lay_block faddr b0 (S org) (BLoop endp)) ->
    nth_error c (S org + size_block b0) = Some (OLoop (- Z.of_nat (size_block b0))%Z) ->
    endp = org + size_block b0 + 2 ->
    forall k B t s, B <= f - wt_block b0 -> B <= W * k ->
                    mach c s -> ip s = S org -> rskeys s = K -> sim t s ->
                    okq nf c W (inreg K org endp) s endp bc B (do_iter fo funs f b0 pl k t).
  Proof.
    intros f b0 pl org bc endp K HB Wf Cl Cb Cl0 Eend.
    induction k as [|k IH]; intros B t s HB1 HB2 M Hip HK Hsim.
    { cbn [do_iter]. apply okq_out_small. lia. }
    cbn [do_iter].
    pose proof (HB b0 (S org) (BLoop endp) t s Wf Cl ltac:(intro; discriminate) Cb M Hip Hsim) as H.
    eapply okq_mono with (R' := inreg K org endp) in H; [|reg_sub].
    eapply okq_weaken with (B := B) in H; [|lia].
    destruct (sblock fo funs f b0 t) as [t3|t3|k0 pl0 p0 t3| |]; try exact H.
    - cbn [okq] in H. destruct H as (s3 & R3 & M3 & I3 & S3 & K3).
      eapply okq_reach; [exact R3|exact K3|].
      rewrite <- I3 in Cl0.
      eapply step_run_mq; [apply par_loop_next|exact S3|exact M3|reg_here|exact Cl0|discriminate|intro; reflexivity|].
      intros more t4 s4 Em S4 A4 F. destruct more; cbv beta iota in F |- *.
      + destruct (cont_goto c s3 s4 t4 (jump_target (ip s3) (- Z.of_nat (size_block b0))%Z) A4 S4)
          as (s5 & E5 & M5 & I5 & S5 & K5). rewrite E5 in F.
        eapply okq_step with (B1 := B - W); [reg_here|exact F|exact K5| |lia].
        rewrite jt_back in I5 by lia.
        apply IH; try assumption; try lia; try congruence.
      + eapply cont_run_mq; [apply par_pop_loop|exact M3|exact Cl0|reg_here|exact S4|exact A4|exact F|].
        intros l t5 s5 E5 S5 A5 F5. cbv beta in F5 |- *.
        destruct (cont_next c s3 s5 t5 A5 S5) as (s6 & E6 & M6 & I6 & S6 & K6). rewrite E6 in F5.
        eapply okq_step0; [reg_here|exact F5|exact K6|].
        ok_shift. { apply okq_done_here; eassumption. } lia.
    - cbn [okq] in H. destruct H as (s3 & R3 & HR3 & M3 & C3 & _ & S3 & K3). cbn [brk_op] in C3.
      eapply okq_reach; [exact R3|exact K3|].
      eapply step_run_mq; [apply par_pop_loop|exact S3|exact M3|exact HR3|exact C3|discriminate|intro; reflexivity|].
      intros l t4 s4 Em S4 A4 F. cbv beta in F.
      destruct (cont_goto c s3 s4 t4 (jump_target (ip s3) (rel (ip s3) endp)) A4 S4)
        as (s5 & E5 & M5 & I5 & S5 & K5). rewrite E5 in F.
      eapply okq_step0; [exact HR3|exact F|exact K5|].
      rewrite jt_rel in I5.
      ok_shift. { apply okq_done_here; eassumption. } exact I5.
  Qed.

  Lemma caseq_Do : forall f p b0 pl, Qb f -> Qs_at (S f) (SDo p b0 pl).
  Proof.
    intros f p b0 pl HB org bc t s Wf Cl B C M Hip Hsim. rewrite sstmt_Do.
    rewrite lay_SDo in C. apply code_at_app in C. destruct C as [C0 C2].
    apply code_at_cons in C0. destruct C0 as [C0 C1].
    cbn [length] in C2. rewrite lay_block_length in C2. apply code_at_one in C2.
    rewrite size_SDo, wt_SDo. inversion Wf; subst. inversion Cl; subst.
    eapply step_run_mq; [apply par_do_init|exact Hsim|exact M|reg_here|exact C0|discriminate|intro; reflexivity|].
    intros l t1 s1 Em S1 A1 F. cbv beta in F |- *.
    destruct (l_end l <=? l_start l)%Z.
    - destruct (cont_goto c s s1 t1 (jump_target (ip s) (Z.of_nat (size_block b0 + 2))) A1 S1)
        as (s2 & E2 & M2 & I2 & S2 & K2). rewrite E2 in F.
      eapply okq_step0; [reg_here|exact F|exact K2|].
      rewrite jt_fwd in I2.
      ok_shift. { apply okq_done_here; eassumption. } lia.
    - eapply cont_run_mq; [apply par_push_loop|exact M|exact C0|reg_here|exact S1|exact A1|exact F|].
      intros u t2 s2 E2 S2 A2 F2. cbv beta in F2 |- *.
      destruct (cont_next c s s2 t2 A2 S2) as (s3 & E3 & M3 & I3 & S3 & K3). rewrite E3 in F2.
      eapply okq_step0; [reg_here|exact F2|exact K3|].
      replace (ip s + (1 + size_block b0 + 1)) with (ip s + size_block b0 + 2) by lia.
      eapply (do_loopq f b0 pl (ip s) bc (ip s + size_block b0 + 2) (rskeys s)); try assumption; try reflexivity.
      + replace (S (ip s) + size_block b0) with (ip s + S (size_block b0)) by lia. exact C2.
      + (* the trips: f of them *)
        pose proof (Nat.mul_le_mono_r 1 W f W_pos) as Hmul. lia.
  Qed.

  (* ---------- case ... endcase ---------- *)
  Lemma case_arms_okq : forall f d bc endp K lo B,
    Qb f -> wf_b d -> cl_b funs d -> brk_ok bc d -> B <= f - wt_block d ->
    forall arms o t s,
      wf_a arms -> cl_a funs arms -> brk_ok_a bc arms ->
      code_at c o (lay_arms faddr bc endp arms d o) ->
      endp = o + size_arms arms + size_block d ->
      B <= f - wt_arms arms -> lo <= o ->
      mach c s -> ip s = o -> rskeys s = K -> sim t s ->
      okq nf c W (inreg K lo endp) s endp bc B (case_go fo funs f d arms t).
  Proof.
    intros f d bc endp K lo B HB Wd Cld Bd HBd.
    induction arms as [|[[pre pof] body] r IH]; intros o t s Wa Cla Ba C E HBa Hlo M Hip HK Hsim.
    - cbn [case_go lay_arms size_arms] in *.
      ok_shift. { eapply okq_weaken; [|eapply okq_mono; [|apply (HB d o bc t s); assumption]]; [lia|reg_sub]. } lia.
    - cbn [case_go]. cbn [lay_arms] in C. cbv zeta in C. cbn [wt_arms size_arms] in *.
      apply code_at_app in C. destruct C as [Cpre C]. rewrite lay_block_length in C.
      apply code_at_app in C. destruct C as [Cof Cj]. cbn [length] in Cj. rewrite lay_block_length in Cj.
      apply code_at_cons in Cof. destruct Cof as [Cof Cbody].
      apply code_at_cons in Cj. destruct Cj as [Cj Crest].
      inversion Wa; subst. inversion Cla; subst.
      assert (Bpre : brk_ok bc pre) by (intro E0; specialize (Ba E0); inversion Ba; assumption).
      assert (Bbody : brk_ok bc body) by (intro E0; specialize (Ba E0); inversion Ba; assumption).
      assert (Br : brk_ok_a bc r) by (intro E0; specialize (Ba E0); inversion Ba; assumption).
      set (endp := ip s + (size_block pre + 1 + size_block body + 1 + size_arms r) + size_block d) in *.
      pose proof (HB pre (ip s) bc t s ltac:(assumption) ltac:(assumption) Bpre Cpre M eq_refl Hsim) as H.
      eapply okq_mono with (R' := inreg (rskeys s) lo endp) in H; [|unfold endp; reg_sub].
      eapply okq_weaken with (B := B) in H; [|lia].
      destruct (sblock fo funs f pre t) as [t1|t1|k0 pl0 p0 t1| |]; try exact H.
      cbn [okq] in H. destruct H as (s1 & R1 & M1 & I1 & S1 & K1).
      eapply okq_reach; [exact R1|exact K1|].
      rewrite <- I1 in Cof.
      eapply step_run_mq; [apply par_m_caseof|exact S1|exact M1|unfold endp; reg_here|exact Cof|discriminate|intro; apply exec_caseof|].
      intros eq t2 s2 Em S2 A2 F. destruct eq; cbv beta iota in F |- *.
      + eapply cont_run_mq; [apply par_pop_data|exact M1|exact Cof|unfold endp; reg_here|exact S2|exact A2|exact F|].
        intros v t3 s3 E3 S3 A3 F3. cbv beta in F3 |- *.
        destruct (cont_next c s1 s3 t3 A3 S3) as (s4 & E4 & M4 & I4 & S4 & K4). rewrite E4 in F3.
        eapply okq_step0; [unfold endp; reg_here|exact F3|exact K4|].
        replace (ip s + size_block pre + S (size_block body)) with (S (ip s + size_block pre) + size_block body) in Cj by lia.
        eapply okq_then_jump; [|exact Cj|apply jt_rel|].
        * eapply okq_weaken; [|eapply okq_mono; [|apply (HB body (S (ip s + size_block pre)) bc t3 s4); try assumption; lia]];
            [lia|unfold endp; reg_sub].
        * intros s5 I5 K5. unfold endp. reg_here.
      + destruct (cont_goto c s1 s2 t2 (jump_target (ip s1) (Z.of_nat (2 + size_block body))) A2 S2)
          as (s3 & E3 & M3 & I3 & S3 & K3). rewrite E3 in F.
        eapply okq_step0; [unfold endp; reg_here|exact F|exact K3|].
        rewrite jt_fwd in I3.
        replace (S (ip s + size_block pre + S (size_block body)))
          with (S (S (ip s + size_block pre) + size_block body)) in Crest by lia.
        apply (IH (S (S (ip s + size_block pre) + size_block body)) t2 s3); try assumption.
        * unfold endp. lia.
        * lia.
        * lia.
        * lia.
        * congruence.
  Qed.

  Lemma caseq_Case : forall f arms d, Qb f -> Qs_at (S f) (SCase arms d).
  Proof.
    intros f arms d HB org bc t s Wf Cl B C M Hip Hsim. rewrite sstmt_Case.
    rewrite lay_SCase in C. inversion Wf; subst. inversion Cl; subst.
    assert (Ba : brk_ok_a bc arms) by (intro E0; specialize (B E0); inversion B; assumption).
    assert (Bd : brk_ok bc d) by (intro E0; specialize (B E0); inversion B; assumption).
    rewrite wt_SCase.
    eapply case_arms_okq; try eassumption; try reflexivity; try lia.
    rewrite size_SCase. lia.
  Qed.

  (* ---------- the induction on the fuel ---------- *)
  Lemma stmtq_step : forall f, Qb f -> Qs f -> Qs (S f).
  Proof.
    intros f HB HS x. destruct x.
    - apply caseq_Lit; assumption.
    - apply caseq_Prim; assumption.
    - apply caseq_Call; assumption.
    - apply caseq_Get; assumption.
    - apply caseq_Set; assumption.
    - apply caseq_LocGet; assumption.
    - apply caseq_LocSet; assumption.
    - apply caseq_If; assumption.
    - apply caseq_IfE; assumption.
    - apply caseq_Case; assumption.
    - apply caseq_Until; assumption.
    - apply caseq_Repeat; assumption.
    - apply caseq_While; assumption.
    - apply caseq_Do; assumption.
    - apply caseq_Break; assumption.
    - apply caseq_Def; assumption.
  Qed.

  Theorem fwdq_all : forall f, Qb f /\ Qs f.
  Proof.
    induction f as [|f [HB HS]].
    - split.
      + intros b org bc t s _ _ _ _ _ _ _. cbn [sblock]. apply okq_out_small. lia.
      + intros x org bc t s _ _ _ _ _ _ _. cbn [sstmt]. apply okq_out_small. lia.
    - split.
      + apply blockq_step; assumption.
      + apply stmtq_step; assumption.
  Qed.
End FwdQ2.
