(* StructDo.v: the trip count of a counted loop.
   * limit <= start: the body is not evaluated at all;
   * start < limit: when every evaluation of the body runs to its end, the body is evaluated
     exactly limit - start times, with the index start, start+1, ..., limit-1 on top of the
     loop stack, and the loop's record is popped afterwards. *)
From Xeh Require Import Model.Prelude Model.Bits Model.Codec Model.Cell Model.Lexer Model.Fmt
                        Model.Vm Model.Words Model.Struct
                        Proofs.VmFrame Proofs.StructBase Proofs.StructNat Proofs.StructInv Proofs.StructLoops.
Local Notation length := List.length.

(* n evaluations of the body, each followed by the increment of `loop` *)
Fixpoint trips (body : state -> sres) (n : nat) (s : state) : option state :=
  match n with
  | O => Some s
  | S n' =>
    match body s with
    | SDone s3 => match loop_next s3 with
                  | ROk _ s4 => trips body n' s4
                  | _ => None
                  end
    | _ => None
    end
  end.

Lemma loop_next_guard : forall s m s',
  loop_next s = ROk m s' -> (ls_len (cx s) <? length (loops s)) = true.
Proof.
  intros s m s' H. unfold loop_next in H. destruct (loops s); [ discriminate | ].
  destruct (Nat.ltb _ _); [ reflexivity | discriminate ].
Qed.

Lemma pop_loop_succeeds : forall s l r,
  loops s = l :: r -> (ls_len (cx s) <? length (loops s)) = true ->
  exists s', pop_loop s = ROk l s'.
Proof.
  intros s l r E G. unfold pop_loop. rewrite E in *. rewrite G. eauto.
Qed.

Lemma loop_next_succeeds : forall s l r,
  loops s = l :: r -> (ls_len (cx s) <? length (loops s)) = true ->
  exists s', loop_next s = ROk (next_start l <? l_end l)%Z s'.
Proof.
  intros s l r E G. unfold loop_next. rewrite E in *. rewrite G. unfold next_start. eauto.
Qed.

Section Trips.
  Variable body : state -> sres.
  Variable pl : pos.
  (* the body keeps index and limit of the loop records and the context marks *)
  Hypothesis Hbody : forall s s', body s = SDone s' ->
    cx s' = cx s /\ map lkey (loops s') = map lkey (loops s).

  Lemma trip_step : forall s l r s3 m s4,
    loops s = l :: r -> body s = SDone s3 -> loop_next s3 = ROk m s4 ->
    exists l4 r4, loops s4 = l4 :: r4 /\ l_start l4 = next_start l /\ l_end l4 = l_end l /\
                  map lkey r4 = map lkey r /\ m = (next_start l <? l_end l)%Z /\
                  cx s4 = cx s /\ (ls_len (cx s4) <? length (loops s4)) = true.
  Proof.
    intros s l r s3 m s4 El Eb En.
    destruct (Hbody s s3 Eb) as [C3 M3]. rewrite El in M3.
    apply map_lkey_cons_inv in M3 as (l3 & r3 & E3 & K3 & M3).
    pose proof (loop_next_guard _ _ _ En) as G.
    apply loop_next_ok in En as (C4 & _ & l' & r' & E' & E4 & Em).
    rewrite E3 in E'. injection E' as <- <-.
    unfold lkey in K3. injection K3 as Ks Ke.
    assert (Ns : next_start l3 = next_start l) by (unfold next_start; rewrite Ks, Ke; reflexivity).
    exists (mkloop (l_items l3) (next_start l3) (l_end l3)), r3.
    cbn [l_start l_end]. rewrite Ns, Ke in *. repeat split; auto; try congruence.
    rewrite C4, E4. rewrite E3 in G. exact G.
  Qed.

  (* the index seen by the (i+1)-th evaluation of the body *)
  Lemma trips_index : forall i s l r si,
    loops s = l :: r -> (Z.of_nat i <= l_end l - l_start l)%Z ->
    trips body i s = Some si ->
    exists li ri, loops si = li :: ri /\ l_start li = (l_start l + Z.of_nat i)%Z /\ l_end li = l_end l /\
                  map lkey ri = map lkey r.
  Proof.
    induction i as [| i IH]; intros s l r si El Hi H.
    - cbn [trips] in H. injection H as <-. exists l, r. repeat split; auto. lia.
    - cbn [trips] in H. destruct (body s) as [s3 | | | |] eqn:Eb; try discriminate.
      destruct (loop_next s3) as [m s4 | | |] eqn:En; try discriminate.
      destruct (trip_step s l r s3 m s4 El Eb En) as (l4 & r4 & E4 & S4 & L4 & M4 & _).
      assert (N : next_start l = (l_start l + 1)%Z).
      { unfold next_start. destruct (Z.ltb_spec (l_start l) (l_end l)); lia. }
      destruct (IH s4 l4 r4 si E4) as (li & ri & Ei & Si & Li & Mi); [ lia | exact H | ].
      exists li, ri. repeat split; try congruence. lia.
  Qed.

  Lemma do_iter_trips : forall n k s l r s4,
    loops s = l :: r -> (l_start l < l_end l)%Z -> n = Z.to_nat (l_end l - l_start l) -> n <= k ->
    trips body n s = Some s4 ->
    do_iter body pl k s = run_m pop_loop pl s4 (fun _ s5 => SDone s5) /\
    (ls_len (cx s4) <? length (loops s4)) = true /\ cx s4 = cx s /\
    exists l4 r4, loops s4 = l4 :: r4 /\ l_start l4 = l_end l /\ l_end l4 = l_end l /\
                  map lkey r4 = map lkey r.
  Proof.
    induction n as [| n IH]; intros k s l r s4 El Hlt Hn Hk H; [ lia | ].
    destruct k as [| k]; [ lia | ].
    cbn [trips] in H. destruct (body s) as [s3 | | | |] eqn:Eb; try discriminate.
    destruct (loop_next s3) as [m s4' | | |] eqn:En; try discriminate.
    destruct (trip_step s l r s3 m s4' El Eb En) as (l4 & r4 & E4 & S4 & L4 & M4 & Em & C4 & G4).
    assert (N : next_start l = (l_start l + 1)%Z).
    { unfold next_start. destruct (Z.ltb_spec (l_start l) (l_end l)); lia. }
    rewrite do_iter_S, Eb. cbn [on_res]. rewrite (run_m_ok _ _ _ _ _ _ _ En).
    destruct n as [| n].
    - (* the last trip *)
      cbn [trips] in H. injection H as <-.
      assert (Hm : (next_start l <? l_end l)%Z = false) by (apply Z.ltb_ge; lia). subst m. rewrite Hm.
      split; [ reflexivity | ]. split; [ exact G4 | ]. split; [ exact C4 | ].
      exists l4, r4. repeat split; auto. lia.
    - assert (Hm : (next_start l <? l_end l)%Z = true) by (apply Z.ltb_lt; lia). subst m. rewrite Hm.
      destruct (IH k s4' l4 r4 s4 E4) as (Hd & G & C & l5 & r5 & E5 & S5 & L5 & M5); try lia; try exact H.
      split; [ exact Hd | ]. split; [ exact G | ]. split; [ congruence | ].
      exists l5, r5. repeat split; congruence.
  Qed.
End Trips.

Lemma do_init_ok : forall s l s1,
  do_init s = ROk l s1 -> keeps false s s1 /\ l_items l = CNil.
Proof.
  intros s l s1 H. split; [ eapply wn_ok_keeps; [ apply wn_do_init | exact H ] | ].
  unfold do_init in H.
  repeat (apply bind_ok_inv in H as (? & ? & _ & H)).
  unfold ret in H. injection H as <- _. reflexivity.
Qed.

Section Do.
  Variable fo : fops.
  Variable funs : list (nat * list stmt).
  Notation sblock := (sblock fo funs).
  Notation sstmt := (sstmt fo funs).

  (* zero trips: the body is not evaluated (the result does not depend on it, nor on the fuel) *)
  Theorem do_zero_trip : forall f p b pl s l s1,
    do_init s = ROk l s1 -> (l_end l <= l_start l)%Z ->
    sstmt (S f) (SDo p b pl) s = SDone s1.
  Proof.
    intros f p b pl s l s1 Ei Hle. rewrite sstmt_SDo, (run_m_ok _ _ _ _ _ _ _ Ei).
    apply Z.leb_le in Hle. rewrite Hle. reflexivity.
  Qed.

  (* the loop stack is not touched by a zero-trip loop *)
  Corollary do_zero_trip_loops : forall f p b pl s l s1,
    do_init s = ROk l s1 -> (l_end l <= l_start l)%Z ->
    sstmt (S f) (SDo p b pl) s = SDone s1 /\ loops s1 = loops s /\ rs s1 = rs s.
  Proof.
    intros f p b pl s l s1 Ei Hle. split; [ eapply do_zero_trip; eauto | ].
    destruct (do_init_ok _ _ _ Ei) as [(R & _ & _ & L) _]. split; [ apply L; reflexivity | exact R ].
  Qed.

  (* a loop whose limits cannot be read fails at `do` *)
  Theorem do_init_fails : forall f p b pl s k pay s1,
    do_init s = RErr k pay s1 -> sstmt (S f) (SDo p b pl) s = SFail k pay p s1.
  Proof. intros. rewrite sstmt_SDo. eapply run_m_err; eauto. Qed.

  (* limit - start trips *)
  Theorem do_exact_trips : forall f p b pl s l s1 s2 n s4,
    do_init s = ROk l s1 -> (l_start l < l_end l)%Z -> push_loop l s1 = ROk tt s2 ->
    n = Z.to_nat (l_end l - l_start l) -> n <= f ->
    trips (sblock f b) n s2 = Some s4 ->
    exists l5 s5, pop_loop s4 = ROk l5 s5 /\ l_start l5 = l_end l /\ l_end l5 = l_end l /\
                  sstmt (S f) (SDo p b pl) s = SDone s5.
  Proof.
    intros f p b pl s l s1 s2 n s4 Ei Hlt Ep Hn Hf Ht.
    pose proof Ep as Ep0. apply push_loop_ok in Ep0 as (L2 & C2 & _).
    assert (Hb : forall s0 s0', sblock f b s0 = SDone s0' ->
                 cx s0' = cx s0 /\ map lkey (loops s0') = map lkey (loops s0)).
    { intros s0 s0' E. eapply loop_keys_block. left. exact E. }
    destruct (do_iter_trips (sblock f b) pl Hb n f s2 l (loops s1) s4 L2 Hlt Hn Hf Ht)
      as (Hd & G & C & l4 & r4 & E4 & S4 & L4 & M4).
    destruct (pop_loop_succeeds s4 l4 r4 E4 G) as (s5 & E5).
    exists l4, s5. repeat split; auto.
    rewrite sstmt_SDo, (run_m_ok _ _ _ _ _ _ _ Ei).
    assert (Hnle : (l_end l <=? l_start l)%Z = false) by (apply Z.leb_gt; exact Hlt).
    rewrite Hnle, (run_m_ok _ _ _ _ _ _ _ Ep), Hd, (run_m_ok _ _ _ _ _ _ _ E5). reflexivity.
  Qed.

  (* the index that the body sees in its (i+1)-th evaluation is start + i *)
  Theorem do_trip_index : forall f b l s1 s2 i si,
    push_loop l s1 = ROk tt s2 -> (Z.of_nat i <= l_end l - l_start l)%Z ->
    trips (sblock f b) i s2 = Some si ->
    exists li ri, loops si = li :: ri /\ l_start li = (l_start l + Z.of_nat i)%Z /\ l_end li = l_end l.
  Proof.
    intros f b l s1 s2 i si Ep Hi Ht. apply push_loop_ok in Ep as (L2 & _ & _).
    assert (Hb : forall s0 s0', sblock f b s0 = SDone s0' ->
                 cx s0' = cx s0 /\ map lkey (loops s0') = map lkey (loops s0)).
    { intros s0 s0' E. eapply loop_keys_block. left. exact E. }
    destruct (trips_index (sblock f b) Hb i s2 l (loops s1) si L2 Hi Ht) as (li & ri & E & S & L & _).
    exists li, ri. auto.
  Qed.
End Do.
