(* Position independence of the lexer: moving a lexer state by d bytes moves every span (those of
   error tokens included) by d and changes nothing else. *)
From Xeh Require Import Model.Prelude Model.Bits Model.Cell Model.Lexer Model.Fmt.
From Xeh Require Import Proofs.LexLoc Proofs.LexBasic Proofs.LexNext Proofs.LexNum Proofs.LexAll Proofs.LexPrintInt
  Proofs.LexStr Proofs.LexMoreNum Proofs.LexMoreCmt.
From Coq Require Import ZifyBool ZifyNat ZifyN.
Local Open Scope string_scope.

Definition shift_tok (d : nat) (t : tok) : tok :=
  match t with TErr e a b => TErr e (a + d) (b + d) | _ => t end.

Definition shift_st (d : nat) (l : lexst) : lexst :=
  mklex (lrest l) (lpos l + d) (lstart l + d) (llen l + d).

Definition shift_span (d : nat) (x : tok * nat * nat) : tok * nat * nat :=
  let '(t, a, b) := x in (shift_tok d t, a + d, b + d).

Definition sh3 (d : nat) (x : tok * string * nat) : tok * string * nat :=
  let '(t, r, p) := x in (shift_tok d t, r, p + d).

Lemma esc_map {A B} (g : A -> B) c2 (k : string -> A) e :
  g (esc_dispatch c2 k e) = esc_dispatch c2 (fun X => g (k X)) (g e).
Proof. destruct c2 as [|[[] [] [] [] [] [] [] []] [|? ?]]; reflexivity. Qed.

Lemma lex_str_shift d : forall curly f s pos tmp start endpos,
  lex_str curly f s (pos + d) tmp (start + d) (endpos + d) = sh3 d (lex_str curly f s pos tmp start endpos).
Proof.
  intros curly. induction f as [|f IH]; intros s pos tmp start endpos; [reflexivity|].
  rewrite !lex_str_S. destruct s as [|c r]; [reflexivity|].
  destruct (byte_of c =? 92)%N.
  - destruct (take_char r) as [[c2 r2]|]; [|reflexivity]. cbv zeta.
    rewrite (esc_map (sh3 d)). cbn [sh3 shift_tok].
    replace (S (pos + d) + String.length c2) with (S pos + String.length c2 + d) by lia.
    apply esc_ext. intros X. apply IH.
  - destruct (byte_of c =? 34)%N.
    + cbv zeta. destruct (next_is_ws_or_end r); reflexivity.
    + destruct (curly && starts_rdq (String c r)).
      * cbv zeta. replace (pos + d + 3) with (pos + 3 + d) by lia.
        destruct (next_is_ws_or_end (str_drop 3 (String c r))); reflexivity.
      * change (S (pos + d)) with (S pos + d). apply IH.
Qed.

Lemma lex_bits_shift d : forall s pos b endpos,
  lex_bits s (pos + d) b (endpos + d) = sh3 d (lex_bits s pos b endpos).
Proof.
  induction s as [|c r IH]; intros pos b endpos; cbn [lex_bits]; [reflexivity|].
  change (S (pos + d)) with (S pos + d).
  destruct (hex_digit c); [apply IH|].
  destruct (is_ws c); [apply IH|].
  destruct (byte_of c =? 46)%N; [apply IH|].
  destruct (byte_of c =? 120)%N; [apply IH|].
  destruct (byte_of c =? 124)%N; [reflexivity|].
  cbv zeta. cbn [sh3 shift_tok]. replace (pos + d + utf8_width c) with (pos + utf8_width c + d) by lia. reflexivity.
Qed.

Lemma skip_mlc_shift d : forall f s pos,
  skip_mlc f s (pos + d) = match skip_mlc f s pos with Some (r, p) => Some (r, p + d) | None => None end.
Proof.
  induction f as [|f IH]; intros s pos; [reflexivity|].
  cbn [skip_mlc]. destruct s as [|c r]; [reflexivity|].
  change (S (pos + d)) with (S pos + d).
  replace (pos + d + 2) with (pos + 2 + d) by lia.
  replace (pos + d + 3) with (pos + 3 + d) by lia.
  replace (pos + d + 4) with (pos + 4 + d) by lia.
  destruct (is_ws c); [|apply IH].
  destruct r as [|c1 r1]; [apply IH|].
  destruct (byte_of c1 =? 92)%N; [|apply IH].
  destruct r1 as [|c2 r2]; [apply IH|].
  destruct (byte_of c2 =? 41)%N; [|apply IH].
  destruct r2 as [|c3 r3]; [reflexivity|].
  destruct (is_ws c3); [reflexivity|apply IH].
Qed.

Definition sh2 (d : nat) (x : tok * lexst) : tok * lexst :=
  let '(t, l) := x in (shift_tok d t, shift_st d l).

Lemma num_stage1_shift d c r1 p1 :
  num_stage1 c r1 (p1 + d) = let '(np, tmp0, r2, p2) := num_stage1 c r1 p1 in (np, tmp0, r2, p2 + d).
Proof.
  unfold num_stage1. destruct (is_digit c); [reflexivity|].
  destruct ((byte_of c =? 45)%N || (byte_of c =? 43)%N); [|reflexivity].
  destruct r1 as [|c2 r1']; [reflexivity|]. destruct (is_digit c2); reflexivity.
Qed.

Lemma num_stage2_shift d is0 tmp0 r2 p2 :
  num_stage2 is0 tmp0 r2 (p2 + d) =
  let '(radix, tmp1, r3, p3) := num_stage2 is0 tmp0 r2 p2 in (radix, tmp1, r3, p3 + d).
Proof.
  unfold num_stage2. destruct is0; [|reflexivity]. destruct r2 as [|c3 r2']; [reflexivity|].
  destruct (byte_of c3 =? 98)%N; [reflexivity|]. destruct (byte_of c3 =? 120)%N; [reflexivity|].
  destruct (byte_of c3 =? 111)%N; reflexivity.
Qed.

Lemma word_finish_shift d l np radix tmp1 r3 p3 : lpos l <= p3 ->
  word_finish (shift_st d l) np radix tmp1 r3 (p3 + d) = sh2 d (word_finish l np radix tmp1 r3 p3).
Proof.
  intros Hp. unfold word_finish. cbv zeta. cbn [shift_st lpos llen lrest].
  destruct (scan_word r3 0 (numeric_of np) tmp1 false) as [[[r4 n4] tmp] has_dot].
  replace (p3 + d + n4 - (lpos l + d)) with (p3 + n4 - lpos l) by lia.
  replace (p3 + d + n4) with (p3 + n4 + d) by lia.
  destruct (negb (numeric_of np)).
  - destruct (String.eqb (str_take (p3 + n4 - lpos l) (lrest l)) "\").
    + destruct (skip_line r4 0) as [r5 n5]. cbn [sh2 shift_tok shift_st lrest lpos lstart llen].
      replace (p3 + n4 + d + n5) with (p3 + n4 + n5 + d) by lia. reflexivity.
    + destruct (String.eqb (str_take (p3 + n4 - lpos l) (lrest l)) "\(").
      * rewrite skip_mlc_shift. destruct (skip_mlc (S (String.length r4)) r4 (p3 + n4)) as [[r5 p5]|]; reflexivity.
      * reflexivity.
  - destruct has_dot.
    + destruct radix; reflexivity.
    + destruct (int_from_str_radix tmp _); reflexivity.
Qed.

Lemma lex_word_shift d l c : lex_word (shift_st d l) c = sh2 d (lex_word l c).
Proof.
  unfold lex_word. cbv zeta. cbn [shift_st lpos lrest].
  replace (lpos l + d + utf8_width c) with (lpos l + utf8_width c + d) by lia.
  rewrite num_stage1_shift.
  destruct (num_stage1 c (str_drop (utf8_width c) (lrest l)) (lpos l + utf8_width c))
    as [[[np tmp0] r2] p2] eqn:E1.
  rewrite num_stage2_shift.
  destruct (num_stage2 (is0_of np) tmp0 r2 p2) as [[[radix tmp1] r3] p3] eqn:E2.
  destruct (num_stage1_spec _ _ _ _ _ _ _ E1) as [(k1 & _ & K1 & _) _].
  destruct (num_stage2_spec _ _ _ _ _ _ _ _ E2) as [(k2 & _ & K2 & _) _].
  apply (word_finish_shift d l np radix tmp1 r3 p3). lia.
Qed.

Lemma lex_next_shift d l : lex_next (shift_st d l) = sh2 d (lex_next l).
Proof.
  rewrite !lex_next_unfold. cbv zeta. cbn [shift_st lpos lrest llen].
  destruct (skip_ws (lrest l) 0) as [r0 nws].
  destruct (0 <? nws)%nat.
  { cbn [sh2 shift_tok shift_st lrest lpos lstart llen]. replace (lpos l + d + nws) with (lpos l + nws + d) by lia. reflexivity. }
  destruct (lrest l) as [|c r] eqn:Hl; [reflexivity|].
  destruct (byte_of c =? 34)%N.
  { change (S (lpos l + d)) with (S (lpos l) + d). rewrite lex_str_shift.
    destruct (lex_str false (S (String.length r)) r (S (lpos l)) "" (lpos l) (llen l)) as [[t rest] pos]. reflexivity. }
  destruct (starts_ldq (String c r)).
  { replace (lpos l + d + 3) with (lpos l + 3 + d) by lia. rewrite lex_str_shift.
    destruct (lex_str _ _ _ (lpos l + 3) "" (lpos l) (llen l)) as [[t rest] pos]. reflexivity. }
  destruct (byte_of c =? 124)%N.
  { change (S (lpos l + d)) with (S (lpos l) + d). rewrite lex_bits_shift.
    destruct (lex_bits r (S (lpos l)) bvb_empty (llen l)) as [[t rest] pos]. reflexivity. }
  change (mklex (String c r) (lpos l + d) (lstart l + d) (llen l + d)) with
    (mklex (lrest (mklex (String c r) (lpos l) (lstart l) (llen l)))
           (lpos (mklex (String c r) (lpos l) (lstart l) (llen l)) + d)
           (lstart (mklex (String c r) (lpos l) (lstart l) (llen l)) + d)
           (llen (mklex (String c r) (lpos l) (lstart l) (llen l)) + d)).
  fold (shift_st d (mklex (String c r) (lpos l) (lstart l) (llen l))).
  rewrite lex_word_shift. reflexivity.
Qed.

Lemma lex_all_shift d : forall f l, lex_all f (shift_st d l) = map (shift_span d) (lex_all f l).
Proof.
  induction f as [|f IH]; intros l; [reflexivity|].
  rewrite !lex_all_S, lex_next_shift. destruct (lex_next l) as [t l']. cbn [sh2].
  assert (Ef : is_final (shift_tok d t) = is_final t) by (destruct t; reflexivity). rewrite Ef.
  destruct (is_final t); cbn [map shift_span shift_st lstart lpos]; [reflexivity|]. f_equal. apply IH.
Qed.

Lemma lex_from_shift d rest p n :
  lex_from rest (p + d) (n + d) = map (shift_span d) (lex_from rest p n).
Proof. unfold lex_from. rewrite <- lex_all_shift. reflexivity. Qed.

Lemma significant_shift d l : significant (map (shift_span d) l) = map (shift_span d) (significant l).
Proof.
  induction l as [|[[t a] b] l IH]; [reflexivity|].
  unfold significant in *. cbn [map filter shift_span fst].
  assert (E : is_blank_tok (shift_tok d t) = is_blank_tok t) by (destruct t; reflexivity). rewrite E.
  destruct (is_blank_tok t); cbn [negb map shift_span]; [exact IH|]. f_equal. exact IH.
Qed.

(* ---------- blank material ---------- *)

(* [blank g rest]: the text g, standing at a token boundary in front of rest, consists of
   whitespace runs, line comments (ended by the line feed that starts what follows) and closed
   multi-line comments *)
Inductive blank : string -> string -> Prop :=
| blank_nil rest : blank "" rest
| blank_ws w g rest : all_ws w = true -> blank g rest -> blank (w ++ g) rest
| blank_line cm g rest :
    next_is_ws_or_end (cm ++ g ++ rest) = true -> no_nl cm = true -> next_is_nl_or_end (g ++ rest) = true ->
    blank g rest -> blank ("\" ++ cm ++ g) rest
| blank_mlc cmt g rest i :
    next_is_ws_or_end (cmt ++ g ++ rest) = true -> first_close (cmt ++ g ++ rest) = Some i ->
    String.length cmt = Nat.min (i + 4) (String.length (cmt ++ g ++ rest)) ->
    blank g rest -> blank ("\(" ++ cmt ++ g) rest.

(* blank material is invisible: the significant tokens are those of the text after it *)
Lemma blank_transparent g rest : blank g rest -> forall p n,
  significant (lex_from (g ++ rest) p n) = significant (lex_from rest (p + String.length g) n).
Proof.
  induction 1 as [rest|w g rest Hw Hb IH|cm g rest H1 H2 H3 Hb IH|cmt g rest i H1 H2 H3 Hb IH]; intros p n.
  - cbn [append String.length]. rewrite Nat.add_0_r. reflexivity.
  - rewrite app_assoc_s, significant_ws by exact Hw. rewrite IH, app_length_s, Nat.add_assoc. reflexivity.
  - assert (E : lex_next (mklex (("\" ++ cm ++ g) ++ rest) p p n) =
                (TComment, mklex (g ++ rest) (p + 1 + String.length cm) p n)).
    { apply (lex_next_line_comment (mklex (("\" ++ cm ++ g) ++ rest) p p n) cm (g ++ rest)); try assumption.
      cbn [lrest]. rewrite !app_assoc_s. reflexivity. }
    rewrite (significant_step _ _ _ _ _ _ _ E eq_refl), IH. f_equal. f_equal.
    rewrite !app_length_s. cbn [String.length]. lia.
  - pose proof (lex_next_mlc (mklex (("\(" ++ cmt ++ g) ++ rest) p p n) (cmt ++ g ++ rest)) as E.
    cbn [lrest lpos llen] in E. rewrite !app_assoc_s in E. specialize (E eq_refl H1). rewrite H2 in E.
    rewrite <- H3 in E. rewrite str_drop_min, <- H3, str_drop_app_length in E.
    rewrite !app_assoc_s.
    rewrite (significant_step _ _ _ _ _ _ _ E eq_refl), IH. f_equal. f_equal.
    rewrite !app_length_s. cbn [String.length]. lia.
Qed.

(* in front of a whole text: the spans move, nothing else changes *)
Lemma blank_prefix_string g b : blank g b ->
  significant (lex_string (g ++ b)) = map (shift_span (String.length g)) (significant (lex_string b)).
Proof.
  intros H. rewrite !lex_string_from, (blank_transparent g b H), app_length_s. cbn [Nat.add].
  rewrite <- significant_shift.
  rewrite <- (lex_from_shift (String.length g) b 0 (String.length b)). cbn [Nat.add].
  f_equal. f_equal. lia.
Qed.
