(* VmLimitsRunSummary.v (C14): the statements of Props/C14_run.v in their final form. *)
From Xeh Require Import Model.Prelude Model.Bits Model.Codec Model.Cell Model.Lexer Model.Fmt
                        Model.Vm Model.Words Model.Struct Model.Build Model.Boot.
From Xeh Require Import Proofs.VmFrame Proofs.VmLimits Proofs.VmDrive Proofs.StructNat Proofs.UnwindLists Proofs.UnwindFrame
                        Proofs.UnwindWitness
                        Proofs.VmLimitsRunBase Proofs.VmLimitsRunStep Proofs.VmLimitsRunFail
                        Proofs.VmLimitsRunRun Proofs.VmLimitsRunBuild Proofs.VmLimitsRunQuiet.
Local Notation length := List.length.
Local Open Scope string_scope.

#[local] Arguments Z.add : simpl never.
#[local] Arguments Z.sub : simpl never.
#[local] Arguments Z.mul : simpl never.
#[local] Arguments Z.ltb : simpl never.
#[local] Arguments Z.leb : simpl never.
#[local] Arguments Z.eqb : simpl never.
#[local] Arguments Z.of_nat : simpl never.
#[local] Arguments Z.to_nat : simpl never.

(* ---------- small conversions ---------- *)
Lemma not_limit_is_elimit {A} (r : res A) : (forall p x, r <> RErr ELimit p x) -> is_elimit r = false.
Proof.
  intros H. destruct r as [a s|k p s| |]; try reflexivity. destruct k; try reflexivity.
  exfalso. eapply H. reflexivity.
Qed.

Lemma is_elimit_not_limit {A} (r : res A) : is_elimit r = false -> forall p x, r <> RErr ELimit p x.
Proof. intros H p x ->. discriminate H. Qed.

Lemma lim_le_of (a b : option Z) :
  (forall S', b = Some S' -> exists S, a = Some S /\ (S <= S')%Z) -> lim_le a b.
Proof.
  intros H. unfold lim_le. destruct b as [y|]; [|exact I].
  destruct (H y eq_refl) as (x & -> & Hle). exact Hle.
Qed.

Lemma room_le_of s mt i :
  (forall N', i = Some N' -> exists N, insn_limit s = Some N /\ (N - meter s <= N' - mt)%Z) -> room_le s mt i.
Proof.
  intros H. unfold room_le. destruct i as [N'|]; [|exact I].
  destruct (H N' eq_refl) as (N & -> & Hle). exact Hle.
Qed.

(* ================= item 2: what a limit failure leaves ================= *)
Theorem limit_failure_cause_x : forall fo s p s',
  fetch_and_run (native_fn fo) s = RErr ELimit p s' ->
  p = None /\
  ((exists N, insn_limit s = Some N /\ (N <= meter s)%Z /\ s' = s) \/
   (exists N name e,
      insn_limit s = Some N /\ (meter s + 1 = N)%Z /\
      nth_error (code s) (ip s) = Some (OResolve name) /\ dict_entry s name = Some e /\
      s' = set_code (set_meter s (meter s + 1)%Z) (list_set (code s) (ip s) (resolve_op e))) \/
   (exists S, stack_limit s = Some S /\ (S <= Z.of_nat (length (ds s')))%Z /\
              (forall N, insn_limit s = Some N -> (meter s < N)%Z) /\
              (meter s' = meter s + 1 \/ meter s' = meter s + 2)%Z)).
Proof.
  intros fo s p s' H. destruct (far_limit_cause _ (native_wlx fo) s p s' H) as [Hp LC].
  split; [exact Hp|].
  destruct LC as [N EN Hle ->|N name e EN Hm E1 E2 ->|S ES Hle E0 Hm].
  - left. exists N. auto.
  - right. left. exists N, name, e. auto.
  - right. right. exists S. repeat split; try assumption.
    intros N EN. unfold mlim in E0. rewrite EN in E0. apply Z.leb_gt. exact E0.
Qed.

Theorem limit_failure_frame_x : forall fo s p s',
  fetch_and_run (native_fn fo) s = RErr ELimit p s' ->
  dict s' = dict s /\ dbg s' = dbg s /\ sources s' = sources s /\ input s' = input s /\
  flows s' = flows s /\ nested s' = nested s /\ last_tok s' = last_tok s /\
  insn_limit s' = insn_limit s /\ heap_limit s' = heap_limit s /\ stack_limit s' = stack_limit s /\
  cx s' = cx s /\ rs s' = rs s /\ loops s' = loops s /\
  heap s' = heap s /\ out s' = out s /\ stopping s' = stopping s /\
  length (code s') = length (code s) /\
  (forall i op, nth_error (code s) i = Some op -> (forall n, op <> OResolve n) -> nth_error (code s') i = Some op) /\
  (meter s <= meter s' <= meter s + 2)%Z /\
  (forall h u, ds s = (u ++ h)%list -> length h <= ds_len (cx s) -> exists u', ds s' = (u' ++ h)%list) /\
  (forall h u, special s = (u ++ h)%list -> length h <= ss_ptr (cx s) -> exists u', special s' = (u' ++ h)%list) /\
  (rlog s' = None <-> rlog s = None).
Proof.
  intros fo s p s' H.
  destruct (limit_failure_frame fo s p s' H) as
    (_ & _ & A1 & A2 & A3 & A4 & A5 & A6 & A7 & A8 & A9 & A10 & A11 & A12 & _ & _ & [CK1 CK2] & HM).
  destruct (limit_failure_hol fo s p s' H) as (B1 & B2 & B3 & B4).
  pose proof (far_frame _ (native_wl fo) s) as FR. rewrite H in FR. cbn [res_all] in FR.
  destruct FR as (_ & _ & _ & _ & _ & _ & _ & _ & _ & _ & _ & _ & _ & F14 & _ & _ & F17 & _ & F19).
  split; [exact A1|]. split; [exact A2|]. split; [exact A3|]. split; [exact A4|]. split; [exact A5|].
  split; [exact A6|]. split; [exact A7|]. split; [exact A8|]. split; [exact A9|]. split; [exact A10|].
  split; [exact A11|]. split; [exact A12|]. split; [exact B4|]. split; [exact B1|]. split; [exact B2|].
  split; [exact B3|]. split; [exact CK1|]. split.
  { intros i op Hi Hn. apply CK2; [exact Hi|]. destruct op; try reflexivity. exfalso. eapply Hn. reflexivity. }
  split; [exact HM|]. split.
  { intros h u E Hl. apply F14; [exists u; exact E|exact Hl]. }
  split; [|exact F19].
  intros h u E Hl. apply F17; [exists u; exact E|exact Hl].
Qed.

Theorem push_only_failure_x : forall fo s op p s',
  fetch_and_run (native_fn fo) s = RErr ELimit p s' ->
  nth_error (code s) (ip s) = Some op -> push_only op = true ->
  s' = s \/ s' = set_meter s (meter s + 1)%Z.
Proof. intros fo. apply push_only_failure_unchanged. Qed.

Theorem never_pushes_failure_x : forall fo s op p s',
  fetch_and_run (native_fn fo) s = RErr ELimit p s' ->
  nth_error (code s) (ip s) = Some op -> never_pushes op = true ->
  s' = s /\ exists N, insn_limit s = Some N /\ (N <= meter s)%Z.
Proof. intros fo. apply never_pushes_failure. Qed.

(* the general claim "a limit failure leaves the machine as it was" is false *)
Theorem failed_step_unchanged_refuted :
  ~ (forall fo s p s', fetch_and_run (native_fn fo) s = RErr ELimit p s' ->
       ds s' = ds s /\ special s' = special s).
Proof.
  intros H.
  destruct vec_end_not_rolled_back as (_ & _ & _ & _ & _ & _ & _ & Hsp & (s' & Hf & _ & Hs') & _).
  destruct (H wit_fo w1_before None s' Hf) as [_ E]. rewrite Hs', Hsp in E. discriminate E.
Qed.

Theorem failed_step_operands_refuted :
  ~ (forall fo s p s', fetch_and_run (native_fn fo) s = RErr ELimit p s' -> ds s' = ds s).
Proof.
  intros H.
  set (s := wit_state (compile wit_fo wit_pr wit_rf wit_fuel "+" w2_s0)).
  assert (E : exists s', fetch_and_run (native_fn wit_fo) s = RErr ELimit None s' /\ ds s' = [CInt 3; CInt 2; CInt 1]).
  { eexists. split; [vm_compute; reflexivity|reflexivity]. }
  destruct E as (s' & Hf & Hd). specialize (H wit_fo s None s' Hf). rewrite Hd in H.
  vm_compute in H. discriminate H.
Qed.

(* ================= item 3: limits never change a result ================= *)
Theorem limits_only_fail_step : forall fo s r mt i h k,
  fetch_and_run (native_fn fo) s = r -> (forall p x, r <> RErr ELimit p x) ->
  (forall S', k = Some S' -> exists S, stack_limit s = Some S /\ (S <= S')%Z) ->
  (forall N', i = Some N' -> exists N, insn_limit s = Some N /\ (N - meter s <= N' - mt)%Z) ->
  fetch_and_run (native_fn fo) (set_limits (set_meter s mt) i h k) =
  res_map (fun x => set_limits (set_meter x (mt + (meter x - meter s))%Z) i h k) r.
Proof.
  intros fo s r mt i h k H Hne Hk Hi. subst r.
  apply (far_relim _ (native_wlx fo) s mt i h k); [apply lim_le_of; exact Hk|apply room_le_of; exact Hi|].
  apply not_limit_is_elimit. exact Hne.
Qed.

Lemma relim_meter_unlimited s x :
  relim (meter s + (meter x - meter s))%Z None None None x = unlimited x.
Proof. rewrite unlimited_relim. f_equal. lia. Qed.

Theorem step_on_unlimited : forall fo s r,
  fetch_and_run (native_fn fo) s = r -> (forall p x, r <> RErr ELimit p x) ->
  fetch_and_run (native_fn fo) (set_limits s None None None) = res_map (fun x => set_limits x None None None) r.
Proof.
  intros fo s r H Hne. subst r.
  change (set_limits s None None None) with (unlimited s). rewrite unlimited_relim.
  rewrite (far_relim _ (native_wlx fo) s (meter s) None None None I I (not_limit_is_elimit _ Hne)).
  destruct (fetch_and_run (native_fn fo) s); cbn [res_map]; try reflexivity; f_equal; apply relim_meter_unlimited.
Qed.

(* a failure that left the state unchanged: retrying under any new meter / limits is the same
   as executing the instruction from the state before the failure under these limits *)
Theorem retry_after_push_only_failure : forall fo s op p s' mt i h k,
  fetch_and_run (native_fn fo) s = RErr ELimit p s' ->
  nth_error (code s) (ip s) = Some op -> push_only op = true ->
  fetch_and_run (native_fn fo) (set_limits (set_meter s' mt) i h k) =
  fetch_and_run (native_fn fo) (set_limits (set_meter s mt) i h k).
Proof.
  intros fo s op p s' mt i h k H Hop Hc.
  destruct (push_only_failure_unchanged fo s op p s' H Hop Hc) as [-> | ->]; reflexivity.
Qed.

Theorem limits_only_fail_steps : forall fo n s sn mt i h k,
  steps (native_fn fo) n s = Some sn ->
  (forall S', k = Some S' -> exists S, stack_limit s = Some S /\ (S <= S')%Z) ->
  (forall N', i = Some N' -> exists N, insn_limit s = Some N /\ (N - meter s <= N' - mt)%Z) ->
  steps (native_fn fo) n (set_limits (set_meter s mt) i h k) =
  Some (set_limits (set_meter sn (mt + (meter sn - meter s))%Z) i h k).
Proof.
  intros fo n s sn mt i h k H Hk Hi.
  apply (steps_relim _ (native_wlx fo) n s sn mt i h k H); [apply lim_le_of; exact Hk|apply room_le_of; exact Hi].
Qed.

Theorem limits_only_fail_run : forall fo fuel s r mt i h k,
  run (native_fn fo) fuel s = Some r -> (forall p x, r <> RErr ELimit p x) ->
  (forall S', k = Some S' -> exists S, stack_limit s = Some S /\ (S <= S')%Z) ->
  (forall N', i = Some N' -> exists N, insn_limit s = Some N /\ (N - meter s <= N' - mt)%Z) ->
  run (native_fn fo) fuel (set_limits (set_meter s mt) i h k) =
  Some (res_map (fun x => set_limits (set_meter x (mt + (meter x - meter s))%Z) i h k) r).
Proof.
  intros fo fuel s r mt i h k H Hne Hk Hi.
  apply (run_relim _ (native_wlx fo) fuel s r mt i h k H);
    [apply not_limit_is_elimit; exact Hne|apply lim_le_of; exact Hk|apply room_le_of; exact Hi].
Qed.

Theorem run_on_unlimited : forall fo fuel s r,
  run (native_fn fo) fuel s = Some r -> (forall p x, r <> RErr ELimit p x) ->
  run (native_fn fo) fuel (set_limits s None None None) = Some (res_map (fun x => set_limits x None None None) r).
Proof.
  intros fo fuel s r H Hne.
  change (set_limits s None None None) with (unlimited s). rewrite unlimited_relim.
  rewrite (run_relim _ (native_wlx fo) fuel s r (meter s) None None None H (not_limit_is_elimit _ Hne) I I).
  f_equal. destruct r; cbn [res_map]; try reflexivity; f_equal; apply relim_meter_unlimited.
Qed.

Theorem unlimited_never_limit : forall fo fuel s r,
  insn_limit s = None -> stack_limit s = None -> run (native_fn fo) fuel s = Some r ->
  forall p x, r <> RErr ELimit p x.
Proof.
  intros fo fuel s r Hi Hs H. apply is_elimit_not_limit.
  eapply (run_unlimited_never_limit _ (native_wlx fo)); eauto.
Qed.

(* the failed instruction left the state unchanged up to meter / limits / resolution *)
Lemma cause_unchanged : forall fo s p s',
  fetch_and_run (native_fn fo) s = RErr ELimit p s' ->
  (stack_limit s = None \/
   (exists op, nth_error (code s) (ip s) = Some op /\ push_only op = true) \/
   (exists N, insn_limit s = Some N /\ (N <= meter s)%Z)) ->
  unchanged_failure s s'.
Proof.
  intros fo s p s' H [Hs|[(op & Hop & Hc)|(N & EN & Hle)]].
  - destruct (far_limit_cause _ (native_wlx fo) s p s' H) as [_ LC]. apply limit_cause_unchanged; assumption.
  - left. destruct (push_only_failure_unchanged fo s op p s' H Hop Hc) as [-> | ->]; reflexivity.
  - left. rewrite (insn_limit_is_error (native_fn fo) s N EN Hle) in H. injection H as _ <-. reflexivity.
Qed.

Theorem recover_steps_x : forall fo n s0 sn p se,
  steps (native_fn fo) n s0 = Some sn ->
  fetch_and_run (native_fn fo) sn = RErr ELimit p se ->
  (stack_limit s0 = None \/
   (exists op, nth_error (code sn) (ip sn) = Some op /\ push_only op = true) \/
   (exists N, insn_limit sn = Some N /\ (N <= meter sn)%Z)) ->
  forall mt i h k fuel r,
    run (native_fn fo) fuel (set_limits (set_meter se mt) i h k) = Some r ->
    (forall q x, r <> RErr ELimit q x) ->
    exists sn' r', steps (native_fn fo) n (set_limits s0 None None None) = Some sn' /\
                   run (native_fn fo) fuel sn' = Some r' /\
                   res_map erase_lim r' = res_map erase_lim r.
Proof.
  intros fo n s0 sn p se Hs Hf Hc mt i h k fuel r Hr Hne.
  assert (Hu : unchanged_failure sn se).
  { eapply cause_unchanged; [exact Hf|]. destruct Hc as [Hc|Hc]; [left|right; exact Hc].
    destruct (steps_bounded _ (native_wlx fo) n s0 sn Hs) as (_ & _ & B3 & _). congruence. }
  exact (recover_steps _ (native_wlx fo) n s0 sn p se Hs Hf Hu mt i h k fuel r Hr (not_limit_is_elimit _ Hne)).
Qed.

Theorem recover_run_insn_x : forall fo fuel0 s0 p se,
  stack_limit s0 = None ->
  run (native_fn fo) fuel0 s0 = Some (RErr ELimit p se) ->
  forall mt i h fuel r,
    run (native_fn fo) fuel (set_limits (set_meter se mt) i h None) = Some r ->
    (forall q x, r <> RErr ELimit q x) ->
    exists r', run (native_fn fo) (fuel0 + fuel) (set_limits s0 None None None) = Some r' /\
               res_map erase_lim r' = res_map erase_lim r.
Proof.
  intros fo fuel0 s0 p se Hs H0 mt i h fuel r Hr Hne.
  exact (recover_run_insn _ (native_wlx fo) fuel0 s0 p se Hs H0 mt i h fuel r Hr (not_limit_is_elimit _ Hne)).
Qed.

Lemma erase_lim_eq_fields a b : erase_lim a = erase_lim b ->
  dict a = dict b /\ heap a = heap b /\ code a = code b /\ ds a = ds b /\ rs a = rs b /\
  loops a = loops b /\ special a = special b /\ cx a = cx b /\ out a = out b /\ rlog a = rlog b /\
  flows a = flows b /\ nested a = nested b /\ stopping a = stopping b.
Proof.
  intros E.
  repeat split;
    [ change (dict (erase_lim a) = dict (erase_lim b)) | change (heap (erase_lim a) = heap (erase_lim b))
    | change (code (erase_lim a) = code (erase_lim b)) | change (ds (erase_lim a) = ds (erase_lim b))
    | change (rs (erase_lim a) = rs (erase_lim b)) | change (loops (erase_lim a) = loops (erase_lim b))
    | change (special (erase_lim a) = special (erase_lim b)) | change (cx (erase_lim a) = cx (erase_lim b))
    | change (out (erase_lim a) = out (erase_lim b)) | change (rlog (erase_lim a) = rlog (erase_lim b))
    | change (flows (erase_lim a) = flows (erase_lim b)) | change (nested (erase_lim a) = nested (erase_lim b))
    | change (stopping (erase_lim a) = stopping (erase_lim b)) ];
    rewrite E; reflexivity.
Qed.

(* ================= item 1: run-level bounds ================= *)
Theorem steps_bounds_x : forall fo n s0 sn,
  steps (native_fn fo) n s0 = Some sn ->
  insn_limit sn = insn_limit s0 /\ heap_limit sn = heap_limit s0 /\ stack_limit sn = stack_limit s0 /\
  length (heap sn) = length (heap s0) /\
  (forall N, insn_limit s0 = Some N -> (meter s0 <= N)%Z -> (meter sn <= N)%Z) /\
  (forall S, stack_limit s0 = Some S -> length (ds sn) <= Nat.max (Z.to_nat S) (length (ds s0))).
Proof.
  intros fo n s0 sn H. destruct (steps_bounded _ (native_wlx fo) n s0 sn H) as (A1 & A2 & A3 & A4 & A5 & A6 & A7).
  repeat split; assumption.
Qed.

Theorem run_bounds_x : forall fo fuel s0 r s',
  run (native_fn fo) fuel s0 = Some r -> res_state r = Some s' ->
  insn_limit s' = insn_limit s0 /\ heap_limit s' = heap_limit s0 /\ stack_limit s' = stack_limit s0 /\
  length (heap s') = length (heap s0) /\
  (forall N, insn_limit s0 = Some N -> (meter s0 <= N)%Z -> (meter s' <= N)%Z) /\
  (forall S, stack_limit s0 = Some S -> length (ds s') <= Nat.max (Z.to_nat S) (length (ds s0))).
Proof.
  intros fo fuel s0 r s' H Hr.
  destruct (run_bounded _ (native_wlx fo) fuel s0 r s' H Hr) as (A1 & A2 & A3 & A4 & A5 & A6 & A7).
  repeat split; assumption.
Qed.

Theorem run_at_most_N : forall fo fuel s N,
  insn_limit s = Some N -> meter s = 0%Z -> (0 <= N)%Z ->
  (forall s', run (native_fn fo) fuel s = Some (ROk tt s') ->
     exists n, steps (native_fn fo) n s = Some s' /\ (Z.of_nat n <= N)%Z) /\
  (forall k p se, run (native_fn fo) fuel s = Some (RErr k p se) ->
     exists n sn, steps (native_fn fo) n s = Some sn /\ fetch_and_run (native_fn fo) sn = RErr k p se /\
                  (Z.of_nat n <= N)%Z).
Proof.
  intros fo fuel s N HL Hm HN. split.
  - intros s' H. destruct (run_ok_steps _ fuel s s' H) as (n & _ & Hs & _).
    exists n. split; [exact Hs|]. eapply (at_most_N_steps fo); eauto.
  - intros k p se H. destruct (run_err_steps _ fuel s k p se H) as (n & sn & _ & Hs & _ & Hf).
    exists n, sn. split; [exact Hs|]. split; [exact Hf|]. eapply (at_most_N_steps fo); eauto.
Qed.

(* ================= item 5: what the meter counts ================= *)
Theorem meter_step : forall fo s s',
  fetch_and_run (native_fn fo) s = ROk tt s' ->
  meter s' = (meter s + (match nth_error (code s) (ip s) with Some (OResolve _) => 2 | _ => 1 end))%Z.
Proof.
  intros fo s s' H. rewrite (far_meter_ok _ (native_wlx fo) s s' H). unfold at_resolve.
  destruct (nth_error (code s) (ip s)) as [[]|]; reflexivity.
Qed.

Theorem meter_next : forall fo s s',
  next (native_fn fo) s = ROk tt s' ->
  meter s' = (meter s + (if is_running s
                         then match nth_error (code s) (ip s) with Some (OResolve _) => 2 | _ => 1 end
                         else 0))%Z.
Proof.
  intros fo s s' H. unfold next in H. destruct (is_running s).
  - apply (meter_step fo). exact H.
  - injection H as <-. lia.
Qed.

Theorem meter_steps : forall fo n s sn,
  steps (native_fn fo) n s = Some sn ->
  (meter s + Z.of_nat n <= meter sn <= meter s + 2 * Z.of_nat n)%Z /\
  (Forall (fun op => forall name, op <> OResolve name) (code s) -> meter sn = (meter s + Z.of_nat n)%Z).
Proof.
  intros fo n s sn H. split; [apply (steps_meter_range _ (native_wlx fo)); exact H|].
  intros Hn. apply (steps_meter_exact _ (native_wlx fo) n s sn H).
  unfold no_resolve. eapply Forall_impl; [|exact Hn].
  intros op Hop. destruct op; try reflexivity. exfalso. eapply Hop. reflexivity.
Qed.

Theorem meter_run : forall fo fuel s s',
  run (native_fn fo) fuel s = Some (ROk tt s') ->
  exists n, n < fuel /\ steps (native_fn fo) n s = Some s' /\ is_running s' = false /\
    (meter s + Z.of_nat n <= meter s' <= meter s + 2 * Z.of_nat n)%Z /\
    (Forall (fun op => forall name, op <> OResolve name) (code s) -> meter s' = (meter s + Z.of_nat n)%Z).
Proof.
  intros fo fuel s s' H. destruct (run_ok_steps _ fuel s s' H) as (n & Hn & Hs & Hr).
  exists n. destruct (meter_steps fo n s s' Hs) as [[A1 A2] B]. repeat split; assumption.
Qed.

(* ================= item 4: build time ================= *)
Lemma brel_explicit s s' : brel s s' ->
  insn_limit s' = insn_limit s /\ heap_limit s' = heap_limit s /\ stack_limit s' = stack_limit s /\
  (meter s <= meter s')%Z /\
  (forall N, insn_limit s = Some N -> (meter s <= N)%Z -> (meter s' <= N)%Z) /\
  (forall H, heap_limit s = Some H -> length (heap s') <= Nat.max (Z.to_nat H) (length (heap s))) /\
  (forall S, stack_limit s = Some S -> length (ds s') <= Nat.max (Z.to_nat S) (length (ds s))).
Proof. intros H. exact H. Qed.

Theorem build1_bounds_x : forall fo pr rf fuel depth s r s',
  build1 fo pr rf fuel depth s = r -> res_state r = Some s' ->
  insn_limit s' = insn_limit s /\ heap_limit s' = heap_limit s /\ stack_limit s' = stack_limit s /\
  (meter s <= meter s')%Z /\
  (forall N, insn_limit s = Some N -> (meter s <= N)%Z -> (meter s' <= N)%Z) /\
  (forall H, heap_limit s = Some H -> length (heap s') <= Nat.max (Z.to_nat H) (length (heap s))) /\
  (forall S, stack_limit s = Some S -> length (ds s') <= Nat.max (Z.to_nat S) (length (ds s))).
Proof. intros fo pr rf fuel depth s r s' H Hr. apply brel_explicit. eapply build1_limits; eauto. Qed.

Theorem eval_bounds_x : forall fo pr rf fuel src s r s',
  eval fo pr rf fuel src s = r -> res_state r = Some s' ->
  insn_limit s' = insn_limit s /\ heap_limit s' = heap_limit s /\ stack_limit s' = stack_limit s /\
  (meter s <= meter s')%Z /\
  (forall N, insn_limit s = Some N -> (meter s <= N)%Z -> (meter s' <= N)%Z) /\
  (forall H, heap_limit s = Some H -> length (heap s') <= Nat.max (Z.to_nat H) (length (heap s))) /\
  (forall S, stack_limit s = Some S -> length (ds s') <= Nat.max (Z.to_nat S) (length (ds s))).
Proof. intros fo pr rf fuel src s r s' H Hr. apply brel_explicit. eapply eval_limits; eauto. Qed.

Theorem compile_bounds_x : forall fo pr rf fuel src s r s',
  compile fo pr rf fuel src s = r -> res_state r = Some s' ->
  insn_limit s' = insn_limit s /\ heap_limit s' = heap_limit s /\ stack_limit s' = stack_limit s /\
  (meter s <= meter s')%Z /\
  (forall N, insn_limit s = Some N -> (meter s <= N)%Z -> (meter s' <= N)%Z) /\
  (forall H, heap_limit s = Some H -> length (heap s') <= Nat.max (Z.to_nat H) (length (heap s))) /\
  (forall S, stack_limit s = Some S -> length (ds s') <= Nat.max (Z.to_nat S) (length (ds s))).
Proof. intros fo pr rf fuel src s r s' H Hr. apply brel_explicit. eapply compile_limits; eauto. Qed.

Theorem run_m_bounds_x : forall fo rf s r s',
  run_m fo rf s = r -> res_state r = Some s' ->
  insn_limit s' = insn_limit s /\ heap_limit s' = heap_limit s /\ stack_limit s' = stack_limit s /\
  length (heap s') = length (heap s) /\ (meter s <= meter s')%Z /\
  (forall N, insn_limit s = Some N -> (meter s <= N)%Z -> (meter s' <= N)%Z) /\
  (forall S, stack_limit s = Some S -> length (ds s') <= Nat.max (Z.to_nat S) (length (ds s))) /\
  ds_len (cx s') = ds_len (cx s) /\
  (forall S, stack_limit s = Some S ->
     data_depth s' <= Nat.max (Z.to_nat S - ds_len (cx s)) (data_depth s)).
Proof.
  intros fo rf s r s' H Hr. unfold run_m, nf in H.
  destruct (run (native_fn fo) rf s) as [r0|] eqn:E; [|subst r; discriminate Hr]. subst r0.
  destruct (run_bounded _ (native_wlx fo) rf s r s' E Hr) as (A1 & A2 & A3 & A4 & A5 & A6 & A7).
  pose proof (run_frame_native fo rf s) as FR. rewrite E in FR.
  assert (FR' : frame_rel s s') by (destruct r; cbn [res_state res_all] in *; try discriminate; injection Hr as <-; exact FR).
  destruct FR' as (_ & _ & _ & _ & _ & _ & _ & _ & _ & _ & A11 & _).
  assert (Ek : ds_len (cx s') = ds_len (cx s)) by (rewrite A11; reflexivity).
  repeat split; try assumption.
  intros S ES. destruct (run_visible_bound fo rf s r s' S E Hr ES) as [_ B]. exact B.
Qed.

(* ================= raising the limit is enough ================= *)
(* with room for two fetches and either no stack limit or a push-only instruction below the
   stack limit, the instruction does not fail with a limit error *)
Theorem raised_limits_no_failure : forall fo t p x,
  (forall N, insn_limit t = Some N -> (meter t + 2 <= N)%Z) ->
  (stack_limit t = None \/
   exists op S, nth_error (code t) (ip t) = Some op /\ push_only op = true /\
                stack_limit t = Some S /\ (Z.of_nat (length (ds t)) < S)%Z) ->
  fetch_and_run (native_fn fo) t <> RErr ELimit p x.
Proof.
  intros fo t p x Hi Hs H.
  destruct (limit_failure_cause_x fo t p x H) as [_ [(N & EN & Hle & _)|[(N & name & e & EN & Hm & _)|(S & ES & Hle & _)]]].
  - specialize (Hi N EN). lia.
  - specialize (Hi N EN). lia.
  - destruct Hs as [Hs|(op & S' & Hop & Hc & ES' & Hlt)]; [congruence|].
    destruct (push_only_failure_unchanged fo t op p x H Hop Hc) as [-> | ->].
    + rewrite ES in ES'. injection ES' as <-. lia.
    + rewrite ES in ES'. injection ES' as <-. cbn [set_meter ds] in Hle. lia.
Qed.

Theorem meter_exactly_once_refuted :
  ~ (forall fo s s', fetch_and_run (native_fn fo) s = ROk tt s' -> meter s' = (meter s + 1)%Z).
Proof.
  intros H.
  set (s0 := wit_state (compile wit_fo wit_pr wit_rf wit_fuel "late foo : bar foo ; : foo 5 ; bar" boot)).
  assert (E : exists s s', steps (native_fn wit_fo) 5 s0 = Some s /\
                           fetch_and_run (native_fn wit_fo) s = ROk tt s' /\ meter s = 5%Z /\ meter s' = 7%Z).
  { eexists. eexists. split; [vm_compute; reflexivity|]. split; [vm_compute; reflexivity|]. split; reflexivity. }
  destruct E as (s & s' & _ & Hf & M1 & M2). specialize (H wit_fo s s' Hf). rewrite M1, M2 in H. discriminate H.
Qed.

Theorem meter_run_m : forall fo rf s s',
  run_m fo rf s = ROk tt s' ->
  exists n, n < rf /\ steps (native_fn fo) n s = Some s' /\ is_running s' = false /\
    (meter s + Z.of_nat n <= meter s' <= meter s + 2 * Z.of_nat n)%Z /\
    (Forall (fun op => forall name, op <> OResolve name) (code s) -> meter s' = (meter s + Z.of_nat n)%Z).
Proof.
  intros fo rf s s' H. unfold run_m, nf in H.
  destruct (run (native_fn fo) rf s) as [r|] eqn:E; [|discriminate H]. subst r.
  exact (meter_run fo rf s s' E).
Qed.
