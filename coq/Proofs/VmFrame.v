(* VmFrame.v: a syntactic characterisation [wl] of the programs the native words (and
   [exec_op]) are made of, the proof that every word of [native_fn fo] is such a program,
   and the case analysis of [fetch_and_run] shared by VmLimits.v and VmDrive.v. *)
From Xeh Require Import Model.Prelude Model.Bits Model.Codec Model.Cell Model.Lexer Model.Fmt
                        Model.Vm Model.Words.
Local Notation length := List.length.

#[local] Arguments Z.add : simpl never.
#[local] Arguments Z.sub : simpl never.
#[local] Arguments Z.mul : simpl never.
#[local] Arguments Z.ltb : simpl never.
#[local] Arguments Z.leb : simpl never.
#[local] Arguments Z.eqb : simpl never.
#[local] Arguments Z.of_nat : simpl never.
#[local] Arguments Z.to_nat : simpl never.

(* ---------- programs built from the logging primitives ---------- *)
Inductive wl : forall {A : Type}, M A -> Prop :=
| wl_ret : forall A (a : A), wl (ret a)
| wl_fail : forall A k p, wl (@fail A k p)
| wl_unsup : forall A, wl (@unsup A)
| wl_panic : forall A, wl (@panic A)
| wl_bind : forall A B (m : M A) (f : A -> M B), wl m -> (forall a, wl (f a)) -> wl (bind m f)
  (* reading the state: the continuation may use any field except the reverse log *)
| wl_get_bind : forall B (k : state -> M B),
    (forall s0, wl (k s0)) ->
    (forall s0 l s, k (set_rlog s0 l) s = k s0 s) ->
    wl (bind get k)
| wl_set_stopping : forall b, wl (modify (fun s => set_stopping s b))
| wl_push_data : forall c, wl (push_data c)
| wl_pop_data : wl pop_data
| wl_top_data : wl top_data
| wl_swap_data : wl swap_data
| wl_rot_data : wl rot_data
| wl_over_data : wl over_data
| wl_push_return : forall f, wl (push_return f)
| wl_pop_return : wl pop_return
| wl_top_frame : wl top_frame
| wl_push_loop : forall l, wl (push_loop l)
| wl_pop_loop : wl pop_loop
| wl_loop_next : wl loop_next
| wl_loop_set_items : forall c, wl (loop_set_items c)
| wl_push_special : forall p, wl (push_special p)
| wl_pop_special : wl pop_special
| wl_get_var : forall a, wl (get_var a)
| wl_set_var : forall a v, wl (set_var a v)
| wl_init_local : forall i v, wl (init_local i v)
| wl_set_ip : forall n, wl (set_ip n)
| wl_next_ip : wl next_ip
| wl_print : forall msg, wl (print msg).

(* ---------- the tactic that recognises a [wl] program ---------- *)
Ltac head_of t := lazymatch t with ?f _ => head_of f | _ => t end.

Ltac wl_prim :=
  lazymatch goal with
  | |- wl (ret _) => apply wl_ret
  | |- wl (fail _ _) => apply wl_fail
  | |- wl unsup => apply wl_unsup
  | |- wl panic => apply wl_panic
  | |- wl (modify (fun s => set_stopping s _)) => apply wl_set_stopping
  | |- wl (push_data _) => apply wl_push_data
  | |- wl pop_data => apply wl_pop_data
  | |- wl top_data => apply wl_top_data
  | |- wl swap_data => apply wl_swap_data
  | |- wl rot_data => apply wl_rot_data
  | |- wl over_data => apply wl_over_data
  | |- wl (push_return _) => apply wl_push_return
  | |- wl pop_return => apply wl_pop_return
  | |- wl top_frame => apply wl_top_frame
  | |- wl (push_loop _) => apply wl_push_loop
  | |- wl pop_loop => apply wl_pop_loop
  | |- wl loop_next => apply wl_loop_next
  | |- wl (loop_set_items _) => apply wl_loop_set_items
  | |- wl (push_special _) => apply wl_push_special
  | |- wl pop_special => apply wl_pop_special
  | |- wl (get_var _) => apply wl_get_var
  | |- wl (set_var _ _) => apply wl_set_var
  | |- wl (init_local _ _) => apply wl_init_local
  | |- wl (set_ip _) => apply wl_set_ip
  | |- wl next_ip => apply wl_next_ip
  | |- wl (print _) => apply wl_print
  end.

Create HintDb wldb.

Ltac wl_step :=
  cbv beta zeta;
  first
    [ wl_prim
    | solve [ auto 2 with wldb nocore ]
    | lazymatch goal with
      | |- wl (bind get _) => apply wl_get_bind; [ intro | intros; reflexivity ]
      | |- wl (bind _ _) => apply wl_bind; [ | intro ]
      | |- wl (match ?x with _ => _ end) => destruct x
      | |- wl ?m => let h := head_of m in unfold h
      end ].

Ltac wl_solve := repeat wl_step.

(* ---------- the recursive helpers ---------- *)
Lemma wl_pop_n : forall n, wl (pop_n n).
Proof. induction n; cbn [pop_n]; wl_solve. Qed.
#[export] Hint Resolve wl_pop_n : wldb.

Lemma wl_push_all : forall l, wl (push_all l).
Proof. induction l; cbn [push_all]; wl_solve. Qed.
#[export] Hint Resolve wl_push_all : wldb.

(* ---------- the words ---------- *)
Lemma wl_word_table : forall fo, Forall (fun nw => wl (snd nw)) (word_table fo).
Proof.
  intro fo. unfold word_table.
  repeat (apply Forall_cons; [ cbn [snd]; wl_solve | ]).
  apply Forall_nil.
Qed.

Lemma table_find_Forall : forall (P : M unit -> Prop) t name w,
  Forall (fun nw => P (snd nw)) t -> table_find t name = Some w -> P w.
Proof.
  induction t as [| [n x] r IH]; intros name w HF H; cbn [table_find] in H.
  - discriminate.
  - inversion HF; subst. destruct (String.eqb n name).
    + injection H as <-. assumption.
    + eapply IH; eauto.
Qed.

Lemma wl_sized_word : forall fo name w, sized_word fo name = Some w -> wl w.
Proof.
  intros fo name w H. unfold sized_word in H. cbv beta zeta in H.
  repeat match type of H with
         | context [if ?b then _ else _] =>
           destruct b; cbv beta iota in H;
           [ injection H as <-; wl_solve | ]
         end.
  discriminate.
Qed.

Theorem native_wl : forall fo w f, native_fn fo w = Some f -> wl f.
Proof.
  intros fo w f H. unfold native_fn in H.
  destruct (table_find (word_table fo) w) eqn:E.
  - injection H as <-. eapply table_find_Forall with (P := fun m => wl m); [ apply wl_word_table | exact E ].
  - eapply wl_sized_word; eauto.
Qed.

(* [exec_op] over a table of [wl] words is a [wl] program *)
Lemma wl_exec_op : forall (nf : natives),
  (forall w f, nf w = Some f -> wl f) ->
  forall ip0 op, wl (exec_op nf ip0 op).
Proof.
  intros nf Hnf ip0 op. destruct op; cbn [exec_op];
    try (wl_solve; fail).
  destruct (nf w) eqn:E; wl_solve. eapply Hnf; eauto.
Qed.

(* ---------- the shape of one instruction step ---------- *)
Definition mlim (s : state) (m : Z) : bool :=
  match insn_limit s with Some l => (l <=? m)%Z | None => false end.

Inductive far_spec (nf : natives) (s : state) : res unit -> Prop :=
| far_limit : mlim s (meter s) = true -> far_spec nf s (RErr ELimit None s)
| far_panic : mlim s (meter s) = false -> nth_error (code s) (ip s) = None -> far_spec nf s RPanic
| far_plain : forall op,
    mlim s (meter s) = false -> nth_error (code s) (ip s) = Some op ->
    (forall n, op <> OResolve n) ->
    far_spec nf s (exec_op nf (ip s) op (set_meter s (meter s + 1)%Z))
| far_unknown : forall name,
    mlim s (meter s) = false -> nth_error (code s) (ip s) = Some (OResolve name) ->
    dict_entry s name = None ->
    far_spec nf s (RErr EUnknown None (set_meter s (meter s + 1)%Z))
| far_res_limit : forall name e,
    mlim s (meter s) = false -> nth_error (code s) (ip s) = Some (OResolve name) ->
    dict_entry s name = Some e ->
    mlim s (meter s + 1)%Z = true ->
    far_spec nf s (RErr ELimit None
                     (set_code (set_meter s (meter s + 1)%Z) (list_set (code s) (ip s) (resolve_op e))))
| far_res : forall name e,
    mlim s (meter s) = false -> nth_error (code s) (ip s) = Some (OResolve name) ->
    dict_entry s name = Some e ->
    mlim s (meter s + 1)%Z = false ->
    far_spec nf s (exec_op nf (ip s) (resolve_op e)
                     (set_meter (set_code (set_meter s (meter s + 1)%Z)
                                          (list_set (code s) (ip s) (resolve_op e)))
                                (meter s + 1 + 1)%Z)).

Lemma meter_increase_eq : forall s,
  meter_increase s = if mlim s (meter s) then RErr ELimit None s
                     else ROk tt (set_meter s (meter s + 1)%Z).
Proof.
  intro s. unfold meter_increase, mlim. destruct (insn_limit s); reflexivity.
Qed.

Lemma far_spec_holds : forall nf s, far_spec nf s (fetch_and_run nf s).
Proof.
  intros nf s. unfold fetch_and_run. rewrite meter_increase_eq.
  destruct (mlim s (meter s)) eqn:E0.
  - apply far_limit; assumption.
  - change (code (set_meter s (meter s + 1)%Z)) with (code s).
    destruct (nth_error (code s) (ip s)) as [op|] eqn:E1.
    + destruct op; try (apply far_plain; [assumption | assumption | discriminate]).
      change (dict_entry (set_meter s (meter s + 1)%Z) name) with (dict_entry s name).
      destruct (dict_entry s name) as [e|] eqn:E2.
      * rewrite meter_increase_eq.
        change (mlim (set_code (set_meter s (meter s + 1)%Z) (list_set (code s) (ip s) (resolve_op e)))
                     (meter (set_code (set_meter s (meter s + 1)%Z) (list_set (code s) (ip s) (resolve_op e)))))
          with (mlim s (meter s + 1)%Z).
        destruct (mlim s (meter s + 1)%Z) eqn:E3.
        -- eapply far_res_limit; eassumption.
        -- eapply far_res; eassumption.
      * eapply far_unknown; eassumption.
    + apply far_panic; assumption.
Qed.
