(* DbgMapGen.v (C17): the walk through the builder, done once for an arbitrary invariant.

   Three predicates: [J0] holds between tokens of [build1]; [J] (stronger) holds while one
   token is being compiled (after [get_token] returned a word or a literal); [E] is what is
   left when the build fails.  Given that they are kept by machine steps ([vmrel]), by
   [code_emit], by token reading and by the context operations, every immediate word,
   [build_word] and [build1] (any fuel) keep them. *)
From Xeh Require Import Model.Prelude Model.Bits Model.Codec Model.Cell Model.Lexer Model.Fmt
                        Model.Vm Model.Words Model.Build.
From Xeh Require Import Proofs.VmFrame Proofs.VmLimits Proofs.DbgMapVm.

#[local] Arguments Z.add : simpl never.
#[local] Arguments Z.sub : simpl never.
#[local] Arguments Z.mul : simpl never.
#[local] Arguments Z.ltb : simpl never.
#[local] Arguments Z.leb : simpl never.
#[local] Arguments Z.eqb : simpl never.
#[local] Arguments Z.of_nat : simpl never.
#[local] Arguments Z.to_nat : simpl never.

(* the inner loops of build_let_map / build_let_vec, named *)
Section LetLoops.
  Variable pr : string -> option Z.
  Local Open Scope string_scope.

  Definition glet_map_go (f : nat) : nat -> M unit :=
    fix go (k : nat) : M unit :=
      match k with
      | O => unsup
      | S k' =>
        let* t := get_token pr in
        match t with
        | BWord w =>
          if String.eqb w "}" then emit_native "%let-map-end"
          else if String.eqb w "]" then fail EFlow None
          else fail EExpectLit None
        | BLit key =>
          code_emit_value key ;; emit_native "%let-map-lookup" ;; build_let_in pr f ;; go k'
        | BEnd => fail EExpectLit None
        end
      end.

  Definition glet_vec_go (f : nat) : nat -> Z -> M unit :=
    fix go (k : nat) (idx : Z) : M unit :=
      match k with
      | O => unsup
      | S k' =>
        let* t := get_token pr in
        match t with
        | BWord w =>
          if String.eqb w "[" then
            let* i' := let_vec_next idx in build_let_vec pr f 0%Z ;; go k' i'
          else if String.eqb w "]" then
            if (idx =? usize_max)%Z then emit_native "%let-vec-any-len"
            else
              emit_native "%let-vec-len" ;;
              code_emit_value (insert_tag (CInt idx) assert_msg (CStr "vector length mismatch")) ;;
              emit_native "assert-eq"
          else if String.eqb w "&" then
            code_emit_value (CInt idx) ;; emit_native "%let-vec-rest" ;; build_let_in pr f ;; go k' usize_max
          else if String.eqb w "{" then
            let* i' := let_vec_next idx in build_let_map pr f ;; go k' i'
          else if String.eqb w "}" then fail EFlow None
          else if String.eqb w "^" then
            let* i' := let_vec_next idx in build_let_tags pr f ;; go k' (i' - 1)%Z
          else
            let* i' := let_vec_next idx in build_let_named w ;; go k' i'
        | BLit v => let* i' := let_vec_next idx in build_let_match v ;; go k' i'
        | BEnd => fail ELetSyntax None
        end
      end.

  Lemma gbuild_let_map_S f :
    build_let_map pr (S f) = (emit_native "%let-map-begin" ;; glet_map_go f (S f)).
  Proof. reflexivity. Qed.

  Lemma gbuild_let_vec_S f i : build_let_vec pr (S f) i = glet_vec_go f (S f) i.
  Proof. reflexivity. Qed.
End LetLoops.

Section Gen.
  Variable fo : fops.
  Variable pr : string -> option Z.
  Variable rf : nat.
  Variables J0 J E : state -> Prop.

  Definition gq {A} (P : state -> Prop) (Q : A -> state -> Prop) (m : M A) : Prop :=
    forall s, P s -> match m s with
                     | ROk a s' => Q a s'
                     | RErr _ _ s' => E s'
                     | _ => True
                     end.
  Definition gp {A} (m : M A) : Prop := gq J (fun (_ : A) => J) m.
  Definition gp0 {A} (m : M A) : Prop := gq J0 (fun (_ : A) => J0) m.

  Hypothesis H_J_J0 : forall s, J s -> J0 s.
  Hypothesis H_J0_E : forall s, J0 s -> E s.
  Hypothesis H_J_vm : forall s s', vmrel s s' -> J s -> J s'.
  Hypothesis H_J0_vm : forall s s', vmrel s s' -> J0 s -> J0 s'.
  Hypothesis H_emit : forall op, gp (code_emit op).
  Hypothesis H_tok : gp (get_token pr).
  Hypothesis H_tok0 :
    gq J0 (fun t s' => match t with BEnd => J0 s' | _ => J s' end) (get_token pr).
  Hypothesis H_name : gp (next_name pr).
  Hypothesis H_open : gp (context_open MMeta).
  (* context_close is reached from the immediate words only with a meta context current *)
  Hypothesis H_close :
    gq (fun s => J s /\ cmode (cx s) = MMeta) (fun _ => J) (context_close fo rf).
  Hypothesis H_intern : forall t, gp (intern_source t).

  Lemma H_J_E : forall s, J s -> E s.
  Proof. intros s H. apply H_J0_E, H_J_J0, H. Qed.

  (* ---------- the monad ---------- *)
  Lemma gq_bind A B (P : state -> Prop) (Q : A -> state -> Prop) (R : B -> state -> Prop)
        (m : M A) (f : A -> M B) :
    gq P Q m -> (forall a, gq (Q a) R (f a)) -> gq P R (bind m f).
  Proof.
    intros Hm Hf s Hs. unfold bind. specialize (Hm s Hs).
    destruct (m s) as [a s1|k p s1| |]; auto. apply Hf. exact Hm.
  Qed.

  Lemma gq_get_bind B (P : state -> Prop) (R : B -> state -> Prop) (k : state -> M B) :
    (forall s0, P s0 -> gq P R (k s0)) -> gq P R (bind get k).
  Proof. intros H s Hs. unfold bind, get. apply H; exact Hs. Qed.

  Lemma gq_weaken A (P P' : state -> Prop) (Q Q' : A -> state -> Prop) (m : M A) :
    (forall s, P' s -> P s) -> (forall a s, Q a s -> Q' a s) -> gq P Q m -> gq P' Q' m.
  Proof.
    intros HP HQ H s Hs. specialize (H s (HP s Hs)). destruct (m s); auto.
  Qed.

  Lemma gp_ret A (a : A) : gp (ret a).
  Proof. intros s H. exact H. Qed.
  Lemma gp_fail A k p : gp (@fail A k p).
  Proof. intros s H. apply H_J_E. exact H. Qed.
  Lemma gp_unsup A : gp (@unsup A).
  Proof. intros s H. exact I. Qed.
  Lemma gp_panic A : gp (@panic A).
  Proof. intros s H. exact I. Qed.
  Lemma gp_bind A B (m : M A) (f : A -> M B) : gp m -> (forall a, gp (f a)) -> gp (bind m f).
  Proof. intros Hm Hf. eapply gq_bind; [exact Hm|exact Hf]. Qed.
  Lemma gp_get_bind B (k : state -> M B) : (forall s0, J s0 -> gp (k s0)) -> gp (bind get k).
  Proof. apply gq_get_bind. Qed.
  Lemma gp_put s' : J s' -> gp (put s').
  Proof. intros H s _. exact H. Qed.
  Lemma gp_modify f : (forall s, J s -> J (f s)) -> gp (modify f).
  Proof. intros H s Hs. apply H. exact Hs. Qed.

  (* programs that only make frame steps *)
  Lemma gp_frm A (m : M A) : P_frm m -> gp m.
  Proof.
    intros H s Hs. specialize (H s). destruct (m s) as [a s1|k p s1| |]; cbn [res_all] in H; auto.
    - eapply H_J_vm; [apply vmrel_frm; exact H|exact Hs].
    - apply H_J_E. eapply H_J_vm; [apply vmrel_frm; exact H|exact Hs].
  Qed.
  Lemma gp_wl A (m : M A) : wl m -> gp m.
  Proof. intros H. apply gp_frm. apply wl_frm. exact H. Qed.

  Lemma J_frm s s' : frm s s' -> J s -> J s'.
  Proof. intros H. apply H_J_vm. apply vmrel_frm. exact H. Qed.

  (* ---------- builder primitives ---------- *)
  Lemma gp_backpatch pos op : gp (backpatch pos op).
  Proof.
    intros s Hs. unfold backpatch. destruct (pos <? length (code s))%nat; [|exact I].
    eapply H_J_vm; [apply vmrel_patch|exact Hs].
  Qed.

  Lemma gp_backpatch_jump pos offs : gp (backpatch_jump pos offs).
  Proof.
    intros s Hs. unfold backpatch_jump.
    destruct (nth_error (code s) pos) as [op|]; [|apply H_J_E; exact Hs].
    destruct op; try exact I; apply gp_backpatch; exact Hs.
  Qed.

  Lemma gp_pop_flow : gp pop_flow.
  Proof.
    intros s Hs. unfold pop_flow. destruct (flows s); [exact Hs|].
    destruct (_ <? _)%nat; [|exact Hs]. eapply J_frm; [|exact Hs]. repeat split.
  Qed.

  Lemma gp_take_first_cond_flow : gp take_first_cond_flow.
  Proof.
    intros s Hs. unfold take_first_cond_flow. cbv zeta.
    destruct (take_cond (pending s)) as [[f act']|]; [|exact Hs].
    eapply J_frm; [|exact Hs]. repeat split.
  Qed.

  Lemma gp_dict_insert name e : gp (dict_insert name e).
  Proof. intros s Hs. unfold dict_insert. eapply J_frm; [|exact Hs]. repeat split. Qed.

  Lemma gp_alloc_heap v : gp (alloc_heap v).
  Proof.
    intros s Hs. unfold alloc_heap. destruct (mode_eqb _ _); [apply H_J_E; exact Hs|].
    destruct (limit_reached _ _); [apply H_J_E; exact Hs|].
    eapply J_frm; [|exact Hs]. repeat split.
  Qed.

  Lemma gq_run_m (P : state -> Prop) :
    (forall s s', vmrel s s' -> P s -> P s') -> (forall s, P s -> E s) ->
    gq P (fun _ => P) (run_m fo rf).
  Proof.
    intros Hvm HE s Hs. unfold run_m.
    pose proof (run_vmrel (nf fo) (native_wl fo) rf s) as H.
    destruct (run (nf fo) rf s) as [r|]; [|exact I].
    destruct r as [u s1|k p s1| |]; cbn [res_all] in H; auto.
    - eapply Hvm; eassumption.
    - apply HE. eapply Hvm; eassumption.
  Qed.

  Lemma gp_run_m : gp (run_m fo rf).
  Proof. apply gq_run_m; [exact H_J_vm|exact H_J_E]. Qed.
  Lemma gp0_run_m : gp0 (run_m fo rf).
  Proof. apply gq_run_m; [exact H_J0_vm|exact H_J0_E]. Qed.

  Lemma gp_vec_collect p : gp (vec_collect_till_ptr p).
  Proof. apply gp_wl. wl_solve. Qed.
  Lemma gp_join_str_vec sep v : gp (join_str_vec sep v).
  Proof. apply gp_wl. wl_solve. Qed.

  (* ---------- the tactic ---------- *)
  Ltac gp_fin :=
    lazymatch goal with
    | H : J ?s |- J _ => first [ exact H | eapply J_frm; [ | exact H ]; repeat split ]
    end.

  Ltac gp_prim :=
    lazymatch goal with
    | |- gp (ret _) => apply gp_ret
    | |- gp (fail _ _) => apply gp_fail
    | |- gp unsup => apply gp_unsup
    | |- gp panic => apply gp_panic
    | |- gp (put _) => apply gp_put; gp_fin
    | |- gp (modify _) => apply gp_modify; intros; gp_fin
    | |- gp (push_flow _) => apply gp_modify; intros; gp_fin
    | |- gp (code_emit _) => apply H_emit
    | |- gp (backpatch _ _) => apply gp_backpatch
    | |- gp (backpatch_jump _ _) => apply gp_backpatch_jump
    | |- gp pop_flow => apply gp_pop_flow
    | |- gp take_first_cond_flow => apply gp_take_first_cond_flow
    | |- gp (dict_insert _ _) => apply gp_dict_insert
    | |- gp (context_open _) => apply H_open
    | |- gp (intern_source _) => apply H_intern
    | |- gp (alloc_heap _) => apply gp_alloc_heap
    | |- gp (get_token _) => apply H_tok
    | |- gp (next_name _) => apply H_name
    | |- gp (run_m _ _) => apply gp_run_m
    | |- gp (vec_collect_till_ptr _) => apply gp_vec_collect
    | |- gp (join_str_vec _ _) => apply gp_join_str_vec
    | |- gp pop_data => apply gp_wl, wl_pop_data
    | |- gp (push_data _) => apply gp_wl, wl_push_data
    | |- gp (push_return _) => apply gp_wl, wl_push_return
    | |- gp (set_ip _) => apply gp_wl, wl_set_ip
    end.

  Ltac gp_step :=
    cbv beta zeta;
    first
      [ gp_prim
      | assumption
      | match goal with H : context [gp _] |- gp _ => apply H end
      | lazymatch goal with
        | |- gp (bind get _) => apply gp_get_bind; intros ? ?
        | |- gp (bind _ _) => apply gp_bind; [ | intro ]
        | |- gp (match ?x with _ => _ end) => destruct x
        | |- gp ?m => let h := head_of m in unfold h
        end ].

  Ltac gp_solve := repeat gp_step.

  (* ---------- the two words that close a meta context ---------- *)
  Definition JM (s : state) : Prop := J s /\ cmode (cx s) = MMeta.

  Lemma gq_get_at B (P : state -> Prop) (R : B -> state -> Prop) (k : state -> M B) :
    (forall s, P s -> gq (fun s' => s' = s) R (k s)) -> gq P R (bind get k).
  Proof. intros H s Hs. unfold bind, get. apply (H s Hs s eq_refl). Qed.

  Lemma gq_frm_JM A (m : M A) : P_frm m -> gq JM (fun _ => JM) m.
  Proof.
    intros H s [Hs Hm]. specialize (H s). destruct (m s) as [a s1|k p s1| |]; cbn [res_all] in H; auto.
    - split; [eapply J_frm; eassumption|].
      destruct H as (_ & _ & _ & _ & _ & _ & H7). rewrite (ctx_noip_mode _ _ H7). exact Hm.
    - apply H_J_E. eapply J_frm; eassumption.
  Qed.

  Lemma mode_eqb_meta c : mode_eqb c MMeta = true -> c = MMeta.
  Proof. destruct c; cbn; congruence. Qed.

  Lemma gp_i_nested_end : gp (i_nested_end fo rf).
  Proof.
    unfold i_nested_end. apply gq_get_at. intros s Hs.
    destruct (mode_eqb (cmode (cx s)) MMeta) eqn:Em; cbn [negb].
    - destruct (has_pending_flow s); [intros s' ->; apply H_J_E; exact Hs|].
      eapply gq_weaken; [| |exact H_close]; [|auto].
      intros s' ->. split; [exact Hs|apply mode_eqb_meta; exact Em].
    - intros s' ->. apply H_J_E. exact Hs.
  Qed.

  Lemma gp_i_nested_inject : gp (i_nested_inject fo rf).
  Proof.
    unfold i_nested_inject. apply gq_get_at. intros s Hs.
    destruct (mode_eqb (cmode (cx s)) MMeta) eqn:Em; cbn [negb].
    - destruct (has_pending_flow s); [intros s' ->; apply H_J_E; exact Hs|].
      eapply gq_weaken with (P := JM) (Q := fun _ => J);
        [intros s' ->; split; [exact Hs|apply mode_eqb_meta; exact Em]|auto|].
      eapply gq_bind; [apply gq_frm_JM, wl_frm; wl_solve|]. intros v.
      eapply gq_bind; [apply gq_frm_JM, wl_frm; wl_solve|]. intros t.
      eapply gq_bind; [exact H_close|]. intros ?u; cbv beta. apply H_intern.
    - intros s' ->. apply H_J_E. exact Hs.
  Qed.

  Lemma gp_emit_native w : gp (emit_native w).
  Proof. gp_solve. Qed.
  Lemma gp_code_emit_value v : gp (code_emit_value v).
  Proof. gp_solve. Qed.

  Lemma gp_endcase_loop : forall fuel org, gp (endcase_loop fuel org).
  Proof. induction fuel as [|f IH]; intros org; cbn [endcase_loop]; gp_solve. Qed.

  Lemma gp_repeat_loop : forall fuel, gp (repeat_loop fuel).
  Proof. induction fuel as [|f IH]; cbn [repeat_loop]; gp_solve. Qed.

  Lemma gp_loop_loop : forall fuel a b, gp (loop_loop fuel a b).
  Proof. induction fuel as [|f IH]; intros a b; cbn [loop_loop]; gp_solve. Qed.

  (* ---------- let ---------- *)
  Lemma gp_build_let_named w : gp (build_let_named w).
  Proof. gp_solve. Qed.
  Lemma gp_build_let_match v : gp (build_let_match v).
  Proof. pose proof gp_emit_native. pose proof gp_code_emit_value. gp_solve. Qed.
  Lemma gp_let_vec_next i : gp (let_vec_next i).
  Proof. pose proof gp_emit_native. pose proof gp_code_emit_value. gp_solve. Qed.

  Lemma gp_build_let : forall f,
    gp (build_let_in pr f) /\ gp (build_let_tags pr f) /\ gp (build_let_map pr f) /\
    (forall i, gp (build_let_vec pr f i)).
  Proof.
    induction f as [|f (IHin & IHtags & IHmap & IHvec)].
    - repeat split; intros; apply gp_unsup.
    - pose proof gp_emit_native as HE. pose proof gp_code_emit_value as HV.
      pose proof gp_let_vec_next as HN. pose proof gp_build_let_named as HNm.
      pose proof gp_build_let_match as HM.
      assert (Hmap : gp (build_let_map pr (S f))).
      { rewrite gbuild_let_map_S. apply gp_bind; [apply gp_emit_native|intros _].
        generalize (S f) as k. induction k as [|k IHk]; cbn [glet_map_go]; [apply gp_unsup|].
        fold (glet_map_go pr f) in *.
        gp_solve. }
      assert (Hvec : forall i, gp (build_let_vec pr (S f) i)).
      { intros i. rewrite gbuild_let_vec_S. revert i.
        generalize (S f) as k. induction k as [|k IHk]; intros i; cbn [glet_vec_go]; [apply gp_unsup|].
        fold (glet_vec_go pr f) in *.
        gp_solve. }
      assert (Htags : gp (build_let_tags pr (S f))).
      { cbn [build_let_tags]. gp_solve. }
      assert (Hin : gp (build_let_in pr (S f))).
      { cbn [build_let_in]. gp_solve. }
      repeat split; assumption.
  Qed.

  Lemma gp_build_let_in f : gp (build_let_in pr f).
  Proof. exact (proj1 (gp_build_let f)). Qed.

  (* ---------- the immediate words, build_word, build1 ---------- *)
  Lemma gp_immediate_fn : forall fuel name w, immediate_fn fo pr rf fuel name = Some w -> gp w.
  Proof.
    intros fuel name w H. unfold immediate_fn in H. cbv zeta in H.
    eapply table_find_Forall with (P := fun m => gp m); [|exact H].
    pose proof (gp_build_let_in fuel) as HL.
    pose proof gp_emit_native as HE. pose proof gp_code_emit_value as HV.
    pose proof gp_endcase_loop as H1. pose proof gp_repeat_loop as H2. pose proof gp_loop_loop as H3.
    pose proof gp_i_nested_end as H4. pose proof gp_i_nested_inject as H5.
    repeat (apply Forall_cons; [ cbn [snd]; gp_solve | ]).
    apply Forall_nil.
  Qed.

  Lemma gp_run_immediate fuel f : gp (run_immediate fo pr rf fuel f).
  Proof.
    unfold run_immediate. destruct f as [x|name].
    - gp_solve.
    - destruct (immediate_fn fo pr rf fuel name) as [w|] eqn:Ei; [|apply gp_unsup].
      eapply gp_immediate_fn. exact Ei.
  Qed.

  Lemma gp_build_word fuel name : gp (build_word fo pr rf fuel name).
  Proof. pose proof (gp_run_immediate fuel). gp_solve. Qed.

  Lemma gp0_build1 : forall fuel depth, gp0 (build1 fo pr rf fuel depth).
  Proof.
    induction fuel as [|f IH]; intros depth; cbn [build1]; [intros s Hs; exact I|].
    apply gq_get_bind. intros s0 _.
    eapply gq_bind with (Q := fun _ => J0).
    { destruct (_ && _); [apply gp0_run_m|intros s Hs; exact Hs]. }
    intros ?u; cbv beta. eapply gq_bind; [exact H_tok0|].
    intros t. destruct t as [|name|v].
    - apply gq_get_bind. intros s1 _.
      destruct (negb _); [intros s Hs; apply H_J0_E; exact Hs|].
      destruct (has_pending_flow s1); [intros s Hs; apply H_J0_E; exact Hs|].
      intros s Hs. exact Hs.
    - assert (X : forall m : M unit, gp m -> gq J (fun _ => J0) (m ;; build1 fo pr rf f depth)).
      { intros m Hm. eapply gq_bind; [exact Hm|]. intros ?u; cbv beta.
        eapply gq_weaken; [exact H_J_J0| |apply IH]. auto. }
      apply gq_get_bind. intros s1 _.
      destruct (top_function_flow s1) as [[[fa fb] ls]|].
      + destruct (rposition ls name 0 None); apply X; [apply H_emit|apply gp_build_word].
      + apply X. apply gp_build_word.
    - eapply gq_bind; [apply gp_code_emit_value|]. intros ?u; cbv beta.
      eapply gq_weaken; [exact H_J_J0| |apply IH]. auto.
  Qed.
End Gen.
