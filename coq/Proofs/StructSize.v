(* StructSize.v: the jump-resolved layout emits exactly [size_block] cells. *)
From Xeh Require Import Model.Prelude Model.Bits Model.Codec Model.Cell Model.Lexer Model.Fmt
                        Model.Vm Model.Words Model.Struct Proofs.StructBase.
Local Notation length := List.length.

Fixpoint size_arms (l : list (list stmt * pos * list stmt)) : nat :=
  match l with
  | [] => 0
  | (pre, _, body) :: r => size_block pre + 1 + size_block body + 1 + size_arms r
  end.

Section LayArms.
  Variable faddr : nat -> nat.
  Variable bc : brk_ctx.
  Variable d : list stmt.
  Variable endp : nat.     (* the cell after the whole case *)
  Fixpoint lay_arms (l : list (list stmt * pos * list stmt)) (o : nat) : list opcode :=
    match l with
    | [] => lay_block faddr d o bc
    | (pre, _, body) :: r =>
      let o1 := o + size_block pre in
      let o2 := S o1 + size_block body in
      lay_block faddr pre o bc ++ (OCaseOf (Z.of_nat (2 + size_block body)) :: lay_block faddr body (S o1) bc)
      ++ (OJump (rel o2 endp) :: lay_arms r (S o2))
    end.
End LayArms.

(* ---------- equations ---------- *)
Lemma size_stmt_SIf : forall p t, size_stmt (SIf p t) = 1 + size_block t.
Proof. reflexivity. Qed.
Lemma size_stmt_SIfE : forall p t e, size_stmt (SIfE p t e) = 2 + size_block t + size_block e.
Proof. reflexivity. Qed.
Lemma size_stmt_SCase : forall arms d, size_stmt (SCase arms d) = size_arms arms + size_block d.
Proof. reflexivity. Qed.
Lemma size_stmt_SUntil : forall b p, size_stmt (SUntil b p) = size_block b + 1.
Proof. reflexivity. Qed.
Lemma size_stmt_SRepeat : forall b, size_stmt (SRepeat b) = size_block b + 1.
Proof. reflexivity. Qed.
Lemma size_stmt_SWhile : forall c p b, size_stmt (SWhile c p b) = size_block c + 1 + size_block b + 1.
Proof. reflexivity. Qed.
Lemma size_stmt_SDo : forall p b pl, size_stmt (SDo p b pl) = 1 + size_block b + 1.
Proof. reflexivity. Qed.

Lemma lay_stmt_SIf : forall faddr p t org bc,
  lay_stmt faddr (SIf p t) org bc = OJumpIfNot (Z.of_nat (1 + size_block t)) :: lay_block faddr t (S org) bc.
Proof. reflexivity. Qed.
Lemma lay_stmt_SIfE : forall faddr p t e org bc,
  lay_stmt faddr (SIfE p t e) org bc =
  (OJumpIfNot (Z.of_nat (2 + size_block t)) :: lay_block faddr t (S org) bc)
  ++ (OJump (Z.of_nat (1 + size_block e)) :: lay_block faddr e (org + 2 + size_block t) bc).
Proof. reflexivity. Qed.
Lemma lay_stmt_SCase : forall faddr arms d org bc,
  lay_stmt faddr (SCase arms d) org bc = lay_arms faddr bc d (org + size_stmt (SCase arms d)) arms org.
Proof. reflexivity. Qed.
Lemma lay_stmt_SUntil : forall faddr b p org bc,
  lay_stmt faddr (SUntil b p) org bc = lay_block faddr b org BNone ++ [OJumpIfNot (- Z.of_nat (size_block b))%Z].
Proof. reflexivity. Qed.
Lemma lay_stmt_SRepeat : forall faddr b org bc,
  lay_stmt faddr (SRepeat b) org bc =
  lay_block faddr b org (BJump (org + size_block b + 1)) ++ [OJump (- Z.of_nat (size_block b))%Z].
Proof. reflexivity. Qed.
Lemma lay_stmt_SWhile : forall faddr c p b org bc,
  lay_stmt faddr (SWhile c p b) org bc =
  lay_block faddr c org (BJump (org + size_block c + 1 + size_block b + 1))
  ++ (OJumpIfNot (Z.of_nat (size_block b + 2))
      :: lay_block faddr b (org + size_block c + 1) (BJump (org + size_block c + 1 + size_block b + 1)))
  ++ [OJump (- Z.of_nat (size_block c + 1 + size_block b))%Z].
Proof. reflexivity. Qed.
Lemma lay_stmt_SDo : forall faddr p b pl org bc,
  lay_stmt faddr (SDo p b pl) org bc =
  (ODo (Z.of_nat (size_block b + 2)) :: lay_block faddr b (S org) (BLoop (org + size_block b + 2)))
  ++ [OLoop (- Z.of_nat (size_block b))%Z].
Proof. reflexivity. Qed.

(* ---------- sizes ---------- *)
Theorem size_block_app : forall b1 b2, size_block (b1 ++ b2) = size_block b1 + size_block b2.
Proof.
  induction b1 as [| x r IH]; intro b2; [ reflexivity | ].
  cbn [app size_block]. rewrite IH. lia.
Qed.

Lemma lay_arms_length : forall faddr bc d endp,
  (forall o, length (lay_block faddr d o bc) = size_block d) ->
  forall arms,
    Forall (fun a : arm => (forall o bc, length (lay_block faddr (arm_pre a) o bc) = size_block (arm_pre a)) /\
                           (forall o bc, length (lay_block faddr (arm_body a) o bc) = size_block (arm_body a))) arms ->
    forall o, length (lay_arms faddr bc d endp arms o) = size_arms arms + size_block d.
Proof.
  intros faddr bc d endp Hd arms HF. induction HF as [| [[pre pof] body] r [Hp Hb] _ IH]; intro o.
  - cbn [lay_arms size_arms]. apply Hd.
  - cbn [lay_arms size_arms]. unfold arm_pre, arm_body in Hp, Hb. cbn [fst snd] in Hp, Hb.
    cbv zeta. rewrite ?app_length. cbn [length]. rewrite ?app_length. cbn [length].
    rewrite Hp, Hb, IH. lia.
Qed.

Lemma lay_length_both : forall faddr,
  (forall x org bc, length (lay_stmt faddr x org bc) = size_stmt x) /\
  (forall l org bc, length (lay_block faddr l org bc) = size_block l).
Proof.
  intro faddr.
  apply (stmt_block_ind (fun x => forall org bc, length (lay_stmt faddr x org bc) = size_stmt x)
                        (fun l => forall org bc, length (lay_block faddr l org bc) = size_block l)).
  - reflexivity.
  - intros x r Hx Hr org bc. cbn [lay_block size_block]. rewrite app_length, Hx, Hr. reflexivity.
  - reflexivity.
  - reflexivity.
  - reflexivity.
  - reflexivity.
  - reflexivity.
  - reflexivity.
  - reflexivity.
  - intros p t Ht org bc. rewrite lay_stmt_SIf, size_stmt_SIf. cbn [length]. rewrite Ht. reflexivity.
  - intros p t e Ht He org bc. rewrite lay_stmt_SIfE, size_stmt_SIfE, app_length. cbn [length].
    rewrite Ht, He. lia.
  - intros arms d Ha Hd org bc. rewrite lay_stmt_SCase.
    rewrite (lay_arms_length faddr bc d _ (fun o => Hd o bc) arms Ha). reflexivity.
  - intros b p Hb org bc. rewrite lay_stmt_SUntil, size_stmt_SUntil, app_length, Hb. reflexivity.
  - intros b Hb org bc. rewrite lay_stmt_SRepeat, size_stmt_SRepeat, app_length, Hb. reflexivity.
  - intros c p b Hc Hb org bc. rewrite lay_stmt_SWhile, size_stmt_SWhile.
    rewrite ?app_length. cbn [length]. rewrite ?app_length, Hc, Hb. cbn [length]. lia.
  - intros p b pl Hb org bc. rewrite lay_stmt_SDo, size_stmt_SDo, app_length. cbn [length].
    rewrite Hb. lia.
  - intros org bc. destruct bc; reflexivity.
  - reflexivity.
Qed.

Theorem lay_stmt_length : forall faddr x org bc, length (lay_stmt faddr x org bc) = size_stmt x.
Proof. intro faddr. exact (proj1 (lay_length_both faddr)). Qed.
Theorem lay_block_length : forall faddr b org bc, length (lay_block faddr b org bc) = size_block b.
Proof. intro faddr. exact (proj2 (lay_length_both faddr)). Qed.

(* the layout of a concatenation *)
Theorem lay_block_app : forall faddr b1 b2 org bc,
  lay_block faddr (b1 ++ b2) org bc =
  lay_block faddr b1 org bc ++ lay_block faddr b2 (org + size_block b1) bc.
Proof.
  intros faddr. induction b1 as [| x r IH]; intros b2 org bc.
  - cbn [app lay_block size_block]. rewrite Nat.add_0_r. reflexivity.
  - cbn [app lay_block size_block]. rewrite IH, <- app_assoc, Nat.add_assoc. reflexivity.
Qed.

(* the cell at which the statement after a prefix starts *)
Corollary lay_block_nth_after : forall faddr b1 x b2 org bc k,
  nth_error (lay_block faddr (b1 ++ x :: b2) org bc) (size_block b1 + k) =
  nth_error (lay_stmt faddr x (org + size_block b1) bc ++ lay_block faddr b2 (org + size_block b1 + size_stmt x) bc) k.
Proof.
  intros. rewrite lay_block_app. rewrite nth_error_app2; rewrite lay_block_length; [ | lia ].
  replace (size_block b1 + k - size_block b1) with k by lia. reflexivity.
Qed.
