(* Completeness of the literal grammars: every text after an opening bar / an opening quote falls
   under exactly one of the cases the literal theorems describe. *)
From Xeh Require Import Model.Prelude Model.Bits Model.Cell Model.Lexer Model.Fmt.
From Xeh Require Import Proofs.LexLoc Proofs.LexBasic Proofs.LexNext Proofs.LexAll Proofs.LexPrintInt
  Proofs.LexStr Proofs.LexStrPlain Proofs.LexMoreBits.
From Coq Require Import ZifyBool ZifyNat ZifyN.
Local Open Scope string_scope.

(* ---------- bit-strings ---------- *)

Lemma ascii_of_byte c : ascii_of_N (byte_of c) = c.
Proof. unfold byte_of. apply ascii_N_embedding. Qed.

Lemma hex_digit_char c x : hex_digit c = Some x -> (x < 16)%N /\ exists up, digit_char up x = c.
Proof.
  unfold hex_digit, digit_val. intros H.
  destruct ((48 <=? byte_of c)%N && (byte_of c <=? 57)%N) eqn:E1.
  { destruct (byte_of c - 48 <? 16)%N eqn:L; [|discriminate]. injection H as <-. split; [lia|].
    exists false. unfold digit_char. replace (byte_of c - 48 <? 10)%N with true by lia.
    replace (48 + (byte_of c - 48))%N with (byte_of c) by lia. apply ascii_of_byte. }
  destruct ((97 <=? byte_of c)%N && (byte_of c <=? 122)%N) eqn:E2.
  { destruct (byte_of c - 87 <? 16)%N eqn:L; [|discriminate]. injection H as <-. split; [lia|].
    exists false. unfold digit_char. replace (byte_of c - 87 <? 10)%N with false by lia.
    replace (87 + (byte_of c - 87))%N with (byte_of c) by lia. apply ascii_of_byte. }
  destruct ((65 <=? byte_of c)%N && (byte_of c <=? 90)%N) eqn:E3; [|discriminate].
  destruct (byte_of c - 55 <? 16)%N eqn:L; [|discriminate]. injection H as <-. split; [lia|].
  exists true. unfold digit_char. replace (byte_of c - 55 <? 10)%N with false by lia.
  replace (55 + (byte_of c - 55))%N with (byte_of c) by lia. apply ascii_of_byte.
Qed.

(* the text after the opening bar: a well-formed part followed by the closing bar, by the end of
   the text, or by an offending character *)
Lemma bits_decompose : forall s, exists items, forallb bitem_ok items = true /\
  ((exists rest, s = bitems_text items ++ "|" ++ rest) \/
   s = bitems_text items \/
   (exists c more, bits_bad_char c = true /\ s = bitems_text items ++ String c more)).
Proof.
  induction s as [|c r IH].
  - exists []. split; [reflexivity|]. right. left. reflexivity.
  - destruct IH as (items & Hok & Hcase).
    assert (Ext : forall i, bitem_ok i = true -> bitem_char i = c ->
              exists items0, forallb bitem_ok items0 = true /\
                ((exists rest, String c r = bitems_text items0 ++ "|" ++ rest) \/
                 String c r = bitems_text items0 \/
                 (exists c0 more, bits_bad_char c0 = true /\ String c r = bitems_text items0 ++ String c0 more))).
    { intros i Hi Hc. exists (i :: items). cbn [forallb bitems_text]. rewrite Hi, Hok, Hc. split; [reflexivity|].
      destruct Hcase as [(rest & ->)|[->|(c0 & more & Hb & ->)]].
      - left. exists rest. reflexivity.
      - right. left. reflexivity.
      - right. right. exists c0, more. split; [exact Hb|reflexivity]. }
    destruct (hex_digit c) as [x|] eqn:Eh.
    { destruct (hex_digit_char c x Eh) as (Hx & up & Hup).
      apply (Ext (BHex up x)); [cbn [bitem_ok]; lia|exact Hup]. }
    destruct (is_ws c) eqn:Ew; [apply (Ext (BSpace c)); [exact Ew|reflexivity]|].
    destruct (byte_of c =? 46)%N eqn:E1.
    { apply (Ext BDot); [reflexivity|]. apply N.eqb_eq, byte_of_inj in E1. subst c. reflexivity. }
    destruct (byte_of c =? 120)%N eqn:E2.
    { apply (Ext BX); [reflexivity|]. apply N.eqb_eq, byte_of_inj in E2. subst c. reflexivity. }
    exists []. split; [reflexivity|]. cbn [bitems_text append].
    destruct (byte_of c =? 124)%N eqn:E3.
    + left. exists r. apply N.eqb_eq, byte_of_inj in E3. subst c. reflexivity.
    + right. right. exists c, r. split; [|reflexivity].
      unfold bits_bad_char. rewrite Eh, Ew, E1, E2, E3. reflexivity.
Qed.

(* ---------- strings ---------- *)

(* how a string body can stop; [curly]: the literal was opened by a curly quote *)
Inductive str_tail (curly : bool) : string -> Prop :=
| tail_close q rest : is_closer curly q -> str_tail curly (q ++ rest)
| tail_end : str_tail curly ""
| tail_backslash_end : str_tail curly "\"
| tail_bad_escape r c2 r2 :
    take_char r = Some (c2, r2) -> (forall c, escape_value c <> None -> c2 <> String c "") ->
    str_tail curly (String "\" r).

Lemma str_decompose : forall curly n s need, String.length s <= n -> valid_go s need = true ->
  exists items tl, forallb (sitem_ok curly) items = true /\ s = sitems_text items ++ tl /\ str_tail curly tl.
Proof.
  intros curly. induction n as [|n IH]; intros s need Hn Hv.
  - destruct s; [|cbn [String.length] in Hn; lia]. exists [], "". repeat split. constructor.
  - destruct s as [|c r]; [exists [], ""; repeat split; constructor|]. cbn [String.length] in Hn.
    (* one more item in front *)
    assert (Ext : forall i s', String.length s' <= n -> forall k, valid_go s' k = true ->
              sitem_ok curly i = true -> String c r = sitem_text i ++ s' ->
              exists items tl, forallb (sitem_ok curly) items = true /\ String c r = sitems_text items ++ tl /\ str_tail curly tl).
    { intros i s' Hl k Hk Hi E. destruct (IH s' k Hl Hk) as (items & tl & I1 & I2 & I3).
      exists (i :: items), tl. cbn [forallb sitems_text]. rewrite Hi, I1. split; [reflexivity|].
      split; [|exact I3]. rewrite E, I2, app_assoc_s. reflexivity. }
    cbn [valid_go] in Hv.
    destruct need as [|k].
    2:{ (* inside a character: a continuation byte *)
        apply andb_prop in Hv. destruct Hv as [Hc Hv].
        apply (Ext (SByte c) r ltac:(lia) k Hv); [exact (cont_plain c Hc)|reflexivity]. }
    apply andb_prop in Hv. destruct Hv as [Hnc Hv].
    destruct (byte_of c =? 92)%N eqn:E92.
    { (* backslash *)
      apply N.eqb_eq in E92. pose proof (byte_of_inj c _ E92) as Ec. subst c.
      change (utf8_width (ascii_of_N 92) - 1) with 0 in Hv.
      destruct r as [|x r'].
      - exists [], "\". repeat split. constructor.
      - destruct (escape_value x) as [v|] eqn:Ex.
        + pose proof (escape_ascii x v Ex) as Hx. destruct (ascii_width x Hx) as [Wx Cx].
          cbn [valid_go] in Hv. rewrite Cx, Wx in Hv. cbn [negb andb Nat.sub] in Hv.
          cbn [String.length] in Hn.
          apply (Ext (SEsc x) r' ltac:(lia) 0 Hv); [cbn [sitem_ok]; rewrite Ex; reflexivity|reflexivity].
        + exists [], (String (ascii_of_N 92) (String x r')). split; [reflexivity|]. split; [reflexivity|].
          change (ascii_of_N 92) with "\"%char.
          destruct (take_char (String x r')) as [[c2 r2]|] eqn:Et; [|discriminate].
          apply (tail_bad_escape curly (String x r') c2 r2 Et).
          intros c0 Hc0 E. subst c2. unfold take_char in Et.
          pose proof (utf8_width_pos x) as Hw. destruct (utf8_width x) as [|w]; [lia|].
          cbn [str_take] in Et. injection Et as E1 _ _. subst c0. congruence. }
    destruct (byte_of c =? 34)%N eqn:E34.
    { apply N.eqb_eq, byte_of_inj in E34. subst c.
      exists [], (String (ascii_of_N 34) r). split; [reflexivity|]. split; [reflexivity|].
      apply (tail_close curly (String """" "") r). left. reflexivity. }
    destruct (byte_of c =? 226)%N eqn:E226.
    2:{ apply (Ext (SByte c) r ltac:(lia) (utf8_width c - 1) Hv); [|reflexivity].
        cbn [sitem_ok]. unfold plain_byte. cbv zeta. rewrite E92, E34, E226. reflexivity. }
    (* lead byte E2: a three-byte character *)
    assert (Ec : byte_of c = 226%N) by lia.
    assert (Ew : utf8_width c - 1 = 2) by (unfold utf8_width; rewrite Ec; reflexivity).
    rewrite Ew in Hv. destruct r as [|c1 [|c2 r']]; try discriminate.
    { cbn [valid_go] in Hv. apply andb_prop in Hv. destruct Hv as [_ Hv]. discriminate. }
    cbn [valid_go] in Hv. apply andb_prop in Hv. destruct Hv as [C1 Hv].
    apply andb_prop in Hv. destruct Hv as [C2 Hv].
    apply byte_of_inj in Ec. subst c. cbn [String.length] in Hn.
    destruct (curly && ((byte_of c1 =? 128)%N && (byte_of c2 =? 157)%N)) eqn:Erdq.
    + (* the closing curly quote, in a curly-opened literal *)
      apply andb_prop in Erdq. destruct Erdq as [Rc Erdq].
      apply andb_prop in Erdq. destruct Erdq as [R1 R2].
      apply N.eqb_eq, byte_of_inj in R1. apply N.eqb_eq, byte_of_inj in R2. subst c1 c2.
      exists [], (rdq ++ r'). split; [reflexivity|]. split; [reflexivity|].
      apply tail_close. right. split; [exact Rc|reflexivity].
    + apply (Ext (SE2 c1 c2) r' ltac:(lia) 0 Hv); [|reflexivity].
      cbn [sitem_ok]. rewrite (cont_plain c1 C1), (cont_plain c2 C2), Erdq. reflexivity.
Qed.

(* the text after an opening quote, in a valid UTF-8 source *)
Lemma str_decompose_valid curly s : valid_utf8 s = true ->
  exists items tl, forallb (sitem_ok curly) items = true /\ s = sitems_text items ++ tl /\ str_tail curly tl.
Proof. intros Hv. exact (str_decompose curly (String.length s) s 0 (le_n _) Hv). Qed.

Lemma str_tail_spec curly tl : str_tail curly tl <->
  ((exists q rest, is_closer curly q /\ tl = q ++ rest) \/ tl = "" \/ tl = "\" \/
   (exists r c2 r2, tl = String "\" r /\ take_char r = Some (c2, r2) /\
                    forall c, escape_value c <> None -> c2 <> String c "")).
Proof.
  split.
  - intros H. destruct H as [q rest Hq| | |r c2 r2 Ht Hc].
    + left. exists q, rest. auto.
    + right. left. reflexivity.
    + right. right. left. reflexivity.
    + right. right. right. exists r, c2, r2. auto.
  - intros [(q & rest & Hq & ->)|[->|[->|(r & c2 & r2 & -> & Ht & Hc)]]].
    + apply tail_close. exact Hq.
    + apply tail_end.
    + apply tail_backslash_end.
    + eapply tail_bad_escape; eassumption.
Qed.
