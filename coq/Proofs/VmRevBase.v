(* VmRevBase.v: the compositional notion of a reversible monadic program, proved for
   every logging primitive of Vm.v and closed under [bind]; the connection between the
   pure "undo" of a block of log entries and the real [rnext_loop]. *)
From Xeh Require Import Model.Prelude Model.Bits Model.Codec Model.Cell Model.Lexer Model.Fmt Model.Vm.
Local Notation length := List.length.
Arguments Z.add : simpl never.
Arguments Z.sub : simpl never.
Arguments Z.mul : simpl never.
Arguments Z.ltb : simpl never.
Arguments Z.leb : simpl never.
Arguments Z.eqb : simpl never.
Arguments Z.of_nat : simpl never.
Arguments Z.to_nat : simpl never.
Arguments Nat.ltb : simpl never.
Arguments Nat.leb : simpl never.
Arguments Nat.sub : simpl never.

(* ---------- states up to the parts a backward step does not restore ---------- *)
(* out, the log itself and the about_to_stop flag are set explicitly *)
Definition norm (s : state) (o : string) (l : option (list rstep)) (b : bool) : state :=
  set_stopping (set_out (set_rlog s l) o) b.

Definition is_setip (r : rstep) : bool := match r with RSetIp _ => true | _ => false end.
Definition is_over (r : rstep) : bool := match r with ROverData => true | _ => false end.

(* net effect of undoing one entry.  [reverse_changes ROverData] pops with the logging
   pop; the entry that pop adds is undone by the next iteration of [rnext_loop], so the
   net effect is the identity guarded by the check of the pop. *)
Definition undo1 (r : rstep) (s : state) : option state :=
  match r with
  | ROverData =>
    match ds s with
    | _ :: _ => if ds_len (cx s) <? length (ds s) then Some s else None
    | [] => None
    end
  | _ => match reverse_changes r s with ROk _ s' => Some s' | _ => None end
  end.

Fixpoint undo_list (es : list rstep) (s : state) : option state :=
  match es with
  | [] => Some s
  | r :: es' => match undo1 r s with Some s' => undo_list es' s' | None => None end
  end.

Lemma undo_list_app : forall a b s,
  undo_list (a ++ b) s = match undo_list a s with Some s' => undo_list b s' | None => None end.
Proof.
  induction a; intros; cbn [app undo_list]; auto.
  destruct (undo1 a s); auto.
Qed.

Definition nover (es : list rstep) : nat := length (filter is_over es).
Definition no_setip (es : list rstep) : Prop := forallb (fun r => negb (is_setip r)) es = true.

Lemma nover_app a b : nover (a ++ b) = nover a + nover b.
Proof. unfold nover. rewrite filter_app, app_length. auto. Qed.
Lemma no_setip_app a b : no_setip a -> no_setip b -> no_setip (a ++ b).
Proof. unfold no_setip. intros. rewrite forallb_app, H, H0. auto. Qed.

(* [R k s s']: s' is reached from s by logged changes only *)
Definition R (k : nat) (s s' : state) : Prop :=
  exists l0 es,
    rlog s = Some l0 /\ rlog s' = Some (es ++ l0) /\
    no_setip es /\ nover es <= k /\ wf_marks s' /\
    (forall o l b, undo_list es (norm s' o l b) = Some (norm s o l b)).

Lemma recording_some s : recording s = true -> exists l0, rlog s = Some l0.
Proof. unfold recording. destruct (rlog s); eauto; discriminate. Qed.

Lemma R_refl s : recording s = true -> wf_marks s -> R 0 s s.
Proof.
  intros H Hw. destruct (recording_some _ H) as [l0 Hl].
  exists l0, []. repeat split; auto; apply Hw.
Qed.

Lemma R_recording k s s' : R k s s' -> recording s' = true.
Proof. intros (l0 & es & _ & H & _). unfold recording. rewrite H. auto. Qed.
Lemma R_wf k s s' : R k s s' -> wf_marks s'.
Proof. intros (l0 & es & _ & _ & _ & _ & H & _). auto. Qed.

Lemma R_weaken k k' s s' : R k s s' -> k <= k' -> R k' s s'.
Proof.
  intros (l0 & es & H1 & H2 & H3 & H4 & H5 & H6) Hk.
  exists l0, es. repeat split; auto; try apply H5. lia.
Qed.

Lemma R_trans k1 k2 a b c : R k1 a b -> R k2 b c -> R (k1 + k2) a c.
Proof.
  intros (l0 & es1 & A1 & A2 & A3 & A4 & A5 & A6) (l1 & es2 & B1 & B2 & B3 & B4 & B5 & B6).
  rewrite A2 in B1. injection B1 as <-.
  exists l0, (es2 ++ es1). repeat split; auto; try apply B5.
  - rewrite B2, app_assoc. auto.
  - apply no_setip_app; auto.
  - rewrite nover_app. lia.
  - intros. rewrite undo_list_app, B6. apply A6.
Qed.

(* a program is reversible when it changes the machine only through logged changes;
   a successful run moreover leaves the about_to_stop flag alone *)
Definition rev (k : nat) {A} (m : M A) : Prop :=
  forall s, recording s = true -> wf_marks s ->
    match m s with
    | ROk _ s' => R k s s' /\ stopping s' = stopping s
    | RErr _ _ s' => R k s s'
    | _ => True
    end.

Lemma rev_weaken k k' {A} (m : M A) : rev k m -> k <= k' -> rev k' m.
Proof.
  intros H Hk s Hr Hw. specialize (H s Hr Hw).
  destruct (m s); auto.
  - destruct H. split; eauto using R_weaken.
  - eauto using R_weaken.
Qed.

Lemma rev_bind k1 k2 {A B} (m : M A) (f : A -> M B) :
  rev k1 m -> (forall a, rev k2 (f a)) -> rev (k1 + k2) (bind m f).
Proof.
  intros Hm Hf s Hr Hw. unfold bind. specialize (Hm s Hr Hw).
  destruct (m s) as [a s1|k p s1| |]; auto.
  - destruct Hm as [HR Hs].
    specialize (Hf a s1 (R_recording _ _ _ HR) (R_wf _ _ _ HR)).
    destruct (f a s1) as [b s2|k p s2| |]; auto.
    + destruct Hf as [HR2 Hs2]. split; [eapply R_trans; eauto | congruence].
    + eapply R_trans; eauto.
  - eapply R_weaken; eauto. lia.
Qed.

Lemma rev_bind0 {A B} (m : M A) (f : A -> M B) :
  rev 0 m -> (forall a, rev 0 (f a)) -> rev 0 (bind m f).
Proof. intros. change 0 with (0 + 0). apply rev_bind; auto. Qed.

(* ---------- programs that do not change the state ---------- *)
Definition pure_m {A} (m : M A) : Prop :=
  forall s, match m s with ROk _ s' => s' = s | RErr _ _ s' => s' = s | _ => True end.

Lemma rev_pure {A} (m : M A) : pure_m m -> rev 0 m.
Proof.
  intros H s Hr Hw. specialize (H s). destruct (m s); auto; subst.
  - split; auto using R_refl.
  - auto using R_refl.
Qed.

Lemma rev_ret {A} (a : A) : rev 0 (ret a).
Proof. apply rev_pure. intro; cbn; auto. Qed.
Lemma rev_fail {A} k p : rev 0 (@fail A k p).
Proof. apply rev_pure. intro; cbn; auto. Qed.
Lemma rev_unsup {A} : rev 0 (@unsup A).
Proof. apply rev_pure. intro; cbn; auto. Qed.
Lemma rev_panic {A} : rev 0 (@panic A).
Proof. apply rev_pure. intro; cbn; auto. Qed.
Lemma rev_get : rev 0 get.
Proof. apply rev_pure. intro; cbn; auto. Qed.
Lemma rev_top_data : rev 0 top_data.
Proof. apply rev_pure. intro s; unfold top_data. destruct (ds s); auto. destruct (_ <? _); auto. Qed.
Lemma rev_top_frame : rev 0 top_frame.
Proof. apply rev_pure. intro s; unfold top_frame. destruct (rs s); auto. destruct (_ <? _); auto. Qed.
Lemma rev_get_var a : rev 0 (get_var a).
Proof.
  apply rev_pure. intro s; unfold get_var. destruct (mode_eqb _ _); auto.
  destruct (nth_error _ _); auto.
Qed.
Lemma rev_lift {A} (o : outcome A) p : rev 0 (lift o p).
Proof. destruct o; cbn; [apply rev_ret | apply rev_fail | apply rev_panic]. Qed.

(* ---------- small facts about the setters ---------- *)
Lemma ltb_true a b : a < b -> (a <? b) = true.
Proof. apply Nat.ltb_lt. Qed.
Lemma leb_true a b : a <= b -> (a <=? b) = true.
Proof. apply Nat.leb_le. Qed.

Lemma list_set_length {A} (l : list A) i v : length (list_set l i v) = length l.
Proof. revert i; induction l; destruct i; cbn; auto. Qed.

Lemma list_set_undo {A} (l : list A) i v old :
  nth_error l i = Some old -> list_set (list_set l i v) i old = l.
Proof.
  revert i; induction l; destruct i; cbn; intros; try discriminate.
  - congruence.
  - f_equal; auto.
Qed.

Lemma nth_error_list_set_some {A} (l : list A) i v old :
  nth_error l i = Some old -> nth_error (list_set l i v) i = Some v.
Proof.
  revert i; induction l; destruct i; cbn; intros; try discriminate; auto.
Qed.

(* ---------- the logging primitives ---------- *)
Ltac open_rev :=
  let s := fresh "s" in let Hr := fresh "Hr" in let Hw := fresh "Hw" in
  let l0 := fresh "l0" in let Hl := fresh "Hl" in
  intros s Hr Hw; destruct (recording_some _ Hr) as [l0 Hl].

Ltac refl_case := solve [ apply R_refl; assumption ].

(* close [R k s s'] for one new entry [e] *)
Ltac one_entry e :=
  match goal with
  | Hl : rlog ?s = Some ?l0 |- R _ ?s _ =>
    exists l0, [e]; unfold add_rstep; cbn [rlog set_ds set_rs set_loops set_special set_heap set_rlog];
    rewrite Hl; cbn [rlog set_ds set_rs set_loops set_special set_heap set_rlog app];
    split; [reflexivity|]; split; [reflexivity|]; split; [reflexivity|]; split; [cbn; lia|]
  end.

Lemma rev_push_data c : rev 0 (push_data c).
Proof.
  open_rev. unfold push_data. destruct (limit_reached _ _); [refl_case|].
  split; [|unfold add_rstep; rewrite Hl; reflexivity].
  one_entry RPopData. destruct Hw as (W1 & W2 & W3 & W4).
  split.
  - unfold wf_marks; cbn; repeat split; auto.
  - intros. unfold norm; cbn. rewrite ltb_true by lia.
    destruct s; cbn in *; subst; reflexivity.
Qed.

Ltac st_eq := match goal with s : state |- _ => destruct s; cbn in *; subst; try reflexivity; try (f_equal; congruence) end.
Ltac stop_ok := match goal with Hl : rlog _ = Some _ |- _ => unfold add_rstep; cbn; try rewrite Hl; reflexivity end.

Lemma rev_pop_data : rev 0 pop_data.
Proof.
  open_rev. unfold pop_data. destruct (ds s) as [|c r] eqn:E; [refl_case|].
  destruct (_ <? _) eqn:C; [|refl_case].
  apply Nat.ltb_lt in C. cbn in C.
  split; [|stop_ok].
  one_entry (RPushData c). destruct Hw as (W1 & W2 & W3 & W4).
  split.
  - unfold wf_marks; cbn; repeat split; auto. lia.
  - intros. unfold norm; cbn. st_eq.
Qed.

Lemma rev_swap_data : rev 0 swap_data.
Proof.
  open_rev. unfold swap_data. destruct (ds s) as [|a [|b r]] eqn:E; try refl_case.
  destruct (_ <=? _) eqn:C; [|refl_case].
  split; [|stop_ok].
  one_entry RSwapData. destruct Hw as (W1 & W2 & W3 & W4).
  unfold data_depth in *. rewrite E in *.
  split.
  - unfold wf_marks; cbn in *; repeat split; auto.
  - intros. unfold norm; cbn; unfold data_depth; cbn. cbn [length] in C. rewrite C. st_eq.
Qed.

Lemma rev_rot_data : rev 0 rot_data.
Proof.
  open_rev. unfold rot_data. destruct (ds s) as [|a [|b [|c r]]] eqn:E; try refl_case.
  destruct (_ <=? _) eqn:C; [|refl_case].
  split; [|stop_ok].
  one_entry RRotData. destruct Hw as (W1 & W2 & W3 & W4).
  unfold data_depth in *. rewrite E in *.
  split.
  - unfold wf_marks; cbn in *; repeat split; auto.
  - intros. unfold norm; cbn; unfold data_depth; cbn. cbn [length] in C. rewrite C. st_eq.
Qed.

Lemma rev_over_data : rev 1 over_data.
Proof.
  open_rev. unfold over_data. destruct (ds s) as [|a [|b r]] eqn:E; try (apply R_weaken with 0; [refl_case|lia]).
  destruct (_ <=? _) eqn:C; [|apply R_weaken with 0; [refl_case|lia]].
  apply Nat.leb_le in C. unfold data_depth in C. rewrite E in C. cbn [length] in C.
  destruct Hw as (W1 & W2 & W3 & W4). rewrite E in W1. cbn [length] in W1.
  unfold push_data. destruct (limit_reached _ _).
  - exists l0, [ROverData]. unfold add_rstep; rewrite Hl; cbn.
    unfold wf_marks; cbn. rewrite E; cbn [length].
    repeat split; auto.
    intros. rewrite ltb_true by lia. reflexivity.
  - split; [|stop_ok].
    exists l0, [RPopData; ROverData]. unfold add_rstep; rewrite Hl; cbn.
    unfold wf_marks; cbn. rewrite E; cbn [length].
    repeat split; auto.
    intros. rewrite ltb_true by lia. unfold norm; cbn.
    rewrite ltb_true by lia. st_eq.
Qed.

Lemma rev_push_return f : rev 0 (push_return f).
Proof.
  open_rev. unfold push_return. split; [|stop_ok].
  one_entry RPopReturn. destruct Hw as (W1 & W2 & W3 & W4).
  split.
  - unfold wf_marks; cbn; repeat split; auto.
  - intros. unfold norm; cbn. rewrite ltb_true by lia. st_eq.
Qed.

Lemma rev_pop_return : rev 0 pop_return.
Proof.
  open_rev. unfold pop_return. destruct (rs s) as [|c r] eqn:E; [refl_case|].
  destruct (_ <? _) eqn:C; [|refl_case].
  apply Nat.ltb_lt in C. cbn in C.
  split; [|stop_ok].
  one_entry (RPushReturn c). destruct Hw as (W1 & W2 & W3 & W4).
  split.
  - unfold wf_marks; cbn; repeat split; auto. lia.
  - intros. unfold norm; cbn. st_eq.
Qed.

Lemma rev_push_loop f : rev 0 (push_loop f).
Proof.
  open_rev. unfold push_loop. split; [|stop_ok].
  one_entry RPopLoop. destruct Hw as (W1 & W2 & W3 & W4).
  split.
  - unfold wf_marks; cbn; repeat split; auto.
  - intros. unfold norm; cbn. rewrite ltb_true by lia. st_eq.
Qed.

Lemma rev_pop_loop : rev 0 pop_loop.
Proof.
  open_rev. unfold pop_loop. destruct (loops s) as [|c r] eqn:E; [refl_case|].
  destruct (_ <? _) eqn:C; [|refl_case].
  apply Nat.ltb_lt in C. cbn in C.
  split; [|stop_ok].
  one_entry (RPushLoop c). destruct Hw as (W1 & W2 & W3 & W4).
  split.
  - unfold wf_marks; cbn; repeat split; auto. lia.
  - intros. unfold norm; cbn. st_eq.
Qed.

Lemma rev_loop_next : rev 0 loop_next.
Proof.
  open_rev. unfold loop_next. destruct (loops s) as [|c r] eqn:E; [refl_case|].
  destruct (_ <? _) eqn:C; [|refl_case].
  split; [|stop_ok].
  one_entry (RLoopNextBack c). destruct Hw as (W1 & W2 & W3 & W4).
  split.
  - unfold wf_marks; cbn; repeat split; auto. rewrite E in W3. auto.
  - intros. unfold norm; cbn. cbn in C. rewrite C. st_eq.
Qed.

Lemma rev_loop_set_items x : rev 0 (loop_set_items x).
Proof.
  open_rev. unfold loop_set_items. destruct (loops s) as [|c r] eqn:E; [refl_case|].
  destruct (_ <? _) eqn:C; [|refl_case].
  split; [|stop_ok].
  one_entry (RLoopNextBack c). destruct Hw as (W1 & W2 & W3 & W4).
  split.
  - unfold wf_marks; cbn; repeat split; auto. rewrite E in W3. auto.
  - intros. unfold norm; cbn. cbn in C. rewrite C. st_eq.
Qed.

Lemma rev_push_special p : rev 0 (push_special p).
Proof.
  open_rev. unfold push_special. split; [|stop_ok].
  one_entry RPopSpecial. destruct Hw as (W1 & W2 & W3 & W4).
  split.
  - unfold wf_marks; cbn; repeat split; auto.
  - intros. unfold norm; cbn. rewrite ltb_true by lia. st_eq.
Qed.

Lemma rev_pop_special : rev 0 pop_special.
Proof.
  open_rev. unfold pop_special.
  destruct (special s) as [|c r] eqn:E; [split; [refl_case|reflexivity]|].
  destruct (_ <? _) eqn:C; [|split; [refl_case|reflexivity]].
  apply Nat.ltb_lt in C. cbn in C.
  split; [|stop_ok].
  one_entry (RPushSpecial c). destruct Hw as (W1 & W2 & W3 & W4).
  split.
  - unfold wf_marks; cbn; repeat split; auto. lia.
  - intros. unfold norm; cbn. st_eq.
Qed.

Lemma rev_set_var a v : rev 0 (set_var a v).
Proof.
  open_rev. unfold set_var. destruct (mode_eqb _ _); [refl_case|].
  destruct (nth_error (heap s) a) as [old|] eqn:E; [|refl_case].
  split; [|stop_ok].
  one_entry (RSwapRef a old). destruct Hw as (W1 & W2 & W3 & W4).
  split.
  - unfold wf_marks; cbn; repeat split; auto.
  - intros. unfold norm; cbn. rewrite (nth_error_list_set_some _ _ _ _ E).
    rewrite (list_set_undo _ _ _ _ E). st_eq.
Qed.

Lemma rev_init_local i v : rev 0 (init_local i v).
Proof.
  open_rev. unfold init_local. destruct (rs s) as [|f r] eqn:E; [refl_case|].
  destruct (_ <? _) eqn:C; [|refl_case].
  split; [|stop_ok].
  one_entry (RSetLocals (locals f)). destruct Hw as (W1 & W2 & W3 & W4).
  split.
  - unfold wf_marks; cbn; repeat split; auto. rewrite E in W2; auto.
  - intros. unfold norm; cbn. cbn in C. rewrite C. destruct f. st_eq.
Qed.

Lemma rev_print msg : rev 0 (print msg).
Proof.
  open_rev. unfold print. split; [|reflexivity].
  exists l0, []. cbn. repeat split; auto; try apply Hw.
Qed.

(* the about_to_stop flag may be set by a program that then fails *)
Lemma R_set_stopping s b : recording s = true -> wf_marks s -> R 0 s (set_stopping s b).
Proof.
  intros Hr Hw. destruct (recording_some _ Hr) as [l0 Hl].
  exists l0, []. cbn. repeat split; auto; try apply Hw.
Qed.

(* ---------- the pure undo against the real rnext_loop ---------- *)
Definition stop_log (l : list rstep) : Prop :=
  match l with [] => True | RSetIp _ :: _ => True | _ => False end.

Lemma log_ok_stop s : log_ok s <-> exists l, rlog s = Some l /\ stop_log l.
Proof.
  unfold log_ok. split.
  - destruct (rlog s) as [[|[] l]|]; try contradiction; eexists; split; eauto; exact I.
  - intros (l & -> & H). destruct l as [|[] l]; auto.
Qed.

Definition cost (es : list rstep) : nat := length es + nover es.

Lemma set_rlog_set_rlog s a b : set_rlog (set_rlog s a) b = set_rlog s b.
Proof. reflexivity. Qed.
Lemma set_rlog_same s l : rlog s = l -> set_rlog s l = s.
Proof. intros <-. destruct s; reflexivity. Qed.

Lemma reverse_changes_set_rlog r s l : is_over r = false ->
  reverse_changes r (set_rlog s l) = res_map (fun t => set_rlog t l) (reverse_changes r s).
Proof.
  intros H. destruct r; try discriminate; cbn; try reflexivity;
  unfold data_depth; cbn;
  repeat match goal with
         | |- context[match ?x with _ => _ end] =>
           match x with
           | ds _ => destruct x
           | rs _ => destruct x
           | loops _ => destruct x
           | special _ => destruct x
           | nth_error _ _ => destruct x
           | _ <? _ => destruct x
           | _ <=? _ => destruct x
           | ?y => is_var y; destruct y
           end; cbn; try reflexivity
         end.
Qed.

Lemma undo1_set_rlog r s l :
  undo1 r (set_rlog s l) = option_map (fun t => set_rlog t l) (undo1 r s).
Proof.
  destruct r eqn:Er;
  try (unfold undo1; rewrite reverse_changes_set_rlog by reflexivity;
       destruct (reverse_changes _ s); reflexivity).
  cbn. destruct (ds s); auto. destruct (_ <? _); auto.
Qed.

Lemma undo_list_set_rlog es : forall s l,
  undo_list es (set_rlog s l) = option_map (fun t => set_rlog t l) (undo_list es s).
Proof.
  induction es; intros; cbn [undo_list]; auto.
  rewrite undo1_set_rlog. destruct (undo1 a s); cbn; auto.
Qed.

Lemma rnext_loop_stop fuel s l1 :
  stop_log l1 -> rnext_loop fuel (set_rlog s (Some l1)) = ROk tt (set_rlog s (Some l1)).
Proof.
  intros H. destruct fuel; cbn; auto.
  destruct l1 as [|[] l1]; try contradiction; auto.
Qed.

Lemma rnext_loop_step fuel r rest s : is_setip r = false ->
  rnext_loop (S fuel) (set_rlog s (Some (r :: rest))) =
  match reverse_changes r (set_rlog s (Some rest)) with
  | ROk _ s'' => rnext_loop fuel s''
  | e => e
  end.
Proof. intros H. destruct r; try discriminate; reflexivity. Qed.

Lemma rnext_loop_undo : forall es fuel s t l1,
  no_setip es -> stop_log l1 -> undo_list es s = Some t -> cost es <= fuel ->
  rnext_loop fuel (set_rlog s (Some (es ++ l1))) = ROk tt (set_rlog t (Some l1)).
Proof.
  induction es as [|r es IH]; intros fuel s t l1 Hn Hs Hu Hc.
  - cbn in Hu. injection Hu as <-. apply rnext_loop_stop; auto.
  - unfold no_setip in Hn. cbn [forallb] in Hn. apply andb_true_iff in Hn. destruct Hn as [Hr Hn].
    apply negb_true_iff in Hr.
    cbn [undo_list] in Hu. destruct (undo1 r s) as [s1|] eqn:E1; [|discriminate].
    unfold cost, nover in Hc. cbn [length filter] in Hc.
    destruct (is_over r) eqn:Eo.
    + destruct r; try discriminate. cbn [length] in Hc.
      destruct fuel as [|[|fuel]]; try lia.
      cbn [undo1] in E1.
      destruct (ds s) as [|c tl] eqn:Ed; [discriminate|].
      destruct (_ <? _) eqn:Ec; [|discriminate]. injection E1 as <-.
      cbn [app]. rewrite rnext_loop_step by reflexivity.
      cbn [reverse_changes].
      unfold pop_data. cbn [ds set_rlog cx]. rewrite Ed, Ec.
      unfold add_rstep. cbn [rlog set_rlog set_ds].
      match goal with |- context[rnext_loop _ ?st] =>
        replace st with (set_rlog (set_ds s tl) (Some (RPushData c :: es ++ l1))) by reflexivity end.
      rewrite rnext_loop_step by reflexivity. cbn [reverse_changes].
      match goal with |- rnext_loop _ ?st = _ => replace st with (set_rlog s (Some (es ++ l1))) end.
      * apply IH; auto. unfold cost, nover. lia.
      * destruct s; cbn in *; subst; reflexivity.
    + destruct fuel as [|fuel]; try lia.
      assert (E2 : reverse_changes r s = ROk tt s1).
      { destruct r; try discriminate; cbn [undo1] in E1;
        (destruct (reverse_changes _ s) as [[] ?| | |]; [|discriminate..]); congruence. }
      cbn [app]. rewrite rnext_loop_step by auto.
      rewrite reverse_changes_set_rlog by auto. rewrite E2; cbn [res_map].
      apply IH; auto; unfold cost, nover; lia.
Qed.

Lemma log_len_set_rlog s l : log_len (set_rlog s (Some l)) = length l.
Proof. reflexivity. Qed.

(* one [rnext]: the newest entry [r] (a SetIp after a complete step, anything after a
   failed one) is undone first, then the loop runs down to the previous SetIp *)
Lemma rnext_undo r es s s1 t l1 :
  undo1 r s = Some s1 -> undo_list es s1 = Some t -> no_setip es ->
  nover (r :: es) <= 1 -> stop_log l1 ->
  rnext (set_rlog s (Some (r :: es ++ l1))) = ROk tt (set_rlog t (Some l1)).
Proof.
  intros E1 Hu Hn Hk Hs.
  unfold rnext.
  replace (log_pop (set_rlog s (Some (r :: es ++ l1)))) with (Some (r, set_rlog s (Some (es ++ l1)))) by reflexivity.
  unfold nover in Hk. cbn [filter] in Hk.
  destruct (is_over r) eqn:Eo.
  - destruct r; try discriminate. cbn [length] in Hk.
    cbn [undo1] in E1.
    destruct (ds s) as [|c tl] eqn:Ed; [discriminate|].
    destruct (_ <? _) eqn:Ec; [|discriminate]. injection E1 as <-.
    cbn [reverse_changes]. unfold pop_data. cbn [ds set_rlog cx]. rewrite Ed, Ec.
    unfold add_rstep. cbn [rlog set_rlog set_ds].
    match goal with |- context[rnext_loop _ ?st] =>
      replace st with (set_rlog (set_ds s tl) (Some (RPushData c :: es ++ l1))) by reflexivity end.
    rewrite log_len_set_rlog.
    cbn [length]. rewrite rnext_loop_step by reflexivity. cbn [reverse_changes].
    match goal with |- rnext_loop _ ?st = _ => replace st with (set_rlog s (Some (es ++ l1))) end.
    + apply rnext_loop_undo; auto. unfold cost, nover. rewrite app_length. lia.
    + destruct s; cbn in *; subst; reflexivity.
  - assert (E2 : reverse_changes r s = ROk tt s1).
    { destruct r; try discriminate; cbn [undo1] in E1;
      (destruct (reverse_changes _ s) as [[] ?| | |]; [|discriminate..]); congruence. }
    rewrite reverse_changes_set_rlog by auto. rewrite E2; cbn [res_map].
    rewrite log_len_set_rlog.
    apply rnext_loop_undo; auto. unfold cost, nover. rewrite app_length. lia.
Qed.
