(* VmRevWords.v: every native word is reversible. *)
From Xeh Require Import Model.Prelude Model.Bits Model.Codec Model.Cell Model.Lexer Model.Fmt Model.Vm Model.Words.
From Xeh Require Import Proofs.VmRevBase.
Local Notation length := List.length.

Ltac head_of t := match t with ?f _ => head_of f | _ => t end.

Lemma rev_pop_n n : rev 0 (pop_n n).
Proof.
  induction n; cbn [pop_n]; [apply rev_ret|].
  apply rev_bind0; [apply rev_pop_data | auto].
Qed.

Lemma rev_push_all l : rev 0 (push_all l).
Proof.
  induction l; cbn [push_all]; [apply rev_ret|].
  apply rev_bind0; [apply rev_push_data | auto].
Qed.

Ltac rv_step :=
  lazymatch goal with
  | |- rev 0 (bind _ _) => apply rev_bind0; [|intro]
  | |- rev 0 (ret _) => apply rev_ret
  | |- rev 0 (fail _ _) => apply rev_fail
  | |- rev 0 unsup => apply rev_unsup
  | |- rev 0 panic => apply rev_panic
  | |- rev 0 get => apply rev_get
  | |- rev 0 top_data => apply rev_top_data
  | |- rev 0 top_frame => apply rev_top_frame
  | |- rev 0 (get_var _) => apply rev_get_var
  | |- rev 0 (lift _ _) => apply rev_lift
  | |- rev 0 (push_data _) => apply rev_push_data
  | |- rev 0 pop_data => apply rev_pop_data
  | |- rev 0 swap_data => apply rev_swap_data
  | |- rev 0 rot_data => apply rev_rot_data
  | |- rev 0 (push_return _) => apply rev_push_return
  | |- rev 0 pop_return => apply rev_pop_return
  | |- rev 0 (push_loop _) => apply rev_push_loop
  | |- rev 0 pop_loop => apply rev_pop_loop
  | |- rev 0 loop_next => apply rev_loop_next
  | |- rev 0 (loop_set_items _) => apply rev_loop_set_items
  | |- rev 0 (push_special _) => apply rev_push_special
  | |- rev 0 pop_special => apply rev_pop_special
  | |- rev 0 (set_var _ _) => apply rev_set_var
  | |- rev 0 (init_local _ _) => apply rev_init_local
  | |- rev 0 (print _) => apply rev_print
  | |- rev 0 (pop_n _) => apply rev_pop_n
  | |- rev 0 (push_all _) => apply rev_push_all
  | |- rev 0 (match ?x with _ => _ end) => destruct x
  | |- rev 0 (let _ := _ in _) => cbv zeta
  | |- rev 0 ((fun _ => _) _) => cbv beta
  | |- rev 0 ?m => let h := head_of m in unfold h
  end.
Ltac rv := repeat rv_step.

(* [exit] sets about_to_stop and then always fails *)
Lemma rev_w_exit : rev 0 w_exit.
Proof.
  intros s Hr Hw. unfold w_exit.
  set (rest := (let* c := pop_data in let* code := m_isize c in fail EExit (Some (cint code))) : M unit).
  assert (Hrest : rev 0 rest) by (unfold rest; rv).
  assert (Hne : forall s0 u s1, rest s0 <> ROk u s1).
  { intros s0 u s1 H. unfold rest, bind, fail in H. destruct (pop_data s0); try discriminate.
    destruct (m_isize a s2); discriminate. }
  unfold bind at 1. cbn [modify].
  assert (Hr2 : recording (set_stopping s true) = true) by exact Hr.
  assert (Hw2 : wf_marks (set_stopping s true)) by exact Hw.
  specialize (Hrest _ Hr2 Hw2).
  destruct (rest (set_stopping s true)) eqn:E; auto.
  exfalso. eapply Hne; eauto.
Qed.

Section Table.
  Variable fo : fops.

  Ltac rv1 :=
    first [ apply rev_over_data
          | apply rev_weaken with 0; [ first [apply rev_w_exit | rv] | lia ] ].

  Lemma word_table_rev : Forall (fun p => rev 1 (snd p)) (word_table fo).
  Proof.
    unfold word_table.
    repeat (apply Forall_cons; [cbn [snd]; rv1 |]).
    apply Forall_nil.
  Qed.
End Table.

Lemma table_find_Forall (P : M unit -> Prop) t name w :
  Forall (fun p => P (snd p)) t -> table_find t name = Some w -> P w.
Proof.
  induction 1 as [|[n x] t H1 H2 IH]; cbn [table_find]; [discriminate|].
  destruct (String.eqb n name); auto. intros [= <-]. exact H1.
Qed.

Section Sized.
  Variable fo : fops.

  Lemma rev_with_order f : (forall o, rev 0 (f o)) -> rev 0 (with_order f).
  Proof. intros H. unfold with_order. rv. apply H. Qed.

  Lemma rev_read_unsigned n o : rev 0 (read_unsigned n o).
  Proof. rv. Qed.
  Lemma rev_read_signed n o : rev 0 (read_signed n o).
  Proof. rv. Qed.
  Lemma rev_read_float n o : rev 0 (read_float fo n o).
  Proof. rv. Qed.
  Lemma rev_pack_int n o : rev 0 (pack_int n o).
  Proof. rv. Qed.
  Lemma rev_pack_float n o : rev 0 (pack_float fo n o).
  Proof. rv. Qed.

  Ltac fin :=
    match goal with
    | H : Some _ = Some _ |- _ => injection H as <-
    end;
    first [ apply rev_with_order; intro | idtac ];
    first [ apply rev_read_unsigned | apply rev_read_signed | apply rev_read_float
          | apply rev_pack_int | apply rev_pack_float ].

  Lemma sized_word_rev name f : sized_word fo name = Some f -> rev 0 f.
  Proof.
    unfold sized_word. cbv zeta beta. intros H.
    repeat match type of H with
           | (if ?b then _ else _) = _ => destruct b; [fin|]
           | match (if ?b then _ else _) with _ => _ end = _ => destruct b; [fin|]
           end.
    discriminate.
  Qed.

  Lemma native_fn_rev name f : native_fn fo name = Some f -> rev 1 f.
  Proof.
    unfold native_fn. destruct (table_find _ _) eqn:E.
    - intros [= <-]. exact (table_find_Forall (rev 1) _ _ _ (word_table_rev fo) E).
    - intros H. apply rev_weaken with 0; [eapply sized_word_rev; eauto | lia].
  Qed.
End Sized.
Print Assumptions native_fn_rev.

(* ---------- only [exit] touches about_to_stop ---------- *)
Definition ks {A} (m : M A) : Prop :=
  forall s, match m s with
            | ROk _ s' => stopping s' = stopping s
            | RErr _ _ s' => stopping s' = stopping s
            | _ => True
            end.

Lemma ks_bind {A B} (m : M A) (f : A -> M B) : ks m -> (forall a, ks (f a)) -> ks (bind m f).
Proof.
  intros Hm Hf s. unfold bind. specialize (Hm s). destruct (m s) as [a s1|k p s1| |]; auto.
  specialize (Hf a s1). destruct (f a s1); auto; congruence.
Qed.

Lemma ks_pure {A} (m : M A) : pure_m m -> ks m.
Proof. intros H s. specialize (H s). destruct (m s); auto; subst; auto. Qed.

Ltac ks_prim :=
  let s := fresh "s" in
  intro s; cbv beta delta [push_data pop_data swap_data rot_data over_data push_return pop_return
                           push_loop pop_loop loop_next loop_set_items push_special pop_special
                           set_var init_local print set_ip next_ip add_rstep data_depth];
  repeat match goal with
         | |- context[match ?x with _ => _ end] =>
           match x with
           | ds _ => destruct x
           | rs _ => destruct x
           | loops _ => destruct x
           | special _ => destruct x
           | rlog _ => destruct x
           | nth_error _ _ => destruct x
           | mode_eqb _ _ => destruct x
           | limit_reached _ _ => destruct x
           | _ <? _ => destruct x
           | _ <=? _ => destruct x
           | ?y => is_var y; destruct y
           end; cbn
         end; try reflexivity.

Lemma ks_push_data c : ks (push_data c). Proof. ks_prim. Qed.
Lemma ks_pop_data : ks pop_data. Proof. ks_prim. Qed.
Lemma ks_swap_data : ks swap_data. Proof. ks_prim. Qed.
Lemma ks_rot_data : ks rot_data. Proof. ks_prim. Qed.
Lemma ks_over_data : ks over_data. Proof. ks_prim. Qed.
Lemma ks_push_return f : ks (push_return f). Proof. ks_prim. Qed.
Lemma ks_pop_return : ks pop_return. Proof. ks_prim. Qed.
Lemma ks_push_loop f : ks (push_loop f). Proof. ks_prim. Qed.
Lemma ks_pop_loop : ks pop_loop. Proof. ks_prim. Qed.
Lemma ks_loop_next : ks loop_next. Proof. ks_prim. Qed.
Lemma ks_loop_set_items c : ks (loop_set_items c). Proof. ks_prim. Qed.
Lemma ks_push_special p : ks (push_special p). Proof. ks_prim. Qed.
Lemma ks_pop_special : ks pop_special. Proof. ks_prim. Qed.
Lemma ks_set_var a v : ks (set_var a v). Proof. ks_prim. Qed.
Lemma ks_init_local i v : ks (init_local i v). Proof. ks_prim. Qed.
Lemma ks_print m : ks (print m). Proof. ks_prim. Qed.
Lemma ks_set_ip n : ks (set_ip n). Proof. ks_prim. Qed.
Lemma ks_next_ip : ks next_ip. Proof. ks_prim. Qed.

Lemma ks_ret {A} (a : A) : ks (ret a). Proof. intro; reflexivity. Qed.
Lemma ks_fail {A} k p : ks (@fail A k p). Proof. intro; reflexivity. Qed.
Lemma ks_unsup {A} : ks (@unsup A). Proof. intro; exact I. Qed.
Lemma ks_panic {A} : ks (@panic A). Proof. intro; exact I. Qed.
Lemma ks_get : ks get. Proof. intro; reflexivity. Qed.
Lemma ks_top_data : ks top_data.
Proof. intro s; unfold top_data. destruct (ds s); auto. destruct (_ <? _); auto. Qed.
Lemma ks_top_frame : ks top_frame.
Proof. intro s; unfold top_frame. destruct (rs s); auto. destruct (_ <? _); auto. Qed.
Lemma ks_get_var a : ks (get_var a).
Proof.
  intro s; unfold get_var. destruct (mode_eqb _ _); auto. destruct (nth_error _ _); auto.
Qed.
Lemma ks_lift {A} (o : outcome A) p : ks (lift o p).
Proof. destruct o; cbn; [apply ks_ret | apply ks_fail | apply ks_panic]. Qed.

Lemma ks_pop_n n : ks (pop_n n).
Proof.
  induction n; cbn [pop_n]; [apply ks_ret|].
  apply ks_bind; [apply ks_pop_data | auto].
Qed.
Lemma ks_push_all l : ks (push_all l).
Proof.
  induction l; cbn [push_all]; [apply ks_ret|].
  apply ks_bind; [apply ks_push_data | auto].
Qed.

Ltac kv_step :=
  lazymatch goal with
  | |- ks (bind _ _) => apply ks_bind; [|intro]
  | |- ks (ret _) => apply ks_ret
  | |- ks (fail _ _) => apply ks_fail
  | |- ks unsup => apply ks_unsup
  | |- ks panic => apply ks_panic
  | |- ks get => apply ks_get
  | |- ks top_data => apply ks_top_data
  | |- ks top_frame => apply ks_top_frame
  | |- ks (get_var _) => apply ks_get_var
  | |- ks (lift _ _) => apply ks_lift
  | |- ks (push_data _) => apply ks_push_data
  | |- ks pop_data => apply ks_pop_data
  | |- ks swap_data => apply ks_swap_data
  | |- ks rot_data => apply ks_rot_data
  | |- ks over_data => apply ks_over_data
  | |- ks (push_return _) => apply ks_push_return
  | |- ks pop_return => apply ks_pop_return
  | |- ks (push_loop _) => apply ks_push_loop
  | |- ks pop_loop => apply ks_pop_loop
  | |- ks loop_next => apply ks_loop_next
  | |- ks (loop_set_items _) => apply ks_loop_set_items
  | |- ks (push_special _) => apply ks_push_special
  | |- ks pop_special => apply ks_pop_special
  | |- ks (set_var _ _) => apply ks_set_var
  | |- ks (init_local _ _) => apply ks_init_local
  | |- ks (print _) => apply ks_print
  | |- ks (set_ip _) => apply ks_set_ip
  | |- ks next_ip => apply ks_next_ip
  | |- ks (pop_n _) => apply ks_pop_n
  | |- ks (push_all _) => apply ks_push_all
  | |- ks (match ?x with _ => _ end) => destruct x
  | |- ks (let _ := _ in _) => cbv zeta
  | |- ks ((fun _ => _) _) => cbv beta
  | |- ks ?m => let h := head_of m in unfold h
  end.
Ltac kv := repeat kv_step.

Section TableKs.
  Variable fo : fops.
  Local Open Scope string_scope.

  Lemma word_table_ks : Forall (fun p => fst p = "exit" \/ ks (snd p)) (word_table fo).
  Proof.
    unfold word_table.
    repeat (apply Forall_cons; [cbn [fst snd]; first [left; reflexivity | right; solve [kv]] |]).
    apply Forall_nil.
  Qed.

  Lemma table_find_ks t name w :
    Forall (fun p => fst p = "exit" \/ ks (snd p)) t -> table_find t name = Some w ->
    name = "exit" \/ ks w.
  Proof.
    induction 1 as [|[n x] t H1 H2 IH]; cbn [table_find]; [discriminate|].
    destruct (String.eqb n name) eqn:E; auto. intros [= <-].
    apply String.eqb_eq in E. subst. exact H1.
  Qed.

  Ltac kfin :=
    match goal with
    | H : Some _ = Some _ |- _ => injection H as <-
    end; solve [kv].

  Lemma sized_word_ks name f : sized_word fo name = Some f -> ks f.
  Proof.
    unfold sized_word. cbv zeta beta. intros H.
    repeat match type of H with
           | (if ?b then _ else _) = _ => destruct b; [kfin|]
           | match (if ?b then _ else _) with _ => _ end = _ => destruct b; [kfin|]
           end.
    discriminate.
  Qed.

  Lemma native_fn_ks name f : native_fn fo name = Some f -> name = "exit" \/ ks f.
  Proof.
    unfold native_fn. destruct (table_find _ _) eqn:E.
    - intros [= <-]. exact (table_find_ks _ _ _ word_table_ks E).
    - intros H. right. eapply sized_word_ks; eauto.
  Qed.
End TableKs.
