(* TagClose2.v: the full "tags never change what a value does" statement, close-bitstr included.

   close-bitstr restores the suspended input from the heap cell R_STASH and reads the "offset" tag
   that open-bitstr attached to the stashed input.  That tag is bookkeeping of the bit-string
   module, not a user tag: so the right statement strips every tag of the machine EXCEPT the
   offset tags of the stash entries ([strip_state_off]), and then every native word outside the
   design's exclusion list - close-bitstr too - commutes with stripping.

   1. [tagwfT_state] (no doubly wrapped tag anywhere, tag maps included) is an invariant of EVERY
      native word (the tag makers and the tag readers included);
   2. close-bitstr run from two states related by [srel] whose stash entries carry related
      offsets gives related results ([close_bitstr_rel]);
   3. [strip_state_off] and the theorems [strip_commutes_full_close(_rel)]. *)
From Xeh Require Import Model.Prelude Model.Bits Model.Codec Model.Cell Model.Lexer Model.Fmt
                        Model.Vm Model.BaseN Model.Words Proofs.BitsProofs Proofs.CellProofs Proofs.CollProofs
                        Proofs.TagProofs Proofs.TagSim Proofs.TagWords Proofs.TagFresh Proofs.TagClose.
Local Notation length := List.length.

#[local] Arguments Z.add : simpl never.
#[local] Arguments Z.sub : simpl never.
#[local] Arguments Z.mul : simpl never.
#[local] Arguments Z.ltb : simpl never.
#[local] Arguments Z.leb : simpl never.
#[local] Arguments Z.eqb : simpl never.
#[local] Arguments Z.of_nat : simpl never.
#[local] Arguments Z.to_nat : simpl never.

(* ================================================================== *)
(* 1. tagwfT_state is an invariant of every native word                *)
(* ================================================================== *)
Definition tagwfT_state : state -> Prop := tg_state notagtag.

Lemma tagwfT_state_tagwf : forall s, tagwfT_state s -> tagwf_state s.
Proof.
  intros s (A & B & C). repeat split.
  - eapply Forall_impl; [| exact A]. intros a Ha. apply tagwfT_tagwf. exact Ha.
  - eapply Forall_impl; [| exact B]. intros a Ha. apply tagwfT_tagwf. exact Ha.
  - eapply Forall_impl; [| exact C]. intros a Ha. apply tagwfT_tagwf. exact Ha.
Qed.

Lemma tgT_top : forall c, tg notagtag c -> is_tag (value c) = false.
Proof.
  intros c H. destruct c; cbn [value is_tag]; auto.
  apply deepT_tag in H. destruct H as (H & _). exact H.
Qed.

Lemma tgT_with_tags : forall c t,
  tg notagtag c -> Forall (tg2 notagtag) t -> tg notagtag (with_tags c t).
Proof.
  intros c t Hc Ht. unfold with_tags, tg. apply deepT_tag.
  split; [cbn; apply tgT_top; exact Hc|]. split; [exact Ht|]. apply tg_value. exact Hc.
Qed.

Lemma tg_tags_list : forall T c,
  tg T c -> Forall (tg2 T) (match tags_of c with Some t => t | None => [] end).
Proof.
  intros T c H. pose proof (tg_tags T c H) as G.
  destruct (tags_of c); [apply tg_map in G; exact G | constructor].
Qed.

Lemma tgT_insert_tag : forall c k v,
  tg notagtag c -> tg notagtag k -> tg notagtag v -> tg notagtag (insert_tag c k v).
Proof.
  intros c k v Hc Hk Hv. unfold insert_tag. apply tgT_with_tags; auto.
  apply tg_insert; auto. apply tg_tags_list. exact Hc.
Qed.

Lemma tgT_remove_tag : forall c k, tg notagtag c -> tg notagtag (remove_tag c k).
Proof.
  intros c k Hc. unfold remove_tag. apply tgT_with_tags; auto.
  pose proof (tg_tags_list _ _ Hc) as G.
  destruct (tags_of c); [apply tg_remove; exact G | constructor].
Qed.

Lemma tg_num_tags : forall T b o, Forall (tg2 T) (num_tags b o).
Proof.
  intros T b o. unfold num_tags, len_lit, big_lit.
  assert (M : Forall (tg2 T) (assoc_insert [] (CStr "len") (cnat (clen b)))).
  { apply tg_insert; [constructor | apply tg_str | apply tg_cnat]. }
  destruct o; auto. apply tg_insert; [exact M | apply tg_str | apply tg_flag].
Qed.

Lemma tg_offset_lit : forall T, tg T offset_lit.
Proof. intro T. apply tg_str. Qed.
Lemma tg_fmt_tag_name : forall T, tg T fmt_tag_name.
Proof. intro T. split; exact I. Qed.

#[export] Hint Resolve tgT_with_tags tgT_insert_tag tgT_remove_tag tg_num_tags tg_offset_lit tg_fmt_tag_name : tgdb.

Ltac word_invT := cbn [snd]; solve [ inv_go ].

(* the whole table, the words that build tag wrappers included *)
Lemma invT_word_table : forall fo,
  Forall (fun nw => invw notagtag (snd nw)) (word_table fo).
Proof.
  intro fo. unfold word_table.
  repeat (apply Forall_cons; [ word_invT | ]).
  apply Forall_nil.
Qed.

Lemma invT_sized_word : forall fo name w, sized_word fo name = Some w -> invw notagtag w.
Proof.
  intros fo name w H. unfold sized_word in H. cbv beta zeta in H.
  repeat match type of H with
         | context [if ?b then _ else _] =>
           destruct b; cbv beta iota in H;
           [ injection H as <-; solve [ inv_go ] | ]
         end.
  discriminate.
Qed.

Theorem native_invT : forall fo w f, native_fn fo w = Some f -> invw notagtag f.
Proof.
  intros fo w f H. unfold native_fn in H.
  destruct (table_find (word_table fo) w) eqn:E.
  - injection H as <-.
    exact (table_find_named (fun _ x => invw notagtag x) _ _ _ (invT_word_table fo) E).
  - eapply invT_sized_word; eauto.
Qed.

(* EVERY native word preserves "no doubly wrapped tag anywhere" *)
Theorem native_preserves_tagwfT : forall fo w f s,
  native_fn fo w = Some f -> tagwfT_state s ->
  match f s with
  | ROk _ s' => tagwfT_state s'
  | RErr _ p s' => tgo notagtag p /\ tagwfT_state s'
  | _ => True
  end.
Proof.
  intros fo w f s H Hs. pose proof (native_invT fo w f H s Hs) as I.
  destruct (f s); auto. apply I.
Qed.

(* ================================================================== *)
(* 2. close-bitstr on two related states                               *)
(* ================================================================== *)
(* the offset a stash entry carries (what close-bitstr restores into R_OFFSET) *)
Definition off_of (e : cell) : cell :=
  match get_tag e offset_lit with Some o => o | None => cint 0 end.

(* the stash as close-bitstr sees it *)
Definition stash_vec (s : state) : option (list cell) :=
  match nth_error (heap s) R_STASH with
  | Some st => match value st with CVec v => Some v | _ => None end
  | None => None
  end.

Definition offs_rel (v1 v2 : list cell) : Prop :=
  Forall2 (fun e1 e2 => crel (off_of e1) (off_of e2)) v1 v2.

Lemma Forall2_rev' : forall {A B} (R : A -> B -> Prop) l l', Forall2 R l l' -> Forall2 R (rev l) (rev l').
Proof.
  induction 1; cbn [rev]; [constructor|]. apply Forall2_app; auto.
Qed.

Lemma sim_close_tail2 : forall st1 st2,
  crel st1 st2 ->
  (forall v1 v2, value st1 = CVec v1 -> value st2 = CVec v2 -> offs_rel v1 v2) ->
  sim eq (close_tail st1) (close_tail st2).
Proof.
  intros st1 st2 Hc Ho. unfold close_tail, m_vec.
  pose proof (crel_vrel _ _ Hc) as V. pose proof (vrel_strip _ _ V) as S.
  remember (value st1) as x1 eqn:E1. remember (value st2) as x2 eqn:E2.
  destruct V;
    try (eapply (sim_bind _ _ (fun _ _ => False));
         [apply sim_fail; cbn; f_equal; exact S | intros ? ? []]).
  eapply (sim_bind _ _ (fun a a' => a = l /\ a' = l')); [apply sim_ret; split; reflexivity|].
  intros a a' [-> ->].
  specialize (Ho l l' eq_refl eq_refl). apply Forall2_rev' in Ho.
  pose proof (lrel_rev _ _ H) as HR.
  destruct (rev l) as [| last r], (rev l') as [| last' r']; inversion Ho as [| ? ? ? ? Hoff Hrest]; subst.
  - apply sim_fail. reflexivity.
  - apply lrel_cons_inv in HR. destruct HR as [Hl Hr].
    eapply sim_bind; [apply sim_set_var; exact Hoff |].
    intros _ _ _. eapply sim_bind; [apply sim_set_var; apply crel_value; exact Hl |].
    intros _ _ _. apply sim_set_var. apply crel_vec. apply lrel_rev. exact Hr.
Qed.

Theorem close_bitstr_rel : forall s1 s2,
  srel s1 s2 ->
  (forall v1 v2, stash_vec s1 = Some v1 -> stash_vec s2 = Some v2 -> offs_rel v1 v2) ->
  rrel eq (w_close_bitstr s1) (w_close_bitstr s2).
Proof.
  intros s1 s2 H Ho. rewrite !close_unfold, (mode_srel _ _ H).
  destruct (mode_eqb (cmode (cx s2)) MMeta); [cbn; auto|].
  pose proof (lrel_nth _ _ R_STASH (srel_heap _ _ H)) as N.
  destruct (nth_error (heap s1) R_STASH) as [st1|] eqn:E1,
           (nth_error (heap s2) R_STASH) as [st2|] eqn:E2; cbn [orel] in N; try contradiction.
  - apply sim_close_tail2; auto.
    intros v1 v2 V1 V2. apply Ho; unfold stash_vec; [rewrite E1, V1 | rewrite E2, V2]; reflexivity.
  - cbn. auto.
Qed.

(* ================================================================== *)
(* 3. stripping everything but the offsets of the stash entries         *)
(* ================================================================== *)
Definition keep_off (e : cell) : cell :=
  match get_tag e offset_lit with
  | Some o => CTag [(offset_lit, strip o)] (strip e)
  | None => strip e
  end.
Definition keep_offs (st : cell) : cell :=
  match value st with CVec v => CVec (map keep_off v) | _ => strip st end.

Definition strip_state_off (s : state) : state :=
  set_heap (strip_state s)
           (list_set (map strip (heap s)) R_STASH (keep_offs (nth R_STASH (heap s) CNil))).

Lemma is_tag_strip : forall c, is_tag (strip c) = false.
Proof. induction c using cell_ind'; cbn [strip is_tag]; auto. Qed.

Lemma get_tag_strip : forall c k, get_tag (strip c) k = None.
Proof.
  intros c k. unfold get_tag. pose proof (is_tag_strip c) as H.
  destruct (strip c); cbn [tags_of]; auto. discriminate.
Qed.

Lemma strip_keep_off : forall e, strip (keep_off e) = strip e.
Proof. intro e. unfold keep_off. destruct (get_tag e offset_lit); cbn [strip]; apply strip_idem. Qed.

Lemma tagwf_keep_off : forall e, tagwf (keep_off e).
Proof.
  intro e. unfold keep_off. destruct (get_tag e offset_lit); [| apply tagwf_strip].
  apply tagwf_tag. split; [apply is_tag_strip | apply tagwf_strip].
Qed.

Lemma off_of_keep_off : forall e, off_of (keep_off e) = strip (off_of e).
Proof.
  intro e. unfold off_of, keep_off. destruct (get_tag e offset_lit) as [o|].
  - reflexivity.
  - rewrite get_tag_strip. reflexivity.
Qed.

Lemma strip_keep_offs : forall st, strip (keep_offs st) = strip st.
Proof.
  intro st. unfold keep_offs. rewrite <- (strip_value_any st).
  destruct (value st); try apply strip_idem.
  cbn [strip]. f_equal. rewrite map_map. apply map_ext. apply strip_keep_off.
Qed.

Lemma tagwf_keep_offs : forall st, tagwf (keep_offs st).
Proof.
  intro st. unfold keep_offs. destruct (value st); try apply tagwf_strip.
  apply tagwf_vec. apply Forall_forall. intros x Hx. apply in_map_iff in Hx.
  destruct Hx as (e & <- & _). apply tagwf_keep_off.
Qed.

Lemma srel_strip_off : forall s, tagwf_state s -> srel s (strip_state_off s).
Proof.
  intros s Hs. unfold strip_state_off. split; [| split; auto].
  - rewrite strip_set_heap, map_list_set, strip_state_idem, strip_keep_offs.
    rewrite <- (map_nth strip). change (strip CNil) with CNil.
    rewrite map_strip_idem, list_set_same. destruct s; reflexivity.
  - destruct (tagwf_strip_state s) as (A & B & C).
    repeat split; auto. cbn [heap set_heap].
    apply Forall_list_set; [apply Forall_map_strip | apply tagwf_keep_offs].
Qed.

Lemma stash_strip_off : forall s st,
  nth_error (heap s) R_STASH = Some st ->
  nth_error (heap (strip_state_off s)) R_STASH = Some (keep_offs st).
Proof.
  intros s st E. unfold strip_state_off. cbn [heap set_heap].
  rewrite (nth_error_nth _ _ CNil E). apply nth_error_list_set.
  rewrite map_length. apply nth_error_Some. congruence.
Qed.

Lemma stash_vec_strip_off : forall s v,
  stash_vec s = Some v -> stash_vec (strip_state_off s) = Some (map keep_off v).
Proof.
  intros s v H. unfold stash_vec in *.
  destruct (nth_error (heap s) R_STASH) as [st|] eqn:E; [|discriminate].
  rewrite (stash_strip_off s st E). unfold keep_offs.
  destruct (value st); try discriminate. injection H as <-. reflexivity.
Qed.

(* the offsets of the stash entries are tagwf: what close-bitstr needs in order to keep the
   machine tagwf (it moves the offset out of the tag map into the heap cell R_OFFSET) *)
Definition stash_off_ok (s : state) : Prop :=
  forall v, stash_vec s = Some v -> Forall (fun e => tagwf (off_of e)) v.

Lemma tagwfT_stash_off_ok : forall s, tagwfT_state s -> stash_off_ok s.
Proof.
  intros s (_ & B & _) v H. unfold stash_vec in H.
  destruct (nth_error (heap s) R_STASH) as [st|] eqn:E; [|discriminate].
  assert (Hst : tg notagtag st).
  { rewrite Forall_forall in B. apply B. eapply nth_error_In; eauto. }
  apply tg_value in Hst. destruct (value st); try discriminate. injection H as <-.
  apply tg_vec in Hst. eapply Forall_impl; [| exact Hst].
  intros e He. apply tagwfT_tagwf. unfold off_of. apply tg_get_tag_default; [exact He | apply tg_cint].
Qed.

Lemma offs_rel_keep : forall v, Forall (fun e => tagwf (off_of e)) v -> offs_rel v (map keep_off v).
Proof.
  induction 1 as [| e r He Hr IH]; cbn [map]; constructor; auto.
  rewrite off_of_keep_off. apply crel_strip. exact He.
Qed.

(* ---------- the theorems ---------- *)
Lemma native_close : forall fo, native_fn fo "close-bitstr"%string = Some w_close_bitstr.
Proof. intro fo. reflexivity. Qed.

Lemma not_excluded_cases : forall w, ~ In w design_excluded ->
  w = "close-bitstr"%string \/ tag_reader w = false.
Proof.
  intros w Hx. destruct (tag_reader w) eqn:E; auto.
  apply tag_reader_design in E. tauto.
Qed.

(* two states that agree after stripping and whose stash entries carry related offsets *)
Theorem strip_commutes_full_close_rel : forall fo w f s1 s2,
  native_fn fo w = Some f -> ~ In w design_excluded ->
  srel s1 s2 ->
  (forall v1 v2, stash_vec s1 = Some v1 -> stash_vec s2 = Some v2 -> offs_rel v1 v2) ->
  res_strip (f s1) = res_strip (f s2).
Proof.
  intros fo w f s1 s2 H Hx Hs Ho. apply rrel_res_strip.
  destruct (not_excluded_cases w Hx) as [-> | Hr].
  - rewrite native_close in H. injection H as <-. apply close_bitstr_rel; auto.
  - apply (native_sim fo w f H Hr). exact Hs.
Qed.

(* THE FULL STATEMENT: every native word outside the design's exclusion list, close-bitstr
   included, commutes with stripping every tag except the stash offsets *)
Theorem strip_commutes_full_close : forall fo w f s,
  native_fn fo w = Some f -> ~ In w design_excluded ->
  tagwf_state s -> stash_off_ok s ->
  res_strip (f s) = res_strip (f (strip_state_off s)).
Proof.
  intros fo w f s H Hx Hs Ho. eapply strip_commutes_full_close_rel; eauto using srel_strip_off.
  intros v1 v2 V1 V2. rewrite (stash_vec_strip_off s v1 V1) in V2. injection V2 as <-.
  apply offs_rel_keep. apply Ho. exact V1.
Qed.

Corollary strip_commutes_full_close_T : forall fo w f s,
  native_fn fo w = Some f -> ~ In w design_excluded -> tagwfT_state s ->
  res_strip (f s) = res_strip (f (strip_state_off s)).
Proof.
  intros fo w f s H Hx Hs. eapply strip_commutes_full_close; eauto.
  - apply tagwfT_state_tagwf. exact Hs.
  - apply tagwfT_stash_off_ok. exact Hs.
Qed.

(* close-bitstr keeps the machine tagwf under the same hypotheses *)
Theorem close_bitstr_preserves_tagwf : forall s,
  tagwf_state s -> stash_off_ok s ->
  match w_close_bitstr s with
  | ROk _ s' => tagwf_state s'
  | RErr _ _ s' => tagwf_state s'
  | _ => True
  end.
Proof.
  intros s Hs Ho.
  assert (R : rrel eq (w_close_bitstr s) (w_close_bitstr s)).
  { apply close_bitstr_rel; [split; auto|].
    intros v1 v2 V1 V2. rewrite V1 in V2. injection V2 as <-.
    specialize (Ho v1 V1). unfold offs_rel.
    clear V1. induction Ho as [| e r He Hr IH]; constructor; [apply crel_refl; exact He | exact IH]. }
  destruct (w_close_bitstr s); cbn in R; auto.
  - destruct R as [_ (_ & T & _)]. exact T.
  - destruct R as (_ & _ & (_ & T & _)). exact T.
Qed.
