(* NoPanicLex.v (C08 d): the lexer and token_location are total functions with no panic
   outcome in the model; what corresponds to the Rust slice accesses is that token spans
   are ordered and stay inside the text. *)
From Xeh Require Import Model.Prelude Model.Bits Model.Cell Model.Lexer Model.Fmt.
From Xeh Require Import Proofs.LexLoc Proofs.LexBasic Proofs.LexNext Proofs.LexAll.
From Coq Require Import ZifyBool ZifyNat ZifyN.
Local Open Scope string_scope.

Lemma tiles_spans : forall l p t a b, tiles p l -> In (t, a, b) l -> p <= a /\ a <= b.
Proof.
  induction l as [|[[t0 a0] b0] l IH]; intros p t a b HT Hin; [contradiction|].
  cbn [tiles] in HT. destruct HT as (E & Hle & HT'). destruct Hin as [E1|Hin].
  - injection E1 as -> -> ->. lia.
  - destruct (IH _ _ _ _ HT' Hin). lia.
Qed.

Theorem lex_span_ordered : forall s t a b, In (t, a, b) (lex_string s) -> a <= b.
Proof.
  intros s t a b Hin. destruct (tiles_spans _ _ _ _ _ (lex_tiles s) Hin). assumption.
Qed.

Definition span_in (n : nat) (x : tok * nat * nat) : Prop :=
  let '(t, a, b) := x in
  a <= n /\ match t with TErr _ _ _ => True | _ => b <= n end.

Lemma lex_all_bound s0 : forall fuel l, Inv s0 l ->
  valid_go (lrest l) 0 = true -> lpos l + String.length (lrest l) = llen l ->
  Forall (span_in (String.length s0)) (lex_all fuel l).
Proof.
  induction fuel as [|f IH]; intros l HI Hv Hx; [constructor|].
  rewrite lex_all_S. destruct (lex_next l) as [t l'] eqn:Hn.
  destruct (step_inv s0 l t l' HI Hn) as (I' & S1 & S2 & S3 & S4).
  destruct (lex_next_spec l t l' Hn) as (N1 & N2 & N3 & N4).
  pose proof HI as [I1 I2].
  assert (Ha : lstart l' <= String.length s0) by lia.
  assert (Hb : is_err t = false ->
               lpos l' + String.length (lrest l') = llen l' /\ valid_go (lrest l') 0 = true).
  { intros Hne. destruct N3 as [(E1 & _)|(A & _ & Z & V)]; [congruence|].
    destruct (V Hv Hne) as [V1 V2]. apply advx_len in V1. split; [lia|exact V2]. }
  assert (Hhd : span_in (String.length s0) (t, lstart l', lpos l')).
  { unfold span_in. split; [exact Ha|].
    destruct t; try exact I; (destruct (Hb eq_refl) as [Hb1 _]; lia). }
  destruct (is_final t) eqn:Et.
  - constructor; [exact Hhd|constructor].
  - constructor; [exact Hhd|].
    assert (Hne : is_err t = false) by (destruct t; try reflexivity; discriminate).
    destruct (Hb Hne) as [Hb1 Hb2]. apply IH; assumption.
Qed.

(* ---------- the end of every token, error tokens included ---------- *)
Lemma hex_digit_ascii c x : hex_digit c = Some x -> (byte_of c < 128)%N.
Proof.
  unfold hex_digit, digit_val. cbv zeta.
  destruct ((48 <=? byte_of c)%N && (byte_of c <=? 57)%N) eqn:E1; [intros _; lia|].
  destruct ((97 <=? byte_of c)%N && (byte_of c <=? 122)%N) eqn:E2; [intros _; lia|].
  destruct ((65 <=? byte_of c)%N && (byte_of c <=? 90)%N) eqn:E3; [intros _; lia|discriminate].
Qed.

Lemma lex_bits_bound : forall s pos b endpos t s' pos',
  valid_go s 0 = true -> lex_bits s pos b endpos = (t, s', pos') -> pos' <= pos + String.length s.
Proof.
  induction s as [|c r IH]; intros pos b endpos t s' pos' Hv H; cbn [lex_bits] in H.
  - injection H as <- <- <-. lia.
  - assert (Step : (byte_of c < 128)%N -> forall b1, lex_bits r (S pos) b1 endpos = (t, s', pos') ->
                   pos' <= pos + String.length (String c r)).
    { intros Ha b1 H1. cbn [String.length].
      assert (Hr : valid_go r 0 = true) by (apply (valid_ascii_tail c r); [apply vsuf_of_valid; exact Hv|exact Ha]).
      pose proof (IH _ _ _ _ _ _ Hr H1). lia. }
    destruct (hex_digit c) eqn:Eh; [eapply Step; [eapply hex_digit_ascii; exact Eh|exact H]|].
    destruct (is_ws c) eqn:Ew; [eapply Step; [apply ws_ascii; exact Ew|exact H]|].
    destruct (byte_of c =? 46)%N eqn:E1; [eapply Step; [lia|exact H]|].
    destruct (byte_of c =? 120)%N eqn:E2; [eapply Step; [lia|exact H]|].
    destruct (byte_of c =? 124)%N eqn:E3.
    + injection H as <- <- <-. cbn [String.length]. lia.
    + cbv zeta in H. injection H as <- <- <-.
      destruct (valid_first_char c r Hv) as (V1 & _). lia.
Qed.

Lemma lex_word_bound l c r t l' : lrest l = String c r -> valid_go (lrest l) 0 = true ->
  lex_word l c = (t, l') -> lpos l' = llen l \/ lpos l' <= lpos l + String.length (lrest l).
Proof.
  intros Hl Hv. unfold lex_word. cbv zeta.
  destruct (num_stage1 c (str_drop (utf8_width c) (lrest l)) (lpos l + utf8_width c))
    as [[[np tmp0] r2] p2] eqn:E1.
  destruct (num_stage2 (is0_of np) tmp0 r2 p2) as [[[radix tmp1] r3] p3] eqn:E2.
  destruct (num_stage1_spec _ _ _ _ _ _ _ E1) as [A1 _].
  destruct (num_stage2_spec _ _ _ _ _ _ _ _ E2) as [A2 _].
  intros H. destruct (word_finish_spec _ _ _ _ _ _ _ _ H) as (_ & _ & _ & F4 & _).
  destruct F4 as [(_ & _ & G3)|(G1 & _)]; [left; exact G3|right].
  rewrite Hl in Hv. destruct (valid_first_char c r Hv) as (V1 & _). rewrite <- Hl in V1.
  assert (A : advx (lrest l) (lpos l) (lrest l') (lpos l')).
  { eapply advx_trans; [apply (advx_drop (lrest l) (lpos l) (utf8_width c) V1)|].
    eapply advx_trans; [exact A1|]. eapply advx_trans; [exact A2|exact G1]. }
  apply advx_len in A. lia.
Qed.

Lemma lex_next_bound l t l' : valid_go (lrest l) 0 = true -> lex_next l = (t, l') ->
  lpos l' = llen l \/ lpos l' <= lpos l + String.length (lrest l).
Proof.
  intros Hv. rewrite lex_next_unfold. cbv zeta.
  destruct (skip_ws (lrest l) 0) as [r0 nws] eqn:Ews.
  destruct (skip_ws_spec _ _ _ _ Ews) as (k & K1 & K2 & K3 & K4 & K5). cbn [Nat.add] in K2. subst nws.
  destruct (0 <? k)%nat eqn:Ek.
  { intros E. injection E as <- <-. cbn [lpos]. right. lia. }
  destruct (lrest l) as [|c r] eqn:Hl.
  { intros E. injection E as <- <-. cbn [lpos]. right. lia. }
  destruct (byte_of c =? 34)%N eqn:Eq.
  { destruct (lex_str false (S (String.length r)) r (S (lpos l)) "" (lpos l) (llen l)) as [[t0 rest] pos] eqn:Es.
    destruct (lex_str_spec _ _ _ _ _ _ _ _ _ _ Es) as [S1 _]. apply advx_len in S1.
    intros E. injection E as <- <-. cbn [lpos String.length]. right. lia. }
  destruct (starts_ldq (String c r)) eqn:El.
  { set (r3 := str_drop 3 (String c r)) in *.
    destruct (lex_str true (S (String.length r3)) r3 (lpos l + 3) "" (lpos l) (llen l)) as [[t0 rest] pos] eqn:Es.
    destruct (lex_str_spec _ _ _ _ _ _ _ _ _ _ Es) as [S1 _]. apply advx_len in S1.
    pose proof (starts_ldq_len _ El) as L3.
    assert (L : String.length r3 = String.length (String c r) - 3) by (unfold r3; apply str_drop_length).
    intros E. injection E as <- <-. cbn [lpos]. right. lia. }
  destruct (byte_of c =? 124)%N eqn:Eb.
  { destruct (lex_bits r (S (lpos l)) bvb_empty (llen l)) as [[t0 rest] pos] eqn:Es.
    assert (Hr : valid_go r 0 = true) by (apply (valid_ascii_tail c r); [apply vsuf_of_valid; exact Hv|lia]).
    pose proof (lex_bits_bound _ _ _ _ _ _ _ Hr Es) as B.
    intros E. injection E as <- <-. cbn [lpos String.length]. right. lia. }
  intros H. rewrite <- Hl in *. eapply lex_word_bound; eassumption.
Qed.

Definition span_in_full (n : nat) (x : tok * nat * nat) : Prop :=
  let '(t, a, b) := x in a <= b /\ b <= n.

Lemma lex_all_bound_full s0 : forall fuel l, Inv s0 l ->
  valid_go (lrest l) 0 = true -> lpos l + String.length (lrest l) = llen l ->
  Forall (span_in_full (String.length s0)) (lex_all fuel l).
Proof.
  induction fuel as [|f IH]; intros l HI Hv Hx; [constructor|].
  rewrite lex_all_S. destruct (lex_next l) as [t l'] eqn:Hn.
  destruct (step_inv s0 l t l' HI Hn) as (I' & S1 & S2 & S3 & S4).
  destruct (lex_next_spec l t l' Hn) as (N1 & N2 & N3 & N4).
  pose proof (lex_next_bound l t l' Hv Hn) as B.
  pose proof HI as [I1 I2].
  assert (Hhd : span_in_full (String.length s0) (t, lstart l', lpos l')).
  { unfold span_in_full. split; [lia|]. destruct B; lia. }
  destruct (is_final t) eqn:Et.
  - constructor; [exact Hhd|constructor].
  - constructor; [exact Hhd|].
    assert (Hne : is_err t = false) by (destruct t; try reflexivity; discriminate).
    destruct N3 as [(E1 & _)|(A & _ & Z & V)]; [congruence|].
    destruct (V Hv Hne) as [V1 V2]. apply advx_len in V1. apply IH; [exact I'|exact V2|lia].
Qed.

(* for valid UTF-8 every token span is ordered and inside the text *)
Theorem lex_span_inside_full : forall s t a b,
  valid_utf8 s = true -> In (t, a, b) (lex_string s) -> a <= b /\ b <= String.length s.
Proof.
  intros s t a b Hv Hin. unfold lex_string in Hin.
  pose proof (lex_all_bound_full s (S (String.length s)) (lex_new s) (Inv_new s) Hv eq_refl) as H.
  rewrite Forall_forall in H. exact (H _ Hin).
Qed.

(* for valid UTF-8 every token starts inside the text, and every token that is not an
   error ends inside it *)
Theorem lex_span_inside : forall s t a b,
  valid_utf8 s = true -> In (t, a, b) (lex_string s) ->
  a <= String.length s /\ match t with TErr _ _ _ => True | _ => b <= String.length s end.
Proof.
  intros s t a b Hv Hin. unfold lex_string in Hin.
  pose proof (lex_all_bound s (S (String.length s)) (lex_new s) (Inv_new s) Hv eq_refl) as H.
  rewrite Forall_forall in H. exact (H _ Hin).
Qed.

(* the functions are total: there is no panic outcome to return *)
Theorem lex_next_total : forall l, exists t l', lex_next l = (t, l').
Proof. intros l. destruct (lex_next l) as [t l']. eauto. Qed.

Theorem token_location_total : forall s p, exists line col ls le,
  token_location s p = (line, col, ls, le).
Proof. intros s p. destruct (token_location s p) as [[[a b] c] d]. eauto. Qed.
