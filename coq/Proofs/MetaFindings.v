(* MetaFindings.v (C11): concrete programs on the boot state where the model (checked against
   the implementation) contradicts the property text, and concrete instances showing that the
   hypotheses / side conditions of the C11 theorems are met by real programs. *)
From Xeh Require Import Model.Prelude Model.Bits Model.Codec Model.Cell Model.Lexer Model.Fmt
                        Model.Vm Model.Words Model.Build Model.Boot.
From Xeh Require Import Proofs.VmFrame Proofs.VmLimits Proofs.NoPanic Proofs.NoPanicBuild Proofs.NoPanicFlow
                        Proofs.MetaBase Proofs.MetaPurge Proofs.MetaBuild Proofs.MetaClose Proofs.MetaPrefix
                        Proofs.MetaPrefixBuild Proofs.MetaPrefixWords Proofs.MetaBlock Proofs.MetaSeg
                        Proofs.MetaInline Proofs.MetaCompile Proofs.MetaCompile2 Proofs.MetaNI Proofs.MetaNIWords.
Local Notation length := List.length.
Local Open Scope string_scope.
Local Open Scope list_scope.

(* real arithmetic is not used by the witnesses; any [fops] and any real-literal parser do *)
Definition fo0 : fops := fops_with Z.add Z.sub Z.mul Z.add Z.add Z.min Z.max.
Definition pr0 : string -> option Z := fun _ => None.
Definition ev (src : string) (s : state) : res unit := eval fo0 pr0 1000 1000 src s.
Definition cp (src : string) (s : state) : res unit := compile fo0 pr0 1000 1000 src s.

Definition st_of (r : res unit) : state := match r with ROk _ s => s | RErr _ _ s => s | _ => boot end.
Definition ds_of (r : res unit) : option (list cell) := match r with ROk _ s => Some (ds s) | _ => None end.
Definition out_of (r : res unit) : option string := match r with ROk _ s => Some (out s) | _ => None end.
Definition new_dict (r : res unit) : option (list dentry) :=
  match r with ROk _ s => Some (skipn (length boot_dict) (dict s)) | _ => None end.

(* ---------- the property holds on the simple cases ---------- *)
Lemma ex_block_is_literal : ds_of (ev "5 #( 1 2 + #) +" boot) = Some [CInt 8] /\
                            ds_of (ev "5 3 +" boot) = Some [CInt 8].
Proof. vm_compute. split; reflexivity. Qed.

(* several values: last result first *)
Lemma ex_block_order : ds_of (ev "#( 1 2 #)" boot) = ds_of (ev "2 1" boot).
Proof. vm_compute. reflexivity. Qed.

(* a block that defines a word and a constant: only the constant remains *)
Lemma ex_block_purge :
  new_dict (ev "#( : sq dup * ; 3 sq const nine 4 #) nine" boot) = Some [mkdent "nine" (DConst (CInt 9))] /\
  ds_of (ev "#( : sq dup * ; 3 sq const nine 4 #) nine" boot) = Some [CInt 9; CInt 4].
Proof. vm_compute. split; reflexivity. Qed.

(* variables cannot be read, written or created inside a block *)
Lemma ex_block_var_fails :
  (exists s, ev "var x #( x #)" boot = RErr EConst None s) /\
  (exists s, ev "var x #( 1 ! x #)" boot = RErr EConst None s) /\
  (exists s, ev "#( var y #)" boot = RErr EConst None s).
Proof. vm_compute. repeat split; eexists; reflexivity. Qed.

(* the surrounding stack cannot be popped *)
Definition s9 : state := st_of (ev "9" boot).
Lemma ex_block_sealed_stack :
  ds s9 = [CInt 9] /\ (exists s, ev "#( drop #)" s9 = RErr EUnderflow None s /\ ds s = [CInt 9]) /\
  ds_of (ev "#( depth #)" s9) = Some [CInt 0; CInt 9].
Proof. vm_compute. split; [reflexivity|]. split; [eexists; split; reflexivity|reflexivity]. Qed.

(* compile leaves the stack alone and allocates nil cells only *)
Lemma ex_compile_quiet :
  match cp "var x 1 ! x #( 2 3 * #) x +" s9 with
  | ROk _ s => ds s = ds s9 /\ heap s = heap s9 ++ [CNil]
  | _ => False
  end.
Proof. vm_compute. split; reflexivity. Qed.

(* ---------- finding 1: `.s` shows the hidden part of the data stack ---------- *)
Lemma hidden_stack_printed :
  out_of (ev "#( .s #)" s9) <> out_of (ev "#( .s #)" (set_ds s9 [CInt 8])).
Proof. vm_compute. discriminate. Qed.

(* ---------- finding 2: a nested block shares the data stack of the enclosing block ---------- *)
(* `#( depth #)` on its own is the literal 0, but inside another block it sees that block's values *)
Lemma nested_block_sees_enclosing :
  ds_of (ev "#( depth #)" boot) = ds_of (ev "0" boot) /\
  ds_of (ev "#( 7 #( depth #) #)" boot) <> ds_of (ev "#( 7 0 #)" boot).
Proof. vm_compute. split; [reflexivity|discriminate]. Qed.

(* and can consume them *)
Lemma nested_block_changes_enclosing :
  ds_of (ev "#( 7 #( drop 8 #) #)" boot) = Some [CInt 8].
Proof. vm_compute. reflexivity. Qed.

(* ---------- finding 3: a block inside a word definition inside a block takes the values the
   enclosing block had computed before the definition ---------- *)
Lemma nested_block_in_definition :
  ds_of (ev "#( 1 #)" boot) = ds_of (ev "1" boot) /\
  ds_of (ev "#( 5 : f #( 1 #) ; f #)" boot) <> ds_of (ev "#( 5 : f 1 ; f #)" boot).
Proof. vm_compute. split; [reflexivity|discriminate]. Qed.

(* ---------- finding 4 (D18): a block inside a vector builder inside a block ---------- *)
Lemma nested_block_in_builder :
  ds_of (ev "#( 2 #)" boot) = ds_of (ev "2" boot) /\
  ds_of (ev "#( [ 1 #( 2 #) 3 ] #)" boot) = Some [CInt 2; CVec [CInt 1; CInt 3]] /\
  ds_of (ev "#( [ 1 2 3 ] #)" boot) = Some [CVec [CInt 1; CInt 2; CInt 3]].
Proof. vm_compute. repeat split; reflexivity. Qed.

(* ---------- finding 5: the order of several values differs between the positions ---------- *)
Lemma nested_block_order :
  ds_of (ev "#( 1 2 #)" boot) = ds_of (ev "2 1" boot) /\
  ds_of (ev "#( #( 1 2 #) #)" boot) <> ds_of (ev "#( 2 1 #)" boot) /\
  ds_of (ev "#( #( 1 2 #) #)" boot) = ds_of (ev "#( 1 2 #)" boot).
Proof. vm_compute. split; [reflexivity|]. split; [discriminate|reflexivity]. Qed.

(* ---------- finding 6: the purge reorders the constants ---------- *)
Lemma purge_reorders :
  new_dict (ev "#( : w ; 1 const a 2 const b #)" boot) =
    Some [mkdent "b" (DConst (CInt 2)); mkdent "a" (DConst (CInt 1))] /\
  new_dict (ev "#( 1 const a 2 const b : w ; #)" boot) =
    Some [mkdent "a" (DConst (CInt 1)); mkdent "b" (DConst (CInt 2))].
Proof. vm_compute. split; reflexivity. Qed.

(* a block overwrites a constant defined before it (in place, below its dictionary mark) *)
Lemma const_overwritten_in_place :
  new_dict (ev "#( 1 const a #) #( 2 const a 3 const b #)" boot) =
    Some [mkdent "a" (DConst (CInt 2)); mkdent "b" (DConst (CInt 3))].
Proof. vm_compute. reflexivity. Qed.

(* a late-bound word called inside a block is resolved in the code below the block's mark *)
Lemma late_call_patches_code :
  match ev "late g : h g ; : g 5 ; #( h #)" boot with
  | ROk _ s => ds s = [CInt 5] /\ nth_error (code s) 1 = Some (OCall 7)
  | _ => False
  end /\
  match cp "late g : h g ; : g 5 ;" boot with
  | ROk _ s => nth_error (code s) 1 = Some (OResolve "g")
  | _ => False
  end.
Proof. vm_compute. repeat split; reflexivity. Qed.

(* `~)` : the values are turned into source text that is compiled in place of the block *)
Lemma ex_inject : ds_of (ev "#( 1 2 ~)" boot) = Some [CInt 2; CInt 1].
Proof. vm_compute. reflexivity. Qed.

(* ---------- the hypotheses of the theorems are met ---------- *)
Lemma boot_wfm : wfm boot.
Proof. unfold wfm. cbn. repeat split; lia. Qed.
Lemma boot_cd : cd_inv boot.
Proof. unfold cd_inv. cbn. lia. Qed.
Lemma boot_no_user_imm : no_user_imm (dict boot).
Proof. unfold no_user_imm. cbn [boot dict boot_dict]. repeat constructor. Qed.
Lemma opened_boot_mpre : mpre (opened boot).
Proof. split; [reflexivity|apply opened_wfm, boot_wfm]. Qed.
Lemma s9_wfm : wfm s9 /\ cd_inv s9 /\ no_user_imm (dict s9) /\ ds s9 = [CInt 9].
Proof.
  split; [unfold wfm; vm_compute; repeat split; lia|]. split; [unfold cd_inv; vm_compute; lia|].
  split; [|vm_compute; reflexivity]. unfold no_user_imm. vm_compute. repeat constructor.
Qed.

(* one token step, computed *)
Definition step1 (f : nat) : M unit :=
  pre_run fo0 1000 ;;
  let* t := get_token pr0 in
  match t with
  | BEnd => fail EOther None
  | _ => fun s => if enum_tok s t then RErr EOther None s else tok_act fo0 pr0 1000 f t s
  end.

Lemma step1_tstep f s s' : step1 f s = ROk tt s' -> tstep fo0 pr0 1000 f s s'.
Proof.
  unfold step1, bind. intros E.
  destruct (pre_run fo0 1000 s) as [[] s1|? ? ?| |] eqn:E1; try discriminate.
  destruct (get_token pr0 s1) as [t s2|? ? ?| |] eqn:E2; try discriminate.
  exists s1, t, s2. split; [exact E1|]. split; [exact E2|].
  destruct t; try discriminate E;
    (destruct (enum_tok s2 _) eqn:En; [discriminate E|]; split; [discriminate|split; [reflexivity|exact E]]).
Qed.

Definition nxt (s : state) : state := st_of (step1 10 s).

(* the source "#( 1 2 + #) 7" submitted to eval in state s9 (data stack: 9) *)
Definition t0 : state := st_of ((context_open MEval ;; intern_source "#( 1 2 + #) 7") s9).
(* after reading the token #( *)
Definition ta : state := match get_token pr0 t0 with ROk _ s => s | _ => boot end.
Definition o1 := nxt t0.   (* = opened ta *)
Definition o2 := nxt o1.   (* 1 *)
Definition o3 := nxt o2.   (* 2 *)
Definition o4 := nxt o3.   (* + *)
Definition o5 := nxt o4.   (* #) *)

Lemma ex_block_path :
  wfm ta /\ cd_inv ta /\ cmode (cx ta) <> MMeta /\ o1 = opened ta /\
  bpath fo0 pr0 1000 (S (depth ta)) (opened ta) o4 /\ anystep fo0 pr0 1000 o4 o5 /\ depth o5 <= depth ta /\
  ds o5 = [CInt 9] /\ skipn (length (code ta)) (code o5) = [OLoadI64 3].
Proof.
  assert (E1 : o1 = opened ta) by (vm_compute; reflexivity).
  split; [unfold wfm; vm_compute; repeat split; lia|]. split; [unfold cd_inv; vm_compute; lia|].
  split; [vm_compute; discriminate|]. split; [exact E1|].
  rewrite <- E1.
  assert (S12 : step1 10 o1 = ROk tt o2) by (vm_compute; reflexivity).
  assert (S23 : step1 10 o2 = ROk tt o3) by (vm_compute; reflexivity).
  assert (S34 : step1 10 o3 = ROk tt o4) by (vm_compute; reflexivity).
  assert (S45 : step1 10 o4 = ROk tt o5) by (vm_compute; reflexivity).
  split.
  { eapply bp_snoc; [eapply bp_snoc; [eapply bp_snoc; [apply bp_nil| |]| |]| |].
    - exists 10. apply step1_tstep. exact S12.
    - vm_compute. lia.
    - exists 10. apply step1_tstep. exact S23.
    - vm_compute. lia.
    - exists 10. apply step1_tstep. exact S34.
    - vm_compute. lia. }
  split; [exists 10; apply step1_tstep; exact S45|].
  split; [vm_compute; lia|]. split; vm_compute; reflexivity.
Qed.

(* `.s` does not commute with replacing the hidden part *)
Definition sm : state := set_cx (set_ds boot [CInt 9]) (mkctx 1 0 0 0 0 0 0 0 MMeta).
Lemma display_stack_not_comm :
  wfd [CInt 8] sm /\ w_display_stack (sw [CInt 8] sm) <> res_map (sw [CInt 8]) (w_display_stack sm).
Proof. split; [split; vm_compute; [reflexivity|lia]|]. vm_compute. discriminate. Qed.

(* a word that is not `.s`: the same replacement commutes *)
Lemma depth_word_comm : forall f, native_fn fo0 "depth" = Some f ->
  f (sw [CInt 8] sm) = res_map (sw [CInt 8]) (f sm).
Proof.
  intros f Hf. apply (native_comm [CInt 8] fo0 "depth" f Hf); [discriminate|].
  split; vm_compute; [reflexivity|lia].
Qed.

Lemma prefix_changes_occur :
  new_dict (ev "#( 1 const a #) #( 2 const a 3 const b #)" boot) =
    Some [mkdent "a" (DConst (CInt 2)); mkdent "b" (DConst (CInt 3))] /\
  match ev "late g : h g ; : g 5 ; #( h #)" boot with
  | ROk _ s => ds s = [CInt 5] /\ nth_error (code s) 1 = Some (OCall 7)
  | _ => False
  end.
Proof. vm_compute. repeat split; reflexivity. Qed.

Lemma hidden_stack_observable :
  (wfd [CInt 8] sm /\ w_display_stack (sw [CInt 8] sm) <> res_map (sw [CInt 8]) (w_display_stack sm)) /\
  out_of (ev "#( .s #)" s9) <> out_of (ev "#( .s #)" (set_ds s9 [CInt 8])).
Proof. split; [exact display_stack_not_comm|exact hidden_stack_printed]. Qed.

Lemma boot_Pre5 : Pre5 boot.
Proof. split; [discriminate|]. split; [exact boot_wfm|]. split; [exact boot_cd|exact boot_no_user_imm]. Qed.
