(* StructInv.v: syntactic predicates over statements ([all_stmt], [has_own_break]) and a
   generic theorem: a reflexive-transitive relation between states that is respected by the
   data-level primitives, by the words of the program, by calls and by the bracket of a
   counted loop relates the state before a block to the state after it, whether the block
   ran to its end ([SDone]) or stopped at a break ([SBroke]). *)
From Xeh Require Import Model.Prelude Model.Bits Model.Codec Model.Cell Model.Lexer Model.Fmt
                        Model.Vm Model.Words Model.Struct
                        Proofs.VmFrame Proofs.StructBase Proofs.StructNat.
Local Notation length := List.length.

(* ---------- a predicate on every statement of a tree (not through calls) ---------- *)
Section AllStmt.
  Variable P : stmt -> bool.
  Fixpoint all_stmt (x : stmt) : bool :=
    let ab := fix ab (l : list stmt) : bool :=
                match l with [] => true | y :: r => all_stmt y && ab r end in
    P x &&
    match x with
    | SIf _ t => ab t
    | SIfE _ t e => ab t && ab e
    | SCase arms d =>
      (fix go (l : list (list stmt * pos * list stmt)) : bool :=
         match l with
         | [] => true
         | (pre, _, body) :: r => ab pre && ab body && go r
         end) arms && ab d
    | SUntil b _ | SRepeat b | SDo _ b _ => ab b
    | SWhile c _ b => ab c && ab b
    | _ => true
    end.
  Fixpoint all_block (l : list stmt) : bool :=
    match l with [] => true | y :: r => all_stmt y && all_block r end.
  Fixpoint all_arms (l : list (list stmt * pos * list stmt)) : bool :=
    match l with
    | [] => true
    | (pre, _, body) :: r => all_block pre && all_block body && all_arms r
    end.

  Lemma all_block_cons : forall x r, all_block (x :: r) = all_stmt x && all_block r.
  Proof. reflexivity. Qed.
  Lemma all_block_app : forall a b, all_block (a ++ b) = all_block a && all_block b.
  Proof.
    induction a as [| x a IH]; intro b; [ reflexivity | ].
    cbn [app all_block]. rewrite IH. apply andb_assoc.
  Qed.
  Lemma all_arms_cons : forall pre pof body r,
    all_arms ((pre, pof, body) :: r) = all_block pre && all_block body && all_arms r.
  Proof. reflexivity. Qed.

  Lemma all_stmt_head : forall x, all_stmt x = true -> P x = true.
  Proof. intros x H. destruct x; cbn [all_stmt] in H; apply andb_prop in H; tauto. Qed.
  Lemma all_stmt_SIf : forall p t, all_stmt (SIf p t) = P (SIf p t) && all_block t.
  Proof. reflexivity. Qed.
  Lemma all_stmt_SIfE : forall p t e, all_stmt (SIfE p t e) = P (SIfE p t e) && (all_block t && all_block e).
  Proof. reflexivity. Qed.
  Lemma all_stmt_SCase : forall arms d,
    all_stmt (SCase arms d) = P (SCase arms d) && (all_arms arms && all_block d).
  Proof. reflexivity. Qed.
  Lemma all_stmt_SUntil : forall b p, all_stmt (SUntil b p) = P (SUntil b p) && all_block b.
  Proof. reflexivity. Qed.
  Lemma all_stmt_SRepeat : forall b, all_stmt (SRepeat b) = P (SRepeat b) && all_block b.
  Proof. reflexivity. Qed.
  Lemma all_stmt_SWhile : forall c p b,
    all_stmt (SWhile c p b) = P (SWhile c p b) && (all_block c && all_block b).
  Proof. reflexivity. Qed.
  Lemma all_stmt_SDo : forall p b pl, all_stmt (SDo p b pl) = P (SDo p b pl) && all_block b.
  Proof. reflexivity. Qed.

  (* a predicate that holds everywhere holds of every tree *)
  Lemma all_stmt_true : (forall x, P x = true) -> (forall x, all_stmt x = true) /\ (forall l, all_block l = true).
  Proof.
    intro HP.
    apply (stmt_block_ind (fun x => all_stmt x = true) (fun l => all_block l = true)).
    - reflexivity.
    - intros x r Hx Hr. cbn [all_block]. rewrite Hx, Hr. reflexivity.
    - intros. cbn [all_stmt]. rewrite HP. reflexivity.
    - intros. cbn [all_stmt]. rewrite HP. reflexivity.
    - intros. cbn [all_stmt]. rewrite HP. reflexivity.
    - intros. cbn [all_stmt]. rewrite HP. reflexivity.
    - intros. cbn [all_stmt]. rewrite HP. reflexivity.
    - intros. cbn [all_stmt]. rewrite HP. reflexivity.
    - intros. cbn [all_stmt]. rewrite HP. reflexivity.
    - intros p t Ht. rewrite all_stmt_SIf, HP, Ht. reflexivity.
    - intros p t e Ht He. rewrite all_stmt_SIfE, HP, Ht, He. reflexivity.
    - intros arms d Ha Hd. rewrite all_stmt_SCase, HP, Hd.
      assert (Har : all_arms arms = true).
      { induction Ha as [| [[pre pof] body] r [Hp Hb] _ IH]; [ reflexivity | ].
        rewrite all_arms_cons. unfold arm_pre, arm_body in *. cbn [fst snd] in *.
        rewrite Hp, Hb, IH. reflexivity. }
      rewrite Har. reflexivity.
    - intros b p Hb. rewrite all_stmt_SUntil, HP, Hb. reflexivity.
    - intros b Hb. rewrite all_stmt_SRepeat, HP, Hb. reflexivity.
    - intros c p b Hc Hb. rewrite all_stmt_SWhile, HP, Hc, Hb. reflexivity.
    - intros p b pl Hb. rewrite all_stmt_SDo, HP, Hb. reflexivity.
    - cbn [all_stmt]. rewrite HP. reflexivity.
    - intros. cbn [all_stmt]. rewrite HP. reflexivity.
  Qed.
End AllStmt.

(* ---------- `break` at the level of the enclosing loop ---------- *)
(* [has_own_break x]: evaluating [x] can stop at a `break` that belongs to a loop AROUND [x]:
   a break directly in [x], or inside if / case / until inside [x] (until does not catch a
   break; repeat, while and do catch the breaks of their own bodies) *)
Fixpoint has_own_break (x : stmt) : bool :=
  let ob := fix ob (l : list stmt) : bool :=
              match l with [] => false | y :: r => has_own_break y || ob r end in
  match x with
  | SBreak => true
  | SIf _ t => ob t
  | SIfE _ t e => ob t || ob e
  | SCase arms d =>
    (fix go (l : list (list stmt * pos * list stmt)) : bool :=
       match l with
       | [] => false
       | (pre, _, body) :: r => ob pre || ob body || go r
       end) arms || ob d
  | SUntil b _ => ob b
  | _ => false
  end.
Fixpoint has_own_break_block (l : list stmt) : bool :=
  match l with [] => false | y :: r => has_own_break y || has_own_break_block r end.
Fixpoint has_own_break_arms (l : list (list stmt * pos * list stmt)) : bool :=
  match l with
  | [] => false
  | (pre, _, body) :: r => has_own_break_block pre || has_own_break_block body || has_own_break_arms r
  end.

Lemma has_own_break_SIf : forall p t, has_own_break (SIf p t) = has_own_break_block t.
Proof. reflexivity. Qed.
Lemma has_own_break_SIfE : forall p t e,
  has_own_break (SIfE p t e) = has_own_break_block t || has_own_break_block e.
Proof. reflexivity. Qed.
Lemma has_own_break_SCase : forall arms d,
  has_own_break (SCase arms d) = has_own_break_arms arms || has_own_break_block d.
Proof. reflexivity. Qed.
Lemma has_own_break_SUntil : forall b p, has_own_break (SUntil b p) = has_own_break_block b.
Proof. reflexivity. Qed.
Lemma has_own_break_block_app : forall a b,
  has_own_break_block (a ++ b) = has_own_break_block a || has_own_break_block b.
Proof.
  induction a as [| x a IH]; intro b; [ reflexivity | ].
  cbn [app has_own_break_block]. rewrite IH. apply orb_assoc.
Qed.

(* no function body stops at a break of its caller *)
Definition funs_nobreak (funs : list (nat * list stmt)) : Prop :=
  forall g body, fun_body funs g = Some body -> has_own_break_block body = false.

(* ---------- the state a block ends in ---------- *)
Definition fin (r : sres) : option state :=
  match r with SDone s => Some s | SBroke s => Some s | _ => None end.

Lemma fin_done : forall r s, r = SDone s -> fin r = Some s.
Proof. intros; subst; reflexivity. Qed.
Lemma fin_broke : forall r s, r = SBroke s -> fin r = Some s.
Proof. intros; subst; reflexivity. Qed.

Lemma fin_run_m : forall A (m : M A) p s k s',
  fin (run_m m p s k) = Some s' -> exists a s1, m s = ROk a s1 /\ fin (k a s1) = Some s'.
Proof. intros A m p s k s' H. unfold run_m in H. destruct (m s); try discriminate. eauto. Qed.

Lemma fin_on_res : forall r kd kb s',
  fin (on_res r kd kb) = Some s' ->
  (exists s1, r = SDone s1 /\ fin (kd s1) = Some s') \/ (exists s1, r = SBroke s1 /\ fin (kb s1) = Some s').
Proof. intros r kd kb s' H. destruct r; cbn in H; try discriminate; eauto. Qed.

Lemma bind_ok_inv : forall A B (m : M A) (f : A -> M B) s b s2,
  bind m f s = ROk b s2 -> exists a s1, m s = ROk a s1 /\ f a s1 = ROk b s2.
Proof. intros A B m f s b s2 H. unfold bind in H. destruct (m s); try discriminate. eauto. Qed.

(* ---------- the evaluator's own actions are data-level programs ---------- *)
Lemma wn_m_cond : forall c, wn false (m_cond c).
Proof. intro c. unfold m_cond. wn_solve. Qed.
Lemma wn_m_test : wn false m_test.
Proof. unfold m_test. apply wn_bind; [ apply wn_pop_data | apply wn_m_cond ]. Qed.
Lemma wn_m_of : wn false m_of.
Proof. unfold m_of. wn_solve. Qed.
Lemma wn_m_isize : forall c, wn false (m_isize c).
Proof. intro c. unfold m_isize. wn_solve. Qed.
Lemma wn_do_init : wn false do_init.
Proof.
  unfold do_init. repeat (apply wn_bind; [ first [ apply wn_pop_data | apply wn_m_isize ] | intro ]).
  apply wn_ret.
Qed.
Lemma wn_get_push : forall a, wn false (let* v := get_var a in push_data v).
Proof. intro. wn_solve. Qed.
Lemma wn_pop_set : forall a, wn false (let* v := pop_data in set_var a v).
Proof. intro. wn_solve. Qed.

Lemma wn_ok_keeps : forall fe A (m : M A) s a s', wn fe m -> m s = ROk a s' -> keeps fe s s'.
Proof. intros fe A m s a s' W E. pose proof (wn_keeps fe A m W s) as H. rewrite E in H. exact H. Qed.
Lemma wn_err_keeps : forall fe A (m : M A) s k p s', wn fe m -> m s = RErr k p s' -> keeps fe s s'.
Proof. intros fe A m s k p s' W E. pose proof (wn_keeps fe A m W s) as H. rewrite E in H. exact H. Qed.

Lemma top_frame_ok : forall s f s', top_frame s = ROk f s' -> s' = s /\ exists r, rs s = f :: r.
Proof.
  intros s f s' H. unfold top_frame in H. destruct (rs s) as [| f0 r]; [ discriminate | ].
  destruct (Nat.ltb _ _); [ | discriminate ]. injection H as <- <-. eauto.
Qed.

Lemma m_locget_keeps : forall i s a s', m_locget i s = ROk a s' -> keeps false s s'.
Proof.
  intros i s a s' H. unfold m_locget in H. apply bind_ok_inv in H as (fr & s1 & E & H).
  apply top_frame_ok in E as [-> _].
  destruct (nth_error (locals fr) i); [ | discriminate ].
  eapply wn_ok_keeps; [ apply wn_push_data | exact H ].
Qed.

(* ---------- the generic theorem ---------- *)
Section Generic.
  Variable fo : fops.
  Variable funs : list (nat * list stmt).
  Variable R : state -> state -> Prop.
  Variable ok : stmt -> bool.
  Notation sblock := (sblock fo funs).
  Notation sstmt := (sstmt fo funs).

  Hypothesis R_refl : forall s, R s s.
  Hypothesis R_trans : forall a b c, R a b -> R b c -> R a c.
  Hypothesis R_keeps : forall s s', keeps false s s' -> R s s'.
  Hypothesis H_prim : forall w p m s s',
    ok (SPrim w p) = true -> native_fn fo w = Some m -> m s = ROk tt s' -> R s s'.
  Hypothesis H_locset : forall i p v s s',
    ok (SLocSet i p) = true -> init_local i v s = ROk tt s' -> R s s'.
  Hypothesis H_call : forall f g p s s',
    ok (SCall g p) = true ->
    (forall b s s', all_block ok b = true -> fin (sblock f b s) = Some s' -> R s s') ->
    fin (sstmt (S f) (SCall g p) s) = Some s' -> R s s'.
  Hypothesis H_do : forall (body : state -> sres) pl l k s1 s2 s',
    (forall s s', fin (body s) = Some s' -> R s s') ->
    push_loop l s1 = ROk tt s2 -> fin (do_iter body pl k s2) = Some s' -> R s1 s'.

  Lemma R_wn : forall A (m : M A) s a s', wn false m -> m s = ROk a s' -> R s s'.
  Proof. intros. apply R_keeps. eapply wn_ok_keeps; eauto. Qed.

  Lemma gen_case_go : forall blk d,
    (forall l s s', all_block ok l = true -> fin (blk l s) = Some s' -> R s s') ->
    all_block ok d = true ->
    forall arms s s', all_arms ok arms = true -> fin (case_go blk d arms s) = Some s' -> R s s'.
  Proof.
    intros blk d Hblk Hd. induction arms as [| [[pre pof] body] r IH]; intros s s' Ha H.
    - rewrite case_go_nil in H. eapply Hblk; eauto.
    - rewrite case_go_cons in H. rewrite all_arms_cons in Ha.
      apply andb_prop in Ha as [Ha Hr]. apply andb_prop in Ha as [Hp Hbd].
      apply fin_on_res in H as [(s1 & E & H) | (s1 & E & H)].
      + assert (R1 : R s s1) by (eapply Hblk; [ exact Hp | rewrite E; reflexivity ]).
        apply fin_run_m in H as (eq & s2 & E2 & H).
        assert (R2 : R s1 s2) by (eapply R_wn; [ apply wn_m_of | exact E2 ]).
        destruct eq.
        * apply fin_run_m in H as (c & s3 & E3 & H).
          assert (R3 : R s2 s3) by (eapply R_wn; [ apply wn_pop_data | exact E3 ]).
          eapply R_trans; [ exact R1 | ]. eapply R_trans; [ exact R2 | ].
          eapply R_trans; [ exact R3 | ]. eapply Hblk; eauto.
        * eapply R_trans; [ exact R1 | ]. eapply R_trans; [ exact R2 | ]. apply IH; assumption.
      + cbn in H. injection H as <-. eapply Hblk; [ exact Hp | rewrite E; reflexivity ].
  Qed.

  Lemma gen_both : forall f,
    (forall b s s', all_block ok b = true -> fin (sblock f b s) = Some s' -> R s s') /\
    (forall x s s', all_stmt ok x = true -> fin (sstmt f x s) = Some s' -> R s s').
  Proof.
    induction f as [| f [IHb IHs]].
    - split; intros; discriminate.
    - assert (Hb : forall b s s', all_block ok b = true -> fin (sblock (S f) b s) = Some s' -> R s s').
      { intros b s s' Hok H. destruct b as [| x r].
        - rewrite sblock_nil in H. injection H as <-. apply R_refl.
        - rewrite sblock_cons in H. rewrite all_block_cons in Hok. apply andb_prop in Hok as [Hx Hr].
          apply fin_on_res in H as [(s1 & E & H) | (s1 & E & H)].
          + eapply R_trans; [ eapply IHs; [ exact Hx | rewrite E; reflexivity ] | eapply IHb; eauto ].
          + cbn in H. injection H as <-. eapply IHs; [ exact Hx | rewrite E; reflexivity ]. }
      split; [ exact Hb | ].
      intros x s s' Hok H.
      pose proof (all_stmt_head ok x Hok) as Hhead.
      destruct x as [c p | w p | g p | a p | a p | i p | i p | p t | p t e | arms d | b p | b | c p b | p b pl | | g].
      + (* SLit *)
        rewrite sstmt_SLit in H. apply fin_run_m in H as (a & s1 & E & H). injection H as <-.
        eapply R_wn; [ apply wn_push_data | exact E ].
      + (* SPrim *)
        rewrite sstmt_SPrim in H. destruct (native_fn fo w) as [m |] eqn:En; [ | discriminate ].
        apply fin_run_m in H as ([] & s1 & E & H). injection H as <-.
        eapply H_prim; eauto.
      + (* SCall *)
        eapply H_call; [ exact Hhead | exact IHb | exact H ].
      + (* SGet *)
        rewrite sstmt_SGet in H. apply fin_run_m in H as (x & s1 & E & H). injection H as <-.
        eapply R_wn; [ apply wn_get_push | exact E ].
      + (* SSet *)
        rewrite sstmt_SSet in H. apply fin_run_m in H as (x & s1 & E & H). injection H as <-.
        eapply R_wn; [ apply wn_pop_set | exact E ].
      + (* SLocGet *)
        rewrite sstmt_SLocGet in H. apply fin_run_m in H as (x & s1 & E & H). injection H as <-.
        apply R_keeps. eapply m_locget_keeps; eauto.
      + (* SLocSet *)
        rewrite sstmt_SLocSet in H. apply fin_run_m in H as ([] & s1 & E & H). injection H as <-.
        apply bind_ok_inv in E as (v & s0 & E0 & E1).
        eapply R_trans; [ eapply R_wn; [ apply wn_pop_data | exact E0 ] | ].
        eapply H_locset; eauto.
      + (* SIf *)
        rewrite sstmt_SIf in H. rewrite all_stmt_SIf in Hok. apply andb_prop in Hok as [_ Ht].
        apply fin_run_m in H as (c & s1 & E & H).
        eapply R_trans; [ eapply R_wn; [ apply wn_m_test | exact E ] | ].
        destruct c; [ eapply IHb; eauto | injection H as <-; apply R_refl ].
      + (* SIfE *)
        rewrite sstmt_SIfE in H. rewrite all_stmt_SIfE in Hok. apply andb_prop in Hok as [_ Hte].
        apply andb_prop in Hte as [Ht He].
        apply fin_run_m in H as (c & s1 & E & H).
        eapply R_trans; [ eapply R_wn; [ apply wn_m_test | exact E ] | ].
        destruct c; [ eapply IHb; [ exact Ht | exact H ] | eapply IHb; [ exact He | exact H ] ].
      + (* SCase *)
        rewrite sstmt_SCase in H. rewrite all_stmt_SCase in Hok. apply andb_prop in Hok as [_ Hok].
        apply andb_prop in Hok as [Ha Hd].
        eapply gen_case_go; [ exact IHb | exact Hd | exact Ha | exact H ].
      + (* SUntil *)
        rewrite sstmt_SUntil in H. pose proof Hok as Hok0.
        rewrite all_stmt_SUntil in Hok. apply andb_prop in Hok as [_ Hbk].
        apply fin_on_res in H as [(s1 & E & H) | (s1 & E & H)].
        * assert (R1 : R s s1) by (eapply IHb; [ exact Hbk | rewrite E; reflexivity ]).
          apply fin_run_m in H as (c & s2 & E2 & H).
          assert (R2 : R s1 s2) by (eapply R_wn; [ apply wn_m_test | exact E2 ]).
          eapply R_trans; [ exact R1 | ]. eapply R_trans; [ exact R2 | ].
          destruct c; [ injection H as <-; apply R_refl | eapply IHs; eauto ].
        * cbn in H. injection H as <-. eapply IHb; [ exact Hbk | rewrite E; reflexivity ].
      + (* SRepeat *)
        rewrite sstmt_SRepeat in H. pose proof Hok as Hok0.
        rewrite all_stmt_SRepeat in Hok. apply andb_prop in Hok as [_ Hbk].
        apply fin_on_res in H as [(s1 & E & H) | (s1 & E & H)].
        * eapply R_trans; [ eapply IHb; [ exact Hbk | rewrite E; reflexivity ] | eapply IHs; eauto ].
        * cbn in H. injection H as <-. eapply IHb; [ exact Hbk | rewrite E; reflexivity ].
      + (* SWhile *)
        rewrite sstmt_SWhile in H. pose proof Hok as Hok0.
        rewrite all_stmt_SWhile in Hok. apply andb_prop in Hok as [_ Hcb].
        apply andb_prop in Hcb as [Hc Hbk].
        apply fin_on_res in H as [(s1 & E & H) | (s1 & E & H)].
        * assert (R1 : R s s1) by (eapply IHb; [ exact Hc | rewrite E; reflexivity ]).
          apply fin_run_m in H as (go & s2 & E2 & H).
          assert (R2 : R s1 s2) by (eapply R_wn; [ apply wn_m_test | exact E2 ]).
          eapply R_trans; [ exact R1 | ]. eapply R_trans; [ exact R2 | ].
          destruct go; [ | injection H as <-; apply R_refl ].
          apply fin_on_res in H as [(s3 & E3 & H) | (s3 & E3 & H)].
          -- eapply R_trans; [ eapply IHb; [ exact Hbk | rewrite E3; reflexivity ] | eapply IHs; eauto ].
          -- cbn in H. injection H as <-. eapply IHb; [ exact Hbk | rewrite E3; reflexivity ].
        * cbn in H. injection H as <-. eapply IHb; [ exact Hc | rewrite E; reflexivity ].
      + (* SDo *)
        rewrite sstmt_SDo in H. rewrite all_stmt_SDo in Hok. apply andb_prop in Hok as [_ Hbk].
        apply fin_run_m in H as (l & s1 & E & H).
        eapply R_trans; [ eapply R_wn; [ apply wn_do_init | exact E ] | ].
        destruct (l_end l <=? l_start l)%Z; [ injection H as <-; apply R_refl | ].
        apply fin_run_m in H as ([] & s2 & E2 & H).
        eapply H_do; [ | exact E2 | exact H ].
        intros s0 s0' H0. eapply IHb; eauto.
      + (* SBreak *)
        rewrite sstmt_SBreak in H. injection H as <-. apply R_refl.
      + (* SDef *)
        rewrite sstmt_SDef in H. injection H as <-. apply R_refl.
  Qed.

  Theorem gen_block : forall f b s s',
    all_block ok b = true -> fin (sblock f b s) = Some s' -> R s s'.
  Proof. intro f. exact (proj1 (gen_both f)). Qed.
  Theorem gen_stmt : forall f x s s',
    all_stmt ok x = true -> fin (sstmt f x s) = Some s' -> R s s'.
  Proof. intro f. exact (proj2 (gen_both f)). Qed.
End Generic.
