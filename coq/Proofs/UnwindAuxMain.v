(* UnwindAuxMain.v (C10, follow-up equivalence): a whole submission (build_from_source,
   hence eval and compile) maps compatible states to compatible results.  With the
   restoration theorem: any source submitted after a rejected one behaves as if the rejected
   one had never been submitted. *)
From Xeh Require Import Model.Prelude Model.Bits Model.Codec Model.Cell Model.Lexer Model.Fmt
                        Model.Vm Model.Words Model.Build.
From Xeh Require Import Proofs.VmFrame Proofs.VmLimits Proofs.NoPanic Proofs.NoPanicBuild
                        Proofs.UnwindLists Proofs.UnwindIrr Proofs.UnwindAuxVm Proofs.UnwindAuxBuild.
Local Notation length := List.length.

#[local] Arguments Z.add : simpl never.
#[local] Arguments Z.sub : simpl never.
#[local] Arguments Z.of_nat : simpl never.
#[local] Arguments Z.to_nat : simpl never.

Section Close.
  Variable fo : fops.
  Variable pr : string -> option Z.
  Variable rf : nat.

  Lemma ap_emit_results : forall fuel, ap (emit_results fuel).
  Proof.
    induction fuel as [|f IH]; intros t dg so inp me rl ou lt sg Ho; cbn [emit_results].
    - cbn. split; [reflexivity|apply arel_intro; exact Ho].
    - change (cx (ax t dg so inp me rl ou lt sg)) with (cx t).
      change (ds (ax t dg so inp me rl ou lt sg)) with (ds t).
      destruct (ds_len (cx t) <? length (ds t))%nat; [|cbn; split; [reflexivity|apply arel_intro; exact Ho]].
      pose proof (wx_ap _ _ wx_pop_data t dg so inp me rl ou lt sg Ho) as X.
      destruct (pop_data t) as [v s1|k p s1| |];
        destruct (pop_data (ax t dg so inp me rl ou lt sg)) as [v' s1'|k' p' s1'| |];
        cbn [ares] in *; try contradiction; auto.
      destruct X as [<- (dg1 & so1 & inp1 & me1 & rl1 & ou1 & lt1 & sg1 & Ho1 & ->)].
      pose proof (ap_code_emit (load_value_opcode v) s1 dg1 so1 inp1 me1 rl1 ou1 lt1 sg1 Ho1) as Y.
      unfold code_emit_value.
      destruct (code_emit (load_value_opcode v) s1) as [u s2|k p s2| |];
        destruct (code_emit (load_value_opcode v) (ax s1 dg1 so1 inp1 me1 rl1 ou1 lt1 sg1)) as [u' s2'|k' p' s2'| |];
        cbn [ares] in *; try contradiction; auto.
      destruct Y as [_ (dg2 & so2 & inp2 & me2 & rl2 & ou2 & lt2 & sg2 & Ho2 & ->)].
      apply IH. exact Ho2.
  Qed.

  Lemma arel_set_cx s s' c : arel s s' -> arel (set_cx s c) (set_cx s' c).
  Proof.
    intros (dg & so & inp & me & rl & ou & lt & sg & Ho & ->).
    exists dg, so, inp, me, rl, ou, lt, sg. split; [|reflexivity]. eapply aok_same; [..|exact Ho]; reflexivity.
  Qed.

  Lemma arel_put_back s s' c : arel s s' -> arel (set_nested s (c :: nested s)) (set_nested s' (c :: nested s')).
  Proof.
    intros (dg & so & inp & me & rl & ou & lt & sg & Ho & ->).
    exists dg, so, inp, me, rl, ou, lt, sg. split; [|reflexivity]. eapply aok_same; [..|exact Ho]; reflexivity.
  Qed.

  Lemma ap_context_close : ap (context_close fo rf).
  Proof.
    intros t dg so inp me rl ou lt sg Ho. unfold context_close.
    change (nested (ax t dg so inp me rl ou lt sg)) with (nested t).
    destruct (nested t) as [|prev rest]; [cbn; repeat split; apply arel_intro; exact Ho|].
    cbv zeta.
    change (set_nested (ax t dg so inp me rl ou lt sg) rest) with (ax (set_nested t rest) dg so inp me rl ou lt sg).
    assert (Ho0 : aok (set_nested t rest) dg inp me rl) by (eapply aok_same; [..|exact Ho]; reflexivity).
    change (cmode (cx (ax (set_nested t rest) dg so inp me rl ou lt sg))) with (cmode (cx (set_nested t rest))).
    pose proof (ap_run_m fo rf (set_nested t rest) dg so inp me rl ou lt sg Ho0) as X.
    destruct (cmode (cx (set_nested t rest))).
    - (* MCompile *)
      cbn [ares]. split; [reflexivity|]. apply arel_set_cx. apply arel_intro. exact Ho0.
    - (* MEval *)
      destruct (run_m fo rf (set_nested t rest)) as [u s1|k p s1| |];
        destruct (run_m fo rf (ax (set_nested t rest) dg so inp me rl ou lt sg)) as [u' s1'|k' p' s1'| |];
        cbn [ares] in *; try contradiction; auto.
      + destruct X as [_ X]. split; [reflexivity|].
        pose proof X as (dg1 & so1 & inp1 & me1 & rl1 & ou1 & lt1 & sg1 & Ho1 & ->).
        change (ip (ax s1 dg1 so1 inp1 me1 rl1 ou1 lt1 sg1)) with (ip s1). apply arel_set_cx. exact X.
      + destruct X as (<- & <- & X). repeat split.
        pose proof X as (dg1 & so1 & inp1 & me1 & rl1 & ou1 & lt1 & sg1 & Ho1 & ->).
        change (ip (ax s1 dg1 so1 inp1 me1 rl1 ou1 lt1 sg1)) with (ip s1). apply arel_set_cx. exact X.
    - (* MMeta *)
      destruct (run_m fo rf (set_nested t rest)) as [u s1|k p s1| |];
        destruct (run_m fo rf (ax (set_nested t rest) dg so inp me rl ou lt sg)) as [u' s1'|k' p' s1'| |];
        cbn [ares] in *; try contradiction; auto;
        [|destruct X as (<- & <- & X); repeat split; apply arel_put_back; exact X].
      destruct X as [_ (dg1 & so1 & inp1 & me1 & rl1 & ou1 & lt1 & sg1 & Ho1 & ->)].
      change (cx (ax s1 dg1 so1 inp1 me1 rl1 ou1 lt1 sg1)) with (cx s1).
      change (code (ax s1 dg1 so1 inp1 me1 rl1 ou1 lt1 sg1)) with (code s1).
      change (dbg (ax s1 dg1 so1 inp1 me1 rl1 ou1 lt1 sg1)) with dg1.
      set (n := cs_len (cx s1)).
      set (s2 := set_dbg (set_code s1 (firstn n (code s1))) (firstn n (dbg s1))).
      change (set_dbg (set_code (ax s1 dg1 so1 inp1 me1 rl1 ou1 lt1 sg1) (firstn n (code s1))) (firstn n dg1))
        with (ax s2 (firstn n dg1) so1 inp1 me1 rl1 ou1 lt1 sg1).
      assert (Ho2 : aok s2 (firstn n dg1) inp1 me1 rl1).
      { destruct Ho1 as (A1 & A2 & A3 & A4). unfold aok, s2.
        cbn [set_dbg set_code dbg input insn_limit meter rlog]. repeat split; try assumption; try apply A4.
        rewrite !firstn_length. congruence. }
      change (dict (ax s2 (firstn n dg1) so1 inp1 me1 rl1 ou1 lt1 sg1)) with (dict s2).
      change (cx s1) with (cx s2).
      set (s3 := set_dict s2 (purge_dict (S (length (dict s2))) (dict s2) (di_len (cx s2)))).
      change (set_dict (ax s2 (firstn n dg1) so1 inp1 me1 rl1 ou1 lt1 sg1)
                       (purge_dict (S (length (dict s2))) (dict s2) (di_len (cx s2))))
        with (ax s3 (firstn n dg1) so1 inp1 me1 rl1 ou1 lt1 sg1).
      assert (Ho3 : aok s3 (firstn n dg1) inp1 me1 rl1) by (eapply aok_same; [..|exact Ho2]; reflexivity).
      change (flows (ax s3 (firstn n dg1) so1 inp1 me1 rl1 ou1 lt1 sg1)) with (flows s3).
      change (ds (ax s3 (firstn n dg1) so1 inp1 me1 rl1 ou1 lt1 sg1)) with (ds s3).
      match goal with |- context [if ?c then _ else _] => destruct c end.
      + pose proof (ap_emit_results (S (length (ds s3))) s3 (firstn n dg1) so1 inp1 me1 rl1 ou1 lt1 sg1 Ho3) as Y.
        destruct (emit_results (S (length (ds s3))) s3) as [u4 s4|k p s4| |];
          destruct (emit_results (S (length (ds s3))) (ax s3 (firstn n dg1) so1 inp1 me1 rl1 ou1 lt1 sg1)) as [u4' s4'|k' p' s4'| |];
          cbn [ares] in *; try contradiction; auto.
        destruct Y as [_ Y]. split; [reflexivity|]. apply arel_set_cx. exact Y.
      + cbn [ares]. split; [reflexivity|]. apply arel_set_cx. apply arel_intro. exact Ho3.
  Qed.

  Ltac ap_prim1 :=
    lazymatch goal with
    | |- ap (context_close _ _) => apply ap_context_close
    | |- ap (vec_collect_till_ptr _) => apply wx_ap; wx_solve
    | |- ap (join_str_vec _ _) => unfold join_str_vec
    end.

  Ltac ap_step1 := first [ ap_prim1 | ap_step ].
  Ltac ap_solve1 := repeat ap_step1.

  Lemma ap_i_nested_end : ap (i_nested_end fo rf).
  Proof. ap_solve1. Qed.

  Lemma ap_i_nested_inject : ap (i_nested_inject fo rf).
  Proof. ap_solve1. Qed.

  Lemma ap_i_const : ap (i_const pr).
  Proof.
    unfold i_const. apply ap_bind; [apply ap_next_name|intros name].
    apply ap_get_bind; [intros; reflexivity|intros s0].
    destruct (negb (mode_eqb (cmode (cx s0)) MMeta)); [apply ap_fail|].
    apply ap_bind; [apply wx_ap, wx_pop_data|intros v].
    apply ap_keep.
    - intros s ? ? ? ? ? ? ? ?. cbv [bind get put fail ret dict_insert dict_pos].
      cbn [ax set_dict dict res_map]. break_matches; reflexivity.
    - intros s. cbv [bind get put fail ret dict_insert dict_pos].
      break_matches; cbn [res_all set_dict dbg input insn_limit meter rlog]; auto 10.
  Qed.

  (* enum *)
  Lemma ap_i_enum : ap (i_enum pr).
  Proof. unfold i_enum, def_immediate. ap_solve1. Qed.

  Lemma ap_enum_add_field nm val : ap (enum_add_field nm val).
  Proof.
    intros t dg so inp me rl ou lt sg Ho. unfold enum_add_field. rewrite !UnwindAuxBuild.bind_get.
    change (flows (ax t dg so inp me rl ou lt sg)) with (flows t).
    destruct (flows t) as [|f r]; [apply ap_fail; exact Ho|].
    destruct f; try (apply ap_fail; exact Ho).
    destruct (val fields) as [v|]; [|apply ap_fail; exact Ho].
    cbv zeta. unfold bind at 1 3. unfold put.
    match goal with |- ares (?P ?a) (?P ?b2) =>
      change b2 with (ax a dg so inp me rl ou lt sg) end.
    assert (X : ap (let* _ := dict_insert nm (DConst (CInt v)) in i_nested_begin)) by ap_solve1.
    apply X. eapply aok_same; [..|exact Ho]; reflexivity.
  Qed.

  Lemma ap_m_xint c : ap (m_xint c).
  Proof. unfold m_xint. destruct (value c); first [apply ap_ret|apply ap_fail]. Qed.

  Lemma ap_i_enum_field : ap (i_enum_field fo pr rf).
  Proof. pose proof ap_i_nested_end. pose proof ap_enum_add_field. unfold i_enum_field. ap_solve1. Qed.

  Lemma ap_i_enum_field_set : ap (i_enum_field_set fo pr rf).
  Proof.
    pose proof ap_i_nested_end. pose proof ap_enum_add_field. pose proof ap_m_xint.
    unfold i_enum_field_set. ap_solve1.
  Qed.

  Lemma ap_i_endenum : ap (i_endenum fo rf).
  Proof.
    unfold i_endenum. apply ap_bind; [apply ap_i_nested_end|intros _].
    apply ap_get_bind; [intros; reflexivity|intros s0].
    destruct (0 <? data_depth s0)%nat; [apply ap_fail|].
    apply ap_bind; [apply ap_pop_flow|intros fl].
    destruct fl as [f|]; [|apply ap_fail]. destruct f; try apply ap_fail. apply ap_i_nested_end.
  Qed.

  Lemma ap_immediate_fn : forall fuel name w, immediate_fn fo pr rf fuel name = Some w -> ap w.
  Proof.
    intros fuel name w H. unfold immediate_fn in H. cbv zeta in H.
    eapply table_find_Forall with (P := fun m => ap m); [|exact H].
    pose proof (ap_build_let_in pr fuel) as HL.
    pose proof ap_emit_native as HE.
    pose proof ap_i_set_fmt_base as HB.
    repeat (apply Forall_cons;
            [ cbn [fst snd];
              first [ assumption | apply HE | apply HB | apply ap_code_emit
                    | apply ap_i_if | apply ap_i_else | apply ap_i_then | apply ap_i_case
                    | apply ap_i_of | apply ap_i_endof | apply ap_i_endcase | apply ap_i_begin
                    | apply ap_i_while | apply ap_i_until | apply ap_i_break | apply ap_i_repeat
                    | apply ap_i_open | apply ap_i_close
                    | apply ap_i_def_begin | apply ap_i_def_end | apply ap_i_late
                    | apply ap_i_immediate | apply ap_i_local | apply ap_i_var | apply ap_i_setvar
                    | apply ap_i_nested_begin | apply ap_i_do | apply ap_i_loop
                    | apply ap_i_foreach | apply ap_i_defined | apply ap_i_const
                    | apply ap_i_nested_end | apply ap_i_nested_inject
                    | apply ap_i_enum | apply ap_i_enum_field | apply ap_i_enum_field_set | apply ap_i_endenum ]
            | ]).
    apply Forall_nil.
  Qed.

  Lemma ap_run_immediate fuel f : ap (run_immediate fo pr rf fuel f).
  Proof.
    unfold run_immediate. destruct f as [x|name].
    - ap_solve1.
    - destruct (immediate_fn fo pr rf fuel name) as [w|] eqn:E; [|apply ap_unsup].
      eapply ap_immediate_fn. exact E.
  Qed.

  Lemma ap_build_word fuel name : ap (build_word fo pr rf fuel name).
  Proof. pose proof (ap_run_immediate fuel). ap_solve1. Qed.

  Lemma ap_build1 : forall fuel depth, ap (build1 fo pr rf fuel depth).
  Proof.
    induction fuel as [|f IH]; intros depth; cbn [build1]; [apply ap_unsup|].
    pose proof (ap_build_word f). pose proof ap_code_emit_value. ap_solve1.
  Qed.

  (* ---------- the unwinding ---------- *)
  Lemma leave_contexts_ax : forall fuel depth t dg so inp me rl ou lt sg,
    leave_contexts fuel depth (ax t dg so inp me rl ou lt sg) =
    ax (leave_contexts fuel depth t) dg so inp me rl ou lt sg.
  Proof.
    induction fuel as [|f IH]; intros depth t dg so inp me rl ou lt sg; cbn [leave_contexts]; [reflexivity|].
    change (nested (ax t dg so inp me rl ou lt sg)) with (nested t).
    destruct (S depth <? length (nested t))%nat; [|reflexivity].
    destruct (nested t) as [|prev rest]; [reflexivity|].
    apply (IH depth (set_cx (set_nested t rest) prev)).
  Qed.

  Lemma leave_contexts_aux : forall fuel depth t,
    dbg (leave_contexts fuel depth t) = dbg t /\ input (leave_contexts fuel depth t) = input t /\
    insn_limit (leave_contexts fuel depth t) = insn_limit t /\ meter (leave_contexts fuel depth t) = meter t /\
    rlog (leave_contexts fuel depth t) = rlog t.
  Proof.
    induction fuel as [|f IH]; intros depth t; cbn [leave_contexts]; [repeat split|].
    destruct (S depth <? length (nested t))%nat; [|repeat split].
    destruct (nested t) as [|prev rest]; [repeat split|].
    apply (IH depth (set_cx (set_nested t rest) prev)).
  Qed.

  Lemma Forall2_skipn {A B} (R : A -> B -> Prop) : forall n l l', Forall2 R l l' -> Forall2 R (skipn n l) (skipn n l').
  Proof.
    induction n as [|n IH]; intros l l' H; [exact H|]. destruct H; [constructor|]. cbn [skipn]. apply IH. assumption.
  Qed.

  Lemma build_unwind_arel depth inputs dsl heapl s s' : arel s s' ->
    arel (build_unwind depth inputs dsl heapl s) (build_unwind depth inputs dsl heapl s').
  Proof.
    intros (dg & so & inp & me & rl & ou & lt & sg & Ho & ->).
    unfold build_unwind. cbv zeta.
    change (input (ax s dg so inp me rl ou lt sg)) with inp.
    set (inp' := lastn inputs inp). set (s0 := set_input s (lastn inputs (input s))).
    change (set_input (ax s dg so inp me rl ou lt sg) inp') with (ax s0 dg so inp' me rl ou lt sg).
    assert (Ho0 : aok s0 dg inp' me rl).
    { destruct Ho as (A1 & A2 & A3 & A4). unfold aok, s0, inp'. cbn [set_input dbg input insn_limit meter rlog].
      repeat split; try assumption; try apply A4.
      unfold lastn. rewrite <- (aok_input_len s dg inp me rl (conj A1 (conj A2 (conj A3 A4)))) at 1.
      apply Forall2_skipn. exact A2. }
    change (nested (ax s0 dg so inp' me rl ou lt sg)) with (nested s0).
    rewrite leave_contexts_ax.
    set (s1 := leave_contexts (S (length (nested s0))) depth s0).
    assert (Ho1 : aok s1 dg inp' me rl).
    { destruct (leave_contexts_aux (S (length (nested s0))) depth s0) as (E1 & E2 & E3 & E4 & E5).
      eapply aok_same; [..|exact Ho0]; assumption. }
    change (cx (ax s1 dg so inp' me rl ou lt sg)) with (cx s1).
    set (n := cs_len (cx s1)).
    set (s5 := set_heap _ _).
    match goal with |- arel _ (match nested ?x with _ => _ end) => set (s5' := x) end.
    assert (E5 : s5' = ax s5 (firstn n dg) so inp' me rl ou lt sg) by reflexivity.
    assert (Ho5 : aok s5 (firstn n dg) inp' me rl).
    { destruct Ho1 as (A1 & A2 & A3 & A4). unfold aok, s5.
      cbn [set_heap set_ds set_special set_loops set_rs set_dict set_flows set_dbg set_code dbg input insn_limit meter rlog].
      repeat split; try assumption; try apply A4. rewrite !firstn_length. fold n. congruence. }
    rewrite E5. change (nested (ax s5 (firstn n dg) so inp' me rl ou lt sg)) with (nested s5).
    destruct (nested s5) as [|prev rest]; [apply arel_intro; exact Ho5|].
    destruct (depth <? length (prev :: rest))%nat; [|apply arel_intro; exact Ho5].
    apply arel_set_cx.
    change (set_nested (ax s5 (firstn n dg) so inp' me rl ou lt sg) rest)
      with (ax (set_nested s5 rest) (firstn n dg) so inp' me rl ou lt sg).
    apply arel_intro. eapply aok_same; [..|exact Ho5]; reflexivity.
  Qed.

  (* ---------- a whole submission ---------- *)
  Theorem ap_build_from_source fuel src m : ap (build_from_source fo pr rf fuel src m).
  Proof.
    intros t dg so inp me rl ou lt sg Ho. unfold build_from_source. cbv zeta.
    assert (X : ap (context_open m ;; intern_source src)) by ap_solve1.
    specialize (X t dg so inp me rl ou lt sg Ho).
    destruct ((context_open m ;; intern_source src) t) as [u s1|k p s1| |];
      destruct ((context_open m ;; intern_source src) (ax t dg so inp me rl ou lt sg)) as [u' s1'|k' p' s1'| |];
      cbn [ares] in *; try contradiction; auto.
    destruct X as [_ (dg1 & so1 & inp1 & me1 & rl1 & ou1 & lt1 & sg1 & Ho1 & ->)].
    change (nested (ax s1 dg1 so1 inp1 me1 rl1 ou1 lt1 sg1)) with (nested s1).
    pose proof (ap_build1 fuel (length (nested s1)) s1 dg1 so1 inp1 me1 rl1 ou1 lt1 sg1 Ho1) as Y.
    destruct (build1 fo pr rf fuel (length (nested s1)) s1) as [u2 s2|k p s2| |];
      destruct (build1 fo pr rf fuel (length (nested s1)) (ax s1 dg1 so1 inp1 me1 rl1 ou1 lt1 sg1)) as [u2' s2'|k' p' s2'| |];
      cbn [ares] in *; try contradiction; auto.
    - destruct Y as [_ (dg2 & so2 & inp2 & me2 & rl2 & ou2 & lt2 & sg2 & Ho2 & ->)].
      apply ap_context_close. exact Ho2.
    - destruct Y as (<- & <- & Y). repeat split.
      change (nested (ax t dg so inp me rl ou lt sg)) with (nested t).
      change (ds (ax t dg so inp me rl ou lt sg)) with (ds t).
      change (heap (ax t dg so inp me rl ou lt sg)) with (heap t).
      change (input (ax t dg so inp me rl ou lt sg)) with inp.
      rewrite (aok_input_len _ _ _ _ _ Ho).
      apply build_unwind_arel. exact Y.
  Qed.
End Close.
