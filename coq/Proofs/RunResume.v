(* RunResume.v: finding D42 - after a run-time failure, compile + run of a later source resumes the failed program at the
   failing instruction, while eval of the same source runs its own code.  Machine-checked witness on the faithful model. *)
From Xeh Require Import Model.Prelude Model.Bits Model.Cell Model.Lexer Model.Vm Model.Words Model.Build Model.Boot.
From Xeh Require Import Proofs.UnwindWitness.
Local Open Scope string_scope.

Definition d42_state (r : res unit) : state := match r with ROk _ s => s | RErr _ _ s => s | _ => boot end.
Definition d42_kind (r : res unit) : option ekind :=
  match r with ROk _ _ => None | RErr k _ _ => Some k | _ => Some EOther end.
Definition d42_failed : res unit := eval wit_fo wit_pr wit_rf wit_fuel "7 1 0 / 8" boot.
Definition d42_by_eval : res unit := eval wit_fo wit_pr wit_rf wit_fuel "5" (d42_state d42_failed).
Definition d42_by_run : res unit :=
  (compile wit_fo wit_pr wit_rf wit_fuel "5" ;; run_m wit_fo wit_rf) (d42_state d42_failed).

Lemma compile_run_resumes_failed_source :
  d42_kind d42_failed = Some EDivZero /\
  (* the failed source left the instruction pointer at its failing instruction, inside the code *)
  ip (d42_state d42_failed) < List.length (code (d42_state d42_failed)) /\
  d42_kind d42_by_eval = None /\ ds (d42_state d42_by_eval) = [CInt 5; CInt 7] /\
  d42_kind d42_by_run = Some EUnderflow /\ ds (d42_state d42_by_run) = [].
Proof. vm_compute. repeat split; repeat constructor. Qed.

Lemma eval_is_compile_run_needs_idle :
  ~ (forall src s, eval wit_fo wit_pr wit_rf wit_fuel src s
                   = (compile wit_fo wit_pr wit_rf wit_fuel src ;; run_m wit_fo wit_rf) s).
Proof.
  intro H. specialize (H "5" (d42_state d42_failed)).
  assert (K : d42_kind (eval wit_fo wit_pr wit_rf wit_fuel "5" (d42_state d42_failed)) = None) by (vm_compute; reflexivity).
  rewrite H in K. vm_compute in K. discriminate.
Qed.
