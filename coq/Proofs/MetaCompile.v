(* MetaCompile.v (C11): outside meta blocks the builder executes nothing.

   In a context that is not a meta context, with no user-defined immediate word in the
   dictionary, every program of the builder except #( (and the failing #) ~) const, and
   `immediate` which creates a user-defined immediate word) keeps the frame [R5]: data
   stack, context and context stack unchanged, the other stacks only extended, the heap
   extended by nil cells only (var / let), no user-defined immediate word created. *)
From Xeh Require Import Model.Prelude Model.Bits Model.Codec Model.Cell Model.Lexer Model.Fmt
                        Model.Vm Model.Words Model.Build.
From Xeh Require Import Proofs.VmFrame Proofs.VmLimits Proofs.NoPanic Proofs.NoPanicBuild Proofs.NoPanicFlow
                        Proofs.MetaBase Proofs.MetaPurge Proofs.MetaBuild Proofs.MetaClose Proofs.MetaPrefix
                        Proofs.MetaPrefixBuild Proofs.MetaPrefixWords Proofs.MetaBlock Proofs.MetaSeg.
Local Notation length := List.length.
Local Open Scope string_scope.
Local Open Scope list_scope.

Definition user_imm (e : dentry) : bool :=
  match dent e with DFun true (FInterp _) _ => true | _ => false end.
Definition no_user_imm (d : list dentry) : Prop := Forall (fun e => user_imm e = false) d.

Definition Pre5 (s : state) : Prop :=
  cmode (cx s) <> MMeta /\ wfm s /\ cd_inv s /\ no_user_imm (dict s).

Definition R5 (s s' : state) : Prop :=
  nested s' = nested s /\ cx s' = cx s /\ ds s' = ds s /\
  keeps (length (rs s)) (rs s) (rs s') /\ keeps (length (loops s)) (loops s) (loops s') /\
  keeps (length (special s)) (special s) (special s') /\
  keeps (fs_len (cx s)) (flows s) (flows s') /\
  (exists k, heap s' = heap s ++ repeat CNil k) /\ cd_inv s' /\ no_user_imm (dict s').

Lemma R5_refl s : Pre5 s -> R5 s s.
Proof.
  intros (Hm & (W1 & W2 & W3 & W4 & W5) & Hcd & Hn). unfold R5.
  repeat split; try reflexivity; try assumption; try lia.
  exists 0. cbn [repeat]. rewrite app_nil_r. reflexivity.
Qed.

Lemma keeps_len_trans {A} (a b c : list A) :
  keeps (length a) a b -> keeps (length b) b c -> keeps (length a) a c.
Proof.
  intros K1 K2. eapply keeps_trans; [exact K1|].
  apply (keeps_le _ _ _ _ (proj1 K1) K2). lia.
Qed.

Lemma R5_trans a b c : R5 a b -> R5 b c -> R5 a c.
Proof.
  intros (A1 & A2 & A3 & A4 & A5 & A6 & A7 & (k1 & A8) & A9 & A10)
         (B1 & B2 & B3 & B4 & B5 & B6 & B7 & (k2 & B8) & B9 & B10).
  rewrite A2 in B7. unfold R5.
  split; [congruence|]. split; [congruence|]. split; [congruence|].
  split; [eapply keeps_len_trans; eassumption|]. split; [eapply keeps_len_trans; eassumption|].
  split; [eapply keeps_len_trans; eassumption|]. split; [eapply keeps_trans; eassumption|].
  split; [|split; assumption].
  exists (k1 + k2). rewrite B8, A8, <- app_assoc, repeat_app. reflexivity.
Qed.

Lemma R5_keep a b : Pre5 a -> R5 a b -> Pre5 b.
Proof.
  intros (Hm & (W1 & W2 & W3 & W4 & W5) & Hcd & Hn) (A1 & A2 & A3 & A4 & A5 & A6 & A7 & A8 & A9 & A10).
  unfold Pre5, wfm. rewrite A2, A3.
  split; [exact Hm|]. split; [|split; assumption].
  repeat split; try assumption; first [apply A4|apply A5|apply A6|apply A7|idtac]; try lia.
  - destruct A4 as [L _]. lia.
  - destruct A5 as [L _]. lia.
  - destruct A6 as [L _]. lia.
Qed.

Definition F5 : frame := mkFrame Pre5 R5 R5_refl R5_trans R5_keep.

(* ---------- programs that change nothing the frame talks about ---------- *)
Definition dictp {A} (m : M A) : Prop := forall s, res_all (fun s' => dict s' = dict s) (m s).

Lemma fp5_quiet A (m : M A) : scorep m -> cdp m -> dictp m -> fp F5 m.
Proof.
  intros Hs Hc Hd s P. cbn [F5 fr_pre fr_rel] in *.
  pose proof P as (Hm & W & Hcd & Hn). destruct W as (W1 & W2 & W3 & W4 & W5).
  specialize (Hs s). specialize (Hc s Hcd). specialize (Hd s).
  destruct (m s); cbn [res_all] in *; auto;
    unfold score in Hs; injection Hs as E1 E2 E3 E4 E5 E6 E7 E8;
    unfold R5; rewrite E1, E2, E3, E4, E5, E6, E7, E8, Hd;
    (repeat split; try reflexivity; try assumption; try lia;
     exists 0; cbn [repeat]; rewrite app_nil_r; reflexivity).
Qed.

Lemma dictp_corep A (m : M A) : corep m -> dictp m.
Proof.
  intros H s. destruct (H s) as [_ C]. destruct (m s); cbn [res_all] in *; auto;
    destruct (core_fields _ _ C) as (_ & D & _); exact D.
Qed.

Lemma dictp_code_emit op : dictp (code_emit op).
Proof.
  intros s. unfold code_emit. cbv zeta. destruct (_ <? _)%nat; [reflexivity|].
  destruct (_ =? _)%nat; [reflexivity|exact I].
Qed.
Lemma dictp_backpatch pos op : dictp (backpatch pos op).
Proof. intros s. unfold backpatch. destruct (_ <? _)%nat; [reflexivity|exact I]. Qed.
Lemma dictp_backpatch_jump pos offs : dictp (backpatch_jump pos offs).
Proof.
  intros s. unfold backpatch_jump. destruct (nth_error (code s) pos) as [op|]; [|reflexivity].
  destruct op; try exact I; apply dictp_backpatch.
Qed.

(* ---------- flow stack, dictionary, heap ---------- *)
Lemma R5_flows s fl' : Pre5 s -> keeps (fs_len (cx s)) (flows s) fl' -> R5 s (set_flows s fl').
Proof.
  intros (Hm & (W1 & W2 & W3 & W4 & W5) & Hcd & Hn) K. unfold R5.
  cbn [set_flows nested cx ds rs loops special flows heap dict].
  repeat split; try reflexivity; try assumption; try lia; try apply K.
  exists 0. cbn [repeat]. rewrite app_nil_r. reflexivity.
Qed.

Lemma R5_dict s d' : Pre5 s -> no_user_imm d' -> R5 s (set_dict s d').
Proof.
  intros (Hm & (W1 & W2 & W3 & W4 & W5) & Hcd & Hn) K. unfold R5.
  cbn [set_dict nested cx ds rs loops special flows heap dict].
  repeat split; try reflexivity; try assumption; try lia.
  exists 0. cbn [repeat]. rewrite app_nil_r. reflexivity.
Qed.

Lemma no_user_imm_set d i e' : no_user_imm d -> user_imm e' = false -> no_user_imm (list_set d i e').
Proof.
  unfold no_user_imm. revert i. induction d as [|x d IH]; intros i H He; [constructor|].
  inversion H; subst. destruct i; cbn [list_set]; constructor; auto.
Qed.

Lemma fp5_push_flow f : fp F5 (push_flow f).
Proof.
  intros s P. unfold push_flow, modify. cbn [res_all F5 fr_rel]. apply R5_flows; [exact P|].
  apply (keeps_app _ [f]). apply P.
Qed.

Lemma fp5_pop_flow : fp F5 pop_flow.
Proof.
  intros s P. unfold pop_flow. cbn [F5 fr_rel].
  destruct (flows s) as [|f r] eqn:E; [apply R5_refl; exact P|].
  destruct (_ <? _)%nat eqn:El; [|apply R5_refl; exact P].
  cbn [res_all]. apply R5_flows; [exact P|]. apply Nat.ltb_lt in El. rewrite E.
  unfold keeps. cbn [length] in *. split; [lia|]. symmetry. apply lastn_cons. lia.
Qed.

Lemma fp5_take : fp F5 take_first_cond_flow.
Proof.
  intros s P. unfold take_first_cond_flow. cbv zeta. cbn [F5 fr_rel].
  destruct (take_cond (pending s)) as [[f act']|]; [|apply R5_refl; exact P].
  cbn [res_all]. apply R5_flows; [exact P|]. apply keeps_pending. apply P.
Qed.

Lemma fp5_dict_insert name e : user_imm (mkdent name e) = false -> fp F5 (dict_insert name e).
Proof.
  intros He s P. unfold dict_insert. cbn [res_all F5 fr_rel]. apply R5_dict; [exact P|].
  apply Forall_app. split; [apply P|]. constructor; [exact He|constructor].
Qed.

Lemma fp5_alloc_nil : fp F5 (alloc_heap CNil).
Proof.
  intros s P. unfold alloc_heap. cbn [F5 fr_rel].
  destruct (mode_eqb _ _); [apply R5_refl; exact P|].
  destruct (limit_reached _ _); [apply R5_refl; exact P|].
  cbn [res_all]. pose proof P as (Hm & (W1 & W2 & W3 & W4 & W5) & Hcd & Hn). unfold R5.
  cbn [set_heap nested cx ds rs loops special flows heap dict].
  repeat split; try reflexivity; try assumption; try lia.
  exists 1. reflexivity.
Qed.

Lemma R5_set_locals s ls : Pre5 s ->
  R5 s (set_flows s (set_fun_locals (pending s) ls ++ skipn (length (pending s)) (flows s))).
Proof. intros P. apply R5_flows; [exact P|]. apply keeps_pending. apply P. Qed.

(* ---------- the stepwise tactic ---------- *)
Ltac fp5_prim :=
  lazymatch goal with
  | |- fpa _ _ (ret _) => apply fpa_ret
  | |- fpa _ _ (fail _ _) => apply fpa_fail
  | |- fpa _ _ unsup => apply fpa_unsup
  | |- fpa _ _ panic => apply fpa_panic
  | |- fpa _ _ (code_emit _) =>
    apply (fp5_quiet _ _ (scorep_code_emit _) (cdp_code_emit _) (dictp_code_emit _))
  | |- fpa _ _ (backpatch _ _) =>
    apply (fp5_quiet _ _ (scorep_backpatch _ _) (cdp_backpatch _ _) (dictp_backpatch _ _))
  | |- fpa _ _ (backpatch_jump _ _) =>
    apply (fp5_quiet _ _ (scorep_backpatch_jump _ _) (cdp_backpatch_jump _ _) (dictp_backpatch_jump _ _))
  | |- fpa _ _ (get_token _) =>
    apply (fp5_quiet _ _ (scorep_get_token _) (cdp_get_token _) (dictp_corep _ _ (corep_get_token _)))
  | |- fpa _ _ (next_name _) =>
    apply (fp5_quiet _ _ (scorep_next_name _) (cdp_next_name _) (dictp_corep _ _ (corep_next_name _)))
  | |- fpa _ _ (dict_insert _ _) => apply fp5_dict_insert; reflexivity
  | |- fpa _ _ (push_flow _) => apply fp5_push_flow
  | |- fpa _ _ pop_flow => apply fp5_pop_flow
  | |- fpa _ _ take_first_cond_flow => apply fp5_take
  | |- fpa _ _ (alloc_heap CNil) => apply fp5_alloc_nil
  end.

Create HintDb fp5db.

Ltac fp5_step :=
  cbv beta zeta;
  first
    [ fp5_prim
    | solve [ auto 2 with fp5db nocore ]
    | match goal with H : _ |- fpa _ _ _ => solve [ apply H ] end
    | lazymatch goal with
      | |- fp _ _ => intro
      | |- fpa _ _ (bind get _) => apply fpa_get_bind
      | |- fpa _ _ (bind _ _) => apply fpa_bind; [ | intro ]
      | |- fpa _ _ (match ?x with _ => _ end) => destruct x eqn:?
      | |- fpa _ _ (put _) => apply fpa_put; intro
      | |- fpa _ _ ?m => let h := head_of m in unfold h
      end ].

Ltac fp5_solve := repeat fp5_step.

Lemma fp5_endcase_loop : forall fuel org s, fpa F5 s (endcase_loop fuel org).
Proof.
  induction fuel as [|f IH]; intros org;
    change (fp F5 (endcase_loop (S f) org)) || change (fp F5 (endcase_loop 0 org));
    cbn [endcase_loop]; fp5_solve.
Qed.
Lemma fp5_repeat_loop : forall fuel s, fpa F5 s (repeat_loop fuel).
Proof.
  induction fuel as [|f IH];
    change (fp F5 (repeat_loop (S f))) || change (fp F5 (repeat_loop 0));
    cbn [repeat_loop]; fp5_solve.
Qed.
Lemma fp5_loop_loop : forall fuel a b s, fpa F5 s (loop_loop fuel a b).
Proof.
  induction fuel as [|f IH]; intros a b;
    change (fp F5 (loop_loop (S f) a b)) || change (fp F5 (loop_loop 0 a b));
    cbn [loop_loop]; fp5_solve.
Qed.
#[export] Hint Resolve fp5_endcase_loop fp5_repeat_loop fp5_loop_loop : fp5db.

Lemma fp5_emit_native w s : fpa F5 s (emit_native w).
Proof. fp5_solve. Qed.
Lemma fp5_code_emit_value v s : fpa F5 s (code_emit_value v).
Proof. fp5_solve. Qed.

Lemma fp5_build_local_variable name s : fpa F5 s (build_local_variable name).
Proof.
  revert s. change (fp F5 (build_local_variable name)). unfold build_local_variable. fp5_solve.
  apply R5_set_locals. assumption.
Qed.

Lemma fp5_build_global_variable name s : fpa F5 s (build_global_variable name).
Proof. unfold build_global_variable. fp5_solve. Qed.

Lemma fp5_i_def_end s : fpa F5 s i_def_end.
Proof.
  revert s. change (fp F5 i_def_end). unfold i_def_end. fp5_solve.
  match goal with
  | H : set_dict_len _ _ _ = Some _ |- _ =>
    unfold set_dict_len in H;
    repeat match type of H with
           | match ?x with _ => _ end = _ => destruct x eqn:?; try discriminate H
           end;
    injection H as <-
  end.
  match goal with P : fr_pre F5 ?s |- _ => cbn [F5 fr_pre fr_rel] in * end.
  apply R5_dict; [assumption|].
  match goal with
  | P : Pre5 ?s, H1 : nth_error (dict ?s) ?i = Some ?d, H2 : dent ?d = DFun _ _ _ |- _ =>
    apply no_user_imm_set; [apply P|];
    assert (Hd : user_imm d = false)
      by (destruct P as (_ & _ & _ & Hn); unfold no_user_imm in Hn; rewrite Forall_forall in Hn;
          apply Hn; eapply nth_error_In; exact H1);
    unfold user_imm in *; cbn [dent]; rewrite H2 in Hd; exact Hd
  end.
Qed.
#[export] Hint Resolve fp5_emit_native fp5_code_emit_value fp5_build_local_variable
  fp5_build_global_variable fp5_i_def_end : fp5db.

Lemma fp5_build_let_named w s : fpa F5 s (build_let_named w).
Proof. fp5_solve. Qed.
Lemma fp5_build_let_match v s : fpa F5 s (build_let_match v).
Proof. fp5_solve. Qed.
Lemma fp5_let_vec_next i s : fpa F5 s (let_vec_next i).
Proof. fp5_solve. Qed.
#[export] Hint Resolve fp5_build_let_named fp5_build_let_match fp5_let_vec_next : fp5db.

Section Let5.
  Variable pr : string -> option Z.

  Lemma fp5_build_let : forall f,
    fp F5 (build_let_in pr f) /\ fp F5 (build_let_tags pr f) /\ fp F5 (build_let_map pr f) /\
    (forall i, fp F5 (build_let_vec pr f i)).
  Proof.
    induction f as [|f (IHin & IHtags & IHmap & IHvec)].
    - repeat split; intros; apply fp_unsup.
    - assert (Hmap : fp F5 (build_let_map pr (S f))).
      { rewrite build_let_map_S. apply fp_bind; [exact (fp5_emit_native _)|intros _].
        generalize (S f) as k. induction k as [|k IHk]; cbn [let_map_go]; [apply fp_unsup|].
        fold (let_map_go pr f) in *. fp5_solve. }
      assert (Hvec : forall i, fp F5 (build_let_vec pr (S f) i)).
      { intros i. rewrite build_let_vec_S. revert i.
        generalize (S f) as k. induction k as [|k IHk]; intros i; cbn [let_vec_go]; [apply fp_unsup|].
        fold (let_vec_go pr f) in *. fp5_solve. }
      assert (Htags : fp F5 (build_let_tags pr (S f))) by (cbn [build_let_tags]; fp5_solve).
      assert (Hin : fp F5 (build_let_in pr (S f))) by (cbn [build_let_in]; fp5_solve).
      repeat split; assumption.
  Qed.

  Lemma fp5_build_let_in f : fp F5 (build_let_in pr f).
  Proof. exact (proj1 (fp5_build_let f)). Qed.
End Let5.

(* ---------- the table ---------- *)
Definition ctx5_word (name : string) : bool :=
  ctx_word name || String.eqb name "const" || String.eqb name "immediate".

Section Top5.
  Variable fo : fops.
  Variable pr : string -> option Z.
  Variable rf : nat.

  Lemma table_find_filter5 : forall (P : M unit -> Prop) (t : list (string * M unit)) name w,
    Forall (fun nw => ctx5_word (fst nw) = false -> P (snd nw)) t ->
    table_find t name = Some w -> ctx5_word name = false -> P w.
  Proof.
    induction t as [|[n x] r IH]; intros name w HF H Hc; cbn [table_find] in H; [discriminate|].
    inversion HF; subst. destruct (String.eqb n name) eqn:E.
    - injection H as <-. apply String.eqb_eq in E. subst n. cbn [fst snd] in *. auto.
    - eapply IH; eauto.
  Qed.

  Lemma fp5_immediate_fn : forall fuel name w,
    immediate_fn fo pr rf fuel name = Some w -> ctx5_word name = false -> fp F5 w.
  Proof.
    intros fuel name w H Hc. unfold immediate_fn in H. cbv zeta in H.
    eapply table_find_filter5 with (P := fun m => fp F5 m); [|exact H|exact Hc].
    pose proof (fp5_build_let_in pr fuel) as HL.
    repeat (apply Forall_cons;
            [ cbn [fst snd]; intros Hcw;
              first [ discriminate Hcw | fp5_solve ] | ]).
    apply Forall_nil.
  Qed.
End Top5.
