(* StructLoops.v: loop-index hygiene of the structural evaluator.  A block that runs to its
   end or stops at a break leaves the loop stack as it found it: the same records with the
   same index and limit always; literally the same records when the program does not use
   the word "%foreach-next" (the only native word that writes into a loop record).
   Hence after a counted loop the words I / J / K see what they saw before it. *)
From Xeh Require Import Model.Prelude Model.Bits Model.Codec Model.Cell Model.Lexer Model.Fmt
                        Model.Vm Model.Words Model.Struct
                        Proofs.VmFrame Proofs.StructBase Proofs.StructNat Proofs.StructInv.
Local Notation length := List.length.

(* ---------- the control primitives ---------- *)
Lemma init_local_ok : forall i v s a s',
  init_local i v s = ROk a s' ->
  loops s' = loops s /\ cx s' = cx s /\
  exists f r, rs s = f :: r /\ rs s' = mkframe (fn_addr f) (return_to f) (pad_set (locals f) i v) :: r.
Proof.
  intros i v s a s' H. unfold init_local in H. destruct (rs s) as [| f r] eqn:E; [ discriminate | ].
  destruct (Nat.ltb _ _); [ | discriminate ]. injection H as _ <-.
  unfold add_rstep. cbn. destruct (rlog s); cbn; repeat split; eauto.
Qed.

Lemma push_return_ok : forall fr s a s',
  push_return fr s = ROk a s' -> loops s' = loops s /\ cx s' = cx s /\ rs s' = fr :: rs s.
Proof.
  intros fr s a s' H. unfold push_return in H. injection H as _ <-.
  unfold add_rstep. destruct (rlog s); cbn; repeat split.
Qed.

Lemma pop_return_ok : forall s fr s',
  pop_return s = ROk fr s' -> loops s' = loops s /\ cx s' = cx s /\ rs s = fr :: rs s'.
Proof.
  intros s fr s' H. unfold pop_return in H. destruct (rs s) as [| f r] eqn:E; [ discriminate | ].
  destruct (Nat.ltb _ _); [ | discriminate ]. injection H as <- <-.
  unfold add_rstep. cbn. destruct (rlog s); cbn; repeat split.
Qed.

Lemma push_loop_ok : forall l s a s',
  push_loop l s = ROk a s' -> loops s' = l :: loops s /\ cx s' = cx s /\ rs s' = rs s.
Proof.
  intros l s a s' H. unfold push_loop in H. injection H as _ <-.
  unfold add_rstep. destruct (rlog s); cbn; repeat split.
Qed.

Lemma pop_loop_ok : forall s l s',
  pop_loop s = ROk l s' -> loops s = l :: loops s' /\ cx s' = cx s /\ rs s' = rs s.
Proof.
  intros s l s' H. unfold pop_loop in H. destruct (loops s) as [| l0 r] eqn:E; [ discriminate | ].
  destruct (Nat.ltb _ _); [ | discriminate ]. injection H as <- <-.
  unfold add_rstep. cbn. destruct (rlog s); cbn; repeat split.
Qed.

(* the index after the increment of `loop` *)
Definition next_start (l : loopr) : Z :=
  if (l_start l <? l_end l)%Z then (l_start l + 1)%Z else l_start l.

Lemma loop_next_ok : forall s more s',
  loop_next s = ROk more s' ->
  cx s' = cx s /\ rs s' = rs s /\
  exists l r, loops s = l :: r /\ loops s' = mkloop (l_items l) (next_start l) (l_end l) :: r /\
              more = (next_start l <? l_end l)%Z.
Proof.
  intros s more s' H. unfold loop_next in H. destruct (loops s) as [| l r] eqn:E; [ discriminate | ].
  destruct (Nat.ltb _ _); [ | discriminate ]. injection H as <- <-.
  unfold add_rstep. cbn. destruct (rlog s); cbn; repeat split; exists l, r; repeat split.
Qed.

(* ---------- the relation ---------- *)
Definition lkeeps (fe : bool) (s s' : state) : Prop :=
  cx s' = cx s /\ map lkey (loops s') = map lkey (loops s) /\ (fe = false -> loops s' = loops s).

Lemma lkeeps_refl : forall fe s, lkeeps fe s s.
Proof. intros; repeat split. Qed.
Lemma lkeeps_trans : forall fe a b c, lkeeps fe a b -> lkeeps fe b c -> lkeeps fe a c.
Proof.
  intros fe a b c (H1 & H2 & H3) (G1 & G2 & G3). repeat split; try congruence.
  intro E. rewrite G3, H3; auto.
Qed.
Lemma keeps_lkeeps : forall fe fe' s s', keeps fe s s' -> (fe = true -> fe' = true) -> lkeeps fe' s s'.
Proof.
  intros fe fe' s s' (H1 & H2 & H3 & H4) Hfe. repeat split; auto.
  intro E. apply H4. destruct fe; [ rewrite Hfe in E; [ discriminate | reflexivity ] | reflexivity ].
Qed.
Lemma lkeeps_of_eq : forall fe s s', cx s' = cx s -> loops s' = loops s -> lkeeps fe s s'.
Proof. intros fe s s' H1 H2. repeat split; auto. rewrite H2. reflexivity. Qed.

(* the words a statement may use when the loop stack is to be kept literally *)
Definition okfe (fe : bool) (x : stmt) : bool :=
  match x with
  | SPrim w _ => fe || negb (may_set_items w)
  | _ => true
  end.

(* the program does not use "%foreach-next" *)
Definition nfe_stmt : stmt -> bool := all_stmt (okfe false).
Definition nfe_block : list stmt -> bool := all_block (okfe false).
Definition funs_all (P : stmt -> bool) (funs : list (nat * list stmt)) : Prop :=
  forall g body, fun_body funs g = Some body -> all_block P body = true.
Definition nfe_funs : list (nat * list stmt) -> Prop := funs_all (okfe false).

Lemma okfe_true_all : (forall x, all_stmt (okfe true) x = true) /\ (forall l, all_block (okfe true) l = true).
Proof. apply all_stmt_true. intros []; reflexivity. Qed.

(* ---------- the trips of a counted loop pop exactly the loop's own record ---------- *)
Lemma map_lkey_cons_inv : forall (ls : list loopr) l r0,
  map lkey ls = map lkey (l :: r0) -> exists l' r', ls = l' :: r' /\ lkey l' = lkey l /\ map lkey r' = map lkey r0.
Proof.
  intros ls l r0 H. destruct ls as [| l' r']; [ discriminate | ].
  cbn [map] in H. injection H as H1 H2 H3. exists l', r'. unfold lkey. rewrite H1, H2. auto.
Qed.

Lemma do_iter_loops : forall fe (body : state -> sres) pl,
  (forall s s', fin (body s) = Some s' -> lkeeps fe s s') ->
  forall k s s' l r0, loops s = l :: r0 -> fin (do_iter body pl k s) = Some s' ->
  cx s' = cx s /\ map lkey (loops s') = map lkey r0 /\ (fe = false -> loops s' = r0).
Proof.
  intros fe body pl Hbody. induction k as [| k IH]; intros s s' l r0 El H; [ discriminate | ].
  rewrite do_iter_S in H.
  assert (Hstep : forall s3, fin (body s) = Some s3 ->
            cx s3 = cx s /\ exists l3 r3, loops s3 = l3 :: r3 /\ map lkey r3 = map lkey r0 /\ (fe = false -> r3 = r0)).
  { intros s3 F. apply Hbody in F as (C & M & X). split; [ exact C | ].
    rewrite El in M. apply map_lkey_cons_inv in M as (l3 & r3 & E3 & _ & M3).
    exists l3, r3. repeat split; auto. intro Efe. specialize (X Efe). rewrite El, E3 in X. congruence. }
  apply fin_on_res in H as [(s3 & E & H) | (s3 & E & H)].
  - destruct (Hstep s3 (fin_done _ _ E)) as (C3 & l3 & r3 & E3 & M3 & X3).
    apply fin_run_m in H as (more & s4 & E4 & H).
    apply loop_next_ok in E4 as (C4 & _ & l4 & r4 & E4a & E4b & _).
    rewrite E3 in E4a. injection E4a as <- <-.
    destruct more.
    + destruct (IH s4 s' _ _ E4b H) as (C & M & X).
      repeat split; [ congruence | congruence | ].
      intro Efe. rewrite X; auto.
    + apply fin_run_m in H as (l5 & s5 & E5 & H). injection H as <-.
      apply pop_loop_ok in E5 as (E5 & C5 & _). rewrite E4b in E5. injection E5 as _ <-.
      repeat split; [ congruence | assumption | assumption ].
  - destruct (Hstep s3 (fin_broke _ _ E)) as (C3 & l3 & r3 & E3 & M3 & X3).
    apply fin_run_m in H as (l5 & s5 & E5 & H). injection H as <-.
    apply pop_loop_ok in E5 as (E5 & C5 & _). rewrite E3 in E5. injection E5 as _ <-.
    repeat split; [ congruence | assumption | assumption ].
Qed.

(* ---------- the hygiene theorem ---------- *)
Section Hygiene.
  Variable fo : fops.
  Variable funs : list (nat * list stmt).
  Variable fe : bool.
  Hypothesis Hfuns : funs_all (okfe fe) funs.
  Notation sblock := (sblock fo funs).
  Notation sstmt := (sstmt fo funs).

  Lemma hyg_prim : forall w p m s s',
    okfe fe (SPrim w p) = true -> native_fn fo w = Some m -> m s = ROk tt s' -> lkeeps fe s s'.
  Proof.
    intros w p m s s' Hok En E. cbn [okfe] in Hok.
    pose proof (native_keeps fo w m s En) as K. rewrite E in K. cbn [rkeeps] in K.
    eapply keeps_lkeeps; [ exact K | ].
    intro Em. rewrite Em in Hok. cbn in Hok. rewrite orb_false_r in Hok. exact Hok.
  Qed.

  Lemma hyg_locset : forall i p v s s',
    okfe fe (SLocSet i p) = true -> init_local i v s = ROk tt s' -> lkeeps fe s s'.
  Proof.
    intros i p v s s' _ E. apply init_local_ok in E as (L & C & _). apply lkeeps_of_eq; assumption.
  Qed.

  Lemma hyg_call : forall f g p s s',
    okfe fe (SCall g p) = true ->
    (forall b s s', all_block (okfe fe) b = true -> fin (sblock f b s) = Some s' -> lkeeps fe s s') ->
    fin (sstmt (S f) (SCall g p) s) = Some s' -> lkeeps fe s s'.
  Proof.
    intros f g p s s' _ IH H. rewrite sstmt_SCall in H.
    destruct (fun_body funs g) as [body |] eqn:Eb; [ | discriminate ].
    apply fin_run_m in H as ([] & s1 & E1 & H). apply push_return_ok in E1 as (L1 & C1 & _).
    eapply lkeeps_trans; [ apply lkeeps_of_eq; eassumption | ].
    apply fin_on_res in H as [(s2 & E & H) | (s2 & E & H)].
    - apply fin_run_m in H as (fr & s3 & E3 & H). injection H as <-.
      apply pop_return_ok in E3 as (L3 & C3 & _).
      eapply lkeeps_trans; [ eapply IH; [ exact (Hfuns g body Eb) | rewrite E; reflexivity ] | ].
      apply lkeeps_of_eq; assumption.
    - cbn in H. injection H as <-. eapply IH; [ exact (Hfuns g body Eb) | rewrite E; reflexivity ].
  Qed.

  Lemma hyg_do : forall (body : state -> sres) pl l k s1 s2 s',
    (forall s s', fin (body s) = Some s' -> lkeeps fe s s') ->
    push_loop l s1 = ROk tt s2 -> fin (do_iter body pl k s2) = Some s' -> lkeeps fe s1 s'.
  Proof.
    intros body pl l k s1 s2 s' Hbody E2 H.
    apply push_loop_ok in E2 as (L2 & C2 & _).
    destruct (do_iter_loops fe body pl Hbody k s2 s' _ _ L2 H) as (C & M & X).
    repeat split; [ congruence | assumption | assumption ].
  Qed.

  Theorem loops_hygiene_block : forall f b s s',
    all_block (okfe fe) b = true -> fin (sblock f b s) = Some s' -> lkeeps fe s s'.
  Proof.
    apply gen_block.
    - apply lkeeps_refl.
    - apply lkeeps_trans.
    - intros s s' K. eapply keeps_lkeeps; [ exact K | discriminate ].
    - exact hyg_prim.
    - exact hyg_locset.
    - exact hyg_call.
    - exact hyg_do.
  Qed.

  Theorem loops_hygiene_stmt : forall f x s s',
    all_stmt (okfe fe) x = true -> fin (sstmt f x s) = Some s' -> lkeeps fe s s'.
  Proof.
    apply gen_stmt.
    - apply lkeeps_refl.
    - apply lkeeps_trans.
    - intros s s' K. eapply keeps_lkeeps; [ exact K | discriminate ].
    - exact hyg_prim.
    - exact hyg_locset.
    - exact hyg_call.
    - exact hyg_do.
  Qed.
End Hygiene.

(* ---------- the statements ---------- *)
(* index and limit of every loop record, and the context marks, for EVERY program *)
Theorem loop_keys_block : forall fo funs f b s s',
  sblock fo funs f b s = SDone s' \/ sblock fo funs f b s = SBroke s' ->
  cx s' = cx s /\ map lkey (loops s') = map lkey (loops s).
Proof.
  intros fo funs f b s s' H.
  assert (F : fin (sblock fo funs f b s) = Some s') by (destruct H as [H | H]; rewrite H; reflexivity).
  eapply (loops_hygiene_block fo funs true) in F.
  - destruct F as (C & M & _). split; assumption.
  - intros g body _. apply okfe_true_all.
  - apply okfe_true_all.
Qed.

Theorem loop_keys_stmt : forall fo funs f x s s',
  sstmt fo funs f x s = SDone s' \/ sstmt fo funs f x s = SBroke s' ->
  cx s' = cx s /\ map lkey (loops s') = map lkey (loops s).
Proof.
  intros fo funs f x s s' H.
  assert (F : fin (sstmt fo funs f x s) = Some s') by (destruct H as [H | H]; rewrite H; reflexivity).
  eapply (loops_hygiene_stmt fo funs true) in F.
  - destruct F as (C & M & _). split; assumption.
  - intros g body _. apply okfe_true_all.
  - apply okfe_true_all.
Qed.

(* the loop stack itself, for programs that do not use "%foreach-next" *)
Theorem loops_block : forall fo funs f b s s',
  nfe_funs funs -> nfe_block b = true ->
  sblock fo funs f b s = SDone s' \/ sblock fo funs f b s = SBroke s' ->
  loops s' = loops s.
Proof.
  intros fo funs f b s s' Hf Hb H.
  assert (F : fin (sblock fo funs f b s) = Some s') by (destruct H as [H | H]; rewrite H; reflexivity).
  eapply (loops_hygiene_block fo funs false Hf) in F; [ | exact Hb ].
  destruct F as (_ & _ & X). apply X. reflexivity.
Qed.

Theorem loops_stmt : forall fo funs f x s s',
  nfe_funs funs -> nfe_stmt x = true ->
  sstmt fo funs f x s = SDone s' \/ sstmt fo funs f x s = SBroke s' ->
  loops s' = loops s.
Proof.
  intros fo funs f x s s' Hf Hx H.
  assert (F : fin (sstmt fo funs f x s) = Some s') by (destruct H as [H | H]; rewrite H; reflexivity).
  eapply (loops_hygiene_stmt fo funs false Hf) in F; [ | exact Hx ].
  destruct F as (_ & _ & X). apply X. reflexivity.
Qed.

(* ---------- what I / J / K see ---------- *)
Lemma active_loops_keys : forall s s',
  cx s' = cx s -> map lkey (loops s') = map lkey (loops s) ->
  map lkey (active_loops s') = map lkey (active_loops s).
Proof.
  intros s s' C M. unfold active_loops. rewrite <- !firstn_map, M, C.
  assert (L : length (loops s') = length (loops s)).
  { rewrite <- (map_length lkey (loops s')), M. apply map_length. }
  rewrite L. reflexivity.
Qed.

(* a terminated counted loop leaves no loop index visible to later code: the loops that are
   active after it are the loops that were active before it *)
Theorem do_leaves_no_index : forall fo funs f p b pl s s',
  sstmt fo funs f (SDo p b pl) s = SDone s' ->
  map lkey (active_loops s') = map lkey (active_loops s).
Proof.
  intros fo funs f p b pl s s' H.
  destruct (loop_keys_stmt fo funs f (SDo p b pl) s s' (or_introl H)) as [C M].
  apply active_loops_keys; assumption.
Qed.

Theorem do_leaves_no_index_exact : forall fo funs f p b pl s s',
  nfe_funs funs -> nfe_block b = true ->
  sstmt fo funs f (SDo p b pl) s = SDone s' ->
  active_loops s' = active_loops s.
Proof.
  intros fo funs f p b pl s s' Hf Hb H.
  assert (Hx : nfe_stmt (SDo p b pl) = true).
  { unfold nfe_stmt. rewrite all_stmt_SDo. exact Hb. }
  pose proof (loops_stmt fo funs f _ s s' Hf Hx (or_introl H)) as L.
  destruct (loop_keys_stmt fo funs f _ s s' (or_introl H)) as [C _].
  unfold active_loops. rewrite L, C. reflexivity.
Qed.

(* the words I / J / K *)
Local Open Scope string_scope.
Lemma native_I : forall fo, native_fn fo "I" = Some (w_counter 0).
Proof. reflexivity. Qed.
Lemma native_J : forall fo, native_fn fo "J" = Some (w_counter 1).
Proof. reflexivity. Qed.
Lemma native_K : forall fo, native_fn fo "K" = Some (w_counter 2).
Proof. reflexivity. Qed.

Lemma w_counter_no_loop : forall n s,
  nth_error (map lkey (active_loops s)) n = None -> w_counter n s = RErr ELoopUnderflow None s.
Proof.
  intros n s H. unfold w_counter, bind, get.
  rewrite nth_error_map in H. destruct (nth_error (active_loops s) n); [ discriminate | reflexivity ].
Qed.

(* after a counted loop that was entered with no (or fewer than n+1) active loops, the n-th
   index word still finds no loop *)
Theorem index_word_after_do : forall fo funs f p b pl s s' n,
  sstmt fo funs f (SDo p b pl) s = SDone s' ->
  nth_error (active_loops s) n = None ->
  w_counter n s' = RErr ELoopUnderflow None s'.
Proof.
  intros fo funs f p b pl s s' n H N. apply w_counter_no_loop.
  rewrite (do_leaves_no_index fo funs f p b pl s s' H).
  rewrite nth_error_map, N. reflexivity.
Qed.
