(* Numeric tokens: Lex::next on every text that starts like a number (optional sign, a digit),
   integer literals in every radix with separators, real-literal shapes, malformed numbers. *)
From Xeh Require Import Model.Prelude Model.Bits Model.Cell Model.Lexer Model.Fmt.
From Xeh Require Import Proofs.LexLoc Proofs.LexBasic Proofs.LexNext Proofs.LexNum Proofs.LexAll Proofs.LexPrintInt
  Proofs.LexStr.
From Coq Require Import ZifyBool ZifyNat ZifyN.
Local Open Scope string_scope.

(* ---------- the scan to the next whitespace ---------- *)

(* what the numeric scan keeps: everything but the separators *)
Fixpoint strip_us (s : string) : string :=
  match s with
  | "" => ""
  | String c r => if (byte_of c =? 95)%N then strip_us r else String c (strip_us r)
  end.

Fixpoint has_dot (s : string) : bool :=
  match s with
  | "" => false
  | String c r => (byte_of c =? 46)%N || has_dot r
  end.

Lemma scan_word_stop rest n numeric tmp dot : next_is_ws_or_end rest = true ->
  scan_word rest n numeric tmp dot = (rest, n, tmp, dot).
Proof. destruct rest as [|c r]; cbn [next_is_ws_or_end scan_word]; [reflexivity|]. intros ->. reflexivity. Qed.

Lemma scan_word_numeric : forall body rest n tmp dot, no_ws body = true -> next_is_ws_or_end rest = true ->
  scan_word (body ++ rest) n true tmp dot =
  (rest, n + String.length body, tmp ++ strip_us body, dot || has_dot body).
Proof.
  induction body as [|c body IH]; intros rest n tmp dot Hb Hr.
  - cbn [append String.length strip_us has_dot]. rewrite scan_word_stop by exact Hr.
    rewrite Nat.add_0_r, app_nil_r_s, orb_false_r. reflexivity.
  - cbn [no_ws] in Hb. apply andb_prop in Hb. destruct Hb as [Hc Hb].
    cbn [append scan_word String.length strip_us has_dot].
    destruct (is_ws c); [discriminate|]. cbv zeta. cbn [andb].
    rewrite IH by assumption. rewrite <- orb_assoc.
    replace (S n + String.length body) with (n + S (String.length body)) by lia.
    destruct (byte_of c =? 95)%N; cbn [negb]; [reflexivity|].
    rewrite app_assoc_s. reflexivity.
Qed.

Lemma scan_word_plain : forall body rest n tmp dot, no_ws body = true -> next_is_ws_or_end rest = true ->
  scan_word (body ++ rest) n false tmp dot = (rest, n + String.length body, tmp, dot).
Proof.
  induction body as [|c body IH]; intros rest n tmp dot Hb Hr.
  - cbn [append String.length]. rewrite scan_word_stop by exact Hr. rewrite Nat.add_0_r. reflexivity.
  - cbn [no_ws] in Hb. apply andb_prop in Hb. destruct Hb as [Hc Hb].
    cbn [append scan_word String.length].
    destruct (is_ws c); [discriminate|]. cbv zeta. cbn [andb]. rewrite orb_false_r.
    rewrite IH by assumption.
    replace (S n + String.length body) with (n + S (String.length body)) by lia. reflexivity.
Qed.

(* ---------- the numeric branch of Lex::next ---------- *)

Inductive sgn := SNone | SMinus | SPlus.
Definition sgn_text (sg : sgn) : string := match sg with SNone => "" | SMinus => "-" | SPlus => "+" end.
Definition sgn_apply (sg : sgn) (z : Z) : Z := match sg with SMinus => (- z)%Z | _ => z end.

(* the token of a numeric text, from what the scan produced *)
Definition numeric_tok (start p4 : nat) (c0 : ascii) (radix : option N) (tmp : string) (dot : bool) : tok :=
  if dot then
    match radix with Some _ => TErr PFloat start p4 | None => TReal tmp end
  else
    match int_from_str_radix tmp
            (match radix with Some x => x | None => if (byte_of c0 =? 48)%N then 16%N else 10%N end) with
    | Some v => TLit (CInt v)
    | None => TErr PInt start p4
    end.

Lemma word_finish_numeric l c0 radix tmp1 body rest p3 :
  no_ws body = true -> next_is_ws_or_end rest = true ->
  word_finish l (Some c0) radix tmp1 (body ++ rest) p3 =
  (numeric_tok (lpos l) (p3 + String.length body) c0 radix (tmp1 ++ strip_us body) (has_dot body),
   mklex rest (p3 + String.length body) (lpos l) (llen l)).
Proof.
  intros Hb Hr. unfold word_finish, numeric_tok. cbv zeta. cbn [numeric_of is0_of].
  rewrite scan_word_numeric by assumption. cbn [negb orb Nat.add].
  destruct (has_dot body).
  - destruct radix; reflexivity.
  - destruct (int_from_str_radix _ _); reflexivity.
Qed.

(* any text that starts with an optional sign and a decimal digit enters the numeric branch *)
Lemma lex_next_numeric l sg c0 r :
  is_digit c0 = true -> lrest l = sgn_text sg ++ String c0 r ->
  lex_next l =
  let '(radix, tmp1, r3, p3) :=
      num_stage2 (byte_of c0 =? 48)%N (sgn_text sg ++ String c0 "") r
                 (lpos l + String.length (sgn_text sg) + 1) in
  word_finish l (Some c0) radix tmp1 r3 p3.
Proof.
  intros Hc Hl.
  destruct (digit_facts c0 Hc) as (F1 & F2 & F3 & F4 & F5 & F6 & F7 & F8 & F9).
  rewrite lex_next_unfold. cbv zeta. rewrite Hl.
  destruct sg; cbn [sgn_text append skip_ws String.length].
  - rewrite F1. cbn [Nat.ltb Nat.leb]. rewrite F4, (starts_ldq_false c0 r F5), F6.
    unfold lex_word. cbv zeta. rewrite Hl. cbn [sgn_text append]. rewrite F9. cbn [str_drop].
    unfold num_stage1. rewrite Hc. cbn [is0_of].
    replace (lpos l + 0 + 1) with (lpos l + 1) by lia. reflexivity.
  - change (is_ws "-") with false. cbn [Nat.ltb Nat.leb].
    change (byte_of "-" =? 34)%N with false.
    rewrite (starts_ldq_false "-" (String c0 r) eq_refl).
    change (byte_of "-" =? 124)%N with false.
    unfold lex_word. cbv zeta. rewrite Hl. cbn [sgn_text append]. change (utf8_width "-") with 1. cbn [str_drop].
    unfold num_stage1. change (is_digit "-") with false.
    change ((byte_of "-" =? 45)%N || (byte_of "-" =? 43)%N) with true. cbv iota. rewrite Hc.
    cbn [is0_of]. replace (S (lpos l + 1)) with (lpos l + 1 + 1) by lia. reflexivity.
  - change (is_ws "+") with false. cbn [Nat.ltb Nat.leb].
    change (byte_of "+" =? 34)%N with false.
    rewrite (starts_ldq_false "+" (String c0 r) eq_refl).
    change (byte_of "+" =? 124)%N with false.
    unfold lex_word. cbv zeta. rewrite Hl. cbn [sgn_text append]. change (utf8_width "+") with 1. cbn [str_drop].
    unfold num_stage1. change (is_digit "+") with false.
    change ((byte_of "+" =? 45)%N || (byte_of "+" =? 43)%N) with true. cbv iota. rewrite Hc.
    cbn [is0_of]. replace (S (lpos l + 1)) with (lpos l + 1 + 1) by lia. reflexivity.
Qed.

(* the three radix markers: 0x, 0b, 0o *)
Inductive rmark := RHex | RBin | ROct.
Definition rmark_text (m : rmark) : string := match m with RHex => "x" | RBin => "b" | ROct => "o" end.
Definition rmark_radix (m : rmark) : N := match m with RHex => 16%N | RBin => 2%N | ROct => 8%N end.

(* the radix marker after a leading zero *)
Definition radix_mark (s : string) : option N :=
  match s with
  | String c _ => if (byte_of c =? 98)%N then Some 2%N else if (byte_of c =? 120)%N then Some 16%N
                  else if (byte_of c =? 111)%N then Some 8%N else None
  | "" => None
  end.

Lemma str_pop_sgn0 sg : str_pop (sgn_text sg ++ "0") = sgn_text sg.
Proof. destruct sg; reflexivity. Qed.

(* a numeric text without radix marker: first digit not 0, or a 0 not followed by b / x *)
Lemma lex_next_numeric_plain l sg c0 body rest :
  is_digit c0 = true -> lrest l = sgn_text sg ++ String c0 (body ++ rest) ->
  no_ws body = true -> next_is_ws_or_end rest = true ->
  ((byte_of c0 =? 48)%N = true -> radix_mark (body ++ rest) = None) ->
  let p4 := lpos l + String.length (sgn_text sg) + 1 + String.length body in
  lex_next l =
  (numeric_tok (lpos l) p4 c0 None (sgn_text sg ++ String c0 (strip_us body)) (has_dot body),
   mklex rest p4 (lpos l) (llen l)).
Proof.
  intros Hc Hl Hb Hr Hm p4. rewrite (lex_next_numeric l sg c0 (body ++ rest) Hc Hl).
  assert (E : num_stage2 (byte_of c0 =? 48)%N (sgn_text sg ++ String c0 "") (body ++ rest)
                         (lpos l + String.length (sgn_text sg) + 1) =
              (None, sgn_text sg ++ String c0 "", body ++ rest, lpos l + String.length (sgn_text sg) + 1)).
  { unfold num_stage2. destruct (byte_of c0 =? 48)%N; [|reflexivity].
    specialize (Hm eq_refl). unfold radix_mark in Hm. destruct (body ++ rest) as [|c3 r3]; [reflexivity|].
    destruct (byte_of c3 =? 98)%N; [discriminate|]. destruct (byte_of c3 =? 120)%N; [discriminate|].
    destruct (byte_of c3 =? 111)%N; [discriminate|]. reflexivity. }
  rewrite E. rewrite word_finish_numeric by assumption.
  rewrite app_assoc_s. cbn [append]. reflexivity.
Qed.

(* a numeric text with radix marker 0x / 0b / 0o *)
Lemma lex_next_numeric_marked l sg (m : rmark) body rest :
  lrest l = sgn_text sg ++ "0" ++ rmark_text m ++ body ++ rest ->
  no_ws body = true -> next_is_ws_or_end rest = true ->
  let p4 := lpos l + String.length (sgn_text sg) + 2 + String.length body in
  lex_next l =
  (numeric_tok (lpos l) p4 "0" (Some (rmark_radix m)) (sgn_text sg ++ strip_us body) (has_dot body),
   mklex rest p4 (lpos l) (llen l)).
Proof.
  intros Hl Hb Hr p4.
  assert (Hl' : lrest l = sgn_text sg ++ String "0" (rmark_text m ++ body ++ rest)) by exact Hl.
  rewrite (lex_next_numeric l sg "0" _ eq_refl Hl').
  assert (E : num_stage2 (byte_of "0" =? 48)%N (sgn_text sg ++ "0")
                         (rmark_text m ++ body ++ rest)
                         (lpos l + String.length (sgn_text sg) + 1) =
              (Some (rmark_radix m), sgn_text sg, body ++ rest,
               S (lpos l + String.length (sgn_text sg) + 1))).
  { unfold num_stage2. change (byte_of "0" =? 48)%N with true. cbv iota. rewrite str_pop_sgn0.
    destruct m; reflexivity. }
  rewrite E. rewrite word_finish_numeric by assumption. subst p4.
  replace (S (lpos l + String.length (sgn_text sg) + 1) + String.length body)
    with (lpos l + String.length (sgn_text sg) + 2 + String.length body) by lia.
  reflexivity.
Qed.

(* ---------- written digits with separators ---------- *)

Inductive nitem := NDig (up : bool) (d : N) | NSep.

Definition nitem_char (i : nitem) : ascii :=
  match i with NDig up d => digit_char up d | NSep => "_"%char end.

Fixpoint nitems_text (l : list nitem) : string :=
  match l with [] => "" | i :: r => String (nitem_char i) (nitems_text r) end.

Fixpoint nitems_digits (l : list nitem) : list N :=
  match l with [] => [] | NDig _ d :: r => d :: nitems_digits r | NSep :: r => nitems_digits r end.

Fixpoint nitems_clean (l : list nitem) : string :=
  match l with
  | [] => ""
  | NDig up d :: r => String (digit_char up d) (nitems_clean r)
  | NSep :: r => nitems_clean r
  end.

Definition nitem_ok (radix : N) (i : nitem) : bool :=
  match i with NDig _ d => (d <? radix)%N | NSep => true end.

Definition dchar_ok (up : bool) (k : nat) : bool :=
  let c := digit_char up (N.of_nat k) in
  negb (is_ws c) && negb (byte_of c =? 46)%N && negb (byte_of c =? 95)%N &&
  negb (byte_of c =? 45)%N && negb (byte_of c =? 43)%N &&
  match digit_val c with Some v => (v =? N.of_nat k)%N | None => false end.

Lemma dchar_all : forallb (fun k => dchar_ok true k && dchar_ok false k) (seq 0 36) = true.
Proof. vm_compute. reflexivity. Qed.

Lemma dchar_facts up d : (d < 36)%N ->
  let c := digit_char up d in
  is_ws c = false /\ (byte_of c =? 46)%N = false /\ (byte_of c =? 95)%N = false /\
  c <> "-"%char /\ c <> "+"%char /\ digit_val c = Some d.
Proof.
  intros H c. pose proof dchar_all as A. rewrite forallb_forall in A.
  specialize (A (N.to_nat d)). rewrite in_seq in A. specialize (A ltac:(lia)).
  apply andb_prop in A. destruct A as [A1 A2].
  assert (A : dchar_ok up (N.to_nat d) = true) by (destruct up; assumption).
  unfold dchar_ok in A. rewrite N2Nat.id in A. fold c in A. cbv zeta in A.
  repeat (apply andb_prop in A; destruct A as [A ?]).
  destruct (digit_val c) as [v|] eqn:Ev; [|discriminate].
  repeat split; try (apply negb_true_iff; assumption).
  - intros E. rewrite E in *. discriminate.
  - intros E. rewrite E in *. discriminate.
  - f_equal. lia.
Qed.

Lemma nitems_no_ws radix items : (radix <= 36)%N -> forallb (nitem_ok radix) items = true ->
  no_ws (nitems_text items) = true /\ has_dot (nitems_text items) = false /\
  strip_us (nitems_text items) = nitems_clean items.
Proof.
  intros Hr. induction items as [|i items IH]; intros H; [repeat split|].
  cbn [forallb] in H. apply andb_prop in H. destruct H as [Hi H]. destruct (IH H) as (I1 & I2 & I3).
  cbn [nitems_text no_ws has_dot strip_us nitems_clean]. rewrite I1, I2, I3.
  destruct i as [up d|]; cbn [nitem_char nitem_ok] in *.
  - destruct (dchar_facts up d ltac:(lia)) as (D1 & D2 & D3 & _). cbv zeta in D1, D2, D3.
    rewrite D1, D2, D3. repeat split.
  - repeat split.
Qed.

Lemma digits_val_clean radix : (radix <= 36)%N -> forall items acc,
  forallb (nitem_ok radix) items = true ->
  digits_val radix (nitems_clean items) acc = Some (digits_value (Z.of_N radix) (nitems_digits items) acc).
Proof.
  intros Hr. induction items as [|i items IH]; intros acc H; [reflexivity|].
  cbn [forallb] in H. apply andb_prop in H. destruct H as [Hi H].
  destruct i as [up d|]; cbn [nitems_clean nitems_digits nitem_ok digits_val digits_value] in *.
  - destruct (dchar_facts up d ltac:(lia)) as (_ & _ & _ & _ & _ & D). cbv zeta in D. rewrite D, Hi.
    apply IH. exact H.
  - apply IH. exact H.
Qed.

Lemma clean_head radix items : (radix <= 36)%N -> forallb (nitem_ok radix) items = true ->
  match nitems_clean items with
  | "" => nitems_digits items = []
  | String c _ => c <> "-"%char /\ c <> "+"%char /\ nitems_digits items <> []
  end.
Proof.
  intros Hr. induction items as [|i items IH]; intros H; [reflexivity|].
  cbn [forallb] in H. apply andb_prop in H. destruct H as [Hi H].
  destruct i as [up d|]; cbn [nitems_clean nitems_digits nitem_ok] in *.
  - destruct (dchar_facts up d ltac:(lia)) as (_ & _ & _ & D1 & D2 & _). cbv zeta in D1, D2.
    repeat split; try assumption. discriminate.
  - apply IH. exact H.
Qed.

(* conversion of a cleaned literal with its sign *)
Lemma int_from_str_sgn sg radix items : (radix <= 36)%N -> forallb (nitem_ok radix) items = true ->
  int_from_str_radix (sgn_text sg ++ nitems_clean items) radix =
  match nitems_digits items with
  | [] => None
  | _ => let v := sgn_apply sg (digits_value (Z.of_N radix) (nitems_digits items) 0) in
         if in_i128 v then Some v else None
  end.
Proof.
  intros Hr H. pose proof (clean_head radix items Hr H) as Hh.
  pose proof (digits_val_clean radix Hr items 0%Z H) as Hv.
  rewrite int_from_str_radix_unfold.
  destruct (nitems_clean items) as [|c body] eqn:Ec.
  - rewrite Hh. destruct sg; reflexivity.
  - destruct Hh as (N1 & N2 & N3).
    destruct (nitems_digits items) as [|d0 ds] eqn:Ed; [congruence|].
    destruct sg; cbn [sgn_text append sgn_apply].
    + rewrite sign_split_other by assumption. rewrite Hv. reflexivity.
    + cbn [sign_split]. rewrite Hv. reflexivity.
    + cbn [sign_split]. rewrite Hv. reflexivity.
Qed.

(* the token an integer literal denotes *)
Definition int_tok (sg : sgn) (radix : N) (items : list nitem) (a b : nat) : tok :=
  match nitems_digits items with
  | [] => TErr PInt a b
  | _ => let v := sgn_apply sg (digits_value (Z.of_N radix) (nitems_digits items) 0) in
         if in_i128 v then TLit (CInt v) else TErr PInt a b
  end.

Lemma numeric_tok_int start p4 c0 radix rdx sg items :
  (rdx <= 36)%N -> forallb (nitem_ok rdx) items = true ->
  rdx = match radix with Some x => x | None => if (byte_of c0 =? 48)%N then 16%N else 10%N end ->
  numeric_tok start p4 c0 radix (sgn_text sg ++ nitems_clean items) false = int_tok sg rdx items start p4.
Proof.
  intros Hr H E. unfold numeric_tok, int_tok. rewrite <- E. rewrite int_from_str_sgn by assumption.
  destruct (nitems_digits items); [reflexivity|]. cbv zeta.
  destruct (in_i128 _); reflexivity.
Qed.

Lemma nitems_text_length items : String.length (nitems_text items) = List.length items.
Proof. induction items as [|i items IH]; [reflexivity|]. cbn [nitems_text String.length List.length]. rewrite IH. reflexivity. Qed.

(* [sign] 0x / 0b / 0o digits-and-separators *)
Lemma lex_next_int_marked l sg (m : rmark) items rest :
  let radix := rmark_radix m in
  forallb (nitem_ok radix) items = true -> next_is_ws_or_end rest = true ->
  lrest l = sgn_text sg ++ "0" ++ rmark_text m ++ nitems_text items ++ rest ->
  let p4 := lpos l + String.length (sgn_text sg) + 2 + List.length items in
  lex_next l = (int_tok sg radix items (lpos l) p4, mklex rest p4 (lpos l) (llen l)).
Proof.
  intros radix Hok Hr Hl p4.
  assert (R36 : (radix <= 36)%N) by (subst radix; destruct m; cbn [rmark_radix]; lia).
  destruct (nitems_no_ws radix items R36 Hok) as (I1 & I2 & I3).
  rewrite (lex_next_numeric_marked l sg m (nitems_text items) rest Hl I1 Hr). cbv zeta.
  rewrite I2, I3, nitems_text_length.
  rewrite (numeric_tok_int (lpos l) _ "0" (Some radix) radix sg items R36 Hok eq_refl). reflexivity.
Qed.

(* [sign] digits-and-separators starting with a non-zero digit: decimal *)
Lemma lex_next_int_decimal l sg up d0 items rest :
  (1 <= d0 <= 9)%N -> forallb (nitem_ok 10) items = true -> next_is_ws_or_end rest = true ->
  lrest l = sgn_text sg ++ nitems_text (NDig up d0 :: items) ++ rest ->
  let p4 := lpos l + String.length (sgn_text sg) + 1 + List.length items in
  lex_next l = (int_tok sg 10 (NDig up d0 :: items) (lpos l) p4, mklex rest p4 (lpos l) (llen l)).
Proof.
  intros Hd Hok Hr Hl p4.
  destruct (nitems_no_ws 10 items ltac:(lia) Hok) as (I1 & I2 & I3).
  assert (Hc : is_digit (digit_char up d0) = true /\ (byte_of (digit_char up d0) =? 48)%N = false).
  { assert (C : (d0 = 1 \/ d0 = 2 \/ d0 = 3 \/ d0 = 4 \/ d0 = 5 \/ d0 = 6 \/ d0 = 7 \/ d0 = 8 \/ d0 = 9)%N) by lia.
    repeat (destruct C as [->|C]; [destruct up; vm_compute; auto|]). subst d0. destruct up; vm_compute; auto. }
  destruct Hc as [Hc H0]. cbn [nitems_text nitem_char append] in Hl.
  rewrite (lex_next_numeric_plain l sg (digit_char up d0) (nitems_text items) rest Hc Hl I1 Hr).
  2:{ rewrite H0. discriminate. }
  cbv zeta. rewrite I2, I3, nitems_text_length.
  change (String (digit_char up d0) (nitems_clean items)) with (nitems_clean (NDig up d0 :: items)).
  rewrite (numeric_tok_int (lpos l) _ (digit_char up d0) None 10%N sg (NDig up d0 :: items)).
  - reflexivity.
  - lia.
  - cbn [forallb nitem_ok]. rewrite Hok. replace (d0 <? 10)%N with true by lia. reflexivity.
  - rewrite H0. reflexivity.
Qed.

(* [sign] 0 followed by digits-and-separators other than the markers b / x: HEXADECIMAL *)
Lemma lex_next_int_leading_zero l sg items rest :
  forallb (nitem_ok 16) items = true -> next_is_ws_or_end rest = true ->
  radix_mark (nitems_text items ++ rest) = None ->
  lrest l = sgn_text sg ++ "0" ++ nitems_text items ++ rest ->
  let p4 := lpos l + String.length (sgn_text sg) + 1 + List.length items in
  lex_next l = (int_tok sg 16 (NDig false 0 :: items) (lpos l) p4, mklex rest p4 (lpos l) (llen l)).
Proof.
  intros Hok Hr Hm Hl p4.
  destruct (nitems_no_ws 16 items ltac:(lia) Hok) as (I1 & I2 & I3).
  assert (Hl' : lrest l = sgn_text sg ++ String "0" (nitems_text items ++ rest)) by exact Hl.
  rewrite (lex_next_numeric_plain l sg "0" (nitems_text items) rest eq_refl Hl' I1 Hr (fun _ => Hm)).
  cbv zeta. rewrite I2, I3, nitems_text_length.
  change (String "0" (nitems_clean items)) with (nitems_clean (NDig false 0 :: items)).
  rewrite (numeric_tok_int (lpos l) _ "0" None 16%N sg (NDig false 0 :: items)).
  - reflexivity.
  - lia.
  - cbn [forallb nitem_ok]. rewrite Hok. reflexivity.
  - reflexivity.
Qed.

Lemma digits_value_lead0 radix ds : digits_value radix (0%N :: ds) 0 = digits_value radix ds 0.
Proof. cbn [digits_value]. f_equal. Qed.

(* ---------- malformed numbers ---------- *)

Lemma digits_val_bad radix : forall a c b acc,
  match digit_val c with Some v => (v <? radix)%N | None => false end = false ->
  digits_val radix (a ++ String c b) acc = None.
Proof.
  induction a as [|x a IH]; intros c b acc H; cbn [append digits_val].
  - destruct (digit_val c) as [v|]; [rewrite H|]; reflexivity.
  - destruct (digit_val x) as [v|]; [|reflexivity]. destruct (v <? radix)%N; [|reflexivity]. apply IH. exact H.
Qed.

Lemma int_from_str_bad sg radix c0 a c b : c0 <> "-"%char -> c0 <> "+"%char ->
  match digit_val c with Some v => (v <? radix)%N | None => false end = false ->
  int_from_str_radix (sgn_text sg ++ String c0 (a ++ String c b)) radix = None.
Proof.
  intros N1 N2 H. rewrite int_from_str_radix_unfold.
  pose proof (digits_val_bad radix (String c0 a) c b 0%Z H) as E. cbn [append] in E.
  destruct sg; cbn [sgn_text append].
  - rewrite sign_split_other by assumption. rewrite E. reflexivity.
  - cbn [sign_split]. rewrite E. reflexivity.
  - cbn [sign_split]. rewrite E. reflexivity.
Qed.

Lemma strip_us_app a b : strip_us (a ++ b) = strip_us a ++ strip_us b.
Proof.
  induction a as [|c a IH]; [reflexivity|]. cbn [append strip_us].
  destruct (byte_of c =? 95)%N; [exact IH|]. cbn [append]. rewrite IH. reflexivity.
Qed.

(* a numeric text (no radix marker, no dot) that contains a character which is not a digit of
   its radix is a parse error - this is what happens to 1e5, 12abc, 09z *)
Lemma lex_next_int_bad_digit l sg c0 a c b rest :
  is_digit c0 = true -> lrest l = sgn_text sg ++ String c0 ((a ++ String c b) ++ rest) ->
  no_ws (a ++ String c b) = true -> has_dot (a ++ String c b) = false -> next_is_ws_or_end rest = true ->
  ((byte_of c0 =? 48)%N = true -> radix_mark ((a ++ String c b) ++ rest) = None) ->
  (byte_of c =? 95)%N = false ->
  match digit_val c with
  | Some v => (v <? (if (byte_of c0 =? 48)%N then 16 else 10))%N
  | None => false
  end = false ->
  let p4 := lpos l + String.length (sgn_text sg) + 1 + String.length (a ++ String c b) in
  lex_next l = (TErr PInt (lpos l) p4, mklex rest p4 (lpos l) (llen l)).
Proof.
  intros Hc Hl Hb Hd Hr Hm Hu Hbad p4.
  rewrite (lex_next_numeric_plain l sg c0 _ rest Hc Hl Hb Hr Hm). cbv zeta. rewrite Hd.
  unfold numeric_tok. rewrite strip_us_app. cbn [strip_us]. rewrite Hu.
  destruct (digit_not_sign c0 Hc) as [N1 N2].
  rewrite int_from_str_bad by assumption. reflexivity.
Qed.

(* ---------- real literals ---------- *)

(* a numeric text without radix marker that contains a dot is a real literal: the token carries
   exactly the text without its separators, which is what str::parse::<f64> is given *)
Lemma lex_next_real l sg c0 body rest :
  is_digit c0 = true -> lrest l = sgn_text sg ++ String c0 (body ++ rest) ->
  no_ws body = true -> has_dot body = true -> next_is_ws_or_end rest = true ->
  ((byte_of c0 =? 48)%N = true -> radix_mark (body ++ rest) = None) ->
  let p4 := lpos l + String.length (sgn_text sg) + 1 + String.length body in
  lex_next l = (TReal (sgn_text sg ++ String c0 (strip_us body)), mklex rest p4 (lpos l) (llen l)).
Proof.
  intros Hc Hl Hb Hd Hr Hm p4.
  rewrite (lex_next_numeric_plain l sg c0 body rest Hc Hl Hb Hr Hm). cbv zeta. rewrite Hd. reflexivity.
Qed.

(* with a radix marker a dot is an error *)
Lemma lex_next_real_marked l sg (m : rmark) body rest :
  lrest l = sgn_text sg ++ "0" ++ rmark_text m ++ body ++ rest ->
  no_ws body = true -> has_dot body = true -> next_is_ws_or_end rest = true ->
  let p4 := lpos l + String.length (sgn_text sg) + 2 + String.length body in
  lex_next l = (TErr PFloat (lpos l) p4, mklex rest p4 (lpos l) (llen l)).
Proof.
  intros Hl Hb Hd Hr p4.
  rewrite (lex_next_numeric_marked l sg m body rest Hl Hb Hr). cbv zeta. rewrite Hd. reflexivity.
Qed.
