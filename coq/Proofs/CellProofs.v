(* CellProofs.v: the order [cell_cmp] and the equality [cell_eqb] of Model/Cell.v.

   Layout.
   1. [cell_ind']: the induction principle of the nested inductive [cell].
   2. [strip] basics; [peel] (remove the outer tag wrappers only).
   3. Generic facts about the lexicographic [list_cmp] and about the comparisons of atoms.
   4. [scmp a b := cell_cmp (strip a) (strip b)] is a total preorder on ALL cells
      (reflexive, antisymmetric in the [CompOpp] sense, transitive).
   5. [tagwf]: no tag wrapper directly wraps a tag wrapper (at any depth outside tag maps).
      On such cells [cell_cmp] = [scmp] and [cell_eqb] = [seqb]: tags never influence order or
      equality.  Hence [cell_cmp] is a total preorder on [tagwf] cells.
   6. [NoNaN], [bits_ok], [maps_sorted]; on such cells [cell_cmp a b = Eq <-> cell_eqb a b = true].
   7. [cell_ok], the well-formedness predicate of the property statements. *)
From Xeh Require Import Model.Prelude Model.Bits Model.Cell Proofs.BitsProofs.
From Coq Require Import Sorting.Sorted ZifyBool ZifyNat ZifyN.
Local Notation length := List.length.

(* ------------------------------------------------------------------ *)
(* 1. induction principle                                              *)
(* ------------------------------------------------------------------ *)
Section CellInd.
  Variable P : cell -> Prop.
  Hypothesis Hnil : P CNil.
  Hypothesis Hflag : forall b, P (CFlag b).
  Hypothesis Hint : forall z, P (CInt z).
  Hypothesis Hreal : forall r, P (CReal r).
  Hypothesis Hstr : forall s, P (CStr s).
  Hypothesis Hvec : forall l, Forall P l -> P (CVec l).
  Hypothesis Hmap : forall m, Forall (fun kv => P (fst kv) /\ P (snd kv)) m -> P (CMap m).
  Hypothesis Hfun : forall f, P (CFun f).
  Hypothesis Hbits : forall b, P (CBits b).
  Hypothesis Hany : P CAny.
  Hypothesis Htag : forall t v, Forall (fun kv => P (fst kv) /\ P (snd kv)) t -> P v -> P (CTag t v).

  Fixpoint cell_ind' (c : cell) : P c :=
    match c with
    | CNil => Hnil
    | CFlag b => Hflag b
    | CInt z => Hint z
    | CReal r => Hreal r
    | CStr s => Hstr s
    | CVec l =>
      Hvec l ((fix go (l : list cell) : Forall P l :=
                 match l with
                 | [] => Forall_nil _
                 | x :: r => Forall_cons _ (cell_ind' x) (go r)
                 end) l)
    | CMap m =>
      Hmap m ((fix go (m : list (cell * cell)) : Forall (fun kv => P (fst kv) /\ P (snd kv)) m :=
                 match m with
                 | [] => Forall_nil _
                 | kv :: r => Forall_cons _ (conj (cell_ind' (fst kv)) (cell_ind' (snd kv))) (go r)
                 end) m)
    | CFun f => Hfun f
    | CBits b => Hbits b
    | CAny => Hany
    | CTag t v =>
      Htag t v ((fix go (m : list (cell * cell)) : Forall (fun kv => P (fst kv) /\ P (snd kv)) m :=
                   match m with
                   | [] => Forall_nil _
                   | kv :: r => Forall_cons _ (conj (cell_ind' (fst kv)) (cell_ind' (snd kv))) (go r)
                   end) t) (cell_ind' v)
    end.
End CellInd.

(* ------------------------------------------------------------------ *)
(* 2. strip, peel                                                      *)
(* ------------------------------------------------------------------ *)
Definition strip_pair (kv : cell * cell) : cell * cell := (strip (fst kv), strip (snd kv)).

Definition is_tag (c : cell) : bool := match c with CTag _ _ => true | _ => false end.

Fixpoint peel (c : cell) : cell := match c with CTag _ v => peel v | _ => c end.

Lemma strip_vec : forall l, strip (CVec l) = CVec (map strip l).
Proof. reflexivity. Qed.
Lemma strip_map : forall m, strip (CMap m) = CMap (map strip_pair m).
Proof. reflexivity. Qed.
Lemma strip_tag : forall t v, strip (CTag t v) = strip v.
Proof. reflexivity. Qed.

Lemma peel_notag : forall c, is_tag (peel c) = false.
Proof. induction c; cbn; auto. Qed.
Lemma strip_peel : forall c, strip (peel c) = strip c.
Proof. induction c; cbn; auto. Qed.

Lemma strip_notag : forall c, is_tag (strip c) = false.
Proof. induction c; cbn; auto. Qed.

Lemma value_notag : forall c, is_tag c = false -> value c = c.
Proof. destruct c; cbn; auto; discriminate. Qed.

Lemma value_strip : forall c, value (strip c) = strip c.
Proof. intro c. apply value_notag, strip_notag. Qed.

Lemma strip_idem : forall c, strip (strip c) = strip c.
Proof.
  induction c using cell_ind'; cbn [strip]; auto.
  - f_equal. rewrite map_map. apply map_ext_in. intros x Hx.
    rewrite Forall_forall in H. auto.
  - f_equal. rewrite map_map. apply map_ext_in. intros [k v] Hx.
    rewrite Forall_forall in H. destruct (H _ Hx) as [H1 H2]. cbn in *. congruence.
Qed.

Lemma strip_pair_idem : forall kv, strip_pair (strip_pair kv) = strip_pair kv.
Proof. intros [k v]. unfold strip_pair. cbn. rewrite !strip_idem. reflexivity. Qed.

(* ------------------------------------------------------------------ *)
(* 3. generic comparisons                                              *)
(* ------------------------------------------------------------------ *)
Lemma CompOpp_eq : forall c d, CompOpp c = CompOpp d -> c = d.
Proof. destruct c, d; cbn; congruence. Qed.

Section Lex.
  Context {A : Type} (cmp : A -> A -> comparison).

  Lemma list_cmp_antisym : forall a,
    Forall (fun x => forall y, cmp x y = CompOpp (cmp y x)) a ->
    forall b, list_cmp cmp a b = CompOpp (list_cmp cmp b a).
  Proof.
    induction 1 as [| x a Hx _ IH]; intros [| y b]; cbn; auto.
    rewrite Hx. destruct (cmp y x); cbn; auto.
  Qed.

  Lemma list_cmp_eq_cong : forall a,
    Forall (fun x => forall y, cmp x y = Eq -> forall z, cmp x z = cmp y z) a ->
    forall b, list_cmp cmp a b = Eq -> forall c, list_cmp cmp a c = list_cmp cmp b c.
  Proof.
    induction 1 as [| x a Hx _ IH]; intros [| y b] E [| z c]; cbn in *; auto; try discriminate.
    destruct (cmp x y) eqn:Exy; try discriminate.
    rewrite (Hx _ Exy z). destruct (cmp y z); auto.
  Qed.

  Lemma list_cmp_lt_trans :
    (forall x y, cmp x y = CompOpp (cmp y x)) ->
    (forall x y, cmp x y = Eq -> forall z, cmp x z = cmp y z) ->
    forall a,
    Forall (fun x => forall y z, cmp x y = Lt -> cmp y z = Lt -> cmp x z = Lt) a ->
    forall b c, list_cmp cmp a b = Lt -> list_cmp cmp b c = Lt -> list_cmp cmp a c = Lt.
  Proof.
    intros Hanti Hcong.
    induction 1 as [| x a Hx _ IH]; intros [| y b] [| z c] E1 E2; cbn in *; auto; try discriminate.
    destruct (cmp x y) eqn:Exy; try discriminate.
    - rewrite (Hcong _ _ Exy z). destruct (cmp y z); try discriminate; eauto.
    - destruct (cmp y z) eqn:Eyz; try discriminate.
      + assert (Ezy : cmp z y = Eq) by (rewrite Hanti, Eyz; reflexivity).
        assert (Exz : cmp x z = CompOpp (cmp z x)) by apply Hanti.
        rewrite (Hcong _ _ Ezy x) in Exz. rewrite (Hanti y x), Exy in Exz. cbn in Exz.
        rewrite Exz. reflexivity.
      + rewrite (Hx _ _ Exy Eyz). reflexivity.
  Qed.

  Lemma list_cmp_refl : forall a, Forall (fun x => cmp x x = Eq) a -> list_cmp cmp a a = Eq.
  Proof. induction 1; cbn; auto. rewrite H. assumption. Qed.
End Lex.

Lemma list_cmp_map : forall {A B} (f : A -> B) (cmp : B -> B -> comparison) a b,
  list_cmp cmp (map f a) (map f b) = list_cmp (fun x y => cmp (f x) (f y)) a b.
Proof.
  induction a; destruct b; cbn; auto. rewrite IHa. reflexivity.
Qed.

Lemma list_cmp_ext_in : forall {A} (c1 c2 : A -> A -> comparison) a b,
  (forall x y, In x a -> In y b -> c1 x y = c2 x y) ->
  list_cmp c1 a b = list_cmp c2 a b.
Proof.
  induction a; destruct b; cbn; auto. intros H.
  rewrite H by auto. rewrite IHa by auto. reflexivity.
Qed.

(* a total preorder packaged as three facts *)
Record preorder {A} (cmp : A -> A -> comparison) : Prop := {
  po_anti : forall x y, cmp x y = CompOpp (cmp y x);
  po_cong : forall x y, cmp x y = Eq -> forall z, cmp x z = cmp y z;
  po_trans : forall x y z, cmp x y = Lt -> cmp y z = Lt -> cmp x z = Lt }.

Lemma preorder_list : forall {A} (cmp : A -> A -> comparison), preorder cmp -> preorder (list_cmp cmp).
Proof.
  intros A cmp [H1 H2 H3]. split.
  - intros x y. apply list_cmp_antisym. apply Forall_forall. auto.
  - intros x y. apply list_cmp_eq_cong. apply Forall_forall. auto.
  - intros x y z. apply list_cmp_lt_trans; auto. apply Forall_forall. intros; eauto.
Qed.

Lemma Zcmp_preorder : preorder Z.compare.
Proof.
  split.
  - intros. apply Z.compare_antisym.
  - intros x y E z. apply Z.compare_eq in E. congruence.
  - intros x y z. rewrite !Z.compare_lt_iff. lia.
Qed.

Lemma Ncmp_preorder : preorder N.compare.
Proof.
  split.
  - intros. apply N.compare_antisym.
  - intros x y E z. apply N.compare_eq in E. congruence.
  - intros x y z. rewrite !N.compare_lt_iff. lia.
Qed.

Lemma natcmp_preorder : preorder Nat.compare.
Proof.
  split.
  - intros. apply Nat.compare_antisym.
  - intros x y E z. apply Nat.compare_eq in E. congruence.
  - intros x y z. rewrite !Nat.compare_lt_iff. lia.
Qed.

Lemma bool_cmp_preorder : preorder bool_cmp.
Proof. split; intros [] []; cbn; try discriminate; auto; intros []; cbn; auto; try discriminate; destruct z; auto. Qed.

Lemma preorder_on : forall {A B} (f : A -> B) cmp, preorder cmp -> preorder (fun x y => cmp (f x) (f y)).
Proof. intros A B f cmp [H1 H2 H3]. split; intros; eauto. Qed.

Lemma preorder_ext : forall {A} (c1 c2 : A -> A -> comparison),
  (forall x y, c1 x y = c2 x y) -> preorder c1 -> preorder c2.
Proof.
  intros A c1 c2 E [H1 H2 H3]. split; intros *; rewrite <- ?E; intros; rewrite <- ?E; eauto.
Qed.

(* strings: [string_cmp] is the lexicographic order of the byte codes *)
Fixpoint codes (s : string) : list N :=
  match s with EmptyString => [] | String c r => N_of_ascii c :: codes r end.

Lemma string_cmp_codes : forall a b, string_cmp a b = list_cmp N.compare (codes a) (codes b).
Proof. induction a; destruct b; cbn; auto. rewrite IHa. reflexivity. Qed.

Lemma codes_inj : forall a b, codes a = codes b -> a = b.
Proof.
  induction a; destruct b; cbn; intros H; try discriminate; auto.
  injection H as H1 H2. f_equal; auto.
  rewrite <- (ascii_N_embedding a), <- (ascii_N_embedding a1). congruence.
Qed.

Lemma string_cmp_preorder : preorder string_cmp.
Proof.
  eapply preorder_ext; [ intros; symmetry; apply string_cmp_codes |].
  apply (preorder_on codes), preorder_list, Ncmp_preorder.
Qed.

Lemma list_cmp_eq_iff : forall {A} (cmp : A -> A -> comparison),
  (forall x y, cmp x y = Eq <-> x = y) -> forall a b, list_cmp cmp a b = Eq <-> a = b.
Proof.
  intros A cmp H. induction a; destruct b; cbn; split; intros E; try discriminate; auto.
  - destruct (cmp a a1) eqn:E1; try discriminate. apply H in E1. apply IHa in E. congruence.
  - injection E as -> ->. rewrite (proj2 (H a1 a1) eq_refl). apply IHa. reflexivity.
Qed.

Lemma string_cmp_eq_iff : forall a b, string_cmp a b = Eq <-> a = b.
Proof.
  intros. rewrite string_cmp_codes, (list_cmp_eq_iff N.compare N.compare_eq_iff).
  split; [apply codes_inj | congruence].
Qed.

Lemma bool_cmp_eq_iff : forall a b, bool_cmp a b = Eq <-> a = b.
Proof. intros [] []; cbn; split; congruence. Qed.

(* reals: NaN patterns form one class above every number *)
Definition real_key (p : Z) : Z * Z := if f64_is_nan p then (1, 0)%Z else (0, f64_key p)%Z.

Lemma real_cmp_key : forall p q,
  real_cmp p q = match (fst (real_key p) ?= fst (real_key q))%Z with
                 | Eq => (snd (real_key p) ?= snd (real_key q))%Z
                 | r => r
                 end.
Proof.
  intros p q. unfold real_cmp, f64_pcmp, real_key.
  destruct (f64_is_nan p), (f64_is_nan q); cbn; auto.
Qed.

Lemma real_cmp_preorder : preorder real_cmp.
Proof.
  destruct Zcmp_preorder as [H1 H2 H3].
  split.
  - intros x y. rewrite !real_cmp_key.
    rewrite (H1 (fst (real_key x)) (fst (real_key y))), (H1 (snd (real_key x)) (snd (real_key y))).
    destruct (fst (real_key y) ?= fst (real_key x))%Z; cbn; auto.
  - intros x y E z. rewrite !real_cmp_key in *.
    destruct (fst (real_key x) ?= fst (real_key y))%Z eqn:E1; try discriminate.
    rewrite (H2 _ _ E1), (H2 _ _ E). reflexivity.
  - intros x y z. rewrite !real_cmp_key.
    destruct (fst (real_key x) ?= fst (real_key y))%Z eqn:E1; try discriminate;
    destruct (fst (real_key y) ?= fst (real_key z))%Z eqn:E2; try discriminate; intros E3 E4.
    + rewrite (H2 _ _ E1), E2. eauto.
    + rewrite (H2 _ _ E1), E2. reflexivity.
    + apply Z.compare_eq in E2. rewrite <- E2, E1. reflexivity.
    + rewrite (H3 _ _ _ E1 E2). reflexivity.
Qed.

Lemma fnref_cmp_preorder : preorder fnref_cmp.
Proof.
  destruct natcmp_preorder as [N1 N2 N3]. destruct string_cmp_preorder as [S1 S2 S3].
  split.
  - intros [a|a] [b|b]; cbn; auto.
  - intros [a|a] [b|b] E [c|c]; cbn in *; try discriminate; auto.
  - intros [a|a] [b|b] [c|c]; cbn; try discriminate; eauto.
Qed.

Lemma fnref_cmp_eq_iff : forall f g, fnref_cmp f g = Eq <-> fnref_eqb f g = true.
Proof.
  intros [a|a] [b|b]; cbn; try (split; discriminate).
  - rewrite Nat.compare_eq_iff, Nat.eqb_eq. reflexivity.
  - rewrite string_cmp_eq_iff, String.eqb_eq. reflexivity.
Qed.

(* ------------------------------------------------------------------ *)
(* 4. the order on stripped cells                                      *)
(* ------------------------------------------------------------------ *)
Definition pair_cmp (cmp : cell -> cell -> comparison) (p q : cell * cell) : comparison :=
  match cmp (fst p) (fst q) with Eq => cmp (snd p) (snd q) | r => r end.

Lemma cmp_vec_vec : forall x y, cell_cmp (CVec x) (CVec y) = list_cmp cell_cmp x y.
Proof.
  intros x y. cbn [cell_cmp value]. revert y.
  induction x as [| p x IH]; destruct y as [| q y]; cbn [list_cmp]; auto.
  rewrite IH. reflexivity.
Qed.

Lemma cmp_map_map : forall x y, cell_cmp (CMap x) (CMap y) = list_cmp (pair_cmp cell_cmp) x y.
Proof.
  intros x y. cbn [cell_cmp value]. revert y.
  induction x as [| p x IH]; destruct y as [| q y]; cbn [list_cmp]; auto.
  rewrite IH. unfold pair_cmp. destruct (cell_cmp (fst p) (fst q)); reflexivity.
Qed.

Definition scmp (a b : cell) : comparison := cell_cmp (strip a) (strip b).

Lemma scmp_tag_l : forall t v b, scmp (CTag t v) b = scmp v b.
Proof. reflexivity. Qed.
Lemma scmp_tag_r : forall a t v, scmp a (CTag t v) = scmp a v.
Proof. reflexivity. Qed.
Lemma scmp_peel_l : forall a b, scmp (peel a) b = scmp a b.
Proof. intros. unfold scmp. rewrite strip_peel. reflexivity. Qed.
Lemma scmp_peel_r : forall a b, scmp a (peel b) = scmp a b.
Proof. intros. unfold scmp. rewrite strip_peel. reflexivity. Qed.

Lemma scmp_vec_vec : forall x y, scmp (CVec x) (CVec y) = list_cmp scmp x y.
Proof. intros. unfold scmp. cbn [strip]. rewrite cmp_vec_vec, list_cmp_map. reflexivity. Qed.

Lemma scmp_map_map : forall x y, scmp (CMap x) (CMap y) = list_cmp (pair_cmp scmp) x y.
Proof.
  intros. unfold scmp at 1. cbn [strip]. rewrite cmp_map_map.
  change (fun kv : cell * cell => (strip (fst kv), strip (snd kv))) with strip_pair.
  rewrite list_cmp_map. reflexivity.
Qed.

Definition scmp_body (a b : cell) : comparison :=
  match a, b with
  | CNil, CNil => Eq
  | CFlag x, CFlag y => bool_cmp x y
  | CInt x, CInt y => (x ?= y)%Z
  | CReal x, CReal y => real_cmp x y
  | CStr x, CStr y => string_cmp x y
  | CBits x, CBits y => list_cmp bool_cmp (abs x) (abs y)
  | CVec x, CVec y => list_cmp scmp x y
  | CMap x, CMap y => list_cmp (pair_cmp scmp) x y
  | CFun f, CFun g => fnref_cmp f g
  | CAny, CAny => Eq
  | _, _ => Nat.compare (rank a) (rank b)
  end.

Lemma scmp_unfold : forall a b, is_tag a = false -> is_tag b = false -> scmp a b = scmp_body a b.
Proof.
  intros a b Ha Hb.
  destruct a; try discriminate Ha; destruct b; try discriminate Hb;
    try reflexivity; try apply scmp_vec_vec; try apply scmp_map_map.
Qed.

(* w.l.o.g. an argument is not a tag wrapper: replace [b0] by a constructor-headed cell *)
Ltac peel_arg b0 :=
  rewrite <- ?(scmp_peel_r _ b0), <- ?(scmp_peel_l b0);
  let y := fresh "y" in let Hy := fresh "Hy" in
  generalize (peel_notag b0); generalize (peel b0); clear b0; intros y Hy;
  destruct y; try discriminate Hy; clear Hy.

Lemma scmp_antisym : forall a b, scmp a b = CompOpp (scmp b a).
Proof.
  induction a using cell_ind'; intro b0;
    try (rewrite scmp_tag_l, <- (scmp_peel_r b0 (CTag t a)); cbn [peel]; rewrite scmp_peel_r; auto; fail);
    peel_arg b0;
    rewrite !scmp_unfold by reflexivity; cbn [scmp_body rank];
    try (rewrite Nat.compare_antisym; reflexivity); try reflexivity.
  - apply bool_cmp_preorder.
  - apply Zcmp_preorder.
  - apply real_cmp_preorder.
  - apply string_cmp_preorder.
  - apply list_cmp_antisym. assumption.
  - apply list_cmp_antisym. eapply Forall_impl; [| exact H].
    intros [k v] [H1 H2] [k' v']. unfold pair_cmp. cbn [fst snd] in *.
    rewrite H1, H2. destruct (scmp k' k); reflexivity.
  - apply fnref_cmp_preorder.
  - apply (preorder_list _ bool_cmp_preorder).
Qed.

Lemma pair_cmp_cong : forall (cmp : cell -> cell -> comparison) p,
  (forall y, cmp (fst p) y = Eq -> forall z, cmp (fst p) z = cmp y z) ->
  (forall y, cmp (snd p) y = Eq -> forall z, cmp (snd p) z = cmp y z) ->
  forall q, pair_cmp cmp p q = Eq -> forall r, pair_cmp cmp p r = pair_cmp cmp q r.
Proof.
  intros cmp [k v] H1 H2 [k' v'] E [k'' v'']. unfold pair_cmp in *. cbn [fst snd] in *.
  destruct (cmp k k') eqn:E1; try discriminate.
  rewrite (H1 _ E1), (H2 _ E). reflexivity.
Qed.

Lemma scmp_eq_cong : forall a b, scmp a b = Eq -> forall c, scmp a c = scmp b c.
Proof.
  induction a using cell_ind'; intros b0 E c0;
    try (rewrite scmp_tag_l in *; eauto; fail);
    revert E; peel_arg b0; peel_arg c0;
    rewrite !scmp_unfold by reflexivity; cbn [scmp_body rank Nat.compare];
    try discriminate; try reflexivity; intro E.
  - apply bool_cmp_preorder; assumption.
  - apply Zcmp_preorder; assumption.
  - apply real_cmp_preorder; assumption.
  - apply string_cmp_preorder; assumption.
  - eapply list_cmp_eq_cong; eassumption.
  - eapply list_cmp_eq_cong; [| eassumption].
    eapply Forall_impl; [| exact H]. intros p [H1 H2]. apply pair_cmp_cong; assumption.
  - apply fnref_cmp_preorder; assumption.
  - apply (preorder_list _ bool_cmp_preorder); assumption.
Qed.

Lemma pair_cmp_preorder_parts : forall (cmp : cell -> cell -> comparison),
  (forall x y, cmp x y = CompOpp (cmp y x)) ->
  (forall x y, cmp x y = Eq -> forall z, cmp x z = cmp y z) ->
  (forall x y, pair_cmp cmp x y = CompOpp (pair_cmp cmp y x)) /\
  (forall x y, pair_cmp cmp x y = Eq -> forall z, pair_cmp cmp x z = pair_cmp cmp y z).
Proof.
  intros cmp H1 H2. split.
  - intros [k v] [k' v']. unfold pair_cmp. cbn [fst snd].
    rewrite (H1 k k'), (H1 v v'). destruct (cmp k' k); reflexivity.
  - intros p q. apply pair_cmp_cong; intros; apply H2; assumption.
Qed.

Lemma pair_cmp_lt_trans : forall (cmp : cell -> cell -> comparison),
  (forall x y, cmp x y = CompOpp (cmp y x)) ->
  (forall x y, cmp x y = Eq -> forall z, cmp x z = cmp y z) ->
  forall p,
  (forall y z, cmp (fst p) y = Lt -> cmp y z = Lt -> cmp (fst p) z = Lt) ->
  (forall y z, cmp (snd p) y = Lt -> cmp y z = Lt -> cmp (snd p) z = Lt) ->
  forall q r, pair_cmp cmp p q = Lt -> pair_cmp cmp q r = Lt -> pair_cmp cmp p r = Lt.
Proof.
  intros cmp Hanti Hcong [k v] H1 H2 [k' v'] [k'' v'']. unfold pair_cmp. cbn [fst snd] in *.
  destruct (cmp k k') eqn:E1; try discriminate.
  - rewrite (Hcong _ _ E1). destruct (cmp k' k''); try discriminate; eauto.
  - intros _. destruct (cmp k' k'') eqn:E2; try discriminate.
    + intros _.
      assert (E3 : cmp k'' k' = Eq) by (rewrite Hanti, E2; reflexivity).
      assert (E4 : cmp k k'' = CompOpp (cmp k'' k)) by apply Hanti.
      rewrite (Hcong _ _ E3 k), (Hanti k' k), E1 in E4. cbn in E4. rewrite E4. reflexivity.
    + intros _. rewrite (H1 _ _ E1 E2). reflexivity.
Qed.

Lemma scmp_lt_trans : forall a b c, scmp a b = Lt -> scmp b c = Lt -> scmp a c = Lt.
Proof.
  induction a using cell_ind'; intros b0 c0 E1 E2;
    try (rewrite scmp_tag_l in *; eauto; fail);
    revert E1 E2; peel_arg b0; peel_arg c0;
    rewrite !scmp_unfold by reflexivity; cbn [scmp_body rank Nat.compare];
    try discriminate; try reflexivity; intros E1 E2.
  - eapply bool_cmp_preorder; eassumption.
  - eapply Zcmp_preorder; eassumption.
  - eapply real_cmp_preorder; eassumption.
  - eapply string_cmp_preorder; eassumption.
  - eapply (list_cmp_lt_trans scmp scmp_antisym scmp_eq_cong); eassumption.
  - destruct (pair_cmp_preorder_parts scmp scmp_antisym scmp_eq_cong) as [P1 P2].
    eapply (list_cmp_lt_trans _ P1 P2); [| eassumption | eassumption].
    eapply Forall_impl; [| exact H]. intros p [H1 H2].
    apply pair_cmp_lt_trans; auto using scmp_antisym, scmp_eq_cong.
  - eapply fnref_cmp_preorder; eassumption.
  - eapply (preorder_list _ bool_cmp_preorder); eassumption.
Qed.

Theorem scmp_preorder : preorder scmp.
Proof. split; [exact scmp_antisym | exact scmp_eq_cong | exact scmp_lt_trans]. Qed.

Lemma scmp_refl : forall a, scmp a a = Eq.
Proof.
  intro a. pose proof (scmp_antisym a a) as H. destruct (scmp a a); cbn in H; congruence.
Qed.

Lemma pair_scmp_preorder : preorder (pair_cmp scmp).
Proof.
  destruct (pair_cmp_preorder_parts scmp scmp_antisym scmp_eq_cong) as [P1 P2].
  split; auto. intros p q r. apply pair_cmp_lt_trans; eauto using scmp_antisym, scmp_eq_cong, scmp_lt_trans.
Qed.

(* consequences of the three facts *)
Section PreorderFacts.
  Context {A : Type} (cmp : A -> A -> comparison) (PO : preorder cmp).

  Lemma po_refl : forall x, cmp x x = Eq.
  Proof. intro x. pose proof (po_anti _ PO x x) as H. destruct (cmp x x); cbn in H; congruence. Qed.

  Lemma po_sym : forall x y, cmp x y = Eq -> cmp y x = Eq.
  Proof. intros x y H. rewrite (po_anti _ PO), H. reflexivity. Qed.

  Lemma po_gt_lt : forall x y, cmp x y = Gt <-> cmp y x = Lt.
  Proof. intros x y. rewrite (po_anti _ PO x y). destruct (cmp y x); cbn; split; congruence. Qed.

  Lemma po_cong_r : forall y z, cmp y z = Eq -> forall x, cmp x y = cmp x z.
  Proof.
    intros y z E x. rewrite (po_anti _ PO x y), (po_anti _ PO x z).
    f_equal. apply (po_cong _ PO). assumption.
  Qed.

  Lemma po_eq_trans : forall x y z, cmp x y = Eq -> cmp y z = Eq -> cmp x z = Eq.
  Proof. intros x y z E1 E2. rewrite (po_cong _ PO _ _ E1). assumption. Qed.

  Lemma po_le_trans : forall x y z, cmp x y <> Gt -> cmp y z <> Gt -> cmp x z <> Gt.
  Proof.
    intros x y z H1 H2.
    destruct (cmp x y) eqn:E1; try congruence.
    - rewrite (po_cong _ PO _ _ E1). assumption.
    - destruct (cmp y z) eqn:E2; try congruence.
      + rewrite <- (po_cong_r _ _ E2). congruence.
      + rewrite (po_trans _ PO _ _ _ E1 E2). congruence.
  Qed.

  Lemma po_lt_le_trans : forall x y z, cmp x y = Lt -> cmp y z <> Gt -> cmp x z = Lt.
  Proof.
    intros x y z E1 H2. destruct (cmp y z) eqn:E2; try congruence.
    - rewrite <- (po_cong_r _ _ E2). assumption.
    - eapply (po_trans _ PO); eassumption.
  Qed.

  Lemma po_le_lt_trans : forall x y z, cmp x y <> Gt -> cmp y z = Lt -> cmp x z = Lt.
  Proof.
    intros x y z H1 E2. destruct (cmp x y) eqn:E1; try congruence.
    - rewrite (po_cong _ PO _ _ E1). assumption.
    - eapply (po_trans _ PO); eassumption.
  Qed.
End PreorderFacts.

(* ------------------------------------------------------------------ *)
(* 5. predicates over every sub-cell; tags never influence the order   *)
(* ------------------------------------------------------------------ *)
(* [deep P c]: P holds of c and of every cell inside c, tag maps excepted *)
Fixpoint deep (P : cell -> Prop) (c : cell) : Prop :=
  P c /\
  match c with
  | CVec l => (fix go (l : list cell) : Prop :=
                 match l with [] => True | x :: r => deep P x /\ go r end) l
  | CMap m => (fix go (m : list (cell * cell)) : Prop :=
                 match m with [] => True | kv :: r => (deep P (fst kv) /\ deep P (snd kv)) /\ go r end) m
  | CTag _ v => deep P v
  | _ => True
  end.

(* [deepT P c]: the same, tag maps included *)
Fixpoint deepT (P : cell -> Prop) (c : cell) : Prop :=
  P c /\
  match c with
  | CVec l => (fix go (l : list cell) : Prop :=
                 match l with [] => True | x :: r => deepT P x /\ go r end) l
  | CMap m => (fix go (m : list (cell * cell)) : Prop :=
                 match m with [] => True | kv :: r => (deepT P (fst kv) /\ deepT P (snd kv)) /\ go r end) m
  | CTag t v => (fix go (m : list (cell * cell)) : Prop :=
                 match m with [] => True | kv :: r => (deepT P (fst kv) /\ deepT P (snd kv)) /\ go r end) t
                /\ deepT P v
  | _ => True
  end.

Definition deep2 (P : cell -> Prop) (kv : cell * cell) : Prop := deep P (fst kv) /\ deep P (snd kv).
Definition deepT2 (P : cell -> Prop) (kv : cell * cell) : Prop := deepT P (fst kv) /\ deepT P (snd kv).

Lemma deep_here : forall P c, deep P c -> P c.
Proof. intros P c H. destruct c; apply H. Qed.

Lemma deep_vec : forall P l, deep P (CVec l) <-> P (CVec l) /\ Forall (deep P) l.
Proof.
  intros P l. cbn [deep]. apply and_iff_compat_l.
  induction l as [| x r IH]; split; intro H; auto.
  - destruct H as [H1 H2]. constructor; auto. apply IH; auto.
  - inversion H; subst. split; auto. apply IH; auto.
Qed.

Lemma deep_list2 : forall P m,
  (fix go (m : list (cell * cell)) : Prop :=
     match m with [] => True | kv :: r => (deep P (fst kv) /\ deep P (snd kv)) /\ go r end) m
  <-> Forall (deep2 P) m.
Proof.
  intros P m. induction m as [| x r IH]; split; intro H; auto.
  - destruct H as [H1 H2]. constructor; auto. apply IH; auto.
  - inversion H; subst. split; auto. apply IH; auto.
Qed.

Lemma deep_map : forall P m, deep P (CMap m) <-> P (CMap m) /\ Forall (deep2 P) m.
Proof. intros P m. cbn [deep]. apply and_iff_compat_l. apply deep_list2. Qed.

Lemma deep_tag : forall P t v, deep P (CTag t v) <-> P (CTag t v) /\ deep P v.
Proof. intros. reflexivity. Qed.

Lemma deepT_here : forall P c, deepT P c -> P c.
Proof. intros P c H. destruct c; apply H. Qed.

Lemma deepT_vec : forall P l, deepT P (CVec l) <-> P (CVec l) /\ Forall (deepT P) l.
Proof.
  intros P l. cbn [deepT]. apply and_iff_compat_l.
  induction l as [| x r IH]; split; intro H; auto.
  - destruct H as [H1 H2]. constructor; auto. apply IH; auto.
  - inversion H; subst. split; auto. apply IH; auto.
Qed.

Lemma deepT_list2 : forall P m,
  (fix go (m : list (cell * cell)) : Prop :=
     match m with [] => True | kv :: r => (deepT P (fst kv) /\ deepT P (snd kv)) /\ go r end) m
  <-> Forall (deepT2 P) m.
Proof.
  intros P m. induction m as [| x r IH]; split; intro H; auto.
  - destruct H as [H1 H2]. constructor; auto. apply IH; auto.
  - inversion H; subst. split; auto. apply IH; auto.
Qed.

Lemma deepT_map : forall P m, deepT P (CMap m) <-> P (CMap m) /\ Forall (deepT2 P) m.
Proof. intros P m. cbn [deepT]. apply and_iff_compat_l. apply deepT_list2. Qed.

Lemma deepT_tag : forall P t v,
  deepT P (CTag t v) <-> P (CTag t v) /\ Forall (deepT2 P) t /\ deepT P v.
Proof.
  intros P t v. cbn [deepT]. apply and_iff_compat_l. apply and_iff_compat_r. apply deepT_list2.
Qed.

Lemma deep_impl : forall (P Q : cell -> Prop), (forall c, P c -> Q c) -> forall c, deep P c -> deep Q c.
Proof.
  intros P Q HPQ. induction c using cell_ind'; try (intros [H1 H2]; split; auto; fail).
  - rewrite !deep_vec. intros [H1 H2]. split; auto.
    rewrite Forall_forall in *. auto.
  - rewrite !deep_map. intros [H1 H2]. split; auto.
    rewrite Forall_forall in *. intros kv Hkv. destruct (H _ Hkv), (H2 _ Hkv). split; auto.
Qed.

Lemma deep_and : forall (P Q : cell -> Prop) c, deep (fun c => P c /\ Q c) c <-> deep P c /\ deep Q c.
Proof.
  intros P Q. induction c using cell_ind'; try (cbn [deep]; tauto).
  - rewrite !deep_vec. rewrite Forall_forall in H. rewrite !Forall_forall.
    split.
    + intros [[H1 H2] H3]. split; (split; [assumption|]); intros y Hy; apply (H y Hy); auto.
    + intros [[H1 H2] [H3 H4]]. split; [tauto|]. intros y Hy. apply (H y Hy); auto.
  - rewrite !deep_map. rewrite Forall_forall in H. rewrite !Forall_forall. unfold deep2.
    split.
    + intros [[H1 H2] H3]. split; (split; [assumption|]); intros y Hy;
        destruct (H y Hy) as [A B]; destruct (H3 y Hy) as [C D];
        apply A in C; apply B in D; tauto.
    + intros [[H1 H2] [H3 H4]]. split; [tauto|]. intros y Hy.
      destruct (H y Hy) as [A B]; destruct (H2 y Hy), (H4 y Hy). split; [apply A | apply B]; tauto.
Qed.

Lemma deepT_deep : forall P c, deepT P c -> deep P c.
Proof.
  intros P. induction c using cell_ind'; try (intros [H1 H2]; split; auto; fail).
  - rewrite deepT_vec, deep_vec. intros [H1 H2]. split; auto. rewrite Forall_forall in *. auto.
  - rewrite deepT_map, deep_map. intros [H1 H2]. split; auto. rewrite Forall_forall in *.
    intros kv Hkv. destruct (H _ Hkv), (H2 _ Hkv). split; auto.
  - rewrite deepT_tag, deep_tag. intros [H1 [H2 H3]]. auto.
Qed.

(* no tag wrapper directly wraps a tag wrapper *)
Definition notagtag (c : cell) : Prop :=
  match c with CTag _ v => is_tag v = false | _ => True end.
Definition tagwf : cell -> Prop := deep notagtag.

Lemma tagwf_value : forall c, tagwf c -> tagwf (value c) /\ is_tag (value c) = false.
Proof. intros c H. destruct c; cbn; auto. destruct H as [H1 H2]. auto. Qed.

Lemma value_peel : forall c, tagwf c -> value c = peel c.
Proof.
  intros c H. destruct c; cbn; auto. destruct H as [H1 H2]. cbn in H1.
  destruct c; cbn; auto; discriminate.
Qed.

Lemma strip_value : forall c, tagwf c -> strip (value c) = strip c.
Proof. intros c H. rewrite value_peel by assumption. apply strip_peel. Qed.

(* cell_cmp only looks at [value b] *)
Lemma cmp_value_r : forall a b, is_tag (value b) = false -> cell_cmp a b = cell_cmp a (value b).
Proof.
  intros a b Hb. induction a; cbn [cell_cmp]; rewrite ?(value_notag (value b)) by assumption; auto.
Qed.

Lemma cmp_tag_l : forall t v b, cell_cmp (CTag t v) b = cell_cmp v b.
Proof. reflexivity. Qed.

Theorem cmp_strip : forall a b, tagwf a -> tagwf b -> cell_cmp a b = scmp a b.
Proof.
  induction a using cell_ind'; intros b0 Ha Hb0;
    try (rewrite cmp_tag_l, scmp_tag_l; apply IHa; [apply Ha | assumption]; fail);
    destruct (tagwf_value _ Hb0) as [Hv Hn];
    rewrite (cmp_value_r _ b0 Hn); unfold scmp; rewrite <- (strip_value b0 Hb0);
    revert Hv Hn; generalize (value b0); clear b0 Hb0; intros y Hy Hn;
    destruct y; try discriminate Hn; try reflexivity.
  - fold (scmp (CVec l) (CVec l0)). rewrite cmp_vec_vec, scmp_vec_vec.
    apply deep_vec in Ha. apply deep_vec in Hy. destruct Ha as [_ Ha], Hy as [_ Hy].
    rewrite Forall_forall in *. apply list_cmp_ext_in.
    intros p q Hp Hq. apply H; [assumption | apply Ha; assumption | apply Hy; assumption].
  - fold (scmp (CMap m) (CMap m0)). rewrite cmp_map_map, scmp_map_map.
    apply deep_map in Ha. apply deep_map in Hy. destruct Ha as [_ Ha], Hy as [_ Hy].
    rewrite Forall_forall in *. apply list_cmp_ext_in. intros p q Hp Hq.
    destruct (H _ Hp) as [H1 H2], (Ha _ Hp), (Hy _ Hq). unfold pair_cmp.
    rewrite H1, H2 by assumption. reflexivity.
Qed.

Lemma tagwf_strip : forall c, tagwf (strip c).
Proof.
  induction c using cell_ind'; cbn [strip]; try (split; exact I); auto.
  - apply deep_vec. split; [exact I|]. rewrite Forall_forall in *. intros x Hx.
    apply in_map_iff in Hx. destruct Hx as [y [<- Hy]]. apply H; assumption.
  - apply deep_map. split; [exact I|]. rewrite Forall_forall in *. intros x Hx.
    apply in_map_iff in Hx. destruct Hx as [y [<- Hy]]. destruct (H _ Hy). split; assumption.
Qed.

Lemma scmp_strip_l : forall a b, scmp (strip a) b = scmp a b.
Proof. intros. unfold scmp. rewrite strip_idem. reflexivity. Qed.
Lemma scmp_strip_r : forall a b, scmp a (strip b) = scmp a b.
Proof. intros. unfold scmp. rewrite strip_idem. reflexivity. Qed.

(* cell_cmp is a total preorder on tagwf cells *)
Theorem cmp_antisym : forall a b, tagwf a -> tagwf b -> cell_cmp a b = CompOpp (cell_cmp b a).
Proof. intros. rewrite !cmp_strip by assumption. apply scmp_antisym. Qed.

Theorem cmp_refl : forall a, tagwf a -> cell_cmp a a = Eq.
Proof. intros. rewrite cmp_strip by assumption. apply scmp_refl. Qed.

Theorem cmp_eq_cong : forall a b c, tagwf a -> tagwf b -> tagwf c ->
  cell_cmp a b = Eq -> cell_cmp a c = cell_cmp b c.
Proof. intros a b c Ha Hb Hc. rewrite !cmp_strip by assumption. intro. apply scmp_eq_cong; assumption. Qed.

Theorem cmp_lt_trans : forall a b c, tagwf a -> tagwf b -> tagwf c ->
  cell_cmp a b = Lt -> cell_cmp b c = Lt -> cell_cmp a c = Lt.
Proof. intros a b c Ha Hb Hc. rewrite !cmp_strip by assumption. apply scmp_lt_trans. Qed.

Theorem cmp_trans : forall a b c r, tagwf a -> tagwf b -> tagwf c ->
  cell_cmp a b = r -> cell_cmp b c = r -> cell_cmp a c = r.
Proof.
  intros a b c r Ha Hb Hc. rewrite !cmp_strip by assumption. destruct r.
  - apply (po_eq_trans _ scmp_preorder).
  - apply scmp_lt_trans.
  - rewrite !(po_gt_lt _ scmp_preorder). intros. eapply scmp_lt_trans; eassumption.
Qed.

(* keys of different types never collide *)
Theorem cmp_rank : forall a b, tagwf a -> tagwf b ->
  rank (value a) <> rank (value b) -> cell_cmp a b = Nat.compare (rank (value a)) (rank (value b)).
Proof.
  intros a b Ha Hb. rewrite cmp_strip by assumption. rewrite !value_peel by assumption.
  rewrite <- (scmp_peel_l a), <- (scmp_peel_r _ b).
  generalize (peel_notag a) (peel_notag b). generalize (peel a) (peel b). intros x y Hx Hy.
  rewrite scmp_unfold by assumption.
  destruct x; try discriminate Hx; destruct y; try discriminate Hy; cbn [scmp_body rank]; congruence.
Qed.

Theorem cmp_rank_neq : forall a b, tagwf a -> tagwf b ->
  rank (value a) <> rank (value b) -> cell_cmp a b <> Eq.
Proof.
  intros a b Ha Hb Hr. rewrite cmp_rank by assumption. rewrite Nat.compare_eq_iff. assumption.
Qed.

(* ------------------------------------------------------------------ *)
(* 6. equality                                                         *)
(* ------------------------------------------------------------------ *)
Definition cmp_is_eq (c : comparison) : bool := match c with Eq => true | _ => false end.

Lemma cmp_is_eq_true : forall c, cmp_is_eq c = true <-> c = Eq.
Proof. destruct c; cbn; split; congruence. Qed.

Lemma assoc_find_find : forall m k,
  assoc_find m k = option_map snd (find (fun kv => cmp_is_eq (cell_cmp (fst kv) k)) m).
Proof. intros. unfold assoc_find, cmp_is_eq. destruct (find _ m); reflexivity. Qed.

Lemma eqb_vec_vec : forall x y, cell_eqb (CVec x) (CVec y) = list_eqb cell_eqb x y.
Proof.
  intros x y. cbn [cell_eqb value]. revert y.
  induction x as [| p x IH]; destruct y as [| q y]; cbn [list_eqb]; auto.
  rewrite IH. reflexivity.
Qed.

Definition map_entry_eqb (eqb : cell -> cell -> bool) (find : cell -> option cell) (p : cell * cell) : bool :=
  match find (fst p) with Some v' => eqb (snd p) v' | None => false end.

Lemma eqb_map_map : forall x y,
  cell_eqb (CMap x) (CMap y) =
  (length x =? length y) && forallb (map_entry_eqb cell_eqb (assoc_find y)) x.
Proof.
  intros x y. cbn [cell_eqb value]. f_equal.
  induction x as [| p x IH]; cbn [forallb]; auto.
  rewrite IH. unfold map_entry_eqb. destruct (assoc_find y (fst p)); reflexivity.
Qed.

Definition seqb (a b : cell) : bool := cell_eqb (strip a) (strip b).

Definition sfindp (m : list (cell * cell)) (k : cell) : option (cell * cell) :=
  find (fun kv => cmp_is_eq (scmp (fst kv) k)) m.
Definition sfind (m : list (cell * cell)) (k : cell) : option cell := option_map snd (sfindp m k).

Lemma assoc_find_strip : forall y k,
  assoc_find (map strip_pair y) (strip k) = option_map strip (sfind y k).
Proof.
  intros y k. rewrite assoc_find_find. unfold sfind, sfindp.
  induction y as [| q y IH]; cbn [map find]; auto.
  change (cell_cmp (fst (strip_pair q)) (strip k)) with (scmp (fst q) k).
  destruct (cmp_is_eq (scmp (fst q) k)); auto.
Qed.

Lemma seqb_tag_l : forall t v b, seqb (CTag t v) b = seqb v b.
Proof. reflexivity. Qed.
Lemma seqb_peel_l : forall a b, seqb (peel a) b = seqb a b.
Proof. intros. unfold seqb. rewrite strip_peel. reflexivity. Qed.
Lemma seqb_peel_r : forall a b, seqb a (peel b) = seqb a b.
Proof. intros. unfold seqb. rewrite strip_peel. reflexivity. Qed.

Lemma list_eqb_map : forall {A B} (f : A -> B) (eqb : B -> B -> bool) a b,
  list_eqb eqb (map f a) (map f b) = list_eqb (fun x y => eqb (f x) (f y)) a b.
Proof. induction a; destruct b; cbn; auto. rewrite IHa. reflexivity. Qed.

Lemma list_eqb_ext_in : forall {A} (e1 e2 : A -> A -> bool) a b,
  (forall x y, In x a -> In y b -> e1 x y = e2 x y) -> list_eqb e1 a b = list_eqb e2 a b.
Proof.
  induction a; destruct b; cbn; auto. intros H. rewrite H by auto. rewrite IHa by auto. reflexivity.
Qed.

Lemma seqb_vec_vec : forall x y, seqb (CVec x) (CVec y) = list_eqb seqb x y.
Proof. intros. unfold seqb. cbn [strip]. rewrite eqb_vec_vec, list_eqb_map. reflexivity. Qed.

Lemma forallb_map : forall {A B} (f : A -> B) (p : B -> bool) l,
  forallb p (map f l) = forallb (fun x => p (f x)) l.
Proof. induction l; cbn; auto. rewrite IHl. reflexivity. Qed.

Lemma forallb_ext_in : forall {A} (p q : A -> bool) l,
  (forall x, In x l -> p x = q x) -> forallb p l = forallb q l.
Proof. induction l; cbn; auto. intros H. rewrite H, IHl; auto. Qed.

Lemma seqb_map_map : forall x y,
  seqb (CMap x) (CMap y) =
  (length x =? length y) && forallb (map_entry_eqb seqb (sfind y)) x.
Proof.
  intros x y. unfold seqb at 1. cbn [strip].
  change (fun kv : cell * cell => (strip (fst kv), strip (snd kv))) with strip_pair.
  rewrite eqb_map_map, !map_length, forallb_map. f_equal.
  apply forallb_ext_in. intros p _. unfold map_entry_eqb.
  change (fst (strip_pair p)) with (strip (fst p)). rewrite assoc_find_strip.
  destruct (sfind y (fst p)); reflexivity.
Qed.

Definition seqb_body (a b : cell) : bool :=
  match a, b with
  | CNil, CNil => true
  | CFlag x, CFlag y => Bool.eqb x y
  | CInt x, CInt y => (x =? y)%Z
  | CReal x, CReal y => f64_eqb x y
  | CStr x, CStr y => String.eqb x y
  | CBits x, CBits y => eq_with x y
  | CVec x, CVec y => list_eqb seqb x y
  | CMap x, CMap y => (length x =? length y) && forallb (map_entry_eqb seqb (sfind y)) x
  | CFun f, CFun g => fnref_eqb f g
  | _, _ => false
  end.

Lemma seqb_unfold : forall a b, is_tag a = false -> is_tag b = false -> seqb a b = seqb_body a b.
Proof.
  intros a b Ha Hb.
  destruct a; try discriminate Ha; destruct b; try discriminate Hb;
    try reflexivity; try apply seqb_vec_vec; try apply seqb_map_map.
Qed.

Lemma eqb_value_r : forall a b, is_tag (value b) = false -> cell_eqb a b = cell_eqb a (value b).
Proof.
  intros a b Hb. induction a; cbn [cell_eqb]; rewrite ?(value_notag (value b)) by assumption; auto.
Qed.

Lemma eqb_tag_l : forall t v b, cell_eqb (CTag t v) b = cell_eqb v b.
Proof. reflexivity. Qed.

Lemma find_ext_in : forall {A} (p q : A -> bool) l,
  (forall x, In x l -> p x = q x) -> find p l = find q l.
Proof. induction l; cbn; auto. intros H. rewrite H, IHl; auto. Qed.

Lemma assoc_find_sfind : forall y k,
  Forall (deep2 notagtag) y -> tagwf k -> assoc_find y k = sfind y k.
Proof.
  intros y k Hy Hk. rewrite assoc_find_find. unfold sfind, sfindp. f_equal.
  apply find_ext_in. intros q Hq. rewrite Forall_forall in Hy. destruct (Hy _ Hq).
  rewrite cmp_strip by assumption. reflexivity.
Qed.

Lemma assoc_find_in : forall y k v, assoc_find y k = Some v -> exists k', In (k', v) y /\ cell_cmp k' k = Eq.
Proof.
  intros y k v. rewrite assoc_find_find.
  destruct (find _ y) as [[k' v']|] eqn:E; cbn; intro H; try discriminate.
  injection H as ->. apply find_some in E. destruct E as [E1 E2]. cbn in E2.
  exists k'. split; auto. apply cmp_is_eq_true. assumption.
Qed.

Theorem eqb_strip : forall a b, tagwf a -> tagwf b -> cell_eqb a b = seqb a b.
Proof.
  induction a using cell_ind'; intros b0 Ha Hb0;
    try (rewrite eqb_tag_l, seqb_tag_l; apply IHa; [apply Ha | assumption]; fail);
    destruct (tagwf_value _ Hb0) as [Hv Hn];
    rewrite (eqb_value_r _ b0 Hn); unfold seqb; rewrite <- (strip_value b0 Hb0);
    revert Hv Hn; generalize (value b0); clear b0 Hb0; intros y Hy Hn;
    destruct y; try discriminate Hn; try reflexivity.
  - fold (seqb (CVec l) (CVec l0)). rewrite eqb_vec_vec, seqb_vec_vec.
    apply deep_vec in Ha. apply deep_vec in Hy. destruct Ha as [_ Ha], Hy as [_ Hy].
    rewrite Forall_forall in *. apply list_eqb_ext_in.
    intros p q Hp Hq. apply H; [assumption | apply Ha; assumption | apply Hy; assumption].
  - fold (seqb (CMap m) (CMap m0)). rewrite eqb_map_map, seqb_map_map.
    apply deep_map in Ha. apply deep_map in Hy. destruct Ha as [_ Ha], Hy as [_ Hy].
    f_equal. apply forallb_ext_in. intros p Hp. unfold map_entry_eqb.
    rewrite Forall_forall in H, Ha. destruct (H _ Hp) as [H1 H2], (Ha _ Hp) as [Ha1 Ha2].
    rewrite (assoc_find_sfind _ _ Hy Ha1).
    destruct (sfind m0 (fst p)) as [v'|] eqn:E; auto.
    apply H2; auto.
    rewrite <- (assoc_find_sfind _ _ Hy Ha1) in E. apply assoc_find_in in E.
    destruct E as [k' [E _]]. rewrite Forall_forall in Hy. apply (Hy _ E).
Qed.

(* --- sorted association lists --- *)
Definition ltk (p q : cell * cell) : Prop := scmp (fst p) (fst q) = Lt.

Lemma sorted_app_inv : forall {A} (R : A -> A -> Prop) a b,
  StronglySorted R (a ++ b) ->
  StronglySorted R a /\ StronglySorted R b /\ Forall (fun x => Forall (R x) b) a.
Proof.
  induction a as [| x a IH]; cbn; intros b H.
  - repeat split; auto; constructor.
  - inversion H; subst. destruct (IH _ H2) as [S1 [S2 S3]].
    rewrite Forall_app in H3. destruct H3 as [F1 F2].
    repeat split; auto; constructor; auto.
Qed.

Lemma sfindp_sorted : forall y q k,
  StronglySorted ltk y -> In q y -> scmp (fst q) k = Eq -> sfindp y k = Some q.
Proof.
  induction y as [| q0 y IH]; intros q k S Hin E; [destruct Hin|].
  inversion S; subst. unfold sfindp. cbn [find]. destruct Hin as [->|Hin].
  - rewrite E. reflexivity.
  - rewrite Forall_forall in H2. pose proof (H2 _ Hin) as L. unfold ltk in L.
    rewrite (po_cong_r _ scmp_preorder _ _ E) in L. rewrite L. cbn. apply IH; assumption.
Qed.

Lemma sfindp_some : forall y k q, sfindp y k = Some q -> In q y /\ scmp (fst q) k = Eq.
Proof.
  intros y k q H. apply find_some in H. destruct H as [H1 H2]. split; auto.
  apply cmp_is_eq_true. assumption.
Qed.

Lemma sorted_embed : forall x y,
  StronglySorted ltk x -> StronglySorted ltk y ->
  (forall p, In p x -> exists q, In q y /\ scmp (fst q) (fst p) = Eq) ->
  length x <= length y /\
  (length x = length y -> Forall2 (fun p q => scmp (fst p) (fst q) = Eq) x y).
Proof.
  induction x as [| p x IH]; intros y Sx Sy Hex.
  - split; [cbn; lia|]. destruct y; cbn; intro; [constructor | discriminate].
  - destruct (Hex p (or_introl eq_refl)) as [q [Hq E]].
    apply in_split in Hq. destruct Hq as [y1 [y2 ->]].
    inversion Sx; subst.
    apply sorted_app_inv in Sy. destruct Sy as [S1 [S2 S3]].
    inversion S2; subst.
    assert (Hex' : forall p', In p' x -> exists q', In q' y2 /\ scmp (fst q') (fst p') = Eq).
    { intros p' Hp'. destruct (Hex p' (or_intror Hp')) as [q' [Hq' E']].
      exists q'. split; auto.
      rewrite Forall_forall in H2. pose proof (H2 _ Hp') as Lp. unfold ltk in Lp.
      apply in_app_or in Hq'. destruct Hq' as [Hq' | [<- | Hq']]; auto; exfalso.
      - rewrite Forall_forall in S3. pose proof (S3 _ Hq') as F. apply Forall_inv in F.
        unfold ltk in F.
        rewrite (po_cong_r _ scmp_preorder _ _ E) in F.
        pose proof (scmp_lt_trans _ _ _ F Lp). congruence.
      - rewrite (scmp_eq_cong _ _ E) in E'. congruence. }
    destruct (IH y2 H1 H3 Hex') as [L F].
    rewrite app_length. cbn [length]. split; [lia|].
    intro Hl. destruct y1; [| cbn in Hl; lia]. cbn.
    constructor; [apply (po_sym _ scmp_preorder); assumption | apply F; cbn in Hl; lia].
Qed.

Lemma Forall2_impl : forall {A B} (R S : A -> B -> Prop),
  (forall a b, R a b -> S a b) -> forall x y, Forall2 R x y -> Forall2 S x y.
Proof. induction 2; constructor; auto. Qed.

Lemma Forall2_length : forall {A B} (R : A -> B -> Prop) x y, Forall2 R x y -> length x = length y.
Proof. induction 1; cbn; auto. Qed.

Lemma Forall2_in : forall {A B} (R : A -> B -> Prop) x y,
  Forall2 R x y -> Forall2 (fun p q => R p q /\ In p x /\ In q y) x y.
Proof.
  induction 1; constructor.
  - cbn. auto.
  - eapply Forall2_impl; [| exact IHForall2]. cbn. intros a b (H1 & H2 & H3). auto.
Qed.

Lemma Forall2_in_l : forall {A B} (R : A -> B -> Prop) x y p,
  Forall2 R x y -> In p x -> exists q, In q y /\ R p q.
Proof.
  induction 1; intros Hin; [destruct Hin|]; destruct Hin as [<-|Hin].
  - eexists; split; [left; reflexivity | assumption].
  - destruct (IHForall2 Hin) as [q [H1 H2]]. exists q. split; [right|]; assumption.
Qed.

Lemma list_cmp_eq_Forall2 : forall {A} (cmp : A -> A -> comparison) x y,
  list_cmp cmp x y = Eq <-> Forall2 (fun p q => cmp p q = Eq) x y.
Proof.
  induction x; destruct y; cbn; split; intro H; try discriminate; try constructor; try (inversion H; fail).
  - destruct (cmp a a0); try discriminate; reflexivity.
  - apply IHx. destruct (cmp a a0); try discriminate; assumption.
  - inversion H; subst. rewrite H3. apply IHx. assumption.
Qed.

Lemma list_eqb_Forall2 : forall {A} (eqb : A -> A -> bool) x y,
  list_eqb eqb x y = true <-> Forall2 (fun p q => eqb p q = true) x y.
Proof.
  induction x; destruct y; cbn; split; intro H; try discriminate; try constructor; try (inversion H; fail).
  - apply andb_true_iff in H. tauto.
  - apply IHx. apply andb_true_iff in H. tauto.
  - inversion H; subst. rewrite H3. apply IHx. assumption.
Qed.

(* the domain on which [equal?] agrees with the order *)
Definition eq_local (c : cell) : Prop :=
  match c with
  | CReal r => f64_is_nan r = false
  | CAny => False
  | CBits b => wf b
  | CMap m => StronglySorted ltk m
  | _ => True
  end.
Definition eqdom : cell -> Prop := deep eq_local.

Lemma eqdom_peel : forall c, eqdom c -> eqdom (peel c).
Proof. induction c; cbn; auto. intros [_ H]. auto. Qed.

Lemma real_cmp_eqb : forall x y, f64_is_nan x = false -> f64_is_nan y = false ->
  (real_cmp x y = Eq <-> f64_eqb x y = true).
Proof.
  intros x y Hx Hy. unfold real_cmp, f64_pcmp, f64_eqb. rewrite Hx, Hy. cbn.
  rewrite Z.compare_eq_iff, Z.eqb_eq. reflexivity.
Qed.

Lemma bits_cmp_eqb : forall x y, wf x -> wf y ->
  (list_cmp bool_cmp (abs x) (abs y) = Eq <-> eq_with x y = true).
Proof.
  intros x y Hx Hy. rewrite (list_cmp_eq_iff bool_cmp bool_cmp_eq_iff).
  symmetry. apply eq_with_spec; assumption.
Qed.

Theorem scmp_seqb : forall a b, eqdom a -> eqdom b -> (scmp a b = Eq <-> seqb a b = true).
Proof.
  induction a using cell_ind'; intros b0 Ha Hb0;
    try (rewrite scmp_tag_l, seqb_tag_l; apply IHa; [apply Ha | assumption]; fail);
    apply eqdom_peel in Hb0;
    rewrite <- (scmp_peel_r _ b0), <- (seqb_peel_r _ b0);
    revert Hb0; generalize (peel_notag b0); generalize (peel b0); clear b0; intros y Hn Hy;
    destruct y; try discriminate Hn; clear Hn;
    rewrite scmp_unfold, seqb_unfold by reflexivity; cbn [scmp_body seqb_body rank Nat.compare];
    try (split; discriminate); try tauto.
  - destruct b, b0; cbn; split; congruence.
  - rewrite Z.compare_eq_iff, Z.eqb_eq. reflexivity.
  - apply real_cmp_eqb; [apply (deep_here _ _ Ha) | apply (deep_here _ _ Hy)].
  - rewrite string_cmp_eq_iff, String.eqb_eq. reflexivity.
  - (* vectors *)
    apply deep_vec in Ha. apply deep_vec in Hy. destruct Ha as [_ Ha], Hy as [_ Hy].
    rewrite list_cmp_eq_Forall2, list_eqb_Forall2.
    rewrite Forall_forall in H, Ha, Hy.
    split; intro F; apply Forall2_in in F; (eapply Forall2_impl; [| exact F]); cbn;
      intros p q (F1 & F2 & F3); apply (H p F2 q (Ha p F2) (Hy q F3)); assumption.
  - (* maps *)
    apply deep_map in Ha. apply deep_map in Hy. destruct Ha as [Sx Ha], Hy as [Sy Hy].
    cbn in Sx, Sy. rewrite Forall_forall in H, Ha, Hy.
    rewrite andb_true_iff, Nat.eqb_eq, forallb_forall. split.
    + intro E. apply list_cmp_eq_Forall2 in E. split; [eapply Forall2_length; eassumption|].
      intros p Hp. destruct (Forall2_in_l _ _ _ p E Hp) as [q [Hq R]].
      unfold pair_cmp in R. destruct (scmp (fst p) (fst q)) eqn:E1; try discriminate.
      unfold map_entry_eqb, sfind.
      rewrite (sfindp_sorted m0 q (fst p) Sy Hq (po_sym _ scmp_preorder _ _ E1)). cbn.
      destruct (H p Hp) as [_ H2]. destruct (Ha p Hp), (Hy q Hq). apply H2; assumption.
    + intros [Hl Hall].
      assert (Hex : forall p, In p m -> exists q, In q m0 /\ scmp (fst q) (fst p) = Eq).
      { intros p Hp. specialize (Hall p Hp). unfold map_entry_eqb, sfind in Hall.
        destruct (sfindp m0 (fst p)) as [q|] eqn:E; try discriminate.
        apply sfindp_some in E. exists q. assumption. }
      destruct (sorted_embed m m0 Sx Sy Hex) as [_ F]. specialize (F Hl).
      apply list_cmp_eq_Forall2. apply Forall2_in in F.
      eapply Forall2_impl; [| exact F]. cbn. intros p q (F1 & F2 & F3).
      unfold pair_cmp. rewrite F1.
      specialize (Hall p F2). unfold map_entry_eqb, sfind in Hall.
      rewrite (sfindp_sorted m0 q (fst p) Sy F3 (po_sym _ scmp_preorder _ _ F1)) in Hall. cbn in Hall.
      destruct (H p F2) as [_ H2]. destruct (Ha p F2), (Hy q F3). apply H2; assumption.
  - apply fnref_cmp_eq_iff.
  - apply bits_cmp_eqb; [apply (deep_here _ _ Ha) | apply (deep_here _ _ Hy)].
  - destruct Ha as [[] _].
Qed.

(* ------------------------------------------------------------------ *)
(* 7. the well-formedness predicate of the property statements         *)
(* ------------------------------------------------------------------ *)
(* strictly ascending keys (the in-order traversal of the red-black tree) *)
Definition keys_sorted (m : list (cell * cell)) : Prop :=
  StronglySorted (fun p q => cell_cmp (fst p) (fst q) = Lt) m.

(* no NaN real - and no opaque [CAny] value, which [equal?] never equates - anywhere
   (tag maps excepted: they never take part in a comparison) *)
Definition nonan_local (c : cell) : Prop :=
  match c with CReal r => f64_is_nan r = false | CAny => False | _ => True end.
Definition NoNaN : cell -> Prop := deep nonan_local.

Definition ok_local (c : cell) : Prop :=
  match c with
  | CBits b => wf b
  | CMap m => keys_sorted m /\ Forall (fun kv => NoNaN (fst kv)) m
  | CTag t v => is_tag v = false /\ keys_sorted t /\ Forall (fun kv => NoNaN (fst kv)) t
  | _ => True
  end.

(* every map (tag maps included) is strictly sorted with NaN-free keys, every bit-string is
   well formed, no tag wrapper wraps a tag wrapper *)
Definition cell_ok : cell -> Prop := deepT ok_local.
Definition map_ok (m : list (cell * cell)) : Prop := cell_ok (CMap m).

Lemma cell_ok_tagwf : forall c, cell_ok c -> tagwf c.
Proof.
  intros c H. apply deepT_deep in H. revert H. apply deep_impl.
  intros x Hx. destruct x; cbn in *; auto. tauto.
Qed.

Lemma StronglySorted_ext_in : forall {A} (R S : A -> A -> Prop) l,
  (forall x y, In x l -> In y l -> R x y -> S x y) -> StronglySorted R l -> StronglySorted S l.
Proof.
  induction l as [| a l IH]; intros H HS; [constructor|].
  inversion HS; subst. constructor.
  - apply IH; auto. intros; apply H; cbn; auto.
  - rewrite Forall_forall in *. intros y Hy. apply H; cbn; auto.
Qed.

Lemma keys_sorted_ltk : forall m, Forall (fun kv => tagwf (fst kv)) m ->
  (keys_sorted m <-> StronglySorted ltk m).
Proof.
  intros m Hm. rewrite Forall_forall in Hm. unfold keys_sorted, ltk.
  split; apply StronglySorted_ext_in; intros x y Hx Hy;
    rewrite cmp_strip by (apply Hm; assumption); auto.
Qed.

Lemma cell_ok_vec : forall l, cell_ok (CVec l) <-> Forall cell_ok l.
Proof. intro l. unfold cell_ok. rewrite deepT_vec. cbn. tauto. Qed.

Lemma cell_ok_map : forall m, cell_ok (CMap m) <->
  keys_sorted m /\ Forall (fun kv => NoNaN (fst kv)) m /\
  Forall (fun kv => cell_ok (fst kv) /\ cell_ok (snd kv)) m.
Proof. intro m. unfold cell_ok. rewrite deepT_map. cbn. unfold deepT2. tauto. Qed.

Lemma cell_ok_tag : forall t v, cell_ok (CTag t v) <->
  is_tag v = false /\ cell_ok (CMap t) /\ cell_ok v.
Proof. intros t v. rewrite cell_ok_map. unfold cell_ok. rewrite deepT_tag. cbn. unfold deepT2. tauto. Qed.

Lemma NoNaN_vec : forall l, NoNaN (CVec l) <-> Forall NoNaN l.
Proof. intro l. unfold NoNaN. rewrite deep_vec. cbn. tauto. Qed.

Lemma NoNaN_map : forall m, NoNaN (CMap m) <-> Forall (fun kv => NoNaN (fst kv) /\ NoNaN (snd kv)) m.
Proof. intro m. unfold NoNaN. rewrite deep_map. cbn. unfold deep2. tauto. Qed.

Lemma tagwf_vec : forall l, tagwf (CVec l) <-> Forall tagwf l.
Proof. intro l. unfold tagwf. rewrite deep_vec. cbn. tauto. Qed.

Lemma tagwf_map : forall m, tagwf (CMap m) <-> Forall (fun kv => tagwf (fst kv) /\ tagwf (snd kv)) m.
Proof. intro m. unfold tagwf. rewrite deep_map. cbn. unfold deep2. tauto. Qed.

Lemma tagwf_tag : forall t v, tagwf (CTag t v) <-> is_tag v = false /\ tagwf v.
Proof. intros. reflexivity. Qed.

Lemma ok_eqdom : forall c, cell_ok c -> NoNaN c -> eqdom c.
Proof.
  induction c using cell_ind'; intros Hok Hnn; try (split; [cbn; auto | exact I]; fail).
  - split; [apply (deep_here _ _ Hnn) | exact I].
  - apply cell_ok_vec in Hok. apply NoNaN_vec in Hnn. apply deep_vec. split; [exact I|].
    rewrite Forall_forall in *. intros x Hx. apply H; auto.
  - apply cell_ok_map in Hok. apply NoNaN_map in Hnn. destruct Hok as (S & _ & Hok).
    apply deep_map. split.
    + cbn. apply keys_sorted_ltk; auto. rewrite Forall_forall in *. intros kv Hkv.
      apply cell_ok_tagwf, (Hok _ Hkv).
    + rewrite Forall_forall in *. intros kv Hkv.
      destruct (H _ Hkv) as [A B], (Hok _ Hkv), (Hnn _ Hkv). split; [apply A | apply B]; assumption.
  - split; [apply (deepT_here _ _ Hok) | exact I].
  - destruct Hnn as [[] _].
  - apply cell_ok_tag in Hok. destruct Hok as (_ & _ & Hok). destruct Hnn as [_ Hnn].
    split; [exact I | apply IHc; assumption].
Qed.

(* ---- the statements on [cell_cmp] / [cell_eqb] for ok cells ---- *)
Theorem cmp_eq : forall a b, cell_ok a -> cell_ok b -> NoNaN a -> NoNaN b ->
  (cell_cmp a b = Eq <-> cell_eqb a b = true).
Proof.
  intros a b Ha Hb Na Nb.
  rewrite cmp_strip, eqb_strip by (apply cell_ok_tagwf; assumption).
  apply scmp_seqb; apply ok_eqdom; assumption.
Qed.

Theorem eqb_refl : forall a, cell_ok a -> NoNaN a -> cell_eqb a a = true.
Proof. intros a Ha Na. apply cmp_eq; auto. apply cmp_refl, cell_ok_tagwf, Ha. Qed.

Theorem eqb_sym : forall a b, cell_ok a -> cell_ok b -> NoNaN a -> NoNaN b ->
  cell_eqb a b = cell_eqb b a.
Proof.
  intros a b Ha Hb Na Nb.
  pose proof (cmp_eq a b Ha Hb Na Nb) as H1. pose proof (cmp_eq b a Hb Ha Nb Na) as H2.
  pose proof (cmp_antisym a b (cell_ok_tagwf _ Ha) (cell_ok_tagwf _ Hb)) as H3.
  destruct (cell_eqb a b), (cell_eqb b a); auto.
  - destruct H1 as [_ H1]. rewrite H1 in H3 by reflexivity.
    destruct (cell_cmp b a); cbn in H3; try discriminate. symmetry. apply H2. reflexivity.
  - destruct H2 as [_ H2]. rewrite H2 in H3 by reflexivity. cbn in H3. apply H1. assumption.
Qed.

Theorem eqb_trans : forall a b c, cell_ok a -> cell_ok b -> cell_ok c -> NoNaN a -> NoNaN b -> NoNaN c ->
  cell_eqb a b = true -> cell_eqb b c = true -> cell_eqb a c = true.
Proof.
  intros a b c Ha Hb Hc Na Nb Nc E1 E2.
  apply cmp_eq in E1; auto. apply cmp_eq in E2; auto. apply cmp_eq; auto.
  apply (cmp_trans a b c Eq); auto using cell_ok_tagwf.
Qed.

(* equality ignores everything but the looked-through values: different types are never equal *)
Theorem eqb_rank : forall a b, tagwf a -> tagwf b ->
  rank (value a) <> rank (value b) -> cell_eqb a b = false.
Proof.
  intros a b Ha Hb. rewrite eqb_strip by assumption. rewrite !value_peel by assumption.
  rewrite <- (seqb_peel_l a), <- (seqb_peel_r _ b).
  generalize (peel_notag a) (peel_notag b). generalize (peel a) (peel b). intros x y Hx Hy.
  rewrite seqb_unfold by assumption.
  destruct x; try discriminate Hx; destruct y; try discriminate Hy; cbn [seqb_body rank]; congruence.
Qed.

(* the exceptions are real: NaN and opaque values are below/above nothing but not equal to
   themselves, and a doubly wrapped value breaks the antisymmetry of the order *)
Definition nan_bits : Z := 0x7FF8000000000000%Z.
Example nan_not_equal :
  f64_is_nan nan_bits = true /\
  cell_cmp (CReal nan_bits) (CReal nan_bits) = Eq /\ cell_eqb (CReal nan_bits) (CReal nan_bits) = false.
Proof. vm_compute. auto. Qed.
Example any_not_equal : cell_cmp CAny CAny = Eq /\ cell_eqb CAny CAny = false.
Proof. vm_compute. auto. Qed.
Example nested_tags_break_order :
  let b := CTag [] (CTag [] (CInt 1)) in
  cell_cmp (CInt 1) b = Lt /\ cell_cmp b (CInt 1) = Eq /\ cell_eqb (CInt 1) b = false /\ cell_eqb b (CInt 1) = true.
Proof. vm_compute. auto. Qed.
