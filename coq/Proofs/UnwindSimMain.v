(* UnwindSimMain.v (C15): eval is compile followed by run.  The token loops of the two
   builds run in lockstep (UnwindSimBuild.v); a failed build is unwound to the same state on
   both sides; after a successful build eval runs the new code in the context opened for
   the source, compile-then-run runs it in the outer context, and for an idle top-level
   state the two contexts agree on everything execution reads (UnwindSimVm.v). *)
From Xeh Require Import Model.Prelude Model.Bits Model.Codec Model.Cell Model.Lexer Model.Fmt
                        Model.Vm Model.Words Model.Build.
From Xeh Require Import Proofs.VmFrame Proofs.VmLimits Proofs.NoPanic Proofs.NoPanicBuild
                        Proofs.UnwindLists Proofs.UnwindFrame Proofs.UnwindInv Proofs.UnwindBuild
                        Proofs.UnwindMain Proofs.UnwindAfter Proofs.UnwindIrr Proofs.UnwindSimVm
                        Proofs.UnwindSimBuild.
Local Notation length := List.length.

#[local] Arguments Z.add : simpl never.
#[local] Arguments Z.sub : simpl never.
#[local] Arguments Z.of_nat : simpl never.
#[local] Arguments Z.to_nat : simpl never.

Lemma const_clobbers_0 pr s : const_clobbers pr 0 s = false.
Proof.
  unfold const_clobbers. destruct (next_name pr s) as [n s'|k p s'| |]; try reflexivity.
  destruct (dict_pos s' n); reflexivity.
Qed.

(* with mark 0 the watch of UnwindMain.v only reports user-defined immediate words *)
Lemma bad_word_0 fo pr rf s name : bad_word fo pr rf 0 s name = false ->
  forall x len, dict_entry s name <> Some (DFun true (FInterp x) len).
Proof.
  unfold bad_word. intros H x len E. rewrite E in H. discriminate.
Qed.

Section SimLoop.
  Variable fo : fops.
  Variable pr : string -> option Z.
  Variable rf : nat.
  Variable tE : ctx.
  Variable dlC : nat.
  Variable base0 : list ctx.
  Hypothesis HtE : cmode tE = MEval.

  Local Notation okc := (okc tE dlC base0).
  Local Notation rres := (rres tE dlC base0).
  Local Notation rel_st := (rel_st tE dlC base0).

  Lemma build_word_rel f name t md dl n' : okc t md dl n' -> quiet t ->
    bad_word fo pr rf 0 t name = false ->
    rres (build_word fo pr rf f name t) (build_word fo pr rf f name (wc t md dl n')).
  Proof.
    intros Ho Q BW. unfold build_word. rewrite !bind_get.
    change (dict_entry (wc t md dl n') name) with (dict_entry t name).
    pose proof (bad_word_0 fo pr rf t name BW) as NB. unfold bad_word in BW.
    destruct (dict_entry t name) as [[c|a|imm fr len]|];
      try (apply (rp_code_emit tE dlC base0 HtE); exact Ho);
      try (unfold fail; cbn [UnwindSimBuild.rres]; repeat split; apply rel_st_intro; exact Ho).
    destruct imm.
    - destruct fr as [x|w]; [exfalso; eapply NB; reflexivity|]. unfold run_immediate.
      destruct (immediate_fn fo pr rf f w) as [prog|] eqn:E; [|exact I].
      apply (rp_immediate_fn tE dlC base0 HtE fo pr rf f w prog E); assumption.
    - destruct fr; apply (rp_code_emit tE dlC base0 HtE); exact Ho.
  Qed.

  Theorem build1_rel : forall fuel depth t md dl n', okc t md dl n' ->
    calls_bad fo pr rf 0 fuel depth t = false ->
    rres (build1 fo pr rf fuel depth t) (build1 fo pr rf fuel depth (wc t md dl n')).
  Proof.
    induction fuel as [|f IH]; intros depth t md dl n' Ho CB; cbn [build1]; [exact I|].
    cbn [calls_bad] in CB. rewrite !bind_get.
    change (cmode (cx (wc t md dl n'))) with md. rewrite (okc_mode tE dlC base0 HtE _ _ _ _ Ho).
    change (has_pending_flow (wc t md dl n')) with (has_pending_flow t).
    set (pre := if mode_eqb (cmode (cx t)) MMeta && negb (has_pending_flow t) then run_m fo rf else ret tt) in *.
    rewrite !(bind_eq _ _ pre).
    assert (PRE : match pre t, pre (wc t md dl n') with
                  | ROk _ t0, ROk _ t0' => rel_st t0 t0' /\ quiet t0
                  | RErr k p t0, RErr k' p' t0' => k = k' /\ p = p' /\ rel_st t0 t0'
                  | RPanic, RPanic => True
                  | RUnsup, RUnsup => True
                  | _, _ => False
                  end).
    { subst pre. destruct (mode_eqb (cmode (cx t)) MMeta && negb (has_pending_flow t)) eqn:E.
      - apply andb_true_iff in E. destruct E as [E1 E2]. apply mode_eqb_meta in E1.
        pose proof (rpm_run_m tE dlC base0 HtE fo rf t md dl n' Ho E1) as X.
        destruct (run_m fo rf t) as [u t0|k p t0| |] eqn:ER;
          destruct (run_m fo rf (wc t md dl n')) as [u' t0'|k' p' t0'| |];
          cbn [UnwindSimBuild.rres] in *; try contradiction; auto.
        destruct X as [_ X]. split; [exact X|]. destruct u. intros _ _. eapply run_m_ok_stopped; eauto.
      - unfold ret. split; [apply rel_st_intro; exact Ho|].
        intros Q1 Q2. rewrite Q1, Q2 in E. cbn in E. discriminate. }
    clearbody pre.
    destruct (pre t) as [u t0|k p t0| |]; destruct (pre (wc t md dl n')) as [u' t0'|k' p' t0'| |];
      cbn [UnwindSimBuild.rres]; try contradiction; auto.
    destruct PRE as [(md0 & dl0 & n0 & Ho0 & ->) Q0].
    rewrite !(bind_eq _ _ (get_token pr)).
    pose proof (rp_get_token tE dlC base0 HtE pr t0 md0 dl0 n0 Ho0) as X.
    pose proof (next_token_keeps pr (tok_fuel t0) t0) as K1. fold (get_token pr t0) in K1.
    destruct (get_token pr t0) as [tk t1|k p t1| |];
      destruct (get_token pr (wc t0 md0 dl0 n0)) as [tk' t1'|k' p' t1'| |];
      cbn [UnwindSimBuild.rres res_all] in *; try contradiction; auto.
    destruct X as [<- (md1 & dl1 & n1 & Ho1 & ->)].
    destruct K1 as (K1 & K2 & K3). pose proof (quiet_keeps _ _ K1 K2 K3 Q0) as Q1.
    destruct tk as [|name|v].
    - (* end of input *)
      rewrite !bind_get. change (nested (wc t1 md1 dl1 n1)) with n1.
      change (has_pending_flow (wc t1 md1 dl1 n1)) with (has_pending_flow t1).
      assert (EL : length n1 = length (nested t1)).
      { destruct Ho1 as [(_ & -> & _ & _ & ->)|(_ & _ & _ & ups & _ & -> & ->)]; [reflexivity|].
        rewrite !app_length. reflexivity. }
      rewrite EL.
      destruct (negb (length (nested t1) =? depth)%nat);
        [unfold fail; cbn [UnwindSimBuild.rres]; repeat split; apply rel_st_intro; exact Ho1|].
      destruct (has_pending_flow t1); unfold fail, ret; cbn [UnwindSimBuild.rres]; repeat split;
        apply rel_st_intro; exact Ho1.
    - (* a word *)
      rewrite !bind_get. change (top_function_flow (wc t1 md1 dl1 n1)) with (top_function_flow t1).
      cbv zeta in CB.
      assert (W : (bad_word fo pr rf 0 t1 name ||
                   match build_word fo pr rf f name t1 with ROk _ s2 => calls_bad fo pr rf 0 f depth s2 | _ => false end) = false ->
                  rres ((build_word fo pr rf f name;; build1 fo pr rf f depth) t1)
                       ((build_word fo pr rf f name;; build1 fo pr rf f depth) (wc t1 md1 dl1 n1))).
      { intros CW. apply orb_false_iff in CW. destruct CW as [C1 C2].
        pose proof (build_word_rel f name t1 md1 dl1 n1 Ho1 Q1 C1) as X. rewrite !bind_eq.
        destruct (build_word fo pr rf f name t1) as [u1 t2|k p t2| |];
          destruct (build_word fo pr rf f name (wc t1 md1 dl1 n1)) as [u1' t2'|k' p' t2'| |];
          cbn [UnwindSimBuild.rres] in *; try contradiction; auto.
        destruct X as [_ (md2 & dl2 & n2 & Ho2 & ->)]. apply IH; assumption. }
      destruct (top_function_flow t1) as [[[idx st] ls]|]; [|apply W; exact CB].
      destruct (rposition ls name 0 None) as [i|]; [|apply W; exact CB].
      pose proof (rp_code_emit tE dlC base0 HtE (OLoadLocal i) t1 md1 dl1 n1 Ho1) as X. rewrite !bind_eq.
      destruct (code_emit (OLoadLocal i) t1) as [u1 t2|k p t2| |];
        destruct (code_emit (OLoadLocal i) (wc t1 md1 dl1 n1)) as [u1' t2'|k' p' t2'| |];
        cbn [UnwindSimBuild.rres] in *; try contradiction; auto.
      destruct X as [_ (md2 & dl2 & n2 & Ho2 & ->)]. apply IH; assumption.
    - (* a literal *)
      pose proof (rp_code_emit tE dlC base0 HtE (load_value_opcode v) t1 md1 dl1 n1 Ho1) as X. rewrite !bind_eq.
      unfold code_emit_value in *.
      destruct (code_emit (load_value_opcode v) t1) as [u1 t2|k p t2| |];
        destruct (code_emit (load_value_opcode v) (wc t1 md1 dl1 n1)) as [u1' t2'|k' p' t2'| |];
        cbn [UnwindSimBuild.rres] in *; try contradiction; auto.
      destruct X as [_ (md2 & dl2 & n2 & Ho2 & ->)]. apply IH; assumption.
  Qed.

  (* both sides are unwound to the same state *)
  Lemma unwind_rel t md dl n' depth i d h : okc t md dl n' -> length base0 = S depth ->
    build_unwind depth i d h (wc t md dl n') = build_unwind depth i d h t.
  Proof.
    intros Ho Hb. unfold build_unwind. cbv zeta.
    assert (X : exists ms ms', cx t :: nested t = ms ++ tE :: base0 /\
                  mkctx dl (cs_len (cx t)) (rs_len (cx t)) (fs_len (cx t)) (ls_len (cx t))
                        (ss_ptr (cx t)) (di_len (cx t)) (cip (cx t)) md :: n' = ms' ++ tC tE dlC :: base0 /\
                  length ms' = length ms).
    { destruct Ho as [(E1 & E2 & -> & -> & ->)|(Hm & -> & -> & ups & F & E1 & ->)].
      - exists [], []. cbn [app]. rewrite E1, E2. repeat split.
      - exists (cx t :: ups), (mkctx (ds_len (cx t)) (cs_len (cx t)) (rs_len (cx t)) (fs_len (cx t))
                                     (ls_len (cx t)) (ss_ptr (cx t)) (di_len (cx t)) (cip (cx t)) MMeta :: ups).
        cbn [app]. rewrite E1. repeat split. }
    destruct X as (ms & ms' & X1 & X2 & X3).
    rewrite (leave_contexts_chain (tC tE dlC) base0 depth Hb ms'); [|exact X2|].
    2:{ cbn [wc set_input set_nested nested]. apply (f_equal (@length ctx)) in X2. rewrite app_length in X2.
        cbn [length] in X2. lia. }
    rewrite (leave_contexts_chain tE base0 depth Hb ms); [|exact X1|].
    2:{ cbn [set_input nested]. apply (f_equal (@length ctx)) in X1. rewrite app_length in X1.
        cbn [length] in X1. lia. }
    destruct base0 as [|pv rs0]; [discriminate|].
    cbn [wc tC set_input set_nested set_cx set_code set_dbg set_dict set_flows set_rs set_loops set_special
         set_ds set_heap input nested cx code dbg dict flows rs loops special ds heap
         cs_len fs_len di_len rs_len ls_len ss_ptr length].
    cbn [length] in Hb. injection Hb as Hb. rewrite Hb.
    rewrite (proj2 (Nat.ltb_lt _ _) (Nat.lt_succ_diag_r depth)). reflexivity.
  Qed.
End SimLoop.

(* ---------- C15: eval = compile ;; run ---------- *)
(* an idle top-level state: no nested context, the outer context evaluates, the machine is
   stopped exactly at the end of the code, and no frame / loop / collection is pending above
   the marks of the outer context *)
Definition idle_top (s : state) : Prop :=
  nested s = [] /\ cmode (cx s) = MEval /\ ip s = length (code s) /\
  rs_len (cx s) = length (rs s) /\ ls_len (cx s) = length (loops s) /\
  ss_ptr (cx s) = length (special s).

Lemma set_nested_same s : set_nested s (nested s) = s.
Proof. destruct s; reflexivity. Qed.

Lemma idle_ctx s : idle_top s ->
  cx s = mkctx (ds_len (tmp_ctx s MEval)) (cs_len (cx s)) (rs_len (tmp_ctx s MEval)) (fs_len (cx s))
               (ls_len (tmp_ctx s MEval)) (ss_ptr (tmp_ctx s MEval)) (di_len (cx s))
               (cip (tmp_ctx s MEval)) (cmode (tmp_ctx s MEval)).
Proof.
  unfold idle_top, ip, tmp_ctx. destruct s as [? ? ? ? ? ? ? ? ? ? ? c ? ? ? ? ? ? ? ? ?]. destruct c.
  cbn. intros (_ & -> & -> & -> & -> & ->). reflexivity.
Qed.

Lemma idle_start s s2 dlC : idle_top s -> cx s2 = tmp_ctx s MEval ->
  set_cx (set_nested (wc s2 MCompile dlC [cx s]) []) (cx s) =
  chg (set_nested s2 []) (cs_len (cx s)) (fs_len (cx s)) (di_len (cx s)) [].
Proof.
  intros Hi Ec. unfold chg. cbn [wc set_nested set_cx cx nested]. rewrite Ec.
  rewrite <- (idle_ctx s Hi). reflexivity.
Qed.

Lemma idle_fin s s0 s3 : idle_top s -> cx s0 = tmp_ctx s MEval -> nested s0 = [] -> frame_rel s0 s3 ->
  set_cx s3 (if mode_eqb (cmode (cx s)) MEval then set_ctx_ip (cx s) (ip s3) else cx s) =
  chg s3 (cs_len (cx s)) (fs_len (cx s)) (di_len (cx s)) [].
Proof.
  intros Hi Ec En F3. destruct F3 as (_ & _ & _ & A4 & _ & _ & _ & _ & _ & _ & A11 & _).
  assert (F1 : ds_len (cx s3) = ds_len (tmp_ctx s MEval)) by (rewrite A11, Ec; reflexivity).
  assert (F2 : rs_len (cx s3) = rs_len (tmp_ctx s MEval)) by (rewrite A11, Ec; reflexivity).
  assert (F3 : ls_len (cx s3) = ls_len (tmp_ctx s MEval)) by (rewrite A11, Ec; reflexivity).
  assert (F4 : ss_ptr (cx s3) = ss_ptr (tmp_ctx s MEval)) by (rewrite A11, Ec; reflexivity).
  assert (F5 : cmode (cx s3) = cmode (tmp_ctx s MEval)) by (rewrite A11, Ec; reflexivity).
  unfold chg. rewrite F1, F2, F3, F4, F5.
  destruct Hi as (In & Im & Hi'). rewrite Im. cbn [mode_eqb].
  rewrite (idle_ctx s (conj In (conj Im Hi'))) at 1. unfold ip. cbn [set_ctx_ip ds_len cs_len rs_len fs_len ls_len ss_ptr di_len cip cmode].
  rewrite En in A4.
  match goal with |- ?a = set_nested ?b [] =>
    assert (X : set_nested b [] = b) by (rewrite <- (set_nested_same b) at 2; cbn [set_cx nested]; rewrite A4; reflexivity);
    rewrite X end.
  reflexivity.
Qed.

Theorem eval_is_compile_run : forall fo pr rf fuel src s s1,
  idle_top s ->
  (context_open MEval ;; intern_source src) s = ROk tt s1 ->
  calls_bad fo pr rf 0 fuel (length (nested s1)) s1 = false ->
  eval fo pr rf fuel src s = (compile fo pr rf fuel src ;; run_m fo rf) s.
Proof.
  intros fo pr rf fuel src s s1 (In & Im & Ii & Ir & Il & Is) E1 CB.
  set (tE := tmp_ctx s MEval). set (dlC := length (ds s)). set (base0 := cx s :: nested s).
  assert (HtE : cmode tE = MEval) by reflexivity.
  (* the two opened states *)
  assert (E1C : (context_open MCompile ;; intern_source src) s = ROk tt (wc s1 MCompile dlC base0)).
  { unfold bind, context_open, intern_source in *. cbv zeta in *. injection E1 as <-.
    rewrite Im. reflexivity. }
  assert (Ho1 : okc tE dlC base0 s1 MCompile dlC base0).
  { left. unfold bind, context_open, intern_source in E1. cbv zeta in E1. injection E1 as <-.
    cbn [set_input set_sources set_nested set_cx cx nested].
    repeat split; unfold tE, tmp_ctx; try rewrite Im; reflexivity. }
  assert (N1 : length (nested s1) = length base0).
  { destruct Ho1 as [(_ & -> & _)|(_ & _ & _ & ups & _ & _ & Eb)]; [reflexivity|].
    apply (f_equal (@length ctx)) in Eb. rewrite app_length in Eb. cbn [length] in Eb. lia. }
  pose proof (build1_rel fo pr rf tE dlC base0 HtE fuel (length (nested s1)) s1 MCompile dlC base0 Ho1 CB) as R.
  unfold eval, compile. rewrite bind_eq. unfold build_from_source. cbv zeta.
  rewrite E1, E1C. change (nested (wc s1 MCompile dlC base0)) with base0.
  rewrite N1 in *.
  destruct (build1 fo pr rf fuel (length base0) s1) as [u s2|k p s2| |] eqn:B1;
    destruct (build1 fo pr rf fuel (length base0) (wc s1 MCompile dlC base0)) as [u' s2'|k' p' s2'| |];
    cbn [UnwindSimBuild.rres] in R; try contradiction; try reflexivity.
  - (* both builds succeed *)
    destruct R as [_ (md & dl & n' & Ho2 & ->)]. destruct u.
    destruct (build1_ok_exit fo pr rf _ _ _ _ B1) as (X1 & _ & _).
    assert (C1 : cx s2 = tE /\ nested s2 = base0 /\ md = MCompile /\ dl = dlC /\ n' = base0).
    { destruct Ho2 as [H|(_ & _ & _ & ups & _ & E & _)]; [exact H|].
      rewrite E, app_length in X1. cbn [length] in X1. lia. }
    destruct C1 as (Ec & En & -> & -> & ->).
    unfold context_close. change (nested (wc s2 MCompile dlC base0)) with base0. rewrite En.
    subst base0. cbv zeta. rewrite In.
    change (cmode (cx (set_nested (wc s2 MCompile dlC [cx s]) []))) with MCompile.
    change (cmode (cx (set_nested s2 []))) with (cmode (cx s2)). rewrite Ec. cbn [tE tmp_ctx cmode].
    cbv beta iota.
    set (s0 := set_nested s2 []).
    assert (Hidle : idle_top s) by (repeat split; assumption).
    rewrite (idle_start s s2 dlC Hidle Ec), run_m_chg.
    pose proof (run_m_frame fo rf s0) as FR.
    assert (K : forall s3, frame_rel s0 s3 ->
              set_cx s3 (if mode_eqb (cmode (cx s)) MEval then set_ctx_ip (cx s) (ip s3) else cx s) =
              chg s3 (cs_len (cx s)) (fs_len (cx s)) (di_len (cx s)) []).
    { intros s3 F3. apply (idle_fin s s0 s3 Hidle); [exact Ec|reflexivity|exact F3]. }
    fold s0.
    destruct (run_m fo rf s0) as [u3 s3|k3 p3 s3| |]; cbn [res_map res_all] in *; try reflexivity;
      rewrite (K s3 FR); try destruct u3; reflexivity.
  - (* both builds fail: the same unwinding *)
    destruct R as (<- & <- & md & dl & n' & Ho2 & ->).
    change (nested (wc s1 MCompile dlC base0)) with base0.
    rewrite (unwind_rel tE dlC base0 s2 md dl n' (length (nested s)) _ _ _ Ho2 eq_refl). reflexivity.
Qed.
