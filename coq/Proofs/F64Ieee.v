(* F64Ieee.v: the Flocq instance of Model/F64.v IS IEEE-754 binary64 arithmetic.
   Bit patterns <-> Flocq floats, the real value [fval] of a pattern in terms of the fields the
   model reads, and Bplus/Bminus/Bmult/Bdiv_correct transported to fl_add/fl_sub/fl_mul/fl_div.
   Depends on the axioms of Flocq / Reals (classic, sig_not_dec, sig_forall_dec, funext). *)
From Coq Require Import ZArith Reals Lia Psatz.
From Flocq Require Import Core.Core IEEE754.BinarySingleNaN IEEE754.Binary IEEE754.Bits.
From Xeh Require Import Model.Prelude Model.Cell Model.F64c Model.Words Model.Boot Model.F64.
From Xeh Require Import Proofs.ArithNum Proofs.F64cProofs.
Local Open Scope Z_scope.

Lemma pat_id p : f64_pat p -> pat p = p.
Proof. unfold f64_pat, pat. intros H. apply Z.mod_small. exact H. Qed.

Lemma pat_range p : f64_pat (pat p).
Proof. unfold f64_pat, pat. apply Z.mod_pos_bound. reflexivity. Qed.

Lemma bits_round_trip p : f64_pat p -> bits_of_b64 (b64_of_bits p) = p.
Proof. intros H. exact (bits_of_binary_float_of_bits 52 11 eq_refl eq_refl eq_refl p H). Qed.

Lemma b64_round_trip x : b64_of_bits (bits_of_b64 x) = x.
Proof. exact (binary_float_of_bits_of_binary_float 52 11 eq_refl eq_refl eq_refl x). Qed.

Lemma bits_range x : f64_pat (bits_of_b64 x).
Proof. apply (bits_of_binary_float_range 52 11); reflexivity. Qed.

Lemma split_fields p : f64_pat p -> split_bits 52 11 p = (f64_neg p, f64_man p, f64_exp p).
Proof.
  intros H. unfold split_bits, f64_neg, f64_man, f64_exp.
  rewrite testbit63 by exact H. rewrite Z.shiftr_div_pow2 by lia.
  reflexivity.
Qed.

Definition ff_of (p : Z) : full_float :=
  if f64_exp p =? 0 then
    (if f64_man p =? 0 then F754_zero (f64_neg p) else F754_finite (f64_neg p) (Z.to_pos (f64_man p)) (-1074))
  else if f64_exp p =? 2047 then
    (if f64_man p =? 0 then F754_infinity (f64_neg p) else F754_nan (f64_neg p) (Z.to_pos (f64_man p)))
  else F754_finite (f64_neg p) (Z.to_pos (2 ^ 52 + f64_man p)) (f64_exp p - 1075).

Lemma b64_FF p : f64_pat p -> B2FF 53 1024 (b64_of_bits p) = ff_of p.
Proof.
  intros H. unfold b64_of_bits, binary_float_of_bits. rewrite B2FF_FF2B.
  unfold binary_float_of_bits_aux. rewrite (split_fields p H).
  destruct (f64_decompose p H) as (_ & He & Hm).
  unfold ff_of.
  destruct (Z.eqb_spec (f64_exp p) 0) as [E0|E0].
  - rewrite Zeq_bool_true by exact E0.
    destruct (Z.eqb_spec (f64_man p) 0) as [M0|M0].
    + rewrite M0. reflexivity.
    + destruct (f64_man p) eqn:EM; try lia. reflexivity.
  - rewrite Zeq_bool_false by exact E0.
    change (2 ^ 11 - 1) with 2047.
    destruct (Z.eqb_spec (f64_exp p) 2047) as [E1|E1].
    + rewrite Zeq_bool_true by exact E1.
      destruct (Z.eqb_spec (f64_man p) 0) as [M0|M0].
      * rewrite M0. reflexivity.
      * destruct (f64_man p) eqn:EM; try lia. reflexivity.
    + rewrite Zeq_bool_false by exact E1.
      match goal with |- context [f64_exp p + ?e - 1] => change e with (-1074) end.
      replace (f64_exp p + -1074 - 1) with (f64_exp p - 1075) by lia.
      replace (f64_man p + 2 ^ 52) with (2 ^ 52 + f64_man p) by lia.
      destruct (2 ^ 52 + f64_man p) eqn:EM; try lia. reflexivity.
Qed.

Definition fval (p : Z) : R := B2R 53 1024 (b64_of_bits p).

Lemma b64_is_finite p : f64_pat p -> is_finite 53 1024 (b64_of_bits p) = negb (f64_exp p =? 2047).
Proof.
  intros H. rewrite <- is_finite_B2FF, (b64_FF p H). unfold ff_of.
  destruct (Z.eqb_spec (f64_exp p) 0) as [E0|E0].
  - rewrite E0. destruct (f64_man p =? 0); reflexivity.
  - destruct (f64_exp p =? 2047); [destruct (f64_man p =? 0)|]; reflexivity.
Qed.

Lemma b64_is_nan p : f64_pat p -> is_nan 53 1024 (b64_of_bits p) = f64_is_nan p.
Proof.
  intros H. rewrite <- is_nan_B2FF, (b64_FF p H). unfold ff_of, f64_is_nan.
  destruct (Z.eqb_spec (f64_exp p) 0) as [E0|E0].
  - rewrite E0. destruct (f64_man p =? 0); reflexivity.
  - destruct (f64_exp p =? 2047); [destruct (f64_man p =? 0)|]; reflexivity.
Qed.

Lemma b64_sign p : f64_pat p -> Bsign 53 1024 (b64_of_bits p) = f64_neg p.
Proof.
  intros H. unfold b64_of_bits, binary_float_of_bits. rewrite Bsign_FF2B.
  pose proof (b64_FF p H) as F. unfold b64_of_bits, binary_float_of_bits in F. rewrite B2FF_FF2B in F.
  rewrite F. unfold ff_of.
  destruct (f64_exp p =? 0); [destruct (f64_man p =? 0); reflexivity|].
  destruct (f64_exp p =? 2047); [destruct (f64_man p =? 0)|]; reflexivity.
Qed.

Lemma fval_spec p : f64_pat p -> f64_exp p <> 2047 ->
  fval p = F2R (Float radix2 (cond_Zopp (f64_neg p) (f64_mant p)) (f64_ex p)).
Proof.
  intros H Hf. unfold fval. rewrite <- FF2R_B2FF, (b64_FF p H). unfold ff_of, f64_mant, f64_ex.
  destruct (f64_decompose p H) as (_ & He & Hm).
  destruct (Z.eqb_spec (f64_exp p) 0) as [E0|E0].
  - destruct (Z.eqb_spec (f64_man p) 0) as [M0|M0].
    + rewrite M0. cbn [FF2R]. destruct (f64_neg p); cbn [cond_Zopp]; rewrite F2R_0; reflexivity.
    + cbn [FF2R]. rewrite Z2Pos.id by lia. reflexivity.
  - replace (f64_exp p =? 2047) with false by lia.
    cbn [FF2R]. rewrite Z2Pos.id by lia. reflexivity.
Qed.

Lemma fval_nonfinite p : f64_pat p -> f64_exp p = 2047 -> fval p = 0%R.
Proof.
  intros H Hf. unfold fval. rewrite <- FF2R_B2FF, (b64_FF p H). unfold ff_of. rewrite Hf.
  cbn. destruct (f64_man p =? 0); reflexivity.
Qed.

(* ---------- transport along bits_of_b64 ---------- *)
Lemma fval_bits r : fval (bits_of_b64 r) = B2R 53 1024 r.
Proof. unfold fval. rewrite b64_round_trip. reflexivity. Qed.
Lemma finite_bits r : is_finite 53 1024 r = negb (f64_exp (bits_of_b64 r) =? 2047).
Proof. rewrite <- (b64_is_finite _ (bits_range r)), b64_round_trip. reflexivity. Qed.
Lemma nan_bits r : is_nan 53 1024 r = f64_is_nan (bits_of_b64 r).
Proof. rewrite <- (b64_is_nan _ (bits_range r)), b64_round_trip. reflexivity. Qed.
Lemma sign_bits r : Bsign 53 1024 r = f64_neg (bits_of_b64 r).
Proof. rewrite <- (b64_sign _ (bits_range r)), b64_round_trip. reflexivity. Qed.

Definition rnd64 (x : R) : R := round radix2 (FLT_exp (-1074) 53) ZnearestE x.
Definition f64_inf (s : bool) : Z := f64_sign_bit s + 2047 * 2 ^ 52.
Definition f64_default_nan : Z := 2047 * 2 ^ 52 + 2 ^ 51.

Lemma overflow_bits (r : binary64) s : B2FF 53 1024 r = binary_overflow 53 1024 mode_NE s -> bits_of_b64 r = f64_inf s.
Proof.
  intros H. destruct r; try discriminate H. cbn in H. injection H as ->. destruct s; reflexivity.
Qed.

Lemma fin_true p : f64_pat p -> f64_exp p <> 2047 -> is_finite 53 1024 (b64_of_bits p) = true.
Proof. intros H F. rewrite b64_is_finite by exact H. destruct (Z.eqb_spec (f64_exp p) 2047); [contradiction|reflexivity]. Qed.

Lemma add_correct x y : f64_pat x -> f64_pat y -> f64_exp x <> 2047 -> f64_exp y <> 2047 ->
  ((Rabs (rnd64 (fval x + fval y)) < bpow radix2 1024)%R ->
     fval (fl_add x y) = rnd64 (fval x + fval y) /\ f64_exp (fl_add x y) <> 2047 /\
     f64_neg (fl_add x y) = match Rcompare (fval x + fval y) 0 with
                            | Eq => f64_neg x && f64_neg y | Lt => true | Gt => false end) /\
  ((bpow radix2 1024 <= Rabs (rnd64 (fval x + fval y)))%R ->
     fl_add x y = f64_inf (f64_neg x) /\ f64_neg x = f64_neg y).
Proof.
  intros Hx Hy Fx Fy. unfold fl_add. rewrite !pat_id by assumption.
  pose proof (Bplus_correct 53 1024 eq_refl eq_refl binop_nan_pl64 mode_NE _ _ (fin_true x Hx Fx) (fin_true y Hy Fy)) as C.
  fold (fval x) (fval y) in C. change (round radix2 _ _ ?v) with (rnd64 v) in C.
  split; intros HB.
  - rewrite Rlt_bool_true in C by exact HB. destruct C as (C1 & C2 & C3).
    rewrite fval_bits. split; [exact C1|]. split.
    + unfold b64_plus. rewrite finite_bits in C2. destruct (Z.eqb_spec (f64_exp (bits_of_b64 (Bplus 53 1024 eq_refl eq_refl binop_nan_pl64 mode_NE (b64_of_bits x) (b64_of_bits y)))) 2047); [discriminate C2|assumption].
    + unfold b64_plus. rewrite <- sign_bits, C3, !b64_sign by assumption. reflexivity.
  - rewrite Rlt_bool_false in C by exact HB. destruct C as (C1 & C2).
    rewrite !b64_sign in * by assumption. split; [|exact C2].
    apply overflow_bits. exact C1.
Qed.

Lemma low63 p : f64_pat p -> p mod 2 ^ 63 = f64_exp p * 2 ^ 52 + f64_man p.
Proof.
  intros H. destruct (f64_decompose p H) as (D & He & Hm).
  rewrite D at 1. unfold f64_sign_bit. rewrite p52 in *. rewrite p63.
  destruct (f64_neg p); lia.
Qed.

Lemma is_zero_fields p : f64_pat p -> f64_is_zero p = (f64_exp p =? 0) && (f64_man p =? 0).
Proof.
  intros H. unfold f64_is_zero. rewrite (low63 p H).
  destruct (f64_decompose p H) as (_ & He & Hm). rewrite p52 in *. lia.
Qed.

Lemma key_fields p : f64_pat p ->
  f64_key p = if f64_neg p then - (f64_exp p * 2 ^ 52 + f64_man p) else f64_exp p * 2 ^ 52 + f64_man p.
Proof. intros H. unfold f64_key. rewrite (low63 p H). reflexivity. Qed.

Lemma B2FF_zero (b : binary64) s : B2FF 53 1024 b = F754_zero s -> b = B754_zero 53 1024 s.
Proof. destruct b; intros E; try discriminate E. now injection E as ->. Qed.
Lemma B2FF_inf (b : binary64) s : B2FF 53 1024 b = F754_infinity s -> b = B754_infinity 53 1024 s.
Proof. destruct b; intros E; try discriminate E. now injection E as ->. Qed.
Lemma B2FF_nan (b : binary64) s pl : B2FF 53 1024 b = F754_nan s pl -> exists H, b = B754_nan 53 1024 s pl H.
Proof. destruct b; intros E; try discriminate E. injection E as -> ->. eexists. reflexivity. Qed.
Lemma B2FF_fin (b : binary64) s m e : B2FF 53 1024 b = F754_finite s m e -> exists H, b = B754_finite 53 1024 s m e H.
Proof. destruct b; intros E; try discriminate E. injection E as -> -> ->. eexists. reflexivity. Qed.

Lemma b64_cases p : f64_pat p ->
  (f64_is_zero p = true /\ b64_of_bits p = B754_zero 53 1024 (f64_neg p)) \/
  (f64_exp p = 2047 /\ f64_man p = 0 /\ b64_of_bits p = B754_infinity 53 1024 (f64_neg p)) \/
  (f64_is_nan p = true /\ exists pl H, b64_of_bits p = B754_nan 53 1024 (f64_neg p) pl H) \/
  (f64_exp p <> 2047 /\ f64_is_zero p = false /\
   exists H, b64_of_bits p = B754_finite 53 1024 (f64_neg p) (Z.to_pos (f64_mant p)) (f64_ex p) H).
Proof.
  intros Hp. pose proof (b64_FF p Hp) as F. unfold ff_of in F.
  rewrite (is_zero_fields p Hp). unfold f64_is_nan, f64_mant, f64_ex.
  destruct (f64_decompose p Hp) as (_ & He & Hm).
  destruct (Z.eqb_spec (f64_exp p) 0) as [E0|E0].
  - destruct (Z.eqb_spec (f64_man p) 0) as [M0|M0].
    + left. split; [reflexivity|]. apply B2FF_zero. exact F.
    + right. right. right. split; [lia|]. split; [reflexivity|]. apply B2FF_fin. exact F.
  - destruct (Z.eqb_spec (f64_exp p) 2047) as [E1|E1].
    + destruct (Z.eqb_spec (f64_man p) 0) as [M0|M0].
      * right. left. split; [assumption|]. split; [assumption|]. apply B2FF_inf. exact F.
      * right. right. left. split; [reflexivity|]. eexists. apply B2FF_nan. exact F.
    + right. right. right. split; [assumption|]. split; [reflexivity|]. apply B2FF_fin. exact F.
Qed.

Lemma fin_bits_ne (r : binary64) : is_finite 53 1024 r = true -> f64_exp (bits_of_b64 r) <> 2047.
Proof. rewrite finite_bits. destruct (Z.eqb_spec (f64_exp (bits_of_b64 r)) 2047); [discriminate|auto]. Qed.

Lemma sub_correct x y : f64_pat x -> f64_pat y -> f64_exp x <> 2047 -> f64_exp y <> 2047 ->
  ((Rabs (rnd64 (fval x - fval y)) < bpow radix2 1024)%R ->
     fval (fl_sub x y) = rnd64 (fval x - fval y) /\ f64_exp (fl_sub x y) <> 2047 /\
     f64_neg (fl_sub x y) = match Rcompare (fval x - fval y) 0 with
                            | Eq => f64_neg x && negb (f64_neg y) | Lt => true | Gt => false end) /\
  ((bpow radix2 1024 <= Rabs (rnd64 (fval x - fval y)))%R ->
     fl_sub x y = f64_inf (f64_neg x) /\ f64_neg x = negb (f64_neg y)).
Proof.
  intros Hx Hy Fx Fy. unfold fl_sub. rewrite !pat_id by assumption.
  pose proof (Bminus_correct 53 1024 eq_refl eq_refl binop_nan_pl64 mode_NE _ _ (fin_true x Hx Fx) (fin_true y Hy Fy)) as C.
  fold (fval x) (fval y) in C. change (round radix2 _ _ ?v) with (rnd64 v) in C.
  split; intros HB.
  - rewrite Rlt_bool_true in C by exact HB. destruct C as (C1 & C2 & C3).
    rewrite fval_bits. split; [exact C1|]. split.
    + apply fin_bits_ne. exact C2.
    + unfold b64_minus. rewrite <- sign_bits, C3, !b64_sign by assumption. reflexivity.
  - rewrite Rlt_bool_false in C by exact HB. destruct C as (C1 & C2).
    rewrite !b64_sign in * by assumption. split; [|exact C2].
    apply overflow_bits. exact C1.
Qed.

Lemma mul_correct x y : f64_pat x -> f64_pat y -> f64_exp x <> 2047 -> f64_exp y <> 2047 ->
  ((Rabs (rnd64 (fval x * fval y)) < bpow radix2 1024)%R ->
     fval (fl_mul x y) = rnd64 (fval x * fval y) /\ f64_exp (fl_mul x y) <> 2047 /\
     f64_neg (fl_mul x y) = xorb (f64_neg x) (f64_neg y)) /\
  ((bpow radix2 1024 <= Rabs (rnd64 (fval x * fval y)))%R ->
     fl_mul x y = f64_inf (xorb (f64_neg x) (f64_neg y))).
Proof.
  intros Hx Hy Fx Fy. unfold fl_mul. rewrite !pat_id by assumption.
  pose proof (Bmult_correct 53 1024 eq_refl eq_refl binop_nan_pl64 mode_NE (b64_of_bits x) (b64_of_bits y)) as C.
  fold (fval x) (fval y) in C. change (round radix2 _ _ ?v) with (rnd64 v) in C.
  rewrite (fin_true x Hx Fx), (fin_true y Hy Fy) in C. rewrite !b64_sign in C by assumption.
  split; intros HB.
  - rewrite Rlt_bool_true in C by exact HB. destruct C as (C1 & C2 & C3).
    rewrite fval_bits. split; [exact C1|]. split.
    + apply fin_bits_ne. exact C2.
    + unfold b64_mult. rewrite <- sign_bits. apply C3.
      destruct (Bmult 53 1024 eq_refl eq_refl binop_nan_pl64 mode_NE (b64_of_bits x) (b64_of_bits y)); try reflexivity; discriminate C2.
  - rewrite Rlt_bool_false in C by exact HB. apply overflow_bits. exact C.
Qed.

Lemma div_correct x y : f64_pat x -> f64_pat y -> f64_exp x <> 2047 -> f64_exp y <> 2047 -> fval y <> 0%R ->
  ((Rabs (rnd64 (fval x / fval y)) < bpow radix2 1024)%R ->
     fval (fl_div x y) = rnd64 (fval x / fval y) /\ f64_exp (fl_div x y) <> 2047 /\
     f64_neg (fl_div x y) = xorb (f64_neg x) (f64_neg y)) /\
  ((bpow radix2 1024 <= Rabs (rnd64 (fval x / fval y)))%R ->
     fl_div x y = f64_inf (xorb (f64_neg x) (f64_neg y))).
Proof.
  intros Hx Hy Fx Fy Ny. unfold fl_div. rewrite !pat_id by assumption.
  pose proof (Bdiv_correct 53 1024 eq_refl eq_refl binop_nan_pl64 mode_NE (b64_of_bits x) (b64_of_bits y) Ny) as C.
  fold (fval x) (fval y) in C. change (round radix2 _ _ ?v) with (rnd64 v) in C.
  rewrite (fin_true x Hx Fx) in C. rewrite !b64_sign in C by assumption.
  split; intros HB.
  - rewrite Rlt_bool_true in C by exact HB. destruct C as (C1 & C2 & C3).
    rewrite fval_bits. split; [exact C1|]. split.
    + apply fin_bits_ne. exact C2.
    + unfold b64_div. rewrite <- sign_bits. apply C3.
      destruct (Bdiv 53 1024 eq_refl eq_refl binop_nan_pl64 mode_NE (b64_of_bits x) (b64_of_bits y)); try reflexivity; discriminate C2.
  - rewrite Rlt_bool_false in C by exact HB. apply overflow_bits. exact C.
Qed.

Lemma fval_zero_iff p : f64_pat p -> f64_exp p <> 2047 -> (fval p = 0%R <-> f64_is_zero p = true).
Proof.
  intros H F. rewrite (fval_spec p H F). rewrite (is_zero_fields p H). unfold f64_mant.
  destruct (f64_decompose p H) as (_ & He & Hm).
  split.
  - intros E. apply eq_0_F2R in E.
    destruct (Z.eqb_spec (f64_exp p) 0); destruct (f64_neg p); cbn [cond_Zopp] in E; lia.
  - intros E. assert (f64_exp p = 0 /\ f64_man p = 0) as (E0 & M0) by lia. rewrite E0, M0. cbn [Z.eqb].
    destruct (f64_neg p); cbn [cond_Zopp]; apply F2R_0.
Qed.

(* ---------- special operands: the IEEE table of Bplus / Bminus / Bmult / Bdiv ---------- *)
Notation binf := (B754_infinity 53 1024).
Notation bzero := (B754_zero 53 1024).
Notation bnanp := (is_nan 53 1024).

Lemma plus_nan_l (a b : binary64) : bnanp a = true -> b64_plus mode_NE a b = a.
Proof. destruct a; try discriminate. intros _. destruct b; reflexivity. Qed.
Lemma plus_nan_r (a b : binary64) : bnanp a = false -> bnanp b = true -> b64_plus mode_NE a b = b.
Proof. destruct b; try discriminate. intros Ha _. destruct a; try discriminate Ha; reflexivity. Qed.
Lemma minus_nan_l (a b : binary64) : bnanp a = true -> b64_minus mode_NE a b = a.
Proof. destruct a; try discriminate. intros _. destruct b; reflexivity. Qed.
Lemma minus_nan_r (a b : binary64) : bnanp a = false -> bnanp b = true -> b64_minus mode_NE a b = b.
Proof. destruct b; try discriminate. intros Ha _. destruct a; try discriminate Ha; reflexivity. Qed.
Lemma mult_nan_l (a b : binary64) : bnanp a = true -> b64_mult mode_NE a b = a.
Proof. destruct a; try discriminate. intros _. destruct b; reflexivity. Qed.
Lemma mult_nan_r (a b : binary64) : bnanp a = false -> bnanp b = true -> b64_mult mode_NE a b = b.
Proof. destruct b; try discriminate. intros Ha _. destruct a; try discriminate Ha; reflexivity. Qed.
Lemma div_nan_l (a b : binary64) : bnanp a = true -> b64_div mode_NE a b = a.
Proof. destruct a; try discriminate. intros _. destruct b; reflexivity. Qed.
Lemma div_nan_r (a b : binary64) : bnanp a = false -> bnanp b = true -> b64_div mode_NE a b = b.
Proof. destruct b; try discriminate. intros Ha _. destruct a; try discriminate Ha; reflexivity. Qed.

(* NaN in, the same NaN out: the first NaN operand is returned unchanged (sign and payload kept,
   a signalling NaN is NOT quieted) *)
Lemma nan_propagates x y : f64_pat x -> f64_pat y -> f64_is_nan x || f64_is_nan y = true ->
  let r := if f64_is_nan x then x else y in
  fl_add x y = r /\ fl_sub x y = r /\ fl_mul x y = r /\ fl_div x y = r.
Proof.
  intros Hx Hy N. unfold fl_add, fl_sub, fl_mul, fl_div. rewrite !pat_id by assumption.
  rewrite <- (b64_is_nan x Hx), <- (b64_is_nan y Hy) in N.
  rewrite <- (b64_is_nan x Hx).
  destruct (bnanp (b64_of_bits x)) eqn:Nx; cbv zeta.
  - rewrite plus_nan_l, minus_nan_l, mult_nan_l, div_nan_l by exact Nx.
    rewrite bits_round_trip by exact Hx. repeat split.
  - cbn [orb] in N.
    rewrite plus_nan_r, minus_nan_r, mult_nan_r, div_nan_r by assumption.
    rewrite bits_round_trip by exact Hy. repeat split.
Qed.

Definition f64_zero (s : bool) : Z := f64_sign_bit s.

(* the invalid operations give the default quiet NaN 0x7ff8000000000000 (sign +) *)
Lemma invalid_ops s t :
  fl_add (f64_inf s) (f64_inf (negb s)) = f64_default_nan /\
  fl_sub (f64_inf s) (f64_inf s) = f64_default_nan /\
  fl_mul (f64_inf s) (f64_zero t) = f64_default_nan /\
  fl_mul (f64_zero t) (f64_inf s) = f64_default_nan /\
  fl_div (f64_zero s) (f64_zero t) = f64_default_nan /\
  fl_div (f64_inf s) (f64_inf t) = f64_default_nan.
Proof. destruct s, t; vm_compute; repeat split. Qed.

Lemma b64_inf s : b64_of_bits (f64_inf s) = binf s.
Proof. destruct s; apply B2FF_inj; reflexivity. Qed.
Lemma b64_zero s : b64_of_bits (f64_zero s) = bzero s.
Proof. destruct s; apply B2FF_inj; reflexivity. Qed.
Lemma bits_inf s : bits_of_b64 (binf s) = f64_inf s.
Proof. destruct s; reflexivity. Qed.
Lemma bits_zero s : bits_of_b64 (bzero s) = f64_zero s.
Proof. destruct s; reflexivity. Qed.
Lemma inf_pat s : f64_pat (f64_inf s).
Proof. destruct s; unfold f64_pat; cbn; lia. Qed.
Lemma zero_pat s : f64_pat (f64_zero s).
Proof. destruct s; unfold f64_pat; cbn; lia. Qed.

(* an infinite operand with a finite one; two infinities *)
Lemma inf_ops s y : f64_pat y -> f64_exp y <> 2047 ->
  fl_add (f64_inf s) y = f64_inf s /\ fl_add y (f64_inf s) = f64_inf s /\
  fl_sub (f64_inf s) y = f64_inf s /\ fl_sub y (f64_inf s) = f64_inf (negb s) /\
  fl_div (f64_inf s) y = f64_inf (xorb s (f64_neg y)) /\
  fl_div y (f64_inf s) = f64_zero (xorb (f64_neg y) s) /\
  (f64_is_zero y = false ->
   fl_mul (f64_inf s) y = f64_inf (xorb s (f64_neg y)) /\ fl_mul y (f64_inf s) = f64_inf (xorb (f64_neg y) s)).
Proof.
  intros Hy Fy. unfold fl_add, fl_sub, fl_mul, fl_div.
  rewrite !pat_id by (assumption || apply inf_pat). rewrite b64_inf.
  destruct (b64_cases y Hy) as [(Z0 & E)|[(E1 & _)|[(N & _)|(_ & Z0 & H & E)]]].
  - rewrite E, Z0. repeat split; try (destruct s, (f64_neg y); reflexivity). all: discriminate.
  - contradiction.
  - unfold f64_is_nan in N. destruct (Z.eqb_spec (f64_exp y) 2047); [contradiction|discriminate N].
  - rewrite E. repeat split; destruct s, (f64_neg y); reflexivity.
Qed.

Lemma inf_inf s t :
  fl_add (f64_inf s) (f64_inf s) = f64_inf s /\ fl_sub (f64_inf s) (f64_inf (negb s)) = f64_inf s /\
  fl_mul (f64_inf s) (f64_inf t) = f64_inf (xorb s t).
Proof. destruct s, t; vm_compute; repeat split. Qed.

(* a non-zero finite dividend over a zero: the infinity whose sign is the xor of the signs *)
Lemma div_by_zero x y : f64_pat x -> f64_pat y -> f64_exp x <> 2047 -> f64_is_zero x = false -> f64_is_zero y = true ->
  fl_div x y = f64_inf (xorb (f64_neg x) (f64_neg y)).
Proof.
  intros Hx Hy Fx Nx Zy. unfold fl_div. rewrite !pat_id by assumption.
  destruct (b64_cases y Hy) as [(_ & Ey)|[(E1 & M1 & _)|[(N & _)|(_ & Z0 & _)]]].
  - destruct (b64_cases x Hx) as [(Z0 & _)|[(E1 & _)|[(N & _)|(_ & _ & H & Ex)]]].
    + congruence.
    + contradiction.
    + unfold f64_is_nan in N. destruct (Z.eqb_spec (f64_exp x) 2047); [contradiction|discriminate N].
    + rewrite Ex, Ey. destruct (f64_neg x), (f64_neg y); reflexivity.
  - rewrite (is_zero_fields y Hy), E1 in Zy. discriminate Zy.
  - rewrite (is_zero_fields y Hy) in Zy. unfold f64_is_nan in N.
    destruct (Z.eqb_spec (f64_exp y) 2047) as [E|E]; [rewrite E in Zy|]; discriminate.
  - congruence.
Qed.

(* the payload of a NaN pattern is kept as it is (no canonicalisation, no quieting) *)
Lemma nan_payload p : f64_pat p -> f64_is_nan p = true ->
  exists H, b64_of_bits p = B754_nan 53 1024 (f64_neg p) (Z.to_pos (f64_man p)) H.
Proof.
  intros Hp N. pose proof (b64_FF p Hp) as F. unfold ff_of in F. unfold f64_is_nan in N.
  destruct (f64_decompose p Hp) as (_ & He & Hm).
  destruct (Z.eqb_spec (f64_exp p) 2047) as [E|E]; [|discriminate N].
  replace (f64_exp p =? 0) with false in F by lia.
  destruct (Z.eqb_spec (f64_man p) 0) as [M|M]; [discriminate N|].
  apply B2FF_nan. exact F.
Qed.

Lemma fields_summary p : f64_pat p ->
  is_nan 53 1024 (b64_of_bits p) = f64_is_nan p /\
  is_finite 53 1024 (b64_of_bits p) = negb (f64_exp p =? 2047) /\
  Bsign 53 1024 (b64_of_bits p) = f64_neg p /\
  (f64_exp p <> 2047 -> fval p = F2R (Float radix2 (cond_Zopp (f64_neg p) (f64_mant p)) (f64_ex p))) /\
  (f64_exp p = 2047 -> fval p = 0%R).
Proof.
  intros Hp. split; [apply b64_is_nan; exact Hp|]. split; [apply b64_is_finite; exact Hp|].
  split; [apply b64_sign; exact Hp|]. split; [apply fval_spec; exact Hp|apply fval_nonfinite; exact Hp].
Qed.

Lemma pat_facts z : f64_pat (pat z) /\ (f64_pat z -> pat z = z).
Proof. split; [apply pat_range|apply pat_id]. Qed.

Lemma b64_bits_facts (b : binary64) : b64_of_bits (bits_of_b64 b) = b /\ f64_pat (bits_of_b64 b).
Proof. split; [apply b64_round_trip|apply bits_range]. Qed.

(* the hypotheses of add_correct on concrete operands: 1.5 + 2.25 and DBL_MAX + DBL_MAX *)
Lemma nonvacuous_add :
  let a := 0x3ff8000000000000 in let b := 0x4002000000000000 in let m := 0x7fefffffffffffff in
  f64_pat a /\ f64_pat b /\ f64_pat m /\ f64_exp a <> 2047 /\ f64_exp b <> 2047 /\ f64_exp m <> 2047 /\
  (Rabs (rnd64 (fval a + fval b)) < bpow radix2 1024)%R /\
  (bpow radix2 1024 <= Rabs (rnd64 (fval m + fval m)))%R.
Proof.
  cbv zeta.
  assert (Pa : f64_pat 0x3ff8000000000000) by (unfold f64_pat; cbn; lia).
  assert (Pb : f64_pat 0x4002000000000000) by (unfold f64_pat; cbn; lia).
  assert (Pm : f64_pat 0x7fefffffffffffff) by (unfold f64_pat; cbn; lia).
  assert (Fa : f64_exp 0x3ff8000000000000 <> 2047) by (vm_compute; discriminate).
  assert (Fb : f64_exp 0x4002000000000000 <> 2047) by (vm_compute; discriminate).
  assert (Fm : f64_exp 0x7fefffffffffffff <> 2047) by (vm_compute; discriminate).
  repeat (split; [assumption|]). split.
  - destruct (Rlt_or_le (Rabs (rnd64 (fval 0x3ff8000000000000 + fval 0x4002000000000000))) (bpow radix2 1024)) as [H|H]; [exact H|].
    exfalso. destruct (add_correct _ _ Pa Pb Fa Fb) as (_ & O). destruct (O H) as (O1 & _).
    vm_compute in O1. discriminate O1.
  - destruct (Rlt_or_le (Rabs (rnd64 (fval 0x7fefffffffffffff + fval 0x7fefffffffffffff))) (bpow radix2 1024)) as [H|H]; [|exact H].
    exfalso. destruct (add_correct _ _ Pm Pm Fm Fm) as (N & _). destruct (N H) as (_ & N1 & _).
    apply N1. vm_compute. reflexivity.
Qed.
