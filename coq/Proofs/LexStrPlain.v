(* A string literal without escapes denotes exactly its text: every valid UTF-8 body that
   contains no backslash, no straight quote and no closing curly quote is a written body whose
   value is itself. *)
From Xeh Require Import Model.Prelude Model.Bits Model.Cell Model.Lexer Model.Fmt.
From Xeh Require Import Proofs.LexLoc Proofs.LexBasic Proofs.LexNext Proofs.LexAll Proofs.LexPrintInt Proofs.LexStr.
From Coq Require Import ZifyBool ZifyNat ZifyN.
Local Open Scope string_scope.

Fixpoint plain_text (s : string) : bool :=
  match s with
  | "" => true
  | String c r =>
    negb (byte_of c =? 92)%N && negb (byte_of c =? 34)%N && negb (starts_rdq s) && plain_text r
  end.

(* the items of a text without escapes: three-byte groups at E2, single bytes elsewhere *)
Fixpoint text_items (s : string) : list sitem :=
  match s with
  | "" => []
  | String c r =>
    if (byte_of c =? 226)%N then
      match r with
      | String c1 (String c2 r') => SE2 c1 c2 :: text_items r'
      | _ => SByte c :: text_items r
      end
    else SByte c :: text_items r
  end.

Lemma cont_plain c : is_cont c = true -> plain_byte c = true.
Proof. unfold is_cont, plain_byte. lia. Qed.

Lemma text_items_spec : forall n s need, String.length s <= n ->
  valid_go s need = true -> plain_text s = true ->
  forallb sitem_ok (text_items s) = true /\ sitems_text (text_items s) = s /\ sitems_value (text_items s) = s.
Proof.
  induction n as [|n IH]; intros s need Hn Hv Hp.
  - destruct s; [repeat split|cbn [String.length] in Hn; lia].
  - destruct s as [|c r]; [repeat split|]. cbn [String.length] in Hn.
    cbn [plain_text] in Hp. apply andb_prop in Hp. destruct Hp as [Hp Hpr].
    apply andb_prop in Hp. destruct Hp as [Hp H3]. apply andb_prop in Hp. destruct Hp as [H1 H2].
    assert (Single : (byte_of c =? 226)%N = false -> forall k, valid_go r k = true ->
              forallb sitem_ok (SByte c :: text_items r) = true /\
              sitems_text (SByte c :: text_items r) = String c r /\
              sitems_value (SByte c :: text_items r) = String c r).
    { intros E k Hk. destruct (IH r k ltac:(lia) Hk Hpr) as (I1 & I2 & I3).
      cbn [forallb sitem_ok sitems_text sitems_value sitem_text sitem_value append]. rewrite I1, I2, I3.
      repeat split. unfold plain_byte. cbv zeta. rewrite E, H1, H2. reflexivity. }
    cbn [text_items]. destruct (byte_of c =? 226)%N eqn:E.
    + assert (Ec : byte_of c = 226%N) by lia.
      cbn [valid_go] in Hv. destruct need as [|k].
      2:{ apply andb_prop in Hv. destruct Hv as [Hc _]. unfold is_cont in Hc. lia. }
      apply andb_prop in Hv. destruct Hv as [_ Hv].
      assert (Ew : utf8_width c - 1 = 2) by (unfold utf8_width; rewrite Ec; reflexivity).
      rewrite Ew in Hv. destruct r as [|c1 [|c2 r']]; try discriminate.
      { cbn [valid_go] in Hv. apply andb_prop in Hv. destruct Hv as [_ Hv]. discriminate. }
      cbn [valid_go] in Hv. apply andb_prop in Hv. destruct Hv as [C1 Hv].
      apply andb_prop in Hv. destruct Hv as [C2 Hv].
      cbn [plain_text] in Hpr. apply andb_prop in Hpr. destruct Hpr as [_ Hpr].
      cbn [plain_text] in Hpr. apply andb_prop in Hpr. destruct Hpr as [_ Hpr].
      cbn [String.length] in Hn.
      destruct (IH r' 0 ltac:(lia) Hv Hpr) as (I1 & I2 & I3).
      cbn [forallb sitem_ok sitems_text sitems_value sitem_text sitem_value append]. rewrite I1, I2, I3.
      rewrite (cont_plain c1 C1), (cont_plain c2 C2). cbn [andb].
      cbn [starts_rdq] in H3. rewrite E in H3. cbn [andb] in H3. rewrite H3.
      apply byte_of_inj in Ec. subst c. repeat split.
    + cbn [valid_go] in Hv. destruct need as [|k]; apply andb_prop in Hv; destruct Hv as [_ Hv];
        eapply Single; eauto.
Qed.

(* a literal without escapes: the value is the text between the quotes *)
Lemma lex_next_plain_string l qo s qc rest :
  is_opener qo -> is_closer qc -> valid_utf8 s = true -> plain_text s = true ->
  lrest l = qo ++ s ++ qc ++ rest ->
  let p' := lpos l + String.length qo + String.length s + String.length qc in
  lex_next l = (if next_is_ws_or_end rest then TLit (CStr s) else TErr PExpectWs (lpos l) p',
                mklex rest p' (lpos l) (llen l)).
Proof.
  intros Ho Hc Hv Hp Hl p'.
  destruct (text_items_spec (String.length s) s 0 (le_n _) Hv Hp) as (I1 & I2 & I3).
  rewrite <- I2 in Hl. rewrite (lex_next_string l qo (text_items s) qc rest Ho Hc I1 Hl).
  cbv zeta. rewrite I2, I3. reflexivity.
Qed.

Lemma lex_string_plain_string s : valid_utf8 s = true -> plain_text s = true ->
  let txt := dq ++ s ++ dq in
  lex_string txt = [(TLit (CStr s), 0, String.length txt); (TEnd, String.length txt, String.length txt)].
Proof.
  intros Hv Hp txt. apply lex_string_one_literal; [discriminate|].
  assert (Hl : lrest (lex_new txt) = dq ++ s ++ dq ++ "") by reflexivity.
  assert (El : String.length txt = String.length s + 2).
  { subst txt. rewrite !app_length_s. change (String.length dq) with 1. lia. }
  rewrite (lex_next_plain_string (lex_new txt) dq s dq "" (or_introl eq_refl) (or_introl eq_refl) Hv Hp Hl).
  cbv zeta. unfold lex_new. cbn [next_is_ws_or_end lpos llen]. change (String.length dq) with 1.
  replace (0 + 1 + String.length s + 1) with (String.length txt) by lia. reflexivity.
Qed.
