(* A string literal without escapes denotes exactly its text: every valid UTF-8 body that
   contains no backslash, no straight quote and - only when the literal was opened by a curly
   quote - no closing curly quote is a written body whose value is itself. *)
From Xeh Require Import Model.Prelude Model.Bits Model.Cell Model.Lexer Model.Fmt.
From Xeh Require Import Proofs.LexLoc Proofs.LexBasic Proofs.LexNext Proofs.LexAll Proofs.LexPrintInt Proofs.LexStr.
From Coq Require Import ZifyBool ZifyNat ZifyN.
Local Open Scope string_scope.

Fixpoint plain_text (curly : bool) (s : string) : bool :=
  match s with
  | "" => true
  | String c r =>
    negb (byte_of c =? 92)%N && negb (byte_of c =? 34)%N && negb (curly && starts_rdq s) && plain_text curly r
  end.

(* the items of a text without escapes: three-byte groups at E2, single bytes elsewhere *)
Fixpoint text_items (s : string) : list sitem :=
  match s with
  | "" => []
  | String c r =>
    if (byte_of c =? 226)%N then
      match r with
      | String c1 (String c2 r') => SE2 c1 c2 :: text_items r'
      | _ => SByte c :: text_items r
      end
    else SByte c :: text_items r
  end.

Lemma cont_plain c : is_cont c = true -> plain_byte c = true.
Proof. unfold is_cont, plain_byte. lia. Qed.

Lemma text_items_spec : forall curly n s need, String.length s <= n ->
  valid_go s need = true -> plain_text curly s = true ->
  forallb (sitem_ok curly) (text_items s) = true /\ sitems_text (text_items s) = s /\ sitems_value (text_items s) = s.
Proof.
  intros curly. induction n as [|n IH]; intros s need Hn Hv Hp.
  - destruct s; [repeat split|cbn [String.length] in Hn; lia].
  - destruct s as [|c r]; [repeat split|]. cbn [String.length] in Hn.
    cbn [plain_text] in Hp. apply andb_prop in Hp. destruct Hp as [Hp Hpr].
    apply andb_prop in Hp. destruct Hp as [Hp H3]. apply andb_prop in Hp. destruct Hp as [H1 H2].
    assert (Single : (byte_of c =? 226)%N = false -> forall k, valid_go r k = true ->
              forallb (sitem_ok curly) (SByte c :: text_items r) = true /\
              sitems_text (SByte c :: text_items r) = String c r /\
              sitems_value (SByte c :: text_items r) = String c r).
    { intros E k Hk. destruct (IH r k ltac:(lia) Hk Hpr) as (I1 & I2 & I3).
      cbn [forallb sitem_ok sitems_text sitems_value sitem_text sitem_value append]. rewrite I1, I2, I3.
      repeat split. unfold plain_byte. cbv zeta. rewrite E, H1, H2. reflexivity. }
    cbn [text_items]. destruct (byte_of c =? 226)%N eqn:E.
    + assert (Ec : byte_of c = 226%N) by lia.
      cbn [valid_go] in Hv. destruct need as [|k].
      2:{ apply andb_prop in Hv. destruct Hv as [Hc _]. unfold is_cont in Hc. lia. }
      apply andb_prop in Hv. destruct Hv as [_ Hv].
      assert (Ew : utf8_width c - 1 = 2) by (unfold utf8_width; rewrite Ec; reflexivity).
      rewrite Ew in Hv. destruct r as [|c1 [|c2 r']]; try discriminate.
      { cbn [valid_go] in Hv. apply andb_prop in Hv. destruct Hv as [_ Hv]. discriminate. }
      cbn [valid_go] in Hv. apply andb_prop in Hv. destruct Hv as [C1 Hv].
      apply andb_prop in Hv. destruct Hv as [C2 Hv].
      cbn [plain_text] in Hpr. apply andb_prop in Hpr. destruct Hpr as [_ Hpr].
      cbn [plain_text] in Hpr. apply andb_prop in Hpr. destruct Hpr as [_ Hpr].
      cbn [String.length] in Hn.
      destruct (IH r' 0 ltac:(lia) Hv Hpr) as (I1 & I2 & I3).
      cbn [forallb sitem_ok sitems_text sitems_value sitem_text sitem_value append]. rewrite I1, I2, I3.
      rewrite (cont_plain c1 C1), (cont_plain c2 C2). cbn [andb].
      cbn [starts_rdq] in H3. rewrite E in H3. cbn [andb] in H3. rewrite H3.
      apply byte_of_inj in Ec. subst c. repeat split.
    + cbn [valid_go] in Hv. destruct need as [|k]; apply andb_prop in Hv; destruct Hv as [_ Hv];
        eapply Single; eauto.
Qed.

(* a literal without escapes: the value is the text between the quotes *)
Lemma lex_next_plain_string l curly qo s qc rest :
  is_opener curly qo -> is_closer curly qc -> valid_utf8 s = true -> plain_text curly s = true ->
  lrest l = qo ++ s ++ qc ++ rest ->
  let p' := lpos l + String.length qo + String.length s + String.length qc in
  lex_next l = (if next_is_ws_or_end rest then TLit (CStr s) else TErr PExpectWs (lpos l) p',
                mklex rest p' (lpos l) (llen l)).
Proof.
  intros Ho Hc Hv Hp Hl p'.
  destruct (text_items_spec curly (String.length s) s 0 (le_n _) Hv Hp) as (I1 & I2 & I3).
  rewrite <- I2 in Hl. rewrite (lex_next_string l curly qo (text_items s) qc rest Ho Hc I1 Hl).
  cbv zeta. rewrite I2, I3. reflexivity.
Qed.

Lemma lex_string_plain_string s : valid_utf8 s = true -> plain_text false s = true ->
  let txt := dq ++ s ++ dq in
  lex_string txt = [(TLit (CStr s), 0, String.length txt); (TEnd, String.length txt, String.length txt)].
Proof.
  intros Hv Hp txt. apply lex_string_one_literal; [discriminate|].
  assert (Hl : lrest (lex_new txt) = dq ++ s ++ dq ++ "") by reflexivity.
  assert (El : String.length txt = String.length s + 2).
  { subst txt. rewrite !app_length_s. change (String.length dq) with 1. lia. }
  rewrite (lex_next_plain_string (lex_new txt) false dq s dq "" eq_refl (or_introl eq_refl) Hv Hp Hl).
  cbv zeta. unfold lex_new. cbn [next_is_ws_or_end lpos llen]. change (String.length dq) with 1.
  replace (0 + 1 + String.length s + 1) with (String.length txt) by lia. reflexivity.
Qed.

(* ---------- straight-opened literals: the closing curly quote is an ordinary character ---------- *)

(* no backslash and no straight quote: the only condition on the body of a straight-opened
   literal without escapes; curly quotes of either kind (any number of them) are allowed *)
Fixpoint no_backslash_no_quote (s : string) : bool :=
  match s with
  | "" => true
  | String c r => negb (byte_of c =? 92)%N && negb (byte_of c =? 34)%N && no_backslash_no_quote r
  end.

Lemma plain_text_straight : forall s, plain_text false s = no_backslash_no_quote s.
Proof.
  induction s as [|c r IH]; [reflexivity|]. cbn [plain_text no_backslash_no_quote andb negb].
  rewrite IH, andb_true_r. reflexivity.
Qed.

(* for a curly-opened literal the closing curly quote must be absent as well *)
Lemma plain_text_curly_straight : forall s, plain_text true s = true -> plain_text false s = true.
Proof.
  induction s as [|c r IH]; [reflexivity|]. cbn [plain_text andb negb]. intros H.
  apply andb_prop in H. destruct H as [H Hr]. apply andb_prop in H. destruct H as [H _].
  rewrite H, (IH Hr). reflexivity.
Qed.

Lemma no_backslash_no_quote_app a b :
  no_backslash_no_quote (a ++ b) = no_backslash_no_quote a && no_backslash_no_quote b.
Proof.
  induction a as [|c a IH]; [reflexivity|]. cbn [append no_backslash_no_quote]. rewrite IH.
  rewrite !andb_assoc. reflexivity.
Qed.

Lemma valid_go_app : forall a need b, valid_go a need = true -> valid_go (a ++ b) need = valid_go b 0.
Proof.
  induction a as [|c a IH]; intros need b H.
  - cbn [valid_go] in H. apply Nat.eqb_eq in H. subst need. reflexivity.
  - cbn [append valid_go] in *. destruct need as [|k]; apply andb_prop in H; destruct H as [H1 H2];
      rewrite H1, (IH _ b H2); reflexivity.
Qed.

Lemma valid_utf8_app a b : valid_utf8 a = true -> valid_utf8 b = true -> valid_utf8 (a ++ b) = true.
Proof. unfold valid_utf8. intros Ha Hb. rewrite (valid_go_app a 0 b Ha). exact Hb. Qed.

(* Lex::next on a straight-opened literal without escapes, any state, any continuation *)
Lemma lex_next_straight_string l s rest :
  valid_utf8 s = true -> no_backslash_no_quote s = true ->
  lrest l = dq ++ s ++ dq ++ rest ->
  let p' := lpos l + String.length s + 2 in
  lex_next l = (if next_is_ws_or_end rest then TLit (CStr s) else TErr PExpectWs (lpos l) p',
                mklex rest p' (lpos l) (llen l)).
Proof.
  intros Hv Hp Hl p'. rewrite <- plain_text_straight in Hp.
  rewrite (lex_next_plain_string l false dq s dq rest eq_refl (or_introl eq_refl) Hv Hp Hl).
  cbv zeta. subst p'. change (String.length dq) with 1.
  replace (lpos l + 1 + String.length s + 1) with (lpos l + String.length s + 2) by lia. reflexivity.
Qed.

(* the whole text "s": one literal whose value is s *)
Lemma lex_string_straight_string s : valid_utf8 s = true -> no_backslash_no_quote s = true ->
  let txt := dq ++ s ++ dq in
  lex_string txt = [(TLit (CStr s), 0, String.length txt); (TEnd, String.length txt, String.length txt)].
Proof.
  intros Hv Hp. apply lex_string_plain_string; [exact Hv|]. rewrite plain_text_straight. exact Hp.
Qed.

(* in particular: curly quotes of either kind anywhere in the body *)
Lemma lex_string_straight_curly_inside a q b :
  valid_utf8 a = true -> valid_utf8 b = true ->
  no_backslash_no_quote a = true -> no_backslash_no_quote b = true -> q = rdq \/ q = ldq ->
  let s := a ++ q ++ b in
  let txt := dq ++ s ++ dq in
  lex_string txt = [(TLit (CStr s), 0, String.length txt); (TEnd, String.length txt, String.length txt)].
Proof.
  intros Ha Hb Na Nb Hq s. apply lex_string_straight_string.
  - subst s. apply valid_utf8_app; [exact Ha|]. apply valid_utf8_app; [|exact Hb].
    destruct Hq as [->| ->]; reflexivity.
  - subst s. rewrite !no_backslash_no_quote_app, Na, Nb. destruct Hq as [->| ->]; reflexivity.
Qed.

(* a straight-opened literal whose only closing quote is a curly one is unterminated *)
Lemma lex_string_straight_curly_close s : valid_utf8 s = true -> no_backslash_no_quote s = true ->
  let txt := dq ++ s ++ rdq in
  lex_string txt = [(TErr PUntermStr (String.length txt) (String.length txt), 0, String.length txt)].
Proof.
  intros Hv Hp txt.
  assert (Hv' : valid_utf8 (s ++ rdq) = true) by (apply valid_utf8_app; [exact Hv|reflexivity]).
  assert (Hp' : plain_text false (s ++ rdq) = true).
  { rewrite plain_text_straight, no_backslash_no_quote_app, Hp. reflexivity. }
  destruct (text_items_spec false (String.length (s ++ rdq)) (s ++ rdq) 0 (le_n _) Hv' Hp') as (I1 & I2 & I3).
  assert (Hl : lrest (lex_new txt) = dq ++ sitems_text (text_items (s ++ rdq))) by (rewrite I2; reflexivity).
  pose proof (lex_next_string_unterminated (lex_new txt) false dq _ eq_refl I1 Hl) as Hn.
  cbv zeta in Hn. rewrite I2 in Hn. unfold lex_new in Hn. cbn [lpos llen] in Hn.
  change (String.length dq) with 1 in Hn.
  assert (El : String.length txt = 0 + 1 + String.length (s ++ rdq)) by (subst txt; reflexivity).
  rewrite <- El in Hn.
  rewrite lex_string_from.
  rewrite (lex_from_final txt 0 (String.length txt) _ _ Hn eq_refl). reflexivity.
Qed.

(* ---------- the quote rule, spelled out ---------- *)

Definition rdq_item : sitem := SE2 (ascii_of_N 128) (ascii_of_N 157).

Lemma quotes_spec :
  (forall q, is_opener false q <-> q = dq) /\ (forall q, is_opener true q <-> q = ldq) /\
  (forall q, is_closer false q <-> q = dq) /\ (forall q, is_closer true q <-> (q = dq \/ q = rdq)).
Proof.
  split; [intros q; reflexivity|]. split; [intros q; reflexivity|]. split; intros q; split.
  - intros [H|[H _]]; [exact H|discriminate].
  - intros H. left. exact H.
  - intros [H|[_ H]]; [left; exact H|right; exact H].
  - intros [H|H]; [left; exact H|right; split; [reflexivity|exact H]].
Qed.

(* the closing curly quote as an item: allowed in the body of a straight-opened literal only;
   every other item is allowed in both kinds of literal alike *)
Lemma rdq_item_spec :
  sitem_text rdq_item = rdq /\ sitem_value rdq_item = rdq /\
  sitem_ok false rdq_item = true /\ sitem_ok true rdq_item = false /\
  (forall i, sitem_ok true i = true -> sitem_ok false i = true) /\
  (forall i, sitem_ok false i = true -> i <> rdq_item -> sitem_ok true i = true).
Proof.
  split; [reflexivity|]. split; [reflexivity|]. split; [reflexivity|]. split; [reflexivity|]. split.
  - intros [c|c1 c2|c]; cbn [sitem_ok andb negb]; auto.
    intros H. apply andb_prop in H. destruct H as [H _]. rewrite H. reflexivity.
  - intros [c|c1 c2|c]; cbn [sitem_ok andb negb]; auto.
    intros H Hne. rewrite andb_true_r in H. rewrite H. cbn [andb].
    destruct ((byte_of c1 =? 128)%N && (byte_of c2 =? 157)%N) eqn:E; [|reflexivity].
    exfalso. apply Hne. apply andb_prop in E. destruct E as [E1 E2].
    apply N.eqb_eq, byte_of_inj in E1. apply N.eqb_eq, byte_of_inj in E2. subst c1 c2. reflexivity.
Qed.

(* [no_backslash_no_quote] says what its name says *)
Lemma no_backslash_no_quote_spec : forall s,
  no_backslash_no_quote s = true <->
  (forall i c, String.get i s = Some c -> c <> "\"%char /\ c <> """"%char).
Proof.
  induction s as [|c r IH]; cbn [no_backslash_no_quote].
  - split; [intros _ i x H; destruct i; discriminate|reflexivity].
  - split.
    + intros H. apply andb_prop in H. destruct H as [H Hr]. apply andb_prop in H. destruct H as [H1 H2].
      intros i x Hg. destruct i as [|i]; cbn [String.get] in Hg.
      * injection Hg as <-. split; intros ->; discriminate.
      * exact (proj1 IH Hr i x Hg).
    + intros H. apply andb_true_intro. split; [apply andb_true_intro; split|].
      * destruct (byte_of c =? 92)%N eqn:E; [|reflexivity].
        apply N.eqb_eq, byte_of_inj in E. destruct (H 0 c eq_refl) as [A _]. exfalso. apply A. exact E.
      * destruct (byte_of c =? 34)%N eqn:E; [|reflexivity].
        apply N.eqb_eq, byte_of_inj in E. destruct (H 0 c eq_refl) as [_ A]. exfalso. apply A. exact E.
      * apply (proj2 IH). intros i x Hg. exact (H (S i) x Hg).
Qed.
