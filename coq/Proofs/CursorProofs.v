(* CursorProofs.v: the parsing words of the bit-string module, executed symbolically
   (lemmas behind Props/C06.v). *)
From Xeh Require Import Model.Prelude Model.Bits Model.Codec Model.Cell Model.Lexer Model.Fmt
                        Model.Vm Model.Words.
From Xeh Require Import Proofs.BitsBasic Proofs.BitsLists Proofs.BitsMirror Proofs.BitsProofs
                        Proofs.CodecBasic Proofs.CodecProofs Proofs.VmStep Proofs.CursorDefs.
From Coq Require Import ZifyBool ZifyNat ZifyN.
Local Notation length := List.length.

#[local] Arguments Z.add : simpl never.
#[local] Arguments Z.sub : simpl never.
#[local] Arguments Z.mul : simpl never.
#[local] Arguments Z.ltb : simpl never.
#[local] Arguments Z.leb : simpl never.
#[local] Arguments Z.eqb : simpl never.
#[local] Arguments Z.of_nat : simpl never.
#[local] Arguments Z.to_nat : simpl never.
#[local] Arguments Z.pow : simpl never.

Lemma two64_pos : (0 < two64)%Z.
Proof. reflexivity. Qed.

(* ---------- the cells behind a cursor ---------- *)
Lemma hcursor_cells h inp off : hcursor h inp off ->
  exists ci co, nth_error h R_INPUT = Some ci /\ value ci = CBits inp /\
                nth_error h R_OFFSET = Some co /\ value co = CInt off.
Proof.
  intros (_ & Hi & Ho & _). revert Hi Ho. unfold h_input, h_offset.
  destruct (nth_error h R_INPUT) as [ci|]; [|discriminate].
  destruct (nth_error h R_OFFSET) as [co|]; [|discriminate].
  destruct (value ci) eqn:Ei; try discriminate.
  destruct (value co) eqn:Eo; try discriminate.
  intros Hi Ho. injection Hi as ->. injection Ho as ->.
  exists ci, co. auto.
Qed.

Lemma hcursor_set_offset h inp off pos :
  hcursor h inp off -> (Z.of_nat (cstart inp) <= pos <= Z.of_nat (cend inp))%Z ->
  hcursor (list_set h R_OFFSET (cint pos)) inp pos.
Proof.
  intros (Hl & Hi & Ho & Hw & Hb & Hr) Hp. unfold hcursor. rewrite list_set_len.
  split; [exact Hl|]. split; [|split; [|split; [exact Hw|split; [exact Hb|exact Hp]]]].
  - unfold h_input. rewrite nth_list_set_other by (unfold R_OFFSET, R_INPUT; lia). exact Hi.
  - unfold h_offset. rewrite nth_list_set_same by (unfold R_OFFSET; lia). reflexivity.
Qed.

Lemma h_stash_set_offset h c : h_stash (list_set h R_OFFSET c) = h_stash h.
Proof. unfold h_stash. rewrite nth_list_set_other by (unfold R_OFFSET, R_STASH; lia). reflexivity. Qed.

Lemma h_order_set_offset h c : h_order (list_set h R_OFFSET c) = h_order h.
Proof. unfold h_order. rewrite nth_list_set_other by (unfold R_OFFSET, R_BIG; lia). reflexivity. Qed.

(* ---------- the slice [off, off+n) ---------- *)
Lemma sub_spec inp off n :
  wf inp -> (Z.of_nat (cstart inp) <= off)%Z -> (0 <= n)%Z -> (off + n <= Z.of_nat (cend inp))%Z ->
  wf (sub inp off n) /\ abs (sub inp off n) = slice_bits inp off n /\
  clen (sub inp off n) = Z.to_nat n.
Proof.
  intros Hw H1 H2 H3. unfold sub, slice_bits.
  pose proof (substr_spec inp (Z.to_nat off) (Z.to_nat (off + n)) Hw) as Hs.
  unfold substr in Hs.
  replace ((Z.to_nat off <=? Z.to_nat (off + n)) && (cstart inp <=? Z.to_nat off)
           && (Z.to_nat (off + n) <=? cend inp)) with true in Hs by lia.
  destruct Hs as (_ & _ & _ & Hwf & Habs). split; [exact Hwf|]. split.
  - rewrite Habs. f_equal. lia.
  - unfold clen. cbn [cstart cend]. lia.
Qed.

Lemma sub_cend inp off n : (0 <= off + n)%Z -> Z.of_nat (cend (sub inp off n)) = (off + n)%Z.
Proof. intros. unfold sub. cbn [cend]. lia. Qed.

(* ---------- reading the cursor cells ---------- *)
Section Exec.
  Variables (s0 : state) (inp : cbs) (off : Z).
  Variable (E : ekind -> option cell -> state -> Prop) (U : Prop).

  Lemma wp_current_input s d h (Q : cbs -> state -> Prop) :
    st s0 s d h -> notmeta s0 -> hcursor h inp off ->
    Q inp s -> wp current_input s Q E U.
  Proof.
    intros Hst Hm Hc HQ. destruct (hcursor_cells _ _ _ Hc) as (ci & co & Hi & Vi & Ho & Vo).
    unfold current_input. apply wp_bind. eapply wp_get_var; eauto.
    apply wp_m_bits.
    - intros b Hb. rewrite Vi in Hb. injection Hb as <-. exact HQ.
    - intros Hn. exfalso. eapply Hn; eauto.
  Qed.

  Lemma wp_current_offset s d h (Q : Z -> state -> Prop) :
    st s0 s d h -> notmeta s0 -> hcursor h inp off ->
    Q off s -> wp current_offset s Q E U.
  Proof.
    intros Hst Hm Hc HQ. destruct (hcursor_cells _ _ _ Hc) as (ci & co & Hi & Vi & Ho & Vo).
    destruct Hc as (_ & _ & _ & _ & Hb & Hr).
    unfold current_offset. apply wp_bind. eapply wp_get_var; eauto.
    apply wp_m_usize.
    - intros z [Hz _]. rewrite Vo in Hz. injection Hz as <-. exact HQ.
    - intros Hn. exfalso. apply (Hn off). split; [exact Vo|lia].
  Qed.

  Lemma wp_current_order s d h (Q : order -> state -> Prop) :
    st s0 s d h -> notmeta s0 -> 6 <= length h ->
    (forall o, h_order h = Some o -> Q o s) -> wp current_order s Q E U.
  Proof.
    intros Hst Hm Hl HQ. unfold current_order, current_big.
    destruct (nth_error h R_BIG) as [c|] eqn:Ec.
    - apply wp_bind. apply wp_bind. eapply wp_get_var; eauto.
      apply wp_ret. apply wp_ret. apply HQ. unfold h_order. rewrite Ec. reflexivity.
    - apply nth_error_None in Ec. unfold R_BIG in Ec. lia.
  Qed.

  Lemma wp_peek_bits n s d h (Q : cbs -> state -> Prop) :
    st s0 s d h -> notmeta s0 -> hcursor h inp off ->
    ((0 <= n)%Z -> (off + n <= Z.of_nat (cend inp))%Z -> Q (sub inp off n) s) ->
    (~ ((0 <= n)%Z /\ (off + n <= Z.of_nat (cend inp))%Z) -> E ERead None s) ->
    wp (peek_bits n) s Q E U.
  Proof.
    intros Hst Hm Hc HQ HE. unfold peek_bits.
    apply wp_bind. eapply wp_current_input; eauto.
    apply wp_bind. eapply wp_current_offset; eauto. cbv zeta.
    destruct Hc as (_ & _ & _ & _ & Hb & Hr).
    destruct ((off <=? off + n)%Z && (Z.of_nat (cstart inp) <=? off)%Z
              && (off + n <=? Z.of_nat (cend inp))%Z) eqn:Ec.
    - apply wp_ret. apply HQ; lia.
    - apply wp_fail. apply HE. lia.
  Qed.

  Lemma wp_rest_bits s d h (Q : cbs -> state -> Prop) :
    st s0 s d h -> notmeta s0 -> hcursor h inp off ->
    Q (mkcbs (Z.to_nat off) (cend inp) (cdata inp)) s ->
    wp rest_bits s Q E U.
  Proof.
    intros Hst Hm Hc HQ. unfold rest_bits.
    apply wp_bind. eapply wp_current_input; eauto.
    apply wp_bind. eapply wp_current_offset; eauto.
    destruct Hc as (_ & _ & _ & _ & Hb & Hr).
    replace ((Z.of_nat (cstart inp) <=? off)%Z && (off <=? Z.of_nat (cend inp))%Z) with true by lia.
    apply wp_ret. exact HQ.
  Qed.

  Lemma wp_move_offset pos s d h (Q : unit -> state -> Prop) :
    st s0 s d h -> notmeta s0 -> hcursor h inp off ->
    ((Z.of_nat (cstart inp) <= pos <= Z.of_nat (cend inp))%Z ->
     forall s', st s0 s' d (list_set h R_OFFSET (cint pos)) -> Q tt s') ->
    (~ (Z.of_nat (cstart inp) <= pos <= Z.of_nat (cend inp))%Z -> E ESeek None s) ->
    wp (move_offset_checked pos) s Q E U.
  Proof.
    intros Hst Hm Hc HQ HE. unfold move_offset_checked.
    apply wp_bind. eapply wp_current_input; eauto.
    destruct ((Z.of_nat (cstart inp) <=? pos)%Z && (pos <=? Z.of_nat (cend inp))%Z) eqn:Ec.
    - eapply wp_set_var; eauto.
      + destruct Hc as (Hl & _). unfold R_OFFSET. lia.
      + apply HQ. lia.
    - apply wp_fail. apply HE. lia.
  Qed.

  (* the common tail of every read: push the result, then advance (a push refused by the
     stack limit therefore leaves the offset where it was) *)
  Lemma wp_commit n v s d h (Q : unit -> state -> Prop) :
    st s0 s d h -> notmeta s0 -> hcursor h inp off ->
    (0 <= n)%Z -> (off + n <= Z.of_nat (cend inp))%Z ->
    (limit_reached (stack_limit s0) (length d) = false ->
     forall s', st s0 s' (v :: d) (list_set h R_OFFSET (cint (off + n))) -> Q tt s') ->
    (limit_reached (stack_limit s0) (length d) = true -> E ELimit None s) ->
    wp (push_data v ;; move_offset_checked (Z.of_nat (cend (sub inp off n)))) s Q E U.
  Proof.
    intros Hst Hm Hc Hn Hfit HQ HE.
    assert (Hr : (Z.of_nat (cstart inp) <= off)%Z) by (destruct Hc as (_ & _ & _ & _ & _ & ?); lia).
    rewrite sub_cend by lia.
    apply wp_bind. eapply wp_push_data; eauto.
    intros Hroom s1 Hs1. eapply wp_move_offset; eauto.
    intros Hbad. exfalso. lia.
  Qed.
End Exec.

(* ---------- outcomes ---------- *)
Section Reads.
  Variables (s : state) (inp : cbs) (off : Z).
  Hypothesis Hcur : cursor s inp off.

  Let Hm : notmeta s := proj1 Hcur.
  Let Hc : hcursor (heap s) inp off := proj2 Hcur.

  (* every failure, whatever its kind: heap untouched, at most [ar] arguments popped *)
  Definition EF (ar : nat) : ekind -> option cell -> state -> Prop :=
    fun _ _ s' => fail_frame ar s s'.

  Lemma frame_intro ar s' d' args :
    st s s' d' (heap s) -> ds s = args ++ d' -> length args <= ar -> fail_frame ar s s'.
  Proof.
    intros (Hd & Hh & Hs) Ha Hl. split; [exact Hh|]. split; [exact Hs|]. exists args. rewrite Hd. auto.
  Qed.

  Lemma done_intro s' v d' n :
    st s s' (v :: d') (list_set (heap s) R_OFFSET (cint (off + n))) ->
    (0 <= n)%Z -> (off + n <= Z.of_nat (cend inp))%Z ->
    read_done s s' inp off n d' v /\ cursor s' inp (off + n).
  Proof.
    intros (Hd & Hh & Hs) Hn Hfit. split.
    - repeat split; auto.
    - split; [eapply sim_notmeta; eauto|]. rewrite Hh. apply (hcursor_set_offset _ _ off); [exact Hc|].
      destruct Hc as (_ & _ & _ & _ & _ & ?). lia.
  Qed.

  (* [peek; guard; push; advance] with the result cell computed from the slice *)
  Lemma read_core n (mk : cbs -> cell) s1 d args ar (Q : unit -> state -> Prop) :
    st s s1 d (heap s) -> ds s = args ++ d -> length args <= ar ->
    (forall s', (0 <= n)%Z -> (off + n <= Z.of_nat (cend inp))%Z ->
                read_done s s' inp off n d (mk (sub inp off n)) -> cursor s' inp (off + n) -> Q tt s') ->
    wp (let* b := peek_bits n in
        push_data (mk b) ;; move_offset_checked (Z.of_nat (cend b))) s1 Q (EF ar) False.
  Proof.
    intros Hst Ha Hl HQ. apply wp_bind.
    eapply wp_peek_bits; eauto.
    - intros Hn Hfit. eapply wp_commit; eauto.
      + intros _ s' Hs'. destruct (done_intro _ _ _ _ Hs' Hn Hfit). apply HQ; auto.
      + intros Hlim. eapply frame_intro; eauto.
    - intros _. eapply frame_intro; eauto.
  Qed.

  (* with_size: pop an unsigned machine-size integer *)
  Lemma wp_with_size (f : Z -> M unit) s1 d h (Q : unit -> state -> Prop) E U :
    st s s1 d h ->
    (forall c r n s2, d = c :: r -> is_usize c n -> st s s2 r h -> wp (f n) s2 Q E U) ->
    E EUnderflow None s1 ->
    (forall c r s2 k p, d = c :: r -> (forall z, ~ is_usize c z) -> st s s2 r h ->
                        k = EType \/ k = EOverflow -> E k p s2) ->
    wp (with_size f) s1 Q E U.
  Proof.
    intros Hst HQ HE1 HE2. unfold with_size. apply wp_bind.
    eapply wp_pop_data; eauto.
    intros c r s2 Hd Hs2. apply wp_bind. apply wp_m_usize.
    - intros z Hz. eapply HQ; eauto.
    - intros Hn k p Hk. eapply HE2; eauto.
  Qed.

  Lemma wp_with_order (f : order -> M unit) s1 d (Q : unit -> state -> Prop) E U :
    st s s1 d (heap s) ->
    (forall o, h_order (heap s) = Some o -> wp (f o) s1 Q E U) ->
    wp (with_order f) s1 Q E U.
  Proof.
    intros Hst HQ. unfold with_order. apply wp_bind.
    eapply wp_current_order; eauto. destruct Hc as (Hl & _). exact Hl.
  Qed.

  (* ----- the reading cores, from any intermediate state ----- *)
  Lemma read_bits_core n s1 d args ar :
    st s s1 d (heap s) -> ds s = args ++ d -> length args <= ar ->
    wp (read_bits n) s1
       (fun _ s' => read_done s s' inp off n d (CBits (sub inp off n)) /\ cursor s' inp (off + n))
       (EF ar) False.
  Proof.
    intros Hst Ha Hl. unfold read_bits. eapply read_core with (mk := fun b => CBits b); eauto.
  Qed.

  Lemma read_unsigned_core n o s1 d args ar :
    st s s1 d (heap s) -> ds s = args ++ d -> length args <= ar ->
    wp (read_unsigned n o) s1
       (fun _ s' => (n <= 127)%Z /\
                    read_done s s' inp off n d
                      (with_tags (cint (to_uint o (sub inp off n))) (num_tags (sub inp off n) o)) /\
                    cursor s' inp (off + n))
       (EF ar) False.
  Proof.
    intros Hst Ha Hl. unfold read_unsigned. apply wp_bind.
    eapply wp_peek_bits; eauto.
    - intros Hn Hfit.
      assert (Hlen : clen (sub inp off n) = Z.to_nat n).
      { unfold sub, clen. cbn [cstart cend]. destruct Hc as (_ & _ & _ & _ & _ & ?). lia. }
      rewrite Hlen. destruct (Nat.ltb_spec 127 (Z.to_nat n)).
      + apply wp_fail. eapply frame_intro; eauto.
      + eapply wp_commit; eauto.
        * intros _ s' Hs'. destruct (done_intro _ _ _ _ Hs' Hn Hfit). split; [lia|]. auto.
        * intros Hlim. eapply frame_intro; eauto.
    - intros _. eapply frame_intro; eauto.
  Qed.

  Lemma read_signed_core n o s1 d args ar :
    st s s1 d (heap s) -> ds s = args ++ d -> length args <= ar ->
    wp (read_signed n o) s1
       (fun _ s' => (n <= 128)%Z /\
                    read_done s s' inp off n d
                      (with_tags (cint (to_int o (sub inp off n))) (num_tags (sub inp off n) o)) /\
                    cursor s' inp (off + n))
       (EF ar) False.
  Proof.
    intros Hst Ha Hl. unfold read_signed. apply wp_bind.
    eapply wp_peek_bits; eauto.
    - intros Hn Hfit.
      assert (Hlen : clen (sub inp off n) = Z.to_nat n).
      { unfold sub, clen. cbn [cstart cend]. destruct Hc as (_ & _ & _ & _ & _ & ?). lia. }
      rewrite Hlen. destruct (Nat.ltb_spec 128 (Z.to_nat n)).
      + apply wp_fail. eapply frame_intro; eauto.
      + eapply wp_commit; eauto.
        * intros _ s' Hs'. destruct (done_intro _ _ _ _ Hs' Hn Hfit). split; [lia|]. auto.
        * intros Hlim. eapply frame_intro; eauto.
    - intros _. eapply frame_intro; eauto.
  Qed.

  Lemma read_float_core fo n o s1 d args ar :
    st s s1 d (heap s) -> ds s = args ++ d -> length args <= ar ->
    wp (read_float fo n o) s1
       (fun _ s' =>
          exists pat, ((n = 32%Z /\ pat = f_of_f32 fo (to_fbits 4 o (sub inp off n))) \/
                       (n = 64%Z /\ pat = to_fbits 8 o (sub inp off n))) /\
          read_done s s' inp off n d (with_tags (CReal pat) (num_tags (sub inp off n) o)) /\
          cursor s' inp (off + n))
       (EF ar) False.
  Proof.
    intros Hst Ha Hl. unfold read_float. apply wp_bind.
    eapply wp_peek_bits; eauto.
    - intros Hn Hfit. destruct (Z.eqb_spec n 32); [|destruct (Z.eqb_spec n 64)].
      + eapply wp_commit; eauto.
        * intros _ s' Hs'. destruct (done_intro _ _ _ _ Hs' Hn Hfit). eexists. split; [left; eauto|]. auto.
        * intros Hlim. eapply frame_intro; eauto.
      + eapply wp_commit; eauto.
        * intros _ s' Hs'. destruct (done_intro _ _ _ _ Hs' Hn Hfit). eexists. split; [right; eauto|]. auto.
        * intros Hlim. eapply frame_intro; eauto.
      + apply wp_fail. eapply frame_intro; eauto.
    - intros _. eapply frame_intro; eauto.
  Qed.
End Reads.

(* ---------- NUL-terminated strings ---------- *)
Lemma nul_len_bound : forall gs acc,
  nul_len (map grp gs) acc <= acc + length (List.concat gs).
Proof.
  induction gs as [|g r IH]; intros acc; cbn [map nul_len List.concat]; [lia|].
  unfold grp at 1. rewrite app_length. destruct (bits_to_N g =? 0)%N; [lia|].
  specialize (IH (acc + length g)). lia.
Qed.

Lemma nul_bits_le l : nul_bits l <= length l.
Proof.
  unfold nul_bits. pose proof (nul_len_bound (chunk8 l) 0) as H.
  rewrite concat_chunk8 in H. lia.
Qed.

Lemma rest_spec inp off :
  wf inp -> (Z.of_nat (cstart inp) <= off <= Z.of_nat (cend inp))%Z ->
  let r := mkcbs (Z.to_nat off) (cend inp) (cdata inp) in
  wf r /\ abs r = rest_of inp off /\ clen r = cend inp - Z.to_nat off.
Proof.
  intros Hw Hr. cbv zeta.
  pose proof (seek_spec inp (Z.to_nat off) Hw) as Hs. unfold seek in Hs.
  replace ((cstart inp <=? Z.to_nat off) && (Z.to_nat off <=? cend inp)) with true in Hs by lia.
  destruct Hs as (_ & Hwf & Ha). split; [exact Hwf|]. split; [exact Ha|]. reflexivity.
Qed.

Lemma rest_of_length inp off :
  (Z.of_nat (cstart inp) <= off <= Z.of_nat (cend inp))%Z ->
  length (rest_of inp off) = cend inp - Z.to_nat off.
Proof.
  intros Hr. unfold rest_of. rewrite skipn_length, abs_length. unfold clen. lia.
Qed.

Lemma slice_bits_rest inp off n : slice_bits inp off n = firstn (Z.to_nat n) (rest_of inp off).
Proof. reflexivity. Qed.

Lemma to_fbits_spec k o c : wf c -> to_fbits k o c = fbits_of k o (abs c).
Proof.
  intros Hw. unfold to_fbits, fbits_of. rewrite iter8_spec by exact Hw.
  rewrite map_map. reflexivity.
Qed.

Section Reads2.
  Variables (s : state) (inp : cbs) (off : Z).
  Hypothesis Hcur : cursor s inp off.

  Let Hm : notmeta s := proj1 Hcur.
  Let Hc : hcursor (heap s) inp off := proj2 Hcur.
  Let Hw : wf inp. Proof. destruct Hc as (_ & _ & _ & ? & _). assumption. Qed.
  Let Hr : (Z.of_nat (cstart inp) <= off <= Z.of_nat (cend inp))%Z.
  Proof. destruct Hc as (_ & _ & _ & _ & _ & ?). assumption. Qed.

  (* nulbytestr_read: the slice up to and including the first zero byte; the state is not changed *)
  Lemma nul_core s1 d args ar (Q : cbs -> state -> Prop) :
    st s s1 d (heap s) -> ds s = args ++ d -> length args <= ar ->
    (forall n, n = Z.of_nat (nul_bits (rest_of inp off)) ->
               (off + n <= Z.of_nat (cend inp))%Z -> Q (sub inp off n) s1) ->
    wp nulbytestr_read s1 Q (EF s ar) False.
  Proof.
    intros Hst Ha Hl HQ. unfold nulbytestr_read. apply wp_bind.
    eapply wp_rest_bits; eauto.
    destruct (rest_spec inp off Hw Hr) as (Hrw & Hra & Hrl).
    set (r := mkcbs (Z.to_nat off) (cend inp) (cdata inp)) in *.
    destruct (is_bytestr r); cbn [negb].
    - cbv zeta. rewrite (iter8_spec r Hrw), Hra. fold (nul_bits (rest_of inp off)).
      pose proof (nul_bits_le (rest_of inp off)) as Hle. rewrite rest_of_length in Hle by exact Hr.
      set (len := nul_bits (rest_of inp off)) in *.
      change (cstart r) with (Z.to_nat off). change (cdata r) with (cdata inp).
      replace (mkcbs (Z.to_nat off) (Z.to_nat off + len) (cdata inp))
        with (sub inp off (Z.of_nat len)) by (unfold sub; f_equal; lia).
      apply wp_ret. apply HQ; auto. lia.
    - apply wp_fail. eapply frame_intro; eauto.
  Qed.

  Lemma nulbytestr_word :
    wp w_nulbytestr s
       (fun _ s' => let n := Z.of_nat (nul_bits (rest_of inp off)) in
                    read_done s s' inp off n (ds s) (CBits (sub inp off n)) /\ cursor s' inp (off + n))
       (EF s 0) False.
  Proof.
    unfold w_nulbytestr. apply wp_bind.
    eapply (nul_core s (ds s) [] 0); [apply st_init|reflexivity|cbn [length]; lia|].
    intros n Hn Hfit. subst n. cbv zeta.
    eapply wp_commit; eauto using st_init; [lia| |].
    - intros _ s2 Hs2. eapply done_intro; eauto. lia.
    - intros Hlim. eapply (frame_intro s 0 _ (ds s) []); eauto using st_init.
  Qed.

  Lemma cstr_word :
    wp w_cstr s
       (fun _ s' => let n := Z.of_nat (nul_bits (rest_of inp off)) in
                    read_done s s' inp off n (ds s) (CStr (cstr_of (slice_bits inp off n))) /\
                    cursor s' inp (off + n))
       (EF s 0) False.
  Proof.
    unfold w_cstr. apply wp_bind.
    eapply (nul_core s (ds s) [] 0); [apply st_init|reflexivity|cbn [length]; lia|].
    intros n Hn Hfit. subst n. cbv zeta.
    set (n := Z.of_nat (nul_bits (rest_of inp off))) in *.
    destruct (sub_spec inp off n Hw ltac:(lia) ltac:(lia) Hfit) as (Hsw & Hsa & _).
    rewrite (iter8_spec _ Hsw), Hsa. fold (cstr_of (slice_bits inp off n)).
    eapply wp_commit; eauto using st_init; [lia| |].
    - intros _ s2 Hs2. eapply done_intro; eauto. lia.
    - intros Hlim. eapply (frame_intro s 0 _ (ds s) []); eauto using st_init.
  Qed.

  (* ----- magic ----- *)
  Lemma magic_word :
    wp w_magic s
       (fun _ s' => exists c rest pat, ds s = c :: rest /\ value c = CBits pat /\
          let n := Z.of_nat (clen pat) in
          read_done s s' inp off n rest (CBits (sub inp off n)) /\
          eq_with (sub inp off n) pat = true /\ cursor s' inp (off + n))
       (EF s 1) False.
  Proof.
    unfold w_magic. apply wp_bind. eapply wp_pop_data; [apply st_init| |].
    - intros c r s1 Hd Hs1. apply wp_bind. apply wp_m_bits.
      + intros pat Hpat. apply wp_bind. eapply wp_peek_bits; eauto.
        * intros Hn Hfit. destruct (eq_with (sub inp off (Z.of_nat (clen pat))) pat) eqn:Eq; cbn [negb].
          -- eapply wp_commit; eauto.
             ++ intros _ s' Hs'. destruct (done_intro s inp off Hcur _ _ _ _ Hs' Hn Hfit).
                exists c, r, pat. cbv zeta. auto.
             ++ intros Hlim. eapply (frame_intro s 1 _ r [c]); eauto.
          -- apply wp_fail. eapply (frame_intro s 1 _ r [c]); eauto.
        * intros _. eapply (frame_intro s 1 _ r [c]); eauto.
      + intros _. eapply (frame_intro s 1 _ r [c]); eauto.
    - eapply (frame_intro s 1 _ (ds s) []); eauto using st_init.
  Qed.
End Reads2.

(* ---------- tags of a stash entry ---------- *)
Lemma string_cmp_eq : forall a b, string_cmp a b = Eq -> a = b.
Proof.
  induction a as [|x a IH]; intros [|y b]; cbn [string_cmp]; try discriminate; [reflexivity|].
  destruct (N_of_ascii x ?= N_of_ascii y)%N eqn:C; try discriminate.
  intros H. apply N.compare_eq in C.
  assert (x = y) by (rewrite <- (ascii_N_embedding x), <- (ascii_N_embedding y), C; reflexivity).
  subst y. f_equal. auto.
Qed.

Lemma string_cmp_refl : forall a, string_cmp a a = Eq.
Proof.
  induction a as [|x a IH]; cbn [string_cmp]; [reflexivity|]. rewrite N.compare_refl. exact IH.
Qed.

Lemma offset_cmp_gt k' : cell_cmp offset_lit k' = Gt -> cell_cmp k' offset_lit <> Eq.
Proof.
  unfold offset_lit.
  assert (Hs : forall y, string_cmp "offset" y = Gt -> string_cmp y "offset" <> Eq).
  { intros y H1 H2. apply string_cmp_eq in H2. subst y. rewrite string_cmp_refl in H1. discriminate. }
  destruct k' as [| | | |y| | | | | |t v]; cbn; try discriminate; auto.
  destruct v as [| | | |y| | | | | |t' v']; cbn; try discriminate; auto.
Qed.

Lemma assoc_find_insert_offset : forall t v,
  assoc_find (assoc_insert t offset_lit v) offset_lit = Some v.
Proof.
  induction t as [|[k' v'] r IH]; intros v.
  - reflexivity.
  - cbn [assoc_insert]. destruct (cell_cmp offset_lit k') eqn:C.
    + reflexivity.
    + reflexivity.
    + unfold assoc_find. cbn [find fst]. pose proof (offset_cmp_gt k' C) as Hne.
      destruct (cell_cmp k' offset_lit); try congruence; apply IH.
Qed.

Lemma get_insert_offset c v : get_tag (insert_tag c offset_lit v) offset_lit = Some v.
Proof. unfold insert_tag, with_tags, get_tag. cbn [tags_of]. apply assoc_find_insert_offset. Qed.

Lemma value_insert_tag c k v : value (insert_tag c k v) = value c.
Proof. reflexivity. Qed.

Lemma value_value c b : value c = CBits b -> value (value c) = CBits b.
Proof. intros ->. reflexivity. Qed.

(* ---------- seek, remain, find, open, close ---------- *)
Lemma find_bytes_le : forall p l i pos, find_bytes p l i = Some pos -> i <= pos <= i + length l.
Proof.
  induction l as [|x r IH]; intros i pos; cbn [find_bytes].
  - destruct (prefix_eqb p []); [|discriminate]. intros H. injection H as <-. cbn [length]. lia.
  - destruct (prefix_eqb p (x :: r)).
    + intros H. injection H as <-. cbn [length]. lia.
    + intros H. apply IH in H. cbn [length]. lia.
Qed.

Definition EFrame (s : state) (ar : nat) : ekind -> option cell -> state -> Prop :=
  fun _ _ s' => fail_frame ar s s'.

Lemma fframe_intro s ar s' d' args :
  st s s' d' (heap s) -> ds s = args ++ d' -> length args <= ar -> fail_frame ar s s'.
Proof.
  intros (Hd & Hh & Hs) Ha Hl. split; [exact Hh|]. split; [exact Hs|]. exists args. rewrite Hd. auto.
Qed.

Section Moves.
  Variables (s : state) (inp : cbs) (off : Z).
  Hypothesis Hcur : cursor s inp off.

  Let Hm : notmeta s := proj1 Hcur.
  Let Hc : hcursor (heap s) inp off := proj2 Hcur.
  Let Hw : wf inp. Proof. destruct Hc as (_ & _ & _ & ? & _). assumption. Qed.
  Let Hr : (Z.of_nat (cstart inp) <= off <= Z.of_nat (cend inp))%Z.
  Proof. destruct Hc as (_ & _ & _ & _ & _ & ?). assumption. Qed.

  Lemma seek_word :
    wp w_seek s
       (fun _ s' => exists c rest n, ds s = c :: rest /\ is_usize c n /\
          (Z.of_nat (cstart inp) <= n <= Z.of_nat (cend inp))%Z /\
          ds s' = rest /\ heap s' = list_set (heap s) R_OFFSET (cint n) /\ sim s s' /\
          cursor s' inp n)
       (EFrame s 1) False.
  Proof.
    unfold w_seek. eapply wp_with_size; [apply st_init| | |].
    - intros c r n s2 Hd Hn Hs2. eapply wp_move_offset; eauto.
      + intros Hin s' (Hd' & Hh' & Hs'). exists c, r, n.
        split; [exact Hd|]. split; [exact Hn|]. split; [exact Hin|]. split; [exact Hd'|].
        split; [exact Hh'|]. split; [exact Hs'|]. split.
        * eapply sim_notmeta; eauto.
        * rewrite Hh'. apply (hcursor_set_offset _ _ off); auto.
      + intros _. eapply (fframe_intro s 1 _ r [c]); eauto.
    - eapply (fframe_intro s 1 _ (ds s) []); eauto using st_init.
    - intros c r s2 k p Hd _ Hs2 _. eapply (fframe_intro s 1 _ r [c]); eauto.
  Qed.

  Lemma remain_word :
    wp w_remain s
       (fun _ s' => ds s' = cint (Z.of_nat (cend inp) - off) :: ds s /\ heap s' = heap s /\ sim s s')
       (EFrame s 0) False.
  Proof.
    unfold w_remain. apply wp_bind. eapply wp_current_input; eauto using st_init.
    apply wp_bind. eapply wp_current_offset; eauto using st_init.
    replace (Z.max (Z.of_nat (cend inp)) off) with (Z.of_nat (cend inp)) by lia.
    eapply wp_push_data; [apply st_init| |].
    - intros _ s' (Hd & Hh & Hs). auto.
    - intros _. eapply (fframe_intro s 0 _ (ds s) []); eauto using st_init.
  Qed.

  Lemma find_word :
    wp w_find s
       (fun _ s' => exists c rest pat r, ds s = c :: rest /\ value c = CBits pat /\
          ds s' = r :: rest /\ heap s' = heap s /\ sim s s' /\
          (r = CNil \/ exists p, r = cint p /\ (off <= p <= Z.of_nat (cend inp))%Z))
       (EFrame s 1) False.
  Proof.
    unfold w_find. apply wp_bind. eapply wp_pop_data; [apply st_init| |].
    - intros c r s1 Hd Hs1. apply wp_bind. apply wp_m_bits.
      + intros pat Hpat. apply wp_bind. eapply wp_rest_bits; eauto.
        destruct (bytestr pat) as [pb|].
        * destruct (rest_spec inp off Hw Hr) as (Hrw & Hra & Hrl).
          set (rb := mkcbs (Z.to_nat off) (cend inp) (cdata inp)) in *.
          destruct (slice rb) as [bytes|] eqn:Esl.
          -- assert (Hlen : 8 * length bytes = clen rb).
             { unfold slice in Esl. destruct (is_u8_slice rb) eqn:Eu; [|discriminate].
               injection Esl as <-. pose proof (bytes_of_length rb Hrw Eu). lia. }
             destruct (find_bytes pb bytes 0) as [pos|] eqn:Ef.
             ++ eapply wp_push_data; eauto.
                ** intros _ s' (Hd' & Hh' & Hs'). exists c, r, pat. eexists. repeat split; eauto.
                   right. apply find_bytes_le in Ef. eexists. split; [reflexivity|].
                   change (cstart rb) with (Z.to_nat off). lia.
                ** intros _. eapply (fframe_intro s 1 _ r [c]); eauto.
             ++ eapply wp_push_data; eauto.
                ** intros _ s' (Hd' & Hh' & Hs'). exists c, r, pat. eexists. repeat split; eauto.
                ** intros _. eapply (fframe_intro s 1 _ r [c]); eauto.
          -- apply wp_fail. eapply (fframe_intro s 1 _ r [c]); eauto.
        * apply wp_fail. eapply (fframe_intro s 1 _ r [c]); eauto.
      + intros _. eapply (fframe_intro s 1 _ r [c]); eauto.
    - eapply (fframe_intro s 1 _ (ds s) []); eauto using st_init.
  Qed.
End Moves.

(* ---------- open-bitstr / close-bitstr ---------- *)
Definition heap3 (h : list cell) (o i st : cell) : list cell :=
  list_set (list_set (list_set h R_OFFSET o) R_INPUT i) R_STASH st.

Lemma heap3_facts h o i st : 6 <= length h ->
  length (heap3 h o i st) = length h /\
  nth_error (heap3 h o i st) R_OFFSET = Some o /\
  nth_error (heap3 h o i st) R_INPUT = Some i /\
  nth_error (heap3 h o i st) R_STASH = Some st /\
  (forall a, a <> R_OFFSET -> a <> R_INPUT -> a <> R_STASH ->
             nth_error (heap3 h o i st) a = nth_error h a).
Proof.
  intros Hl. unfold heap3, R_OFFSET, R_INPUT, R_STASH. split; [|split; [|split; [|split]]].
  - rewrite !list_set_len. reflexivity.
  - rewrite !nth_list_set_other by lia. apply nth_list_set_same. lia.
  - rewrite nth_list_set_other by lia. apply nth_list_set_same. rewrite list_set_len. lia.
  - apply nth_list_set_same. rewrite !list_set_len. lia.
  - intros a H1 H2 H3. rewrite !nth_list_set_other by lia. reflexivity.
Qed.

Lemma h_stash_cells h v : h_stash h = Some v ->
  exists cs, nth_error h R_STASH = Some cs /\ value cs = CVec v.
Proof.
  unfold h_stash. destruct (nth_error h R_STASH) as [cs|]; [|discriminate].
  destruct (value cs) eqn:Ev; try discriminate. intros H. injection H as ->. eauto.
Qed.

Section OpenClose.
  Variables (s : state) (inp : cbs) (off : Z).
  Hypothesis Hcur : cursor s inp off.

  Let Hm : notmeta s := proj1 Hcur.
  Let Hc : hcursor (heap s) inp off := proj2 Hcur.
  Let Hl : 6 <= length (heap s). Proof. destruct Hc as (? & _). assumption. Qed.

  Lemma open_word v : h_stash (heap s) = Some v ->
    wp w_open_bitstr s
       (fun _ s' => exists c rest b e, ds s = c :: rest /\ value c = CBits b /\ ds s' = rest /\
          heap s' = heap3 (heap s) (cnat (cstart b)) (CBits b) (CVec (v ++ [e])) /\
          entry_input e = Some inp /\ entry_offset e = Some off /\ sim s s')
       (EFrame s 1) False.
  Proof.
    intros Hv. destruct (h_stash_cells _ _ Hv) as (cs & Hcs & Vcs).
    destruct (hcursor_cells _ _ _ Hc) as (ci & co & Hi & Vi & Ho & Vo).
    unfold w_open_bitstr. apply wp_bind. eapply wp_pop_data; [apply st_init| |].
    - intros c r s1 Hd Hs1. apply wp_bind. apply wp_m_bits.
      + intros b Hb.
        apply wp_bind. eapply wp_get_var; eauto.
        apply wp_bind. eapply wp_get_var; eauto.
        apply wp_bind. eapply wp_set_var; eauto; [unfold R_OFFSET; lia|]. intros s2 Hs2.
        apply wp_bind. eapply wp_set_var; eauto; [rewrite list_set_len; unfold R_INPUT; lia|].
        intros s3 Hs3.
        apply wp_bind. eapply wp_get_var; eauto.
        { rewrite !nth_list_set_other by (unfold R_OFFSET, R_INPUT, R_STASH; lia). exact Hcs. }
        apply wp_bind. apply wp_m_vec.
        * intros v0 Hv0. rewrite Vcs in Hv0. injection Hv0 as <-.
          eapply wp_set_var; eauto; [rewrite !list_set_len; unfold R_STASH; lia|].
          intros s4 (Hd4 & Hh4 & Hs4).
          exists c, r, b, (insert_tag ci offset_lit co).
          split; [exact Hd|]. split; [exact Hb|]. split; [exact Hd4|]. split; [exact Hh4|].
          split; [|split; [|exact Hs4]].
          -- unfold entry_input. rewrite value_insert_tag, Vi. reflexivity.
          -- unfold entry_offset. rewrite get_insert_offset, Vo. reflexivity.
        * intros Hn. exfalso. eapply Hn; eauto.
      + intros _. eapply (fframe_intro s 1 _ r [c]); eauto.
    - eapply (fframe_intro s 1 _ (ds s) []); eauto using st_init.
  Qed.

  Lemma close_word v : h_stash (heap s) = Some v ->
    wp w_close_bitstr s
       (fun _ s' => exists v' e, v = v' ++ [e] /\ ds s' = ds s /\
          heap s' = heap3 (heap s)
                          (match get_tag e offset_lit with Some o => o | None => cint 0 end)
                          (value e) (CVec v') /\
          sim s s')
       (fun k _ s' => v = [] /\ fail_frame 0 s s') False.
  Proof.
    intros Hv. destruct (h_stash_cells _ _ Hv) as (cs & Hcs & Vcs).
    unfold w_close_bitstr. apply wp_bind. eapply wp_get_var; eauto using st_init.
    apply wp_bind. apply wp_m_vec.
    - intros v0 Hv0. rewrite Vcs in Hv0. injection Hv0 as <-.
      destruct (rev v) as [|e r] eqn:Er.
      + apply wp_fail. split.
        * rewrite <- (rev_involutive v), Er. reflexivity.
        * eapply (fframe_intro s 0 _ (ds s) []); eauto using st_init.
      + assert (Hv' : v = rev r ++ [e]) by (rewrite <- (rev_involutive v), Er; reflexivity).
        cbv zeta.
        apply wp_bind. eapply (wp_set_var _ _ s s (ds s) (heap s)); [apply st_init|exact Hm|unfold R_OFFSET; lia|]. intros s2 Hs2.
        apply wp_bind. eapply wp_set_var; eauto; [rewrite list_set_len; unfold R_INPUT; lia|].
        intros s3 Hs3.
        eapply wp_set_var; [exact Hs3|exact Hm|rewrite !list_set_len; unfold R_STASH; lia|].
        intros s4 (Hd4 & Hh4 & Hs4). exists (rev r), e. auto.
    - intros Hn. exfalso. eapply Hn; eauto.
  Qed.
End OpenClose.
