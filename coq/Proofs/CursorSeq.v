(* CursorSeq.v: open-bitstr / close-bitstr on the invariant, sequences of parsing words,
   and the LIFO discipline of the stash (C06 (c) (d)). *)
From Xeh Require Import Model.Prelude Model.Bits Model.Codec Model.Cell Model.Lexer Model.Fmt
                        Model.Vm Model.Words.
From Xeh Require Import Proofs.BitsBasic Proofs.BitsLists Proofs.BitsMirror Proofs.BitsProofs
                        Proofs.CodecBasic Proofs.CodecProofs Proofs.VmStep Proofs.CursorDefs
                        Proofs.CursorProofs Proofs.CursorWords Proofs.CursorTable Proofs.CursorInv.
From Coq Require Import ZifyBool ZifyNat ZifyN.
Local Notation length := List.length.

#[local] Arguments Z.add : simpl never.
#[local] Arguments Z.sub : simpl never.
#[local] Arguments Z.mul : simpl never.
#[local] Arguments Z.ltb : simpl never.
#[local] Arguments Z.leb : simpl never.
#[local] Arguments Z.eqb : simpl never.
#[local] Arguments Z.of_nat : simpl never.
#[local] Arguments Z.to_nat : simpl never.
#[local] Arguments Z.pow : simpl never.

(* ---------- open / close on the invariant ---------- *)
Definition open_post (s s' : state) : Prop :=
  exists inp off c rest b v e,
    cursor s inp off /\ h_stash (heap s) = Some v /\ ds s = c :: rest /\ value c = CBits b /\
    cur_inv s' /\ cursor s' b (Z.of_nat (cstart b)) /\ h_stash (heap s') = Some (v ++ [e]) /\
    entry_input e = Some inp /\ entry_offset e = Some off /\ ds s' = rest.

Definition close_post (s s' : state) : Prop :=
  exists v e b o,
    h_stash (heap s) = Some (v ++ [e]) /\ entry_input e = Some b /\ entry_offset e = Some o /\
    cur_inv s' /\ cursor s' b o /\ h_stash (heap s') = Some v /\ ds s' = ds s.

Lemma hcursor_heap3 h oc ic stc b o :
  6 <= length h -> value ic = CBits b -> value oc = CInt o ->
  wf b -> (Z.of_nat (cend b) < two64)%Z -> (Z.of_nat (cstart b) <= o <= Z.of_nat (cend b))%Z ->
  hcursor (heap3 h oc ic stc) b o.
Proof.
  intros Hl Hi Ho Hw Hb Hr. destruct (heap3_facts h oc ic stc Hl) as (H1 & H2 & H3 & H4 & _).
  unfold hcursor. rewrite H1. split; [exact Hl|]. split; [|split; [|auto]].
  - unfold h_input. rewrite H3, Hi. reflexivity.
  - unfold h_offset. rewrite H2, Ho. reflexivity.
Qed.

Lemma h_stash_heap3 h oc ic v : 6 <= length h -> h_stash (heap3 h oc ic (CVec v)) = Some v.
Proof.
  intros Hl. destruct (heap3_facts h oc ic (CVec v) Hl) as (_ & _ & _ & H4 & _).
  unfold h_stash. rewrite H4. reflexivity.
Qed.

Lemma open_inv : forall s, cur_inv s ->
  behaves (w_open_bitstr s) (open_post s) (fun _ => plain_step s).
Proof.
  intros s Hinv. pose proof Hinv as ((inp & off & Hcur) & (v & Hv & Hvok) & Hds).
  apply wp_behaves. eapply wp_conseq; [apply (open_word s inp off Hcur v Hv)| |auto|auto].
  - intros u s' (c & rest & b & e & Hd & Hc & Hd' & Hh & He1 & He2 & Hs).
    assert (Hl : 6 <= length (heap s)) by (destruct Hcur as (_ & ? & _); assumption).
    assert (Hcok : wf b /\ (Z.of_nat (cend b) < two64)%Z).
    { rewrite Hd in Hds. inversion Hds; subst. auto. }
    destruct Hcok as (Hbw & Hbb).
    assert (Hcur' : cursor s' b (Z.of_nat (cstart b))).
    { split; [eapply sim_notmeta; eauto; apply Hcur|]. rewrite Hh.
      apply hcursor_heap3; auto. destruct Hbw as (? & _). lia. }
    exists inp, off, c, rest, b, v, e.
    split; [exact Hcur|]. split; [exact Hv|]. split; [exact Hd|]. split; [exact Hc|].
    split; [|split; [exact Hcur'|split; [|auto]]].
    + split; [eauto|]. split.
      * exists (v ++ [e]). split; [rewrite Hh; apply h_stash_heap3; exact Hl|].
        apply Forall_app. split; [exact Hvok|]. constructor; [|constructor].
        destruct Hcur as (_ & _ & _ & _ & Hw & Hb & Hr). exists inp, off. auto.
      * rewrite Hd'. rewrite Hd in Hds. inversion Hds; auto.
    + rewrite Hh. apply h_stash_heap3. exact Hl.
  - intros k p s' Hf. eapply plain_of_frame; eauto.
Qed.

Lemma close_inv : forall s, cur_inv s ->
  behaves (w_close_bitstr s) (close_post s) (fun _ s' => h_stash (heap s) = Some [] /\ plain_step s s').
Proof.
  intros s Hinv. pose proof Hinv as ((inp & off & Hcur) & (v & Hv & Hvok) & Hds).
  apply wp_behaves. eapply wp_conseq; [apply (close_word s inp off Hcur v Hv)| |auto|auto].
  - intros u s' (v' & e & Hve & Hd' & Hh & Hs). subst v.
    assert (Hl : 6 <= length (heap s)) by (destruct Hcur as (_ & ? & _); assumption).
    apply Forall_app in Hvok. destruct Hvok as (Hv'ok & He). inversion He as [|? ? Heok _]; subst.
    destruct Heok as (b & o & Hei & Heo & Hbw & Hbb & Hbr).
    assert (Hcur' : cursor s' b o).
    { split; [eapply sim_notmeta; eauto; apply Hcur|]. rewrite Hh.
      unfold entry_input in Hei. unfold entry_offset in Heo.
      destruct (get_tag e offset_lit) as [oc|]; [|discriminate].
      apply hcursor_heap3; auto.
      - destruct (value e) eqn:Ev; try discriminate. injection Hei as ->. reflexivity.
      - destruct (value oc); try discriminate. injection Heo as ->. reflexivity. }
    exists v', e, b, o. split; [exact Hv|]. split; [exact Hei|]. split; [exact Heo|].
    split; [|split; [exact Hcur'|split; [|exact Hd']]].
    + split; [eauto|]. split.
      * exists v'. split; [rewrite Hh; apply h_stash_heap3; exact Hl|exact Hv'ok].
      * rewrite Hd'. exact Hds.
    + rewrite Hh. apply h_stash_heap3. exact Hl.
  - intros k p s' (Hnil & Hf). subst v. split; [exact Hv|]. eapply plain_of_frame; eauto.
Qed.

(* ---------- sequences of parsing words ---------- *)
Local Open Scope string_scope.

Inductive cop := Lit (c : cell) | Word (w : string).

Definition run_cop (fo : fops) (op : cop) : M unit :=
  match op with
  | Lit c => push_data c
  | Word w => match native_fn fo w with Some f => f | None => unsup end
  end.

Definition cursor_names : list string :=
  Eval vm_compute in map fst (cursor_table (mkfops Z.add Z.add Z.add Z.add Z.add Z.add Z.add
                                                   Z.succ Z.succ Z.succ Z.succ Z.succ)).

Definition cop_ok (op : cop) : Prop :=
  match op with Lit c => cell_ok c | Word w => In w cursor_names end.

(* what one executed step did to the stash *)
Inductive ev := EvPlain | EvOpen | EvClose.

Definition classify (op : cop) : ev :=
  match op with
  | Lit _ => EvPlain
  | Word w => if String.eqb w "open-bitstr" then EvOpen
              else if String.eqb w "close-bitstr" then EvClose else EvPlain
  end.

(* run a sequence the way the test harness does: after an error go on from the state the
   failing word left behind.  The trace records, per step, its effect on the stash: a failed
   step is [EvPlain] whatever the word *)
Fixpoint run_seq (fo : fops) (l : list cop) (s : state) : option (list ev * state) :=
  match l with
  | [] => Some ([], s)
  | op :: r =>
    match run_cop fo op s with
    | ROk _ s1 =>
      match run_seq fo r s1 with Some (t, s') => Some (classify op :: t, s') | None => None end
    | RErr _ _ s1 =>
      match run_seq fo r s1 with Some (t, s') => Some (EvPlain :: t, s') | None => None end
    | _ => None
    end
  end.

Inductive bal : list ev -> Prop :=
| bal_nil : bal []
| bal_plain : forall t, bal t -> bal (EvPlain :: t)
| bal_nest : forall t1 t2, bal t1 -> bal t2 -> bal (EvOpen :: t1 ++ EvClose :: t2).

Lemma names_table fo : map fst (cursor_table fo) = cursor_names.
Proof. reflexivity. Qed.

Lemma plain_names fo :
  forallb (fun nw => negb (String.eqb (fst nw) "open-bitstr") && negb (String.eqb (fst nw) "close-bitstr"))
          (plain_table fo) = true.
Proof. reflexivity. Qed.

Lemma table_find_word fo w : In w cursor_names ->
  exists f, native_fn fo w = Some f /\
            ((w = "open-bitstr" /\ f = w_open_bitstr) \/ (w = "close-bitstr" /\ f = w_close_bitstr) \/
             (classify (Word w) = EvPlain /\ inv_plain f)).
Proof.
  intros Hin. rewrite <- (names_table fo) in Hin. apply in_map_iff in Hin.
  destruct Hin as ([w' f] & Hw & Hin). cbn [fst] in Hw. subst w'. exists f.
  pose proof (cursor_table_native fo) as Hnat. rewrite Forall_forall in Hnat.
  split; [apply (Hnat _ Hin)|].
  unfold cursor_table in Hin. destruct Hin as [Heq|[Heq|Hin]].
  - injection Heq as <- <-. auto.
  - injection Heq as <- <-. auto.
  - right. right. split.
    + pose proof (plain_names fo) as Hp. rewrite forallb_forall in Hp. specialize (Hp _ Hin).
      cbn [fst] in Hp. unfold classify.
      destruct (String.eqb w "open-bitstr"); [discriminate|].
      destruct (String.eqb w "close-bitstr"); [discriminate|]. reflexivity.
    + pose proof (inv_plain_table fo) as Hi. rewrite Forall_forall in Hi. apply (Hi _ Hin).
Qed.

Lemma lit_step c s : cur_inv s -> cell_ok c ->
  behaves (push_data c s) (plain_step s) (fun _ => plain_step s).
Proof.
  intros Hinv Hc. pose proof Hinv as ((inp & off & Hcur) & _).
  apply wp_behaves. eapply wp_push_data; [apply st_init| |].
  - intros _ s' (Hd & Hh & Hs). eapply plain_of_same; eauto. rewrite Hd. constructor; [exact Hc|apply Hinv].
  - intros _. eapply plain_of_same; eauto using sim_refl. apply Hinv.
Qed.

(* the outcome of one step *)
Definition step_post (op : cop) (s s' : state) : Prop :=
  match classify op with
  | EvPlain => plain_step s s'
  | EvOpen => open_post s s'
  | EvClose => close_post s s'
  end.

Lemma step_cases fo op s : cur_inv s -> cop_ok op ->
  behaves (run_cop fo op s) (step_post op s) (fun _ => plain_step s).
Proof.
  intros Hinv Hok. destruct op as [c|w].
  - apply lit_step; auto.
  - cbn [cop_ok] in Hok. destruct (table_find_word fo w Hok) as (f & Hf & Hcase).
    unfold run_cop. rewrite Hf. destruct Hcase as [(-> & ->) | [(-> & ->) | (Hcl & Hip)]].
    + apply open_inv; auto.
    + eapply behaves_conseq; [apply close_inv; auto| |]; [auto|]. intros k s' (_ & H). exact H.
    + unfold step_post. rewrite Hcl. apply Hip. exact Hinv.
Qed.

Lemma step_post_inv op s s' : step_post op s s' -> cur_inv s'.
Proof.
  unfold step_post. destruct (classify op).
  - intros (H & _). exact H.
  - intros (inp & off & c & rest & b & v & e & _ & _ & _ & _ & H & _). exact H.
  - intros (v & e & b & o & _ & _ & _ & H & _). exact H.
Qed.

(* (c) the invariant holds along every sequence; no sequence panics or leaves the model *)
Theorem seq_inv fo : forall l s, cur_inv s -> Forall cop_ok l ->
  exists t s', run_seq fo l s = Some (t, s') /\ cur_inv s'.
Proof.
  induction l as [|op r IH]; intros s Hinv Hok.
  - exists [], s. auto.
  - inversion Hok as [|? ? Hop Hr]; subst. cbn [run_seq].
    pose proof (step_cases fo op s Hinv Hop) as Hstep. unfold behaves in Hstep.
    destruct (run_cop fo op s) as [u s1|k p s1| |]; try contradiction.
    + apply step_post_inv in Hstep. destruct (IH s1 Hstep Hr) as (t & s' & Hrun & Hinv').
      rewrite Hrun. eauto.
    + destruct Hstep as (Hinv1 & _). destruct (IH s1 Hinv1 Hr) as (t & s' & Hrun & Hinv').
      rewrite Hrun. eauto.
Qed.

Lemma run_seq_inv fo : forall l s t s', cur_inv s -> Forall cop_ok l ->
  run_seq fo l s = Some (t, s') -> cur_inv s'.
Proof.
  intros l s t s' Hinv Hok Hrun. destruct (seq_inv fo l s Hinv Hok) as (t0 & s0 & Hrun0 & H0).
  rewrite Hrun in Hrun0. injection Hrun0 as <- <-. exact H0.
Qed.

Local Close Scope string_scope.

Lemma step_ok_post fo op s u s1 : cur_inv s -> cop_ok op ->
  run_cop fo op s = ROk u s1 -> step_post op s s1.
Proof.
  intros Hinv Hop E. pose proof (step_cases fo op s Hinv Hop) as H. rewrite E in H. exact H.
Qed.

Lemma step_err_post fo op s k p s1 : cur_inv s -> cop_ok op ->
  run_cop fo op s = RErr k p s1 -> plain_step s s1.
Proof.
  intros Hinv Hop E. pose proof (step_cases fo op s Hinv Hop) as H. rewrite E in H. exact H.
Qed.

Lemma run_seq_nil fo l s s' : run_seq fo l s = Some ([], s') -> l = [] /\ s' = s.
Proof.
  destruct l as [|op r]; cbn [run_seq].
  - intros H. injection H as <-. auto.
  - destruct (run_cop fo op s) as [u s1|k p s1| |]; try discriminate;
      destruct (run_seq fo r s1) as [[t0 s0]|]; discriminate.
Qed.

Lemma run_seq_split fo : forall t1 t2 l s s', cur_inv s -> Forall cop_ok l ->
  run_seq fo l s = Some (t1 ++ t2, s') ->
  exists l1 l2 s1, l = l1 ++ l2 /\ run_seq fo l1 s = Some (t1, s1) /\ run_seq fo l2 s1 = Some (t2, s') /\
                   cur_inv s1 /\ Forall cop_ok l1 /\ Forall cop_ok l2.
Proof.
  induction t1 as [|e t1 IH]; intros t2 l s s' Hinv Hok Hrun.
  - exists [], l, s. cbn [app run_seq].
    split; [reflexivity|]. split; [reflexivity|]. split; [exact Hrun|]. split; [exact Hinv|].
    split; [constructor|exact Hok].
  - destruct l as [|op r].
    + cbn [run_seq] in Hrun. discriminate.
    + inversion Hok as [|? ? Hop Hr]; subst. cbn [app] in Hrun. cbn [run_seq] in Hrun.
      destruct (run_cop fo op s) as [u s1|k p s1| |] eqn:Eop; try discriminate.
      * destruct (run_seq fo r s1) as [[t0 s0]|] eqn:Er; [|discriminate].
        injection Hrun as He Ht Hs'. subst e t0 s0.
        assert (Hinv1 : cur_inv s1).
        { eapply step_post_inv. eapply step_ok_post; eauto. }
        destruct (IH t2 r s1 s' Hinv1 Hr Er) as (l1 & l2 & s2 & -> & H1 & H2 & Hinv2 & Hok1 & Hok2).
        exists (op :: l1), l2, s2. split; [reflexivity|].
        split; [cbn [run_seq]; rewrite Eop, H1; reflexivity|].
        split; [exact H2|]. split; [exact Hinv2|]. split; [constructor; assumption|exact Hok2].
      * destruct (run_seq fo r s1) as [[t0 s0]|] eqn:Er; [|discriminate].
        injection Hrun as He Ht Hs'. subst e t0 s0.
        assert (Hinv1 : cur_inv s1).
        { eapply (step_err_post fo op s k p s1 Hinv Hop Eop). }
        destruct (IH t2 r s1 s' Hinv1 Hr Er) as (l1 & l2 & s2 & -> & H1 & H2 & Hinv2 & Hok1 & Hok2).
        exists (op :: l1), l2, s2. split; [reflexivity|].
        split; [cbn [run_seq]; rewrite Eop, H1; reflexivity|].
        split; [exact H2|]. split; [exact Hinv2|]. split; [constructor; assumption|exact Hok2].
Qed.

(* one step, by its trace entry *)
Lemma run_seq_step fo op r s e t s' : cur_inv s -> cop_ok op ->
  run_seq fo (op :: r) s = Some (e :: t, s') ->
  exists s1, run_seq fo r s1 = Some (t, s') /\ cur_inv s1 /\
             match e with
             | EvPlain => plain_step s s1
             | EvOpen => open_post s s1
             | EvClose => close_post s s1
             end.
Proof.
  intros Hinv Hop Hrun. cbn [run_seq] in Hrun.
  destruct (run_cop fo op s) as [u s1|k p s1| |] eqn:Eop; try discriminate.
  - destruct (run_seq fo r s1) as [[t0 s0]|] eqn:Er; [|discriminate].
    injection Hrun as He Ht Hs'. subst e t0 s0.
    pose proof (step_ok_post fo op s u s1 Hinv Hop Eop) as Hp.
    exists s1. split; [exact Er|]. split; [eapply step_post_inv; eauto|exact Hp].
  - destruct (run_seq fo r s1) as [[t0 s0]|] eqn:Er; [|discriminate].
    injection Hrun as He Ht Hs'. subst e t0 s0.
    pose proof (step_err_post fo op s k p s1 Hinv Hop Eop) as Hp.
    exists s1. split; [exact Er|]. split; [apply Hp|exact Hp].
Qed.

Lemma cursor_obs s b o : cursor s b o -> h_input (heap s) = Some b /\ h_offset (heap s) = Some o.
Proof. intros (_ & _ & Hi & Ho & _). auto. Qed.

(* a balanced stretch leaves the input and the stash as they were (the offset may move) *)
Lemma bal_keeps fo : forall t, bal t -> forall l s s', cur_inv s -> Forall cop_ok l ->
  run_seq fo l s = Some (t, s') ->
  h_input (heap s') = h_input (heap s) /\ h_stash (heap s') = h_stash (heap s).
Proof.
  induction 1 as [|t Hb IH|t1 t2 Hb1 IH1 Hb2 IH2]; intros l s s' Hinv Hok Hrun.
  - apply run_seq_nil in Hrun. destruct Hrun as (_ & ->). auto.
  - destruct l as [|op r]; [cbn [run_seq] in Hrun; discriminate|].
    inversion Hok as [|? ? Hop Hr]; subst.
    destruct (run_seq_step fo op r s _ _ s' Hinv Hop Hrun) as (s1 & Hrun1 & Hinv1 & (_ & Hi & Hs)).
    destruct (IH r s1 s' Hinv1 Hr Hrun1) as (Hi' & Hs'). split; congruence.
  - destruct l as [|op r]; [cbn [run_seq] in Hrun; discriminate|].
    inversion Hok as [|? ? Hop Hr]; subst.
    destruct (run_seq_step fo op r s _ _ s' Hinv Hop Hrun) as (s1 & Hrun1 & Hinv1 & Hopen).
    destruct Hopen as (inp & off & c & rest & b & v & e & Hcur & Hv & _ & _ & _ & _ & Hv1 & He1 & He2 & _).
    destruct (run_seq_split fo t1 (EvClose :: t2) r s1 s' Hinv1 Hr Hrun1)
      as (l1 & l2 & s2 & -> & Hr1 & Hr2 & Hinv2 & Hok1 & Hok2).
    destruct (IH1 l1 s1 s2 Hinv1 Hok1 Hr1) as (_ & Hs2).
    destruct l2 as [|opc r2]; [cbn [run_seq] in Hr2; discriminate|].
    inversion Hok2 as [|? ? Hopc Hr2ok]; subst.
    destruct (run_seq_step fo opc r2 s2 _ _ s' Hinv2 Hopc Hr2) as (s3 & Hrun3 & Hinv3 & Hclose).
    destruct Hclose as (v' & e' & b' & o' & Hv2 & He1' & He2' & _ & Hcur3 & Hv3 & _).
    rewrite Hs2, Hv1 in Hv2. injection Hv2 as Hv2. apply app_inj_tail in Hv2. destruct Hv2 as (<- & <-).
    destruct (IH2 r2 s3 s' Hinv3 Hr2ok Hrun3) as (Hi' & Hs').
    destruct (cursor_obs _ _ _ Hcur3) as (Hi3 & _). destruct (cursor_obs _ _ _ Hcur) as (Hi0 & _).
    split; congruence.
Qed.

(* (d) LIFO: an open-bitstr that succeeded, a balanced stretch (nested open/close pairs, any
   other parsing words, failing words of any kind), then a close-bitstr that succeeded:
   input, offset and stash are exactly what they were before the open *)
Theorem close_open fo : forall l s t s', cur_inv s -> Forall cop_ok l ->
  run_seq fo l s = Some (EvOpen :: t ++ [EvClose], s') -> bal t ->
  h_input (heap s') = h_input (heap s) /\ h_offset (heap s') = h_offset (heap s) /\
  h_stash (heap s') = h_stash (heap s).
Proof.
  intros l s t s' Hinv Hok Hrun Hb.
  destruct l as [|op r]; [cbn [run_seq] in Hrun; discriminate|].
  inversion Hok as [|? ? Hop Hr]; subst.
  destruct (run_seq_step fo op r s _ _ s' Hinv Hop Hrun) as (s1 & Hrun1 & Hinv1 & Hopen).
  destruct Hopen as (inp & off & c & rest & b & v & e & Hcur & Hv & _ & _ & _ & _ & Hv1 & He1 & He2 & _).
  destruct (run_seq_split fo t [EvClose] r s1 s' Hinv1 Hr Hrun1)
    as (l1 & l2 & s2 & -> & Hr1 & Hr2 & Hinv2 & Hok1 & Hok2).
  destruct (bal_keeps fo t Hb l1 s1 s2 Hinv1 Hok1 Hr1) as (_ & Hs2).
  destruct l2 as [|opc r2]; [cbn [run_seq] in Hr2; discriminate|].
  inversion Hok2 as [|? ? Hopc Hr2ok]; subst.
  destruct (run_seq_step fo opc r2 s2 _ _ s' Hinv2 Hopc Hr2) as (s3 & Hrun3 & Hinv3 & Hclose).
  apply run_seq_nil in Hrun3. destruct Hrun3 as (_ & ->).
  destruct Hclose as (v' & e' & b' & o' & Hv2 & He1' & He2' & _ & Hcur3 & Hv3 & _).
  rewrite Hs2, Hv1 in Hv2. injection Hv2 as Hv2. apply app_inj_tail in Hv2. destruct Hv2 as (<- & <-).
  destruct (cursor_obs _ _ _ Hcur3) as (Hi3 & Ho3). destruct (cursor_obs _ _ _ Hcur) as (Hi0 & Ho0).
  split; [congruence|]. split; congruence.
Qed.

(* (c) every parsing word, by name, keeps the invariant in every outcome *)
Theorem cursor_table_inv : forall fo,
  Forall (fun nw => forall s, cur_inv s -> behaves (snd nw s) cur_inv (fun _ => cur_inv))
         (cursor_table fo).
Proof.
  intro fo. unfold cursor_table. constructor; [|constructor].
  - cbn [snd]. intros s Hinv. eapply behaves_conseq; [apply open_inv; exact Hinv| |].
    + intros s' (inp & off & c & rest & b & v & e & _ & _ & _ & _ & H & _). exact H.
    + intros k s' (H & _). exact H.
  - cbn [snd]. intros s Hinv. eapply behaves_conseq; [apply close_inv; exact Hinv| |].
    + intros s' (v & e & b & o & _ & _ & _ & H & _). exact H.
    + intros k s' (_ & H & _). exact H.
  - pose proof (inv_plain_table fo) as H. eapply Forall_impl; [|exact H].
    intros nw Hp s Hinv. eapply behaves_conseq; [apply Hp; exact Hinv| |].
    + intros s' (H1 & _). exact H1.
    + intros k s' (H1 & _). exact H1.
Qed.

(* words other than open-bitstr / close-bitstr leave the input and the stash alone *)
Theorem plain_table_keeps : forall fo,
  Forall (fun nw => forall s, cur_inv s ->
            behaves (snd nw s)
                    (fun s' => h_input (heap s') = h_input (heap s) /\ h_stash (heap s') = h_stash (heap s))
                    (fun _ s' => h_input (heap s') = h_input (heap s) /\ h_stash (heap s') = h_stash (heap s)))
         (plain_table fo).
Proof.
  intro fo. pose proof (inv_plain_table fo) as H. eapply Forall_impl; [|exact H].
  intros nw Hp s Hinv. eapply behaves_conseq; [apply Hp; exact Hinv| |].
  - intros s' (_ & H1). exact H1.
  - intros k s' (_ & H1). exact H1.
Qed.
