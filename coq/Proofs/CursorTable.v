(* CursorTable.v: the parsing words by name, and the check that these are the programs
   the interpreter's word table [native_fn] runs. *)
From Xeh Require Import Model.Prelude Model.Bits Model.Codec Model.Cell Model.Lexer Model.Fmt
                        Model.Vm Model.Words.
Local Open Scope string_scope.
Local Open Scope Z_scope.

(* every parsing word except open-bitstr / close-bitstr *)
Definition plain_table (fo : fops) : list (string * M unit) := [
  ("bits", with_size read_bits);
  ("bytes", with_size (fun n => read_bits (n * 8)));
  ("uint", with_size (fun n => with_order (read_unsigned n)));
  ("int", with_size (fun n => with_order (read_signed n)));
  ("float", with_size (fun n => with_order (read_float fo n)));
  ("magic", w_magic);
  ("nulbytestr", w_nulbytestr);
  ("cstr", w_cstr);
  ("seek", w_seek);
  ("remain", w_remain);
  ("find", w_find);
  ("u8", with_order (read_unsigned 8));
  ("u8le", read_unsigned 8 Little);
  ("u8be", read_unsigned 8 Big);
  ("i8", with_order (read_signed 8));
  ("i8le", read_signed 8 Little);
  ("i8be", read_signed 8 Big);
  ("u16", with_order (read_unsigned 16));
  ("u16le", read_unsigned 16 Little);
  ("u16be", read_unsigned 16 Big);
  ("i16", with_order (read_signed 16));
  ("i16le", read_signed 16 Little);
  ("i16be", read_signed 16 Big);
  ("u32", with_order (read_unsigned 32));
  ("u32le", read_unsigned 32 Little);
  ("u32be", read_unsigned 32 Big);
  ("i32", with_order (read_signed 32));
  ("i32le", read_signed 32 Little);
  ("i32be", read_signed 32 Big);
  ("u64", with_order (read_unsigned 64));
  ("u64le", read_unsigned 64 Little);
  ("u64be", read_unsigned 64 Big);
  ("i64", with_order (read_signed 64));
  ("i64le", read_signed 64 Little);
  ("i64be", read_signed 64 Big);
  ("f32", with_order (read_float fo 32));
  ("f32le", read_float fo 32 Little);
  ("f32be", read_float fo 32 Big);
  ("f64", with_order (read_float fo 64));
  ("f64le", read_float fo 64 Little);
  ("f64be", read_float fo 64 Big)
].

Definition cursor_table (fo : fops) : list (string * M unit) :=
  ("open-bitstr", w_open_bitstr) :: ("close-bitstr", w_close_bitstr) :: plain_table fo.

Lemma cursor_table_native : forall fo,
  Forall (fun nw => native_fn fo (fst nw) = Some (snd nw)) (cursor_table fo).
Proof.
  intro fo. unfold cursor_table, plain_table.
  repeat (apply Forall_cons; [ reflexivity | ]). apply Forall_nil.
Qed.
