(* DbgMapAlign.v (C17, 1): the debug map and the code vector have the same length, in every
   state the API can reach.  [al] is kept by emission (which, under [al], appends to both),
   by backpatching, by every immediate word, [build_word], [build1] for any fuel, by the
   context operations (the meta-block truncation cuts both at the same mark and re-emits
   through [code_emit]), by [build_unwind], by [eval] / [compile] for all sources, and by
   every machine step and reverse step. *)
From Xeh Require Import Model.Prelude Model.Bits Model.Codec Model.Cell Model.Lexer Model.Fmt
                        Model.Vm Model.Words Model.Build Model.Boot.
From Xeh Require Import Proofs.VmFrame Proofs.VmLimits Proofs.DbgMapVm Proofs.DbgMapGen.

#[local] Arguments Z.add : simpl never.
#[local] Arguments Z.sub : simpl never.
#[local] Arguments Z.mul : simpl never.
#[local] Arguments Z.ltb : simpl never.
#[local] Arguments Z.leb : simpl never.
#[local] Arguments Z.eqb : simpl never.
#[local] Arguments Z.of_nat : simpl never.
#[local] Arguments Z.to_nat : simpl never.

Definition al (s : state) : Prop := length (dbg s) = length (code s).

(* ---------- emission under alignment ---------- *)
Definition cur_tok (s : state) : tokref :=
  match last_tok s with Some t => t | None => (0, 0, 0) end.

Definition emit_state (op : opcode) (s : state) : state :=
  set_code (set_dbg s (dbg s ++ [cur_tok s])) (code s ++ [op]).

Lemma code_emit_al : forall op s, al s -> code_emit op s = ROk tt (emit_state op s).
Proof.
  intros op s H. unfold al in H. unfold code_emit, emit_state, cur_tok. cbv zeta.
  rewrite H, Nat.ltb_irrefl, Nat.eqb_refl. reflexivity.
Qed.

Lemma al_emit_state op s : al s -> al (emit_state op s).
Proof.
  unfold al, emit_state. cbn [set_code set_dbg code dbg]. rewrite !app_length. cbn [length]. lia.
Qed.

Lemma al_vm : forall s s', vmrel s s' -> al s -> al s'.
Proof.
  intros s s' H Hs. destruct (vmrel_keeps _ _ H) as (A1 & A2 & _). unfold al in *. congruence.
Qed.

Lemma al_eq : forall s s', code s' = code s -> dbg s' = dbg s -> al s -> al s'.
Proof. unfold al. intros s s' -> ->. auto. Qed.

Lemma al_trunc : forall s n, al s ->
  al (set_dbg (set_code s (firstn n (code s))) (firstn n (dbg s))).
Proof.
  intros s n H. unfold al in *. cbn [set_code set_dbg code dbg]. rewrite !firstn_length. lia.
Qed.

(* ---------- what token reading and the context operations keep ---------- *)
(* [bk]: everything the location depends on except input lexers, last token *)
Definition bk (s s' : state) : Prop :=
  code s' = code s /\ dbg s' = dbg s /\ sources s' = sources s /\ nested s' = nested s /\
  cx s' = cx s /\ flows s' = flows s /\ dict s' = dict s.

Lemma bk_refl s : bk s s.
Proof. repeat split. Qed.
Lemma bk_trans a b c : bk a b -> bk b c -> bk a c.
Proof.
  intros (A1 & A2 & A3 & A4 & A5 & A6 & A7) (B1 & B2 & B3 & B4 & B5 & B6 & B7). repeat split; congruence.
Qed.

Section Tok.
  Variable pr : string -> option Z.

  Lemma next_token_bk : forall fuel s, res_all (bk s) (next_token pr fuel s).
  Proof.
    induction fuel as [|f IH]; intros s; cbn [next_token]; [exact I|].
    destruct (input s) as [|il rest]; [apply bk_refl|]. cbv zeta.
    destruct (lex_next_nonws _ _) as [t l'].
    destruct t; try exact I; try (cbn [res_all]; repeat split; fail).
    - match goal with |- res_all _ (next_token pr f ?s1) => specialize (IH s1) end.
      destruct (next_token pr f _); cbn [res_all] in *; auto;
        (eapply bk_trans; [|exact IH]; repeat split).
    - destruct (pr text); cbn [res_all]; repeat split.
  Qed.

  Lemma get_token_bk : forall s, res_all (bk s) (get_token pr s).
  Proof. intros s. apply next_token_bk. Qed.

  Lemma next_name_bk : forall s, res_all (bk s) (next_name pr s).
  Proof.
    intros s. unfold next_name. cbv zeta. pose proof (get_token_bk s) as H.
    destruct (get_token pr s) as [t s1|k p s1| |]; cbn [res_all] in *; auto.
    destruct t; cbn [res_all]; try exact H; destruct (last_tok s); exact H.
  Qed.
End Tok.

Lemma leave_contexts_code : forall fuel depth s,
  code (leave_contexts fuel depth s) = code s /\ dbg (leave_contexts fuel depth s) = dbg s /\
  sources (leave_contexts fuel depth s) = sources s /\ last_tok (leave_contexts fuel depth s) = last_tok s /\
  input (leave_contexts fuel depth s) = input s.
Proof.
  induction fuel as [|f IH]; intros depth s; cbn [leave_contexts]; [repeat split|].
  destruct (S depth <? length (nested s))%nat; [|repeat split].
  destruct (nested s) as [|prev rest]; [repeat split|].
  destruct (IH depth (set_cx (set_nested s rest) prev)) as (A & B & C & D & F).
  rewrite A, B, C, D, F. repeat split.
Qed.

(* ---------- the instance ---------- *)
Section Align.
  Variable fo : fops.
  Variable pr : string -> option Z.
  Variable rf : nat.

  Notation agp := (gp al al).

  Lemma al_res_bk {A} (m : M A) :
    (forall s, res_all (bk s) (m s)) -> forall s, al s ->
    match m s with ROk _ s' => al s' | RErr _ _ s' => al s' | _ => True end.
  Proof.
    intros H s Hs. specialize (H s).
    destruct (m s) as [a s1|k p s1| |]; cbn [res_all] in H; auto;
      destruct H as (A1 & A2 & _); eapply al_eq; eauto.
  Qed.

  Lemma al_emit op : agp (code_emit op).
  Proof. intros s Hs. rewrite code_emit_al by exact Hs. apply al_emit_state. exact Hs. Qed.

  Lemma al_tok : agp (get_token pr).
  Proof. intros s Hs. apply (al_res_bk (get_token pr)); [apply get_token_bk|exact Hs]. Qed.

  Lemma al_tok0 : gq al al (fun t s' => match t with BEnd => al s' | _ => al s' end) (get_token pr).
  Proof.
    intros s Hs. pose proof (al_tok s Hs) as H.
    destruct (get_token pr s) as [t s1|k p s1| |]; auto. destruct t; exact H.
  Qed.

  Lemma al_name : agp (next_name pr).
  Proof. intros s Hs. apply (al_res_bk (next_name pr)); [apply next_name_bk|exact Hs]. Qed.

  Lemma al_open m : agp (context_open m).
  Proof. intros s Hs. exact Hs. Qed.

  Lemma al_intern t : agp (intern_source t).
  Proof. intros s Hs. exact Hs. Qed.

  Lemma al_run_m : agp (run_m fo rf).
  Proof. apply gq_run_m; [exact al_vm|auto]. Qed.

  Lemma al_emit_results : forall fuel, agp (emit_results fuel).
  Proof.
    induction fuel as [|f IH]; intros s Hs; cbn [emit_results]; [exact Hs|].
    destruct (ds_len (cx s) <? length (ds s))%nat; [|exact Hs].
    pose proof (wl_frm _ _ wl_pop_data s) as H1.
    destruct (pop_data s) as [v s1|k p s1| |]; cbn [res_all] in *; auto.
    - assert (Hs1 : al s1) by (eapply al_vm; [apply vmrel_frm; exact H1|exact Hs]).
      unfold code_emit_value. rewrite code_emit_al by exact Hs1.
      apply IH. apply al_emit_state. exact Hs1.
    - eapply al_vm; [apply vmrel_frm; exact H1|exact Hs].
  Qed.

  Lemma al_close : agp (context_close fo rf).
  Proof.
    intros s Hs. unfold context_close.
    destruct (nested s) as [|prev rest]; [exact Hs|]. cbv zeta.
    assert (H0 : al (set_nested s rest)) by exact Hs.
    destruct (cmode (cx (set_nested s rest))).
    - exact H0.
    - pose proof (al_run_m _ H0) as H.
      destruct (run_m fo rf (set_nested s rest)) as [u s1|k p s1| |]; auto.
    - pose proof (al_run_m _ H0) as H.
      destruct (run_m fo rf (set_nested s rest)) as [u s1|k p s1| |]; auto.
      set (s2 := set_dbg (set_code s1 (firstn (cs_len (cx s1)) (code s1))) (firstn (cs_len (cx s1)) (dbg s1))).
      assert (H2 : al s2) by (apply al_trunc; exact H).
      set (s3 := set_dict s2 _).
      assert (H3 : al s3) by exact H2.
      match goal with |- context [if ?b then _ else _] => destruct b end.
      + pose proof (al_emit_results (S (length (ds s3))) s3 H3) as H4.
        destruct (emit_results (S (length (ds s3))) s3) as [u4 s4|k p s4| |]; auto.
      + exact H3.
  Qed.

  Theorem al_build_unwind : forall depth inputs dsl heapl s,
    al s -> al (build_unwind depth inputs dsl heapl s).
  Proof.
    intros depth inputs dsl heapl s Hs. unfold build_unwind. cbv zeta.
    set (s0 := set_input s _).
    set (s1 := leave_contexts _ depth s0).
    assert (H1 : al s1).
    { destruct (leave_contexts_code (S (length (nested s0))) depth s0) as (A & B & _).
      eapply al_eq; [exact A|exact B|exact Hs]. }
    set (s2 := set_dbg (set_code s1 _) _).
    assert (H2 : al s2) by (apply al_trunc; exact H1).
    set (s5 := set_heap _ _).
    assert (H5 : al s5) by exact H2.
    destruct (nested s5) as [|prev rest]; [exact H5|].
    destruct (depth <? length (prev :: rest))%nat; exact H5.
  Qed.

  (* every immediate word, build_word, build1 *)
  Lemma al_immediate_fn : forall fuel name w, immediate_fn fo pr rf fuel name = Some w -> agp w.
  Proof.
    exact (gp_immediate_fn fo pr rf al al al (fun _ h => h) (fun _ h => h) al_vm al_emit al_tok al_name
             (al_open MMeta) (fun s Hs => al_close s (proj1 Hs)) al_intern).
  Qed.

  Lemma al_build_word : forall fuel name, agp (build_word fo pr rf fuel name).
  Proof.
    exact (gp_build_word fo pr rf al al al (fun _ h => h) (fun _ h => h) al_vm al_emit al_tok al_name
             (al_open MMeta) (fun s Hs => al_close s (proj1 Hs)) al_intern).
  Qed.

  Lemma al_build1 : forall fuel depth, agp (build1 fo pr rf fuel depth).
  Proof.
    exact (gp0_build1 fo pr rf al al al (fun _ h => h) (fun _ h => h) al_vm al_vm al_emit al_tok al_tok0 al_name
             (al_open MMeta) (fun s Hs => al_close s (proj1 Hs)) al_intern).
  Qed.

  Theorem al_build_from_source : forall fuel src m, agp (build_from_source fo pr rf fuel src m).
  Proof.
    intros fuel src m s Hs. unfold build_from_source. cbv zeta.
    change ((context_open m;; intern_source src) s) with
      (intern_source src (set_nested (set_cx s (mkctx
         (if mode_eqb (cmode (cx s)) m then ds_len (cx s) else length (ds s))
         (length (code s)) (length (rs s)) (length (flows s)) (length (loops s))
         (length (special s)) (length (dict s)) (code_origin s) m)) (cx s :: nested s))).
    unfold intern_source.
    match goal with |- context [build1 fo pr rf fuel ?d ?s1] =>
      pose proof (al_build1 fuel d s1 Hs) as H2; destruct (build1 fo pr rf fuel d s1) as [u2 s2|k p s2| |]; auto
    end.
    - apply al_close. exact H2.
    - apply al_build_unwind. exact H2.
  Qed.
End Align.

Theorem al_eval : forall fo pr rf fuel src s, al s -> res_all al (eval fo pr rf fuel src s).
Proof.
  intros fo pr rf fuel src s Hs. pose proof (al_build_from_source fo pr rf fuel src MEval s Hs) as H.
  unfold eval. destruct (build_from_source fo pr rf fuel src MEval s); exact H.
Qed.

Theorem al_compile : forall fo pr rf fuel src s, al s -> res_all al (compile fo pr rf fuel src s).
Proof.
  intros fo pr rf fuel src s Hs. pose proof (al_build_from_source fo pr rf fuel src MCompile s Hs) as H.
  unfold compile. destruct (build_from_source fo pr rf fuel src MCompile s); exact H.
Qed.

(* ---------- machine steps ---------- *)
Lemma res_all_vm {A} (P : state -> Prop) (r : res A) s :
  (forall s', vmrel s s' -> P s') -> res_all (vmrel s) r -> res_all P r.
Proof. intros H. destruct r; cbn [res_all]; auto. Qed.

Theorem al_far : forall fo s, al s -> res_all al (fetch_and_run (native_fn fo) s).
Proof.
  intros fo s Hs. eapply res_all_vm; [|apply far_vmrel, native_wl].
  intros s' H. eapply al_vm; eassumption.
Qed.

Theorem al_next : forall fo s, al s -> res_all al (next (native_fn fo) s).
Proof.
  intros fo s Hs. eapply res_all_vm; [|apply next_vmrel, native_wl].
  intros s' H. eapply al_vm; eassumption.
Qed.

Theorem al_run : forall fo fuel s, al s ->
  match run (native_fn fo) fuel s with Some r => res_all al r | None => True end.
Proof.
  intros fo fuel s Hs. pose proof (run_vmrel (native_fn fo) (native_wl fo) fuel s) as H.
  destruct (run (native_fn fo) fuel s); [|exact I].
  eapply res_all_vm; [|exact H]. intros s' H'. eapply al_vm; eassumption.
Qed.

Theorem al_rnext : forall s, al s -> res_all al (rnext s).
Proof.
  intros s Hs. pose proof (rnext_frm s) as H.
  destruct (rnext s); cbn [res_all] in *; auto; (eapply al_vm; [apply vmrel_frm; exact H|exact Hs]).
Qed.

(* ---------- API call sequences from the boot state ---------- *)
Section Api.
  Variable fo : fops.
  Variable pr : string -> option Z.

  (* the closure of boot under the API calls, as an inductive ... *)
  Inductive reach : state -> Prop :=
  | reach_boot : reach boot
  | reach_eval : forall s rf bf src s', reach s -> res_state (eval fo pr rf bf src s) = Some s' -> reach s'
  | reach_compile : forall s rf bf src s', reach s -> res_state (compile fo pr rf bf src s) = Some s' -> reach s'
  | reach_next : forall s s', reach s -> res_state (next (native_fn fo) s) = Some s' -> reach s'
  | reach_run : forall s fuel r s', reach s -> run (native_fn fo) fuel s = Some r -> res_state r = Some s' -> reach s'
  | reach_rnext : forall s s', reach s -> res_state (rnext s) = Some s' -> reach s'
  | reach_limits : forall s i h k, reach s -> reach (set_limits s i h k)
  | reach_rlog : forall s l, reach s -> reach (set_rlog s l).

  (* ... and as "every property that holds of boot and is kept by every call" (the form that
     Props files can repeat) *)
  Definition api_reach (s : state) : Prop :=
    forall P : state -> Prop,
      P boot ->
      (forall s rf bf src s', P s -> res_state (eval fo pr rf bf src s) = Some s' -> P s') ->
      (forall s rf bf src s', P s -> res_state (compile fo pr rf bf src s) = Some s' -> P s') ->
      (forall s s', P s -> res_state (next (native_fn fo) s) = Some s' -> P s') ->
      (forall s fuel r s', P s -> run (native_fn fo) fuel s = Some r -> res_state r = Some s' -> P s') ->
      (forall s s', P s -> res_state (rnext s) = Some s' -> P s') ->
      (forall s i h k, P s -> P (set_limits s i h k)) ->
      (forall s l, P s -> P (set_rlog s l)) ->
      P s.

  Lemma api_reach_iff : forall s, api_reach s <-> reach s.
  Proof.
    intros s. split.
    - intros H. apply H; clear s H;
        [ apply reach_boot
        | intros; eapply reach_eval; eauto
        | intros; eapply reach_compile; eauto
        | intros; eapply reach_next; eauto
        | intros; eapply reach_run; eauto
        | intros; eapply reach_rnext; eauto
        | intros; apply reach_limits; auto
        | intros; apply reach_rlog; auto ].
    - intros H P H0 H1 H2 H3 H4 H5 H6 H7.
      induction H; eauto.
  Qed.

  Lemma res_state_all {A} (P : state -> Prop) (r : res A) s' :
    res_all P r -> res_state r = Some s' -> P s'.
  Proof. destruct r; cbn [res_all res_state]; intros H E; try discriminate; injection E as <-; exact H. Qed.

  Theorem reach_al : forall s, reach s -> al s.
  Proof.
    induction 1 as [|s rf bf src s' _ IH E|s rf bf src s' _ IH E|s s' _ IH E|s fuel r s' _ IH E1 E2|s s' _ IH E| |].
    - reflexivity.
    - exact (res_state_all _ _ _ (al_eval fo pr rf bf src s IH) E).
    - exact (res_state_all _ _ _ (al_compile fo pr rf bf src s IH) E).
    - exact (res_state_all _ _ _ (al_next fo s IH) E).
    - pose proof (al_run fo fuel s IH) as H. rewrite E1 in H. exact (res_state_all _ _ _ H E2).
    - exact (res_state_all _ _ _ (al_rnext s IH) E).
    - assumption.
    - assumption.
  Qed.

  Theorem api_al : forall s, api_reach s -> al s.
  Proof. intros s H. apply reach_al. apply (proj1 (api_reach_iff s)). exact H. Qed.
End Api.
