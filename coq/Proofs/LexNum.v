(* integer conversion: int_from_str_radix against the digit-list value *)
From Xeh Require Import Model.Prelude Model.Bits Model.Cell Model.Lexer Model.Fmt.
From Coq Require Import ZifyBool ZifyNat ZifyN.
Local Open Scope string_scope.

Lemma digit_val_char_all :
  forallb (fun k => match digit_val (digit_char false (N.of_nat k)) with
                    | Some v => (v =? N.of_nat k)%N
                    | None => false
                    end) (seq 0 36) = true.
Proof. vm_compute. reflexivity. Qed.

Lemma digit_val_char d : (d < 36)%N -> digit_val (digit_char false d) = Some d.
Proof.
  intros H. pose proof digit_val_char_all as A. rewrite forallb_forall in A.
  specialize (A (N.to_nat d)). rewrite N2Nat.id in A.
  destruct (digit_val (digit_char false d)) as [v|].
  - assert (B : (v =? d)%N = true) by (apply A, in_seq; lia).
    apply N.eqb_eq in B. congruence.
  - assert (B : false = true) by (apply A, in_seq; lia). discriminate.
Qed.

Definition digits_str (ds : list N) : string :=
  fold_right (fun d acc => String (digit_char false d) acc) EmptyString ds.

Lemma digits_val_str radix : (radix <= 36)%N -> forall ds acc,
  Forall (fun d => (d < radix)%N) ds ->
  digits_val radix (digits_str ds) acc = Some (digits_value (Z.of_N radix) ds acc).
Proof.
  intros Hr. induction ds as [|d ds IH]; intros acc H; cbn [digits_str fold_right digits_val digits_value].
  - reflexivity.
  - inversion H as [|? ? Hd Hds]; subst.
    rewrite digit_val_char by lia.
    replace (d <? radix)%N with true by lia.
    apply IH. assumption.
Qed.

(* the sign dispatch of int_from_str_radix *)
Definition sign_split (s : string) : bool * string :=
  match s with
  | String "-" r => (true, r)
  | String "+" r => (false, r)
  | _ => (false, s)
  end.

Lemma int_from_str_radix_unfold s radix :
  int_from_str_radix s radix =
  let '(neg, body) := sign_split s in
  match body with
  | "" => None
  | _ =>
    match digits_val radix body 0%Z with
    | Some m => let v := if neg then (- m)%Z else m in
                if in_i128 v then Some v else None
    | None => None
    end
  end.
Proof. reflexivity. Qed.

Lemma sign_split_other c r : c <> "-"%char -> c <> "+"%char ->
  sign_split (String c r) = (false, String c r).
Proof.
  intros H1 H2.
  destruct c as [[] [] [] [] [] [] [] []]; try reflexivity; congruence.
Qed.

Lemma digit_char_not_sign d : (d < 36)%N ->
  digit_char false d <> "-"%char /\ digit_char false d <> "+"%char.
Proof.
  intros H. pose proof (digit_val_char d H) as E.
  split; intros C; rewrite C in E; vm_compute in E; discriminate.
Qed.

Lemma int_from_str_radix_spec :
  forall (neg : bool) (radix : N) (ds : list N) (body : string),
  (2 <= radix <= 36)%N -> ds <> [] -> Forall (fun d => (d < radix)%N) ds ->
  body = fold_right (fun d acc => String (digit_char false d) acc) EmptyString ds ->
  let v := (if neg then - digits_value (Z.of_N radix) ds 0 else digits_value (Z.of_N radix) ds 0)%Z in
  int_from_str_radix ((if neg then "-" else "") ++ body) radix = if in_i128 v then Some v else None.
Proof.
  intros neg radix ds body Hr Hne Hds Hb v. fold (digits_str ds) in Hb.
  rewrite int_from_str_radix_unfold.
  destruct ds as [|d ds']; [congruence|].
  assert (Hd : (d < radix)%N) by (inversion Hds; assumption).
  assert (Hbody : exists c r, body = String c r /\ c <> "-"%char /\ c <> "+"%char).
  { subst body. cbn [digits_str fold_right]. eexists _, _. split; [reflexivity|].
    apply digit_char_not_sign. lia. }
  destruct Hbody as (c & r & Eb & Hc1 & Hc2).
  assert (Hval : digits_val radix body 0 = Some (digits_value (Z.of_N radix) (d :: ds') 0)).
  { rewrite Hb. apply digits_val_str; [lia|assumption]. }
  destruct neg.
  - change ("-" ++ body) with (String "-" body). cbn [sign_split].
    rewrite Eb at 1. rewrite Hval. reflexivity.
  - change ("" ++ body) with body. rewrite Eb at 1. rewrite sign_split_other by assumption.
    rewrite <- Eb. rewrite Hval. reflexivity.
Qed.

Lemma hex_negative_refuted :
  exists z, in_i128 z = true /\
    let txt := fmt_int (fl_set_base fmt_default 16) z in
    forall n, lex_string txt <> [(TLit (CInt z), 0, n); (TEnd, n, n)].
Proof.
  exists (-1)%Z. split; [reflexivity|].
  cbv zeta. intros n.
  assert (E : lex_string (fmt_int (fl_set_base fmt_default 16) (-1)) = [(TErr PInt 0 34, 0, 34)]).
  { vm_compute. reflexivity. }
  rewrite E. discriminate.
Qed.
