(* MetaClose.v (C11): opening and closing a meta context, completely.

   [context_open MMeta] pushes the current context and installs marks at the current lengths
   (the data-stack mark is inherited when the enclosing context is a meta context too).

   [context_close] of a meta context runs the pending code and then produces [close_state]:
   code and debug map cut back to the code mark, the dictionary purged from the dictionary
   mark on, and - unless the enclosing context is a meta context that is not inside a word
   definition - one load-literal instruction per value above the data-stack mark, top of
   stack first; finally the enclosing context is put back. *)
From Xeh Require Import Model.Prelude Model.Bits Model.Codec Model.Cell Model.Lexer Model.Fmt
                        Model.Vm Model.Words Model.Build.
From Xeh Require Import Proofs.VmFrame Proofs.VmLimits Proofs.NoPanic Proofs.NoPanicBuild Proofs.NoPanicFlow
                        Proofs.MetaBase Proofs.MetaPurge.
Local Notation length := List.length.
Local Open Scope list_scope.

(* ---------- opening ---------- *)
Definition open_ctx (s : state) : ctx :=
  mkctx (if mode_eqb (cmode (cx s)) MMeta then ds_len (cx s) else length (ds s))
        (length (code s)) (length (rs s)) (length (flows s)) (length (loops s))
        (length (special s)) (length (dict s)) (length (code s)) MMeta.

Definition opened (s : state) : state := set_nested (set_cx s (open_ctx s)) (cx s :: nested s).

Lemma context_open_meta s : context_open MMeta s = ROk tt (opened s).
Proof. reflexivity. Qed.

Lemma opened_meta s : is_meta (opened s).
Proof. reflexivity. Qed.

Lemma opened_wfm s : wfm s -> wfm (opened s).
Proof.
  intros (H1 & _). unfold wfm, opened, open_ctx.
  cbn [set_nested set_cx cx ds rs loops special flows ds_len rs_len ls_len ss_ptr fs_len].
  repeat split; try lia. destruct (mode_eqb _ _); lia.
Qed.

(* ---------- emitting the results ---------- *)
Definition loc_of (s : state) : tokref :=
  match last_tok s with Some t => t | None => (0, 0, 0)%nat end.

Definition log_pops (res : list cell) (l : option (list rstep)) : option (list rstep) :=
  match l with Some x => Some (rev (map RPushData res) ++ x) | None => None end.

(* the values above the data-stack mark, top of stack first *)
Definition results (s : state) : list cell := firstn (length (ds s) - ds_len (cx s)) (ds s).

Definition emitted (s : state) : state :=
  mkstate (dict s) (heap s)
          (code s ++ map load_value_opcode (results s))
          (dbg s ++ repeat (loc_of s) (length (results s)))
          (sources s) (input s) (lastn (ds_len (cx s)) (ds s)) (rs s) (flows s) (loops s) (special s)
          (cx s) (nested s) (meter s) (insn_limit s) (heap_limit s) (stack_limit s)
          (log_pops (results s) (rlog s)) (out s) (last_tok s) (stopping s).

Lemma state_eta s :
  s = mkstate (dict s) (heap s) (code s) (dbg s) (sources s) (input s) (ds s) (rs s) (flows s)
              (loops s) (special s) (cx s) (nested s) (meter s) (insn_limit s) (heap_limit s)
              (stack_limit s) (rlog s) (out s) (last_tok s) (stopping s).
Proof. destruct s. reflexivity. Qed.

Lemma emitted_none s : length (ds s) <= ds_len (cx s) -> emitted s = s.
Proof.
  intros H. unfold emitted, results. replace (length (ds s) - ds_len (cx s)) with 0 by lia.
  cbn [firstn map repeat length]. rewrite !app_nil_r. rewrite lastn_all by lia.
  unfold log_pops. cbn [map rev app]. rewrite (state_eta s) at 22.
  destruct (rlog s); reflexivity.
Qed.

Lemma code_emit_aligned op s : length (dbg s) = length (code s) ->
  code_emit op s = ROk tt (set_code (set_dbg s (dbg s ++ [loc_of s])) (code s ++ [op])).
Proof.
  intros H. unfold code_emit. cbv zeta. rewrite H, Nat.ltb_irrefl, Nat.eqb_refl. reflexivity.
Qed.

Lemma state_ext (a b : state) :
  dict a = dict b -> heap a = heap b -> code a = code b -> dbg a = dbg b -> sources a = sources b ->
  input a = input b -> ds a = ds b -> rs a = rs b -> flows a = flows b -> loops a = loops b ->
  special a = special b -> cx a = cx b -> nested a = nested b -> meter a = meter b ->
  insn_limit a = insn_limit b -> heap_limit a = heap_limit b -> stack_limit a = stack_limit b ->
  rlog a = rlog b -> out a = out b -> last_tok a = last_tok b -> stopping a = stopping b -> a = b.
Proof. destruct a, b. cbn. intros. subst. reflexivity. Qed.

Lemma add_rstep_eq r s :
  add_rstep r s = set_rlog s (match rlog s with Some l => Some (r :: l) | None => None end).
Proof. unfold add_rstep. destruct (rlog s) eqn:E; [reflexivity|]. destruct s. cbn in *. subst. reflexivity. Qed.

Ltac proj_simpl :=
  cbn [set_code set_dbg set_ds set_rlog set_dict set_cx dict heap code dbg sources input ds rs flows loops
       special cx nested meter insn_limit heap_limit stack_limit rlog out last_tok stopping].

Lemma emit_results_spec : forall k fuel s,
  length (ds s) - ds_len (cx s) = k -> k < fuel ->
  ds_len (cx s) <= length (ds s) -> length (dbg s) = length (code s) ->
  emit_results fuel s = ROk tt (emitted s).
Proof.
  induction k as [|k IH]; intros fuel s Hk Hf Hl Hd.
  - destruct fuel as [|f]; [lia|]. cbn [emit_results].
    replace (ds_len (cx s) <? length (ds s))%nat with false by (symmetry; apply Nat.ltb_ge; lia).
    rewrite emitted_none by lia. reflexivity.
  - destruct fuel as [|f]; [lia|]. cbn [emit_results].
    assert (Hlt : ds_len (cx s) < length (ds s)) by lia.
    replace (ds_len (cx s) <? length (ds s))%nat with true by (symmetry; apply Nat.ltb_lt; exact Hlt).
    unfold pop_data. destruct (ds s) as [|v r] eqn:Eds; [cbn [length] in Hlt; lia|].
    replace (ds_len (cx s) <? length (v :: r))%nat with true by (symmetry; apply Nat.ltb_lt; exact Hlt).
    rewrite add_rstep_eq. proj_simpl.
    set (s1 := set_rlog (set_ds s r) _).
    unfold code_emit_value. rewrite code_emit_aligned by (unfold s1; proj_simpl; exact Hd).
    set (s2 := set_code _ _).
    cbn [length] in Hk, Hlt.
    assert (E2 : emit_results f s2 = ROk tt (emitted s2)).
    { apply (IH f s2); unfold s2, s1; proj_simpl; try lia.
      rewrite !app_length, Hd. reflexivity. }
    rewrite E2. f_equal.
    assert (Hr : results s = v :: results s2).
    { unfold results, s2, s1. proj_simpl. rewrite Eds. cbn [length].
      replace (S (length r) - ds_len (cx s)) with (S (length r - ds_len (cx s))) by lia. reflexivity. }
    apply state_ext; unfold emitted; rewrite ?Hr; unfold s2, s1, loc_of; proj_simpl; try reflexivity.
    + cbn [map]. rewrite <- app_assoc. reflexivity.
    + cbn [length repeat]. rewrite <- app_assoc. reflexivity.
    + rewrite Eds. symmetry. apply lastn_cons. lia.
    + unfold log_pops. destruct (rlog s); [|reflexivity]. cbn [map rev]. rewrite <- app_assoc. reflexivity.
Qed.

(* ---------- closing ---------- *)
Definition truncated (s : state) : state :=
  set_dbg (set_code s (firstn (cs_len (cx s)) (code s))) (firstn (cs_len (cx s)) (dbg s)).

Definition purged (s : state) : state :=
  set_dict s (firstn (di_len (cx s)) (dict s) ++ purge_all (skipn (di_len (cx s)) (dict s))).

Definition building_fun (s : state) (prev : ctx) : bool :=
  match firstn (length (flows s) - fs_len prev) (flows s) with FFun _ _ _ :: _ => true | _ => false end.

(* are the results compiled into the enclosing code? *)
Definition emit_flag (s : state) (prev : ctx) : bool :=
  negb (mode_eqb (cmode prev) MMeta) || building_fun s prev.

Definition close_state (s1 : state) (prev : ctx) : state :=
  set_cx (if emit_flag s1 prev then emitted (purged (truncated s1)) else purged (truncated s1)) prev.

(* what the machine state must satisfy when the block's code has run *)
Definition closable (s1 : state) : Prop :=
  cd_inv s1 /\ cs_len (cx s1) <= length (code s1) /\ di_len (cx s1) <= length (dict s1) /\
  ds_len (cx s1) <= length (ds s1).

Section Close3.
  Variable fo : fops.
  Variable rf : nat.

  Theorem context_close_meta : forall s prev rest s1,
    nested s = prev :: rest -> is_meta s ->
    run_m fo rf (set_nested s rest) = ROk tt s1 -> closable s1 ->
    context_close fo rf s = ROk tt (close_state s1 prev).
  Proof.
    intros s prev rest s1 En Hm Er (Hcd & Hcs & Hdi & Hds).
    unfold context_close. rewrite En. cbv zeta.
    change (cx (set_nested s rest)) with (cx s). unfold is_meta in Hm. rewrite Hm. rewrite Er.
    unfold close_state, emit_flag, building_fun.
    change (set_dbg (set_code s1 (firstn (cs_len (cx s1)) (code s1))) (firstn (cs_len (cx s1)) (dbg s1)))
      with (truncated s1).
    assert (Ep : set_dict (truncated s1)
                   (purge_dict (S (length (dict (truncated s1)))) (dict (truncated s1)) (di_len (cx s1)))
                 = purged (truncated s1)).
    { unfold purged. change (dict (truncated s1)) with (dict s1). change (cx (truncated s1)) with (cx s1).
      rewrite purge_dict_full by exact Hdi. reflexivity. }
    rewrite Ep. change (flows (purged (truncated s1))) with (flows s1).
    destruct (negb (mode_eqb (cmode prev) MMeta) ||
              match firstn (length (flows s1) - fs_len prev) (flows s1) with
              | FFun _ _ _ :: _ => true | _ => false end); [|reflexivity].
    rewrite (emit_results_spec (length (ds s1) - ds_len (cx s1))); [reflexivity|reflexivity| | |].
    - change (ds (purged (truncated s1))) with (ds s1). lia.
    - exact Hds.
    - unfold cd_inv in Hcd. unfold purged, truncated. cbn [set_dict set_dbg set_code dbg code].
      rewrite !firstn_length. lia.
  Qed.

  Theorem context_close_meta_err : forall s prev rest k p s1,
    nested s = prev :: rest -> is_meta s ->
    run_m fo rf (set_nested s rest) = RErr k p s1 ->
    context_close fo rf s = RErr k p (set_nested s1 (prev :: nested s1)).
  Proof.
    intros s prev rest k p s1 En Hm Er. unfold context_close. rewrite En. cbv zeta.
    change (cx (set_nested s rest)) with (cx s). unfold is_meta in Hm. rewrite Hm, Er. reflexivity.
  Qed.

  (* any successful close of a meta context has this shape *)
  Theorem context_close_meta_inv : forall s s',
    is_meta s -> context_close fo rf s = ROk tt s' ->
    exists prev rest s1, nested s = prev :: rest /\ run_m fo rf (set_nested s rest) = ROk tt s1.
  Proof.
    intros s s' Hm E. unfold context_close in E.
    destruct (nested s) as [|prev rest]; [discriminate|]. cbv zeta in E.
    change (cx (set_nested s rest)) with (cx s) in E. unfold is_meta in Hm. rewrite Hm in E.
    destruct (run_m fo rf (set_nested s rest)) as [[] s1|? ? ?| |] eqn:Er; try discriminate.
    exists prev, rest, s1. split; [reflexivity|exact Er].
  Qed.
End Close3.

(* ---------- the fields of the closed state ---------- *)
Section Fields.
  Variable s1 : state.
  Variable prev : ctx.
  Let c := cx s1.
  Let res := if emit_flag s1 prev then results s1 else [].

  Lemma close_cx : cx (close_state s1 prev) = prev.
  Proof. unfold close_state. reflexivity. Qed.
  Lemma close_nested : nested (close_state s1 prev) = nested s1.
  Proof. unfold close_state. destruct (emit_flag s1 prev); reflexivity. Qed.
  Lemma close_heap : heap (close_state s1 prev) = heap s1.
  Proof. unfold close_state. destruct (emit_flag s1 prev); reflexivity. Qed.
  Lemma close_code :
    code (close_state s1 prev) = firstn (cs_len c) (code s1) ++ map load_value_opcode res.
  Proof.
    unfold close_state, res. destruct (emit_flag s1 prev); [reflexivity|].
    cbn [map]. rewrite app_nil_r. reflexivity.
  Qed.
  Lemma close_dbg :
    dbg (close_state s1 prev) = firstn (cs_len c) (dbg s1) ++ repeat (loc_of s1) (length res).
  Proof.
    unfold close_state, res. destruct (emit_flag s1 prev); [reflexivity|].
    cbn [length repeat]. rewrite app_nil_r. reflexivity.
  Qed.
  Lemma close_dict :
    dict (close_state s1 prev) = firstn (di_len c) (dict s1) ++ purge_all (skipn (di_len c) (dict s1)).
  Proof. unfold close_state. destruct (emit_flag s1 prev); reflexivity. Qed.
  Lemma close_ds :
    ds (close_state s1 prev) = if emit_flag s1 prev then lastn (ds_len c) (ds s1) else ds s1.
  Proof. unfold close_state. destruct (emit_flag s1 prev); reflexivity. Qed.
  Lemma close_rlog : rlog (close_state s1 prev) = log_pops res (rlog s1).
  Proof.
    unfold close_state, res. destruct (emit_flag s1 prev); [reflexivity|].
    change (rlog (set_cx (purged (truncated s1)) prev)) with (rlog s1).
    unfold log_pops. cbn [map rev app]. destruct (rlog s1); reflexivity.
  Qed.
  Lemma close_rest :
    rs (close_state s1 prev) = rs s1 /\ flows (close_state s1 prev) = flows s1 /\
    loops (close_state s1 prev) = loops s1 /\ special (close_state s1 prev) = special s1 /\
    sources (close_state s1 prev) = sources s1 /\ input (close_state s1 prev) = input s1 /\
    meter (close_state s1 prev) = meter s1 /\ insn_limit (close_state s1 prev) = insn_limit s1 /\
    heap_limit (close_state s1 prev) = heap_limit s1 /\ stack_limit (close_state s1 prev) = stack_limit s1 /\
    out (close_state s1 prev) = out s1 /\ last_tok (close_state s1 prev) = last_tok s1 /\
    stopping (close_state s1 prev) = stopping s1.
  Proof. unfold close_state. destruct (emit_flag s1 prev); repeat split. Qed.
End Fields.
