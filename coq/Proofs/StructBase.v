(* StructBase.v: infrastructure for the structural evaluator of Model/Struct.v:
   an induction principle for the nested type [stmt], named versions of the local
   fixpoints of [sstmt] ([do_iter] for the trips of a counted loop, [case_go] for the arms
   of a case), the one-step unfolding equations of [sblock] / [sstmt], and the refinement
   order "out of fuel or equal" on results. *)
From Xeh Require Import Model.Prelude Model.Bits Model.Codec Model.Cell Model.Lexer Model.Fmt
                        Model.Vm Model.Words Model.Struct.
Local Notation length := List.length.

(* ---------- induction on statements (nested through lists and triples) ---------- *)
Definition arm : Type := (list stmt * pos * list stmt)%type.
Definition arm_pre (a : arm) : list stmt := fst (fst a).
Definition arm_pos (a : arm) : pos := snd (fst a).
Definition arm_body (a : arm) : list stmt := snd a.

Section StmtInd.
  Variable P : stmt -> Prop.
  Variable Q : list stmt -> Prop.
  Hypothesis Qnil : Q [].
  Hypothesis Qcons : forall x r, P x -> Q r -> Q (x :: r).
  Hypothesis HLit : forall c p, P (SLit c p).
  Hypothesis HPrim : forall w p, P (SPrim w p).
  Hypothesis HCall : forall g p, P (SCall g p).
  Hypothesis HGet : forall a p, P (SGet a p).
  Hypothesis HSet : forall a p, P (SSet a p).
  Hypothesis HLocGet : forall i p, P (SLocGet i p).
  Hypothesis HLocSet : forall i p, P (SLocSet i p).
  Hypothesis HIf : forall p t, Q t -> P (SIf p t).
  Hypothesis HIfE : forall p t e, Q t -> Q e -> P (SIfE p t e).
  Hypothesis HCase : forall arms d,
    Forall (fun a : arm => Q (arm_pre a) /\ Q (arm_body a)) arms -> Q d -> P (SCase arms d).
  Hypothesis HUntil : forall b p, Q b -> P (SUntil b p).
  Hypothesis HRepeat : forall b, Q b -> P (SRepeat b).
  Hypothesis HWhile : forall c p b, Q c -> Q b -> P (SWhile c p b).
  Hypothesis HDo : forall p b pl, Q b -> P (SDo p b pl).
  Hypothesis HBreak : P SBreak.
  Hypothesis HDef : forall g, P (SDef g).

  Fixpoint stmt_ind2 (x : stmt) : P x :=
    let blk := fix blk (l : list stmt) : Q l :=
                 match l with
                 | [] => Qnil
                 | y :: r => Qcons y r (stmt_ind2 y) (blk r)
                 end in
    match x with
    | SLit c p => HLit c p
    | SPrim w p => HPrim w p
    | SCall g p => HCall g p
    | SGet a p => HGet a p
    | SSet a p => HSet a p
    | SLocGet i p => HLocGet i p
    | SLocSet i p => HLocSet i p
    | SIf p t => HIf p t (blk t)
    | SIfE p t e => HIfE p t e (blk t) (blk e)
    | SCase arms d =>
      HCase arms d
        ((fix go (l : list arm) : Forall (fun a : arm => Q (arm_pre a) /\ Q (arm_body a)) l :=
            match l with
            | [] => Forall_nil _
            | a :: r => Forall_cons a (conj (blk (arm_pre a)) (blk (arm_body a))) (go r)
            end) arms)
        (blk d)
    | SUntil b p => HUntil b p (blk b)
    | SRepeat b => HRepeat b (blk b)
    | SWhile c p b => HWhile c p b (blk c) (blk b)
    | SDo p b pl => HDo p b pl (blk b)
    | SBreak => HBreak
    | SDef g => HDef g
    end.

  Fixpoint block_ind2 (l : list stmt) : Q l :=
    match l with
    | [] => Qnil
    | y :: r => Qcons y r (stmt_ind2 y) (block_ind2 r)
    end.

  Lemma stmt_block_ind : (forall x, P x) /\ (forall l, Q l).
  Proof. split; [ exact stmt_ind2 | exact block_ind2 ]. Qed.
End StmtInd.

(* ---------- results ---------- *)
(* continue after a block: [kd] when it ran to its end, [kb] when it stopped at a break *)
Definition on_res (r : sres) (kd kb : state -> sres) : sres :=
  match r with
  | SDone s => kd s
  | SBroke s => kb s
  | SFail k pl p s => SFail k pl p s
  | SOut => SOut
  | SUnsup => SUnsup
  end.

(* the test of if / until / while *)
Definition m_test : M bool := let* c := pop_data in m_cond c.
(* the comparison of `of` *)
Definition m_of : M bool := let* a := pop_data in let* b := top_data in ret (cell_eqb a b).

Section DoIter.
  Variable body : state -> sres.
  Variable pl : pos.
  (* the trips of a counted loop whose record is on the loop stack *)
  Fixpoint do_iter (k : nat) (s : state) : sres :=
    match k with
    | O => SOut
    | S k' =>
      match body s with
      | SDone s3 =>
        run_m loop_next pl s3 (fun more s4 =>
          if more then do_iter k' s4 else run_m pop_loop pl s4 (fun _ s5 => SDone s5))
      | SBroke s3 => run_m pop_loop pl s3 (fun _ s4 => SDone s4)
      | other => other
      end
    end.
End DoIter.

Section CaseGo.
  Variable blk : list stmt -> state -> sres.
  Variable dflt : list stmt.
  Fixpoint case_go (arms : list (list stmt * pos * list stmt)) (s : state) : sres :=
    match arms with
    | [] => blk dflt s
    | (pre, pof, body) :: r =>
      match blk pre s with
      | SDone s1 =>
        run_m (let* a := pop_data in let* b := top_data in ret (cell_eqb a b)) pof s1 (fun eq s2 =>
          if eq then run_m pop_data pof s2 (fun _ s3 => blk body s3)
          else case_go r s2)
      | other => other
      end
    end.
End CaseGo.

(* ---------- one-step equations ---------- *)
Section Eqns.
  Variable fo : fops.
  Variable funs : list (nat * list stmt).
  Notation sblock := (sblock fo funs).
  Notation sstmt := (sstmt fo funs).

  Lemma sblock_0 : forall l s, sblock 0 l s = SOut.
  Proof. reflexivity. Qed.
  Lemma sstmt_0 : forall x s, sstmt 0 x s = SOut.
  Proof. reflexivity. Qed.
  Lemma sblock_nil : forall f s, sblock (S f) [] s = SDone s.
  Proof. reflexivity. Qed.
  Lemma sblock_cons : forall f x r s,
    sblock (S f) (x :: r) s = on_res (sstmt f x s) (fun s' => sblock f r s') SBroke.
  Proof. reflexivity. Qed.

  Lemma sstmt_SLit : forall f c p s,
    sstmt (S f) (SLit c p) s = run_m (push_data c) p s (fun _ s' => SDone s').
  Proof. reflexivity. Qed.
  Lemma sstmt_SPrim : forall f w p s,
    sstmt (S f) (SPrim w p) s =
    match native_fn fo w with
    | Some m => run_m m p s (fun _ s' => SDone s')
    | None => SUnsup
    end.
  Proof. reflexivity. Qed.
  Lemma sstmt_SGet : forall f a p s,
    sstmt (S f) (SGet a p) s = run_m (let* v := get_var a in push_data v) p s (fun _ s' => SDone s').
  Proof. reflexivity. Qed.
  Lemma sstmt_SSet : forall f a p s,
    sstmt (S f) (SSet a p) s = run_m (let* v := pop_data in set_var a v) p s (fun _ s' => SDone s').
  Proof. reflexivity. Qed.
  Lemma sstmt_SLocSet : forall f i p s,
    sstmt (S f) (SLocSet i p) s = run_m (let* v := pop_data in init_local i v) p s (fun _ s' => SDone s').
  Proof. reflexivity. Qed.
  Definition m_locget (i : nat) : M unit :=
    let* fr := top_frame in
    match nth_error (locals fr) i with
    | Some v => push_data v
    | None => fail ELocalOob None
    end.
  Lemma sstmt_SLocGet : forall f i p s,
    sstmt (S f) (SLocGet i p) s = run_m (m_locget i) p s (fun _ s' => SDone s').
  Proof. reflexivity. Qed.
  Lemma sstmt_SDef : forall f g s, sstmt (S f) (SDef g) s = SDone s.
  Proof. reflexivity. Qed.
  Lemma sstmt_SBreak : forall f s, sstmt (S f) SBreak s = SBroke s.
  Proof. reflexivity. Qed.
  Lemma sstmt_SCall : forall f g p s,
    sstmt (S f) (SCall g p) s =
    match fun_body funs g with
    | None => SUnsup
    | Some body =>
      run_m (push_return (mkframe 0 0 [])) p s (fun _ s1 =>
        on_res (sblock f body s1) (fun s2 => run_m pop_return p s2 (fun _ s3 => SDone s3)) SBroke)
    end.
  Proof. reflexivity. Qed.
  Lemma sstmt_SIf : forall f p t s,
    sstmt (S f) (SIf p t) s =
    run_m m_test p s (fun b s1 => if b then sblock f t s1 else SDone s1).
  Proof. reflexivity. Qed.
  Lemma sstmt_SIfE : forall f p t e s,
    sstmt (S f) (SIfE p t e) s =
    run_m m_test p s (fun b s1 => if b then sblock f t s1 else sblock f e s1).
  Proof. reflexivity. Qed.
  Lemma sstmt_SUntil : forall f b p s,
    sstmt (S f) (SUntil b p) s =
    on_res (sblock f b s)
           (fun s1 => run_m m_test p s1 (fun c s2 => if c then SDone s2 else sstmt f (SUntil b p) s2))
           SBroke.
  Proof. reflexivity. Qed.
  Lemma sstmt_SRepeat : forall f b s,
    sstmt (S f) (SRepeat b) s =
    on_res (sblock f b s) (fun s1 => sstmt f (SRepeat b) s1) SDone.
  Proof. reflexivity. Qed.
  Lemma sstmt_SWhile : forall f c p b s,
    sstmt (S f) (SWhile c p b) s =
    on_res (sblock f c s)
           (fun s1 => run_m m_test p s1 (fun go s2 =>
              if go then on_res (sblock f b s2) (fun s3 => sstmt f (SWhile c p b) s3) SDone
              else SDone s2))
           SDone.
  Proof. reflexivity. Qed.
  Lemma sstmt_SDo : forall f p b pl s,
    sstmt (S f) (SDo p b pl) s =
    run_m do_init p s (fun l s1 =>
      if (l_end l <=? l_start l)%Z then SDone s1
      else run_m (push_loop l) p s1 (fun _ s2 => do_iter (sblock f b) pl f s2)).
  Proof. reflexivity. Qed.
  Lemma sstmt_SCase : forall f arms dflt s,
    sstmt (S f) (SCase arms dflt) s = case_go (sblock f) dflt arms s.
  Proof. reflexivity. Qed.

  Lemma do_iter_0 : forall body pl s, do_iter body pl 0 s = SOut.
  Proof. reflexivity. Qed.
  Lemma do_iter_S : forall body pl k s,
    do_iter body pl (S k) s =
    on_res (body s)
           (fun s3 => run_m loop_next pl s3 (fun more s4 =>
              if more then do_iter body pl k s4 else run_m pop_loop pl s4 (fun _ s5 => SDone s5)))
           (fun s3 => run_m pop_loop pl s3 (fun _ s4 => SDone s4)).
  Proof. reflexivity. Qed.
  Lemma case_go_nil : forall blk dflt s, case_go blk dflt [] s = blk dflt s.
  Proof. reflexivity. Qed.
  Lemma case_go_cons : forall blk dflt pre pof body r s,
    case_go blk dflt ((pre, pof, body) :: r) s =
    on_res (blk pre s)
           (fun s1 => run_m m_of pof s1 (fun eq s2 =>
              if eq then run_m pop_data pof s2 (fun _ s3 => blk body s3)
              else case_go blk dflt r s2))
           SBroke.
  Proof. reflexivity. Qed.
End Eqns.

Ltac sstmt_unfold :=
  first [ rewrite sstmt_SLit | rewrite sstmt_SPrim | rewrite sstmt_SGet | rewrite sstmt_SSet
        | rewrite sstmt_SLocSet | rewrite sstmt_SLocGet | rewrite sstmt_SDef | rewrite sstmt_SBreak
        | rewrite sstmt_SCall | rewrite sstmt_SIf | rewrite sstmt_SIfE | rewrite sstmt_SUntil
        | rewrite sstmt_SRepeat | rewrite sstmt_SWhile | rewrite sstmt_SDo | rewrite sstmt_SCase ].

(* ---------- run_m ---------- *)
Lemma run_m_ok : forall A (m : M A) p s k a s', m s = ROk a s' -> run_m m p s k = k a s'.
Proof. intros A m p s k a s' H. unfold run_m. rewrite H. reflexivity. Qed.
Lemma run_m_err : forall A (m : M A) p s k kd pl s', m s = RErr kd pl s' -> run_m m p s k = SFail kd pl p s'.
Proof. intros A m p s k kd pl s' H. unfold run_m. rewrite H. reflexivity. Qed.

(* what a successful [run_m] looks like *)
Lemma run_m_done_inv : forall A (m : M A) p s k s',
  run_m m p s k = SDone s' -> exists a s1, m s = ROk a s1 /\ k a s1 = SDone s'.
Proof. intros A m p s k s' H. unfold run_m in H. destruct (m s); try discriminate. eauto. Qed.
Lemma run_m_broke_inv : forall A (m : M A) p s k s',
  run_m m p s k = SBroke s' -> exists a s1, m s = ROk a s1 /\ k a s1 = SBroke s'.
Proof. intros A m p s k s' H. unfold run_m in H. destruct (m s); try discriminate. eauto. Qed.
Lemma run_m_out_inv : forall A (m : M A) p s k,
  run_m m p s k = SOut -> exists a s1, m s = ROk a s1 /\ k a s1 = SOut.
Proof. intros A m p s k H. unfold run_m in H. destruct (m s); try discriminate. eauto. Qed.

Lemma on_res_assoc : forall r kd kb kd' kb',
  on_res (on_res r kd kb) kd' kb' = on_res r (fun s => on_res (kd s) kd' kb') (fun s => on_res (kb s) kd' kb').
Proof. intros. destruct r; reflexivity. Qed.
Lemma on_res_id : forall r, on_res r SDone SBroke = r.
Proof. destruct r; reflexivity. Qed.

(* ---------- the order "out of fuel, or the same result" ---------- *)
Definition sle (a b : sres) : Prop := a = SOut \/ b = a.

Lemma sle_refl : forall a, sle a a.
Proof. right; reflexivity. Qed.
Lemma sle_out : forall b, sle SOut b.
Proof. left; reflexivity. Qed.
Lemma sle_eq : forall a b, sle a b -> a <> SOut -> b = a.
Proof. intros a b [H | H] N; [ contradiction | assumption ]. Qed.
Lemma sle_trans : forall a b c, sle a b -> sle b c -> sle a c.
Proof.
  intros a b c [H | H] [H' | H']; subst; try (left; reflexivity); right; reflexivity.
Qed.

Lemma sle_run_m : forall A (m : M A) p s k1 k2,
  (forall a s', sle (k1 a s') (k2 a s')) -> sle (run_m m p s k1) (run_m m p s k2).
Proof. intros A m p s k1 k2 H. unfold run_m. destruct (m s); auto using sle_refl. Qed.

Lemma sle_on_res : forall a b kd kb kd' kb',
  sle a b -> (forall s, sle (kd s) (kd' s)) -> (forall s, sle (kb s) (kb' s)) ->
  sle (on_res a kd kb) (on_res b kd' kb').
Proof.
  intros a b kd kb kd' kb' [H | H] Hd Hb.
  - subst. left. reflexivity.
  - subst. destruct a; cbn [on_res]; auto using sle_refl.
Qed.

Lemma sle_if : forall (c : bool) a1 a2 b1 b2, sle a1 b1 -> sle a2 b2 ->
  sle (if c then a1 else a2) (if c then b1 else b2).
Proof. intros [] *; auto. Qed.
