(* ArithProofs.v: the arithmetic, comparison, bitwise, conversion and sign-test words of
   arith.rs run on an arbitrary state whose data stack starts with the operands (C09).
   Every statement gives the exact result: the value returned and the state left behind
   (data stack and the entries added to the reverse log; nothing else changes). *)
From Xeh Require Import Model.Prelude Model.Bits Model.Codec Model.Cell Model.Lexer Model.Fmt
                        Model.Vm Model.BaseN Model.Words.
From Xeh Require Import Proofs.WordRun Proofs.ArithNum.
From Coq Require Import ZifyBool ZifyNat.
Local Ltac Zify.zify_post_hook ::= Z.div_mod_to_equations.
Local Notation length := List.length.
Local Open Scope Z_scope.

#[local] Arguments Z.add : simpl never.
#[local] Arguments Z.sub : simpl never.
#[local] Arguments Z.mul : simpl never.
#[local] Arguments Z.pow : simpl never.
#[local] Arguments Z.modulo : simpl never.
#[local] Arguments Z.div : simpl never.
#[local] Arguments Z.ltb : simpl never.
#[local] Arguments Z.leb : simpl never.
#[local] Arguments Z.eqb : simpl never.
#[local] Arguments Z.of_nat : simpl never.

(* ---------- the shape of the statements ---------- *)
(* the operands are the two / one topmost cells, above the mark of the current context *)
Definition args2 (s : state) (a b : cell) (rest : list cell) : Prop :=
  ds s = b :: a :: rest /\ (ds_len (cx s) <= length rest)%nat.
Definition args1 (s : state) (a : cell) (rest : list cell) : Prop :=
  ds s = a :: rest /\ (ds_len (cx s) <= length rest)%nat.
(* the final push does not hit the stack limit *)
Definition room (s : state) (rest : list cell) : Prop :=
  limit_reached (stack_limit s) (length rest) = false.

(* success: the operands are replaced by [r]; failure: the operands are gone *)
Definition ok2 (s : state) (a b : cell) (rest : list cell) (r : cell) : res unit :=
  ROk tt (set_ds (with_log [RPopData; RPushData a; RPushData b] s) (r :: rest)).
Definition err2 (s : state) (a b : cell) (rest : list cell) (k : ekind) (p : option cell) : res unit :=
  RErr k p (set_ds (with_log [RPushData a; RPushData b] s) rest).
Definition ok1 (s : state) (a : cell) (rest : list cell) (r : cell) : res unit :=
  ROk tt (set_ds (with_log [RPopData; RPushData a] s) (r :: rest)).
Definition err1 (s : state) (a : cell) (rest : list cell) (k : ekind) (p : option cell) : res unit :=
  RErr k p (set_ds (with_log [RPushData a] s) rest).

Lemma norm_state l1 l2 s v1 v2 :
  set_ds (with_log l1 (set_ds (with_log l2 s) v1)) v2 = set_ds (with_log (l1 ++ l2)%list s) v2.
Proof.
  destruct_state s. destruct rl0 as [l|];
    cbv [with_log set_ds set_rlog dict heap code dbg sources input ds rs flows loops special cx nested
         meter insn_limit heap_limit stack_limit rlog out last_tok stopping];
    [rewrite app_assoc|]; reflexivity.
Qed.

Lemma inner_fields l s v :
  ds (set_ds (with_log l s) v) = v /\ cx (set_ds (with_log l s) v) = cx s /\
  stack_limit (set_ds (with_log l s) v) = stack_limit s.
Proof. destruct_state s. destruct rl0; state_crush; repeat split. Qed.

(* pop b, look at it, then pop a (the order of [arith_int]) *)
Lemma run_pop_then {A} (k1 : cell -> M A) s b a rest :
  ds s = b :: a :: rest -> (ds_len (cx s) <= length rest)%nat ->
  forall (k2 : cell -> M A),
  (let* x := pop_data in k2 x) (set_ds (with_log [RPushData b] s) (a :: rest))
  = k2 a (set_ds (with_log [RPushData a; RPushData b] s) rest).
Proof.
  intros Hd Hm k2.
  destruct (inner_fields [RPushData b] s (a :: rest)) as (F1 & F2 & _).
  rewrite (run_pop1 k2 _ a rest F1) by (rewrite F2; assumption).
  rewrite norm_state. reflexivity.
Qed.

(* ---------- arith_real on two ints / two reals / mixed ---------- *)
Section Words.
  Variable fo : fops.

  Lemma arith_real_ii oi orl s a b rest x y :
    args2 s a b rest -> value a = CInt x -> value b = CInt y ->
    arith_real oi orl s =
    (let* r := oi x y in push_data (cint r)) (set_ds (with_log [RPushData a; RPushData b] s) rest).
  Proof.
    intros [Hd Hm] Ha Hb. unfold arith_real. rewrite (run_pop2 _ s a b rest Hd Hm).
    rewrite Hb. unfold m_xint. rewrite Ha. reflexivity.
  Qed.

  Lemma arith_real_rr oi orl s a b rest x y :
    args2 s a b rest -> room s rest -> value a = CReal x -> value b = CReal y ->
    arith_real oi orl s = ok2 s a b rest (CReal (orl x y)).
  Proof.
    intros [Hd Hm] Hr Ha Hb. unfold arith_real. rewrite (run_pop2 _ s a b rest Hd Hm).
    rewrite Hb. unfold m_real. rewrite Ha. unfold bind at 1, ret. apply run_push. exact Hr.
  Qed.

  (* mixed int / real operands: a type error that reports the LEFT operand's value *)
  Lemma arith_real_ir oi orl s a b rest x y :
    args2 s a b rest -> value a = CInt x -> value b = CReal y ->
    arith_real oi orl s = err2 s a b rest EType (Some (value a)).
  Proof.
    intros [Hd Hm] Ha Hb. unfold arith_real. rewrite (run_pop2 _ s a b rest Hd Hm).
    rewrite Hb. unfold m_real. rewrite Ha. reflexivity.
  Qed.
  Lemma arith_real_ri oi orl s a b rest x y :
    args2 s a b rest -> value a = CReal x -> value b = CInt y ->
    arith_real oi orl s = err2 s a b rest EType (Some (value a)).
  Proof.
    intros [Hd Hm] Ha Hb. unfold arith_real. rewrite (run_pop2 _ s a b rest Hd Hm).
    rewrite Hb. unfold m_xint. rewrite Ha. reflexivity.
  Qed.

  Lemma arith_real_wrapping f orl s a b rest x y :
    args2 s a b rest -> room s rest -> value a = CInt x -> value b = CInt y ->
    arith_real (wrapping f) orl s = ok2 s a b rest (CInt (wrap128 (f x y))).
  Proof.
    intros HA Hr Ha Hb. rewrite (arith_real_ii _ _ s a b rest x y HA Ha Hb).
    unfold wrapping, bind, ret. apply run_push. exact Hr.
  Qed.

  (* + - * on ints: the exact result, wrapped into the i128 range *)
  Theorem add_int s a b rest x y :
    args2 s a b rest -> room s rest -> value a = CInt x -> value b = CInt y ->
    w_add fo s = ok2 s a b rest (CInt (wrap128 (x + y))).
  Proof. apply arith_real_wrapping. Qed.
  Theorem sub_int s a b rest x y :
    args2 s a b rest -> room s rest -> value a = CInt x -> value b = CInt y ->
    w_sub fo s = ok2 s a b rest (CInt (wrap128 (x - y))).
  Proof. apply arith_real_wrapping. Qed.
  Theorem mul_int s a b rest x y :
    args2 s a b rest -> room s rest -> value a = CInt x -> value b = CInt y ->
    w_mul fo s = ok2 s a b rest (CInt (wrap128 (x * y))).
  Proof. apply arith_real_wrapping. Qed.

  (* / on ints: truncating quotient, overflow (only i128_min / -1), division by zero *)
  Theorem div_int s a b rest x y :
    args2 s a b rest -> room s rest -> value a = CInt x -> value b = CInt y ->
    w_div fo s =
    if y =? 0 then err2 s a b rest EDivZero None
    else if in_i128 (Z.quot x y) then ok2 s a b rest (CInt (Z.quot x y))
         else err2 s a b rest EOverflow None.
  Proof.
    intros [Hd Hm] Hr Ha Hb. unfold w_div. rewrite (run_pop2 _ s a b rest Hd Hm).
    rewrite Hb. unfold m_xint. rewrite Ha. unfold bind at 1, ret.
    destruct (y =? 0); [reflexivity|]. destruct (in_i128 (Z.quot x y)); [|reflexivity].
    apply run_push. exact Hr.
  Qed.

  (* rem on ints: the remainder of truncating division (sign of the dividend) *)
  Theorem rem_int s a b rest x y :
    args2 s a b rest -> room s rest -> value a = CInt x -> value b = CInt y -> in_i128 x = true ->
    w_rem fo s =
    if y =? 0 then err2 s a b rest EDivZero None else ok2 s a b rest (CInt (Z.rem x y)).
  Proof.
    intros HA Hr Ha Hb Hx. unfold w_rem. rewrite (arith_real_ii _ _ s a b rest x y HA Ha Hb).
    unfold bind. destruct (Z.eqb_spec y 0) as [->|Hy]; [reflexivity|]. unfold ret.
    rewrite wrap128_id by (apply rem_in; assumption). apply run_push. exact Hr.
  Qed.

  Theorem min_int s a b rest x y :
    args2 s a b rest -> room s rest -> value a = CInt x -> value b = CInt y ->
    w_min fo s = ok2 s a b rest (CInt (Z.min x y)).
  Proof.
    intros HA Hr Ha Hb. unfold w_min. rewrite (arith_real_ii _ _ s a b rest x y HA Ha Hb).
    unfold bind, ret. apply run_push. exact Hr.
  Qed.
  Theorem max_int s a b rest x y :
    args2 s a b rest -> room s rest -> value a = CInt x -> value b = CInt y ->
    w_max fo s = ok2 s a b rest (CInt (Z.max x y)).
  Proof.
    intros HA Hr Ha Hb. unfold w_max. rewrite (arith_real_ii _ _ s a b rest x y HA Ha Hb).
    unfold bind, ret. apply run_push. exact Hr.
  Qed.

  (* on two reals the words are exactly the operations of [fo] *)
  Theorem add_real s a b rest x y :
    args2 s a b rest -> room s rest -> value a = CReal x -> value b = CReal y ->
    w_add fo s = ok2 s a b rest (CReal (f_add fo x y)).
  Proof. apply arith_real_rr. Qed.
  Theorem sub_real s a b rest x y :
    args2 s a b rest -> room s rest -> value a = CReal x -> value b = CReal y ->
    w_sub fo s = ok2 s a b rest (CReal (f_sub fo x y)).
  Proof. apply arith_real_rr. Qed.
  Theorem mul_real s a b rest x y :
    args2 s a b rest -> room s rest -> value a = CReal x -> value b = CReal y ->
    w_mul fo s = ok2 s a b rest (CReal (f_mul fo x y)).
  Proof. apply arith_real_rr. Qed.
  Theorem rem_real s a b rest x y :
    args2 s a b rest -> room s rest -> value a = CReal x -> value b = CReal y ->
    w_rem fo s = ok2 s a b rest (CReal (f_rem fo x y)).
  Proof. apply arith_real_rr. Qed.
  Theorem min_real s a b rest x y :
    args2 s a b rest -> room s rest -> value a = CReal x -> value b = CReal y ->
    w_min fo s = ok2 s a b rest (CReal (f_min fo x y)).
  Proof. apply arith_real_rr. Qed.
  Theorem max_real s a b rest x y :
    args2 s a b rest -> room s rest -> value a = CReal x -> value b = CReal y ->
    w_max fo s = ok2 s a b rest (CReal (f_max fo x y)).
  Proof. apply arith_real_rr. Qed.
  Theorem div_real s a b rest x y :
    args2 s a b rest -> room s rest -> value a = CReal x -> value b = CReal y ->
    w_div fo s = if f64_is_zero y then err2 s a b rest EDivZero None
                 else ok2 s a b rest (CReal (f_div fo x y)).
  Proof.
    intros [Hd Hm] Hr Ha Hb. unfold w_div. rewrite (run_pop2 _ s a b rest Hd Hm).
    rewrite Hb. unfold m_real. rewrite Ha. unfold bind at 1, ret.
    destruct (f64_is_zero y); [reflexivity|]. apply run_push. exact Hr.
  Qed.

  (* mixed operands of the binary arithmetic words *)
  Definition mixed (a b : cell) : Prop :=
    (exists x y, value a = CInt x /\ value b = CReal y) \/ (exists x y, value a = CReal x /\ value b = CInt y).

  Lemma arith_real_mixed oi orl s a b rest :
    args2 s a b rest -> mixed a b -> arith_real oi orl s = err2 s a b rest EType (Some (value a)).
  Proof.
    intros HA [(x & y & Ha & Hb)|(x & y & Ha & Hb)];
      [eapply arith_real_ir|eapply arith_real_ri]; eassumption.
  Qed.

  Lemma div_mixed s a b rest :
    args2 s a b rest -> mixed a b -> w_div fo s = err2 s a b rest EType (Some (value a)).
  Proof.
    intros [Hd Hm] [(x & y & Ha & Hb)|(x & y & Ha & Hb)];
      unfold w_div; rewrite (run_pop2 _ s a b rest Hd Hm); rewrite Hb;
      unfold m_real, m_xint; rewrite Ha; reflexivity.
  Qed.

  Lemma cmp_mixed f s a b rest :
    args2 s a b rest -> mixed a b -> w_cmp f s = err2 s a b rest EType (Some (value a)).
  Proof.
    intros [Hd Hm] [(x & y & Ha & Hb)|(x & y & Ha & Hb)];
      unfold w_cmp; unfold bind at 1; unfold compare_cells; rewrite (run_pop2 _ s a b rest Hd Hm); rewrite Hb;
      unfold m_real, m_xint; rewrite Ha; reflexivity.
  Qed.

  Theorem mixed_type_error s a b rest :
    args2 s a b rest -> mixed a b ->
    let e := err2 s a b rest EType (Some (value a)) in
    w_add fo s = e /\ w_sub fo s = e /\ w_mul fo s = e /\ w_div fo s = e /\ w_rem fo s = e /\
    w_min fo s = e /\ w_max fo s = e /\ (forall f, w_cmp f s = e).
  Proof.
    intros HA HM e. repeat split; try (apply arith_real_mixed; assumption).
    - apply div_mixed; assumption.
    - intro f. apply cmp_mixed; assumption.
  Qed.

  (* ---------- comparisons ---------- *)
  Theorem cmp_int f s a b rest x y :
    args2 s a b rest -> room s rest -> value a = CInt x -> value b = CInt y ->
    w_cmp f s = ok2 s a b rest (CFlag (f (x ?= y))).
  Proof.
    intros [Hd Hm] Hr Ha Hb. unfold w_cmp. unfold bind at 1. unfold compare_cells.
    rewrite (run_pop2 _ s a b rest Hd Hm). rewrite Hb. unfold m_xint. rewrite Ha.
    unfold bind, ret. apply run_push. exact Hr.
  Qed.

  Theorem cmp_real f s a b rest x y :
    args2 s a b rest -> room s rest -> value a = CReal x -> value b = CReal y ->
    f64_is_nan x = false -> f64_is_nan y = false ->
    w_cmp f s = ok2 s a b rest (CFlag (f (f64_key x ?= f64_key y))).
  Proof.
    intros [Hd Hm] Hr Ha Hb Nx Ny. unfold w_cmp. unfold bind at 1. unfold compare_cells.
    rewrite (run_pop2 _ s a b rest Hd Hm). rewrite Hb. unfold m_real. rewrite Ha.
    unfold bind, ret. unfold f64_pcmp. rewrite Nx, Ny. cbn [orb]. apply run_push. exact Hr.
  Qed.

  (* ---------- bitwise words and shifts: arith_int ---------- *)
  Lemma arith_int_run f s a b rest x y :
    args2 s a b rest -> room s rest -> value a = CInt x -> value b = CInt y ->
    arith_int f s = ok2 s a b rest (CInt (f x y)).
  Proof.
    intros [Hd Hm] Hr Ha Hb. unfold arith_int.
    rewrite (run_pop1 _ s b (a :: rest) Hd) by (cbn [List.length]; lia).
    unfold m_xint at 1. rewrite Hb. unfold bind at 1, ret.
    rewrite (run_pop_then (fun _ => ret tt) s b a rest Hd Hm).
    unfold m_xint. rewrite Ha. unfold bind, ret. apply run_push. exact Hr.
  Qed.

  (* the right operand is looked at first; the left one is still on the stack then *)
  Lemma arith_int_bad_right f s a b rest :
    args2 s a b rest -> (forall y, value b <> CInt y) ->
    arith_int f s = RErr EType (Some (value b)) (set_ds (with_log [RPushData b] s) (a :: rest)).
  Proof.
    intros [Hd Hm] Hb. unfold arith_int.
    rewrite (run_pop1 _ s b (a :: rest) Hd) by (cbn [List.length]; lia).
    unfold m_xint at 1, bind. destruct (value b) eqn:E; try reflexivity. exfalso. eapply Hb. reflexivity.
  Qed.
  Lemma arith_int_bad_left f s a b rest y :
    args2 s a b rest -> value b = CInt y -> (forall x, value a <> CInt x) ->
    arith_int f s = err2 s a b rest EType (Some (value a)).
  Proof.
    intros [Hd Hm] Hb Ha. unfold arith_int.
    rewrite (run_pop1 _ s b (a :: rest) Hd) by (cbn [List.length]; lia).
    unfold m_xint at 1. rewrite Hb. unfold bind at 1, ret.
    rewrite (run_pop_then (fun _ => ret tt) s b a rest Hd Hm).
    unfold m_xint, bind. destruct (value a) eqn:E; try reflexivity. exfalso. eapply Ha. reflexivity.
  Qed.

  Theorem bsl_int s a b rest x n :
    args2 s a b rest -> room s rest -> value a = CInt x -> value b = CInt n -> 0 <= n < 128 ->
    arith_int shl128 s = ok2 s a b rest (CInt (wrap128 (x * 2 ^ n))).
  Proof.
    intros HA Hr Ha Hb Hn. rewrite (arith_int_run shl128 s a b rest x n HA Hr Ha Hb).
    rewrite shl128_spec by assumption. reflexivity.
  Qed.
  Theorem bsr_int s a b rest x n :
    args2 s a b rest -> room s rest -> value a = CInt x -> value b = CInt n -> 0 <= n < 128 ->
    arith_int shr128 s = ok2 s a b rest (CInt (x / 2 ^ n)).
  Proof.
    intros HA Hr Ha Hb Hn. rewrite (arith_int_run shr128 s a b rest x n HA Hr Ha Hb).
    rewrite shr128_spec by assumption. reflexivity.
  Qed.

  (* ---------- unary words ---------- *)
  Theorem neg_int s a rest x :
    args1 s a rest -> room s rest -> value a = CInt x ->
    w_neg s = if in_i128 (- x) then ok1 s a rest (CInt (- x)) else err1 s a rest EOverflow None.
  Proof.
    intros [Hd Hm] Hr Ha. unfold w_neg. rewrite (run_pop1 _ s a rest Hd Hm). rewrite Ha.
    destruct (in_i128 (- x)); [|reflexivity]. apply run_push. exact Hr.
  Qed.
  Theorem abs_int s a rest x :
    args1 s a rest -> room s rest -> value a = CInt x ->
    w_abs s = if in_i128 (Z.abs x) then ok1 s a rest (CInt (Z.abs x)) else err1 s a rest EOverflow None.
  Proof.
    intros [Hd Hm] Hr Ha. unfold w_abs. rewrite (run_pop1 _ s a rest Hd Hm). rewrite Ha.
    destruct (in_i128 (Z.abs x)); [|reflexivity]. apply run_push. exact Hr.
  Qed.
  Theorem neg_real s a rest r :
    args1 s a rest -> room s rest -> value a = CReal r ->
    w_neg s = ok1 s a rest (CReal (Z.lxor r (2 ^ 63))).
  Proof.
    intros [Hd Hm] Hr Ha. unfold w_neg. rewrite (run_pop1 _ s a rest Hd Hm). rewrite Ha.
    apply run_push. exact Hr.
  Qed.
  Theorem abs_real s a rest r :
    args1 s a rest -> room s rest -> value a = CReal r ->
    w_abs s = ok1 s a rest (CReal (r mod 2 ^ 63)).
  Proof.
    intros [Hd Hm] Hr Ha. unfold w_abs. rewrite (run_pop1 _ s a rest Hd Hm). rewrite Ha.
    apply run_push. exact Hr.
  Qed.

  Theorem bnot_int s a rest x :
    args1 s a rest -> room s rest -> value a = CInt x ->
    w_bnot s = ok1 s a rest (CInt (Z.lnot x)).
  Proof.
    intros [Hd Hm] Hr Ha. unfold w_bnot. rewrite (run_pop1 _ s a rest Hd Hm).
    unfold m_xint. rewrite Ha. unfold bind, ret. apply run_push. exact Hr.
  Qed.
  Theorem popcnt_int s a rest x :
    args1 s a rest -> room s rest -> value a = CInt x ->
    w_popcnt s = ok1 s a rest (CInt (popcount x)).
  Proof.
    intros [Hd Hm] Hr Ha. unfold w_popcnt. rewrite (run_pop1 _ s a rest Hd Hm).
    unfold m_xint. rewrite Ha. unfold bind, ret. apply run_push. exact Hr.
  Qed.

  Theorem sign_test_int fi fr s a rest x :
    args1 s a rest -> room s rest -> value a = CInt x ->
    w_sign_test fi fr s = ok1 s a rest (CFlag (fi x)).
  Proof.
    intros [Hd Hm] Hr Ha. unfold w_sign_test. rewrite (run_pop1 _ s a rest Hd Hm). rewrite Ha.
    apply run_push. exact Hr.
  Qed.
  Theorem sign_test_real fi fr s a rest r :
    args1 s a rest -> room s rest -> value a = CReal r ->
    w_sign_test fi fr s = ok1 s a rest (CFlag (fr r)).
  Proof.
    intros [Hd Hm] Hr Ha. unfold w_sign_test. rewrite (run_pop1 _ s a rest Hd Hm). rewrite Ha.
    apply run_push. exact Hr.
  Qed.

  (* ---------- conversions ---------- *)
  Theorem into_real_int s a rest x :
    args1 s a rest -> room s rest -> value a = CInt x ->
    w_into_real fo s = ok1 s a rest (CReal (f_of_int fo x)).
  Proof.
    intros [Hd Hm] Hr Ha. unfold w_into_real. unfold bind at 1. rewrite (top_data_run s a rest Hd Hm).
    rewrite Ha. rewrite (run_pop1 _ s a rest Hd Hm). unfold m_xint. rewrite Ha.
    unfold bind, ret. apply run_push. exact Hr.
  Qed.
  Theorem into_real_real s a rest r :
    args1 s a rest -> value a = CReal r -> w_into_real fo s = ROk tt s.
  Proof.
    intros [Hd Hm] Ha. unfold w_into_real. unfold bind at 1. rewrite (top_data_run s a rest Hd Hm).
    rewrite Ha. reflexivity.
  Qed.
  Theorem into_int_real s a rest r :
    args1 s a rest -> room s rest -> value a = CReal r ->
    w_into_int fo s = ok1 s a rest (CInt (f_to_int fo r)).
  Proof.
    intros [Hd Hm] Hr Ha. unfold w_into_int. unfold bind at 1. rewrite (top_data_run s a rest Hd Hm).
    rewrite Ha. rewrite (run_pop1 _ s a rest Hd Hm). unfold m_real. rewrite Ha.
    unfold bind, ret. apply run_push. exact Hr.
  Qed.
  Theorem into_int_int s a rest x :
    args1 s a rest -> value a = CInt x -> w_into_int fo s = ROk tt s.
  Proof.
    intros [Hd Hm] Ha. unfold w_into_int. unfold bind at 1. rewrite (top_data_run s a rest Hd Hm).
    rewrite Ha. reflexivity.
  Qed.
  Theorem round_real s a rest r :
    args1 s a rest -> room s rest -> value a = CReal r ->
    w_round fo s = ok1 s a rest (CReal (f_round fo r)).
  Proof.
    intros [Hd Hm] Hr Ha. unfold w_round. rewrite (run_pop1 _ s a rest Hd Hm).
    unfold m_real. rewrite Ha. unfold bind, ret. apply run_push. exact Hr.
  Qed.
End Words.

(* ---------- combined statements used by Props/C09.v ---------- *)
Theorem bitwise_int s a b rest x y :
  args2 s a b rest -> room s rest -> value a = CInt x -> value b = CInt y ->
  arith_int Z.land s = ok2 s a b rest (CInt (Z.land x y)) /\
  arith_int Z.lor s = ok2 s a b rest (CInt (Z.lor x y)) /\
  arith_int Z.lxor s = ok2 s a b rest (CInt (Z.lxor x y)).
Proof. intros. repeat split; apply arith_int_run; assumption. Qed.

Theorem sign_tests_int s a rest x :
  args1 s a rest -> room s rest -> value a = CInt x ->
  w_sign_test (Z.eqb 0) f64_is_zero s = ok1 s a rest (CFlag (0 =? x)) /\
  w_sign_test (Z.ltb 0) f64_pos s = ok1 s a rest (CFlag (0 <? x)) /\
  w_sign_test (fun x => Z.ltb x 0) f64_negv s = ok1 s a rest (CFlag (x <? 0)).
Proof.
  intros. split; [|split].
  - apply (sign_test_int (Z.eqb 0) f64_is_zero); assumption.
  - apply (sign_test_int (Z.ltb 0) f64_pos); assumption.
  - apply (sign_test_int (fun x => Z.ltb x 0) f64_negv); assumption.
Qed.

Theorem sign_tests_real s a rest r :
  args1 s a rest -> room s rest -> value a = CReal r ->
  w_sign_test (Z.eqb 0) f64_is_zero s = ok1 s a rest (CFlag (f64_is_zero r)) /\
  w_sign_test (Z.ltb 0) f64_pos s = ok1 s a rest (CFlag (negb (f64_is_nan r) && (0 <? f64_key r))) /\
  w_sign_test (fun x => Z.ltb x 0) f64_negv s = ok1 s a rest (CFlag (negb (f64_is_nan r) && (f64_key r <? 0))).
Proof.
  intros. split; [|split].
  - apply (sign_test_real (Z.eqb 0) f64_is_zero); assumption.
  - apply (sign_test_real (Z.ltb 0) f64_pos); assumption.
  - apply (sign_test_real (fun x => Z.ltb x 0) f64_negv); assumption.
Qed.

(* the bitwise words fail on a non-int operand with that operand's value *)
Theorem arith_int_type_error f s a b rest :
  args2 s a b rest ->
  ((forall y, value b <> CInt y) ->
   arith_int f s = RErr EType (Some (value b)) (set_ds (with_log [RPushData b] s) (a :: rest))) /\
  (forall y, value b = CInt y -> (forall x, value a <> CInt x) ->
   arith_int f s = err2 s a b rest EType (Some (value a))).
Proof.
  intros HA. split.
  - apply arith_int_bad_right. assumption.
  - intros y Hb Ha. eapply arith_int_bad_left; eassumption.
Qed.

(* every integer result is representable when the operands are *)
Theorem results_in_range x y n :
  in_i128 x = true -> in_i128 y = true -> 0 <= n < 128 ->
  in_i128 (wrap128 (x + y)) = true /\ in_i128 (wrap128 (x - y)) = true /\ in_i128 (wrap128 (x * y)) = true /\
  (y <> 0 -> in_i128 (Z.rem x y) = true) /\
  in_i128 (Z.min x y) = true /\ in_i128 (Z.max x y) = true /\
  in_i128 (Z.land x y) = true /\ in_i128 (Z.lor x y) = true /\ in_i128 (Z.lxor x y) = true /\
  in_i128 (Z.lnot x) = true /\ in_i128 (wrap128 (x * 2 ^ n)) = true /\ in_i128 (x / 2 ^ n) = true /\
  in_i128 (popcount x) = true.
Proof.
  intros Hx Hy Hn. repeat split; try apply wrap128_in.
  - intros Hy0. apply rem_in; assumption.
  - apply min_in; assumption.
  - apply max_in; assumption.
  - apply land_in; assumption.
  - apply lor_in; assumption.
  - apply lxor_in; assumption.
  - apply lnot_in; assumption.
  - apply shr_in; [assumption|lia].
  - apply popcount_in.
Qed.

(* the bitwise operations act on the 128-bit two's complement representations *)
Theorem bitwise_u128 x y :
  to_u128 (Z.land x y) = Z.land (to_u128 x) (to_u128 y) /\
  to_u128 (Z.lor x y) = Z.lor (to_u128 x) (to_u128 y) /\
  to_u128 (Z.lxor x y) = Z.lxor (to_u128 x) (to_u128 y) /\
  to_u128 (Z.lnot x) = two128 - 1 - to_u128 x.
Proof. repeat split; [apply land_u128|apply lor_u128|apply lxor_u128|apply lnot_u128]. Qed.

Theorem wrap128_facts z :
  (in_i128 z = true -> wrap128 z = z) /\ in_i128 (wrap128 z) = true /\
  to_u128 (wrap128 z) = to_u128 z /\ wrap128 z = z - two128 * ((z + two127) / two128).
Proof. repeat split; [apply wrap128_id|apply wrap128_in|apply wrap128_u128|apply wrap128_closed]. Qed.

Theorem overflow_cases x y :
  in_i128 x = true -> in_i128 y = true ->
  (y <> 0 -> (in_i128 (Z.quot x y) = false <-> x = i128_min /\ y = -1)) /\
  (in_i128 (- x) = false <-> x = i128_min) /\ (in_i128 (Z.abs x) = false <-> x = i128_min).
Proof.
  intros Hx Hy. split; [|split].
  - intros Hy0. apply quot_overflow; assumption.
  - apply neg_overflow; assumption.
  - apply abs_overflow; assumption.
Qed.

Theorem f64_sign_ops r : f64_pat r ->
  (f64_pat (Z.lxor r (2 ^ 63)) /\ f64_neg (Z.lxor r (2 ^ 63)) = negb (f64_neg r) /\
   (Z.lxor r (2 ^ 63)) mod 2 ^ 63 = r mod 2 ^ 63 /\ f64_key (Z.lxor r (2 ^ 63)) = - f64_key r) /\
  (f64_pat (r mod 2 ^ 63) /\ f64_neg (r mod 2 ^ 63) = false /\
   (r mod 2 ^ 63) mod 2 ^ 63 = r mod 2 ^ 63 /\ f64_key (r mod 2 ^ 63) = Z.abs (f64_key r)).
Proof.
  intros H. destruct (f64_neg_flip r H) as (A & B & C). destruct (f64_abs_clear r H) as (D & E & F).
  split.
  - split; [exact A|]. split; [exact B|]. split; [exact C|]. apply f64_key_neg. assumption.
  - split; [exact D|]. split; [exact E|]. split; [exact F|]. apply f64_key_abs. assumption.
Qed.

(* rem without any assumption on the operands: the wrapped remainder *)
Theorem rem_int_wrapped fo s a b rest x y :
  args2 s a b rest -> room s rest -> value a = CInt x -> value b = CInt y ->
  w_rem fo s =
  if y =? 0 then err2 s a b rest EDivZero None else ok2 s a b rest (CInt (wrap128 (Z.rem x y))).
Proof.
  intros HA Hr Ha Hb. unfold w_rem. rewrite (arith_real_ii _ _ s a b rest x y HA Ha Hb).
  unfold bind. destruct (y =? 0); [reflexivity|]. unfold ret. apply run_push. exact Hr.
Qed.

Theorem rem_wrap_id x y : in_i128 x = true -> y <> 0 -> wrap128 (Z.rem x y) = Z.rem x y.
Proof. intros Hx Hy. apply wrap128_id. apply rem_in; assumption. Qed.
