(* PackTable.v: the construction words by name, and the check that these are the programs
   the interpreter's word table [native_fn] runs. *)
From Xeh Require Import Model.Prelude Model.Bits Model.Codec Model.Cell Model.Lexer Model.Fmt
                        Model.Vm Model.Words.
Local Open Scope string_scope.
Local Open Scope Z_scope.

Definition pack_table (fo : fops) : list (string * M unit) := [
  ("int!", with_size (fun n => with_order (pack_int n)));
  ("uint!", with_size (fun n => with_order (pack_int n)));
  ("float!", with_size (fun n => with_order (pack_float fo n)));
  ("big", w_set_order true);
  ("little", w_set_order false);
  ("%vec-begin", w_vec_begin);
  ("%vec-end", w_vec_end);
  ("open-bitstr", w_open_bitstr);
  ("remain", w_remain);
  ("bits", with_size read_bits);
  ("int", with_size (fun n => with_order (read_signed n)));
  ("uint", with_size (fun n => with_order (read_unsigned n)));
  ("float", with_size (fun n => with_order (read_float fo n)));
  (">bitstr", w_into_bitstr);
  ("emit", w_emit);
  ("u8!", with_order (pack_int 8));
  ("u8le!", pack_int 8 Little);
  ("u8be!", pack_int 8 Big);
  ("i8!", with_order (pack_int 8));
  ("i8le!", pack_int 8 Little);
  ("i8be!", pack_int 8 Big);
  ("u16!", with_order (pack_int 16));
  ("u16le!", pack_int 16 Little);
  ("u16be!", pack_int 16 Big);
  ("i16!", with_order (pack_int 16));
  ("i16le!", pack_int 16 Little);
  ("i16be!", pack_int 16 Big);
  ("u32!", with_order (pack_int 32));
  ("u32le!", pack_int 32 Little);
  ("u32be!", pack_int 32 Big);
  ("i32!", with_order (pack_int 32));
  ("i32le!", pack_int 32 Little);
  ("i32be!", pack_int 32 Big);
  ("u64!", with_order (pack_int 64));
  ("u64le!", pack_int 64 Little);
  ("u64be!", pack_int 64 Big);
  ("i64!", with_order (pack_int 64));
  ("i64le!", pack_int 64 Little);
  ("i64be!", pack_int 64 Big);
  ("f32!", with_order (pack_float fo 32));
  ("f32le!", pack_float fo 32 Little);
  ("f32be!", pack_float fo 32 Big);
  ("f64!", with_order (pack_float fo 64));
  ("f64le!", pack_float fo 64 Little);
  ("f64be!", pack_float fo 64 Big)
].

Lemma pack_table_native : forall fo,
  Forall (fun nw => native_fn fo (fst nw) = Some (snd nw)) (pack_table fo).
Proof.
  intro fo. unfold pack_table.
  repeat (apply Forall_cons; [ reflexivity | ]). apply Forall_nil.
Qed.
