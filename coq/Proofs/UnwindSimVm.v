(* UnwindSimVm.v (C15): executing code does not read the nested contexts nor the marks
   cs_len / fs_len / di_len of the current context, and leaves them alone: running from a
   state in which they are replaced gives the same result with the same replacement. *)
From Xeh Require Import Model.Prelude Model.Bits Model.Codec Model.Cell Model.Lexer Model.Fmt
                        Model.Vm Model.Words Model.Build.
From Xeh Require Import Proofs.VmFrame Proofs.VmLimits Proofs.UnwindIrr.
Local Notation length := List.length.

#[local] Arguments Z.add : simpl never.
#[local] Arguments Z.sub : simpl never.
#[local] Arguments Z.mul : simpl never.
#[local] Arguments Z.ltb : simpl never.
#[local] Arguments Z.leb : simpl never.
#[local] Arguments Z.eqb : simpl never.
#[local] Arguments Z.of_nat : simpl never.
#[local] Arguments Z.to_nat : simpl never.

Definition chg (t : state) (cs fs di : nat) (n' : list ctx) : state :=
  set_nested (set_cx t (mkctx (ds_len (cx t)) cs (rs_len (cx t)) fs (ls_len (cx t)) (ss_ptr (cx t)) di
                              (cip (cx t)) (cmode (cx t)))) n'.

Definition P_chg {A} (m : M A) : Prop :=
  forall s cs fs di n', m (chg s cs fs di n') = res_map (fun r => chg r cs fs di n') (m s).

Ltac chg_prim :=
  let s := fresh "s" in
  intro s; intros; destruct_state s;
  match goal with c : ctx |- _ => destruct c end;
  cbv [push_data pop_data top_data swap_data rot_data over_data push_return pop_return top_frame
       push_loop pop_loop loop_next loop_set_items push_special pop_special get_var set_var
       init_local set_ip next_ip print modify ret fail unsup panic
       add_rstep limit_reached data_depth ip set_ip_raw chg res_map
       set_ds set_rs set_loops set_special set_heap set_cx set_nested set_rlog set_out set_stopping
       dict heap code dbg sources input ds rs flows loops special cx nested meter insn_limit
       heap_limit stack_limit rlog out last_tok stopping
       ds_len cs_len rs_len fs_len ls_len ss_ptr di_len cip cmode];
  break_matches; reflexivity.

Lemma wx_chg : forall A (m : M A), wx m -> P_chg m.
Proof.
  induction 1; try (chg_prim; fail).
  - (* bind *)
    intros s cs fs di n'. unfold bind. rewrite (IHwx s cs fs di n').
    destruct (m s) as [a s1 | k p s1 | |]; cbn [res_map]; try reflexivity.
    apply H1.
  - (* get *)
    intros s cs fs di n'. unfold bind, get.
    change (chg s cs fs di n') with
      (irr s (dbg s) (sources s) (input s) n' (meter s) (rlog s) (out s) (last_tok s) (stopping s) cs fs di) at 1.
    rewrite H1. apply H0.
Qed.

Lemma meter_increase_chg : P_chg meter_increase.
Proof.
  intros s cs fs di n'. destruct_state s.
  cbv [meter_increase chg res_map set_cx set_nested set_meter insn_limit meter
       dict heap code dbg sources input ds rs flows loops special cx nested
       heap_limit stack_limit rlog out last_tok stopping].
  break_matches; reflexivity.
Qed.

Section WithTable.
  Variable nf : natives.
  Hypothesis Hnf : forall w f, nf w = Some f -> wx f.

  Lemma exec_op_chg : forall ip0 op, P_chg (exec_op nf ip0 op).
  Proof. intros. apply wx_chg. apply wx_exec_op. exact Hnf. Qed.

  Lemma far_chg : P_chg (fetch_and_run nf).
  Proof.
    intros s cs fs di n'. unfold fetch_and_run.
    rewrite (meter_increase_chg s).
    change (ip (chg s cs fs di n')) with (ip s).
    destruct (meter_increase s) as [u s1 | k p s1 | |]; cbn [res_map]; try reflexivity.
    change (code (chg s1 cs fs di n')) with (code s1).
    destruct (nth_error (code s1) (ip s)) as [op|]; [ | reflexivity ].
    destruct op; try apply exec_op_chg.
    change (dict_entry (chg s1 cs fs di n') name) with (dict_entry s1 name).
    destruct (dict_entry s1 name) as [e|]; [ | reflexivity ].
    change (set_code (chg s1 cs fs di n') (list_set (code s1) (ip s) (resolve_op e)))
      with (chg (set_code s1 (list_set (code s1) (ip s) (resolve_op e))) cs fs di n').
    rewrite (meter_increase_chg (set_code s1 (list_set (code s1) (ip s) (resolve_op e)))).
    destruct (meter_increase (set_code s1 (list_set (code s1) (ip s) (resolve_op e))))
      as [u3 s3 | k3 p3 s3 | |]; cbn [res_map]; try reflexivity.
    apply exec_op_chg.
  Qed.

  Lemma run_chg : forall fuel s cs fs di n',
    run nf fuel (chg s cs fs di n') = option_map (res_map (fun r => chg r cs fs di n')) (run nf fuel s).
  Proof.
    induction fuel as [|f IH]; intros s cs fs di n'; cbn [run option_map]; [ reflexivity | ].
    change (is_running (chg s cs fs di n')) with (is_running s).
    destruct (is_running s); [ | reflexivity ].
    rewrite (far_chg s).
    destruct (fetch_and_run nf s) as [u s1 | k p s1 | |]; cbn [res_map option_map]; try reflexivity.
    apply IH.
  Qed.
End WithTable.

Theorem run_chg_native : forall fo fuel s cs fs di n',
  run (native_fn fo) fuel (chg s cs fs di n') =
  option_map (res_map (fun r => chg r cs fs di n')) (run (native_fn fo) fuel s).
Proof. intro fo. apply run_chg. apply native_wx. Qed.

Theorem run_m_chg : forall fo rf s cs fs di n',
  run_m fo rf (chg s cs fs di n') = res_map (fun r => chg r cs fs di n') (run_m fo rf s).
Proof.
  intros. unfold run_m, nf. rewrite run_chg_native.
  destruct (run (native_fn fo) rf s); reflexivity.
Qed.
