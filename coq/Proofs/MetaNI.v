(* MetaNI.v (C11): what is below the data-stack mark cannot be observed.

   [sw h' s] replaces the hidden part of the data stack of s (the last [length h'] cells) by h'.
   [comm h' m]: running m commutes with that replacement - same result value or error, and the
   final states again differ by the replacement only.  It holds for every primitive, hence
   for every native word except `.s` (which prints the whole stack), for every opcode that is
   not a call of `.s`, for [fetch_and_run] and [run] on code without `.s`. *)
From Xeh Require Import Model.Prelude Model.Bits Model.Codec Model.Cell Model.Lexer Model.Fmt
                        Model.Vm Model.Words Model.Build.
From Xeh Require Import Proofs.VmFrame Proofs.VmLimits Proofs.NoPanic Proofs.NoPanicBuild Proofs.NoPanicFlow
                        Proofs.MetaBase.
Local Notation length := List.length.
Local Open Scope list_scope.

#[local] Arguments Z.add : simpl never.
#[local] Arguments Z.sub : simpl never.
#[local] Arguments Z.mul : simpl never.
#[local] Arguments Z.ltb : simpl never.
#[local] Arguments Z.leb : simpl never.
#[local] Arguments Z.eqb : simpl never.
#[local] Arguments Z.of_nat : simpl never.
#[local] Arguments Z.to_nat : simpl never.

Section NI.
  Variable h' : list cell.
  Let n := length h'.

  Definition sw (s : state) : state := set_ds s (firstn (length (ds s) - n) (ds s) ++ h').
  Definition wfd (s : state) : Prop := ds_len (cx s) = n /\ n <= length (ds s).

  Definition comm {A} (m : M A) : Prop :=
    forall s, wfd s -> m (sw s) = res_map sw (m s) /\ res_all wfd (m s).

  (* ---------- the replacement ---------- *)
  Lemma wfd_split s : wfd s -> exists v h, ds s = v ++ h /\ length h = n.
  Proof.
    intros [_ H]. exists (firstn (length (ds s) - n) (ds s)), (lastn n (ds s)).
    split; [apply lastn_split|]. rewrite lastn_length. lia.
  Qed.

  Lemma firstn_vis (v h : list cell) : length h = n -> firstn (length (v ++ h) - n) (v ++ h) = v.
  Proof.
    intros H. rewrite app_length, H. replace (length v + n - n) with (length v) by lia.
    rewrite firstn_app, Nat.sub_diag, firstn_all. cbn [firstn]. apply app_nil_r.
  Qed.

  Lemma set_ds_eta s : set_ds s (ds s) = s.
  Proof. destruct s. reflexivity. Qed.
  Lemma set_ds_set_ds s a b : set_ds (set_ds s a) b = set_ds s b.
  Proof. reflexivity. Qed.
  Lemma add_rstep_set_ds r s a : add_rstep r (set_ds s a) = set_ds (add_rstep r s) a.
  Proof. unfold add_rstep. cbn [set_ds rlog]. destruct (rlog s); reflexivity. Qed.
  Lemma ds_add_rstep r s : ds (add_rstep r s) = ds s.
  Proof. unfold add_rstep. destruct (rlog s); reflexivity. Qed.
  Lemma cx_add_rstep r s : cx (add_rstep r s) = cx s.
  Proof. unfold add_rstep. destruct (rlog s); reflexivity. Qed.

  Lemma sw_set (s : state) (v h : list cell) : length h = n -> sw (set_ds s (v ++ h)) = set_ds s (v ++ h').
  Proof. intros H. unfold sw. cbn [set_ds ds]. rewrite firstn_vis by exact H. reflexivity. Qed.

  Lemma sw_eq s v h : ds s = v ++ h -> length h = n -> sw s = set_ds s (v ++ h').
  Proof. intros E H. rewrite <- (set_ds_eta s) at 1. rewrite E. apply sw_set. exact H. Qed.

  Lemma sw_length s : wfd s -> length (ds (sw s)) = length (ds s).
  Proof.
    intros W. destruct (wfd_split s W) as (v & h & E & H). rewrite (sw_eq s v h E H).
    cbn [set_ds ds]. rewrite E, !app_length. fold n. lia.
  Qed.

  Lemma wfd_sw_add r s v h : length h = n -> ds_len (cx s) = n -> wfd (set_ds (add_rstep r s) (v ++ h)).
  Proof.
    intros H E. split; [cbn [set_ds cx]; rewrite cx_add_rstep; exact E|].
    cbn [set_ds ds]. rewrite app_length. lia.
  Qed.

  (* ---------- the rules ---------- *)
  Lemma comm_ret A (a : A) : comm (ret a).
  Proof. intros s W. split; [reflexivity|exact W]. Qed.
  Lemma comm_fail A k p : comm (@fail A k p).
  Proof. intros s W. split; [reflexivity|exact W]. Qed.
  Lemma comm_unsup A : comm (@unsup A).
  Proof. intros s W. split; [reflexivity|exact I]. Qed.
  Lemma comm_panic A : comm (@panic A).
  Proof. intros s W. split; [reflexivity|exact I]. Qed.

  Lemma comm_bind A B (m : M A) (f : A -> M B) : comm m -> (forall a, comm (f a)) -> comm (bind m f).
  Proof.
    intros Hm Hf s W. destruct (Hm s W) as [E1 W1]. unfold bind. rewrite E1.
    destruct (m s) as [a s1|k p s1| |]; cbn [res_map res_all] in *; try (split; [reflexivity|auto]).
    apply Hf. exact W1.
  Qed.

  Lemma comm_get_bind B (k : state -> M B) :
    (forall s0, wfd s0 -> k (sw s0) = k s0) -> (forall s0, comm (k s0)) -> comm (bind get k).
  Proof.
    intros Hk Hc s W. unfold bind, get. rewrite (Hk s W). apply Hc. exact W.
  Qed.

  (* ---------- primitives that do not touch the data stack ---------- *)
  Ltac nods_prim :=
    let s := fresh "s" in
    intros s [Hn Hl]; unfold wfd, sw;
    destruct s as [d0 h0 c0 g0 so0 in0 st0 rs0 fl0 lo0 sp0 cx0 ne0 me0 il0 hl0 sl0 rl0 ou0 lt0 sg0];
    destruct rl0;
    cbv [push_return pop_return top_frame push_loop pop_loop loop_next loop_set_items push_special
         pop_special get_var set_var init_local set_ip next_ip print modify
         add_rstep ip set_ip_raw res_map res_all
         set_ds set_rs set_loops set_special set_heap set_cx set_rlog set_out set_stopping
         dict heap code dbg sources input ds rs flows loops special cx nested meter insn_limit
         heap_limit stack_limit rlog out last_tok stopping] in *;
    break_matches; split; try reflexivity; try exact I; try (split; assumption).

  Lemma comm_push_return f : comm (push_return f). Proof. nods_prim. Qed.
  Lemma comm_pop_return : comm pop_return. Proof. nods_prim. Qed.
  Lemma comm_top_frame : comm top_frame. Proof. nods_prim. Qed.
  Lemma comm_push_loop l : comm (push_loop l). Proof. nods_prim. Qed.
  Lemma comm_pop_loop : comm pop_loop. Proof. nods_prim. Qed.
  Lemma comm_loop_next : comm loop_next. Proof. nods_prim. Qed.
  Lemma comm_loop_set_items c : comm (loop_set_items c). Proof. nods_prim. Qed.
  Lemma comm_push_special p : comm (push_special p). Proof. nods_prim. Qed.
  Lemma comm_pop_special : comm pop_special. Proof. nods_prim. Qed.
  Lemma comm_get_var a : comm (get_var a). Proof. nods_prim. Qed.
  Lemma comm_set_var a v : comm (set_var a v). Proof. nods_prim. Qed.
  Lemma comm_init_local i v : comm (init_local i v). Proof. nods_prim. Qed.
  Lemma comm_set_ip i : comm (set_ip i). Proof. nods_prim. Qed.
  Lemma comm_next_ip : comm next_ip. Proof. nods_prim. Qed.
  Lemma comm_print msg : comm (print msg). Proof. nods_prim. Qed.
  Lemma comm_set_stopping b : comm (modify (fun s => set_stopping s b)). Proof. nods_prim. Qed.

  (* ---------- the data-stack primitives ---------- *)
  Lemma comm_push_data c : comm (push_data c).
  Proof.
    intros s W. destruct (wfd_split s W) as (v & h & E & H). destruct W as [Wn Wl].
    unfold push_data. rewrite (sw_length s (conj Wn Wl)).
    change (stack_limit (sw s)) with (stack_limit s).
    destruct (limit_reached (stack_limit s) (length (ds s))); [split; [reflexivity|split; assumption]|].
    cbn [res_map res_all]. rewrite (sw_eq s v h E H), E.
    rewrite add_rstep_set_ds. cbn [set_ds ds]. split.
    - f_equal. change (c :: v ++ h) with ((c :: v) ++ h). rewrite sw_set by exact H. reflexivity.
    - change (c :: v ++ h) with ((c :: v) ++ h). apply wfd_sw_add; assumption.
  Qed.

  Lemma comm_pop_data : comm pop_data.
  Proof.
    intros s W. destruct (wfd_split s W) as (v & h & E & H). destruct W as [Wn Wl].
    unfold pop_data. rewrite (sw_eq s v h E H). cbn [set_ds ds cx]. rewrite E.
    destruct v as [|a v].
    - cbn [app].
      assert (X : forall (l : list cell) (t : state), length l = n ->
                match l with
                | c :: r => if ds_len (cx s) <? length l then ROk c (add_rstep (RPushData c) (set_ds t r))
                            else RErr EUnderflow None t
                | [] => RErr EUnderflow None t
                end = RErr EUnderflow None t).
      { intros l t Hl0. destruct l; [reflexivity|].
        replace (ds_len (cx s) <? length (c :: l)) with false; [reflexivity|].
        symmetry. apply Nat.ltb_ge. lia. }
      rewrite (X h' _ eq_refl), (X h s H). cbn [res_map res_all].
      split; [f_equal; symmetry; apply (sw_eq s [] h E H)|split; assumption].
    - cbn [app length].
      replace (ds_len (cx s) <? S (length (v ++ h'))) with true
        by (symmetry; apply Nat.ltb_lt; rewrite app_length; fold n; lia).
      replace (ds_len (cx s) <? S (length (v ++ h))) with true
        by (symmetry; apply Nat.ltb_lt; rewrite app_length; lia).
      cbn [res_map res_all]. rewrite !add_rstep_set_ds. split.
      + f_equal. rewrite sw_set by exact H. reflexivity.
      + apply wfd_sw_add; assumption.
  Qed.

  Lemma comm_top_data : comm top_data.
  Proof.
    intros s W. destruct (wfd_split s W) as (v & h & E & H). destruct W as [Wn Wl].
    unfold top_data. rewrite (sw_eq s v h E H). cbn [set_ds ds cx]. rewrite E.
    destruct v as [|a v].
    - cbn [app].
      assert (X : forall (l : list cell) (t : state), length l = n ->
                match l with
                | c :: _ => if ds_len (cx s) <? length l then ROk c t else RErr EUnderflow None t
                | [] => RErr EUnderflow None t
                end = RErr EUnderflow None t).
      { intros l t Hl0. destruct l; [reflexivity|].
        replace (ds_len (cx s) <? length (c :: l)) with false; [reflexivity|].
        symmetry. apply Nat.ltb_ge. lia. }
      rewrite (X h' _ eq_refl), (X h s H). cbn [res_map res_all].
      split; [f_equal; symmetry; apply (sw_eq s [] h E H)|split; assumption].
    - cbn [app length].
      replace (ds_len (cx s) <? S (length (v ++ h'))) with true
        by (symmetry; apply Nat.ltb_lt; rewrite app_length; fold n; lia).
      replace (ds_len (cx s) <? S (length (v ++ h))) with true
        by (symmetry; apply Nat.ltb_lt; rewrite app_length; lia).
      cbn [res_map res_all]. split.
      + f_equal. symmetry. apply (sw_eq s (a :: v) h E H).
      + split; assumption.
  Qed.

  (* a word that needs k visible cells and rearranges them *)
  Lemma depth_sw s : wfd s -> data_depth (sw s) = data_depth s.
  Proof. intros W. unfold data_depth. rewrite (sw_length s W). reflexivity. Qed.

  Lemma swap_under t : data_depth t < 2 -> swap_data t = RErr EUnderflow None t.
  Proof.
    intros H. unfold swap_data. destruct (ds t) as [|a [|b r]]; try reflexivity.
    replace (2 <=? data_depth t) with false; [reflexivity|]. symmetry. apply Nat.leb_gt. exact H.
  Qed.
  Lemma rot_under t : data_depth t < 3 -> rot_data t = RErr EUnderflow None t.
  Proof.
    intros H. unfold rot_data. destruct (ds t) as [|a [|b [|c r]]]; try reflexivity.
    replace (3 <=? data_depth t) with false; [reflexivity|]. symmetry. apply Nat.leb_gt. exact H.
  Qed.
  Lemma over_under t : data_depth t < 2 -> over_data t = RErr EUnderflow None t.
  Proof.
    intros H. unfold over_data. destruct (ds t) as [|a [|b r]]; try reflexivity.
    replace (2 <=? data_depth t) with false; [reflexivity|]. symmetry. apply Nat.leb_gt. exact H.
  Qed.

  Lemma depth_split s v h : wfd s -> ds s = v ++ h -> length h = n -> data_depth s = length v.
  Proof. intros [Wn _] E H. unfold data_depth. rewrite E, app_length, Wn, H. lia. Qed.

  Lemma comm_swap_data : comm swap_data.
  Proof.
    intros s W. destruct (wfd_split s W) as (v & h & E & H). pose proof W as [Wn Wl].
    pose proof (depth_split s v h W E H) as Dv. pose proof (depth_sw s W) as Ds.
    destruct (le_lt_dec 2 (length v)) as [Hv|Hv].
    - destruct v as [|a [|b v]]; cbn [length] in Hv; try lia.
      unfold swap_data. rewrite Ds, Dv. rewrite (sw_eq s _ h E H). cbn [set_ds ds]. rewrite E. cbn [app length].
      cbn [Nat.leb]. cbn [res_map res_all]. rewrite !add_rstep_set_ds. split.
      + f_equal. change (b :: a :: v ++ h) with ((b :: a :: v) ++ h). rewrite sw_set by exact H. reflexivity.
      + change (b :: a :: v ++ h) with ((b :: a :: v) ++ h). apply wfd_sw_add; assumption.
    - rewrite (swap_under (sw s)) by (rewrite Ds, Dv; exact Hv).
      rewrite (swap_under s) by (rewrite Dv; exact Hv). split; [reflexivity|exact W].
  Qed.

  Lemma comm_rot_data : comm rot_data.
  Proof.
    intros s W. destruct (wfd_split s W) as (v & h & E & H). pose proof W as [Wn Wl].
    pose proof (depth_split s v h W E H) as Dv. pose proof (depth_sw s W) as Ds.
    destruct (le_lt_dec 3 (length v)) as [Hv|Hv].
    - destruct v as [|a [|b [|c v]]]; cbn [length] in Hv; try lia.
      unfold rot_data. rewrite Ds, Dv. rewrite (sw_eq s _ h E H). cbn [set_ds ds]. rewrite E. cbn [app length].
      cbn [Nat.leb]. cbn [res_map res_all]. rewrite !add_rstep_set_ds. split.
      + f_equal. change (c :: b :: a :: v ++ h) with ((c :: b :: a :: v) ++ h).
        rewrite sw_set by exact H. reflexivity.
      + change (c :: b :: a :: v ++ h) with ((c :: b :: a :: v) ++ h). apply wfd_sw_add; assumption.
    - rewrite (rot_under (sw s)) by (rewrite Ds, Dv; exact Hv).
      rewrite (rot_under s) by (rewrite Dv; exact Hv). split; [reflexivity|exact W].
  Qed.

  Lemma wfd_add_rstep r s : wfd s -> wfd (add_rstep r s).
  Proof. intros [A B]. split; [rewrite cx_add_rstep; exact A|rewrite ds_add_rstep; exact B]. Qed.

  Lemma sw_add_rstep r s : sw (add_rstep r s) = add_rstep r (sw s).
  Proof. unfold sw. rewrite add_rstep_set_ds, ds_add_rstep. reflexivity. Qed.

  Lemma comm_over_data : comm over_data.
  Proof.
    intros s W. destruct (wfd_split s W) as (v & h & E & H). pose proof W as [Wn Wl].
    pose proof (depth_split s v h W E H) as Dv. pose proof (depth_sw s W) as Ds.
    destruct (le_lt_dec 2 (length v)) as [Hv|Hv].
    - destruct v as [|a [|b v]]; cbn [length] in Hv; try lia.
      unfold over_data. rewrite Ds, Dv.
      assert (Ed : ds (sw s) = a :: b :: v ++ h') by (rewrite (sw_eq s _ h E H); reflexivity).
      rewrite Ed, E. cbn [app length Nat.leb]. rewrite <- sw_add_rstep.
      apply (comm_push_data b (add_rstep ROverData s)). apply wfd_add_rstep. exact W.
    - rewrite (over_under (sw s)) by (rewrite Ds, Dv; exact Hv).
      rewrite (over_under s) by (rewrite Dv; exact Hv). split; [reflexivity|exact W].
  Qed.
End NI.
