(* BaseNWords.v: the encode / decode words of base_ext.rs (C18 at the word level):
   the decoders never fail (they push nil or the decoded bit-string), the encoders accept
   what >bitstr accepts when it is a whole number of bytes, and encode-then-decode
   returns the bits it was given. *)
From Xeh Require Import Model.Prelude Model.Bits Model.Codec Model.Cell Model.Lexer Model.Fmt
                        Model.Vm Model.BaseN Model.Words.
From Xeh Require Import Proofs.BitsBasic Proofs.BitsKernel Proofs.BitsLists Proofs.BitsMirror Proofs.BitsProofs.
From Xeh Require Import Proofs.BaseNKernel Proofs.BaseNProofs Proofs.WordRun.
From Coq Require Import ZifyBool ZifyNat ZifyN.
Local Ltac Zify.zify_post_hook ::= Z.div_mod_to_equations.
Local Notation length := List.length.

#[local] Arguments Nat.div : simpl never.
#[local] Arguments Nat.modulo : simpl never.

(* ---------- strings of character codes ---------- *)
Lemma bytes_of_string_codes l : Forall (fun c => (c < 256)%N) l ->
  bytes_of_string (string_of_codes l) = l.
Proof.
  induction 1 as [|c l Hc _ IH]; [reflexivity|].
  unfold string_of_codes in *. cbn [fold_right bytes_of_string].
  unfold byte_of. rewrite N_ascii_embedding by assumption. f_equal. exact IH.
Qed.

(* ---------- what the decoders accept is ASCII ---------- *)
Definition text_lt (l : list N) : Prop := Forall (fun c => (c < 256)%N) l.

Lemma b32_decode_text a l out : b32_decode a l = Some out -> text_lt l.
Proof.
  unfold b32_decode. destruct (forallb (fun c => (c <? 128)%N) l) eqn:E; [|discriminate].
  intros _. apply Forall_forall. intros c Hc. rewrite forallb_forall in E.
  specialize (E c Hc). apply N.ltb_lt in E. lia.
Qed.

Lemma b64_alphabet_lt : Forall (fun c => (c < 128)%N) b64_alphabet.
Proof. apply Forall_forall. intros c Hc. apply N.ltb_lt. revert c Hc. apply forallb_forall. reflexivity. Qed.

Lemma z85_letters_lt : Forall (fun c => (c < 128)%N) z85_letters.
Proof. apply Forall_forall. intros c Hc. apply N.ltb_lt. revert c Hc. apply forallb_forall. reflexivity. Qed.

Lemma b64_decode_text l out : b64_decode l = Some out -> text_lt l.
Proof.
  intros H. apply Forall_forall. intros c Hc.
  destruct (N.eq_dec c 61) as [->|Hne]; [lia|].
  destruct (in_dec N.eq_dec c b64_alphabet) as [Hin|Hnin].
  - pose proof b64_alphabet_lt as L. rewrite Forall_forall in L. specialize (L c Hin). lia.
  - rewrite (b64_invalid l c Hc Hnin Hne) in H. discriminate.
Qed.

Lemma z85_decode_text l out : z85_decode l = Some out -> text_lt l.
Proof.
  intros H. apply Forall_forall. intros c Hc.
  destruct (in_dec N.eq_dec c z85_letters) as [Hin|Hnin].
  - pose proof z85_letters_lt as L. rewrite Forall_forall in L. specialize (L c Hin). lia.
  - rewrite (z85_invalid l c Hc Hnin) in H. discriminate.
Qed.

(* the four encoder / decoder pairs of the word table *)
Definition codec_ok (enc : list N -> list N) (dec : list N -> option (list N)) : Prop :=
  (forall d, Forall (fun x => (x < 256)%N) d -> dec (enc d) = Some d) /\
  (forall l out, dec l = Some out -> text_lt l).

Lemma codec_ok_table enc dec :
  In (enc, dec) [ (b32_encode Rfc4648, b32_decode Rfc4648); (b32_encode Crockford, b32_decode Crockford);
                  (b64_encode, b64_decode); (z85_encode, z85_decode) ] ->
  codec_ok enc dec.
Proof.
  intros H. cbn [In] in H.
  destruct H as [H|[H|[H|[H|[]]]]]; injection H as <- <-; split.
  - apply b32_round. - apply b32_decode_text.
  - apply b32_round. - apply b32_decode_text.
  - apply b64_round. - apply b64_decode_text.
  - apply z85_round. - apply z85_decode_text.
Qed.

(* ---------- bytestr ---------- *)
Lemma bytestr_none_iff c : bytestr c = None <-> clen c mod 8 <> 0.
Proof.
  unfold bytestr, slice, is_u8_slice, is_bytestr.
  destruct (clen c mod 8 =? 0) eqn:E.
  - rewrite Bool.andb_true_r. destruct (cstart c mod 8 =? 0); split; try discriminate; intros; lia.
  - rewrite Bool.andb_false_r. split; [intros _; lia|reflexivity].
Qed.

Lemma bytestr_some c : clen c mod 8 = 0 -> exists bytes, bytestr c = Some bytes.
Proof.
  intros H. destruct (bytestr c) as [b|] eqn:E; [eauto|].
  apply bytestr_none_iff in E. contradiction.
Qed.

Lemma bytes_of_bits_lt l : Forall (fun x => (x < 256)%N) (map bits_to_N (chunk8 l)).
Proof.
  apply Forall_forall. intros x Hx. apply in_map_iff in Hx. destruct Hx as (g & <- & Hg).
  pose proof (chunks8_len_le8 (length l) l) as L. rewrite Forall_forall in L.
  specialize (L g Hg). pose proof (bits_to_N_lt g) as B.
  assert (2 ^ N.of_nat (length g) <= 2 ^ 8)%N by (apply N.pow_le_mono_r; lia).
  change (2 ^ 8)%N with 256%N in *. lia.
Qed.

(* the bit-string built from the bytes of a whole-byte bit sequence denotes that sequence *)
Lemma from_bytes_wf d : Forall (fun x => (x < 256)%N) d -> wf (from_bytes d).
Proof. intros H. unfold from_bytes. apply wf_mk; [lia|lia|exact H]. Qed.

Lemma chunks8_length_exact {A} : forall fuel (l : list A),
  length l <= fuel -> length l mod 8 = 0 -> 8 * length (chunks8 fuel l) = length l.
Proof.
  induction fuel as [|fuel IH]; intros l Hl Hm.
  - destruct l; [reflexivity|cbn [length] in Hl; lia].
  - destruct l as [|x l]; [reflexivity|].
    rewrite chunks8_cons by discriminate. cbn [length].
    specialize (IH (skipn 8 (x :: l))). rewrite skipn_length in IH.
    cbn [length] in *. lia.
Qed.

Lemma abs_from_bytes_chunks l : length l mod 8 = 0 ->
  abs (from_bytes (map bits_to_N (chunk8 l))) = l.
Proof.
  intros Hm. set (d := map bits_to_N (chunk8 l)).
  assert (Hd : Forall (fun x => (x < 256)%N) d) by apply bytes_of_bits_lt.
  pose proof (from_bytes_wf d Hd) as Hw.
  assert (Hs : is_u8_slice (from_bytes d) = true).
  { unfold is_u8_slice, is_bytestr, clen, from_bytes. cbn [cstart cend].
    replace (0 mod 8) with 0 by reflexivity. cbn [Nat.eqb andb].
    apply Nat.eqb_eq. lia. }
  pose proof (bytes_of_spec (from_bytes d) Hw Hs) as E.
  assert (Eb : bytes_of (from_bytes d) = d).
  { unfold bytes_of, from_bytes. cbn [cstart cend cdata].
    replace (0 / 8) with 0 by reflexivity. cbn [skipn]. rewrite Nat.sub_0_r.
    apply firstn_all2. destruct (ubi_spec (8 * length d)) as [(? & ? & ->)|(? & ? & ?)]; lia. }
  rewrite Eb in E. unfold d in E at 1.
  assert (Hlen : length (abs (from_bytes d)) = length l).
  { rewrite abs_length. unfold clen, from_bytes. cbn [cstart cend]. rewrite Nat.sub_0_r.
    unfold d. rewrite map_length. unfold chunk8. apply chunks8_length_exact; [lia|assumption]. }
  symmetry. apply chunk8_inj_grp. apply map_grp_split; [exact E|].
  unfold chunk8. rewrite Hlen. apply chunks8_lengths. symmetry. exact Hlen.
Qed.

(* ---------- the decode words ---------- *)
Definition decoded (dec : list N -> option (list N)) (c : cell) : cell :=
  match value c with
  | CStr t => match dec (bytes_of_string t) with Some b => CBits (from_bytes b) | None => CNil end
  | _ => CNil
  end.

Lemma w_decode_cell dec s c rest : ds s = c :: rest -> ds_len (cx s) <= length rest ->
  w_decode dec s = push_data (decoded dec c) (set_ds (with_log [RPushData c] s) rest).
Proof.
  intros Hd Hm. unfold w_decode. unfold bind at 1, get.
  replace (ds_len (cx s) <? length (ds s)) with true
    by (symmetry; apply Nat.ltb_lt; rewrite Hd; cbn [List.length]; lia).
  rewrite (run_pop1 _ s c rest Hd Hm). unfold decoded.
  destruct (value c); try reflexivity. destruct (dec (bytes_of_string s0)); reflexivity.
Qed.

Lemma w_decode_empty dec s : length (ds s) <= ds_len (cx s) -> w_decode dec s = push_data CNil s.
Proof.
  intros H. unfold w_decode. unfold bind at 1, get.
  replace (ds_len (cx s) <? length (ds s)) with false; [reflexivity|].
  symmetry. apply Nat.ltb_ge. assumption.
Qed.

(* whatever is on the stack, a decoder pushes nil or a bit-string of decoded bytes *)
Theorem w_decode_total dec s :
  exists c s1, w_decode dec s = push_data c s1 /\
               (c = CNil \/ exists t b, dec (bytes_of_string t) = Some b /\ c = CBits (from_bytes b)).
Proof.
  destruct (Nat.le_gt_cases (length (ds s)) (ds_len (cx s))) as [L|L].
  - exists CNil, s. split; [apply w_decode_empty; assumption|left; reflexivity].
  - destruct (ds s) as [|c rest] eqn:Hd; [cbn [List.length] in L; lia|].
    exists (decoded dec c), (set_ds (with_log [RPushData c] s) rest). split.
    + apply w_decode_cell; [assumption|cbn [List.length] in L; lia].
    + unfold decoded. destruct (value c); try (left; reflexivity).
      destruct (dec (bytes_of_string s0)) eqn:E; [right; eauto|left; reflexivity].
Qed.

Theorem w_decode_errors dec s k p s' : w_decode dec s = RErr k p s' ->
  k = ELimit /\ p = None /\ limit_reached (stack_limit s') (length (ds s')) = true.
Proof.
  destruct (w_decode_total dec s) as (c & s1 & -> & _). intros H.
  apply push_data_err in H. destruct H as (-> & -> & -> & H). auto.
Qed.

Theorem w_decode_no_panic dec s : w_decode dec s <> RPanic /\ w_decode dec s <> RUnsup.
Proof.
  destruct (w_decode_total dec s) as (c & s1 & -> & _). unfold push_data.
  destruct (limit_reached (stack_limit s1) (length (ds s1))); split; discriminate.
Qed.

Theorem w_decode_run dec s c rest :
  ds s = c :: rest -> ds_len (cx s) <= length rest ->
  limit_reached (stack_limit s) (length rest) = false ->
  w_decode dec s = ROk tt (set_ds (with_log [RPopData; RPushData c] s) (decoded dec c :: rest)).
Proof.
  intros Hd Hm Hl. rewrite (w_decode_cell dec s c rest Hd Hm). apply run_push. assumption.
Qed.

Theorem w_decode_run_empty dec s :
  length (ds s) <= ds_len (cx s) ->
  limit_reached (stack_limit s) (length (ds s)) = false ->
  w_decode dec s = ROk tt (set_ds (with_log [RPopData] s) (CNil :: ds s)).
Proof. intros H Hl. rewrite w_decode_empty by assumption. apply push_data_run. assumption. Qed.

(* invalid text decodes to nil *)
Theorem decoded_invalid c t ch :
  value c = CStr t -> In ch (bytes_of_string t) ->
  (~ b32_accepts Rfc4648 ch -> decoded (b32_decode Rfc4648) c = CNil) /\
  (~ b32_accepts Crockford ch -> decoded (b32_decode Crockford) c = CNil) /\
  (~ In ch b64_alphabet -> ch <> 61%N -> decoded b64_decode c = CNil) /\
  (~ In ch z85_letters -> decoded z85_decode c = CNil).
Proof.
  intros Hv Hin. unfold decoded. rewrite Hv. repeat split.
  - intros H. rewrite (b32_invalid _ _ _ Hin H). reflexivity.
  - intros H. rewrite (b32_invalid _ _ _ Hin H). reflexivity.
  - intros H1 H2. rewrite (b64_invalid _ _ Hin H1 H2). reflexivity.
  - intros H. rewrite (z85_invalid _ _ Hin H). reflexivity.
Qed.

(* ---------- the encode words ---------- *)
Lemma w_encode_spec enc s :
  w_encode enc s =
  match into_bitstr s with
  | ROk bs s1 => match bytestr bs with
                 | None => RErr EToBytestr None s1
                 | Some bytes => push_data (CStr (string_of_codes (enc bytes))) s1
                 end
  | RErr k p s1 => RErr k p s1
  | RPanic => RPanic
  | RUnsup => RUnsup
  end.
Proof.
  unfold w_encode, bind. destruct (into_bitstr s) as [bs s1| | |]; try reflexivity.
  destruct (bytestr bs); reflexivity.
Qed.

Lemma w_into_bitstr_spec s :
  w_into_bitstr s =
  match into_bitstr s with
  | ROk bs s1 => push_data (CBits bs) s1
  | RErr k p s1 => RErr k p s1
  | RPanic => RPanic
  | RUnsup => RUnsup
  end.
Proof. unfold w_into_bitstr, bind. destruct (into_bitstr s); reflexivity. Qed.

(* the full case analysis: same failures as >bitstr, plus the whole-bytes requirement *)
Theorem w_encode_domain enc s :
  match into_bitstr s with
  | ROk bs s1 =>
    if clen bs mod 8 =? 0
    then exists bytes, bytestr bs = Some bytes /\
                       (wf bs -> bytes = map bits_to_N (chunk8 (abs bs))) /\
                       w_encode enc s = push_data (CStr (string_of_codes (enc bytes))) s1
    else w_encode enc s = RErr EToBytestr None s1
  | RErr k p s1 => w_encode enc s = RErr k p s1
  | RPanic => w_encode enc s = RPanic
  | RUnsup => w_encode enc s = RUnsup
  end.
Proof.
  rewrite (w_encode_spec enc s). destruct (into_bitstr s) as [bs s1| | |]; try reflexivity.
  destruct (clen bs mod 8 =? 0) eqn:E.
  - apply Nat.eqb_eq in E. destruct (bytestr_some bs E) as (bytes & Hb).
    exists bytes. rewrite Hb. repeat split.
    intros Hw. rewrite (bytestr_spec bs Hw) in Hb.
    replace (clen bs mod 8 =? 0) with true in Hb by (symmetry; apply Nat.eqb_eq; assumption).
    injection Hb as <-. reflexivity.
  - apply Nat.eqb_neq in E. apply bytestr_none_iff in E. rewrite E. reflexivity.
Qed.

(* the encode word succeeds exactly when >bitstr succeeds with a whole number of bytes *)
Theorem w_encode_accepts enc s :
  (exists s', w_encode enc s = ROk tt s') <->
  (exists s', w_into_bitstr s = ROk tt s') /\
  (exists bs s1, into_bitstr s = ROk bs s1 /\ clen bs mod 8 = 0).
Proof.
  rewrite w_encode_spec, w_into_bitstr_spec.
  destruct (into_bitstr s) as [bs s1|k p s1| |].
  - destruct (bytestr bs) as [bytes|] eqn:Eb.
    + assert (Hm : clen bs mod 8 = 0).
      { destruct (Nat.eq_dec (clen bs mod 8) 0) as [E|E]; [assumption|].
        apply bytestr_none_iff in E. congruence. }
      unfold push_data. destruct (limit_reached (stack_limit s1) (length (ds s1))).
      * split; [intros (s' & H); discriminate|intros ((s' & H) & _); discriminate].
      * split; intros _; [split; eauto|eauto].
    + apply bytestr_none_iff in Eb. split.
      * intros (s' & H). discriminate.
      * intros (_ & bs' & s1' & H & Hm). injection H as <- <-. contradiction.
  - split; [intros (s' & H); discriminate|intros ((s' & H) & _); discriminate].
  - split; [intros (s' & H); discriminate|intros ((s' & H) & _); discriminate].
  - split; [intros (s' & H); discriminate|intros ((s' & H) & _); discriminate].
Qed.

(* running into_bitstr on a stack that starts with [c] *)
Lemma bitstr_concat_state c s : 
  match bitstr_concat c s with
  | ROk bs s1 => s1 = s /\ forall s2, bitstr_concat c s2 = ROk bs s2
  | RErr k p s1 => s1 = s /\ forall s2, bitstr_concat c s2 = RErr k p s2
  | RPanic => forall s2, bitstr_concat c s2 = RPanic
  | RUnsup => forall s2, bitstr_concat c s2 = RUnsup
  end.
Proof.
  unfold bitstr_concat, type_not_supported, ret, fail, unsup.
  destruct (value c); try (split; [reflexivity|intros; reflexivity]).
  destruct (bitstr_concat_vec 40 l {| cstart := 0; cend := 0; cdata := [] |}) as [[b|k|] p];
    try (split; [reflexivity|intros; reflexivity]).
  intros; reflexivity.
Qed.

Lemma into_bitstr_run s c rest : ds s = c :: rest -> ds_len (cx s) <= length rest ->
  into_bitstr s = bitstr_concat c (set_ds (with_log [RPushData c] s) rest).
Proof. intros Hd Hm. unfold into_bitstr. apply (run_pop1 _ s c rest Hd Hm). Qed.

(* an operand that >bitstr turns into the well-formed bit-string [bs] of whole bytes *)
Theorem w_encode_run enc s c rest bs :
  ds s = c :: rest -> ds_len (cx s) <= length rest ->
  limit_reached (stack_limit s) (length rest) = false ->
  (forall s0, bitstr_concat c s0 = ROk bs s0) -> wf bs -> clen bs mod 8 = 0 ->
  w_encode enc s
  = ROk tt (set_ds (with_log [RPopData; RPushData c] s)
                   (CStr (string_of_codes (enc (map bits_to_N (chunk8 (abs bs))))) :: rest)).
Proof.
  intros Hd Hm Hl Hc Hw Hb.
  pose proof (w_encode_domain enc s) as D.
  rewrite (into_bitstr_run s c rest Hd Hm), Hc in D.
  replace (clen bs mod 8 =? 0) with true in D by (symmetry; apply Nat.eqb_eq; assumption).
  destruct D as (bytes & _ & Hbytes & ->). rewrite (Hbytes Hw).
  apply run_push. assumption.
Qed.

Lemma bitstr_concat_bits c b : value c = CBits b -> forall s0, bitstr_concat c s0 = ROk b s0.
Proof. intros H s0. unfold bitstr_concat. rewrite H. reflexivity. Qed.

Lemma bitstr_concat_str c t : value c = CStr t ->
  forall s0, bitstr_concat c s0 = ROk (from_bytes (bytes_of_string t)) s0.
Proof. intros H s0. unfold bitstr_concat. rewrite H. reflexivity. Qed.

(* a bit-string operand at any alignment: the text encodes its 8-bit groups *)
Theorem w_encode_bits enc s c rest b :
  ds s = c :: rest -> ds_len (cx s) <= length rest ->
  limit_reached (stack_limit s) (length rest) = false ->
  value c = CBits b -> wf b -> clen b mod 8 = 0 ->
  w_encode enc s
  = ROk tt (set_ds (with_log [RPopData; RPushData c] s)
                   (CStr (string_of_codes (enc (map bits_to_N (chunk8 (abs b))))) :: rest)).
Proof.
  intros Hd Hm Hl Hv Hw Hb. apply w_encode_run; try assumption. apply bitstr_concat_bits. assumption.
Qed.

(* ---------- encode then decode ---------- *)
Theorem word_round enc dec s c rest bs :
  codec_ok enc dec ->
  ds s = c :: rest -> ds_len (cx s) <= length rest ->
  limit_reached (stack_limit s) (length rest) = false ->
  (forall s0, bitstr_concat c s0 = ROk bs s0) -> wf bs -> clen bs mod 8 = 0 ->
  let bytes := map bits_to_N (chunk8 (abs bs)) in
  (w_encode enc ;; w_decode dec) s
  = ROk tt (set_ds (with_log [RPopData; RPushData (CStr (string_of_codes (enc bytes))); RPopData; RPushData c] s)
                   (CBits (from_bytes bytes) :: rest))
  /\ wf (from_bytes bytes) /\ abs (from_bytes bytes) = abs bs.
Proof.
  intros [Hround Htext] Hd Hm Hl Hc Hw Hb bytes.
  assert (Hbytes : Forall (fun x => (x < 256)%N) bytes) by apply bytes_of_bits_lt.
  split; [|split].
  - unfold bind. rewrite (w_encode_run enc s c rest bs Hd Hm Hl Hc Hw Hb). fold bytes.
    set (txt := CStr (string_of_codes (enc bytes))).
    set (s1 := set_ds (with_log [RPopData; RPushData c] s) (txt :: rest)).
    assert (Hd1 : ds s1 = txt :: rest) by (unfold s1; apply set_ds_fields).
    assert (Hm1 : ds_len (cx s1) <= length rest).
    { unfold s1. destruct (set_ds_fields (with_log [RPopData; RPushData c] s) (txt :: rest)) as (_ & -> & _).
      destruct (with_log_fields [RPopData; RPushData c] s) as (_ & -> & _). assumption. }
    assert (Hl1 : limit_reached (stack_limit s1) (length rest) = false).
    { unfold s1. destruct (set_ds_fields (with_log [RPopData; RPushData c] s) (txt :: rest)) as (_ & _ & -> & _).
      destruct (with_log_fields [RPopData; RPushData c] s) as (_ & _ & -> & _). assumption. }
    rewrite (w_decode_run dec s1 txt rest Hd1 Hm1 Hl1). f_equal.
    assert (Edec : decoded dec txt = CBits (from_bytes bytes)).
    { unfold decoded, txt. cbn [value].
      rewrite bytes_of_string_codes by (apply (Htext _ bytes); apply Hround; assumption).
      rewrite Hround by assumption. reflexivity. }
    rewrite Edec. unfold s1. destruct_state s. destruct rl0; state_crush.
  - apply from_bytes_wf. assumption.
  - apply abs_from_bytes_chunks. rewrite abs_length. assumption.
Qed.

(* ---------- >bitstr of well-formed pieces is well-formed ---------- *)
(* every bit-string inside the cell (at any depth of vectors, under tags) is well-formed *)
Fixpoint cell_bits_wf (c : cell) : Prop :=
  match c with
  | CBits b => wf b
  | CVec l => (fix all (l : list cell) : Prop :=
                 match l with [] => True | x :: r => cell_bits_wf x /\ all r end) l
  | CTag _ v => cell_bits_wf v
  | _ => True
  end.

Definition cells_bits_wf (l : list cell) : Prop :=
  (fix all (l : list cell) : Prop := match l with [] => True | x :: r => cell_bits_wf x /\ all r end) l.

Lemma cell_bits_wf_value c : cell_bits_wf c -> cell_bits_wf (value c).
Proof. destruct c; cbn [value cell_bits_wf]; auto. Qed.

Lemma bytes_of_string_lt t : Forall (fun x => (x < 256)%N) (bytes_of_string t).
Proof.
  induction t as [|c t IH]; cbn [bytes_of_string]; constructor; [|exact IH].
  unfold byte_of. apply N_ascii_bounded.
Qed.

Lemma bitstr_concat_vec_wf : forall fuel v acc,
  wf acc -> cells_bits_wf v ->
  match bitstr_concat_vec fuel v acc with (Ok b, _) => wf b | _ => True end.
Proof.
  induction fuel as [|f IH]; intros v acc Hacc Hv; [exact I|].
  cbn [bitstr_concat_vec]. revert acc Hacc Hv.
  induction v as [|x r IHr]; intros acc Hacc Hv; [exact Hacc|].
  destruct Hv as [Hx Hr]. apply cell_bits_wf_value in Hx.
  destruct (value x) eqn:Ev; try exact I.
  - destruct ((0 <=? z) && (z <=? 255))%Z eqn:Ez; [|exact I].
    apply IHr; [|exact Hr]. apply append_spec; [exact Hacc|].
    apply from_bytes_wf. constructor; [lia|constructor].
  - apply IHr; [|exact Hr]. apply append_spec; [exact Hacc|].
    apply from_bytes_wf. apply bytes_of_string_lt.
  - pose proof (IH l (mkcbs 0 0 []) ltac:(apply wf_mk; [lia|cbn; lia|constructor]) Hx) as H2.
    destruct (bitstr_concat_vec f l (mkcbs 0 0 [])) as [[b2|k|] p2]; try exact I.
    apply IHr; [|exact Hr]. apply append_spec; assumption.
  - apply IHr; [|exact Hr]. apply append_spec; [exact Hacc|exact Hx].
Qed.

Theorem bitstr_concat_wf c s bs s' :
  cell_bits_wf c -> bitstr_concat c s = ROk bs s' -> wf bs /\ s' = s.
Proof.
  intros Hc H. apply cell_bits_wf_value in Hc. unfold bitstr_concat in H.
  destruct (value c) eqn:Ev; try discriminate.
  - injection H as <- <-. split; [|reflexivity]. apply from_bytes_wf. apply bytes_of_string_lt.
  - pose proof (bitstr_concat_vec_wf 40 l (mkcbs 0 0 []) ltac:(apply wf_mk; [lia|cbn; lia|constructor]) Hc) as W.
    destruct (bitstr_concat_vec 40 l (mkcbs 0 0 [])) as [[b|k|] p]; try discriminate.
    injection H as <- <-. auto.
  - injection H as <- <-. auto.
Qed.

(* encode then decode, for any operand whose bit-strings are well-formed *)
Theorem word_round_cell enc dec s c rest bs :
  codec_ok enc dec ->
  ds s = c :: rest -> ds_len (cx s) <= length rest ->
  limit_reached (stack_limit s) (length rest) = false ->
  cell_bits_wf c -> bitstr_concat c s = ROk bs s -> clen bs mod 8 = 0 ->
  let bytes := map bits_to_N (chunk8 (abs bs)) in
  (w_encode enc ;; w_decode dec) s
  = ROk tt (set_ds (with_log [RPopData; RPushData (CStr (string_of_codes (enc bytes))); RPopData; RPushData c] s)
                   (CBits (from_bytes bytes) :: rest))
  /\ wf (from_bytes bytes) /\ abs (from_bytes bytes) = abs bs.
Proof.
  intros Hok Hd Hm Hl Hc Hb Hlen.
  destruct (bitstr_concat_wf c s bs s Hc Hb) as [Hw _].
  apply word_round; try assumption.
  pose proof (bitstr_concat_state c s) as St. rewrite Hb in St. apply St.
Qed.

(* the same two statements for the four pairs of the word table *)
Definition codec_words : list ((list N -> list N) * (list N -> option (list N))) :=
  [ (b32_encode Rfc4648, b32_decode Rfc4648); (b32_encode Crockford, b32_decode Crockford);
    (b64_encode, b64_decode); (z85_encode, z85_decode) ].

Theorem word_round_table enc dec s c rest bs :
  In (enc, dec) codec_words ->
  ds s = c :: rest -> ds_len (cx s) <= length rest ->
  limit_reached (stack_limit s) (length rest) = false ->
  (forall s0, bitstr_concat c s0 = ROk bs s0) -> wf bs -> clen bs mod 8 = 0 ->
  let bytes := map bits_to_N (chunk8 (abs bs)) in
  (w_encode enc ;; w_decode dec) s
  = ROk tt (set_ds (with_log [RPopData; RPushData (CStr (string_of_codes (enc bytes))); RPopData; RPushData c] s)
                   (CBits (from_bytes bytes) :: rest))
  /\ wf (from_bytes bytes) /\ abs (from_bytes bytes) = abs bs.
Proof. intros H. apply word_round. apply codec_ok_table. exact H. Qed.

Theorem word_round_cell_table enc dec s c rest bs :
  In (enc, dec) codec_words ->
  ds s = c :: rest -> ds_len (cx s) <= length rest ->
  limit_reached (stack_limit s) (length rest) = false ->
  cell_bits_wf c -> bitstr_concat c s = ROk bs s -> clen bs mod 8 = 0 ->
  let bytes := map bits_to_N (chunk8 (abs bs)) in
  (w_encode enc ;; w_decode dec) s
  = ROk tt (set_ds (with_log [RPopData; RPushData (CStr (string_of_codes (enc bytes))); RPopData; RPushData c] s)
                   (CBits (from_bytes bytes) :: rest))
  /\ wf (from_bytes bytes) /\ abs (from_bytes bytes) = abs bs.
Proof. intros H. apply word_round_cell. apply codec_ok_table. exact H. Qed.
