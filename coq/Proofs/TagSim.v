(* TagSim.v: running a native word commutes with stripping all tags (C13 strip_commutes).

   [strip_state] removes the tags of every cell held by the machine state (data stack, heap,
   loop collections, locals, reverse log); code and dictionary are left alone - no native
   word reads them.  Two states are related ([srel]) when they are equal after stripping and
   hold only [tagwf] cells; [sim R m1 m2] says that two programs started in related states
   end in related results (same result kind, same error kind, payloads equal after
   stripping, values related by R).  Every primitive is [sim], [sim] is closed under [bind],
   and each word outside the tag/formatting words is [sim eq]. *)
From Xeh Require Import Model.Prelude Model.Bits Model.Codec Model.Cell Model.Lexer Model.Fmt
                        Model.Vm Model.Words Proofs.BitsProofs Proofs.CellProofs Proofs.CollProofs
                        Proofs.TagProofs.
From Coq Require Import Sorting.Sorted ZifyBool ZifyNat ZifyN.
Local Notation length := List.length.

#[local] Arguments Z.add : simpl never.
#[local] Arguments Z.sub : simpl never.
#[local] Arguments Z.mul : simpl never.
#[local] Arguments Z.ltb : simpl never.
#[local] Arguments Z.leb : simpl never.
#[local] Arguments Z.eqb : simpl never.
#[local] Arguments Z.of_nat : simpl never.
#[local] Arguments Z.to_nat : simpl never.

(* ------------------------------------------------------------------ *)
(* 1. stripping a state                                                *)
(* ------------------------------------------------------------------ *)
Definition strip_frame (f : frame) : frame := mkframe (fn_addr f) (return_to f) (map strip (locals f)).
Definition strip_loop (l : loopr) : loopr := mkloop (strip (l_items l)) (l_start l) (l_end l).
Definition strip_rstep (r : rstep) : rstep :=
  match r with
  | RPushData c => RPushData (strip c)
  | RPushReturn f => RPushReturn (strip_frame f)
  | RPushLoop l => RPushLoop (strip_loop l)
  | RLoopNextBack l => RLoopNextBack (strip_loop l)
  | RSetLocals l => RSetLocals (map strip l)
  | RSwapRef a c => RSwapRef a (strip c)
  | x => x
  end.

Definition strip_state (s : state) : state :=
  mkstate (dict s) (map strip (heap s)) (code s) (dbg s) (sources s) (input s)
          (map strip (ds s)) (map strip_frame (rs s)) (flows s) (map strip_loop (loops s)) (special s)
          (cx s) (nested s) (meter s) (insn_limit s) (heap_limit s) (stack_limit s)
          (option_map (map strip_rstep) (rlog s)) (out s) (last_tok s) (stopping s).

Definition res_strip {A} (r : res A) : res A :=
  match r with
  | ROk a s => ROk a (strip_state s)
  | RErr k p s => RErr k (option_map strip p) (strip_state s)
  | RPanic => RPanic
  | RUnsup => RUnsup
  end.

(* the invariant: no cell the machine holds has a doubly wrapped tag *)
Definition tagwf_state (s : state) : Prop :=
  Forall tagwf (ds s) /\ Forall tagwf (heap s) /\ Forall (fun l => tagwf (l_items l)) (loops s).

Lemma map_strip_idem : forall l, map strip (map strip l) = map strip l.
Proof. intro l. rewrite map_map. apply map_ext. apply strip_idem. Qed.

Lemma strip_frame_idem : forall f, strip_frame (strip_frame f) = strip_frame f.
Proof. intros [a b l]. unfold strip_frame. cbn. rewrite map_strip_idem. reflexivity. Qed.
Lemma strip_loop_idem : forall l, strip_loop (strip_loop l) = strip_loop l.
Proof. intros [a b c]. unfold strip_loop. cbn. rewrite strip_idem. reflexivity. Qed.
Lemma strip_rstep_idem : forall r, strip_rstep (strip_rstep r) = strip_rstep r.
Proof.
  destruct r; cbn; rewrite ?strip_idem, ?strip_frame_idem, ?strip_loop_idem, ?map_strip_idem; reflexivity.
Qed.

Lemma strip_state_idem : forall s, strip_state (strip_state s) = strip_state s.
Proof.
  intro s. unfold strip_state. cbn. rewrite !map_strip_idem. f_equal.
  - rewrite map_map. apply map_ext. apply strip_frame_idem.
  - rewrite map_map. apply map_ext. apply strip_loop_idem.
  - destruct (rlog s); cbn; auto. f_equal. rewrite map_map. apply map_ext. apply strip_rstep_idem.
Qed.

Lemma Forall_map_strip : forall l, Forall tagwf (map strip l).
Proof. intro l. apply Forall_forall. intros x Hx. apply in_map_iff in Hx. destruct Hx as [y [<- _]]. apply tagwf_strip. Qed.

Lemma tagwf_strip_state : forall s, tagwf_state (strip_state s).
Proof.
  intro s. unfold tagwf_state, strip_state. cbn. repeat split; try apply Forall_map_strip.
  apply Forall_forall. intros x Hx. apply in_map_iff in Hx. destruct Hx as [y [<- _]]. apply tagwf_strip.
Qed.

(* strip_state is a homomorphism for the field updates the primitives perform *)
Lemma strip_set_ds : forall s d, strip_state (set_ds s d) = set_ds (strip_state s) (map strip d).
Proof. reflexivity. Qed.
Lemma strip_set_heap : forall s d, strip_state (set_heap s d) = set_heap (strip_state s) (map strip d).
Proof. reflexivity. Qed.
Lemma strip_set_loops : forall s d, strip_state (set_loops s d) = set_loops (strip_state s) (map strip_loop d).
Proof. reflexivity. Qed.
Lemma strip_set_special : forall s d, strip_state (set_special s d) = set_special (strip_state s) d.
Proof. reflexivity. Qed.
Lemma strip_set_out : forall s d, strip_state (set_out s d) = set_out (strip_state s) d.
Proof. reflexivity. Qed.
Lemma strip_set_stopping : forall s d, strip_state (set_stopping s d) = set_stopping (strip_state s) d.
Proof. reflexivity. Qed.
Lemma strip_add_rstep : forall r s, strip_state (add_rstep r s) = add_rstep (strip_rstep r) (strip_state s).
Proof. intros r s. unfold add_rstep. cbn. destruct (rlog s); reflexivity. Qed.

Lemma ds_add_rstep : forall r s, ds (add_rstep r s) = ds s.
Proof. intros. unfold add_rstep. destruct (rlog s); reflexivity. Qed.
Lemma heap_add_rstep : forall r s, heap (add_rstep r s) = heap s.
Proof. intros. unfold add_rstep. destruct (rlog s); reflexivity. Qed.
Lemma loops_add_rstep : forall r s, loops (add_rstep r s) = loops s.
Proof. intros. unfold add_rstep. destruct (rlog s); reflexivity. Qed.
Lemma cx_add_rstep : forall r s, cx (add_rstep r s) = cx s.
Proof. intros. unfold add_rstep. destruct (rlog s); reflexivity. Qed.
Lemma special_add_rstep : forall r s, special (add_rstep r s) = special s.
Proof. intros. unfold add_rstep. destruct (rlog s); reflexivity. Qed.
Lemma stack_limit_add_rstep : forall r s, stack_limit (add_rstep r s) = stack_limit s.
Proof. intros. unfold add_rstep. destruct (rlog s); reflexivity. Qed.

Lemma tagwf_state_add_rstep : forall r s, tagwf_state (add_rstep r s) <-> tagwf_state s.
Proof. intros. unfold tagwf_state. rewrite ds_add_rstep, heap_add_rstep, loops_add_rstep. reflexivity. Qed.

(* ------------------------------------------------------------------ *)
(* 2. relations                                                        *)
(* ------------------------------------------------------------------ *)
Definition crel (a b : cell) : Prop := strip a = strip b /\ tagwf a /\ tagwf b.
Definition lrel (l l' : list cell) : Prop := map strip l = map strip l' /\ Forall tagwf l /\ Forall tagwf l'.
Definition tagwf2 (kv : cell * cell) : Prop := tagwf (fst kv) /\ tagwf (snd kv).
Definition mrel (m m' : list (cell * cell)) : Prop :=
  map strip_pair m = map strip_pair m' /\ Forall tagwf2 m /\ Forall tagwf2 m'.
Definition orel {A} (R : A -> A -> Prop) (o o' : option A) : Prop :=
  match o, o' with Some a, Some a' => R a a' | None, None => True | _, _ => False end.

Definition srel (s1 s2 : state) : Prop :=
  strip_state s1 = strip_state s2 /\ tagwf_state s1 /\ tagwf_state s2.

Definition rrel {A} (R : A -> A -> Prop) (r1 r2 : res A) : Prop :=
  match r1, r2 with
  | ROk a s, ROk a' s' => R a a' /\ srel s s'
  | RErr k p s, RErr k' p' s' => k = k' /\ option_map strip p = option_map strip p' /\ srel s s'
  | RPanic, RPanic => True
  | RUnsup, RUnsup => True
  | _, _ => False
  end.

Definition sim {A} (R : A -> A -> Prop) (m1 m2 : M A) : Prop :=
  forall s1 s2, srel s1 s2 -> rrel R (m1 s1) (m2 s2).

Lemma crel_refl : forall c, tagwf c -> crel c c.
Proof. intros c H. split; auto. Qed.
Lemma crel_strip : forall c, tagwf c -> crel c (strip c).
Proof. intros c H. split; [symmetry; apply strip_idem | split; [assumption | apply tagwf_strip]]. Qed.
Lemma lrel_refl : forall l, Forall tagwf l -> lrel l l.
Proof. intros l H. split; auto. Qed.

Lemma srel_strip : forall s, tagwf_state s -> srel s (strip_state s).
Proof.
  intros s H. split; [symmetry; apply strip_state_idem | split; [assumption | apply tagwf_strip_state]].
Qed.

(* projections of a state relation *)
Section SrelProj.
  Variables s1 s2 : state.
  Hypothesis H : srel s1 s2.
  Lemma srel_ds : lrel (ds s1) (ds s2).
  Proof. destruct H as (E & T1 & T2). split; [exact (f_equal ds E) | split; [apply T1 | apply T2]]. Qed.
  Lemma srel_heap : lrel (heap s1) (heap s2).
  Proof. destruct H as (E & T1 & T2). split; [exact (f_equal heap E) | split; [apply T1 | apply T2]]. Qed.
  Lemma srel_loops : map strip_loop (loops s1) = map strip_loop (loops s2).
  Proof. destruct H as (E & _). exact (f_equal loops E). Qed.
  Lemma srel_cx : cx s1 = cx s2.
  Proof. destruct H as (E & _). exact (f_equal cx E). Qed.
  Lemma srel_special : special s1 = special s2.
  Proof. destruct H as (E & _). exact (f_equal special E). Qed.
  Lemma srel_stack_limit : stack_limit s1 = stack_limit s2.
  Proof. destruct H as (E & _). exact (f_equal stack_limit E). Qed.
  Lemma srel_out : out s1 = out s2.
  Proof. destruct H as (E & _). exact (f_equal out E). Qed.
  Lemma srel_ds_length : length (ds s1) = length (ds s2).
  Proof. destruct srel_ds as [E _]. rewrite <- (map_length strip (ds s1)), E. apply map_length. Qed.
  Lemma srel_loops_length : length (loops s1) = length (loops s2).
  Proof. rewrite <- (map_length strip_loop (loops s1)), srel_loops. apply map_length. Qed.
End SrelProj.

Lemma lrel_length : forall l l', lrel l l' -> length l = length l'.
Proof. intros l l' [E _]. rewrite <- (map_length strip l), E. apply map_length. Qed.
Lemma mrel_length : forall m m', mrel m m' -> length m = length m'.
Proof. intros m m' [E _]. rewrite <- (map_length strip_pair m), E. apply map_length. Qed.

Lemma lrel_cons_inv : forall c l c' l', lrel (c :: l) (c' :: l') -> crel c c' /\ lrel l l'.
Proof.
  intros c l c' l' (E & T1 & T2). cbn in E. injection E as E1 E2.
  inversion T1; inversion T2; subst. repeat split; auto.
Qed.
Lemma lrel_nil_inv_l : forall l', lrel [] l' -> l' = [].
Proof. intros [|] (E & _); [reflexivity | discriminate]. Qed.
Lemma lrel_cons : forall c l c' l', crel c c' -> lrel l l' -> lrel (c :: l) (c' :: l').
Proof.
  intros c l c' l' (E1 & A1 & B1) (E2 & A2 & B2). split; [cbn; congruence|]. split; constructor; auto.
Qed.
Lemma lrel_nil : lrel [] [].
Proof. split; [reflexivity | split; constructor]. Qed.

Lemma lrel_shape : forall l l', lrel l l' ->
  match l, l' with
  | [], [] => True
  | c :: r, c' :: r' => crel c c' /\ lrel r r'
  | _, _ => False
  end.
Proof.
  intros [| c r] [| c' r'] H; auto.
  - destruct H as [E _]. discriminate.
  - destruct H as [E _]. discriminate.
  - apply lrel_cons_inv. assumption.
Qed.

Lemma Forall_incl : forall {A} (P : A -> Prop) l l', incl l' l -> Forall P l -> Forall P l'.
Proof. intros A P l l' I F. rewrite Forall_forall in *. auto. Qed.

(* list operations that commute with map *)
Lemma lrel_map_op : forall (f : list cell -> list cell) l l',
  (forall g (x : list cell), map g (f x) = f (map g x)) -> (forall x, incl (f x) x) ->
  lrel l l' -> lrel (f l) (f l').
Proof.
  intros f l l' Hc Hi (E & T1 & T2). split; [rewrite !Hc, E; reflexivity|].
  split; eapply Forall_incl; eauto.
Qed.

Lemma lrel_rev : forall l l', lrel l l' -> lrel (rev l) (rev l').
Proof.
  intros l l' (E & T1 & T2). split; [rewrite !map_rev, E; reflexivity|].
  split; apply Forall_rev; assumption.
Qed.
Lemma lrel_app : forall a a' b b', lrel a a' -> lrel b b' -> lrel (a ++ b) (a' ++ b').
Proof.
  intros a a' b b' (E1 & A1 & B1) (E2 & A2 & B2). split; [rewrite !map_app; congruence|].
  split; apply Forall_app; auto.
Qed.
Lemma incl_firstn : forall {A} n (l : list A), incl (firstn n l) l.
Proof. intros A n l x Hx. rewrite <- (firstn_skipn n l). apply in_or_app. auto. Qed.
Lemma incl_skipn : forall {A} n (l : list A), incl (skipn n l) l.
Proof. intros A n l x Hx. rewrite <- (firstn_skipn n l). apply in_or_app. auto. Qed.
Lemma lrel_firstn : forall n l l', lrel l l' -> lrel (firstn n l) (firstn n l').
Proof.
  intros n l l' (E & T1 & T2). split; [rewrite <- !firstn_map, E; reflexivity|].
  split; eapply Forall_incl; eauto using incl_firstn.
Qed.
Lemma lrel_skipn : forall n l l', lrel l l' -> lrel (skipn n l) (skipn n l').
Proof.
  intros n l l' (E & T1 & T2). split; [rewrite <- !skipn_map, E; reflexivity|].
  split; eapply Forall_incl; eauto using incl_skipn.
Qed.

Lemma lrel_nth : forall l l' i, lrel l l' -> orel crel (nth_error l i) (nth_error l' i).
Proof.
  intros l l' i (E & T1 & T2).
  pose proof (f_equal (fun x => nth_error x i) E) as N. cbn in N. rewrite !nth_error_map in N.
  destruct (nth_error l i) eqn:E1, (nth_error l' i) eqn:E2; cbn in *; try discriminate; auto.
  injection N as N. apply nth_error_In in E1, E2. rewrite Forall_forall in T1, T2.
  repeat split; auto.
Qed.

Lemma crel_value : forall c c', crel c c' -> crel (value c) (value c').
Proof.
  intros c c' (E & T1 & T2). split; [rewrite !strip_value_any; assumption|].
  split; apply tagwf_value; assumption.
Qed.

(* the shapes of two related looked-through values *)
Inductive vrel : cell -> cell -> Prop :=
| vr_nil : vrel CNil CNil
| vr_flag : forall b, vrel (CFlag b) (CFlag b)
| vr_int : forall z, vrel (CInt z) (CInt z)
| vr_real : forall r, vrel (CReal r) (CReal r)
| vr_str : forall s, vrel (CStr s) (CStr s)
| vr_vec : forall l l', lrel l l' -> vrel (CVec l) (CVec l')
| vr_map : forall m m', mrel m m' -> vrel (CMap m) (CMap m')
| vr_fun : forall f, vrel (CFun f) (CFun f)
| vr_bits : forall b, vrel (CBits b) (CBits b)
| vr_any : vrel CAny CAny.

Lemma crel_vrel : forall c c', crel c c' -> vrel (value c) (value c').
Proof.
  intros c c' H.
  assert (N1 : is_tag (value c) = false) by (apply tagwf_value, H).
  assert (N2 : is_tag (value c') = false) by (apply tagwf_value, H).
  apply crel_value in H. destruct H as (E & T1 & T2).
  revert E T1 T2 N1 N2. generalize (value c) (value c'). intros x y E T1 T2 N1 N2.
  destruct x; try discriminate N1; destruct y; try discriminate N2; cbn [strip] in E;
    try discriminate E; try (injection E as <-); try constructor.
  - apply tagwf_vec in T1. apply tagwf_vec in T2. injection E as E. split; auto.
  - apply tagwf_map in T1. apply tagwf_map in T2. injection E as E. split; auto.
Qed.

Lemma vrel_strip : forall v v', vrel v v' -> strip v = strip v'.
Proof.
  destruct 1; cbn [strip]; auto.
  - destruct H as [E _]. congruence.
  - destruct H as [E _]. f_equal. exact E.
Qed.

Lemma vrel_crel : forall v v', vrel v v' -> crel v v'.
Proof.
  intros v v' H. split; [apply vrel_strip; assumption|].
  destruct H; try (split; split; exact I).
  - destruct H as (_ & A & B). split; apply tagwf_vec; assumption.
  - destruct H as (_ & A & B). split; apply tagwf_map; assumption.
Qed.

(* ------------------------------------------------------------------ *)
(* 3. building related states                                          *)
(* ------------------------------------------------------------------ *)
Definition looprel (a b : list loopr) : Prop :=
  map strip_loop a = map strip_loop b /\
  Forall (fun l => tagwf (l_items l)) a /\ Forall (fun l => tagwf (l_items l)) b.

Lemma srel_looprel : forall s1 s2, srel s1 s2 -> looprel (loops s1) (loops s2).
Proof. intros s1 s2 (E & T1 & T2). split; [exact (f_equal loops E) | split; [apply T1 | apply T2]]. Qed.

Lemma srel_set_ds : forall s1 s2 d1 d2, srel s1 s2 -> lrel d1 d2 -> srel (set_ds s1 d1) (set_ds s2 d2).
Proof.
  intros s1 s2 d1 d2 (E & T1 & T2) (Ed & D1 & D2). split; [rewrite !strip_set_ds, E, Ed; reflexivity|].
  split; (split; [assumption | split; [apply T1 || apply T2 | apply T1 || apply T2]]).
Qed.

Lemma srel_set_heap : forall s1 s2 d1 d2, srel s1 s2 -> lrel d1 d2 -> srel (set_heap s1 d1) (set_heap s2 d2).
Proof.
  intros s1 s2 d1 d2 (E & T1 & T2) (Ed & D1 & D2). split; [rewrite !strip_set_heap, E, Ed; reflexivity|].
  split; (split; [apply T1 || apply T2 | split; [assumption | apply T1 || apply T2]]).
Qed.

Lemma srel_set_loops : forall s1 s2 d1 d2, srel s1 s2 -> looprel d1 d2 -> srel (set_loops s1 d1) (set_loops s2 d2).
Proof.
  intros s1 s2 d1 d2 (E & T1 & T2) (Ed & D1 & D2). split; [rewrite !strip_set_loops, E, Ed; reflexivity|].
  split; (split; [apply T1 || apply T2 | split; [apply T1 || apply T2 | assumption]]).
Qed.

Lemma srel_set_special : forall s1 s2 d, srel s1 s2 -> srel (set_special s1 d) (set_special s2 d).
Proof. intros s1 s2 d (E & T1 & T2). split; [rewrite !strip_set_special, E; reflexivity | split; assumption]. Qed.

Lemma srel_set_out : forall s1 s2 d, srel s1 s2 -> srel (set_out s1 d) (set_out s2 d).
Proof. intros s1 s2 d (E & T1 & T2). split; [rewrite !strip_set_out, E; reflexivity | split; assumption]. Qed.

Lemma srel_set_stopping : forall s1 s2 d, srel s1 s2 -> srel (set_stopping s1 d) (set_stopping s2 d).
Proof. intros s1 s2 d (E & T1 & T2). split; [rewrite !strip_set_stopping, E; reflexivity | split; assumption]. Qed.

Lemma srel_add_rstep : forall s1 s2 r1 r2, srel s1 s2 -> strip_rstep r1 = strip_rstep r2 ->
  srel (add_rstep r1 s1) (add_rstep r2 s2).
Proof.
  intros s1 s2 r1 r2 (E & T1 & T2) Er. split; [rewrite !strip_add_rstep, E, Er; reflexivity|].
  split; apply tagwf_state_add_rstep; assumption.
Qed.

(* ------------------------------------------------------------------ *)
(* 4. the monad and the primitives                                     *)
(* ------------------------------------------------------------------ *)
Lemma sim_ret : forall A (R : A -> A -> Prop) a a', R a a' -> sim R (ret a) (ret a').
Proof. intros A R a a' H s1 s2 Hs. cbn. auto. Qed.

Lemma sim_ret_eq : forall A (a : A), sim eq (ret a) (ret a).
Proof. intros. apply sim_ret. reflexivity. Qed.

Lemma sim_fail : forall A (R : A -> A -> Prop) k p p',
  option_map strip p = option_map strip p' -> sim R (fail k p) (fail k p').
Proof. intros A R k p p' H s1 s2 Hs. cbn. auto. Qed.

Lemma sim_unsup : forall A (R : A -> A -> Prop), sim R unsup unsup.
Proof. intros A R s1 s2 Hs. exact I. Qed.
Lemma sim_panic : forall A (R : A -> A -> Prop), sim R panic panic.
Proof. intros A R s1 s2 Hs. exact I. Qed.

Lemma sim_bind : forall A B (RA : A -> A -> Prop) (RB : B -> B -> Prop) m1 m2 f1 f2,
  sim RA m1 m2 -> (forall a a', RA a a' -> sim RB (f1 a) (f2 a')) -> sim RB (bind m1 f1) (bind m2 f2).
Proof.
  intros A B RA RB m1 m2 f1 f2 Hm Hf s1 s2 H. unfold bind. specialize (Hm s1 s2 H).
  destruct (m1 s1), (m2 s2); cbn in Hm; try contradiction; auto.
  destruct Hm. apply Hf; assumption.
Qed.

Lemma sim_get_bind : forall B (R : B -> B -> Prop) (k1 k2 : state -> M B),
  (forall s1 s2, srel s1 s2 -> sim R (k1 s1) (k2 s2)) -> sim R (bind get k1) (bind get k2).
Proof. intros B R k1 k2 H s1 s2 Hs. unfold bind, get. apply H; assumption. Qed.

Lemma sim_weaken : forall A (R S : A -> A -> Prop) m1 m2, (forall a a', R a a' -> S a a') -> sim R m1 m2 -> sim S m1 m2.
Proof.
  intros A R S m1 m2 H Hm s1 s2 Hs. specialize (Hm s1 s2 Hs).
  destruct (m1 s1), (m2 s2); cbn in *; auto. destruct Hm; auto.
Qed.

Lemma sim_pop_data : sim crel pop_data pop_data.
Proof.
  intros s1 s2 H. unfold pop_data.
  pose proof (srel_ds _ _ H) as D. pose proof (srel_ds_length _ _ H) as L. rewrite (srel_cx _ _ H), L.
  pose proof (lrel_shape _ _ D) as Sh.
  destruct (ds s1) as [| c r], (ds s2) as [| c' r']; try contradiction; cbn [rrel]; auto.
  destruct Sh as [Hc Hr].
  destruct (ds_len (cx s2) <? length (c' :: r')); cbn [rrel]; auto.
  split; auto. apply srel_add_rstep; [apply srel_set_ds; assumption|]. cbn. f_equal. apply Hc.
Qed.

Lemma sim_top_data : sim crel top_data top_data.
Proof.
  intros s1 s2 H. unfold top_data.
  pose proof (srel_ds _ _ H) as D. pose proof (srel_ds_length _ _ H) as L. rewrite (srel_cx _ _ H), L.
  pose proof (lrel_shape _ _ D) as Sh.
  destruct (ds s1) as [| c r], (ds s2) as [| c' r']; try contradiction; cbn [rrel]; auto.
  destruct Sh as [Hc Hr].
  destruct (ds_len (cx s2) <? length (c' :: r')); cbn [rrel]; auto.
Qed.

Lemma sim_push_data : forall c c', crel c c' -> sim eq (push_data c) (push_data c').
Proof.
  intros c c' Hc s1 s2 H. unfold push_data.
  rewrite (srel_stack_limit _ _ H), (srel_ds_length _ _ H).
  destruct (limit_reached (stack_limit s2) (length (ds s2))); cbn [rrel]; auto.
  split; auto. apply srel_set_ds; [apply srel_add_rstep; auto|].
  apply lrel_cons; [assumption | apply srel_ds; assumption].
Qed.

Lemma sim_dup_data : sim eq dup_data dup_data.
Proof. unfold dup_data. eapply sim_bind; [apply sim_top_data|]. intros. apply sim_push_data. assumption. Qed.

Lemma data_depth_srel : forall s1 s2, srel s1 s2 -> data_depth s1 = data_depth s2.
Proof. intros s1 s2 H. unfold data_depth. rewrite (srel_cx _ _ H), (srel_ds_length _ _ H). reflexivity. Qed.

Lemma sim_swap_data : sim eq swap_data swap_data.
Proof.
  intros s1 s2 H. unfold swap_data. rewrite (data_depth_srel _ _ H).
  pose proof (srel_ds _ _ H) as D. pose proof (lrel_shape _ _ D) as Sh.
  destruct (ds s1) as [| a r], (ds s2) as [| a' r']; try contradiction; cbn [rrel]; auto.
  destruct Sh as [Ha Hr]. pose proof (lrel_shape _ _ Hr) as Sh2.
  destruct r as [| b r], r' as [| b' r']; try contradiction; cbn [rrel]; auto.
  destruct Sh2 as [Hb Hr2].
  destruct (2 <=? data_depth s2); cbn [rrel]; auto.
  split; auto. apply srel_set_ds; [apply srel_add_rstep; auto|].
  repeat apply lrel_cons; assumption.
Qed.

Lemma sim_rot_data : sim eq rot_data rot_data.
Proof.
  intros s1 s2 H. unfold rot_data. rewrite (data_depth_srel _ _ H).
  pose proof (srel_ds _ _ H) as D. pose proof (lrel_shape _ _ D) as Sh.
  destruct (ds s1) as [| a r], (ds s2) as [| a' r']; try contradiction; cbn [rrel]; auto.
  destruct Sh as [Ha Hr]. pose proof (lrel_shape _ _ Hr) as Sh2.
  destruct r as [| b r], r' as [| b' r']; try contradiction; cbn [rrel]; auto.
  destruct Sh2 as [Hb Hr2]. pose proof (lrel_shape _ _ Hr2) as Sh3.
  destruct r as [| c r], r' as [| c' r']; try contradiction; cbn [rrel]; auto.
  destruct Sh3 as [Hc Hr3].
  destruct (3 <=? data_depth s2); cbn [rrel]; auto.
  split; auto. apply srel_set_ds; [apply srel_add_rstep; auto|].
  repeat apply lrel_cons; assumption.
Qed.

Lemma sim_over_data : sim eq over_data over_data.
Proof.
  intros s1 s2 H. unfold over_data. rewrite (data_depth_srel _ _ H).
  pose proof (srel_ds _ _ H) as D. pose proof (lrel_shape _ _ D) as Sh.
  destruct (ds s1) as [| a r] eqn:E1, (ds s2) as [| a' r'] eqn:E2; try contradiction; cbn [rrel]; auto.
  destruct Sh as [Ha Hr]. pose proof (lrel_shape _ _ Hr) as Sh2.
  destruct r as [| b r], r' as [| b' r']; try contradiction; cbn [rrel]; auto.
  destruct Sh2 as [Hb Hr2].
  destruct (2 <=? data_depth s2); cbn [rrel]; auto.
  apply sim_push_data; [assumption|]. apply srel_add_rstep; auto.
Qed.

Lemma sim_push_special : forall p, sim eq (push_special p) (push_special p).
Proof.
  intros p s1 s2 H. unfold push_special. cbn [rrel]. split; auto.
  rewrite (srel_special _ _ H). apply srel_set_special. apply srel_add_rstep; auto.
Qed.

Lemma sim_pop_special : sim eq pop_special pop_special.
Proof.
  intros s1 s2 H. unfold pop_special. rewrite (srel_special _ _ H), (srel_cx _ _ H).
  destruct (special s2) as [| p r]; cbn [rrel]; auto.
  destruct (ss_ptr (cx s2) <? length (p :: r)); cbn [rrel]; auto.
  split; auto. apply srel_add_rstep; auto. apply srel_set_special. assumption.
Qed.

Lemma mode_srel : forall s1 s2, srel s1 s2 -> cmode (cx s1) = cmode (cx s2).
Proof. intros s1 s2 H. rewrite (srel_cx _ _ H). reflexivity. Qed.

Lemma sim_get_var : forall a, sim crel (get_var a) (get_var a).
Proof.
  intros a s1 s2 H. unfold get_var. rewrite (mode_srel _ _ H).
  destruct (mode_eqb (cmode (cx s2)) MMeta); cbn [rrel]; auto.
  pose proof (lrel_nth _ _ a (srel_heap _ _ H)) as N.
  destruct (nth_error (heap s1) a), (nth_error (heap s2) a); cbn in N; try contradiction; cbn [rrel]; auto.
Qed.

Lemma map_list_set : forall {A B} (f : A -> B) l i v, map f (list_set l i v) = list_set (map f l) i (f v).
Proof. induction l; destruct i; cbn; auto. intros. f_equal. auto. Qed.

Lemma Forall_list_set : forall {A} (P : A -> Prop) l i v, Forall P l -> P v -> Forall P (list_set l i v).
Proof.
  induction l; destruct i; cbn; intros v F Hv; auto; inversion F; subst; constructor; auto.
Qed.

Lemma lrel_list_set : forall l l' i v v', lrel l l' -> crel v v' -> lrel (list_set l i v) (list_set l' i v').
Proof.
  intros l l' i v v' (E & A & B) (Ev & Av & Bv). split; [rewrite !map_list_set, E, Ev; reflexivity|].
  split; apply Forall_list_set; assumption.
Qed.

Lemma sim_set_var : forall a v v', crel v v' -> sim eq (set_var a v) (set_var a v').
Proof.
  intros a v v' Hv s1 s2 H. unfold set_var. rewrite (mode_srel _ _ H).
  destruct (mode_eqb (cmode (cx s2)) MMeta); cbn [rrel]; auto.
  pose proof (lrel_nth _ _ a (srel_heap _ _ H)) as N.
  destruct (nth_error (heap s1) a), (nth_error (heap s2) a); cbn in N; try contradiction; cbn [rrel]; auto.
  split; auto. apply srel_add_rstep; [| cbn; f_equal; apply N].
  apply srel_set_heap; auto. apply lrel_list_set; auto. apply srel_heap; assumption.
Qed.

Lemma sim_print : forall msg, sim eq (print msg) (print msg).
Proof.
  intros msg s1 s2 H. unfold print. cbn [rrel]. split; auto. rewrite (srel_out _ _ H).
  apply srel_set_out. assumption.
Qed.

Lemma sim_set_stopping : forall b, sim eq (modify (fun s => set_stopping s b)) (modify (fun s => set_stopping s b)).
Proof. intros b s1 s2 H. unfold modify. cbn [rrel]. split; auto. apply srel_set_stopping. assumption. Qed.

Lemma looprel_shape : forall a b, looprel a b ->
  match a, b with
  | [], [] => True
  | l :: r, l' :: r' => (crel (l_items l) (l_items l') /\ l_start l = l_start l' /\ l_end l = l_end l') /\ looprel r r'
  | _, _ => False
  end.
Proof.
  intros [| l r] [| l' r'] (E & A & B); auto; try discriminate.
  cbn in E. injection E as E1 E2 E3 E4. inversion A; inversion B; subst.
  repeat split; auto.
Qed.

Lemma looprel_cons : forall l l' r r', crel (l_items l) (l_items l') -> l_start l = l_start l' -> l_end l = l_end l' ->
  looprel r r' -> looprel (l :: r) (l' :: r').
Proof.
  intros l l' r r' (E & A & B) Es Ee (Er & Ar & Br). split.
  - cbn. unfold strip_loop at 1 3. rewrite E, Es, Ee, Er. reflexivity.
  - split; constructor; auto.
Qed.

Lemma sim_loop_set_items : forall c c', crel c c' -> sim eq (loop_set_items c) (loop_set_items c').
Proof.
  intros c c' Hc s1 s2 H. unfold loop_set_items.
  rewrite (srel_cx _ _ H), (srel_loops_length _ _ H).
  pose proof (looprel_shape _ _ (srel_looprel _ _ H)) as Sh.
  destruct (loops s1) as [| l r], (loops s2) as [| l' r']; try contradiction; cbn [rrel]; auto.
  destruct Sh as [(Hi & Hs & He) Hr].
  destruct (ls_len (cx s2) <? length (l' :: r')); cbn [rrel]; auto.
  split; auto. apply srel_add_rstep.
  - apply srel_set_loops; auto. apply looprel_cons; auto.
  - cbn. f_equal. unfold strip_loop. destruct Hi as [Hi _]. rewrite Hi, Hs, He. reflexivity.
Qed.

(* ------------------------------------------------------------------ *)
(* 5. typed accessors                                                  *)
(* ------------------------------------------------------------------ *)
Ltac by_vrel H :=
  let V := fresh "V" in let S := fresh "S" in
  pose proof (crel_vrel _ _ H) as V; pose proof (vrel_strip _ _ V) as S;
  revert V S;
  match type of H with crel ?c ?c' => generalize (value c) (value c') end;
  intros ? ? V S; destruct V.

Lemma sim_m_xint : forall c c', crel c c' -> sim eq (m_xint c) (m_xint c').
Proof. intros c c' H. unfold m_xint. by_vrel H; try apply sim_ret_eq; apply sim_fail; cbn; f_equal; exact S. Qed.
Lemma sim_m_real : forall c c', crel c c' -> sim eq (m_real c) (m_real c').
Proof. intros c c' H. unfold m_real. by_vrel H; try apply sim_ret_eq; apply sim_fail; cbn; f_equal; exact S. Qed.
Lemma sim_m_str : forall c c', crel c c' -> sim eq (m_str c) (m_str c').
Proof. intros c c' H. unfold m_str. by_vrel H; try apply sim_ret_eq; apply sim_fail; cbn; f_equal; exact S. Qed.
Lemma sim_m_bits : forall c c', crel c c' -> sim eq (m_bits c) (m_bits c').
Proof. intros c c' H. unfold m_bits. by_vrel H; try apply sim_ret_eq; apply sim_fail; cbn; f_equal; exact S. Qed.
Lemma sim_m_vec : forall c c', crel c c' -> sim lrel (m_vec c) (m_vec c').
Proof.
  intros c c' H. unfold m_vec. by_vrel H; try (apply sim_ret; assumption); apply sim_fail; cbn; f_equal; exact S.
Qed.
Lemma sim_m_map : forall c c', crel c c' -> sim mrel (m_map c) (m_map c').
Proof.
  intros c c' H. unfold m_map. by_vrel H; try (apply sim_ret; assumption); apply sim_fail; cbn; f_equal; exact S.
Qed.
Lemma sim_m_isize : forall c c', crel c c' -> sim eq (m_isize c) (m_isize c').
Proof.
  intros c c' H. unfold m_isize. by_vrel H; try (apply sim_fail; cbn; f_equal; exact S).
  destruct (in_isize z); [apply sim_ret_eq | apply sim_fail; reflexivity].
Qed.
Lemma sim_m_bool : forall c c', crel c c' -> sim eq (m_bool c) (m_bool c').
Proof.
  intros c c' H. unfold m_bool. destruct H as [E T].
  pose proof (crel_vrel _ _ (conj E T)) as V. revert V. generalize (value c) (value c'). intros ? ? V.
  destruct V; try apply sim_ret_eq; apply sim_fail; cbn; f_equal; exact E.
Qed.
Lemma sim_m_cond : forall c c', crel c c' -> sim eq (m_cond c) (m_cond c').
Proof.
  intros c c' H. unfold m_cond. destruct H as [E T].
  pose proof (crel_vrel _ _ (conj E T)) as V. revert V. generalize (value c) (value c'). intros ? ? V.
  destruct V; try apply sim_ret_eq; apply sim_fail; cbn; f_equal; exact E.
Qed.
Lemma sim_m_usize : forall c c', crel c c' -> sim eq (m_usize c) (m_usize c').
Proof.
  intros c c' H. unfold m_usize. pose proof H as [E _]. by_vrel H; try (apply sim_fail; cbn; f_equal; exact S).
  destruct (z <? 0)%Z; [apply sim_fail; cbn; f_equal; exact E|].
  destruct (in_usize z); [apply sim_ret_eq | apply sim_fail; reflexivity].
Qed.

(* ------------------------------------------------------------------ *)
(* 6. pure functions respect the relations                             *)
(* ------------------------------------------------------------------ *)
Lemma crel_eqb : forall a a' b b', crel a a' -> crel b b' -> cell_eqb a b = cell_eqb a' b'.
Proof.
  intros a a' b b' (Ea & A1 & A2) (Eb & B1 & B2). rewrite !eqb_strip by assumption.
  unfold seqb. rewrite Ea, Eb. reflexivity.
Qed.
Lemma crel_cmp : forall a a' b b', crel a a' -> crel b b' -> cell_cmp a b = cell_cmp a' b'.
Proof.
  intros a a' b b' (Ea & A1 & A2) (Eb & B1 & B2). rewrite !cmp_strip by assumption.
  unfold scmp. rewrite Ea, Eb. reflexivity.
Qed.

Lemma tagwf_atoms :
  tagwf CNil /\ (forall b, tagwf (CFlag b)) /\ (forall z, tagwf (CInt z)) /\ (forall r, tagwf (CReal r)) /\
  (forall s, tagwf (CStr s)) /\ (forall f, tagwf (CFun f)) /\ (forall b, tagwf (CBits b)) /\ tagwf CAny.
Proof. repeat split. Qed.

Lemma crel_nil : crel CNil CNil.            Proof. apply crel_refl. split; exact I. Qed.
Lemma crel_flag : forall b, crel (CFlag b) (CFlag b). Proof. intro. apply crel_refl. split; exact I. Qed.
Lemma crel_cflag : forall b, crel (cflag b) (cflag b). Proof. intro. apply crel_refl. split; exact I. Qed.
Lemma crel_int : forall z, crel (CInt z) (CInt z).   Proof. intro. apply crel_refl. split; exact I. Qed.
Lemma crel_cint : forall z, crel (cint z) (cint z).   Proof. intro. apply crel_refl. split; exact I. Qed.
Lemma crel_cnat : forall n, crel (cnat n) (cnat n).   Proof. intro. apply crel_refl. split; exact I. Qed.
Lemma crel_real : forall z, crel (CReal z) (CReal z). Proof. intro. apply crel_refl. split; exact I. Qed.
Lemma crel_str : forall z, crel (CStr z) (CStr z).   Proof. intro. apply crel_refl. split; exact I. Qed.
Lemma crel_bits : forall z, crel (CBits z) (CBits z). Proof. intro. apply crel_refl. split; exact I. Qed.
Lemma crel_vec : forall l l', lrel l l' -> crel (CVec l) (CVec l').
Proof. intros. apply vrel_crel. constructor. assumption. Qed.
Lemma crel_map : forall l l', mrel l l' -> crel (CMap l) (CMap l').
Proof. intros. apply vrel_crel. constructor. assumption. Qed.

Lemma tagwf_with_tags : forall c t, tagwf c -> tagwf (with_tags c t).
Proof. intros c t H. unfold with_tags. apply tagwf_tag. destruct (tagwf_value _ H). auto. Qed.

Lemma crel_with_tags : forall c c' t t', crel c c' -> crel (with_tags c t) (with_tags c' t').
Proof.
  intros c c' t t' (E & A & B). split; [rewrite !strip_with_tags; assumption|].
  split; apply tagwf_with_tags; assumption.
Qed.

Create HintDb creldb.
#[export] Hint Resolve crel_nil crel_flag crel_cflag crel_int crel_cint crel_cnat crel_real crel_str crel_bits
  crel_vec crel_map crel_with_tags lrel_rev lrel_app lrel_firstn lrel_skipn lrel_cons lrel_nil crel_value : creldb.

(* maps *)
Lemma mrel_keys : forall m m', mrel m m' -> keys_tagwf m /\ keys_tagwf m'.
Proof.
  intros m m' (_ & A & B). unfold keys_tagwf. split; eapply Forall_impl; try eassumption; intros a [H _]; exact H.
Qed.

Lemma find_strip_g : forall m k, keys_tagwf m -> tagwf k ->
  option_map strip (assoc_find m k) = assoc_find (map strip_pair m) (strip k).
Proof.
  intros m k Hm Hk. rewrite assoc_find_strip. f_equal. rewrite assoc_find_g by assumption. reflexivity.
Qed.

Lemma mrel_find : forall m m' k k', mrel m m' -> crel k k' -> orel crel (assoc_find m k) (assoc_find m' k').
Proof.
  intros m m' k k' Hm (Ek & K1 & K2). destruct (mrel_keys _ _ Hm) as [T1 T2]. destruct Hm as (E & A & B).
  pose proof (find_strip_g m k T1 K1) as F1. pose proof (find_strip_g m' k' T2 K2) as F2.
  rewrite E, Ek, <- F2 in F1.
  destruct (assoc_find m k) as [v|] eqn:E1, (assoc_find m' k') as [v'|] eqn:E2; cbn in *; try discriminate; auto.
  injection F1 as F1. apply assoc_find_in in E1, E2. destruct E1 as (k1 & I1 & _), E2 as (k2 & I2 & _).
  rewrite Forall_forall in A, B. split; auto. split; [apply (A _ I1) | apply (B _ I2)].
Qed.

Lemma scmp_strip_both : forall a b, scmp (strip a) (strip b) = scmp a b.
Proof. intros. rewrite scmp_strip_l, scmp_strip_r. reflexivity. Qed.

Lemma ginsert_strip : forall m k v,
  map strip_pair (ginsert scmp m k v) = ginsert scmp (map strip_pair m) (strip k) (strip v).
Proof.
  induction m as [| [k0 v0] r IH]; intros k v; cbn [ginsert map]; auto.
  change (strip_pair (k0, v0)) with (strip k0, strip v0). cbn [ginsert]. rewrite scmp_strip_both.
  destruct (scmp k k0); cbn [map]; auto. rewrite IH. reflexivity.
Qed.

Lemma gremove_strip : forall m k,
  map strip_pair (gremove scmp m k) = gremove scmp (map strip_pair m) (strip k).
Proof.
  induction m as [| [k0 v0] r IH]; intros k; cbn [gremove map]; auto.
  change (strip_pair (k0, v0)) with (strip k0, strip v0). cbn [gremove]. rewrite scmp_strip_both.
  destruct (scmp k k0); cbn [map]; auto; rewrite IH; reflexivity.
Qed.

Lemma mrel_insert : forall m m' k k' v v', mrel m m' -> crel k k' -> crel v v' ->
  mrel (assoc_insert m k v) (assoc_insert m' k' v').
Proof.
  intros m m' k k' v v' Hm (Ek & K1 & K2) (Ev & V1 & V2). destruct (mrel_keys _ _ Hm) as [T1 T2].
  destruct Hm as (E & A & B). rewrite !assoc_insert_g by assumption. split.
  - rewrite !ginsert_strip, E, Ek, Ev. reflexivity.
  - rewrite !Forall_forall in *. split; intros p Hp; apply ginsert_in in Hp; destruct Hp as [->|Hp]; auto; split; auto.
Qed.

Lemma mrel_remove : forall m m' k k', mrel m m' -> crel k k' -> mrel (assoc_remove m k) (assoc_remove m' k').
Proof.
  intros m m' k k' Hm (Ek & K1 & K2). destruct (mrel_keys _ _ Hm) as [T1 T2].
  destruct Hm as (E & A & B). rewrite !assoc_remove_g by assumption. split.
  - rewrite !gremove_strip, E, Ek. reflexivity.
  - rewrite !Forall_forall in *. split; intros p Hp; apply gremove_in in Hp; auto.
Qed.

Lemma mrel_nil : mrel [] [].
Proof. split; [reflexivity | split; constructor]. Qed.

Lemma mrel_nth : forall m m' i, mrel m m' ->
  orel (fun p q => crel (fst p) (fst q) /\ crel (snd p) (snd q)) (nth_error m i) (nth_error m' i).
Proof.
  intros m m' i (E & T1 & T2).
  pose proof (f_equal (fun x => nth_error x i) E) as N. cbn in N. rewrite !nth_error_map in N.
  destruct (nth_error m i) as [[k v]|] eqn:E1, (nth_error m' i) as [[k' v']|] eqn:E2; cbn in *; try discriminate; auto.
  injection N as N1 N2. apply nth_error_In in E1, E2. rewrite Forall_forall in T1, T2.
  destruct (T1 _ E1), (T2 _ E2). repeat split; auto.
Qed.

Lemma pairs_insert_rel : forall l l' m m', lrel l l' -> mrel m m' -> mrel (pairs_insert l m) (pairs_insert l' m').
Proof.
  fix IH 1. intros [| v [| k r]] l' m m' Hl Hm.
  - apply lrel_nil_inv_l in Hl. subst. assumption.
  - pose proof (lrel_shape _ _ Hl) as Sh. destruct l' as [| v' r']; try contradiction.
    destruct Sh as [_ Hr]. apply lrel_nil_inv_l in Hr. subst. assumption.
  - pose proof (lrel_shape _ _ Hl) as Sh. destruct l' as [| v' r']; try contradiction.
    destruct Sh as [Hv Hr]. pose proof (lrel_shape _ _ Hr) as Sh2. destruct r' as [| k' r']; try contradiction.
    destruct Sh2 as [Hk Hr2]. cbn [pairs_insert]. apply IH; auto. apply mrel_insert; assumption.
Qed.

(* sort *)
Lemma sort_insert_strip : forall x l, tagwf x -> Forall tagwf l ->
  map strip (sort_insert x l) = sort_insert (strip x) (map strip l).
Proof.
  intros x l Hx Hl. induction Hl as [| y r Hy Hr IH]; cbn [sort_insert map]; auto.
  rewrite (cmp_strip x y Hx Hy). change (cell_cmp (strip x) (strip y)) with (scmp x y).
  destruct (scmp x y); cbn [map]; auto. rewrite IH. reflexivity.
Qed.

Lemma sort_insert_in : forall x l y, In y (sort_insert x l) -> y = x \/ In y l.
Proof.
  induction l as [| z r IH]; cbn [sort_insert]; intros y H.
  - destruct H as [<-|[]]. auto.
  - destruct (cell_cmp x z); cbn in H; try (destruct H as [<-|H]; auto; fail).
    destruct H as [<-|H]; cbn; auto. destruct (IH _ H); cbn; auto.
Qed.

Lemma sort_cells_in : forall l y, In y (sort_cells l) -> In y l.
Proof.
  induction l as [| x r IH]; cbn [sort_cells fold_right]; intros y H; auto.
  apply sort_insert_in in H. destruct H as [->|H]; cbn; auto.
Qed.

Lemma sort_cells_strip' : forall l, Forall tagwf l -> map strip (sort_cells l) = sort_cells (map strip l).
Proof.
  induction 1 as [| x r Hx Hr IH]; cbn [sort_cells fold_right map]; auto.
  fold (sort_cells r). fold (sort_cells (map strip r)). rewrite <- IH.
  apply sort_insert_strip; auto. rewrite Forall_forall in *. intros y Hy. apply Hr, sort_cells_in, Hy.
Qed.

Lemma lrel_sort : forall l l', lrel l l' -> lrel (sort_cells l) (sort_cells l').
Proof.
  intros l l' (E & A & B). split; [rewrite !sort_cells_strip', E by assumption; reflexivity|].
  split; rewrite Forall_forall in *; intros y Hy; apply sort_cells_in in Hy; auto.
Qed.

Lemma map_slice_list : forall {A B} (f : A -> B) l st en, map f (slice_list l st en) = slice_list (map f l) st en.
Proof. intros. unfold slice_list. rewrite map_length, <- firstn_map, <- skipn_map. reflexivity. Qed.

Lemma lrel_slice : forall l l' st en, lrel l l' -> lrel (slice_list l st en) (slice_list l' st en).
Proof.
  intros l l' st en (E & A & B). split; [rewrite !map_slice_list, E; reflexivity|].
  unfold slice_list. split; [eapply Forall_incl; [|exact A] | eapply Forall_incl; [|exact B]];
    intros x Hx; apply incl_firstn, incl_skipn in Hx; exact Hx.
Qed.
#[export] Hint Resolve lrel_sort lrel_slice mrel_insert mrel_remove mrel_nil pairs_insert_rel : creldb.

Lemma crel_find_default : forall m m' k k', mrel m m' -> crel k k' ->
  crel (match assoc_find m k with Some x => x | None => CNil end)
       (match assoc_find m' k' with Some x => x | None => CNil end).
Proof.
  intros m m' k k' Hm Hk. pose proof (mrel_find _ _ _ _ Hm Hk) as F.
  destruct (assoc_find m k), (assoc_find m' k'); cbn in F; try contradiction; auto. apply crel_nil.
Qed.

Lemma crel_insert_tag : forall c c' k k' v v', crel c c' -> crel (insert_tag c k v) (insert_tag c' k' v').
Proof. intros. unfold insert_tag. apply crel_with_tags. assumption. Qed.
Lemma crel_remove_tag : forall c c' k k', crel c c' -> crel (remove_tag c k) (remove_tag c' k').
Proof. intros. unfold remove_tag. apply crel_with_tags. assumption. Qed.
#[export] Hint Resolve crel_find_default crel_insert_tag crel_remove_tag : creldb.

(* ------------------------------------------------------------------ *)
(* 7. the tactic that walks a word                                     *)
(* ------------------------------------------------------------------ *)
Create HintDb simdb.
#[export] Hint Resolve sim_pop_data sim_top_data sim_dup_data sim_swap_data sim_rot_data sim_over_data
  sim_push_special sim_pop_special sim_get_var sim_print sim_set_stopping sim_unsup sim_panic sim_ret_eq
  sim_m_xint sim_m_real sim_m_str sim_m_bits sim_m_vec sim_m_map sim_m_isize sim_m_bool sim_m_cond sim_m_usize
  : simdb.

Ltac head_of t := lazymatch t with ?f _ => head_of f | _ => t end.

Ltac sim_pure := first [ solve [ auto 7 with creldb nocore ] | reflexivity | idtac ].

Ltac sim_payload :=
  cbn [option_map];
  first [ reflexivity
        | f_equal;
          first [ assumption
                | match goal with H : crel ?c ?c' |- strip ?c = strip ?c' => exact (proj1 H) end
                | match goal with H : vrel ?c ?c' |- strip ?c = strip ?c' => exact (vrel_strip _ _ H) end
                | idtac ]
        | idtac ].

Ltac lens :=
  repeat match goal with
         | H : lrel ?l ?l' |- context [length ?l] => rewrite (lrel_length l l' H)
         | H : mrel ?l ?l' |- context [length ?l] => rewrite (mrel_length l l' H)
         end.

(* [cell_eqb] of related cells *)
Ltac eqbs :=
  repeat match goal with
         | Ha : crel ?a ?a', Hb : crel ?b ?b' |- context [cell_eqb ?a ?b] =>
           rewrite (crel_eqb a a' b b' Ha Hb)
         | Ha : crel ?a ?a' |- context [cell_eqb ?a CNil] =>
           rewrite (crel_eqb a a' CNil CNil Ha crel_nil)
         | Ha : crel ?a ?a' |- context [cell_eqb ?a (cint ?z)] =>
           rewrite (crel_eqb a a' (cint z) (cint z) Ha (crel_cint z))
         end.

Ltac by_vrel_go H :=
  let V := fresh "V" in let S := fresh "S" in
  pose proof (crel_vrel _ _ H) as V; pose proof (vrel_strip _ _ V) as S;
  revert V S;
  match type of H with crel ?c ?c' => generalize (value c) (value c') end;
  let x := fresh "x" in let y := fresh "y" in
  intros x y V S; destruct V; cbv beta iota; lens.

Ltac sim_go :=
  cbv beta zeta; lens; eqbs;
  lazymatch goal with
  | |- sim _ (ret _) (ret _) => first [ apply sim_ret_eq | apply sim_ret; sim_pure ]
  | |- sim _ (fail _ _) (fail _ _) => apply sim_fail; sim_payload
  | |- sim _ unsup unsup => apply sim_unsup
  | |- sim _ panic panic => apply sim_panic
  | |- sim _ (push_data _) (push_data _) => apply sim_push_data; sim_pure
  | |- sim _ (set_var _ _) (set_var _ _) => apply sim_set_var; sim_pure
  | |- sim _ (loop_set_items _) (loop_set_items _) => apply sim_loop_set_items; sim_pure
  | |- sim _ (bind get _) (bind get _) => idtac
  | |- sim _ (bind _ _) (bind _ _) =>
    eapply sim_bind;
    [ sim_go
    | let a := fresh "a" in let a' := fresh "a'" in let Ha := fresh "Ha" in
      intros a a' Ha; try (subst a'); sim_go ]
  | |- sim _ (match value ?c with _ => _ end) (match value ?c' with _ => _ end) =>
    lazymatch goal with
    | H : crel c c' |- _ => by_vrel_go H; sim_go
    | _ => idtac
    end
  | |- sim _ (match nth_error ?l ?i with _ => _ end) (match nth_error ?l' ?i with _ => _ end) =>
    lazymatch goal with
    | H : lrel l l' |- _ =>
      let N := fresh "N" in
      pose proof (lrel_nth l l' i H) as N;
      destruct (nth_error l i), (nth_error l' i); cbn [orel] in N; try contradiction; sim_go
    | H : mrel l l' |- _ =>
      let N := fresh "N" in
      pose proof (mrel_nth l l' i H) as N;
      destruct (nth_error l i) as [[? ?]|], (nth_error l' i) as [[? ?]|]; cbn [orel fst snd] in N;
      try contradiction; try (destruct N); sim_go
    | _ => idtac
    end
  | |- sim _ (match assoc_find ?m ?k with _ => _ end) (match assoc_find ?m' ?k' with _ => _ end) =>
    lazymatch goal with
    | H : mrel m m', Hk : crel k k' |- _ =>
      let N := fresh "N" in
      pose proof (mrel_find m m' k k' H Hk) as N;
      destruct (assoc_find m k), (assoc_find m' k'); cbn [orel] in N; try contradiction; sim_go
    | _ => idtac
    end
  | |- sim _ (if ?b then _ else _) (if ?b then _ else _) => destruct b; sim_go
  | |- sim _ (match ?x with _ => _ end) (match ?x with _ => _ end) => destruct x; sim_go
  | |- sim _ ?m ?m' =>
    first [ solve [ eauto 3 with simdb nocore ]
          | let h := head_of m in tryif unfold h then sim_go else idtac ]
  end.
