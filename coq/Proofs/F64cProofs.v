(* F64cProofs.v: correctness facts about the integer-arithmetic conversions of Model/F64c.v
   (mirrors of Rust's `as` casts between i128 / f64 / f32 and of f64::round). *)
From Xeh Require Import Model.Prelude Model.Cell Model.F64c Proofs.ArithNum.
From Coq Require Import ZifyBool.
Local Ltac Zify.zify_post_hook ::= Z.div_mod_to_equations.
Local Open Scope Z_scope.

#[local] Arguments Z.add : simpl never.
#[local] Arguments Z.sub : simpl never.
#[local] Arguments Z.mul : simpl never.
#[local] Arguments Z.pow : simpl never.
#[local] Arguments Z.modulo : simpl never.
#[local] Arguments Z.div : simpl never.
#[local] Arguments Z.ltb : simpl never.
#[local] Arguments Z.leb : simpl never.
#[local] Arguments Z.eqb : simpl never.
#[local] Arguments Z.log2 : simpl never.

Lemma p52 : 2 ^ 52 = 4503599627370496. Proof. reflexivity. Qed.
Lemma p53 : 2 ^ 53 = 9007199254740992. Proof. reflexivity. Qed.
Lemma p63 : 2 ^ 63 = 9223372036854775808. Proof. reflexivity. Qed.
Lemma p64 : 2 ^ 64 = 18446744073709551616. Proof. reflexivity. Qed.

(* ---------- the fields of a pattern assembled from sign, exponent and fraction ---------- *)
Lemma f64_fields s e m : 0 <= e < 2048 -> 0 <= m < 2 ^ 52 ->
  let p := f64_sign_bit s + e * 2 ^ 52 + m in
  f64_pat p /\ f64_exp p = e /\ f64_man p = m /\ f64_neg p = s.
Proof.
  intros He Hm p. unfold f64_pat.
  assert (Hs : f64_sign_bit s = if s then 2 ^ 63 else 0) by reflexivity.
  assert (Hp : 0 <= p < 2 ^ 64).
  { unfold p. rewrite Hs. rewrite p52 in *. rewrite p63, p64. destruct s; lia. }
  split; [exact Hp|]. split; [|split].
  - unfold f64_exp. rewrite Z.shiftr_div_pow2 by lia. unfold p. rewrite Hs.
    rewrite p52 in *. rewrite ?p63. destruct s; lia.
  - unfold f64_man, p. rewrite Hs. rewrite p52 in *. rewrite ?p63. destruct s; lia.
  - unfold f64_neg. rewrite testbit63 by exact Hp. unfold p. rewrite Hs.
    rewrite p52 in *. rewrite ?p63. destruct s; lia.
Qed.

(* any pattern is assembled from its fields *)
Lemma f64_decompose p : f64_pat p ->
  p = f64_sign_bit (f64_neg p) + f64_exp p * 2 ^ 52 + f64_man p /\
  0 <= f64_exp p < 2048 /\ 0 <= f64_man p < 2 ^ 52.
Proof.
  intros Hp. unfold f64_pat in Hp. unfold f64_neg, f64_exp, f64_man, f64_sign_bit.
  rewrite testbit63 by exact Hp. rewrite Z.shiftr_div_pow2 by lia.
  rewrite p52, p63 in *. rewrite p64 in Hp.
  destruct (9223372036854775808 <=? p) eqn:E; lia.
Qed.

(* ---------- bit length ---------- *)
Lemma bitlen_spec a : 0 < a -> 1 <= bitlen a /\ 2 ^ (bitlen a - 1) <= a < 2 ^ bitlen a.
Proof.
  intros H. unfold bitlen. replace (a <=? 0) with false by lia.
  pose proof (Z.log2_nonneg a). pose proof (Z.log2_spec a H) as S.
  replace (Z.log2 a + 1 - 1) with (Z.log2 a) by lia. replace (Z.succ (Z.log2 a)) with (Z.log2 a + 1) in S by lia.
  split; [lia|exact S].
Qed.

Lemma bitlen_unique a L : 1 <= L -> 2 ^ (L - 1) <= a < 2 ^ L -> bitlen a = L.
Proof.
  intros HL H. assert (0 < a).
  { assert (0 < 2 ^ (L - 1)) by (apply Z.pow_pos_nonneg; lia). lia. }
  unfold bitlen. replace (a <=? 0) with false by lia.
  rewrite (Z.log2_unique a (L - 1)); [lia|lia|]. replace (Z.succ (L - 1)) with L by lia. exact H.
Qed.

Lemma bitlen_le a n : 0 < a < 2 ^ n -> 0 <= n -> bitlen a <= n.
Proof.
  intros H Hn. destruct (bitlen_spec a ltac:(lia)) as (H1 & H2 & H3).
  destruct (Z.le_gt_cases (bitlen a) n) as [|G]; [assumption|exfalso].
  assert (2 ^ n <= 2 ^ (bitlen a - 1)) by (apply Z.pow_le_mono_r; lia). lia.
Qed.

(* a normalised significand: a * 2^(53 - bitlen a) lies in [2^52, 2^53) *)
Lemma normalise a : 0 < a < 2 ^ 53 ->
  let L := bitlen a in
  1 <= L <= 53 /\ 2 ^ 52 <= a * 2 ^ (53 - L) < 2 ^ 53.
Proof.
  intros H L. destruct (bitlen_spec a ltac:(lia)) as (H1 & H2 & H3). fold L in H1, H2, H3.
  assert (HL : L <= 53) by (apply bitlen_le; lia).
  split; [lia|].
  assert (Hk : 0 < 2 ^ (53 - L)) by (apply Z.pow_pos_nonneg; lia).
  assert (E1 : 2 ^ (L - 1) * 2 ^ (53 - L) = 2 ^ 52).
  { rewrite <- Z.pow_add_r by lia. f_equal. lia. }
  assert (E2 : 2 ^ L * 2 ^ (53 - L) = 2 ^ 53).
  { rewrite <- Z.pow_add_r by lia. f_equal. lia. }
  split.
  - rewrite <- E1. apply Z.mul_le_mono_nonneg_r; lia.
  - rewrite <- E2. apply Z.mul_lt_mono_pos_r; lia.
Qed.

(* ---------- i128 -> f64 -> i128 is the identity below 2^53 ---------- *)
Theorem f64_int_round_trip z : Z.abs z < 2 ^ 53 -> f64_to_int (f64_of_int z) = z.
Proof.
  intros Hz. unfold f64_of_int, f64_of_mag.
  destruct (Z.eqb_spec (Z.abs z) 0) as [E0|E0].
  - assert (z = 0) by lia. subst z. reflexivity.
  - set (a := Z.abs z) in *. assert (Ha : 0 < a < 2 ^ 53) by (unfold a; lia).
    destruct (normalise a Ha) as (HL & HA). cbv zeta in HL, HA. cbv zeta.
    set (L := bitlen a) in *. replace (L <=? 53) with true by lia.
    set (A := a * 2 ^ (53 - L)) in *.
    destruct (f64_fields (z <? 0) (L + 1022) (A - 2 ^ 52) ltac:(lia) ltac:(rewrite p52, p53 in *; lia))
      as (Fp & Fe & Fm & Fs).
    set (p := f64_sign_bit (z <? 0) + (L + 1022) * 2 ^ 52 + (A - 2 ^ 52)) in *.
    unfold f64_to_int, f64_is_nan, f64_mant, f64_ex. rewrite Fe, Fm, Fs.
    replace (L + 1022 =? 2047) with false by lia. cbn [andb].
    replace (L + 1022 =? 0) with false by lia.
    replace (2 ^ 52 + (A - 2 ^ 52)) with A by lia.
    assert (Hmag : (if 0 <=? L + 1022 - 1075
                    then if 200 <? L + 1022 - 1075 then 2 ^ 200 else A * 2 ^ (L + 1022 - 1075)
                    else A / 2 ^ (- (L + 1022 - 1075))) = a).
    { destruct (Z.eq_dec L 53) as [E|E].
      - replace (0 <=? L + 1022 - 1075) with true by lia.
        replace (200 <? L + 1022 - 1075) with false by lia.
        replace (L + 1022 - 1075) with 0 by lia. unfold A. rewrite E. change (2 ^ (53 - 53)) with 1.
        change (2 ^ 0) with 1. lia.
      - replace (0 <=? L + 1022 - 1075) with false by lia.
        replace (- (L + 1022 - 1075)) with (53 - L) by lia. unfold A.
        apply Z.div_mul. assert (0 < 2 ^ (53 - L)) by (apply Z.pow_pos_nonneg; lia). lia. }
    rewrite Hmag. unfold i128_min, i128_max. rewrite two127_val. rewrite p53 in Ha.
    destruct (z <? 0) eqn:Es;
      repeat match goal with |- context [if ?b then _ else _] => destruct b eqn:? end; lia.
Qed.

(* ---------- f64::round of an integer-valued pattern ---------- *)
(* finite, and (below 2^52 in magnitude) the significand has no bits under the binary point *)
Definition f64_integral (p : Z) : Prop :=
  f64_exp p <> 2047 /\ (f64_exp p < 1075 -> f64_mant p mod 2 ^ (- f64_ex p) = 0).

Theorem f64_round_integral p : f64_pat p -> f64_integral p -> f64_round p = p.
Proof.
  intros Hp [Hfin Hint]. destruct (f64_decompose p Hp) as (Ep & He & Hm).
  unfold f64_round. replace (f64_exp p =? 2047) with false by lia.
  destruct (1075 <=? f64_exp p) eqn:E1; [reflexivity|].
  specialize (Hint ltac:(lia)). cbv zeta. rewrite Hint.
  unfold f64_mant, f64_ex in *.
  destruct (Z.eqb_spec (f64_exp p) 0) as [E0|E0].
  - (* zero (a subnormal is not integer-valued) *)
    change (- -1074) with 1074 in *.
    assert (Hsmall : f64_man p < 2 ^ 1074).
    { assert (2 ^ 52 <= 2 ^ 1074) by (apply Z.pow_le_mono_r; lia). lia. }
    rewrite Z.mod_small in Hint by lia. rewrite Hint.
    rewrite Z.div_0_l by (apply Z.pow_nonzero; lia).
    replace (2 ^ (1074 - 1) <=? 0) with false.
    2:{ assert (0 < 2 ^ (1074 - 1)) by (apply Z.pow_pos_nonneg; lia). lia. }
    unfold f64_of_mag. change (0 =? 0) with true. cbv iota.
    rewrite Ep at 2. rewrite E0, Hint. lia.
  - set (k := - (f64_exp p - 1075)) in *. assert (Hk : 1 <= k <= 1074) by (unfold k; lia).
    set (m := 2 ^ 52 + f64_man p) in *.
    assert (Hmr : 2 ^ 52 <= m < 2 ^ 53) by (unfold m; rewrite p52, p53 in *; lia).
    assert (Hpk : 0 < 2 ^ k) by (apply Z.pow_pos_nonneg; lia).
    assert (Hpk1 : 0 < 2 ^ (k - 1)) by (apply Z.pow_pos_nonneg; lia).
    replace (2 ^ (k - 1) <=? 0) with false by lia.
    set (q := m / 2 ^ k).
    assert (Eq : m = q * 2 ^ k).
    { unfold q. pose proof (Z.div_mod m (2 ^ k) ltac:(lia)) as D. rewrite Hint in D. lia. }
    assert (Hk52 : k <= 52).
    { destruct (Z.le_gt_cases k 52) as [|G]; [assumption|exfalso].
      assert (2 ^ 53 <= 2 ^ k) by (apply Z.pow_le_mono_r; lia).
      assert (q = 0) by (unfold q; apply Z.div_small; lia). rewrite H0 in Eq. rewrite p52 in Hmr. lia. }
    assert (E1' : 2 ^ (52 - k) * 2 ^ k = 2 ^ 52) by (rewrite <- Z.pow_add_r by lia; f_equal; lia).
    assert (E2' : 2 ^ (53 - k) * 2 ^ k = 2 ^ 53) by (rewrite <- Z.pow_add_r by lia; f_equal; lia).
    assert (Hq : 2 ^ (52 - k) <= q < 2 ^ (53 - k)).
    { split.
      - apply (Z.mul_le_mono_pos_r _ _ (2 ^ k) Hpk). rewrite E1', <- Eq. lia.
      - apply (Z.mul_lt_mono_pos_r (2 ^ k) _ _ Hpk). rewrite E2', <- Eq. lia. }
    assert (HL : bitlen q = 53 - k).
    { apply bitlen_unique; [lia|]. replace (53 - k - 1) with (52 - k) by lia. exact Hq. }
    assert (Hq0 : 0 < q).
    { assert (0 < 2 ^ (52 - k)) by (apply Z.pow_pos_nonneg; lia). lia. }
    unfold f64_of_mag. replace (q =? 0) with false by lia. cbv zeta. rewrite HL.
    replace (53 - k <=? 53) with true by lia.
    replace (53 - (53 - k)) with k by lia. rewrite <- Eq.
    rewrite Ep at 2. unfold m, k. lia.
Qed.

(* ---------- f32 -> f64 -> f32 is the identity on non-NaN patterns ---------- *)
Lemma q23 : 2 ^ 23 = 8388608. Proof. reflexivity. Qed.
Lemma q24 : 2 ^ 24 = 16777216. Proof. reflexivity. Qed.
Lemma q29 : 2 ^ 29 = 536870912. Proof. reflexivity. Qed.
Lemma q31 : 2 ^ 31 = 2147483648. Proof. reflexivity. Qed.
Lemma q32 : 2 ^ 32 = 4294967296. Proof. reflexivity. Qed.

Definition f32_pat (p : Z) : Prop := 0 <= p < 2 ^ 32.
Definition f32_is_nan (p : Z) : bool := ((p / 2 ^ 23) mod 256 =? 255) && negb (p mod 2 ^ 23 =? 0).

Lemma testbit31 p : f32_pat p -> Z.testbit p 31 = (2 ^ 31 <=? p).
Proof.
  unfold f32_pat. intros H. rewrite q32 in H. rewrite q31.
  destruct (Z.testbit p 31) eqn:E.
  - apply Z.testbit_true in E; [|lia]. rewrite q31 in E. lia.
  - apply Z.testbit_false in E; [|lia]. rewrite q31 in E. lia.
Qed.

Lemma f32_decompose p : f32_pat p ->
  p = f32_sign_bit (Z.testbit p 31) + ((p / 2 ^ 23) mod 256) * 2 ^ 23 + p mod 2 ^ 23 /\
  0 <= (p / 2 ^ 23) mod 256 < 256 /\ 0 <= p mod 2 ^ 23 < 2 ^ 23.
Proof.
  intros Hp. rewrite testbit31 by exact Hp. unfold f32_pat, f32_sign_bit in *.
  rewrite q31, q23 in *. rewrite q32 in Hp. destruct (2147483648 <=? p) eqn:E; lia.
Qed.

Lemma rne_shr_exact q k : 0 < k -> 0 <= q -> rne_shr (q * 2 ^ k) k = q.
Proof.
  intros Hk Hq. unfold rne_shr. replace (k <=? 0) with false by lia. cbv zeta.
  assert (Hp : 0 < 2 ^ k) by (apply Z.pow_pos_nonneg; lia).
  assert (Hh : 0 < 2 ^ (k - 1)) by (apply Z.pow_pos_nonneg; lia).
  rewrite Z.div_mul by lia. rewrite Z.mod_mul by lia.
  replace (2 ^ (k - 1) <? 0) with false by lia.
  replace (0 =? 2 ^ (k - 1)) with false by lia. reflexivity.
Qed.

Theorem f32_f64_round_trip p : f32_pat p -> f32_is_nan p = false -> f64_to_f32 (f32_to_f64 p) = p.
Proof.
  intros Hp Hnan. destruct (f32_decompose p Hp) as (Ep & He & Hm).
  unfold f32_is_nan in Hnan. unfold f32_to_f64. cbv zeta.
  set (s := Z.testbit p 31) in *. set (e := (p / 2 ^ 23) mod 256) in *. set (m := p mod 2 ^ 23) in *.
  assert (Hs32 : f32_sign_bit s = if s then 2 ^ 31 else 0) by reflexivity.
  destruct (Z.eqb_spec e 255) as [E255|E255].
  - (* infinity *)
    assert (Hm0 : m = 0) by (destruct (Z.eqb_spec m 0); [assumption|discriminate]).
    rewrite Hm0. change (0 =? 0) with true. cbv iota.
    replace (f64_sign_bit s + 2047 * 2 ^ 52) with (f64_sign_bit s + 2047 * 2 ^ 52 + 0) by lia.
    destruct (f64_fields s 2047 0 ltac:(lia) ltac:(rewrite p52; lia)) as (_ & Fe & Fm & Fs).
    unfold f64_to_f32, f64_is_nan. cbv zeta. rewrite Fe, Fm, Fs. cbn [andb negb].
    change (2047 =? 2047) with true. change (0 =? 0) with true. cbn [andb negb].
    rewrite q23 in *. lia.
  - destruct (Z.eqb_spec e 0) as [E0|E0].
    + destruct (Z.eqb_spec m 0) as [Hm0|Hm0].
      * (* zero *)
        replace (f64_sign_bit s) with (f64_sign_bit s + 0 * 2 ^ 52 + 0) by lia.
        destruct (f64_fields s 0 0 ltac:(lia) ltac:(rewrite p52; lia)) as (_ & Fe & Fm & Fs).
        unfold f64_to_f32, f64_is_nan, f64_mant. cbv zeta. rewrite Fe, Fm, Fs.
        change (0 =? 2047) with false. change (0 =? 0) with true. cbn [andb negb]. cbv iota.
        change (0 =? 0) with true. cbv iota.
        rewrite q23 in *. lia.
      * (* subnormal binary32: a normal binary64 *)
        assert (Hm53 : 0 < m < 2 ^ 53) by (rewrite q23 in Hm; rewrite p53; lia).
        destruct (normalise m Hm53) as (HL & HA). cbv zeta in HL, HA.
        set (L := bitlen m) in *.
        assert (HL23 : L <= 23) by (apply bitlen_le; lia).
        set (A := m * 2 ^ (53 - L)) in *.
        destruct (f64_fields s (L + 873) (A - 2 ^ 52) ltac:(lia) ltac:(rewrite p52, p53 in *; lia))
          as (_ & Fe & Fm & Fs).
        unfold f64_to_f32, f64_is_nan, f64_mant, f64_ex. cbv zeta. rewrite Fe, Fm, Fs.
        replace (L + 873 =? 2047) with false by lia. cbn [andb].
        replace (L + 873 =? 0) with false by lia.
        replace (2 ^ 52 + (A - 2 ^ 52)) with A by lia.
        replace (A =? 0) with false by (rewrite p52 in HA; lia).
        assert (HbA : bitlen A = 53) by (apply bitlen_unique; [lia|exact HA]).
        rewrite HbA.
        replace (53 - 1 + (L + 873 - 1075) <? -126) with true by lia.
        replace (- (L + 873 - 1075 + 149)) with (53 - L) by lia.
        unfold A. rewrite rne_shr_exact by lia.
        rewrite q23 in *. lia.
    + (* normal *)
      assert (Hm52 : 0 <= m * 2 ^ 29 < 2 ^ 52) by (rewrite q23 in Hm; rewrite q29, p52; lia).
      destruct (f64_fields s (e + 896) (m * 2 ^ 29) ltac:(lia) Hm52) as (_ & Fe & Fm & Fs).
      unfold f64_to_f32, f64_is_nan, f64_mant, f64_ex. cbv zeta. rewrite Fe, Fm, Fs.
      replace (e + 896 =? 2047) with false by lia. cbn [andb].
      replace (e + 896 =? 0) with false by lia.
      set (M := 2 ^ 52 + m * 2 ^ 29).
      assert (HM : 2 ^ 52 <= M < 2 ^ 53) by (unfold M; rewrite p52, p53 in *; lia).
      replace (M =? 0) with false by (rewrite p52 in HM; lia).
      assert (HbM : bitlen M = 53) by (apply bitlen_unique; [lia|exact HM]).
      rewrite HbM.
      replace (53 - 1 + (e + 896 - 1075) <? -126) with false by lia.
      replace (- (e + 896 - 1075 - (53 - 1 + (e + 896 - 1075) - 23))) with 29 by lia.
      assert (EM : M = (2 ^ 23 + m) * 2 ^ 29).
      { unfold M. rewrite p52, q23, q29. lia. }
      rewrite EM, rne_shr_exact by (rewrite ?q23; lia).
      replace (2 ^ 23 + m =? 2 ^ 24) with false by (rewrite q23, q24 in *; lia).
      cbv beta iota.
      replace (127 <? 53 - 1 + (e + 896 - 1075)) with false by lia.
      rewrite q23 in *. lia.
Qed.

(* hence the widening conversion is injective on non-NaN patterns *)
Theorem f32_to_f64_injective p q : f32_pat p -> f32_pat q -> f32_is_nan p = false -> f32_is_nan q = false ->
  f32_to_f64 p = f32_to_f64 q -> p = q.
Proof.
  intros Hp Hq Np Nq E. rewrite <- (f32_f64_round_trip p Hp Np), <- (f32_f64_round_trip q Hq Nq), E.
  reflexivity.
Qed.

(* ---------- i128 -> f64 is monotone (in the order of the magnitude key) ---------- *)
(* the significand field before packing: in [2^52, 2^53] (2^53 when rounding carries) *)
Definition sig_of (a : Z) : Z :=
  let L := bitlen a in if L <=? 53 then a * 2 ^ (53 - L) else rne_shr a (L - 53).
Definition mag_pat (a : Z) : Z := if a =? 0 then 0 else (bitlen a + 1021) * 2 ^ 52 + sig_of a.

Lemma f64_of_mag_pat s a : f64_of_mag s a = f64_sign_bit s + mag_pat a.
Proof.
  unfold f64_of_mag, mag_pat, sig_of. cbv zeta. destruct (a =? 0); [lia|].
  destruct (bitlen a <=? 53); [lia|].
  destruct (Z.eqb_spec (rne_shr a (bitlen a - 53)) (2 ^ 53)) as [->|]; rewrite ?p52, ?p53; lia.
Qed.

Lemma rne_shr_bounds a k : 0 <= a -> 0 < k -> a / 2 ^ k <= rne_shr a k <= a / 2 ^ k + 1.
Proof.
  intros Ha Hk. unfold rne_shr. replace (k <=? 0) with false by lia. cbv zeta.
  destruct ((2 ^ (k - 1) <? a mod 2 ^ k) || ((a mod 2 ^ k =? 2 ^ (k - 1)) && Z.odd (a / 2 ^ k))); lia.
Qed.

Lemma rne_shr_mono a1 a2 k : 0 <= a1 <= a2 -> 0 < k -> rne_shr a1 k <= rne_shr a2 k.
Proof.
  intros Ha Hk.
  assert (Hd : 0 < 2 ^ k) by (apply Z.pow_pos_nonneg; lia).
  pose proof (Z.div_le_mono a1 a2 (2 ^ k) Hd ltac:(lia)) as Hq.
  destruct (Z.eq_dec (a1 / 2 ^ k) (a2 / 2 ^ k)) as [E|E].
  - pose proof (Z.div_mod a1 (2 ^ k) ltac:(lia)) as D1. pose proof (Z.div_mod a2 (2 ^ k) ltac:(lia)) as D2.
    assert (Hr : a1 mod 2 ^ k <= a2 mod 2 ^ k) by (rewrite E in D1; lia).
    unfold rne_shr. replace (k <=? 0) with false by lia. cbv zeta. rewrite E.
    set (q := a2 / 2 ^ k) in *. set (r1 := a1 mod 2 ^ k) in *. set (r2 := a2 mod 2 ^ k) in *.
    set (h := 2 ^ (k - 1)) in *.
    destruct (Z.odd q); rewrite ?Bool.andb_true_r, ?Bool.andb_false_r, ?Bool.orb_false_r;
      repeat match goal with |- context [if ?b then _ else _] => destruct b eqn:? end; lia.
  - pose proof (rne_shr_bounds a1 k ltac:(lia) Hk). pose proof (rne_shr_bounds a2 k ltac:(lia) Hk). lia.
Qed.

Lemma sig_of_range a : 0 < a -> 2 ^ 52 <= sig_of a <= 2 ^ 53.
Proof.
  intros Ha. unfold sig_of. cbv zeta. destruct (bitlen_spec a Ha) as (H1 & H2 & H3).
  set (L := bitlen a) in *. destruct (Z.leb_spec L 53) as [HL|HL].
  - assert (a < 2 ^ 53).
    { assert (2 ^ L <= 2 ^ 53) by (apply Z.pow_le_mono_r; lia). lia. }
    destruct (normalise a ltac:(lia)) as (_ & HA). cbv zeta in HA. fold L in HA. lia.
  - set (k := L - 53). assert (Hk : 0 < k) by (unfold k; lia).
    assert (Hd : 0 < 2 ^ k) by (apply Z.pow_pos_nonneg; lia).
    assert (E1 : 2 ^ 52 * 2 ^ k = 2 ^ (L - 1)) by (rewrite <- Z.pow_add_r by lia; f_equal; unfold k; lia).
    assert (E2 : 2 ^ 53 * 2 ^ k = 2 ^ L) by (rewrite <- Z.pow_add_r by lia; f_equal; unfold k; lia).
    assert (Hq : 2 ^ 52 <= a / 2 ^ k < 2 ^ 53).
    { split.
      - apply Z.div_le_lower_bound; [lia|]. rewrite Z.mul_comm, E1. lia.
      - apply Z.div_lt_upper_bound; [lia|]. rewrite Z.mul_comm, E2. lia. }
    pose proof (rne_shr_bounds a k ltac:(lia) Hk). lia.
Qed.

Lemma bitlen_mono a1 a2 : 0 < a1 <= a2 -> bitlen a1 <= bitlen a2.
Proof.
  intros H. unfold bitlen. replace (a1 <=? 0) with false by lia. replace (a2 <=? 0) with false by lia.
  pose proof (Z.log2_le_mono a1 a2 ltac:(lia)). lia.
Qed.

Lemma mag_pat_mono a1 a2 : 0 <= a1 <= a2 -> mag_pat a1 <= mag_pat a2.
Proof.
  intros H. unfold mag_pat.
  destruct (Z.eqb_spec a1 0) as [E1|E1].
  - destruct (Z.eqb_spec a2 0) as [E2|E2]; [lia|].
    pose proof (sig_of_range a2 ltac:(lia)). destruct (bitlen_spec a2 ltac:(lia)) as (? & _).
    rewrite p52 in *. lia.
  - replace (a2 =? 0) with false by lia.
    pose proof (sig_of_range a1 ltac:(lia)) as R1. pose proof (sig_of_range a2 ltac:(lia)) as R2.
    pose proof (bitlen_mono a1 a2 ltac:(lia)) as HL.
    destruct (Z.eq_dec (bitlen a1) (bitlen a2)) as [EL|EL].
    + rewrite EL. apply Z.add_le_mono_l. unfold sig_of. cbv zeta. rewrite EL.
      destruct (Z.leb_spec (bitlen a2) 53) as [H53|H53].
      * apply Z.mul_le_mono_nonneg_r; [|lia]. apply Z.pow_nonneg. lia.
      * apply rne_shr_mono; lia.
    + rewrite p52, p53 in *. lia.
Qed.

Lemma mag_pat_bound a : 0 <= a < 2 ^ 128 -> 0 <= mag_pat a < 2 ^ 63.
Proof.
  intros H. unfold mag_pat. destruct (Z.eqb_spec a 0) as [E|E]; [rewrite p63; lia|].
  pose proof (sig_of_range a ltac:(lia)) as R. destruct (bitlen_spec a ltac:(lia)) as (H1 & _).
  pose proof (bitlen_le a 128 ltac:(lia) ltac:(lia)). rewrite p52, p53, p63 in *. lia.
Qed.

Lemma f64_key_of_mag s a : 0 <= a < 2 ^ 128 ->
  f64_key (f64_of_mag s a) = if s then - mag_pat a else mag_pat a.
Proof.
  intros H. rewrite f64_of_mag_pat. pose proof (mag_pat_bound a H) as B.
  set (M := mag_pat a) in *. unfold f64_key, f64_neg.
  assert (Hp : 0 <= f64_sign_bit s + M < 2 ^ 64).
  { unfold f64_sign_bit. rewrite p63 in *. rewrite p64. destruct s; lia. }
  rewrite testbit63 by exact Hp. unfold f64_sign_bit. rewrite p63 in *.
  destruct s; repeat match goal with |- context [if ?b then _ else _] => destruct b eqn:? end; lia.
Qed.

Theorem f64_of_int_monotone z1 z2 :
  Z.abs z1 < 2 ^ 128 -> Z.abs z2 < 2 ^ 128 -> z1 <= z2 ->
  f64_key (f64_of_int z1) <= f64_key (f64_of_int z2).
Proof.
  intros H1 H2 Hle. unfold f64_of_int. rewrite !f64_key_of_mag by lia.
  pose proof (mag_pat_bound (Z.abs z1) ltac:(lia)) as B1.
  pose proof (mag_pat_bound (Z.abs z2) ltac:(lia)) as B2.
  destruct (z1 <? 0) eqn:E1, (z2 <? 0) eqn:E2.
  - pose proof (mag_pat_mono (Z.abs z2) (Z.abs z1) ltac:(lia)). lia.
  - lia.
  - lia.
  - pose proof (mag_pat_mono (Z.abs z1) (Z.abs z2) ltac:(lia)). lia.
Qed.

(* in particular for every i128 *)
Corollary f64_of_int_monotone_i128 z1 z2 :
  in_i128 z1 = true -> in_i128 z2 = true -> z1 <= z2 ->
  f64_key (f64_of_int z1) <= f64_key (f64_of_int z2).
Proof.
  intros H1 H2. apply f64_of_int_monotone.
  - change (2 ^ 128) with 340282366920938463463374607431768211456. i128; lia.
  - change (2 ^ 128) with 340282366920938463463374607431768211456. i128; lia.
Qed.
