(* UnwindSimBuild.v (C15): building a source in eval mode and in compile mode proceeds in
   lockstep.  The two builds differ only in the context opened for the source ([tE] with mode
   MEval on one side, [tC] = the same marks with mode MCompile and another ds_len on the
   other); that context is the current one until a meta block is opened and sits in the
   nested list, below the meta contexts, while meta blocks are open.  [okc] is this relation,
   [rp P] says that program P maps related states to related results with the same value. *)
From Xeh Require Import Model.Prelude Model.Bits Model.Codec Model.Cell Model.Lexer Model.Fmt
                        Model.Vm Model.Words Model.Build.
From Xeh Require Import Proofs.VmFrame Proofs.VmLimits Proofs.NoPanic Proofs.NoPanicBuild
                        Proofs.UnwindLists Proofs.UnwindFrame Proofs.UnwindInv Proofs.UnwindBuild
                        Proofs.UnwindIrr Proofs.UnwindSimVm.
Local Notation length := List.length.

#[local] Arguments Z.add : simpl never.
#[local] Arguments Z.sub : simpl never.
#[local] Arguments Z.mul : simpl never.
#[local] Arguments Z.ltb : simpl never.
#[local] Arguments Z.leb : simpl never.
#[local] Arguments Z.eqb : simpl never.
#[local] Arguments Z.of_nat : simpl never.
#[local] Arguments Z.to_nat : simpl never.

Create HintDb rpdb.

(* the state [t] with the mode and ds_len of its context and its nested list replaced *)
Definition wc (t : state) (md : mode) (dl : nat) (n' : list ctx) : state :=
  set_nested (set_cx t (mkctx dl (cs_len (cx t)) (rs_len (cx t)) (fs_len (cx t)) (ls_len (cx t))
                              (ss_ptr (cx t)) (di_len (cx t)) (cip (cx t)) md)) n'.

Ltac sim_cbv :=
  cbv [wc res_map res_all
       set_code set_dbg set_dict set_flows set_cx set_nested set_input set_last_tok set_sources
       set_heap set_ds set_rs set_loops set_special set_meter set_rlog set_out set_stopping
       dict heap code dbg sources input ds rs flows loops special cx nested meter insn_limit
       heap_limit stack_limit rlog out last_tok stopping
       ds_len cs_len rs_len fs_len ls_len ss_ptr di_len cip cmode].

Section Sim.
  Variable tE : ctx.          (* the context of the eval-mode build *)
  Variable dlC : nat.         (* the ds_len of the compile-mode one *)
  Variable base0 : list ctx.  (* the contexts below it *)
  Hypothesis HtE : cmode tE = MEval.

  Definition tC : ctx :=
    mkctx dlC (cs_len tE) (rs_len tE) (fs_len tE) (ls_len tE) (ss_ptr tE) (di_len tE) (cip tE) MCompile.

  Definition okc (t : state) (md : mode) (dl : nat) (n' : list ctx) : Prop :=
    (cx t = tE /\ nested t = base0 /\ md = MCompile /\ dl = dlC /\ n' = base0) \/
    (cmode (cx t) = MMeta /\ md = MMeta /\ dl = ds_len (cx t) /\
     exists ups, Forall (fun c => cmode c = MMeta) ups /\
                 nested t = ups ++ tE :: base0 /\ n' = ups ++ tC :: base0).

  Definition rel_st (s s' : state) : Prop := exists md dl n', okc s md dl n' /\ s' = wc s md dl n'.

  Definition rres {A} (r r' : res A) : Prop :=
    match r, r' with
    | ROk a s, ROk a' s' => a = a' /\ rel_st s s'
    | RErr k p s, RErr k' p' s' => k = k' /\ p = p' /\ rel_st s s'
    | RPanic, RPanic => True
    | RUnsup, RUnsup => True
    | _, _ => False
    end.

  Definition rp {A} (P : M A) : Prop :=
    forall t md dl n', okc t md dl n' -> rres (P t) (P (wc t md dl n')).

  Lemma okc_mode t md dl n' : okc t md dl n' -> mode_eqb md MMeta = mode_eqb (cmode (cx t)) MMeta.
  Proof.
    intros [(E1 & _ & -> & _)|(E1 & -> & _)].
    - rewrite E1, HtE. reflexivity.
    - rewrite E1. reflexivity.
  Qed.

  Lemma okc_keep t s md dl n' : cx s = cx t -> nested s = nested t -> okc t md dl n' -> okc s md dl n'.
  Proof. unfold okc. intros -> ->. auto. Qed.

  (* programs that neither read the mode (except through the MMeta test) or ds_len, nor
     touch the context and the nested list *)
  Lemma rp_keep A (P : M A) :
    (forall t md dl n', mode_eqb md MMeta = mode_eqb (cmode (cx t)) MMeta ->
        P (wc t md dl n') = res_map (fun s => wc s md dl n') (P t)) ->
    (forall t, res_all (fun s => cx s = cx t /\ nested s = nested t) (P t)) ->
    rp P.
  Proof.
    intros H1 H2 t md dl n' Ho. rewrite (H1 t md dl n' (okc_mode _ _ _ _ Ho)). specialize (H2 t).
    destruct (P t) as [a s|k p s| |]; cbn [res_map rres res_all] in *; auto;
      destruct H2 as [Ec En]; repeat split;
      (exists md, dl, n'; split; [eapply okc_keep; eauto|reflexivity]).
  Qed.

  (* ---------- combinators ---------- *)
  Lemma rp_ret A (a : A) : rp (ret a).
  Proof. intros t md dl n' H. cbn. split; [reflexivity|]. exists md, dl, n'. auto. Qed.
  Lemma rp_fail A k p : rp (@fail A k p).
  Proof. intros t md dl n' H. cbn. repeat split. exists md, dl, n'. auto. Qed.
  Lemma rp_unsup A : rp (@unsup A).
  Proof. intros t md dl n' H. exact I. Qed.
  Lemma rp_panic A : rp (@panic A).
  Proof. intros t md dl n' H. exact I. Qed.
  Lemma rp_bind A B (P : M A) (f : A -> M B) : rp P -> (forall a, rp (f a)) -> rp (bind P f).
  Proof.
    intros HP Hf t md dl n' Ho. unfold bind. specialize (HP t md dl n' Ho).
    destruct (P t) as [a s|k p s| |]; destruct (P (wc t md dl n')) as [a' s'|k' p' s'| |];
      cbn [rres] in *; try contradiction; auto.
    destruct HP as [<- (md1 & dl1 & n1 & Ho1 & ->)]. apply Hf. exact Ho1.
  Qed.
  Lemma rp_get_bind B (k : state -> M B) :
    (forall s0 md dl n' s, k (wc s0 md dl n') s = k s0 s) ->
    (forall s0, rp (k s0)) -> rp (bind get k).
  Proof. intros H1 H2 t md dl n' Ho. unfold bind, get. rewrite H1. apply H2. exact Ho. Qed.

  (* ---------- primitives of the builder ---------- *)
  Ltac keep_prim :=
    apply rp_keep;
    [ let t := fresh "t" in let Hmode := fresh "Hmode" in
      intros t ? ? ? Hmode; destruct_state t; match goal with c : ctx |- _ => destruct c end;
      cbv [cmode cx] in Hmode;
      cbv [code_emit backpatch backpatch_jump push_flow pop_flow take_first_cond_flow dict_insert
           intern_source alloc_heap modify ret fail limit_reached pending has_pending_flow];
      sim_cbv; try rewrite Hmode; break_matches; reflexivity
    | let t := fresh "t" in
      intros t; destruct_state t;
      cbv [code_emit backpatch backpatch_jump push_flow pop_flow take_first_cond_flow dict_insert
           intern_source alloc_heap modify ret fail limit_reached pending has_pending_flow];
      sim_cbv; break_matches; auto ].

  Lemma rp_code_emit op : rp (code_emit op).
  Proof. keep_prim. Qed.
  Lemma rp_backpatch pos op : rp (backpatch pos op).
  Proof. keep_prim. Qed.
  Lemma rp_backpatch_jump pos offs : rp (backpatch_jump pos offs).
  Proof. keep_prim. Qed.
  Lemma rp_push_flow f : rp (push_flow f).
  Proof. keep_prim. Qed.
  Lemma rp_pop_flow : rp pop_flow.
  Proof. keep_prim. Qed.
  Lemma rp_take_first_cond_flow : rp take_first_cond_flow.
  Proof. keep_prim. Qed.
  Lemma rp_dict_insert name e : rp (dict_insert name e).
  Proof. keep_prim. Qed.
  Lemma rp_intern_source buf : rp (intern_source buf).
  Proof. keep_prim. Qed.
  Lemma rp_alloc_heap v : rp (alloc_heap v).
  Proof. keep_prim. Qed.

  (* ---------- tokens ---------- *)
  Section Tok.
    Variable pr : string -> option Z.

    Lemma next_token_wc : forall fuel t md dl n',
      next_token pr fuel (wc t md dl n') = res_map (fun s => wc s md dl n') (next_token pr fuel t).
    Proof.
      induction fuel as [|f IH]; intros t md dl n'; cbn [next_token]; [reflexivity|].
      change (input (wc t md dl n')) with (input t).
      destruct (input t) as [|il rest]; [reflexivity|]. cbv zeta.
      destruct (lex_next_nonws _ _) as [tk l'].
      destruct tk; try reflexivity.
      - apply (IH (set_input (set_last_tok (set_input t (mkinlex (in_src il) l' :: rest))
                                           (Some (in_src il, lstart l', lpos l'))) rest)).
      - destruct (pr text); reflexivity.
    Qed.

    Lemma next_token_ctx : forall fuel t,
      res_all (fun s => cx s = cx t /\ nested s = nested t) (next_token pr fuel t).
    Proof.
      induction fuel as [|f IH]; intros t; cbn [next_token]; [exact I|].
      destruct (input t) as [|il rest]; [split; reflexivity|]. cbv zeta.
      destruct (lex_next_nonws _ _) as [tk l'].
      destruct tk; try exact I; try (split; reflexivity).
      - match goal with |- context [next_token pr f ?x] => specialize (IH x); destruct (next_token pr f x) end;
          cbn [res_all] in *; auto.
      - destruct (pr text); split; reflexivity.
    Qed.

    Lemma rp_get_token : rp (get_token pr).
    Proof.
      apply rp_keep.
      - intros t md dl n' _. unfold get_token. apply next_token_wc.
      - intros t. apply next_token_ctx.
    Qed.

    Lemma rp_next_name : rp (next_name pr).
    Proof.
      apply rp_keep.
      - intros t md dl n' _. unfold next_name. cbv zeta. unfold get_token.
        change (tok_fuel (wc t md dl n')) with (tok_fuel t). rewrite next_token_wc.
        change (last_tok (wc t md dl n')) with (last_tok t).
        destruct (next_token pr (tok_fuel t) t) as [tk s1|k p s1| |]; cbn [res_map]; try reflexivity.
        destruct tk; try reflexivity; destruct (last_tok t); reflexivity.
      - intros t. unfold next_name. cbv zeta. pose proof (next_token_ctx (tok_fuel t) t) as H.
        unfold get_token. destruct (next_token pr (tok_fuel t) t) as [tk s1|k p s1| |]; cbn [res_all] in *; auto.
        destruct tk; cbn [res_all]; auto; destruct (last_tok t); cbn; auto.
    Qed.
  End Tok.

  (* ---------- the tactic ---------- *)
  Ltac rp_prim :=
    lazymatch goal with
    | |- rp (ret _) => apply rp_ret
    | |- rp (fail _ _) => apply rp_fail
    | |- rp unsup => apply rp_unsup
    | |- rp panic => apply rp_panic
    | |- rp (code_emit _) => apply rp_code_emit
    | |- rp (backpatch _ _) => apply rp_backpatch
    | |- rp (backpatch_jump _ _) => apply rp_backpatch_jump
    | |- rp (push_flow _) => apply rp_push_flow
    | |- rp pop_flow => apply rp_pop_flow
    | |- rp take_first_cond_flow => apply rp_take_first_cond_flow
    | |- rp (dict_insert _ _) => apply rp_dict_insert
    | |- rp (alloc_heap _) => apply rp_alloc_heap
    | |- rp (intern_source _) => apply rp_intern_source
    | |- rp (get_token _) => apply rp_get_token
    | |- rp (next_name _) => apply rp_next_name
    end.

  Ltac rp_step :=
    cbv beta zeta;
    first
      [ rp_prim
      | solve [ auto 2 with rpdb nocore ]
      | lazymatch goal with
        | |- rp (bind get _) => apply rp_get_bind; [ intros; reflexivity | intro ]
        | |- rp (bind _ _) => apply rp_bind; [ | intro ]
        | |- rp (match ?x with _ => _ end) => destruct x
        | |- rp ?w => let h := head_of w in unfold h
        end ].

  Ltac rp_solve := repeat rp_step.

  Section Imm.
    Variable pr : string -> option Z.

    Lemma rp_emit_native w : rp (emit_native w).
    Proof. rp_solve. Qed.
    Lemma rp_code_emit_value v : rp (code_emit_value v).
    Proof. rp_solve. Qed.
    Lemma rp_i_if : rp (i_if). Proof. rp_solve. Qed.
    Lemma rp_i_else : rp (i_else). Proof. rp_solve. Qed.
    Lemma rp_i_then : rp (i_then). Proof. rp_solve. Qed.
    Lemma rp_i_case : rp (i_case). Proof. rp_solve. Qed.
    Lemma rp_endcase_loop : forall fuel org, rp (endcase_loop fuel org).
    Proof. induction fuel as [|f IH]; intros org; cbn [endcase_loop]; rp_solve. Qed.
    Lemma rp_i_endcase : rp (i_endcase).
    Proof. pose proof rp_endcase_loop. rp_solve. Qed.
    Lemma rp_i_of : rp (i_of). Proof. rp_solve. Qed.
    Lemma rp_i_endof : rp (i_endof). Proof. rp_solve. Qed.
    Lemma rp_i_begin : rp (i_begin). Proof. rp_solve. Qed.
    Lemma rp_i_until : rp (i_until). Proof. rp_solve. Qed.
    Lemma rp_i_while : rp (i_while). Proof. rp_solve. Qed.
    Lemma rp_repeat_loop : forall fuel, rp (repeat_loop fuel).
    Proof. induction fuel as [|f IH]; cbn [repeat_loop]; rp_solve. Qed.
    Lemma rp_i_repeat : rp (i_repeat).
    Proof. pose proof rp_repeat_loop. rp_solve. Qed.
    Lemma rp_i_break : rp (i_break). Proof. rp_solve. Qed.
    Lemma rp_i_open f w : rp (i_open f w). Proof. rp_solve. Qed.
    Lemma rp_i_close g w : rp (i_close g w). Proof. rp_solve. Qed.
    Lemma rp_i_def_begin : rp (i_def_begin pr). Proof. rp_solve. Qed.
    Lemma rp_i_late : rp (i_late pr). Proof. rp_solve. Qed.
    Lemma rp_i_setvar : rp (i_setvar pr). Proof. rp_solve. Qed.
    Lemma rp_i_do : rp (i_do). Proof. rp_solve. Qed.
    Lemma rp_loop_loop : forall fuel lo st, rp (loop_loop fuel lo st).
    Proof. induction fuel as [|f IH]; intros lo st; cbn [loop_loop]; rp_solve. Qed.
    Lemma rp_i_loop : rp (i_loop).
    Proof. pose proof rp_loop_loop. rp_solve. Qed.
    Lemma rp_i_foreach : rp (i_foreach).
    Proof. pose proof rp_i_do. pose proof rp_emit_native. rp_solve. Qed.
    Lemma rp_i_defined : rp (i_defined pr).
    Proof. pose proof rp_code_emit_value. rp_solve. Qed.
    Lemma rp_i_set_fmt_base n : rp (i_set_fmt_base n).
    Proof. pose proof rp_code_emit_value. pose proof rp_emit_native. rp_solve. Qed.
    Lemma rp_build_global_variable name : rp (build_global_variable name).
    Proof. rp_solve. Qed.
    Lemma rp_i_var : rp (i_var pr).
    Proof. pose proof rp_build_global_variable. rp_solve. Qed.
  End Imm.

  (* ---------- programs with [put] ---------- *)
  Ltac keep_unfold :=
    apply rp_keep;
    [ let t := fresh "t" in
      intros t ? ? ? _;
      cbv [bind get put fail ret panic code_emit backpatch_jump backpatch modify top_function_flow pending];
      cbn [wc set_nested set_cx set_dict set_flows set_code set_dbg dict flows code dbg cx last_tok
           fs_len res_map];
      break_matches; reflexivity
    | let t := fresh "t" in
      intros t;
      cbv [bind get put fail ret panic code_emit backpatch_jump backpatch modify top_function_flow pending];
      break_matches; cbn [res_all set_dict set_flows set_code set_dbg cx nested]; auto ].

  Lemma rp_i_immediate : rp (i_immediate).
  Proof. unfold i_immediate. keep_unfold. Qed.

  Lemma rp_def_end_tail dict_idx start :
    rp (let* s := get in
        let offs := jump_offset start (code_origin s) in
        let fun_len := (code_origin s - start - 1)%nat in
        match nth_error (dict s) dict_idx with
        | None => fail EInternal None
        | Some _ =>
          match set_dict_len (dict s) dict_idx fun_len with
          | Some d' => put (set_dict s d') ;; backpatch_jump start offs
          | None => panic
          end
        end).
  Proof. cbv zeta. unfold code_origin. keep_unfold. Qed.

  Lemma rp_i_def_end : rp (i_def_end).
  Proof.
    unfold i_def_end. apply rp_bind; [apply rp_pop_flow|intros fl].
    destruct fl as [f|]; [|rp_solve]. destruct f; try (rp_solve; fail).
    apply rp_bind; [apply rp_code_emit|intros _]. apply rp_def_end_tail.
  Qed.

  Lemma rp_build_local_variable name : rp (build_local_variable name).
  Proof. unfold build_local_variable. keep_unfold. Qed.

  Section Imm2.
    Variable pr : string -> option Z.
    Lemma rp_i_local : rp (i_local pr).
    Proof. pose proof rp_build_local_variable. rp_solve. Qed.
  End Imm2.

  (* ---------- let ---------- *)
  Section Let.
    Variable pr : string -> option Z.
    Lemma rp_build_let_named w : rp (build_let_named w).
    Proof. pose proof rp_build_local_variable. pose proof rp_build_global_variable. rp_solve. Qed.
    Lemma rp_build_let_match v : rp (build_let_match v).
    Proof. pose proof rp_code_emit_value. pose proof rp_emit_native. rp_solve. Qed.
    Lemma rp_let_vec_next i : rp (let_vec_next i).
    Proof. pose proof rp_code_emit_value. pose proof rp_emit_native. rp_solve. Qed.

    Lemma rp_build_let : forall f,
      rp (build_let_in pr f) /\ rp (build_let_tags pr f) /\ rp (build_let_map pr f) /\
      (forall i, rp (build_let_vec pr f i)).
    Proof.
      induction f as [|f (IHin & IHtags & IHmap & IHvec)].
      - repeat split; intros; apply rp_unsup.
      - assert (Hmap : rp (build_let_map pr (S f))).
        { rewrite build_let_map_S. apply rp_bind; [apply rp_emit_native|intros _].
          generalize (S f) as k. induction k as [|k IHk]; cbn [let_map_go]; [apply rp_unsup|].
          fold (let_map_go pr f) in *.
          pose proof rp_emit_native. pose proof rp_code_emit_value.
          rp_solve. }
        assert (Hvec : forall i, rp (build_let_vec pr (S f) i)).
        { intros i. rewrite build_let_vec_S. revert i.
          generalize (S f) as k. induction k as [|k IHk]; intros i; cbn [let_vec_go]; [apply rp_unsup|].
          fold (let_vec_go pr f) in *.
          pose proof rp_emit_native. pose proof rp_code_emit_value. pose proof rp_let_vec_next.
          pose proof rp_build_let_named. pose proof rp_build_let_match.
          rp_solve. }
        assert (Htags : rp (build_let_tags pr (S f))).
        { cbn [build_let_tags]. pose proof rp_emit_native. pose proof rp_build_let_named. rp_solve. }
        assert (Hin : rp (build_let_in pr (S f))).
        { cbn [build_let_in]. pose proof rp_emit_native. pose proof rp_build_let_named.
          pose proof rp_build_let_match. rp_solve. }
        repeat split; assumption.
    Qed.

    Lemma rp_build_let_in f : rp (build_let_in pr f).
    Proof. exact (proj1 (rp_build_let f)). Qed.
  End Let.

  (* ---------- meta mode ---------- *)
  Definition rpm {A} (P : M A) : Prop :=
    forall t md dl n', okc t md dl n' -> cmode (cx t) = MMeta -> rres (P t) (P (wc t md dl n')).

  Lemma okc_meta t md dl n' : okc t md dl n' -> cmode (cx t) = MMeta ->
    md = MMeta /\ dl = ds_len (cx t) /\
    exists ups, Forall (fun c => cmode c = MMeta) ups /\
                nested t = ups ++ tE :: base0 /\ n' = ups ++ tC :: base0.
  Proof.
    intros [(E1 & _)|(_ & H)] Hm; [|exact H]. rewrite E1, HtE in Hm. discriminate.
  Qed.

  Lemma wc_meta t n' : cmode (cx t) = MMeta -> wc t MMeta (ds_len (cx t)) n' = set_nested t n'.
  Proof. destruct t as [? ? ? ? ? ? ? ? ? ? ? c ? ? ? ? ? ? ? ? ?]. destruct c. cbn. intros ->. reflexivity. Qed.

  Lemma chg_same t n' : chg t (cs_len (cx t)) (fs_len (cx t)) (di_len (cx t)) n' = set_nested t n'.
  Proof. destruct t as [? ? ? ? ? ? ? ? ? ? ? c ? ? ? ? ? ? ? ? ?]. destruct c. reflexivity. Qed.

  Lemma okc_meta_intro t ups : cmode (cx t) = MMeta -> Forall (fun c => cmode c = MMeta) ups ->
    nested t = ups ++ tE :: base0 -> rel_st t (set_nested t (ups ++ tC :: base0)).
  Proof.
    intros Hm F E. exists MMeta, (ds_len (cx t)), (ups ++ tC :: base0). split.
    - right. repeat split; try assumption. exists ups. repeat split; assumption.
    - symmetry. apply wc_meta. exact Hm.
  Qed.

  (* a program that does not read the nested list and moves only the ip of the context *)
  Lemma rpm_nested A (P : M A) :
    (forall s n', P (set_nested s n') = res_map (fun r => set_nested r n') (P s)) ->
    (forall s, res_all (frame_rel s) (P s)) -> rpm P.
  Proof.
    intros H1 H2 t md dl n' Ho Hm.
    destruct (okc_meta _ _ _ _ Ho Hm) as (-> & -> & ups & F & E1 & ->).
    rewrite (wc_meta t _ Hm), H1. specialize (H2 t).
    assert (K : forall s, frame_rel t s -> rel_st s (set_nested s (ups ++ tC :: base0))).
    { intros s FR. destruct FR as (_ & _ & _ & A4 & _ & _ & _ & _ & _ & _ & A11 & _).
      apply okc_meta_intro; [rewrite A11; exact Hm|exact F|congruence]. }
    destruct (P t) as [a s|k p s| |]; cbn [res_map rres res_all] in *; auto.
  Qed.

  Lemma chg_frame s r n' : frame_rel s r ->
    chg r (cs_len (cx s)) (fs_len (cx s)) (di_len (cx s)) n' = set_nested r n'.
  Proof.
    intros FR. destruct FR as (_ & _ & _ & _ & _ & _ & _ & _ & _ & _ & A11 & _).
    rewrite <- (chg_same r n'). rewrite A11. reflexivity.
  Qed.

  Lemma nested_indep A (P : M A) :
    (forall s cs fs di n', P (chg s cs fs di n') = res_map (fun r => chg r cs fs di n') (P s)) ->
    (forall s, res_all (frame_rel s) (P s)) ->
    forall s n', P (set_nested s n') = res_map (fun r => set_nested r n') (P s).
  Proof.
    intros H1 H2 s n'. rewrite <- (chg_same s n'), H1. specialize (H2 s).
    destruct (P s) as [a r|k p r| |]; cbn [res_map res_all] in *; try reflexivity;
      rewrite (chg_frame _ _ _ H2); reflexivity.
  Qed.

  Lemma rpm_wx A (P : M A) : wx P -> wl P -> rpm P.
  Proof.
    intros HX HL. apply rpm_nested; [apply nested_indep|]; try apply wx_chg; try apply wl_frame; assumption.
  Qed.

  Section Meta.
    Variable fo : fops.
    Variable rf : nat.

    Lemma run_m_nested s n' : run_m fo rf (set_nested s n') = res_map (fun r => set_nested r n') (run_m fo rf s).
    Proof.
      apply (nested_indep unit (run_m fo rf)).
      - intros. apply run_m_chg.
      - apply run_m_frame.
    Qed.

    Lemma rpm_run_m : rpm (run_m fo rf).
    Proof. apply rpm_nested; [apply run_m_nested|apply run_m_frame]. Qed.

    (* context_open MMeta *)
    Lemma rp_context_open_meta : rp (context_open MMeta).
    Proof.
      intros t md dl n' Ho. unfold context_open. cbv zeta. cbn [rres].
      split; [reflexivity|].
      destruct Ho as [(E1 & E2 & -> & -> & ->)|(Hm & -> & -> & ups & F & E1 & ->)].
      - (* from the source level *)
        cbn [wc set_nested set_cx cx cmode mode_eqb ds_len ds code rs flows loops special dict nested code_origin].
        rewrite E1, HtE. cbn [mode_eqb].
        match goal with |- rel_st ?a ?b2 => set (sE := a) end.
        exists MMeta, (ds_len (cx sE)), ([] ++ tC :: base0). split.
        + right. subst sE. cbn [set_nested set_cx cx nested cmode ds_len]. repeat split.
          exists []. repeat split; [constructor|]. cbn [app]. rewrite E2. reflexivity.
        + subst sE. unfold wc. cbn [set_nested set_cx cx nested cmode ds_len cs_len rs_len fs_len ls_len ss_ptr di_len cip app].
          rewrite E2. reflexivity.
      - (* from a meta block *)
        rewrite (wc_meta t _ Hm).
        cbn [set_nested set_cx cx cmode mode_eqb ds_len ds code rs flows loops special dict nested code_origin].
        match goal with |- rel_st ?a ?b2 => set (sE := a) end.
        exists MMeta, (ds_len (cx sE)), ((cx t :: ups) ++ tC :: base0). split.
        + right. subst sE. cbn [set_nested set_cx cx nested cmode ds_len]. repeat split.
          exists (cx t :: ups). repeat split; [constructor; assumption|]. cbn [app]. rewrite E1. reflexivity.
        + subst sE. unfold wc. cbn [set_nested set_cx cx nested cmode ds_len cs_len rs_len fs_len ls_len ss_ptr di_len cip app].
          reflexivity.
    Qed.
  End Meta.

  Section Close.
    Variable fo : fops.
    Variable rf : nat.

    Lemma pop_data_nested s n' : pop_data (set_nested s n') = res_map (fun r => set_nested r n') (pop_data s).
    Proof.
      destruct_state s. cbv [pop_data add_rstep set_nested set_ds set_rlog res_map ds cx rlog].
      break_matches; reflexivity.
    Qed.

    Lemma code_emit_nested op s n' : code_emit op (set_nested s n') = res_map (fun r => set_nested r n') (code_emit op s).
    Proof.
      destruct_state s. cbv [code_emit set_nested set_code set_dbg res_map code dbg last_tok].
      break_matches; reflexivity.
    Qed.

    Lemma emit_results_nested : forall fuel s n',
      emit_results fuel (set_nested s n') = res_map (fun r => set_nested r n') (emit_results fuel s).
    Proof.
      induction fuel as [|f IH]; intros s n'; cbn [emit_results]; [reflexivity|].
      change (cx (set_nested s n')) with (cx s). change (ds (set_nested s n')) with (ds s).
      destruct (ds_len (cx s) <? length (ds s))%nat; [|reflexivity].
      rewrite pop_data_nested. destruct (pop_data s) as [v s1|k p s1| |]; cbn [res_map]; try reflexivity.
      unfold code_emit_value. rewrite code_emit_nested.
      destruct (code_emit (load_value_opcode v) s1) as [u s2|k p s2| |]; cbn [res_map]; try reflexivity.
      apply IH.
    Qed.

    Lemma emit_results_keeps : forall fuel s,
      res_all (fun r => cx r = cx s /\ nested r = nested s) (emit_results fuel s).
    Proof.
      induction fuel as [|f IH]; intros s; cbn [emit_results]; [split; reflexivity|].
      destruct (ds_len (cx s) <? length (ds s))%nat; [|split; reflexivity].
      unfold pop_data. destruct (ds s) as [|c r]; [split; reflexivity|].
      destruct (ds_len (cx s) <? length (c :: r))%nat; [|split; reflexivity].
      destruct (add_rstep_fields (RPushData c) (set_ds s r)) as (_ & _ & _ & _ & _ & _ & _ & _ & _ & Ec & En).
      unfold code_emit_value, code_emit. cbv zeta.
      match goal with |- context [if ?b then _ else _] => destruct b end.
      - match goal with |- context [emit_results f ?x] => specialize (IH x); destruct (emit_results f x) end;
          cbn [res_all] in *; auto; cbn [set_code set_dbg cx nested] in IH; rewrite Ec, En in IH; exact IH.
      - match goal with |- context [if ?b then _ else _] => destruct b end; [|exact I].
        match goal with |- context [emit_results f ?x] => specialize (IH x); destruct (emit_results f x) end;
          cbn [res_all] in *; auto; cbn [set_code set_dbg cx nested] in IH; rewrite Ec, En in IH; exact IH.
    Qed.

    Lemma emit_results_no_err : forall fuel s,
      match emit_results fuel s with RErr _ _ _ => False | _ => True end.
    Proof.
      induction fuel as [|f IH]; intros s; cbn [emit_results]; [exact I|].
      destruct (ds_len (cx s) <? length (ds s))%nat eqn:E; [|exact I].
      unfold pop_data. destruct (ds s) as [|c r]; [apply Nat.ltb_lt in E; cbn [length] in E; lia|].
      rewrite E. unfold code_emit_value, code_emit. cbv zeta.
      match goal with |- context [if ?b then _ else _] => destruct b end; [apply IH|].
      match goal with |- context [if ?b then _ else _] => destruct b end; [apply IH|exact I].
    Qed.

    Lemma close_meta_rel t md dl n' : okc t md dl n' -> cmode (cx t) = MMeta -> is_running t = false ->
      rres (context_close fo rf t) (context_close fo rf (wc t md dl n')).
    Proof.
      intros Ho Hm Hr. destruct (okc_meta _ _ _ _ Ho Hm) as (-> & -> & ups & F & E1 & ->).
      rewrite (wc_meta t _ Hm). unfold context_close.
      cbn [set_nested nested]. rewrite E1.
      (* the two previous contexts and the two rests *)
      assert (X : exists prev rest prev' rest',
                 ups ++ tE :: base0 = prev :: rest /\ ups ++ tC :: base0 = prev' :: rest' /\
                 fs_len prev' = fs_len prev /\
                 mode_eqb (cmode prev') MMeta = mode_eqb (cmode prev) MMeta /\
                 forall s4, nested s4 = rest -> rel_st (set_cx s4 prev) (set_cx (set_nested s4 rest') prev')).
      { destruct ups as [|u ups']; cbn [app].
        - exists tE, base0, tC, base0. repeat split; [cbn; rewrite HtE; reflexivity|].
          intros s4 N4. exists MCompile, dlC, base0. split.
          + left. cbn [set_cx cx nested]. repeat split. exact N4.
          + reflexivity.
        - exists u, (ups' ++ tE :: base0), u, (ups' ++ tC :: base0). repeat split.
          intros s4 N4. inversion F as [|? ? Hu F']; subst.
          assert (Hmu : cmode (cx (set_cx s4 u)) = MMeta) by exact Hu.
          pose proof (okc_meta_intro (set_cx s4 u) ups' Hmu F' N4) as R. exact R. }
      destruct X as (prev & rest & prev' & rest' & -> & -> & Xf & Xm & Xfin).
      cbv zeta. cbn [set_nested cx]. rewrite Hm.
      assert (RS : forall s, is_running s = false ->
                   run_m fo rf s = match rf with O => RUnsup | S _ => ROk tt s end).
      { intros s Hs. unfold run_m. destruct rf as [|f]; cbn [run]; [reflexivity|]. rewrite Hs. reflexivity. }
      rewrite (RS (set_nested t rest) Hr), (RS (set_nested (set_nested t (prev' :: rest')) rest') Hr).
      destruct rf as [|f]; [exact I|].
      cbn [set_nested set_code set_dbg set_dict cx code dbg dict flows ds].
      rewrite Xf, Xm.
      match goal with |- context [emit_results ?n ?x] => set (fuel := n); set (s3 := x) end.
      match goal with |- context [emit_results fuel ?y] =>
        lazymatch y with s3 => fail | _ => change y with (set_nested s3 rest') end end.
      match goal with |- context [if ?c then _ else _] => destruct c end.
      - rewrite emit_results_nested. pose proof (emit_results_keeps fuel s3) as K.
        destruct (emit_results fuel s3) as [u s4|k p s4| |] eqn:E4; cbn [res_map rres res_all] in *; auto.
        + split; [reflexivity|]. apply Xfin. rewrite (proj2 K). reflexivity.
        + pose proof (emit_results_no_err fuel s3) as NE. rewrite E4 in NE. contradiction.
      - cbn [rres]. split; [reflexivity|]. apply Xfin. reflexivity.
    Qed.

    (* the same without the hypothesis that the block has run all its code *)
    Lemma close_meta_rel_gen t md dl n' : okc t md dl n' -> cmode (cx t) = MMeta ->
      rres (context_close fo rf t) (context_close fo rf (wc t md dl n')).
    Proof.
      intros Ho Hm. destruct (okc_meta _ _ _ _ Ho Hm) as (-> & -> & ups & F & E1 & ->).
      rewrite (wc_meta t _ Hm). unfold context_close.
      cbn [set_nested nested]. rewrite E1.
      assert (X : exists prev rest prev' rest',
                 ups ++ tE :: base0 = prev :: rest /\ ups ++ tC :: base0 = prev' :: rest' /\
                 fs_len prev' = fs_len prev /\
                 mode_eqb (cmode prev') MMeta = mode_eqb (cmode prev) MMeta /\
                 (forall s4, nested s4 = rest -> rel_st (set_cx s4 prev) (set_cx (set_nested s4 rest') prev')) /\
                 (forall s1, cmode (cx s1) = MMeta ->
                    rel_st (set_nested s1 (prev :: rest)) (set_nested s1 (prev' :: rest')))).
      { assert (XE : forall s1, cmode (cx s1) = MMeta ->
                  rel_st (set_nested s1 (ups ++ tE :: base0)) (set_nested s1 (ups ++ tC :: base0))).
        { intros s1 M1. exact (okc_meta_intro (set_nested s1 (ups ++ tE :: base0)) ups M1 F eq_refl). }
        destruct ups as [|u ups']; cbn [app] in *.
        - exists tE, base0, tC, base0. repeat split; [cbn; rewrite HtE; reflexivity| |exact XE].
          intros s4 N4. exists MCompile, dlC, base0. split.
          + left. cbn [set_cx cx nested]. repeat split. exact N4.
          + reflexivity.
        - exists u, (ups' ++ tE :: base0), u, (ups' ++ tC :: base0). repeat split; [|exact XE].
          intros s4 N4. inversion F as [|? ? Hu F']; subst.
          assert (Hmu : cmode (cx (set_cx s4 u)) = MMeta) by exact Hu.
          pose proof (okc_meta_intro (set_cx s4 u) ups' Hmu F' N4) as R. exact R. }
      destruct X as (prev & rest & prev' & rest' & -> & -> & Xf & Xm & Xfin & Xerr).
      cbv zeta. cbn [set_nested cx]. rewrite Hm.
      change (set_nested (set_nested t (prev' :: rest')) rest') with (set_nested (set_nested t rest) rest').
      rewrite (run_m_nested fo rf (set_nested t rest) rest').
      pose proof (run_m_frame fo rf (set_nested t rest)) as FR.
      destruct (run_m fo rf (set_nested t rest)) as [u s1|k p s1| |]; cbn [res_map res_all] in *; try exact I.
      - assert (N1 : nested s1 = rest) by (destruct FR as (_ & _ & _ & A4 & _); exact A4).
        cbn [set_nested set_code set_dbg set_dict cx code dbg dict flows ds].
        rewrite Xf, Xm.
        match goal with |- context [emit_results ?n ?x] => set (fuel := n); set (s3 := x) end.
        match goal with |- context [emit_results fuel ?y] =>
          lazymatch y with s3 => fail | _ => change y with (set_nested s3 rest') end end.
        match goal with |- context [if ?c then _ else _] => destruct c end.
        + rewrite emit_results_nested. pose proof (emit_results_keeps fuel s3) as K.
          destruct (emit_results fuel s3) as [u4 s4|k p s4| |] eqn:E4; cbn [res_map rres res_all] in *; auto.
          * split; [reflexivity|]. apply Xfin. rewrite (proj2 K). exact N1.
          * pose proof (emit_results_no_err fuel s3) as NE. rewrite E4 in NE. contradiction.
        + cbn [rres]. split; [reflexivity|]. apply Xfin. exact N1.
      - assert (N1 : nested s1 = rest) by (destruct FR as (_ & _ & _ & A4 & _); exact A4).
        assert (M1 : cmode (cx s1) = MMeta).
        { destruct FR as (_ & _ & _ & _ & _ & _ & _ & _ & _ & _ & A11 & _). rewrite A11.
          cbn [set_nested cx]. destruct (cx t); exact Hm. }
        cbn [rres]. repeat split. rewrite N1. exact (Xerr s1 M1).
    Qed.
  End Close.

  (* ---------- the words that leave a meta block, and const ---------- *)
  Section Words.
    Variable fo : fops.
    Variable pr : string -> option Z.
    Variable rf : nat.

    Lemma bind_get B (k : state -> M B) s : (let* x := get in k x) s = k s s.
    Proof. reflexivity. Qed.
    Lemma bind_eq A B (P : M A) (f : A -> M B) s :
      bind P f s = match P s with ROk a s' => f a s' | RErr k p s' => RErr k p s' | RPanic => RPanic | RUnsup => RUnsup end.
    Proof. reflexivity. Qed.

    Lemma rel_st_intro t md dl n' : okc t md dl n' -> rel_st t (wc t md dl n').
    Proof. intros H. exists md, dl, n'. auto. Qed.

    Lemma i_nested_end_rel t md dl n' : okc t md dl n' -> quiet t ->
      rres (i_nested_end fo rf t) (i_nested_end fo rf (wc t md dl n')).
    Proof.
      intros Ho Q. unfold i_nested_end, bind, get.
      change (cmode (cx (wc t md dl n'))) with md. rewrite (okc_mode _ _ _ _ Ho).
      change (has_pending_flow (wc t md dl n')) with (has_pending_flow t).
      destruct (mode_eqb (cmode (cx t)) MMeta) eqn:E; cbn [negb];
        [|cbn; repeat split; apply rel_st_intro; exact Ho].
      apply mode_eqb_meta in E.
      destruct (has_pending_flow t) eqn:P; [cbn; repeat split; apply rel_st_intro; exact Ho|].
      apply close_meta_rel; auto.
    Qed.

    Lemma wx_vec_collect p : wx (vec_collect_till_ptr p).
    Proof. wx_solve. Qed.

    Lemma i_nested_inject_rel t md dl n' : okc t md dl n' -> quiet t ->
      rres (i_nested_inject fo rf t) (i_nested_inject fo rf (wc t md dl n')).
    Proof.
      intros Ho Q. unfold i_nested_inject. rewrite !bind_get.
      change (cmode (cx (wc t md dl n'))) with md. rewrite (okc_mode _ _ _ _ Ho).
      change (has_pending_flow (wc t md dl n')) with (has_pending_flow t).
      destruct (mode_eqb (cmode (cx t)) MMeta) eqn:E; cbn [negb];
        [|cbn; repeat split; apply rel_st_intro; exact Ho].
      apply mode_eqb_meta in E.
      destruct (has_pending_flow t) eqn:P; [cbn; repeat split; apply rel_st_intro; exact Ho|].
      specialize (Q E P).
      change (ds_len (cx (wc t md dl n'))) with dl.
      destruct (okc_meta _ _ _ _ Ho E) as (Emd & Edl & _). rewrite Edl.
      rewrite !(bind_eq _ _ (vec_collect_till_ptr (ds_len (cx t)))).
      pose proof (rpm_wx _ _ (wx_vec_collect (ds_len (cx t))) (wl_vec_collect (ds_len (cx t))) t md dl n' Ho E) as X.
      rewrite Edl in X.
      pose proof (vec_collect_keeps (ds_len (cx t)) t) as Y.
      destruct (vec_collect_till_ptr (ds_len (cx t)) t) as [v t1|k p t1| |];
        destruct (vec_collect_till_ptr (ds_len (cx t)) (wc t md (ds_len (cx t)) n')) as [v' t1'|k' p' t1'| |];
        cbn [rres res_all] in *; try contradiction; auto.
      destruct X as [<- (md1 & dl1 & n1 & Ho1 & ->)]. destruct Y as [Y1 Y2].
      rewrite !(bind_eq _ _ (join_str_vec _ _)).
      unfold join_str_vec. destruct (join_cells 40 (Some " "%string) v); [|exact I].
      unfold ret. rewrite !(bind_eq _ _ (context_close fo rf)).
      assert (R1 : is_running t1 = false).
      { unfold is_running, ip in *. rewrite Y1, Y2. exact Q. }
      assert (M1 : cmode (cx t1) = MMeta) by (rewrite Y1; exact E).
      pose proof (close_meta_rel fo rf t1 md1 dl1 n1 Ho1 M1 R1) as Z.
      destruct (context_close fo rf t1) as [u t2|k p t2| |];
        destruct (context_close fo rf (wc t1 md1 dl1 n1)) as [u' t2'|k' p' t2'| |];
        cbn [rres] in *; try contradiction; auto.
      destruct Z as [_ (md2 & dl2 & n2 & Ho2 & ->)].
      apply rp_intern_source. exact Ho2.
    Qed.

    Lemma i_const_rel : rp (i_const pr).
    Proof.
      intros t md dl n' Ho. unfold i_const. rewrite !(bind_eq _ _ (next_name pr)).
      pose proof (rp_next_name pr t md dl n' Ho) as X.
      destruct (next_name pr t) as [n t1|k p t1| |];
        destruct (next_name pr (wc t md dl n')) as [n1 t1'|k' p' t1'| |];
        cbn [rres] in *; try contradiction; auto.
      destruct X as [<- (md1 & dl1 & n1' & Ho1 & ->)].
      rewrite !bind_get.
      change (cmode (cx (wc t1 md1 dl1 n1'))) with md1. rewrite (okc_mode _ _ _ _ Ho1).
      destruct (mode_eqb (cmode (cx t1)) MMeta) eqn:E; cbn [negb];
        [|cbn; repeat split; apply rel_st_intro; exact Ho1].
      apply mode_eqb_meta in E.
      rewrite !(bind_eq _ _ pop_data).
      pose proof (rpm_wx _ _ wx_pop_data wl_pop_data t1 md1 dl1 n1' Ho1 E) as X.
      destruct (pop_data t1) as [v t2|k p t2| |];
        destruct (pop_data (wc t1 md1 dl1 n1')) as [v' t2'|k' p' t2'| |];
        cbn [rres] in *; try contradiction; auto.
      destruct X as [<- (md2 & dl2 & n2 & Ho2 & ->)].
      assert (Y : rp (let* s1 := get in
                      match dict_pos s1 n with
                      | Some pos =>
                        match nth_error (dict s1) pos with
                        | Some e => match dent e with
                                    | DConst _ => put (set_dict s1 (list_set (dict s1) pos (mkdent (dname e) (DConst v))))
                                    | _ => fail EConst None
                                    end
                        | None => fail EInternal None
                        end
                      | None => let* _ := dict_insert n (DConst v) in ret tt
                      end)).
      { apply rp_keep.
        - intros s ? ? ? _. cbv [bind get put fail ret dict_insert dict_pos].
          cbn [wc set_nested set_cx set_dict dict res_map]. break_matches; reflexivity.
        - intros s. cbv [bind get put fail ret dict_insert dict_pos].
          break_matches; cbn [res_all set_dict cx nested]; auto. }
      apply Y. exact Ho2.
    Qed.

    (* ---------- enum ---------- *)
    Lemma rp_i_enum : rp (i_enum pr).
    Proof.
      pose proof (rp_context_open_meta) as HO. unfold i_enum, def_immediate, i_nested_begin.
      repeat first [ apply HO | rp_step ].
    Qed.

    Lemma rp_enum_add_field nm val : rp (enum_add_field nm val).
    Proof.
      intros t md dl n' Ho. unfold enum_add_field. rewrite !bind_get.
      change (flows (wc t md dl n')) with (flows t).
      destruct (flows t) as [|f r]; [apply rp_fail; exact Ho|].
      destruct f; try (apply rp_fail; exact Ho).
      destruct (val fields) as [v|]; [|apply rp_fail; exact Ho].
      cbv zeta. unfold bind at 1 3. unfold put.
      match goal with |- rres (?P ?a) (?P ?b2) => change b2 with (wc a md dl n') end.
      assert (X : rp (let* _ := dict_insert nm (DConst (CInt v)) in i_nested_begin)).
      { apply rp_bind; [apply rp_dict_insert|intros _]. apply rp_context_open_meta. }
      apply X. eapply okc_keep; [..|exact Ho]; reflexivity.
    Qed.

    Lemma i_enum_field_rel t md dl n' : okc t md dl n' -> quiet t ->
      rres (i_enum_field fo pr rf t) (i_enum_field fo pr rf (wc t md dl n')).
    Proof.
      intros Ho Q. unfold i_enum_field. rewrite !(bind_eq _ _ (i_nested_end fo rf)).
      pose proof (i_nested_end_rel t md dl n' Ho Q) as X.
      destruct (i_nested_end fo rf t) as [u t1|k p t1| |];
        destruct (i_nested_end fo rf (wc t md dl n')) as [u' t1'|k' p' t1'| |];
        cbn [rres] in *; try contradiction; auto.
      destruct X as [_ (md1 & dl1 & n1 & Ho1 & ->)].
      assert (Y : rp (let* sn := next_name pr in enum_add_field sn enum_next_value)).
      { apply rp_bind; [apply rp_next_name|intros sn]. apply rp_enum_add_field. }
      apply Y. exact Ho1.
    Qed.

    Lemma i_enum_field_set_rel t md dl n' : okc t md dl n' -> quiet t -> enum_field_bad fo rf t = false ->
      rres (i_enum_field_set fo pr rf t) (i_enum_field_set fo pr rf (wc t md dl n')).
    Proof.
      intros Ho Q EB. unfold i_enum_field_set. rewrite !(bind_eq _ _ (i_nested_end fo rf)).
      unfold enum_field_bad in EB.
      pose proof (i_nested_end_rel t md dl n' Ho Q) as X.
      destruct (i_nested_end fo rf t) as [u t1|k p t1| |];
        destruct (i_nested_end fo rf (wc t md dl n')) as [u' t1'|k' p' t1'| |];
        cbn [rres] in *; try contradiction; auto.
      destruct X as [_ (md1 & dl1 & n1 & Ho1 & ->)].
      apply negb_false_iff, andb_true_iff in EB. destruct EB as [_ E]. apply mode_eqb_meta in E.
      rewrite !(bind_eq _ _ pop_data).
      pose proof (rpm_wx _ _ wx_pop_data wl_pop_data t1 md1 dl1 n1 Ho1 E) as X.
      destruct (pop_data t1) as [v t2|k p t2| |];
        destruct (pop_data (wc t1 md1 dl1 n1)) as [v' t2'|k' p' t2'| |];
        cbn [rres] in *; try contradiction; auto.
      destruct X as [<- (md2 & dl2 & n2 & Ho2 & ->)].
      assert (Y : rp (let* z := m_xint v in let* sn := next_name pr in enum_add_field sn (fun _ => Some z))).
      { apply rp_bind; [unfold m_xint; destruct (value v); first [apply rp_ret|apply rp_fail]|intros z].
        apply rp_bind; [apply rp_next_name|intros sn]. apply rp_enum_add_field. }
      apply Y. exact Ho2.
    Qed.

    Lemma i_nested_end_rel_gen t md dl n' : okc t md dl n' ->
      rres (i_nested_end fo rf t) (i_nested_end fo rf (wc t md dl n')).
    Proof.
      intros Ho. unfold i_nested_end, bind, get.
      change (cmode (cx (wc t md dl n'))) with md. rewrite (okc_mode _ _ _ _ Ho).
      change (has_pending_flow (wc t md dl n')) with (has_pending_flow t).
      destruct (mode_eqb (cmode (cx t)) MMeta) eqn:E; cbn [negb];
        [|cbn; repeat split; apply rel_st_intro; exact Ho].
      apply mode_eqb_meta in E.
      destruct (has_pending_flow t) eqn:P; [cbn; repeat split; apply rel_st_intro; exact Ho|].
      apply close_meta_rel_gen; auto.
    Qed.

    Lemma i_endenum_rel t md dl n' : okc t md dl n' -> quiet t -> enum_close_bad fo rf t = false ->
      rres (i_endenum fo rf t) (i_endenum fo rf (wc t md dl n')).
    Proof.
      intros Ho Q EB. unfold i_endenum. rewrite !(bind_eq _ _ (i_nested_end fo rf)).
      unfold enum_close_bad in EB.
      pose proof (i_nested_end_rel t md dl n' Ho Q) as X.
      destruct (i_nested_end fo rf t) as [u t1|k p t1| |];
        destruct (i_nested_end fo rf (wc t md dl n')) as [u' t1'|k' p' t1'| |];
        cbn [rres] in *; try contradiction; auto.
      destruct X as [_ (md1 & dl1 & n1 & Ho1 & ->)].
      pose proof EB as E. apply negb_false_iff, mode_eqb_meta in E.
      rewrite !bind_get.
      destruct (okc_meta _ _ _ _ Ho1 E) as (Emd & Edl & _).
      assert (ED : data_depth (wc t1 md1 dl1 n1) = data_depth t1).
      { unfold data_depth. change (ds (wc t1 md1 dl1 n1)) with (ds t1).
        change (ds_len (cx (wc t1 md1 dl1 n1))) with dl1. rewrite Edl. reflexivity. }
      rewrite ED.
      destruct (0 <? data_depth t1)%nat; [cbn; repeat split; apply rel_st_intro; exact Ho1|].
      rewrite !(bind_eq _ _ pop_flow).
      pose proof (rp_pop_flow t1 md1 dl1 n1 Ho1) as X.
      destruct (pop_flow t1) as [fl t2|k p t2| |];
        destruct (pop_flow (wc t1 md1 dl1 n1)) as [fl' t2'|k' p' t2'| |];
        cbn [rres] in *; try contradiction; auto.
      destruct X as [<- (md2 & dl2 & n2 & Ho2 & ->)].
      destruct fl as [f|]; [|cbn; repeat split; apply rel_st_intro; exact Ho2].
      destruct f; try (cbn; repeat split; apply rel_st_intro; exact Ho2).
      apply i_nested_end_rel_gen. exact Ho2.
    Qed.

    (* ---------- the table ---------- *)
    Definition rp_word (name : string) (w : M unit) : Prop :=
      forall t md dl n', okc t md dl n' -> quiet t -> native_bad fo pr rf 0 name t = false ->
        rres (w t) (w (wc t md dl n')).

    Lemma rp_word_of name w : rp w -> rp_word name w.
    Proof. intros H t md dl n' Ho _ _. apply H. exact Ho. Qed.

    Lemma rp_immediate_fn : forall fuel name w, immediate_fn fo pr rf fuel name = Some w -> rp_word name w.
    Proof.
      intros fuel name w H. unfold immediate_fn in H. cbv zeta in H.
      eapply table_find_Forall2 with (P := rp_word); [|exact H].
      pose proof (rp_build_let_in pr fuel) as HL.
      pose proof rp_emit_native as HE.
      pose proof rp_i_set_fmt_base as HB.
      repeat (apply Forall_cons;
              [ cbn [fst snd];
                first [ apply rp_word_of;
                        first [ assumption | apply HE | apply HB | apply rp_code_emit
                              | apply rp_i_if | apply rp_i_else | apply rp_i_then | apply rp_i_case
                              | apply rp_i_of | apply rp_i_endof | apply rp_i_endcase | apply rp_i_begin
                              | apply rp_i_while | apply rp_i_until | apply rp_i_break | apply rp_i_repeat
                              | apply rp_i_open | apply rp_i_close
                              | apply rp_i_def_begin | apply rp_i_def_end | apply rp_i_late
                              | apply rp_i_immediate | apply rp_i_local | apply rp_i_var | apply rp_i_setvar
                              | apply rp_context_open_meta | apply rp_i_do | apply rp_i_loop
                              | apply rp_i_foreach | apply rp_i_defined | apply i_const_rel | apply rp_i_enum ]
                      | (intros t md dl n' Ho Q _; apply i_nested_end_rel; assumption)
                      | (intros t md dl n' Ho Q _; apply i_nested_inject_rel; assumption)
                      | (intros t md dl n' Ho Q _; apply i_enum_field_rel; assumption)
                      | (intros t md dl n' Ho Q C; apply i_enum_field_set_rel; [assumption | assumption | exact (proj2 (orb_false_elim _ _ C))])
                      | (intros t md dl n' Ho Q C; apply i_endenum_rel; [assumption | assumption | exact (proj2 (orb_false_elim _ _ (proj1 (orb_false_elim _ _ C))))]) ]
              | ]).
      apply Forall_nil.
    Qed.
  End Words.
End Sim.
