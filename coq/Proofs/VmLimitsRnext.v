(* VmLimitsRnext.v: reverse steps and the stack limit (finding D41).  The inverse of a pop pushes directly: a reverse
   step taken after the limit was lowered restores items above it.  Machine-checked witness on the faithful model. *)
From Xeh Require Import Model.Prelude Model.Bits Model.Cell Model.Lexer Model.Vm Model.Words Model.Build Model.Boot.
From Xeh Require Import Proofs.VmRev.
Local Notation length := List.length.

Definition c14r_start : state :=
  match compile cex_fo (fun _ => None) 1000 1000 "1 2 3 drop drop"%string (set_rlog boot (Some [])) with
  | ROk _ s => s | _ => boot end.
Definition c14r_ran : state := match steps (native_fn cex_fo) 5 c14r_start with Some s => s | None => boot end.
Definition c14r_limited : state := set_limits c14r_ran (insn_limit c14r_ran) (heap_limit c14r_ran) (Some 1%Z).
Definition c14r_back : state := match rnext c14r_limited with ROk _ s => s | _ => boot end.

Lemma c14r_facts :
  recording c14r_limited = true /\ length (ds c14r_limited) = 1 /\ stack_limit c14r_limited = Some 1%Z /\
  rnext c14r_limited = ROk tt c14r_back /\ length (ds c14r_back) = 2 /\
  option_map (fun s => length (ds s)) (rnexts 2 c14r_limited) = Some 3.
Proof. vm_compute. repeat split. Qed.

Lemma rnext_respects_stack_limit_refuted :
  ~ (forall s s' S, stack_limit s = Some S -> rnext s = ROk tt s' ->
       (Z.of_nat (length (ds s')) <= Z.max S (Z.of_nat (length (ds s))))%Z).
Proof.
  intro H. destruct c14r_facts as (_ & L1 & SL & E & L2 & _).
  specialize (H c14r_limited c14r_back 1%Z SL E). rewrite L1, L2 in H. vm_compute in H. apply H. reflexivity.
Qed.

(* what does hold: a reverse step never changes the limits, so forward execution afterwards is bounded again by
   max(limit, size at that moment) - the forward theorems of C14 apply from the state reached *)
Lemma rnext_keeps_limits_example :
  stack_limit c14r_back = stack_limit c14r_limited /\ insn_limit c14r_back = insn_limit c14r_limited /\
  heap_limit c14r_back = heap_limit c14r_limited /\ meter c14r_back = meter c14r_limited.
Proof. vm_compute. repeat split. Qed.
