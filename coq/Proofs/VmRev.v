(* VmRev.v: one backward step undoes one forward step (C02). *)
From Xeh Require Import Model.Prelude Model.Bits Model.Codec Model.Cell Model.Lexer Model.Fmt Model.Vm Model.Words.
From Xeh Require Import Proofs.VmRevBase Proofs.VmRevWords.
Local Notation length := List.length.

(* ---------- the shape of one instruction ---------- *)
(* logged changes, then exactly one set_ip / next_ip; a failure leaves logged changes only *)
Definition stepshape (k : nat) (m : M unit) : Prop :=
  forall s, recording s = true -> wf_marks s ->
    match m s with
    | ROk _ s' => exists s2 n, R k s s2 /\ stopping s2 = stopping s /\
                               s' = set_ip_raw (add_rstep (RSetIp (ip s2)) s2) n
    | RErr _ _ s' => R k s s'
    | _ => True
    end.

Lemma ss_weaken k k' m : stepshape k m -> k <= k' -> stepshape k' m.
Proof.
  intros H Hk s Hr Hw. specialize (H s Hr Hw). destruct (m s); auto.
  - destruct H as (s2 & n & H1 & H2 & H3). exists s2, n. eauto using R_weaken.
  - eauto using R_weaken.
Qed.

Lemma ss_set_ip n : stepshape 0 (set_ip n).
Proof. intros s Hr Hw. cbn. exists s, n. auto using R_refl. Qed.
Lemma ss_next_ip : stepshape 0 next_ip.
Proof. intros s Hr Hw. cbn. exists s, (S (ip s)). auto using R_refl. Qed.
Lemma ss_fail k p : stepshape 0 (fail k p).
Proof. intros s Hr Hw. cbn. auto using R_refl. Qed.
Lemma ss_unsup : stepshape 0 unsup.
Proof. intros s Hr Hw. exact I. Qed.

Lemma ss_bind k1 k2 {A} (m : M A) (f : A -> M unit) :
  rev k1 m -> (forall a, stepshape k2 (f a)) -> stepshape (k1 + k2) (bind m f).
Proof.
  intros Hm Hf s Hr Hw. unfold bind. specialize (Hm s Hr Hw).
  destruct (m s) as [a s1|k p s1| |]; auto.
  - destruct Hm as [HR Hs].
    specialize (Hf a s1 (R_recording _ _ _ HR) (R_wf _ _ _ HR)).
    destruct (f a s1) as [b s2|k p s2| |]; auto.
    + destruct Hf as (s3 & n & H1 & H2 & H3). exists s3, n.
      split; [eapply R_trans; eauto|]. split; [congruence | auto].
    + eapply R_trans; eauto.
  - eapply R_weaken; eauto. lia.
Qed.

Lemma ss_bind0 {A} (m : M A) (f : A -> M unit) :
  rev 0 m -> (forall a, stepshape 0 (f a)) -> stepshape 0 (bind m f).
Proof. intros. change 0 with (0 + 0). apply ss_bind; auto. Qed.

Ltac ss_step :=
  lazymatch goal with
  | |- stepshape 0 (bind _ _) => apply ss_bind0; [rv | intro]
  | |- stepshape 0 (set_ip _) => apply ss_set_ip
  | |- stepshape 0 next_ip => apply ss_next_ip
  | |- stepshape 0 (fail _ _) => apply ss_fail
  | |- stepshape 0 unsup => apply ss_unsup
  | |- stepshape 0 (match ?x with _ => _ end) => destruct x
  end.

Lemma exec_op_shape nf ip0 op :
  (forall w f, nf w = Some f -> rev 1 f) -> stepshape 1 (exec_op nf ip0 op).
Proof.
  intros Hnf. destruct op; cbn [exec_op];
    try solve [apply ss_weaken with 0; [repeat ss_step | lia]].
  destruct (nf w) eqn:E.
  - change 1 with (1 + 0). apply ss_bind; [eauto | intro; apply ss_next_ip].
  - apply ss_weaken with 0; [apply ss_unsup | lia].
Qed.

(* ---------- fetch_and_run ---------- *)
Lemma meter_increase_ok s u s1 : meter_increase s = ROk u s1 -> s1 = set_meter s (meter s + 1)%Z.
Proof.
  unfold meter_increase. destruct (insn_limit s); [destruct (_ <=? _)%Z|]; congruence.
Qed.
Lemma meter_increase_err s k p s1 : meter_increase s = RErr k p s1 -> s1 = s.
Proof.
  unfold meter_increase. destruct (insn_limit s); [destruct (_ <=? _)%Z|]; congruence.
Qed.
Lemma meter_increase_cases s :
  (exists u, meter_increase s = ROk u (set_meter s (meter s + 1)%Z)) \/ meter_increase s = RErr ELimit None s.
Proof.
  unfold meter_increase. destruct (insn_limit s); [destruct (_ <=? _)%Z|]; eauto.
Qed.

(* a fetch that does not patch a Resolve is the metered execution of the fetched opcode *)
Lemma fetch_not_resolve nf s : not_resolve s ->
  fetch_and_run nf s = RErr ELimit None s \/ fetch_and_run nf s = RPanic \/
  exists op, nth_error (code s) (ip s) = Some op /\
             fetch_and_run nf s = exec_op nf (ip s) op (set_meter s (meter s + 1)%Z).
Proof.
  intros Hn. unfold fetch_and_run.
  destruct (meter_increase_cases s) as [[u ->] | ->]; auto.
  right. cbn [code set_meter].
  destruct (nth_error (code s) (ip s)) as [op|] eqn:E; auto.
  right. exists op. split; auto. destruct op; auto. exfalso. eapply Hn; eauto.
Qed.

(* a successful fetch is the execution of some opcode from a state with the same
   stacks, marks and log *)
Lemma fetch_ok nf s u s' : fetch_and_run nf s = ROk u s' ->
  exists op s1, exec_op nf (ip s) op s1 = ROk u s' /\
                recording s1 = recording s /\ (wf_marks s -> wf_marks s1).
Proof.
  unfold fetch_and_run.
  destruct (meter_increase_cases s) as [[u0 ->] | ->]; [|discriminate].
  cbn [code set_meter].
  destruct (nth_error (code s) (ip s)) as [op|] eqn:E; [|discriminate].
  assert (D : forall op', exec_op nf (ip s) op' (set_meter s (meter s + 1)%Z) = ROk u s' ->
              exists op s1, exec_op nf (ip s) op s1 = ROk u s' /\
                recording s1 = recording s /\ (wf_marks s -> wf_marks s1)).
  { intros op' H. exists op', (set_meter s (meter s + 1)%Z). auto. }
  destruct op; try exact (D _).
  destruct (dict_entry _ _); [|discriminate].
  match goal with |- context[meter_increase ?x] => destruct (meter_increase_cases x) as [[u1 ->] | ->] end;
    [|discriminate].
  intros H. eexists _, _. split; [exact H|]. auto.
Qed.

Lemma set_ip_undo s2 n l :
  rlog s2 = Some l ->
  set_ip_raw (add_rstep (RSetIp (ip s2)) s2) n = set_rlog (set_ip_raw s2 n) (Some (RSetIp (ip s2) :: l)) /\
  undo1 (RSetIp (ip s2)) (set_ip_raw s2 n) = Some s2.
Proof.
  intros H. unfold add_rstep. rewrite H. split; [reflexivity|].
  cbn. destruct s2 as [? ? ? ? ? ? ? ? ? ? ? [] ? ? ? ? ? ? ? ? ?]. reflexivity.
Qed.

Lemma norm_self s : norm s (out s) (rlog s) (stopping s) = s.
Proof. destruct s; reflexivity. Qed.

Section Main.
  Variable fo : fops.
  Local Notation nf := (native_fn fo).

  Lemma nf_rev : forall w f, nf w = Some f -> rev 1 f.
  Proof. intros w f. apply native_fn_rev. Qed.

  Theorem step_invariants : forall s s',
    recording s = true -> log_ok s -> wf_marks s ->
    fetch_and_run nf s = ROk tt s' ->
    recording s' = true /\ log_ok s' /\ wf_marks s'.
  Proof.
    intros s s' Hr Hl Hw H.
    destruct (fetch_ok _ _ _ _ H) as (op & s1 & He & Hr1 & Hw1).
    rewrite Hr in Hr1. specialize (Hw1 Hw).
    pose proof (exec_op_shape nf (ip s) op nf_rev s1 Hr1 Hw1) as Hs.
    rewrite He in Hs. destruct Hs as (s2 & n & HR & Hst & ->).
    destruct HR as (l0 & es & A1 & A2 & A3 & A4 & A5 & A6).
    destruct (set_ip_undo s2 n _ A2) as [-> _].
    repeat split; try apply A5.
  Qed.

  Lemma eq_rev_result s l0 s2 :
    rlog s = Some l0 -> stopping s2 = stopping s ->
    eq_rev (set_rlog (norm (set_meter s (meter s + 1)%Z) (out s2) (rlog s2) (stopping s2)) (Some l0)) s.
  Proof.
    intros H1 H2. unfold eq_rev, erase_mo, norm. rewrite H2.
    destruct s; cbn in *; subst; reflexivity.
  Qed.

  Theorem rnext_undoes_step : forall s s',
    recording s = true -> log_ok s -> wf_marks s -> not_resolve s ->
    fetch_and_run nf s = ROk tt s' ->
    exists s'', rnext s' = ROk tt s'' /\ eq_rev s'' s.
  Proof.
    intros s s' Hr Hl Hw Hn H.
    destruct (fetch_not_resolve nf s Hn) as [E | [E | [op [Eop E]]]]; rewrite E in H; try discriminate.
    set (s1 := set_meter s (meter s + 1)%Z) in *.
    assert (Hr1 : recording s1 = true) by exact Hr.
    assert (Hw1 : wf_marks s1) by exact Hw.
    pose proof (exec_op_shape nf (ip s) op nf_rev s1 Hr1 Hw1) as Hs.
    rewrite H in Hs. destruct Hs as (s2 & n & HR & Hst & ->).
    destruct HR as (l0 & es & A1 & A2 & A3 & A4 & A5 & A6).
    destruct (set_ip_undo s2 n _ A2) as [-> Hu1].
    apply log_ok_stop in Hl. destruct Hl as (l0' & Hl1 & Hl2).
    change (rlog s1) with (rlog s) in A1. rewrite Hl1 in A1. injection A1 as ->.
    specialize (A6 (out s2) (rlog s2) (stopping s2)). rewrite norm_self in A6.
    eexists. split.
    - eapply rnext_undo; eauto.
    - apply eq_rev_result; auto.
  Qed.

  (* the statement without the extra hypothesis is false: see [failed_step_counterexample] *)
  Theorem rnext_undoes_failed_step_weak : forall s k p s',
    recording s = true -> log_ok s -> wf_marks s -> not_resolve s ->
    fetch_and_run nf s = RErr k p s' -> log_len s < log_len s' ->
    stopping s' = stopping s ->
    exists s'', rnext s' = ROk tt s'' /\ eq_rev s'' s.
  Proof.
    intros s k p s' Hr Hl Hw Hn H Hlen Hstop.
    destruct (fetch_not_resolve nf s Hn) as [E | [E | [op [Eop E]]]]; rewrite E in H; try discriminate.
    { injection H as _ _ <-. lia. }
    set (s1 := set_meter s (meter s + 1)%Z) in *.
    assert (Hr1 : recording s1 = true) by exact Hr.
    assert (Hw1 : wf_marks s1) by exact Hw.
    pose proof (exec_op_shape nf (ip s) op nf_rev s1 Hr1 Hw1) as Hs.
    rewrite H in Hs.
    destruct Hs as (l0 & es & A1 & A2 & A3 & A4 & A5 & A6).
    apply log_ok_stop in Hl. destruct Hl as (l0' & Hl1 & Hl2).
    change (rlog s1) with (rlog s) in A1. rewrite Hl1 in A1. injection A1 as ->.
    unfold log_len in Hlen. rewrite Hl1, A2, app_length in Hlen.
    destruct es as [|r es]; [cbn in Hlen; lia|].
    specialize (A6 (out s') (rlog s') (stopping s')). rewrite norm_self in A6.
    cbn [undo_list] in A6. destruct (undo1 r s') as [s1'|] eqn:E1; [|discriminate].
    unfold no_setip in A3. cbn [forallb] in A3. apply andb_true_iff in A3. destruct A3 as [_ A3].
    rewrite <- (set_rlog_same s' _ A2).
    eexists. split.
    - cbn [app]. eapply rnext_undo; eauto.
    - apply eq_rev_result; auto.
  Qed.
End Main.

(* ---------- about_to_stop: the extra hypothesis is necessary, and only [exit] breaks it ---------- *)
Lemma ROk_inj {A} (a b : A) s t : ROk a s = ROk b t -> s = t.
Proof. congruence. Qed.

Lemma reverse_changes_stopping r s u s' : reverse_changes r s = ROk u s' -> stopping s' = stopping s.
Proof.
  destruct r; cbn; unfold pop_data, data_depth, add_rstep;
  repeat match goal with
         | |- context[match ?x with _ => _ end] =>
           match x with
           | ds _ => destruct x
           | rs _ => destruct x
           | loops _ => destruct x
           | special _ => destruct x
           | rlog _ => destruct x
           | nth_error _ _ => destruct x
           | _ <? _ => destruct x
           | _ <=? _ => destruct x
           | ?y => is_var y; destruct y
           end; cbn
         end; intros H; try discriminate; apply ROk_inj in H; subst s'; reflexivity.
Qed.

Lemma rnext_loop_stopping fuel : forall s u s', rnext_loop fuel s = ROk u s' -> stopping s' = stopping s.
Proof.
  induction fuel; intros s u s' H; cbn [rnext_loop] in H.
  - apply ROk_inj in H; subst s'. reflexivity.
  - unfold log_pop in H. destruct (rlog s) as [[|r l]|] eqn:E; try (apply ROk_inj in H; subst s'; reflexivity).
    assert (G : match reverse_changes r (set_rlog s (Some l)) with
                | ROk _ s'' => rnext_loop fuel s''
                | e => e
                end = ROk u s' -> stopping s' = stopping s).
    { destruct (reverse_changes r (set_rlog s (Some l))) eqn:E2; try discriminate.
      intros H2. apply IHfuel in H2. apply reverse_changes_stopping in E2. cbn in E2. congruence. }
    destruct r; auto.
    unfold add_rstep in H. cbn in H. apply ROk_inj in H; subst s'. reflexivity.
Qed.

Lemma rnext_stopping s u s' : rnext s = ROk u s' -> stopping s' = stopping s.
Proof.
  unfold rnext, log_pop. destruct (rlog s) as [[|r l]|] eqn:E; try apply rnext_loop_stopping.
  destruct (reverse_changes r (set_rlog s (Some l))) eqn:E2; try discriminate.
  intros H2. apply rnext_loop_stopping in H2. apply reverse_changes_stopping in E2. cbn in E2. congruence.
Qed.

(* the conclusion of the failed-step property forces the flag to be unchanged: the
   hypothesis added in [rnext_undoes_failed_step_weak] is the weakest possible *)
Lemma failed_step_stopping_necessary s s' s'' :
  rnext s' = ROk tt s'' -> eq_rev s'' s -> stopping s' = stopping s.
Proof.
  intros H1 H2. apply rnext_stopping in H1. apply (f_equal stopping) in H2. cbn in H2. congruence.
Qed.

Lemma exec_op_ks nf ip0 op :
  (forall w f, nf w = Some f -> w = "exit"%string \/ ks f) ->
  op <> ONative "exit" -> ks (exec_op nf ip0 op).
Proof.
  intros Hnf Hop. destruct op; cbn [exec_op]; try solve [unfold do_init; kv].
  destruct (nf w) eqn:E; [|apply ks_unsup].
  destruct (Hnf _ _ E) as [->|H]; [congruence|].
  apply ks_bind; [auto | intro; apply ks_next_ip].
Qed.

Section Weak2.
  Variable fo : fops.
  Local Notation nf := (native_fn fo).

  (* every failed step other than the word [exit] is undone *)
  Theorem rnext_undoes_failed_step_weak_noexit : forall s k p s',
    recording s = true -> log_ok s -> wf_marks s -> not_resolve s ->
    fetch_and_run nf s = RErr k p s' -> log_len s < log_len s' ->
    nth_error (code s) (ip s) <> Some (ONative "exit") ->
    exists s'', rnext s' = ROk tt s'' /\ eq_rev s'' s.
  Proof.
    intros s k p s' Hr Hl Hw Hn H Hlen Hne.
    eapply rnext_undoes_failed_step_weak; eauto.
    destruct (fetch_not_resolve nf s Hn) as [E | [E | [op [Eop E]]]]; rewrite E in H; try discriminate.
    { injection H as _ _ <-. reflexivity. }
    assert (Hk : ks (exec_op nf (ip s) op)).
    { apply exec_op_ks; [apply native_fn_ks | congruence]. }
    specialize (Hk (set_meter s (meter s + 1)%Z)). rewrite H in Hk. exact Hk.
  Qed.
End Weak2.

(* ---------- rnext reads neither the meter nor the captured output ---------- *)
Definition mo (m : Z) (o : string) (s : state) : state := set_out (set_meter s m) o.

Lemma reverse_changes_mo m o r s :
  reverse_changes r (mo m o s) = res_map (mo m o) (reverse_changes r s).
Proof.
  destruct r; cbn; try reflexivity;
  unfold pop_data, data_depth, add_rstep; cbn;
  repeat match goal with
         | |- context[match ?x with _ => _ end] =>
           match x with
           | ds _ => destruct x
           | rs _ => destruct x
           | loops _ => destruct x
           | special _ => destruct x
           | rlog _ => destruct x
           | nth_error _ _ => destruct x
           | _ <? _ => destruct x
           | _ <=? _ => destruct x
           | ?y => is_var y; destruct y
           end; cbn; try reflexivity
         end.
Qed.

Lemma rnext_loop_mo m o fuel : forall s,
  rnext_loop fuel (mo m o s) = res_map (mo m o) (rnext_loop fuel s).
Proof.
  induction fuel; intros s; [reflexivity|].
  cbn [rnext_loop]. unfold log_pop. cbn [rlog mo set_out set_meter].
  destruct (rlog s) as [[|r l]|] eqn:E; try reflexivity.
  change (set_rlog (mo m o s) (Some l)) with (mo m o (set_rlog s (Some l))).
  destruct r; try reflexivity;
    (rewrite reverse_changes_mo; destruct (reverse_changes _ (set_rlog s (Some l))); cbn [res_map]; auto).
Qed.

Lemma rnext_mo m o s : rnext (mo m o s) = res_map (mo m o) (rnext s).
Proof.
  unfold rnext, log_pop. cbn [rlog mo set_out set_meter].
  destruct (rlog s) as [[|r l]|] eqn:E.
  - apply (rnext_loop_mo m o _ s).
  - change (set_rlog (mo m o s) (Some l)) with (mo m o (set_rlog s (Some l))).
    rewrite reverse_changes_mo. destruct (reverse_changes _ (set_rlog s (Some l))); cbn [res_map]; auto.
    apply rnext_loop_mo.
  - apply (rnext_loop_mo m o _ s).
Qed.

Lemma eq_rev_refl s : eq_rev s s.
Proof. reflexivity. Qed.
Lemma eq_rev_sym a b : eq_rev a b -> eq_rev b a.
Proof. unfold eq_rev; auto. Qed.
Lemma eq_rev_trans a b c : eq_rev a b -> eq_rev b c -> eq_rev a c.
Proof. unfold eq_rev; congruence. Qed.

Lemma rnext_eq_rev a b a' :
  eq_rev a b -> rnext a = ROk tt a' -> exists b', rnext b = ROk tt b' /\ eq_rev a' b'.
Proof.
  unfold eq_rev. intros He Ha.
  assert (H : rnext (erase_mo a) = ROk tt (erase_mo a')).
  { change (erase_mo a) with (mo 0%Z EmptyString a). rewrite rnext_mo, Ha. reflexivity. }
  rewrite He in H. change (erase_mo b) with (mo 0%Z EmptyString b) in H. rewrite rnext_mo in H.
  destruct (rnext b) as [[] b'| | |]; try discriminate.
  exists b'. split; auto. cbn [res_map] in H.
  assert (E : mo 0%Z EmptyString b' = erase_mo a') by congruence.
  symmetry; exact E.
Qed.

Lemma rnexts_eq_rev k : forall a b a',
  eq_rev a b -> rnexts k a = Some a' -> exists b', rnexts k b = Some b' /\ eq_rev a' b'.
Proof.
  induction k; intros a b a' He Ha; cbn [rnexts] in *.
  - injection Ha as <-. eauto.
  - destruct (rnext a) as [[] a1| | |] eqn:E; try discriminate.
    destruct (rnext_eq_rev _ _ _ He E) as (b1 & -> & He1). eauto.
Qed.

(* ---------- iterated steps ---------- *)
Lemma steps_snoc nf n : forall s sn,
  steps nf (S n) s = Some sn ->
  exists sm, steps nf n s = Some sm /\ fetch_and_run nf sm = ROk tt sn.
Proof.
  induction n; intros s sn H.
  - cbn in H. destruct (fetch_and_run nf s) as [[] s1| | |] eqn:E; try discriminate.
    exists s. split; auto. congruence.
  - cbn [steps] in H. destruct (fetch_and_run nf s) as [[] s1| | |] eqn:E; try discriminate.
    destruct (IHn s1 sn H) as (sm & H1 & H2).
    exists sm. split; auto. cbn [steps]. rewrite E. auto.
Qed.

Section Rewind.
  Variable fo : fops.
  Local Notation nf := (native_fn fo).

  Lemma steps_invariants n : forall s sn,
    recording s = true -> log_ok s -> wf_marks s ->
    steps nf n s = Some sn ->
    recording sn = true /\ log_ok sn /\ wf_marks sn.
  Proof.
    induction n; intros s sn Hr Hl Hw H.
    - cbn in H. injection H as <-. auto.
    - cbn [steps] in H. destruct (fetch_and_run nf s) as [[] s1| | |] eqn:E; try discriminate.
      destruct (step_invariants fo s s1 Hr Hl Hw E) as (A & B & C). eauto.
  Qed.

  Theorem rewind : forall n k s sn,
    recording s = true -> log_ok s -> wf_marks s ->
    (forall m sm, m < n -> steps nf m s = Some sm -> not_resolve sm) ->
    steps nf n s = Some sn -> k <= n ->
    exists s' sm, rnexts k sn = Some s' /\ steps nf (n - k) s = Some sm /\ eq_rev s' sm.
  Proof.
    induction n; intros k s sn Hr Hl Hw Hn Hs Hk.
    - assert (k = 0) by lia. subst k. exists sn, sn. cbn in *. auto using eq_rev_refl.
    - destruct k as [|j].
      + exists sn, sn. rewrite Nat.sub_0_r. cbn [rnexts]. auto using eq_rev_refl.
      + destruct (steps_snoc nf n s sn Hs) as (sm' & H1 & H2).
        destruct (steps_invariants n s sm' Hr Hl Hw H1) as (Ir & Il & Iw).
        assert (Inr : not_resolve sm') by (eapply (Hn n); eauto).
        destruct (rnext_undoes_step fo sm' sn Ir Il Iw Inr H2) as (s'' & Hx & He).
        assert (Hn' : forall m sm, m < n -> steps nf m s = Some sm -> not_resolve sm).
        { intros m sm Hm. apply Hn. lia. }
        destruct (IHn j s sm' Hr Hl Hw Hn' H1 ltac:(lia)) as (t & sm & R1 & R2 & R3).
        destruct (rnexts_eq_rev j sm' s'' t (eq_rev_sym _ _ He) R1) as (t' & R1' & R3').
        exists t', sm. cbn [rnexts]. rewrite Hx. change (S n - S j) with (n - j).
        repeat split; auto. eapply eq_rev_trans; [apply eq_rev_sym; eauto | eauto].
  Qed.
End Rewind.

(* ---------- rnext_undoes_failed_step as stated in Props/C02.v is FALSE ---------- *)
(* The word [exit] sets about_to_stop (a field that no log entry restores), then pops its
   argument (logged) and always fails with EExit.  The failed step has logged a change, a
   backward step restores the data stack, but about_to_stop stays set. *)
Definition cex_fo : fops :=
  mkfops Z.add Z.add Z.add Z.add Z.add Z.add Z.add (fun x => x) (fun x => x) (fun x => x) (fun x => x) (fun x => x).
Definition cex_s : state :=
  mkstate [] [] [ONative "exit"] [] [] [] [CInt 0] [] [] [] [] (mkctx 0 0 0 0 0 0 0 0 MEval) []
          0%Z None None None (Some []) EmptyString None false.
Definition cex_s' : state :=
  mkstate [] [] [ONative "exit"] [] [] [] [] [] [] [] [] (mkctx 0 0 0 0 0 0 0 0 MEval) []
          1%Z None None None (Some [RPushData (CInt 0)]) EmptyString None true.

Example cex_fetch : fetch_and_run (native_fn cex_fo) cex_s = RErr EExit (Some (CInt 0)) cex_s'.
Proof. vm_compute. reflexivity. Qed.
Example cex_rnext :
  rnext cex_s' = ROk tt (set_stopping (set_meter cex_s 1%Z) true).
Proof. vm_compute. reflexivity. Qed.

Theorem failed_step_counterexample :
  ~ (forall fo s k p s',
       recording s = true -> log_ok s -> wf_marks s -> not_resolve s ->
       fetch_and_run (native_fn fo) s = RErr k p s' -> log_len s < log_len s' ->
       exists s'', rnext s' = ROk tt s'' /\ eq_rev s'' s).
Proof.
  intros H.
  destruct (H cex_fo cex_s EExit (Some (CInt 0)) cex_s') as (s'' & H1 & H2).
  - reflexivity.
  - exact I.
  - unfold wf_marks; cbn; lia.
  - intros name. cbn. discriminate.
  - exact cex_fetch.
  - cbn. lia.
  - rewrite cex_rnext in H1. injection H1 as <-.
    apply (f_equal stopping) in H2. discriminate.
Qed.

Print Assumptions rnext_undoes_step.
Print Assumptions step_invariants.
Print Assumptions rnext_undoes_failed_step_weak.
Print Assumptions rewind.
Print Assumptions rnext_undoes_failed_step_weak_noexit.
Print Assumptions failed_step_stopping_necessary.
Print Assumptions failed_step_counterexample.
