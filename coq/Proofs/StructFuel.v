(* StructFuel.v: the structural evaluator is monotone in its fuel: a result other than
   "out of fuel" is kept by every larger fuel; hence the result of a program, when it
   exists, is unique. *)
From Xeh Require Import Model.Prelude Model.Bits Model.Codec Model.Cell Model.Lexer Model.Fmt
                        Model.Vm Model.Words Model.Struct Proofs.StructBase.
Local Notation length := List.length.

Section Fuel.
  Variable fo : fops.
  Variable funs : list (nat * list stmt).
  Notation sblock := (sblock fo funs).
  Notation sstmt := (sstmt fo funs).

  Lemma do_iter_sle : forall body body' pl,
    (forall s, sle (body s) (body' s)) ->
    forall k k' s, k <= k' -> sle (do_iter body pl k s) (do_iter body' pl k' s).
  Proof.
    intros body body' pl Hb. induction k as [| k IH]; intros k' s Hk.
    - apply sle_out.
    - destruct k' as [| k']; [ lia | ].
      rewrite !do_iter_S. apply sle_on_res; [ apply Hb | | intro; apply sle_refl ].
      intro s3. apply sle_run_m. intros more s4. apply sle_if; [ | apply sle_refl ].
      apply IH. lia.
  Qed.

  Lemma case_go_sle : forall blk blk' dflt,
    (forall l s, sle (blk l s) (blk' l s)) ->
    forall arms s, sle (case_go blk dflt arms s) (case_go blk' dflt arms s).
  Proof.
    intros blk blk' dflt Hb. induction arms as [| [[pre pof] body] r IH]; intro s.
    - rewrite !case_go_nil. apply Hb.
    - rewrite !case_go_cons. apply sle_on_res; [ apply Hb | | intro; apply sle_refl ].
      intro s1. apply sle_run_m. intros eq s2. apply sle_if; [ | apply IH ].
      apply sle_run_m. intros _ s3. apply Hb.
  Qed.

  Lemma fuel_sle_both : forall f,
    (forall f' l s, f <= f' -> sle (sblock f l s) (sblock f' l s)) /\
    (forall f' x s, f <= f' -> sle (sstmt f x s) (sstmt f' x s)).
  Proof.
    induction f as [| f [IHb IHs]].
    - split; intros; apply sle_out.
    - assert (Hblk : forall f' l s, S f <= S f' -> sle (sblock (S f) l s) (sblock (S f') l s)).
      { intros f' l s Hf. destruct l as [| x r].
        - rewrite !sblock_nil. apply sle_refl.
        - rewrite !sblock_cons. apply sle_on_res; [ apply IHs; lia | | intro; apply sle_refl ].
          intro s'. apply IHb. lia. }
      split.
      + intros f' l s Hf. destruct f' as [| f']; [ lia | ]. apply Hblk. assumption.
      + intros f' x s Hf. destruct f' as [| f']; [ lia | ].
        assert (Hle : f <= f') by lia.
        destruct x; repeat sstmt_unfold.
        * apply sle_refl.
        * apply sle_refl.
        * destruct (fun_body funs f0); [ | apply sle_refl ].
          apply sle_run_m. intros _ s1. apply sle_on_res; [ apply IHb; lia | | ]; intro; apply sle_refl.
        * apply sle_refl.
        * apply sle_refl.
        * apply sle_refl.
        * apply sle_refl.
        * apply sle_run_m. intros b s1. apply sle_if; [ apply IHb; lia | apply sle_refl ].
        * apply sle_run_m. intros b s1. apply sle_if; apply IHb; lia.
        * apply case_go_sle. intros l s0. apply IHb. lia.
        * apply sle_on_res; [ apply IHb; lia | | intro; apply sle_refl ].
          intro s1. apply sle_run_m. intros c s2. apply sle_if; [ apply sle_refl | apply IHs; lia ].
        * apply sle_on_res; [ apply IHb; lia | | intro; apply sle_refl ].
          intro s1. apply IHs. lia.
        * apply sle_on_res; [ apply IHb; lia | | intro; apply sle_refl ].
          intro s1. apply sle_run_m. intros go s2. apply sle_if; [ | apply sle_refl ].
          apply sle_on_res; [ apply IHb; lia | | intro; apply sle_refl ].
          intro s3. apply IHs. lia.
        * apply sle_run_m. intros l s1. apply sle_if; [ apply sle_refl | ].
          apply sle_run_m. intros _ s2. apply do_iter_sle; [ | lia ].
          intro s0. apply IHb. lia.
        * apply sle_refl.
        * apply sle_refl.
  Qed.

  Lemma sblock_sle : forall f f' l s, f <= f' -> sle (sblock f l s) (sblock f' l s).
  Proof. intros f f' l s H. apply (proj1 (fuel_sle_both f)). assumption. Qed.
  Lemma sstmt_sle : forall f f' x s, f <= f' -> sle (sstmt f x s) (sstmt f' x s).
  Proof. intros f f' x s H. apply (proj2 (fuel_sle_both f)). assumption. Qed.

  (* ---------- the statements ---------- *)
  Theorem sblock_fuel_mono : forall f l s r,
    sblock f l s = r -> r <> SOut -> forall f', f <= f' -> sblock f' l s = r.
  Proof.
    intros f l s r H N f' Hf. subst r. apply sle_eq; [ apply sblock_sle; assumption | assumption ].
  Qed.

  Theorem sstmt_fuel_mono : forall f x s r,
    sstmt f x s = r -> r <> SOut -> forall f', f <= f' -> sstmt f' x s = r.
  Proof.
    intros f x s r H N f' Hf. subst r. apply sle_eq; [ apply sstmt_sle; assumption | assumption ].
  Qed.

  (* the trips of a counted loop: more trip fuel and more body fuel *)
  Theorem do_iter_fuel_mono : forall b pl f k s r,
    do_iter (sblock f b) pl k s = r -> r <> SOut ->
    forall f' k', f <= f' -> k <= k' -> do_iter (sblock f' b) pl k' s = r.
  Proof.
    intros b pl f k s r H N f' k' Hf Hk. subst r. apply sle_eq; [ | assumption ].
    apply do_iter_sle; [ | assumption ]. intro s0. apply sblock_sle. assumption.
  Qed.

  (* the arms of a case *)
  Theorem case_go_fuel_mono : forall dflt arms f s r,
    case_go (sblock f) dflt arms s = r -> r <> SOut ->
    forall f', f <= f' -> case_go (sblock f') dflt arms s = r.
  Proof.
    intros dflt arms f s r H N f' Hf. subst r. apply sle_eq; [ | assumption ].
    apply case_go_sle. intros l s0. apply sblock_sle. assumption.
  Qed.

  (* determinism: two fuels that both suffice give the same result *)
  Theorem sblock_result_unique : forall f1 f2 l s r1 r2,
    sblock f1 l s = r1 -> r1 <> SOut -> sblock f2 l s = r2 -> r2 <> SOut -> r1 = r2.
  Proof.
    intros f1 f2 l s r1 r2 H1 N1 H2 N2.
    destruct (Nat.le_ge_cases f1 f2) as [L | L].
    - rewrite <- H2. symmetry. eapply sblock_fuel_mono; eauto.
    - rewrite <- H1. eapply sblock_fuel_mono; eauto.
  Qed.

  Theorem sstmt_result_unique : forall f1 f2 x s r1 r2,
    sstmt f1 x s = r1 -> r1 <> SOut -> sstmt f2 x s = r2 -> r2 <> SOut -> r1 = r2.
  Proof.
    intros f1 f2 x s r1 r2 H1 N1 H2 N2.
    destruct (Nat.le_ge_cases f1 f2) as [L | L].
    - rewrite <- H2. symmetry. eapply sstmt_fuel_mono; eauto.
    - rewrite <- H1. eapply sstmt_fuel_mono; eauto.
  Qed.

  (* out of fuel is downward closed *)
  Corollary sblock_out_down : forall f f' l s, f' <= f -> sblock f l s = SOut -> sblock f' l s = SOut.
  Proof.
    intros f f' l s Hf H. destruct (sblock_sle f' f l s Hf) as [E | E]; [ assumption | ].
    rewrite <- E. assumption.
  Qed.
End Fuel.
