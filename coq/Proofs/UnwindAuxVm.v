(* UnwindAuxVm.v (C10, follow-up equivalence): execution does not depend on the components
   that the unwinding of a rejected source does not restore.  [ax t ...] replaces the debug
   map, the sources, the input, the meter, the reverse log, the captured output, the last-token
   record and the stop flag of [t]; [aok] says the replacement is compatible (same length of
   the debug map, the same lexer positions in the input, the same meter unless no instruction
   limit is set, recording on both sides or on neither).  Every native word, every
   instruction and [run] map compatible states to compatible results with the same value /
   error. *)
From Xeh Require Import Model.Prelude Model.Bits Model.Codec Model.Cell Model.Lexer Model.Fmt
                        Model.Vm Model.Words Model.Build.
From Xeh Require Import Proofs.VmFrame Proofs.VmLimits Proofs.UnwindIrr.
Local Notation length := List.length.

#[local] Arguments Z.add : simpl never.
#[local] Arguments Z.sub : simpl never.
#[local] Arguments Z.mul : simpl never.
#[local] Arguments Z.ltb : simpl never.
#[local] Arguments Z.leb : simpl never.
#[local] Arguments Z.eqb : simpl never.
#[local] Arguments Z.of_nat : simpl never.
#[local] Arguments Z.to_nat : simpl never.

Definition ax (t : state) (dg : list tokref) (so : list string) (inp : list inlex) (me : Z)
              (rl : option (list rstep)) (ou : string) (lt : option tokref) (sg : bool) : state :=
  mkstate (dict t) (heap t) (code t) dg so inp (ds t) (rs t) (flows t) (loops t) (special t)
          (cx t) (nested t) me (insn_limit t) (heap_limit t) (stack_limit t) rl ou lt sg.

Definition lex_same (a b : inlex) : Prop := in_lex a = in_lex b.

Definition aok (t : state) (dg : list tokref) (inp : list inlex) (me : Z) (rl : option (list rstep)) : Prop :=
  length dg = length (dbg t) /\ Forall2 lex_same (input t) inp /\
  (insn_limit t = None \/ me = meter t) /\ (rl = None <-> rlog t = None).

Definition arel (s s' : state) : Prop :=
  exists dg so inp me rl ou lt sg, aok s dg inp me rl /\ s' = ax s dg so inp me rl ou lt sg.

Definition ares {A} (r r' : res A) : Prop :=
  match r, r' with
  | ROk a s, ROk a' s' => a = a' /\ arel s s'
  | RErr k p s, RErr k' p' s' => k = k' /\ p = p' /\ arel s s'
  | RPanic, RPanic => True
  | RUnsup, RUnsup => True
  | _, _ => False
  end.

Definition ap {A} (P : M A) : Prop :=
  forall t dg so inp me rl ou lt sg, aok t dg inp me rl ->
    ares (P t) (P (ax t dg so inp me rl ou lt sg)).

Lemma ax_irr t dg so inp me rl ou lt sg :
  ax t dg so inp me rl ou lt sg =
  irr t dg so inp (nested t) me rl ou lt sg (cs_len (cx t)) (fs_len (cx t)) (di_len (cx t)).
Proof. destruct t as [? ? ? ? ? ? ? ? ? ? ? c ? ? ? ? ? ? ? ? ?]. destruct c. reflexivity. Qed.

Lemma arel_intro t dg so inp me rl ou lt sg : aok t dg inp me rl -> arel t (ax t dg so inp me rl ou lt sg).
Proof. intros H. exists dg, so, inp, me, rl, ou, lt, sg. auto. Qed.

Lemma ap_ret A (a : A) : ap (ret a).
Proof. intros t dg so inp me rl ou lt sg H. cbn. split; [reflexivity|apply arel_intro; exact H]. Qed.
Lemma ap_fail A k p : ap (@fail A k p).
Proof. intros t dg so inp me rl ou lt sg H. cbn. repeat split. apply arel_intro; exact H. Qed.
Lemma ap_unsup A : ap (@unsup A).
Proof. intros t dg so inp me rl ou lt sg H. exact I. Qed.
Lemma ap_panic A : ap (@panic A).
Proof. intros t dg so inp me rl ou lt sg H. exact I. Qed.
Lemma ap_bind A B (P : M A) (f : A -> M B) : ap P -> (forall a, ap (f a)) -> ap (bind P f).
Proof.
  intros HP Hf t dg so inp me rl ou lt sg Ho. unfold bind. specialize (HP t dg so inp me rl ou lt sg Ho).
  destruct (P t) as [a s|k p s| |]; destruct (P (ax t dg so inp me rl ou lt sg)) as [a' s'|k' p' s'| |];
    cbn [ares] in *; try contradiction; auto.
  destruct HP as [<- (dg1 & so1 & inp1 & me1 & rl1 & ou1 & lt1 & sg1 & Ho1 & ->)]. apply Hf. exact Ho1.
Qed.
Lemma ap_get_bind B (k : state -> M B) :
  (forall s0 dg so inp me rl ou lt sg s, k (ax s0 dg so inp me rl ou lt sg) s = k s0 s) ->
  (forall s0, ap (k s0)) -> ap (bind get k).
Proof. intros H1 H2 t dg so inp me rl ou lt sg Ho. unfold bind, get. rewrite H1. apply H2. exact Ho. Qed.

(* ---------- the primitives ---------- *)
Ltac aok_fin :=
  lazymatch goal with
  | H : aok _ _ _ _ _ |- _ =>
    let A1 := fresh "A1" in let A2 := fresh "A2" in let A3 := fresh "A3" in let A4 := fresh "A4" in
    destruct H as (A1 & A2 & A3 & A4);
    cbv [aok dbg input insn_limit meter rlog] in *;
    repeat split; try assumption; try (intro; discriminate); try (clear - A4; tauto);
    try (destruct A3 as [A3|A3]; [left; exact A3|right; subst; reflexivity])
  end.

Ltac ap_fin :=
  cbv [ares]; try exact I;
  try (repeat split; try reflexivity;
       do 8 eexists; (split; [|cbv [ax dict heap code dbg sources input ds rs flows loops special cx nested meter
                                       insn_limit heap_limit stack_limit rlog out last_tok stopping]; reflexivity]);
       aok_fin).

Ltac rlog_cases :=
  (* the two logs are both present or both absent *)
  lazymatch goal with
  | H : aok _ _ _ _ ?rl |- _ =>
    let A := fresh "RL" in
    pose proof (proj2 (proj2 (proj2 H))) as A; cbv [rlog] in A;
    match type of A with
    | (?x = None <-> ?y = None) =>
      destruct x; destruct y;
      try (exfalso; destruct A as [A1 A2]; first [specialize (A1 eq_refl) | specialize (A2 eq_refl)]; discriminate)
    end
  end.

Ltac ap_prim :=
  let t := fresh "t" in let H := fresh "Ho" in
  intros t dg so inp me rl ou lt sg H; destruct_state t;
  rlog_cases;
  cbv [push_data pop_data top_data swap_data rot_data over_data push_return pop_return top_frame
       push_loop pop_loop loop_next loop_set_items push_special pop_special get_var set_var
       init_local set_ip next_ip print modify ret fail unsup panic
       add_rstep limit_reached data_depth ip set_ip_raw ax
       set_ds set_rs set_loops set_special set_heap set_cx set_nested set_rlog set_out set_stopping
       dict heap code dbg sources input ds rs flows loops special cx nested meter insn_limit
       heap_limit stack_limit rlog out last_tok stopping];
  break_matches; ap_fin.

Lemma wx_ap : forall A (m : M A), wx m -> ap m.
Proof.
  induction 1; try (ap_prim; fail).
  - apply ap_bind; assumption.
  - apply ap_get_bind; [|assumption]. intros. rewrite ax_irr. apply H1.
Qed.

Lemma ap_meter_increase : ap meter_increase.
Proof.
  intros t dg so inp me rl ou lt sg Ho. destruct_state t.
  pose proof Ho as (_ & _ & A3 & _). cbv [insn_limit meter] in A3.
  cbv [meter_increase ax set_meter dict heap code dbg sources input ds rs flows loops special cx nested meter
       insn_limit heap_limit stack_limit rlog out last_tok stopping].
  destruct il0 as [l|].
  - destruct A3 as [A3|A3]; [discriminate|]. subst me.
    destruct (l <=? me0)%Z; ap_fin.
  - ap_fin.
Qed.

Lemma aok_same t t' dg inp me rl :
  dbg t' = dbg t -> input t' = input t -> insn_limit t' = insn_limit t -> meter t' = meter t ->
  rlog t' = rlog t -> aok t dg inp me rl -> aok t' dg inp me rl.
Proof. unfold aok. intros -> -> -> -> ->. auto. Qed.

Section WithTable.
  Variable nf : natives.
  Hypothesis Hnf : forall w f, nf w = Some f -> wx f.

  Lemma ap_exec_op ip0 op : ap (exec_op nf ip0 op).
  Proof. apply wx_ap. apply wx_exec_op. exact Hnf. Qed.

  Lemma ap_far : ap (fetch_and_run nf).
  Proof.
    intros t dg so inp me rl ou lt sg Ho. unfold fetch_and_run.
    change (ip (ax t dg so inp me rl ou lt sg)) with (ip t).
    pose proof (ap_meter_increase t dg so inp me rl ou lt sg Ho) as X.
    destruct (meter_increase t) as [u s1|k p s1| |];
      destruct (meter_increase (ax t dg so inp me rl ou lt sg)) as [u' s1'|k' p' s1'| |];
      cbn [ares] in *; try contradiction; auto.
    destruct X as [_ (dg1 & so1 & inp1 & me1 & rl1 & ou1 & lt1 & sg1 & Ho1 & ->)].
    change (code (ax s1 dg1 so1 inp1 me1 rl1 ou1 lt1 sg1)) with (code s1).
    destruct (nth_error (code s1) (ip t)) as [op|]; [|exact I].
    destruct op; try (apply ap_exec_op; exact Ho1).
    change (dict_entry (ax s1 dg1 so1 inp1 me1 rl1 ou1 lt1 sg1) name) with (dict_entry s1 name).
    destruct (dict_entry s1 name) as [e|]; [|cbn; repeat split; apply arel_intro; exact Ho1].
    change (set_code (ax s1 dg1 so1 inp1 me1 rl1 ou1 lt1 sg1) (list_set (code s1) (ip t) (resolve_op e)))
      with (ax (set_code s1 (list_set (code s1) (ip t) (resolve_op e))) dg1 so1 inp1 me1 rl1 ou1 lt1 sg1).
    assert (Ho2 : aok (set_code s1 (list_set (code s1) (ip t) (resolve_op e))) dg1 inp1 me1 rl1)
      by (eapply aok_same; [..|exact Ho1]; reflexivity).
    pose proof (ap_meter_increase _ dg1 so1 inp1 me1 rl1 ou1 lt1 sg1 Ho2) as Y.
    destruct (meter_increase (set_code s1 (list_set (code s1) (ip t) (resolve_op e)))) as [u3 s3|k3 p3 s3| |];
      destruct (meter_increase (ax (set_code s1 (list_set (code s1) (ip t) (resolve_op e))) dg1 so1 inp1 me1 rl1 ou1 lt1 sg1))
        as [u3' s3'|k3' p3' s3'| |];
      cbn [ares] in *; try contradiction; auto.
    destruct Y as [_ (dg3 & so3 & inp3 & me3 & rl3 & ou3 & lt3 & sg3 & Ho3 & ->)].
    apply ap_exec_op. exact Ho3.
  Qed.

  Definition oares (r r' : option (res unit)) : Prop :=
    match r, r' with
    | Some a, Some a' => ares a a'
    | None, None => True
    | _, _ => False
    end.

  Lemma ap_run : forall fuel t dg so inp me rl ou lt sg, aok t dg inp me rl ->
    oares (run nf fuel t) (run nf fuel (ax t dg so inp me rl ou lt sg)).
  Proof.
    induction fuel as [|f IH]; intros t dg so inp me rl ou lt sg Ho; cbn [run oares]; [exact I|].
    change (is_running (ax t dg so inp me rl ou lt sg)) with (is_running t).
    destruct (is_running t); [|cbn; split; [reflexivity|apply arel_intro; exact Ho]].
    pose proof (ap_far t dg so inp me rl ou lt sg Ho) as X.
    destruct (fetch_and_run nf t) as [u s1|k p s1| |];
      destruct (fetch_and_run nf (ax t dg so inp me rl ou lt sg)) as [u' s1'|k' p' s1'| |];
      cbn [ares oares] in *; try contradiction; auto.
    destruct X as [_ (dg1 & so1 & inp1 & me1 & rl1 & ou1 & lt1 & sg1 & Ho1 & ->)].
    apply IH. exact Ho1.
  Qed.
End WithTable.

Theorem ap_run_m fo rf : ap (run_m fo rf).
Proof.
  intros t dg so inp me rl ou lt sg Ho. unfold run_m, nf.
  pose proof (ap_run (native_fn fo) (native_wx fo) rf t dg so inp me rl ou lt sg Ho) as X.
  destruct (run (native_fn fo) rf t); destruct (run (native_fn fo) rf (ax t dg so inp me rl ou lt sg));
    cbn [oares] in X; try contradiction; auto.
Qed.
