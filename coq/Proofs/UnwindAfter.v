(* UnwindAfter.v (C10): consequences of the restoration theorem: nothing of a rejected source
   is left to run; the well-formedness hypothesis holds again; the shape of the state after a
   successful build; a source evaluated later starts running at its own first instruction,
   whatever a previous line left behind (run-time failures included). *)
From Xeh Require Import Model.Prelude Model.Bits Model.Codec Model.Cell Model.Lexer Model.Fmt
                        Model.Vm Model.Words Model.Build.
From Xeh Require Import Proofs.VmFrame Proofs.VmLimits Proofs.NoPanic Proofs.NoPanicBuild
                        Proofs.UnwindLists Proofs.UnwindFrame Proofs.UnwindInv Proofs.UnwindBuild
                        Proofs.UnwindMain.
Local Notation length := List.length.

#[local] Arguments Z.add : simpl never.
#[local] Arguments Z.sub : simpl never.
#[local] Arguments Z.of_nat : simpl never.
#[local] Arguments Z.to_nat : simpl never.

(* ---------- 2: nothing is left to run ---------- *)
Theorem same_machine_wf s s' : same_machine s s' -> build_wf s -> build_wf s'.
Proof.
  unfold same_machine, build_wf.
  intros (A1 & A2 & A3 & A4 & A5 & _) (B1 & B2 & B3). rewrite A1, A4, A5. auto.
Qed.

Theorem same_machine_running s s' : same_machine s s' ->
  is_running s' = is_running s /\ ip s' = ip s /\ code s' = code s.
Proof.
  unfold same_machine, is_running, ip.
  intros (A1 & A2 & A3 & A4 & _). rewrite A3, A4. auto.
Qed.

Theorem same_machine_idle s s' nf : same_machine s s' -> is_running s = false ->
  next nf s' = ROk tt s' /\ forall fuel, run nf (S fuel) s' = Some (ROk tt s').
Proof.
  intros H Hr. destruct (same_machine_running s s' H) as (E & _). rewrite Hr in E.
  split; [unfold next|intro fuel; cbn [run]]; rewrite E; reflexivity.
Qed.

(* ---------- how a successful build ends ---------- *)
Section Exit.
  Variable fo : fops.
  Variable pr : string -> option Z.
  Variable rf : nat.

  Lemma next_token_end : forall fuel s s', next_token pr fuel s = ROk BEnd s' -> input s' = [].
  Proof.
    induction fuel as [|f IH]; intros s s' H; cbn [next_token] in H; [discriminate|].
    destruct (input s) as [|il rest] eqn:Ei; [injection H as <-; exact Ei|]. cbv zeta in H.
    destruct (lex_next_nonws _ _) as [tk l']. destruct tk; try discriminate.
    - eapply IH; eauto.
    - destruct (pr text); discriminate.
  Qed.

  Lemma build1_ok_exit : forall fuel depth s s', build1 fo pr rf fuel depth s = ROk tt s' ->
    length (nested s') = depth /\ has_pending_flow s' = false /\ input s' = [].
  Proof.
    induction fuel as [|f IH]; intros depth s s' H; cbn [build1] in H; [discriminate|].
    unfold bind at 1 in H. unfold get in H. unfold bind at 1 in H.
    destruct ((if mode_eqb (cmode (cx s)) MMeta && negb (has_pending_flow s)
               then run_m fo rf else ret tt) s) as [u t0|k p t0| |]; try discriminate.
    unfold bind at 1 in H.
    destruct (get_token pr t0) as [tk t1|k p t1| |] eqn:Et; try discriminate.
    destruct tk as [|name|v].
    - unfold bind, get in H.
      destruct (length (nested t1) =? depth)%nat eqn:E1; cbn [negb] in H; [|discriminate].
      destruct (has_pending_flow t1) eqn:E2; [discriminate|]. injection H as <-.
      apply Nat.eqb_eq in E1. repeat split; try assumption.
      unfold get_token in Et. eapply next_token_end; eauto.
    - unfold bind at 1 in H. unfold get in H.
      assert (W : forall P : M unit, (P ;; build1 fo pr rf f depth) t1 = ROk tt s' ->
                  length (nested s') = depth /\ has_pending_flow s' = false /\ input s' = []).
      { intros P HP. unfold bind in HP. destruct (P t1) as [u1 t2|k p t2| |]; try discriminate.
        eapply IH; eauto. }
      destruct (top_function_flow t1) as [[[idx st] ls]|]; [|eapply W; eauto].
      destruct (rposition ls name 0 None); eapply W; eauto.
    - unfold bind in H. destruct (code_emit_value v t1) as [u1 t2|k p t2| |]; try discriminate.
      eapply IH; eauto.
  Qed.
End Exit.

(* ---------- 4: a later evaluation runs its own code only ---------- *)
Section Later.
  Variable fo : fops.
  Variable pr : string -> option Z.
  Variable rf : nat.
  Variable b : state.
  Variable m : mode.
  Hypothesis Hwf : build_wf b.
  Hypothesis Hm : m <> MMeta.

  (* the state in which a successfully built source is closed: the context opened for the
     source is current and untouched - in particular its ip is the first instruction
     compiled for this source - and the old code is still a prefix of the code *)
  Theorem build_ok_shape fuel src s1 s2 :
    (context_open m ;; intern_source src) b = ROk tt s1 ->
    build1 fo pr rf fuel (length (nested s1)) s1 = ROk tt s2 ->
    calls_bad fo pr rf (length (dict b)) fuel (length (nested s1)) s1 = false ->
    cx s2 = tmp_ctx b m /\ nested s2 = cx b :: nested b /\ input s2 = [] /\
    flows s2 = flows b /\ prefix_of (code b) (code s2) /\ prefix_of (dict b) (dict s2) /\
    prefix_of (heap b) (heap s2) /\ suffix_of (ds b) (ds s2) /\ suffix_of (rs b) (rs s2) /\
    suffix_of (loops b) (loops s2) /\ suffix_of (special b) (special s2).
  Proof.
    intros E1 E2 CB. destruct (binv_start b m Hwf src) as (s1' & E1' & H1 & N1).
    rewrite E1 in E1'. injection E1' as <-.
    destruct Hwf as (Hin & Hdl & Hnr).
    pose proof (build1_inv fo pr rf b m Hm Hdl fuel (length (nested s1)) s1 H1 CB) as X.
    rewrite E2 in X. cbn [res_all] in X.
    destruct (build1_ok_exit fo pr rf _ _ _ _ E2) as (X1 & X2 & X3).
    destruct X as [[ms [E F]] B].
    assert (Ems : ms = []).
    { apply (f_equal (@length ctx)) in E. rewrite app_length in E. cbn [length] in E.
      destruct ms; [reflexivity|cbn [length] in E; lia]. }
    subst ms. cbn [app] in E. injection E as Ec En.
    destruct B as [H2 H3 H4 H5 H6 [new [H7 F7]] H8 H9 H10 H11 H12 H13].
    assert (Enew : new = []).
    { unfold has_pending_flow in X2. apply Nat.ltb_ge in X2. rewrite Ec in X2.
      cbn [tmp_ctx fs_len] in X2. rewrite H7, app_length in X2.
      destruct new; [reflexivity|cbn [length] in X2; lia]. }
    subst new. cbn [app] in H7.
    pose proof (kprefix_prefix _ _ Hnr H2) as H2p.
    repeat split; assumption.
  Qed.

  (* in particular the run that closes an evaluated source starts at the first instruction
     compiled for that source, not where an earlier line stopped or failed *)
  Theorem eval_runs_own_code fuel src s1 s2 :
    m = MEval ->
    (context_open m ;; intern_source src) b = ROk tt s1 ->
    build1 fo pr rf fuel (length (nested s1)) s1 = ROk tt s2 ->
    calls_bad fo pr rf (length (dict b)) fuel (length (nested s1)) s1 = false ->
    let s0 := set_nested s2 (nested b) in
    ip s0 = length (code b) /\ firstn (length (code b)) (code s0) = code b /\
    build_from_source fo pr rf fuel src m b =
      match run_m fo rf s0 with
      | ROk _ s3 => ROk tt (set_cx s3 (if mode_eqb (cmode (cx b)) MEval then set_ctx_ip (cx b) (ip s3) else cx b))
      | RErr k p s3 => RErr k p (set_cx s3 (if mode_eqb (cmode (cx b)) MEval then set_ctx_ip (cx b) (ip s3) else cx b))
      | RPanic => RPanic
      | RUnsup => RUnsup
      end.
  Proof.
    intros Em E1 E2 CB.
    destruct (build_ok_shape fuel src s1 s2 E1 E2 CB) as (Sc & Sn & _ & _ & Sp & _).
    cbv zeta. split; [|split].
    - unfold ip. st_simpl. rewrite Sc. reflexivity.
    - st_simpl. apply prefix_firstn_eq. exact Sp.
    - unfold build_from_source. cbv zeta. rewrite E1, E2. unfold context_close. rewrite Sn. cbv zeta.
      st_simpl. rewrite Sc. cbn [tmp_ctx cmode]. rewrite Em. reflexivity.
  Qed.
  (* a source that fails at RUN time (inside the run that closes an evaluated source) leaves
     the nesting, the input, the flow stack and the outer context (up to its ip, which stays
     at the failing instruction) as they were; the code and the dictionary have only grown *)
  Theorem eval_runtime_failure_shape fuel src s1 s2 k p s3 :
    m = MEval ->
    (context_open m ;; intern_source src) b = ROk tt s1 ->
    build1 fo pr rf fuel (length (nested s1)) s1 = ROk tt s2 ->
    calls_bad fo pr rf (length (dict b)) fuel (length (nested s1)) s1 = false ->
    run_m fo rf (set_nested s2 (nested b)) = RErr k p s3 ->
    exists s', build_from_source fo pr rf fuel src m b = RErr k p s' /\
      nested s' = nested b /\ input s' = [] /\ flows s' = flows b /\
      cx s' = (if mode_eqb (cmode (cx b)) MEval then set_ctx_ip (cx b) (ip s3) else cx b) /\
      prefix_of (code b) (code s') /\ prefix_of (dict b) (dict s') /\
      length (dbg s') = length (code s').
  Proof.
    intros Em E1 E2 CB ER.
    destruct (eval_runs_own_code fuel src s1 s2 Em E1 E2 CB) as (_ & _ & EB).
    cbv zeta in EB. rewrite ER in EB.
    destruct (build_ok_shape fuel src s1 s2 E1 E2 CB) as (Sc & Sn & Si & Sf & Sp & Sd & _).
    destruct (binv_start b m Hwf src) as (s1' & E1' & H1 & N1).
    rewrite E1 in E1'. injection E1' as <-.
    pose proof Hwf as (Hin & Hdl & Hnr).
    pose proof (build1_inv fo pr rf b m Hm Hdl fuel (length (nested s1)) s1 H1 CB) as X.
    rewrite E2 in X. cbn [res_all] in X.
    pose proof (run_m_frame fo rf (set_nested s2 (nested b))) as FR. rewrite ER in FR. cbn [res_all] in FR.
    destruct FR as (A1 & A2 & A3 & A4 & A5 & _ & _ & _ & _ & _ & _ & _ & _ & _ & _ & _ & _ & A18 & _).
    eexists. split; [exact EB|].
    cbn [set_cx nested input flows cx code dict dbg].
    cbn [set_nested nested input flows dict dbg code] in A1, A2, A3, A4, A5, A18.
    split; [congruence|]. split; [congruence|]. split; [congruence|]. split; [reflexivity|].
    split; [|split].
    - eapply code_keep_prefix; eauto.
    - rewrite A1. exact Sd.
    - rewrite A2. destruct A18 as [A18 _]. rewrite A18. exact (bi_dbglen b s2 (proj2 X)).
  Qed.
End Later.


(* ---------- the statements in the form used by Props/C10.v ---------- *)
Lemma mode_not_meta m : m = MEval \/ m = MCompile -> m <> MMeta.
Proof. intros [-> | ->]; discriminate. Qed.

Theorem rejected_source_restores : forall fo pr rf fuel src m s s1 k p s2,
  (m = MEval \/ m = MCompile) ->
  build_wf s ->
  (context_open m ;; intern_source src) s = ROk tt s1 ->
  build1 fo pr rf fuel (length (nested s1)) s1 = RErr k p s2 ->
  calls_bad fo pr rf (length (dict s)) fuel (length (nested s1)) s1 = false ->
  exists s', build_from_source fo pr rf fuel src m s = RErr k p s' /\ same_machine s s'.
Proof.
  intros fo pr rf fuel src m s s1 k p s2 Hm Hwf E1 E2 CB.
  eapply build_failure_restores; eauto using mode_not_meta.
Qed.

(* every build fails in one of two phases; the hypotheses of the theorem above single out
   the first.  This is the only other way for [build_from_source] to return an error. *)
Theorem build_error_phases : forall fo pr rf fuel src m s k p s',
  build_from_source fo pr rf fuel src m s = RErr k p s' ->
  exists s1, (context_open m ;; intern_source src) s = ROk tt s1 /\
    ((exists s2, build1 fo pr rf fuel (length (nested s1)) s1 = RErr k p s2 /\
                 s' = build_unwind (length (nested s)) (length (input s)) (length (ds s)) (length (heap s)) s2) \/
     (exists s2, build1 fo pr rf fuel (length (nested s1)) s1 = ROk tt s2 /\
                 context_close fo rf s2 = RErr k p s')).
Proof.
  intros fo pr rf fuel src m s k p s' H. unfold build_from_source in H. cbv zeta in H.
  destruct ((context_open m ;; intern_source src) s) as [u s1|k1 p1 s1| |] eqn:E1; try discriminate.
  destruct u. exists s1. split; [reflexivity|].
  destruct (build1 fo pr rf fuel (length (nested s1)) s1) as [u2 s2|k2 p2 s2| |] eqn:E2; try discriminate.
  - destruct u2. right. exists s2. split; [reflexivity|exact H].
  - injection H as <- <- <-. left. exists s2. split; reflexivity.
Qed.

(* the two statements about eval, with the mode fixed *)
Theorem eval_runs_own_code_E : forall fo pr rf s, build_wf s ->
  forall fuel src s1 s2,
  (context_open MEval ;; intern_source src) s = ROk tt s1 ->
  build1 fo pr rf fuel (length (nested s1)) s1 = ROk tt s2 ->
  calls_bad fo pr rf (length (dict s)) fuel (length (nested s1)) s1 = false ->
  let s0 := set_nested s2 (nested s) in
  ip s0 = length (code s) /\ firstn (length (code s)) (code s0) = code s /\
  eval fo pr rf fuel src s =
    match run_m fo rf s0 with
    | ROk _ s3 => ROk tt (set_cx s3 (if mode_eqb (cmode (cx s)) MEval then set_ctx_ip (cx s) (ip s3) else cx s))
    | RErr k p s3 => RErr k p (set_cx s3 (if mode_eqb (cmode (cx s)) MEval then set_ctx_ip (cx s) (ip s3) else cx s))
    | RPanic => RPanic
    | RUnsup => RUnsup
    end.
Proof.
  intros fo pr rf s Hwf fuel src s1 s2 E1 E2 CB.
  exact (eval_runs_own_code fo pr rf s MEval Hwf ltac:(discriminate) fuel src s1 s2 eq_refl E1 E2 CB).
Qed.

Theorem eval_runtime_failure_shape_E : forall fo pr rf s, build_wf s ->
  forall fuel src s1 s2 k p s3,
  (context_open MEval ;; intern_source src) s = ROk tt s1 ->
  build1 fo pr rf fuel (length (nested s1)) s1 = ROk tt s2 ->
  calls_bad fo pr rf (length (dict s)) fuel (length (nested s1)) s1 = false ->
  run_m fo rf (set_nested s2 (nested s)) = RErr k p s3 ->
  exists s', eval fo pr rf fuel src s = RErr k p s' /\
    nested s' = nested s /\ input s' = [] /\ flows s' = flows s /\
    cx s' = (if mode_eqb (cmode (cx s)) MEval then set_ctx_ip (cx s) (ip s3) else cx s) /\
    prefix_of (code s) (code s') /\ prefix_of (dict s) (dict s') /\
    length (dbg s') = length (code s').
Proof.
  intros fo pr rf s Hwf fuel src s1 s2 k p s3 E1 E2 CB ER.
  exact (eval_runtime_failure_shape fo pr rf s MEval Hwf ltac:(discriminate) fuel src s1 s2 k p s3 eq_refl E1 E2 CB ER).
Qed.
