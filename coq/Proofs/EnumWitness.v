(* EnumWitness.v (C10 / C11 / C15, `enum ... endenum`): machine-checked witnesses for the
   places where the enum builder forces a hypothesis (and for a repaired one), and concrete instances of what a
   well-formed enum does. *)
From Xeh Require Import Model.Prelude Model.Bits Model.Codec Model.Cell Model.Lexer Model.Fmt
                        Model.Vm Model.Words Model.Build Model.Boot.
From Xeh Require Import Proofs.VmFrame Proofs.VmLimits Proofs.NoPanic Proofs.NoPanicBuild Proofs.NoPanicFlow
                        Proofs.UnwindLists Proofs.UnwindFrame Proofs.UnwindInv Proofs.UnwindBuild Proofs.UnwindMain
                        Proofs.UnwindSimMain Proofs.UnwindWitness
                        Proofs.MetaBase Proofs.MetaPurge Proofs.MetaBuild Proofs.MetaClose Proofs.MetaPrefix
                        Proofs.MetaPrefixBuild Proofs.MetaPrefixWords Proofs.MetaBlock Proofs.MetaSeg
                        Proofs.MetaInline Proofs.MetaFindings.
Local Notation length := List.length.
Local Open Scope string_scope.
Local Open Scope list_scope.

(* ---------- the former finding E2 / D37 (C10): `endenum` runs code left in the enum's outer context ---------- *)
(* `#)` closes the inner block of the enum; `1 0 /` is then compiled in the outer meta context
   (not run: the enum entry is pending there); `#(` opens a block again; `endenum` closes it,
   pops the enum entry and closes the outer context, whose close runs `1 0 /`, which fails.
   Before the repair of context_close the failing close had popped the context stack without
   restoring the context, and the unwinding cut code and dictionary at the marks of the enum's
   context: the definition of f survived the rejected source.  Now the popped context is put
   back, the watch [calls_bad] does not report the source, and the rejected source is unwound
   completely. *)
Definition e2_src : string := ": f 1 ; 5 enum E #) 1 0 / #( endenum".

Theorem enum_close_repaired :
  build_wf boot /\
  (context_open MEval ;; intern_source e2_src) boot = ROk tt (wit_opened e2_src boot) /\
  wit_built e2_src boot = RErr EDivZero None (wit_state (wit_built e2_src boot)) /\
  calls_bad wit_fo wit_pr wit_rf (length (dict boot)) wit_fuel
            (length (nested (wit_opened e2_src boot))) (wit_opened e2_src boot) = false /\
  eval wit_fo wit_pr wit_rf wit_fuel e2_src boot = RErr EDivZero None (wit_unwound e2_src boot) /\
  dict_entry (wit_unwound e2_src boot) "f" = None /\
  same_machine boot (wit_unwound e2_src boot).
Proof.
  split; [apply wf_b_sound; vm_compute; reflexivity|].
  unfold same_machine. vm_compute. repeat split; reflexivity.
Qed.

(* ---------- E3 (C15): the data-stack check of `endenum` depends on the drive mode ---------- *)
Definition e3_s : state := wit_state (wit_eval "7" boot).
Definition e3_src : string := "#( endenum".

Theorem endenum_mode_refuted :
  ds e3_s = [CInt 7] /\
  (exists s, eval wit_fo wit_pr wit_rf wit_fuel e3_src e3_s = RErr EMsg None s) /\
  (exists s, compile wit_fo wit_pr wit_rf wit_fuel e3_src e3_s = RErr EFlow None s) /\
  calls_bad wit_fo wit_pr wit_rf 0 wit_fuel
            (length (nested (wit_opened e3_src e3_s))) (wit_opened e3_src e3_s) = true.
Proof. vm_compute. repeat split; try reflexivity; eexists; reflexivity. Qed.

(* ---------- C11: an enum word is not a token step of the three kinds ---------- *)
(* one token of build1, whatever the token *)
Definition rawstep (f : nat) : M unit :=
  pre_run fo0 1000 ;;
  let* t := get_token pr0 in
  match t with BEnd => fail EOther None | _ => tok_act fo0 pr0 1000 f t end.

Definition en_t0 : state := st_of ((context_open MEval ;; intern_source "#( enum E : A endenum #)") boot).
Definition en_ta : state := match get_token pr0 en_t0 with ROk _ s => s | _ => boot end.
Definition en_o1 : state := st_of (rawstep 10 en_t0).     (* after #(      : opened en_ta *)
Definition en_o2 : state := st_of (rawstep 10 en_o1).     (* after enum E  *)
Definition en_o3 : state := st_of (rawstep 10 en_o2).     (* after : A     *)
Definition en_o4 : state := st_of (rawstep 10 en_o3).     (* after endenum *)

Theorem enum_step_not_classified :
  Pre2 (length (code en_ta)) (length (dict en_ta)) en_o1 /\
  rawstep 10 en_o1 = ROk tt en_o2 /\ rawstep 10 en_o2 = ROk tt en_o3 /\ rawstep 10 en_o3 = ROk tt en_o4 /\
  depth en_o2 = S (S (depth en_o1)) /\ depth en_o3 = depth en_o2 /\ depth en_o4 = depth en_o1 /\
  ~ (R2 (length (code en_ta)) (length (dict en_ta)) en_o1 en_o2 \/
     (exists s2, R2 (length (code en_ta)) (length (dict en_ta)) en_o1 s2 /\ en_o2 = opened s2) \/
     closes fo0 1000 (length (code en_ta)) (length (dict en_ta)) en_o1 en_o2).
Proof.
  assert (E1 : en_o1 = opened en_ta) by (vm_compute; reflexivity).
  assert (W : wfm en_ta) by (unfold wfm; vm_compute; repeat split; lia).
  assert (C : cd_inv en_ta) by (unfold cd_inv; vm_compute; lia).
  assert (P : Pre2 (length (code en_ta)) (length (dict en_ta)) en_o1) by (rewrite E1; apply Pre2_opened; assumption).
  assert (D2 : depth en_o2 = S (S (depth en_o1))) by (vm_compute; reflexivity).
  split; [exact P|]. split; [vm_compute; reflexivity|]. split; [vm_compute; reflexivity|].
  split; [vm_compute; reflexivity|]. split; [exact D2|]. split; [vm_compute; reflexivity|].
  split; [vm_compute; reflexivity|].
  intros [H|[(s2 & H & E)|H]].
  - pose proof (R2_depth _ _ _ _ H). lia.
  - rewrite E, opened_depth, (R2_depth _ _ _ _ H) in D2. lia.
  - pose proof (closes_depth fo0 1000 _ _ _ _ P H). lia.
Qed.

(* ---------- what a well-formed enum does ---------- *)
(* on the boot state: the build succeeds; nothing is compiled or left on any stack; contexts,
   heap and flows are untouched; the dictionary gains exactly the constants (in the order the
   purge of the two field words leaves them: swap_remove), and `:` and `=` are the boot words
   again *)
Definition enum_facts (src : string) (consts : list dentry) : Prop :=
  match ev src boot with
  | ROk _ s =>
    dict s = dict boot ++ consts /\ code s = code boot /\ dbg s = dbg boot /\ heap s = heap boot /\
    ds s = ds boot /\ rs s = rs boot /\ loops s = loops boot /\ special s = special boot /\
    flows s = flows boot /\ nested s = nested boot /\ cx s = cx boot /\ input s = input boot /\
    dict_entry s ":" = dict_entry boot ":" /\ dict_entry s "=" = dict_entry boot "="
  | _ => False
  end.

Lemma ex_enum_plain :
  enum_facts "enum E : A : B : C endenum"
             [mkdent "C" (DConst (CInt 2)); mkdent "B" (DConst (CInt 1)); mkdent "A" (DConst (CInt 0))].
Proof. vm_compute. repeat split; reflexivity. Qed.

Lemma ex_enum_values :
  enum_facts "enum E 3 = A : B 10 = C : D endenum"
             [mkdent "D" (DConst (CInt 11)); mkdent "C" (DConst (CInt 10)); mkdent "A" (DConst (CInt 3));
              mkdent "B" (DConst (CInt 4))].
Proof. vm_compute. repeat split; reflexivity. Qed.

Lemma ex_enum_expr :
  enum_facts "enum E : A 1 = B A B + = C : D endenum"
             [mkdent "D" (DConst (CInt 2)); mkdent "C" (DConst (CInt 1)); mkdent "A" (DConst (CInt 0));
              mkdent "B" (DConst (CInt 1))].
Proof. vm_compute. repeat split; reflexivity. Qed.

Lemma ex_enum_empty : enum_facts "enum E endenum" [].
Proof. vm_compute. repeat split; reflexivity. Qed.

(* names that are not distinct: both constants are appended; the later one is found *)
Lemma ex_enum_dup :
  enum_facts "enum E : A : A endenum" [mkdent "A" (DConst (CInt 1)); mkdent "A" (DConst (CInt 0))] /\
  ds_of (ev "enum E : A : A endenum A" boot) = Some [CInt 0].
Proof. vm_compute. repeat split; reflexivity. Qed.

(* sealed like any meta block: the surrounding stack is neither seen nor changed *)
Lemma ex_enum_sealed :
  ds_of (ev "enum E depth = A endenum A" s9) = Some [CInt 0; CInt 9] /\
  (exists s, ev "enum E drop endenum" s9 = RErr EUnderflow None s /\ ds s = [CInt 9]).
Proof. vm_compute. split; [reflexivity|eexists; split; reflexivity]. Qed.

(* the two field words are gone after endenum: `:` defines a word again and `=` is unknown
   again (the boot dictionary has no word `=`) *)
Lemma ex_enum_purged :
  ds_of (ev "enum E : A endenum : g A 1 + ; g" boot) = Some [CInt 1] /\
  dict_entry boot "=" = None /\
  (exists s, ev "enum E : A endenum 1 = B" boot = RErr EUnknown None s).
Proof. vm_compute. split; [reflexivity|]. split; [reflexivity|eexists; reflexivity]. Qed.

(* inside a definition / a meta block / a vector the constants are compiled as literals *)
Lemma ex_enum_nested :
  ds_of (ev ": f enum E : A : B endenum A B + ; f" boot) = Some [CInt 1] /\
  ds_of (ev "#( enum E : A : B endenum A B + #)" boot) = Some [CInt 1] /\
  ds_of (ev "[ enum E : A : B endenum A B ]" boot) = Some [CVec [CInt 0; CInt 1]] /\
  ds_of (ev "enum E : A enum F : X : Y endenum : B endenum A B X Y" boot) = Some [CInt 1; CInt 0; CInt 1; CInt 0].
Proof. vm_compute. repeat split; reflexivity. Qed.
