(* StoreProofs.v (C03): the ownership protocol of Store.v keeps shared storage isolated.

   For every operation of Store.v:
     (1) [store_inv] (strong count = number of live handles; every live handle well formed)
         is preserved, where a consuming operation replaces its argument handle by its result;
     (2) no OTHER live handle changes what it denotes ([view], hence [habs]);
     (3) the result handle denotes what the list-level operation of Bits.v denotes.
   The per-operation lemmas are stated for a live list [h :: L] ("h and the others"); the
   pool lemmas at the end transport them to [pool_step] / [pool_run] through permutations. *)
From Xeh Require Import Model.Prelude Model.Bits Model.Store.
From Xeh Require Import Proofs.BitsBasic Proofs.BitsKernel Proofs.BitsLists Proofs.BitsMirror Proofs.BitsProofs.
From Coq Require Import Permutation ZifyBool ZifyNat ZifyN.

(* ---------- store access ---------- *)
Lemma sset_length : forall st p b, length (sset st p b) = length st.
Proof. induction st as [|x r IH]; intros [|p] b; cbn [sset length]; auto. Qed.

Lemma sget_sset_same : forall st p b, p < length st -> sget (sset st p b) p = b.
Proof.
  unfold sget. induction st as [|x r IH]; intros [|p] b H; cbn [length] in H; try lia;
    cbn [sset nth]; auto. apply IH. lia.
Qed.

Lemma sget_sset_other : forall st p q b, p <> q -> sget (sset st p b) q = sget st q.
Proof.
  unfold sget. induction st as [|x r IH]; intros [|p] [|q] b H; cbn [sset nth]; auto; try lia.
Qed.

Lemma sset_oob : forall st p b, length st <= p -> sset st p b = st.
Proof.
  induction st as [|x r IH]; intros [|p] b H; cbn [length] in H; cbn [sset]; auto; try lia.
  f_equal. apply IH. lia.
Qed.

Lemma sget_app_old st l p : p < length st -> sget (st ++ l) p = sget st p.
Proof. intros H. unfold sget. apply app_nth1. exact H. Qed.

Lemma sget_app_new st b : sget (st ++ [b]) (length st) = b.
Proof. unfold sget. rewrite app_nth2 by lia. rewrite Nat.sub_diag. reflexivity. Qed.

Lemma bbytes_sset_self st p s bo q :
  bbytes (sget (sset st p (mkbuf (bbytes (sget st p)) s bo)) q) = bbytes (sget st q).
Proof.
  destruct (Nat.eq_dec p q) as [->|Hne].
  - destruct (lt_dec q (length st)) as [Hlt|Hge].
    + rewrite sget_sset_same by exact Hlt. reflexivity.
    + rewrite sset_oob by lia. reflexivity.
  - rewrite sget_sset_other by exact Hne. reflexivity.
Qed.

Lemma incr_length st p : length (incr st p) = length st.
Proof. apply sset_length. Qed.
Lemma decr_length st p : length (decr st p) = length st.
Proof. apply sset_length. Qed.

Lemma bbytes_incr st p q : bbytes (sget (incr st p) q) = bbytes (sget st q).
Proof. apply bbytes_sset_self. Qed.
Lemma bbytes_decr st p q : bbytes (sget (decr st p) q) = bbytes (sget st q).
Proof. apply bbytes_sset_self. Qed.

Lemma strong_incr st p q : p < length st ->
  strong (sget (incr st p) q) = (if p =? q then 1 else 0) + strong (sget st q).
Proof.
  intros H. unfold incr. destruct (Nat.eq_dec p q) as [->|Hne].
  - rewrite sget_sset_same by exact H. rewrite Nat.eqb_refl. reflexivity.
  - rewrite sget_sset_other by exact Hne. replace (p =? q) with false by lia. reflexivity.
Qed.

Lemma strong_decr st p q : p < length st ->
  strong (sget (decr st p) q) = strong (sget st q) - (if p =? q then 1 else 0).
Proof.
  intros H. unfold decr. destruct (Nat.eq_dec p q) as [->|Hne].
  - rewrite sget_sset_same by exact H. rewrite Nat.eqb_refl. reflexivity.
  - rewrite sget_sset_other by exact Hne. replace (p =? q) with false by lia. lia.
Qed.

Lemma view_incr st p g : view (incr st p) g = view st g.
Proof. unfold view. rewrite bbytes_incr. reflexivity. Qed.
Lemma view_decr st p g : view (decr st p) g = view st g.
Proof. unfold view. rewrite bbytes_decr. reflexivity. Qed.

Lemma cbs_eta c : mkcbs (cstart c) (cend c) (cdata c) = c.
Proof. destruct c; reflexivity. Qed.

Lemma habs_of_view st st' g g' : view st' g' = view st g -> habs st' g' = habs st g.
Proof. unfold habs. intros ->. reflexivity. Qed.

(* ---------- counting live handles ---------- *)
Lemma count_ptr_app p a b : count_ptr p (a ++ b) = count_ptr p a + count_ptr p b.
Proof. induction a as [|h a IH]; cbn [app count_ptr]; [reflexivity|]. rewrite IH. lia. Qed.

Lemma count_ptr_perm p a b : Permutation a b -> count_ptr p a = count_ptr p b.
Proof. induction 1; cbn [count_ptr]; lia. Qed.

Lemma count_ptr_oob st L p :
  Forall (handle_wf st) L -> length st <= p -> count_ptr p L = 0.
Proof.
  induction 1 as [|h L Hh _ IH]; intros Hp; cbn [count_ptr]; [reflexivity|].
  destruct Hh as [Hh _]. rewrite IH by exact Hp. replace (hptr h =? p) with false by lia. reflexivity.
Qed.

Lemma count_ptr_zero p L g : count_ptr p L = 0 -> In g L -> hptr g <> p.
Proof.
  induction L as [|h L IH]; cbn [count_ptr In]; intros H Hin; [contradiction|].
  destruct Hin as [->|Hg].
  - destruct (hptr g =? p) eqn:E; lia.
  - apply IH; [lia|exact Hg].
Qed.

Lemma store_inv_perm st L L' : Permutation L L' -> store_inv st L -> store_inv st L'.
Proof.
  intros HP [H1 H2]. split.
  - intros p Hp. rewrite (H1 p Hp). apply count_ptr_perm. exact HP.
  - eapply Permutation_Forall; eassumption.
Qed.

Lemma remove_nth_length {A} : forall (l : list A) i, i < length l -> length (remove_nth l i) = length l - 1.
Proof.
  induction l as [|x l IH]; intros [|i] H; cbn [length] in *; cbn [remove_nth length]; try lia.
  rewrite IH by lia. lia.
Qed.

Lemma remove_nth_oob {A} : forall (l : list A) i, length l <= i -> remove_nth l i = l.
Proof.
  induction l as [|x l IH]; intros [|i] H; cbn [length] in *; cbn [remove_nth]; try lia; auto.
  f_equal. apply IH. lia.
Qed.

Lemma perm_nth_remove {A} (d : A) : forall l i, i < length l ->
  Permutation l (nth i l d :: remove_nth l i).
Proof.
  induction l as [|x l IH]; intros [|i] H; cbn [length] in H; try lia; cbn [nth remove_nth].
  - apply Permutation_refl.
  - apply (perm_trans (l' := x :: nth i l d :: remove_nth l i)).
    + apply perm_skip. apply IH. lia.
    + apply perm_swap.
Qed.

Lemma in_remove_nth {A} : forall (l : list A) i g, In g (remove_nth l i) -> In g l.
Proof.
  induction l as [|x l IH]; intros [|i] g; cbn [remove_nth In]; auto.
  intros [->|H]; [left; reflexivity|right; eapply IH; exact H].
Qed.

(* ---------- transporting well-formedness ---------- *)
Lemma handle_wf_transfer st st' g :
  handle_wf st g -> hptr g < length st' ->
  bbytes (sget st' (hptr g)) = bbytes (sget st (hptr g)) -> handle_wf st' g.
Proof.
  intros [H1 H2] Hl Hb. split; [exact Hl|]. unfold view in *. rewrite Hb. exact H2.
Qed.

Lemma store_inv_wf st L g : store_inv st L -> In g L -> handle_wf st g.
Proof. intros [_ H] Hg. rewrite Forall_forall in H. apply H. exact Hg. Qed.

(* ---------- the building blocks ---------- *)

(* one more handle on an existing buffer (clone, substr, the temporaries of insert) *)
Lemma inv_add st L p s e :
  store_inv st L -> p < length st -> wf (mkcbs s e (bbytes (sget st p))) ->
  store_inv (incr st p) (mkh p s e :: L).
Proof.
  intros [H1 H2] Hp Hw. split.
  - intros q Hq. rewrite incr_length in Hq. rewrite strong_incr by exact Hp.
    cbn [count_ptr hptr]. rewrite (H1 q Hq). reflexivity.
  - constructor.
    + split; [rewrite incr_length; exact Hp|]. unfold view. cbn [hptr hstart hend].
      rewrite bbytes_incr. exact Hw.
    + eapply Forall_impl; [|exact H2]. intros g Hg.
      apply (handle_wf_transfer st); [exact Hg|rewrite incr_length; apply Hg|apply bbytes_incr].
Qed.

(* a handle goes away *)
Lemma inv_drop st h L : store_inv st (h :: L) -> store_inv (decr st (hptr h)) L.
Proof.
  intros [H1 H2]. inversion H2 as [|? ? Hh HL]; subst. split.
  - intros q Hq. rewrite decr_length in Hq. rewrite strong_decr by apply Hh.
    rewrite (H1 q Hq). cbn [count_ptr]. destruct (hptr h =? q); lia.
  - eapply Forall_impl; [|exact HL]. intros g Hg.
    apply (handle_wf_transfer st); [exact Hg|rewrite decr_length; apply Hg|apply bbytes_decr].
Qed.

(* a fresh buffer with one handle *)
Lemma inv_alloc st L d bo s e :
  store_inv st L -> wf (mkcbs s e d) ->
  store_inv (st ++ [mkbuf d 1 bo]) (mkh (length st) s e :: L) /\
  (forall g, In g L -> view (st ++ [mkbuf d 1 bo]) g = view st g) /\
  view (st ++ [mkbuf d 1 bo]) (mkh (length st) s e) = mkcbs s e d.
Proof.
  intros [H1 H2] Hw.
  assert (HV : forall g, In g L -> view (st ++ [mkbuf d 1 bo]) g = view st g).
  { intros g Hg. unfold view. rewrite sget_app_old; [reflexivity|].
    rewrite Forall_forall in H2. apply (H2 g Hg). }
  assert (HN : view (st ++ [mkbuf d 1 bo]) (mkh (length st) s e) = mkcbs s e d).
  { unfold view. cbn [hptr hstart hend]. rewrite sget_app_new. reflexivity. }
  split; [|split; assumption]. split.
  - intros q Hq. rewrite app_length in Hq. cbn [length] in Hq. cbn [count_ptr hptr].
    destruct (Nat.eq_dec q (length st)) as [->|Hne].
    + rewrite sget_app_new. cbn [strong]. rewrite Nat.eqb_refl.
      rewrite (count_ptr_oob st L) by (assumption || lia). reflexivity.
    + rewrite sget_app_old by lia. replace (length st =? q) with false by lia.
      apply H1. lia.
  - constructor.
    + split; [rewrite app_length; cbn [length hptr]; lia|]. rewrite HN. exact Hw.
    + rewrite Forall_forall in *. intros g Hg. destruct (H2 g Hg) as [Ha Hb].
      split; [rewrite app_length; lia|]. rewrite (HV g Hg). exact Hb.
Qed.

(* the buffer of a uniquely owned handle is rewritten *)
Lemma inv_rewrite st h L d s e bo :
  store_inv st (h :: L) -> strong (sget st (hptr h)) = 1 -> wf (mkcbs s e d) ->
  store_inv (sset st (hptr h) (mkbuf d 1 bo)) (mkh (hptr h) s e :: L) /\
  (forall g, In g L -> view (sset st (hptr h) (mkbuf d 1 bo)) g = view st g) /\
  view (sset st (hptr h) (mkbuf d 1 bo)) (mkh (hptr h) s e) = mkcbs s e d.
Proof.
  intros [H1 H2] Hu Hw. inversion H2 as [|? ? Hh HL]; subst.
  destruct Hh as [Hp _].
  assert (Hz : count_ptr (hptr h) L = 0).
  { pose proof (H1 _ Hp) as E. cbn [count_ptr] in E. rewrite Nat.eqb_refl in E. lia. }
  assert (HV : forall g, In g L -> view (sset st (hptr h) (mkbuf d 1 bo)) g = view st g).
  { intros g Hg. unfold view. rewrite sget_sset_other; [reflexivity|].
    intros E. exact (count_ptr_zero _ _ _ Hz Hg (eq_sym E)). }
  assert (HN : view (sset st (hptr h) (mkbuf d 1 bo)) (mkh (hptr h) s e) = mkcbs s e d).
  { unfold view. cbn [hptr hstart hend]. rewrite sget_sset_same by exact Hp. reflexivity. }
  split; [|split; assumption]. split.
  - intros q Hq. rewrite sset_length in Hq. cbn [count_ptr hptr].
    destruct (Nat.eq_dec (hptr h) q) as [<-|Hne].
    + rewrite sget_sset_same by exact Hp. cbn [strong]. rewrite Nat.eqb_refl, Hz. reflexivity.
    + rewrite sget_sset_other by exact Hne. rewrite (H1 q Hq). cbn [count_ptr]. reflexivity.
  - constructor.
    + split; [rewrite sset_length; exact Hp|]. rewrite HN. exact Hw.
    + rewrite Forall_forall in *. intros g Hg. destruct (HL g Hg) as [Ha Hb].
      split; [rewrite sset_length; exact Ha|]. rewrite (HV g Hg). exact Hb.
Qed.

(* ---------- the operations ---------- *)

(* h_new *)
Lemma h_new_spec st L d bo st' h :
  store_inv st L -> bytes_ok d -> h_new st d bo = (st', h) ->
  store_inv st' (h :: L) /\ (forall g, In g L -> view st' g = view st g) /\
  view st' h = from_bytes d.
Proof.
  intros HI Hd E. unfold h_new, alloc in E. injection E as <- <-.
  apply inv_alloc; [exact HI|]. apply wf_mk; [lia|lia|exact Hd].
Qed.

(* h_clone: the argument stays live, the result is a second handle with the same view *)
Lemma h_clone_spec st h L st' h' :
  store_inv st (h :: L) -> h_clone st h = (st', h') ->
  store_inv st' (h' :: h :: L) /\ (forall g, view st' g = view st g) /\ h' = h.
Proof.
  intros HI E. unfold h_clone in E. injection E as <- <-.
  pose proof (store_inv_wf _ _ h HI (or_introl eq_refl)) as [Hp Hw].
  split; [|split; [intros g; apply view_incr|reflexivity]].
  destruct h as [p s e]. apply inv_add; assumption.
Qed.

(* h_drop *)
Lemma h_drop_spec st h L :
  store_inv st (h :: L) ->
  store_inv (h_drop st h) L /\ (forall g, view (h_drop st h) g = view st g).
Proof.
  intros HI. split; [apply inv_drop; exact HI|]. intros g. apply view_decr.
Qed.

(* h_substr: the argument stays live *)
Lemma h_substr_spec st h L s e :
  store_inv st (h :: L) ->
  match h_substr st h s e with
  | Some (st', h') =>
    s <= e /\ hstart h <= s /\ e <= hend h /\
    store_inv st' (h' :: h :: L) /\ (forall g, view st' g = view st g) /\
    habs st' h' = firstn (e - s) (skipn (s - hstart h) (habs st h))
  | None => ~ (s <= e /\ hstart h <= s /\ e <= hend h)
  end.
Proof.
  intros HI. pose proof (store_inv_wf _ _ h HI (or_introl eq_refl)) as [Hp Hw].
  unfold h_substr. pose proof (substr_spec (view st h) s e Hw) as HS.
  destruct (substr (view st h) s e) as [r|] eqn:E; [|exact HS].
  destruct HS as (A1 & A2 & A3 & Wr & Ar). cbn [view cstart cend] in A2, A3.
  assert (Er : r = mkcbs s e (bbytes (sget st (hptr h)))).
  { unfold substr in E. destruct (_ && _) in E; [|discriminate]. injection E as <-. reflexivity. }
  split; [exact A1|]. split; [exact A2|]. split; [exact A3|]. split; [|split].
  - apply inv_add; [exact HI|exact Hp|]. rewrite <- Er. exact Wr.
  - intros g. apply view_incr.
  - unfold habs at 1. unfold view at 1. cbn [hptr hstart hend]. rewrite bbytes_incr.
    rewrite <- Er. exact Ar.
Qed.

(* h_detach consumes [h]: in place iff uniquely owned AND starting at bit 0, otherwise a
   normalised copy (rebased to bit 0) *)
Lemma h_detach_spec st h L st' h' :
  store_inv st (h :: L) -> h_detach st h = (st', h') ->
  store_inv st' (h' :: L) /\ (forall g, In g L -> view st' g = view st g) /\
  habs st' h' = habs st h /\ strong (sget st' (hptr h')) = 1.
Proof.
  intros HI E. unfold h_detach in E.
  destruct ((strong (sget st (hptr h)) =? 1) && (hstart h =? 0)) eqn:Eu.
  - injection E as <- <-. split; [exact HI|]. split; [reflexivity|]. split; [reflexivity|lia].
  - pose proof (store_inv_wf _ _ h HI (or_introl eq_refl)) as [Hp Hw].
    destruct (detach_spec false (view st h) Hw) as [Wc Ac].
    set (c := detach false (view st h)) in *. unfold alloc in E. injection E as <- <-.
    apply inv_drop in HI.
    assert (Wc' : wf (mkcbs (cstart c) (cend c) (cdata c))) by (rewrite cbs_eta; exact Wc).
    destruct (inv_alloc _ _ (cdata c) false (cstart c) (cend c) HI Wc') as (I & V & N).
    split; [exact I|]. split; [|split].
    + intros g Hg. rewrite (V g Hg). apply view_decr.
    + unfold habs. rewrite N, cbs_eta. exact Ac.
    + cbn [hptr]. rewrite sget_app_new. reflexivity.
Qed.

(* whatever the strong count: the detached handle starts at bit 0 *)
Lemma h_detach_hstart st h st' h' : h_detach st h = (st', h') -> hstart h' = 0.
Proof.
  unfold h_detach. destruct ((strong (sget st (hptr h)) =? 1) && (hstart h =? 0)) eqn:Eu.
  - intros E. injection E as <- <-. lia.
  - unfold alloc. intros E. injection E as <- <-. cbn [hstart]. unfold detach. cbn [andb].
    destruct (clen (view st h) =? 0); reflexivity.
Qed.

(* h_make_mut consumes [h]: afterwards the buffer is uniquely owned; same range, same bytes *)
Lemma h_make_mut_spec st h L st' h' :
  store_inv st (h :: L) -> h_make_mut st h = (st', h') ->
  store_inv st' (h' :: L) /\ (forall g, In g L -> view st' g = view st g) /\
  view st' h' = view st h /\ strong (sget st' (hptr h')) = 1.
Proof.
  intros HI E. unfold h_make_mut in E.
  pose proof (store_inv_wf _ _ h HI (or_introl eq_refl)) as [Hp Hw].
  destruct (strong (sget st (hptr h)) =? 1) eqn:Eu.
  - injection E as <- <-.
    assert (Hu : strong (sget st (hptr h)) = 1) by lia.
    assert (Ww : wf (mkcbs (hstart h) (hend h) (bbytes (sget st (hptr h))))) by exact Hw.
    destruct (inv_rewrite st h L _ _ _ false HI Hu Ww) as (I & V & N).
    assert (Eh : mkh (hptr h) (hstart h) (hend h) = h) by (destruct h; reflexivity).
    rewrite Eh in I, N. split; [exact I|]. split; [exact V|]. split; [exact N|].
    rewrite sget_sset_same by exact Hp. reflexivity.
  - unfold alloc in E. injection E as <- <-.
    apply inv_drop in HI.
    assert (Ww : wf (mkcbs (hstart h) (hend h) (bbytes (sget st (hptr h))))) by exact Hw.
    destruct (inv_alloc _ _ _ false _ _ HI Ww) as (I & V & N).
    split; [exact I|]. split; [|split].
    + intros g Hg. rewrite (V g Hg). apply view_decr.
    + exact N.
    + cbn [hptr]. rewrite sget_app_new. reflexivity.
Qed.

(* h_append_bits_mut consumes [h]; [t] is another live handle and is only read *)
Lemma h_append_bits_mut_spec st h t L st' h' :
  store_inv st (h :: L) -> In t L -> h_append_bits_mut st h t = (st', h') ->
  store_inv st' (h' :: L) /\ (forall g, In g L -> view st' g = view st g) /\
  habs st' h' = habs st h ++ habs st t.
Proof.
  intros HI Ht E. unfold h_append_bits_mut in E.
  destruct (h_make_mut st h) as [st1 h1] eqn:E1.
  destruct (h_make_mut_spec _ _ _ _ _ HI E1) as (I1 & V1 & N1 & U1).
  pose proof (store_inv_wf _ _ h1 I1 (or_introl eq_refl)) as [Hp1 Hw1].
  pose proof (store_inv_wf _ _ t I1 (or_intror Ht)) as [Hpt Hwt].
  destruct (append_bits_mut_spec _ _ Hw1 Hwt) as [Wc Ac].
  set (c := append_bits_mut (view st1 h1) (view st1 t)) in *.
  rewrite U1 in E. injection E as <- <-.
  assert (Wc' : wf (mkcbs (cstart c) (cend c) (cdata c))) by (rewrite cbs_eta; exact Wc).
  destruct (inv_rewrite st1 h1 L _ _ _ false I1 U1 Wc') as (I & V & N).
  split; [exact I|]. split; [|].
  - intros g Hg. rewrite (V g Hg). apply V1. exact Hg.
  - unfold habs at 1. rewrite N, cbs_eta, Ac. unfold habs. rewrite N1, (V1 t Ht). reflexivity.
Qed.

(* h_append = detach, then append in place *)
Lemma h_append_spec st h t L st' h' :
  store_inv st (h :: L) -> In t L -> h_append st h t = (st', h') ->
  store_inv st' (h' :: L) /\ (forall g, In g L -> view st' g = view st g) /\
  habs st' h' = habs st h ++ habs st t.
Proof.
  intros HI Ht E. unfold h_append in E.
  destruct (h_detach st h) as [st1 h1] eqn:E1.
  destruct (h_detach_spec _ _ _ _ _ HI E1) as (I1 & V1 & A1 & _).
  destruct (h_append_bits_mut_spec _ _ _ _ _ _ I1 Ht E) as (I & V & A).
  split; [exact I|]. split.
  - intros g Hg. rewrite (V g Hg). apply V1. exact Hg.
  - rewrite A, A1. unfold habs at 2. rewrite (V1 t Ht). reflexivity.
Qed.

(* h_invert = detach, make unique, flip the bits of the range in place *)
Lemma h_invert_spec st h L st' h' :
  store_inv st (h :: L) -> h_invert st h = (st', h') ->
  store_inv st' (h' :: L) /\ (forall g, In g L -> view st' g = view st g) /\
  habs st' h' = map negb (habs st h).
Proof.
  intros HI E. unfold h_invert in E.
  destruct (h_detach st h) as [st1 h1] eqn:E1.
  destruct (h_detach_spec _ _ _ _ _ HI E1) as (I1 & V1 & A1 & _).
  destruct (h_make_mut st1 h1) as [st2 h2] eqn:E2.
  destruct (h_make_mut_spec _ _ _ _ _ I1 E2) as (I2 & V2 & N2 & U2).
  pose proof (store_inv_wf _ _ h2 I2 (or_introl eq_refl)) as [Hp2 Hw2].
  destruct (invert_spec true (view st2 h2) Hw2) as [Wc Ac].
  cbv zeta in E. rewrite U2 in E. injection E as <- <-.
  assert (D : detach true (view st2 h2) = view st2 h2).
  { unfold detach. rewrite N2. cbn [view cstart]. rewrite (h_detach_hstart _ _ _ _ E1). reflexivity. }
  unfold invert in Wc, Ac. cbv zeta in Wc, Ac. rewrite D in Wc, Ac.
  destruct (inv_rewrite st2 h2 L _ _ _ false I2 U2 Wc) as (I & V & N).
  assert (Eh : mkh (hptr h2) (cstart (view st2 h2)) (cend (view st2 h2)) = h2)
    by (destruct h2; reflexivity).
  rewrite Eh in I, N.
  split; [exact I|]. split.
  - intros g Hg. transitivity (view st2 g); [exact (V g Hg)|].
    rewrite (V2 g Hg). apply V1. exact Hg.
  - transitivity (abs (mkcbs (cstart (view st2 h2)) (cend (view st2 h2))
                        (xor_bits (cdata (view st2 h2)) (cstart (view st2 h2)) (clen (view st2 h2)))));
      [unfold habs; f_equal; exact N|].
    rewrite Ac.
    rewrite N2. fold (habs st1 h1). rewrite A1. reflexivity.
Qed.

Lemma split_at_inv c i l r : split_at c i = Some (l, r) ->
  l = mkcbs (cstart c) (cstart c + i) (cdata c) /\ r = mkcbs (cstart c + i) (cend c) (cdata c).
Proof.
  unfold split_at. destruct (cend c <? cstart c + i); [discriminate|].
  intros E. injection E as <- <-. split; reflexivity.
Qed.

(* h_insert consumes [h]; [s] is another live handle and is only read *)
Lemma h_insert_spec st h i s L :
  store_inv st (h :: L) -> In s L ->
  match h_insert st h i s with
  | Some (st', h') =>
    i <= hend h - hstart h /\
    store_inv st' (h' :: L) /\ (forall g, In g L -> view st' g = view st g) /\
    habs st' h' = firstn i (habs st h) ++ habs st s ++ skipn i (habs st h)
  | None => hend h - hstart h < i
  end.
Proof.
  intros HI Hs. pose proof (store_inv_wf _ _ h HI (or_introl eq_refl)) as [Hp Hw].
  unfold h_insert. pose proof (split_at_spec (view st h) i Hw) as HS.
  destruct (split_at (view st h) i) as [[l r]|] eqn:Es; [|exact HS].
  destruct HS as (Hi & Wl & Wr & Al & Ar).
  destruct (split_at_inv _ _ _ _ Es) as [El Er].
  cbn [view cstart cend cdata] in El, Er.
  set (p := hptr h) in *.
  set (hl := mkh p (cstart l) (cend l)). set (hr := mkh p (cstart r) (cend r)).
  (* the two temporaries become live *)
  assert (I0 : store_inv (incr (incr st p) p) (hl :: hr :: h :: L)).
  { apply inv_add.
    - apply inv_add; [exact HI|exact Hp|]. rewrite Er in Wr |- *. exact Wr.
    - rewrite incr_length. exact Hp.
    - rewrite bbytes_incr. rewrite El in Wl |- *. exact Wl. }
  assert (V0 : forall g, view (incr (incr st p) p) g = view st g).
  { intros g. rewrite !view_incr. reflexivity. }
  set (st1 := incr (incr st p) p) in *.
  assert (Vl : view st1 hl = l).
  { rewrite V0. unfold view, hl. cbn [hptr hstart hend]. rewrite El. reflexivity. }
  assert (Vr : view st1 hr = r).
  { rewrite V0. unfold view, hr. cbn [hptr hstart hend]. rewrite Er. reflexivity. }
  destruct (h_detach st1 hl) as [st2 h2] eqn:E2.
  destruct (h_detach_spec _ _ _ _ _ I0 E2) as (I2 & V2 & A2 & _).
  destruct (h_append_bits_mut st2 h2 s) as [st3 h3] eqn:E3.
  assert (Hs' : In s (hr :: h :: L)) by (right; right; exact Hs).
  destruct (h_append_bits_mut_spec _ _ _ _ _ _ I2 Hs' E3) as (I3 & V3 & A3).
  destruct (h_append_bits_mut st3 h3 hr) as [st4 h4] eqn:E4.
  assert (Hr' : In hr (hr :: h :: L)) by (left; reflexivity).
  destruct (h_append_bits_mut_spec _ _ _ _ _ _ I3 Hr' E4) as (I4 & V4 & A4).
  assert (VV : forall g, In g (hr :: h :: L) -> view st4 g = view st g).
  { intros g Hg. rewrite (V4 g Hg), (V3 g Hg), (V2 g Hg). apply V0. }
  split; [unfold clen in Hi; cbn [view cstart cend] in Hi; exact Hi|]. split; [|split].
  - (* drop the right part and the original value *)
    assert (P : Permutation (h4 :: hr :: h :: L) (hr :: h :: h4 :: L)).
    { apply Permutation_sym. eapply perm_trans; [apply perm_skip, perm_swap|]. apply perm_swap. }
    apply (store_inv_perm _ _ _ P) in I4.
    apply inv_drop in I4. apply inv_drop in I4. exact I4.
  - intros g Hg. rewrite !view_decr. apply VV. right; right; exact Hg.
  - unfold habs at 1. rewrite !view_decr. fold (habs st4 h4).
    rewrite A4, A3, A2. unfold habs. rewrite Vl.
    rewrite (V3 hr Hr'), (V2 hr Hr'), Vr.
    rewrite (V2 s Hs'), V0. rewrite Al, Ar. rewrite <- app_assoc. reflexivity.
Qed.

(* ---------- the pool: every operation of the language ---------- *)

(* buffers hold bytes *)
Definition pop_ok (o : pop) : Prop :=
  match o with PNew d _ => Forall (fun x => (x < 256)%N) d | _ => True end.

(* the index of the handle an operation consumes *)
Definition consumes (o : pop) : option nat :=
  match o with
  | PDrop i | PDetach i | PAppend i _ | PInvert i | PInsert i _ _ => Some i
  | _ => None
  end.

Definition survivors (live : list handle) (o : pop) : list handle :=
  match consumes o with Some i => remove_nth live i | None => live end.

(* whether the operation applies: indices in range, ranges valid (buffer coordinates) *)
Definition pool_enabled (live : list handle) (o : pop) : bool :=
  let geth i := nth i live (mkh 0 0 0) in
  match o with
  | PNew _ _ => true
  | PClone i | PDrop i | PDetach i | PInvert i => i <? length live
  | PSubstr i s e =>
    (i <? length live) && ((s <=? e) && (hstart (geth i) <=? s) && (e <=? hend (geth i)))
  | PAppend i j => (i <? length live) && (j <? length live) && negb (i =? j)
  | PInsert i k j =>
    (i <? length live) && (j <? length live) && negb (i =? j) &&
    (k <=? hend (geth i) - hstart (geth i))
  end.

(* what the new handle denotes, on lists of bits *)
Definition pool_result (st : store) (live : list handle) (o : pop) : list (list bool) :=
  let v i := habs st (nth i live (mkh 0 0 0)) in
  match o with
  | PNew d _ => [abs (from_bytes d)]
  | PClone i => [v i]
  | PDrop _ => []
  | PSubstr i s e => [firstn (e - s) (skipn (s - hstart (nth i live (mkh 0 0 0))) (v i))]
  | PDetach i => [v i]
  | PAppend i j => [v i ++ v j]
  | PInvert i => [map negb (v i)]
  | PInsert i k j => [firstn k (v i) ++ v j ++ skipn k (v i)]
  end.

Lemma nth_in_remove_nth {A} (d : A) : forall l i j, i <> j -> j < length l ->
  In (nth j l d) (remove_nth l i).
Proof.
  induction l as [|x l IH]; intros [|i] [|j] Hne Hj; cbn [length] in Hj; try lia;
    cbn [remove_nth nth In].
  - apply nth_In. lia.
  - left. reflexivity.
  - right. apply IH; lia.
Qed.

Lemma perm_snoc_keep {A} (h h' : A) l rem :
  Permutation l (h :: rem) -> Permutation (h' :: h :: rem) (l ++ [h']).
Proof.
  intros P. eapply perm_trans; [apply perm_skip, Permutation_sym, P|].
  apply Permutation_cons_append.
Qed.

Lemma pool_step_spec st live o st' live' :
  store_inv st live -> pop_ok o -> pool_step (st, live) o = (st', live') ->
  store_inv st' live' /\
  if pool_enabled live o then
    exists res, live' = survivors live o ++ res /\
      (forall g, In g (survivors live o) -> view st' g = view st g) /\
      map (habs st') res = pool_result st live o
  else st' = st /\ live' = live.
Proof.
  intros HI Hok E. set (d0 := mkh 0 0 0).
  assert (NOOP : (st, live) = (st', live') -> store_inv st' live' /\ st' = st /\ live' = live).
  { intros E0. injection E0 as <- <-. split; [exact HI|split; reflexivity]. }
  destruct o as [d bo|i|i|i s e|i|i j|i|i k j]; unfold pool_step in E; fold d0 in E;
    unfold pool_enabled, survivors, pool_result; cbn [consumes]; fold d0.
  - (* PNew *)
    destruct (h_new st d bo) as [st1 h] eqn:E1. injection E as <- <-.
    destruct (h_new_spec _ _ _ _ _ _ HI Hok E1) as (I & V & N). split.
    + eapply store_inv_perm; [apply Permutation_cons_append|exact I].
    + exists [h]. split; [reflexivity|]. split; [exact V|]. cbn [map]. unfold habs. rewrite N. reflexivity.
  - (* PClone *)
    destruct (i <? length live) eqn:Ei; [|apply NOOP; exact E].
    pose proof (perm_nth_remove d0 live i ltac:(lia)) as P.
    destruct (h_clone st (nth i live d0)) as [st1 h] eqn:E1. injection E as <- <-.
    destruct (h_clone_spec _ _ _ _ _ (store_inv_perm _ _ _ P HI) E1) as (I & V & ->). split.
    + eapply store_inv_perm; [apply perm_snoc_keep, P|exact I].
    + exists [nth i live d0]. split; [reflexivity|]. split; [intros g _; apply V|].
      cbn [map]. unfold habs. rewrite V. reflexivity.
  - (* PDrop *)
    destruct (i <? length live) eqn:Ei; [|apply NOOP; exact E].
    pose proof (perm_nth_remove d0 live i ltac:(lia)) as P.
    injection E as <- <-.
    destruct (h_drop_spec _ _ _ (store_inv_perm _ _ _ P HI)) as (I & V). split; [exact I|].
    exists []. split; [rewrite app_nil_r; reflexivity|]. split; [intros g _; apply V|reflexivity].
  - (* PSubstr *)
    destruct (i <? length live) eqn:Ei; [|apply NOOP; exact E].
    pose proof (perm_nth_remove d0 live i ltac:(lia)) as P.
    pose proof (h_substr_spec _ _ _ s e (store_inv_perm _ _ _ P HI)) as HS.
    destruct (h_substr st (nth i live d0) s e) as [[st1 h]|].
    + injection E as <- <-. destruct HS as (A1 & A2 & A3 & I & V & A).
      cbn [andb]. replace ((s <=? e) && (hstart (nth i live d0) <=? s) && (e <=? hend (nth i live d0)))
        with true by lia. split.
      * eapply store_inv_perm; [apply perm_snoc_keep, P|exact I].
      * exists [h]. split; [reflexivity|]. split; [intros g _; apply V|].
        cbn [map]. rewrite A. reflexivity.
    + cbn [andb].
      replace ((s <=? e) && (hstart (nth i live d0) <=? s) && (e <=? hend (nth i live d0)))
        with false by lia. apply NOOP; exact E.
  - (* PDetach *)
    destruct (i <? length live) eqn:Ei; [|apply NOOP; exact E].
    pose proof (perm_nth_remove d0 live i ltac:(lia)) as P.
    destruct (h_detach st (nth i live d0)) as [st1 h] eqn:E1. injection E as <- <-.
    destruct (h_detach_spec _ _ _ _ _ (store_inv_perm _ _ _ P HI) E1) as (I & V & A & _). split.
    + eapply store_inv_perm; [apply Permutation_cons_append|exact I].
    + exists [h]. split; [reflexivity|]. split; [exact V|]. cbn [map]. rewrite A. reflexivity.
  - (* PAppend *)
    destruct ((i <? length live) && (j <? length live) && negb (i =? j)) eqn:Ec;
      [|apply NOOP; exact E].
    pose proof (perm_nth_remove d0 live i ltac:(lia)) as P.
    assert (Hj : In (nth j live d0) (remove_nth live i)) by (apply nth_in_remove_nth; lia).
    destruct (h_append st (nth i live d0) (nth j live d0)) as [st1 h] eqn:E1. injection E as <- <-.
    destruct (h_append_spec _ _ _ _ _ _ (store_inv_perm _ _ _ P HI) Hj E1) as (I & V & A). split.
    + eapply store_inv_perm; [apply Permutation_cons_append|exact I].
    + exists [h]. split; [reflexivity|]. split; [exact V|]. cbn [map]. rewrite A. reflexivity.
  - (* PInvert *)
    destruct (i <? length live) eqn:Ei; [|apply NOOP; exact E].
    pose proof (perm_nth_remove d0 live i ltac:(lia)) as P.
    destruct (h_invert st (nth i live d0)) as [st1 h] eqn:E1. injection E as <- <-.
    destruct (h_invert_spec _ _ _ _ _ (store_inv_perm _ _ _ P HI) E1) as (I & V & A). split.
    + eapply store_inv_perm; [apply Permutation_cons_append|exact I].
    + exists [h]. split; [reflexivity|]. split; [exact V|]. cbn [map]. rewrite A. reflexivity.
  - (* PInsert *)
    destruct ((i <? length live) && (j <? length live) && negb (i =? j)) eqn:Ec;
      [|apply NOOP; exact E].
    pose proof (perm_nth_remove d0 live i ltac:(lia)) as P.
    assert (Hj : In (nth j live d0) (remove_nth live i)) by (apply nth_in_remove_nth; lia).
    pose proof (h_insert_spec _ _ k _ _ (store_inv_perm _ _ _ P HI) Hj) as HS.
    destruct (h_insert st (nth i live d0) k (nth j live d0)) as [[st1 h]|].
    + injection E as <- <-. destruct HS as (A1 & I & V & A). cbn [andb].
      replace (k <=? hend (nth i live d0) - hstart (nth i live d0)) with true by lia. split.
      * eapply store_inv_perm; [apply Permutation_cons_append|exact I].
      * exists [h]. split; [reflexivity|]. split; [exact V|]. cbn [map]. rewrite A. reflexivity.
    + cbn [andb].
      replace (k <=? hend (nth i live d0) - hstart (nth i live d0)) with false by lia.
      apply NOOP; exact E.
Qed.

(* (1) the invariant, for one operation and for runs *)
Theorem pool_step_inv : forall st live o,
  store_inv st live -> pop_ok o ->
  let '(st', live') := pool_step (st, live) o in store_inv st' live'.
Proof.
  intros st live o HI Hok. destruct (pool_step (st, live) o) as [st' live'] eqn:E.
  exact (proj1 (pool_step_spec _ _ _ _ _ HI Hok E)).
Qed.

Lemma store_inv_empty : store_inv [] [].
Proof. split; [intros p Hp; cbn [length] in Hp; lia|constructor]. Qed.

Lemma pool_fold_inv : forall ops sp,
  store_inv (fst sp) (snd sp) -> Forall pop_ok ops ->
  store_inv (fst (fold_left pool_step ops sp)) (snd (fold_left pool_step ops sp)).
Proof.
  induction ops as [|o ops IH]; intros [st live] HI HF; cbn [fold_left]; [exact HI|].
  inversion HF as [|? ? Ho HF']; subst. apply IH; [|exact HF'].
  pose proof (pool_step_inv st live o HI Ho) as H.
  destruct (pool_step (st, live) o) as [st' live']. exact H.
Qed.

Theorem pool_run_inv : forall ops, Forall pop_ok ops ->
  store_inv (fst (pool_run ops)) (snd (pool_run ops)).
Proof. intros ops HF. unfold pool_run. apply pool_fold_inv; [exact store_inv_empty|exact HF]. Qed.

(* (2) isolation: a handle that is not the consumed one keeps its place among the
   survivors and denotes the same bits afterwards *)
Theorem pool_step_isolation : forall st live o st' live' g,
  store_inv st live -> pop_ok o -> pool_step (st, live) o = (st', live') ->
  In g (survivors live o) -> habs st' g = habs st g /\ In g live'.
Proof.
  intros st live o st' live' g HI Hok E Hg.
  destruct (pool_step_spec _ _ _ _ _ HI Hok E) as [_ H].
  destruct (pool_enabled live o).
  - destruct H as (res & -> & V & _). split; [apply habs_of_view, V, Hg|].
    apply in_or_app. left. exact Hg.
  - destruct H as [-> ->]. split; [reflexivity|].
    unfold survivors in Hg. destruct (consumes o); [eapply in_remove_nth; exact Hg|exact Hg].
Qed.

Lemma nth_error_remove_nth {A} : forall (l : list A) i k, k <> i ->
  nth_error (remove_nth l i) (if i <? k then k - 1 else k) = nth_error l k.
Proof.
  induction l as [|x l IH]; intros [|i] [|k] Hne; try lia; cbn [remove_nth].
  - destruct (if 0 <? S k then S k - 1 else S k); reflexivity.
  - destruct (if S i <? 0 then 0 - 1 else 0); reflexivity.
  - destruct (if S i <? S k then S k - 1 else S k); reflexivity.
  - replace (0 <? S k) with true by lia. cbn [nth_error]. f_equal. lia.
  - reflexivity.
  - specialize (IH i k ltac:(lia)).
    destruct (i <? k) eqn:E1.
    + replace (S i <? S k) with true by lia. destruct k as [|k]; [lia|].
      replace (S (S k) - 1) with (S (S k - 1)) by lia. cbn [nth_error]. exact IH.
    + replace (S i <? S k) with false by lia. cbn [nth_error]. exact IH.
Qed.

(* where handle number k of the pool is after the operation; None = consumed *)
Definition track (live : list handle) (o : pop) (k : nat) : option nat :=
  if pool_enabled live o then
    match consumes o with
    | Some i => if k =? i then None else Some (if i <? k then k - 1 else k)
    | None => Some k
    end
  else Some k.

Theorem pool_step_track : forall st live o st' live' k k' g,
  store_inv st live -> pop_ok o -> pool_step (st, live) o = (st', live') ->
  nth_error live k = Some g -> track live o k = Some k' ->
  nth_error live' k' = Some g /\ habs st' g = habs st g.
Proof.
  intros st live o st' live' k k' g HI Hok E Hk Ht.
  destruct (pool_step_spec _ _ _ _ _ HI Hok E) as [_ H]. unfold track in Ht.
  destruct (pool_enabled live o).
  - destruct H as (res & -> & V & _). unfold survivors in *.
    assert (HS : nth_error (match consumes o with Some i => remove_nth live i | None => live end) k' = Some g).
    { destruct (consumes o) as [i|].
      - destruct (k =? i) eqn:Eki; [discriminate|]. injection Ht as <-.
        rewrite nth_error_remove_nth by lia. exact Hk.
      - injection Ht as <-. exact Hk. }
    split.
    + rewrite nth_error_app1; [exact HS|]. apply nth_error_Some. rewrite HS. discriminate.
    + apply habs_of_view, V. eapply nth_error_In. exact HS.
  - destruct H as [-> ->]. injection Ht as <-. split; [exact Hk|reflexivity].
Qed.

(* a snapshot handle through a whole run of operations on the pool *)
Fixpoint survives (ops : list pop) (sp : store * list handle) (k : nat) : option nat :=
  match ops with
  | [] => Some k
  | o :: r => match track (snd sp) o k with
              | Some k' => survives r (pool_step sp o) k'
              | None => None
              end
  end.

Theorem pool_snapshot : forall ops st live k k' g,
  store_inv st live -> Forall pop_ok ops ->
  nth_error live k = Some g -> survives ops (st, live) k = Some k' ->
  let '(st', live') := fold_left pool_step ops (st, live) in
  nth_error live' k' = Some g /\ habs st' g = habs st g.
Proof.
  induction ops as [|o ops IH]; intros st live k k' g HI HF Hk Hs; cbn [fold_left survives] in *.
  - injection Hs as <-. split; [exact Hk|reflexivity].
  - inversion HF as [|? ? Ho HF']; subst. cbn [snd] in Hs.
    destruct (track live o k) as [k1|] eqn:Et; [|discriminate].
    destruct (pool_step (st, live) o) as [st1 live1] eqn:E1.
    destruct (pool_step_track _ _ _ _ _ _ _ _ HI Ho E1 Hk Et) as [Hk1 A1].
    pose proof (proj1 (pool_step_spec _ _ _ _ _ HI Ho E1)) as I1.
    specialize (IH st1 live1 k1 k' g I1 HF' Hk1 Hs).
    destruct (fold_left pool_step ops (st1, live1)) as [st' live'].
    destruct IH as [A B]. split; [exact A|]. rewrite B. exact A1.
Qed.

(* (3) the whole pool evolves as the list-level semantics says *)
Theorem pool_view_step : forall st live o,
  store_inv st live -> pop_ok o ->
  pool_view (pool_step (st, live) o) =
  if pool_enabled live o then map (habs st) (survivors live o) ++ pool_result st live o
  else pool_view (st, live).
Proof.
  intros st live o HI Hok. destruct (pool_step (st, live) o) as [st' live'] eqn:E.
  destruct (pool_step_spec _ _ _ _ _ HI Hok E) as [_ H].
  destruct (pool_enabled live o).
  - destruct H as (res & -> & V & R). unfold pool_view. cbn [fst snd].
    rewrite map_app, R. f_equal. apply map_ext_in. intros g Hg. apply habs_of_view, V, Hg.
  - destruct H as [-> ->]. reflexivity.
Qed.

Theorem pool_disabled_noop : forall st live o,
  pool_enabled live o = false -> pool_step (st, live) o = (st, live).
Proof.
  intros st live o H. set (d0 := mkh 0 0 0).
  destruct o as [d bo|i|i|i s e|i|i j|i|i k j]; unfold pool_enabled in H; unfold pool_step; fold d0 in H |- *;
    try discriminate; try (rewrite H; reflexivity).
  - destruct (i <? length live); [|reflexivity]. cbn [andb] in H.
    unfold h_substr, substr. cbn [view cstart cend]. rewrite H. reflexivity.
  - destruct ((i <? length live) && (j <? length live) && negb (i =? j)); [|reflexivity].
    cbn [andb] in H. unfold h_insert, split_at. cbn [view cstart cend].
    replace (hend (nth i live d0) <? hstart (nth i live d0) + k) with true by lia. reflexivity.
Qed.

(* ---------- the link to the value-level mirror used by the interpreter model ----------
   Words.v applies [Bits.append false], [invert false] to VALUES; whatever the sharing
   situation in the store ([u] = any answer of Rc::strong_count == 1), the handle
   operation denotes the same bits as the value-level operation on the operands' views. *)
Theorem store_append_refines : forall st h t L st' h' u,
  store_inv st (h :: L) -> In t L -> h_append st h t = (st', h') ->
  habs st' h' = abs (Bits.append u (view st h) (view st t)).
Proof.
  intros st h t L st' h' u HI Ht E.
  destruct (h_append_spec _ _ _ _ _ _ HI Ht E) as (_ & _ & A).
  destruct (store_inv_wf _ _ h HI (or_introl eq_refl)) as [_ Wh].
  destruct (store_inv_wf _ _ t HI (or_intror Ht)) as [_ Wt].
  destruct (append_spec u _ _ Wh Wt) as [_ B]. rewrite A, B. reflexivity.
Qed.

Theorem store_invert_refines : forall st h L st' h' u,
  store_inv st (h :: L) -> h_invert st h = (st', h') ->
  habs st' h' = abs (invert u (view st h)).
Proof.
  intros st h L st' h' u HI E.
  destruct (h_invert_spec _ _ _ _ _ HI E) as (_ & _ & A).
  destruct (store_inv_wf _ _ h HI (or_introl eq_refl)) as [_ Wh].
  destruct (invert_spec u _ Wh) as [_ B]. rewrite A, B. reflexivity.
Qed.

Theorem store_insert_refines : forall st h i s L u,
  store_inv st (h :: L) -> In s L ->
  match h_insert st h i s, insert u (view st h) i (view st s) with
  | Some (st', h'), Some r => habs st' h' = abs r
  | None, None => True
  | _, _ => False
  end.
Proof.
  intros st h i s L u HI Hs.
  destruct (store_inv_wf _ _ h HI (or_introl eq_refl)) as [_ Wh].
  destruct (store_inv_wf _ _ s HI (or_intror Hs)) as [_ Ws].
  pose proof (h_insert_spec _ _ i _ _ HI Hs) as H1.
  pose proof (insert_spec u _ i _ Wh Ws) as H2. unfold clen in H2. cbn [view cstart cend] in H2.
  destruct (h_insert st h i s) as [[st' h']|]; destruct (insert u (view st h) i (view st s)) as [r|].
  - destruct H1 as (_ & _ & _ & A). destruct H2 as (_ & _ & B). rewrite A, B. reflexivity.
  - destruct H1 as [H1 _]. lia.
  - destruct H2 as [H2 _]. lia.
  - exact I.
Qed.

(* ---------- when detach / make_mut copy ---------- *)
Lemma count_ptr_zero_iff p L : count_ptr p L = 0 <-> (forall g, In g L -> hptr g <> p).
Proof.
  split; [intros H g Hg; eapply count_ptr_zero; eassumption|].
  induction L as [|h L IH]; intros H; cbn [count_ptr]; [reflexivity|].
  rewrite IH by (intros g Hg; apply H; right; exact Hg).
  pose proof (H h (or_introl eq_refl)). destruct (hptr h =? p) eqn:E; lia.
Qed.

(* under the invariant, "uniquely owned" means that no other live handle is on the buffer *)
Theorem unique_iff_unshared : forall st h L, store_inv st (h :: L) ->
  (strong (sget st (hptr h)) = 1 <-> forall g, In g L -> hptr g <> hptr h).
Proof.
  intros st h L HI. pose proof (store_inv_wf _ _ h HI (or_introl eq_refl)) as [Hp _].
  destruct HI as [H1 _]. rewrite (H1 _ Hp). cbn [count_ptr]. rewrite Nat.eqb_refl.
  rewrite <- count_ptr_zero_iff. lia.
Qed.

Theorem h_detach_in_place : forall st h,
  strong (sget st (hptr h)) = 1 -> hstart h = 0 -> h_detach st h = (st, h).
Proof. intros st h H H0. unfold h_detach. rewrite H, H0. reflexivity. Qed.

Theorem h_detach_copies : forall st h,
  strong (sget st (hptr h)) <> 1 \/ hstart h <> 0 ->
  hptr (snd (h_detach st h)) = length st /\ length (fst (h_detach st h)) = S (length st).
Proof.
  intros st h H. unfold h_detach.
  replace ((strong (sget st (hptr h)) =? 1) && (hstart h =? 0)) with false by lia.
  unfold alloc. cbn [fst snd hptr]. rewrite decr_length. split; [reflexivity|].
  rewrite app_length, decr_length. cbn [length]. lia.
Qed.
