(* CompileSim.v: the relation between the state of the structural evaluator (Struct.v) and
   the state of the machine running the laid-out code, and the proof that every program the
   two sides share (the native words, the stack / heap / loop primitives) respects it.

   [sim t s]: the two states agree on EVERY component except
     - the instruction pointer (cip of the current context),
     - the instruction meter,
     - the fn_addr / return_to fields of the frames of the return stack (the evaluator
       pushes [mkframe 0 0 []] for a call, the machine the real addresses); the locals of
       the frames agree.
   [keep s s']: what a shared program leaves alone on the machine side. *)
From Xeh Require Import Model.Prelude Model.Bits Model.Codec Model.Cell Model.Lexer Model.Fmt
                        Model.Vm Model.Words Proofs.VmFrame.
Local Notation length := List.length.

#[local] Arguments Z.add : simpl never.
#[local] Arguments Z.sub : simpl never.
#[local] Arguments Z.mul : simpl never.
#[local] Arguments Z.ltb : simpl never.
#[local] Arguments Z.leb : simpl never.
#[local] Arguments Z.eqb : simpl never.
#[local] Arguments Z.of_nat : simpl never.
#[local] Arguments Z.to_nat : simpl never.

Definition strip (f : frame) : frame := mkframe 0 0 (locals f).
Definition norm (s : state) : state :=
  set_rs (set_meter (set_ip_raw s 0) 0%Z) (map strip (rs s)).
Definition sim (t s : state) : Prop := norm t = norm s.

Definition fkey (f : frame) : nat * nat := (fn_addr f, return_to f).

Definition keep (s s' : state) : Prop :=
  ip s' = ip s /\ meter s' = meter s /\ code s' = code s /\ insn_limit s' = insn_limit s /\
  rlog s' = rlog s /\ map fkey (rs s') = map fkey (rs s).

Lemma sim_refl : forall s, sim s s.
Proof. reflexivity. Qed.
Lemma sim_sym : forall a b, sim a b -> sim b a.
Proof. unfold sim. congruence. Qed.
Lemma sim_trans : forall a b c, sim a b -> sim b c -> sim a c.
Proof. unfold sim. congruence. Qed.

Lemma keep_refl : forall s, keep s s.
Proof. intro s. repeat split. Qed.
Lemma keep_trans : forall a b c, keep a b -> keep b c -> keep a c.
Proof. unfold keep. intros a b c (A1&A2&A3&A4&A5&A6) (B1&B2&B3&B4&B5&B6). repeat split; congruence. Qed.

(* ---------- what [sim] says, field by field ---------- *)
Lemma sim_ds t s : sim t s -> ds t = ds s.
Proof. intro H. exact (f_equal ds H). Qed.
Lemma sim_heap t s : sim t s -> heap t = heap s.
Proof. intro H. exact (f_equal heap H). Qed.
Lemma sim_code t s : sim t s -> code t = code s.
Proof. intro H. exact (f_equal code H). Qed.
Lemma sim_out t s : sim t s -> out t = out s.
Proof. intro H. exact (f_equal out H). Qed.
Lemma sim_loops t s : sim t s -> loops t = loops s.
Proof. intro H. exact (f_equal loops H). Qed.
Lemma sim_special t s : sim t s -> special t = special s.
Proof. intro H. exact (f_equal special H). Qed.
Lemma sim_dict t s : sim t s -> dict t = dict s.
Proof. intro H. exact (f_equal dict H). Qed.
Lemma sim_rlog t s : sim t s -> rlog t = rlog s.
Proof. intro H. exact (f_equal rlog H). Qed.
Lemma sim_stopping t s : sim t s -> stopping t = stopping s.
Proof. intro H. exact (f_equal stopping H). Qed.
Lemma sim_limits t s : sim t s ->
  insn_limit t = insn_limit s /\ heap_limit t = heap_limit s /\ stack_limit t = stack_limit s.
Proof.
  intro H. split; [exact (f_equal insn_limit H) | split; [exact (f_equal heap_limit H) | exact (f_equal stack_limit H)]].
Qed.
Lemma sim_rs t s : sim t s -> map locals (rs t) = map locals (rs s).
Proof.
  intro H. assert (E : map strip (rs t) = map strip (rs s)) by exact (f_equal rs H).
  apply (f_equal (map locals)) in E. rewrite !map_map in E. exact E.
Qed.
Lemma sim_marks t s : sim t s ->
  ds_len (cx t) = ds_len (cx s) /\ rs_len (cx t) = rs_len (cx s) /\ ls_len (cx t) = ls_len (cx s) /\
  ss_ptr (cx t) = ss_ptr (cx s) /\ cmode (cx t) = cmode (cx s).
Proof.
  intro H. assert (E : cx (norm t) = cx (norm s)) by (rewrite H; reflexivity).
  unfold norm, set_ip_raw in E. cbn [cx set_rs set_meter set_cx] in E.
  injection E as E1 E2 E3 E4 E5 E6 E7 E8. auto.
Qed.

(* ---------- destructuring two related states ---------- *)
Ltac dstate s :=
  destruct s as [? ? ? ? ? ? ? ? ? ? ? [? ? ? ? ? ? ? ? ?] ? ? ? ? ? ? ? ? ?].

Ltac unf_state :=
  cbv [norm strip set_ip_raw ip
       set_ds set_rs set_loops set_special set_heap set_cx set_rlog set_out set_stopping set_meter
       dict heap code dbg sources input ds rs flows loops special cx nested meter insn_limit
       heap_limit stack_limit rlog out last_tok stopping
       ds_len cs_len rs_len fs_len ls_len ss_ptr di_len cip cmode].

Ltac unf_state_in H :=
  cbv [norm strip set_ip_raw ip
       set_ds set_rs set_loops set_special set_heap set_cx set_rlog set_out set_stopping set_meter
       dict heap code dbg sources input ds rs flows loops special cx nested meter insn_limit
       heap_limit stack_limit rlog out last_tok stopping
       ds_len cs_len rs_len fs_len ls_len ss_ptr di_len cip cmode] in H.

Lemma sim_inv : forall t s, sim t s ->
  t = set_rs (set_meter (set_ip_raw s (ip t)) (meter t)) (rs t) /\ map strip (rs t) = map strip (rs s).
Proof.
  intros t s H. split; [ | exact (f_equal rs H) ].
  dstate t; dstate s. unfold sim in H. unf_state_in H. unf_state.
  injection H. intros. subst. reflexivity.
Qed.

Lemma sim_intro : forall s i m r, map strip r = map strip (rs s) ->
  sim (set_rs (set_meter (set_ip_raw s i) m) r) s.
Proof.
  intros s i m r H. dstate s. unfold sim. unf_state. unf_state_in H. rewrite H. reflexivity.
Qed.

(* updates that commute with [norm] *)
Lemma sim_set_ip_r : forall t s n, sim t s -> sim t (set_ip_raw s n).
Proof. intros t s n H. unfold sim in *. rewrite H. dstate s. reflexivity. Qed.
Lemma sim_set_meter_r : forall t s n, sim t s -> sim t (set_meter s n).
Proof. intros t s n H. unfold sim in *. rewrite H. dstate s. reflexivity. Qed.

(* ---------- results related by [sim] ---------- *)
Definition rrel {A} (s : state) (rt rs : res A) : Prop :=
  match rt, rs with
  | ROk a t', ROk b s' => a = b /\ sim t' s' /\ keep s s'
  | RErr k p t', RErr k' p' s' => k = k' /\ p = p' /\ sim t' s' /\ keep s s'
  | RPanic, RPanic => True
  | RUnsup, RUnsup => True
  | _, _ => False
  end.

(* a program that cannot tell the two sides apart (recording off) *)
Definition par {A} (m : M A) : Prop :=
  forall t s, sim t s -> rlog s = None -> rrel s (m t) (m s).

Lemma par_ret : forall A (a : A), par (ret a).
Proof. intros A a t s H _. cbn. auto using keep_refl. Qed.
Lemma par_fail : forall A k p, par (@fail A k p).
Proof. intros A k p t s H _. cbn. auto using keep_refl. Qed.
Lemma par_unsup : forall A, par (@unsup A).
Proof. intros A t s H _. exact I. Qed.
Lemma par_panic : forall A, par (@panic A).
Proof. intros A t s H _. exact I. Qed.

Lemma keep_rlog : forall s s', keep s s' -> rlog s = None -> rlog s' = None.
Proof. intros s s' (_&_&_&_&E&_) H. congruence. Qed.

Lemma par_bind : forall A B (m : M A) (f : A -> M B), par m -> (forall a, par (f a)) -> par (bind m f).
Proof.
  intros A B m f Hm Hf t s H Hl. unfold bind. specialize (Hm t s H Hl).
  destruct (m t) as [a t1|k p t1| |], (m s) as [b s1|k' p' s1| |]; cbn [rrel] in Hm; try contradiction; auto.
  destruct Hm as (<- & Hs & Hk).
  specialize (Hf a t1 s1 Hs (keep_rlog _ _ Hk Hl)).
  destruct (f a t1) as [c t2|k p t2| |], (f a s1) as [d s2|k' p' s2| |]; cbn [rrel] in *; try contradiction; auto.
  - destruct Hf as (-> & Hs2 & Hk2). eauto using keep_trans.
  - destruct Hf as (-> & -> & Hs2 & Hk2). eauto 6 using keep_trans.
Qed.

Lemma par_get_bind : forall B (k : state -> M B),
  (forall s0, par (k s0)) ->
  (forall s0 i m r x, k (set_rs (set_meter (set_ip_raw s0 i) m) r) x = k s0 x) ->
  par (bind get k).
Proof.
  intros B k Hk Hinv t s H Hl. unfold bind, get.
  destruct (sim_inv _ _ H) as [E _]. rewrite E at 1. rewrite Hinv. apply Hk; assumption.
Qed.

(* ---------- the primitives ---------- *)
Ltac break_matches :=
  repeat (match goal with
          | |- context [match ?x with _ => _ end] => is_var x; destruct x
          end; cbv beta iota);
  repeat (match goal with
          | |- context [match ?x with _ => _ end] =>
            lazymatch x with context [match _ with _ => _ end] => fail | _ => idtac end;
            destruct x eqn:?
          end; cbv beta iota).

Ltac par_prim_tac :=
  let t := fresh "t" in let s := fresh "s" in let H := fresh "H" in let Hl := fresh "Hl" in
  intros t s H Hl; dstate t; dstate s; unfold sim in H; unf_state_in H; unf_state_in Hl;
  injection H; intros; subst;
  cbv [rrel push_data pop_data top_data swap_data rot_data over_data
       push_loop pop_loop loop_next loop_set_items push_special pop_special get_var set_var
       print modify ret fail unsup panic
       add_rstep limit_reached data_depth ip set_ip_raw
       set_ds set_rs set_loops set_special set_heap set_cx set_rlog set_out set_stopping set_meter
       dict heap code dbg sources input ds rs flows loops special cx nested meter insn_limit
       heap_limit stack_limit rlog out last_tok stopping
       ds_len cs_len rs_len fs_len ls_len ss_ptr di_len cip cmode];
  break_matches;
  repeat match goal with |- _ /\ _ => split end;
  try reflexivity;
  try (unfold sim; unf_state; congruence);
  try (unfold keep; unf_state; repeat split; reflexivity).

Lemma par_set_stopping : forall b, par (modify (fun s => set_stopping s b)).
Proof. intro b. par_prim_tac. Qed.
Lemma par_push_data : forall c, par (push_data c).
Proof. intro c. par_prim_tac. Qed.
Lemma par_pop_data : par pop_data.
Proof. par_prim_tac. Qed.
Lemma par_top_data : par top_data.
Proof. par_prim_tac. Qed.
Lemma par_swap_data : par swap_data.
Proof. par_prim_tac. Qed.
Lemma par_rot_data : par rot_data.
Proof. par_prim_tac. Qed.
Lemma par_over_data : par over_data.
Proof. par_prim_tac. Qed.
Lemma par_push_loop : forall l, par (push_loop l).
Proof. intro l. par_prim_tac. Qed.
Lemma par_pop_loop : par pop_loop.
Proof. par_prim_tac. Qed.
Lemma par_loop_next : par loop_next.
Proof. par_prim_tac. Qed.
Lemma par_loop_set_items : forall c, par (loop_set_items c).
Proof. intro c. par_prim_tac. Qed.
Lemma par_push_special : forall p, par (push_special p).
Proof. intro p. par_prim_tac. Qed.
Lemma par_pop_special : par pop_special.
Proof. par_prim_tac. Qed.
Lemma par_get_var : forall a, par (get_var a).
Proof. intro a. par_prim_tac. Qed.
Lemma par_set_var : forall a v, par (set_var a v).
Proof. intros a v. par_prim_tac. Qed.
Lemma par_print : forall msg, par (print msg).
Proof. intro msg. par_prim_tac. Qed.

(* ---------- primitives that touch the return stack ---------- *)
Lemma add_rstep_off : forall r s, rlog s = None -> add_rstep r s = s.
Proof. intros r s H. unfold add_rstep. rewrite H. reflexivity. Qed.

Lemma sim_set_rs : forall t s a b, sim t s -> map strip a = map strip b -> sim (set_rs t a) (set_rs s b).
Proof.
  intros t s a b H E. dstate t; dstate s. unfold sim in *. unf_state_in H. unf_state. unf_state_in E.
  injection H; intros; subst. rewrite E. reflexivity.
Qed.

Lemma sim_rs_strip : forall t s, sim t s -> map strip (rs t) = map strip (rs s).
Proof. intros t s H. exact (f_equal rs H). Qed.

Lemma sim_rs_length : forall t s, sim t s -> length (rs t) = length (rs s).
Proof. intros t s H. apply sim_rs_strip in H. apply (f_equal (@length _)) in H. rewrite !map_length in H. exact H. Qed.

Lemma keep_set_rs : forall s b, map fkey b = map fkey (rs s) -> keep s (set_rs s b).
Proof. intros s b H. unfold keep. repeat split; try reflexivity. exact H. Qed.

Lemma par_init_local : forall i v, par (init_local i v).
Proof.
  intros i v t s H Hl. unfold init_local.
  pose proof (sim_rs_strip _ _ H) as Hr. pose proof (sim_rs_length _ _ H) as Hn.
  destruct (sim_marks _ _ H) as (_ & Hm & _). rewrite Hm, Hn.
  assert (Hlt : rlog t = None) by (rewrite (sim_rlog _ _ H); exact Hl).
  destruct (rs t) as [|ft rt] eqn:Et, (rs s) as [|fs rs'] eqn:Es; cbn [map] in Hr; try discriminate.
  - cbn [rrel]. auto using keep_refl.
  - injection Hr as Hl0 Hr.
    destruct (rs_len (cx s) <? length (fs :: rs')).
    + cbn [rrel]. split; [reflexivity|].
      rewrite !add_rstep_off by (cbn [rlog set_rs]; assumption).
      split.
      * apply sim_set_rs; [assumption|]. cbn [map]. unfold strip at 1 3. cbn [locals]. rewrite Hl0, Hr. reflexivity.
      * apply keep_set_rs. rewrite Es. reflexivity.
    + cbn [rrel]. auto using keep_refl.
Qed.

(* [top_frame]: the two sides see frames with the same locals *)
Lemma par_top_frame_bind : forall B (k : frame -> M B),
  (forall f, par (k f)) ->
  (forall f a r x, k (mkframe a r (locals f)) x = k f x) ->
  par (bind top_frame k).
Proof.
  intros B k Hk Hinv t s H Hl. unfold bind, top_frame.
  pose proof (sim_rs_strip _ _ H) as Hr. pose proof (sim_rs_length _ _ H) as Hn.
  destruct (sim_marks _ _ H) as (_ & Hm & _). rewrite Hm, Hn.
  destruct (rs t) as [|ft rt] eqn:Et, (rs s) as [|fs rs'] eqn:Es; cbn [map] in Hr; try discriminate.
  - cbn [rrel]. auto using keep_refl.
  - injection Hr as Hl0 Hr.
    destruct (rs_len (cx s) <? length (fs :: rs')).
    + replace (k ft t) with (k fs t).
      * apply Hk; assumption.
      * rewrite <- (Hinv fs (fn_addr ft) (return_to ft)). rewrite <- Hl0. destruct ft; reflexivity.
    + cbn [rrel]. auto using keep_refl.
Qed.

(* ---------- the native words ---------- *)
Ltac par_prim :=
  lazymatch goal with
  | |- par (ret _) => apply par_ret
  | |- par (fail _ _) => apply par_fail
  | |- par unsup => apply par_unsup
  | |- par panic => apply par_panic
  | |- par (modify (fun s => set_stopping s _)) => apply par_set_stopping
  | |- par (push_data _) => apply par_push_data
  | |- par pop_data => apply par_pop_data
  | |- par top_data => apply par_top_data
  | |- par swap_data => apply par_swap_data
  | |- par rot_data => apply par_rot_data
  | |- par over_data => apply par_over_data
  | |- par (push_loop _) => apply par_push_loop
  | |- par pop_loop => apply par_pop_loop
  | |- par loop_next => apply par_loop_next
  | |- par (loop_set_items _) => apply par_loop_set_items
  | |- par (push_special _) => apply par_push_special
  | |- par pop_special => apply par_pop_special
  | |- par (get_var _) => apply par_get_var
  | |- par (set_var _ _) => apply par_set_var
  | |- par (init_local _ _) => apply par_init_local
  | |- par (print _) => apply par_print
  end.

Create HintDb pardb.

Ltac par_step :=
  cbv beta zeta;
  first
    [ par_prim
    | solve [ auto 2 with pardb nocore ]
    | lazymatch goal with
      | |- par (bind get _) => apply par_get_bind; [ intro | intros; reflexivity ]
      | |- par (bind top_frame _) => apply par_top_frame_bind; [ intro | intros; reflexivity ]
      | |- par (bind _ _) => apply par_bind; [ | intro ]
      | |- par (match ?x with _ => _ end) => destruct x
      | |- par ?m => let h := head_of m in unfold h
      end ].

Ltac par_solve := repeat par_step.

Lemma par_pop_n : forall n, par (pop_n n).
Proof. induction n; cbn [pop_n]; par_solve. Qed.
#[export] Hint Resolve par_pop_n : pardb.

Lemma par_push_all : forall l, par (push_all l).
Proof. induction l; cbn [push_all]; par_solve. Qed.
#[export] Hint Resolve par_push_all : pardb.

Lemma par_word_table : forall fo, Forall (fun nw => par (snd nw)) (word_table fo).
Proof.
  intro fo. unfold word_table.
  repeat (apply Forall_cons; [ cbn [snd]; par_solve | ]).
  apply Forall_nil.
Qed.

Lemma par_sized_word : forall fo name w, sized_word fo name = Some w -> par w.
Proof.
  intros fo name w H. unfold sized_word in H. cbv beta zeta in H.
  repeat match type of H with
         | context [if ?b then _ else _] =>
           destruct b; cbv beta iota in H;
           [ injection H as <-; par_solve | ]
         end.
  discriminate.
Qed.

(* every native word runs the same way on the evaluator's state and on the machine's:
   none of them reads or changes the instruction pointer, the meter or the return stack *)
Theorem native_par : forall fo w f, native_fn fo w = Some f -> par f.
Proof.
  intros fo w f H. unfold native_fn in H.
  destruct (table_find (word_table fo) w) eqn:E.
  - injection H as <-. eapply table_find_Forall with (P := fun m => par m); [ apply par_word_table | exact E ].
  - eapply par_sized_word; eauto.
Qed.

(* the actions of the simple instructions *)
Lemma par_do_init : par do_init.
Proof. par_solve. Qed.
Lemma par_cond : par (let* c := pop_data in m_cond c).
Proof. par_solve. Qed.
Lemma par_load : forall a, par (let* v := get_var a in push_data v).
Proof. intro a. par_solve. Qed.
Lemma par_store : forall a, par (let* v := pop_data in set_var a v).
Proof. intro a. par_solve. Qed.
Lemma par_initlocal : forall i, par (let* v := pop_data in init_local i v).
Proof. intro i. par_solve. Qed.
Lemma par_loadlocal : forall i,
  par (let* fr := top_frame in
       match nth_error (locals fr) i with
       | Some v => push_data v
       | None => fail ELocalOob None
       end).
Proof. intro i. par_solve. Qed.
Lemma par_caseof : par (let* a := pop_data in let* b := top_data in ret (cell_eqb a b)).
Proof. par_solve. Qed.
