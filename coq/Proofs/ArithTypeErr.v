(* ArithTypeErr.v: a type error of an arithmetic / comparison / bitwise / conversion /
   sign-test word reports one of the operands that were on the stack (the cell itself or
   its untagged value) - never any other value (C09). *)
From Xeh Require Import Model.Prelude Model.Bits Model.Codec Model.Cell Model.Lexer Model.Fmt
                        Model.Vm Model.BaseN Model.Words.
From Xeh Require Import Proofs.WordRun Proofs.ArithNum Proofs.ArithProofs.
Local Notation length := List.length.
Local Open Scope Z_scope.

(* the (at most n) topmost cells above the mark of the current context *)
Definition operands (n : nat) (s : state) : list cell := firstn (Nat.min n (data_depth s)) (ds s).

Definition reports_operand (n : nat) (s : state) (r : res unit) : Prop :=
  forall p s', r = RErr EType (Some p) s' ->
  exists c, In c (operands n s) /\ (p = c \/ p = value c).

(* ---------- the accessors ---------- *)
Lemma m_xint_err c s k p s' : m_xint c s = RErr k p s' -> k = EType /\ p = Some (value c) /\ s' = s.
Proof. unfold m_xint, ret, fail. destruct (value c); intros H; try discriminate; injection H as <- <- <-; auto. Qed.
Lemma m_real_err c s k p s' : m_real c s = RErr k p s' -> k = EType /\ p = Some (value c) /\ s' = s.
Proof. unfold m_real, ret, fail. destruct (value c); intros H; try discriminate; injection H as <- <- <-; auto. Qed.
Lemma m_xint_ok c s x s' : m_xint c s = ROk x s' -> s' = s.
Proof. unfold m_xint, ret, fail. destruct (value c); intros H; try discriminate; injection H as _ <-; auto. Qed.
Lemma m_real_ok c s x s' : m_real c s = ROk x s' -> s' = s.
Proof. unfold m_real, ret, fail. destruct (value c); intros H; try discriminate; injection H as _ <-; auto. Qed.

Lemma push_not_type c s p s' : push_data c s <> RErr EType p s'.
Proof. intro H. apply push_data_err in H. destruct H as [H _]. discriminate. Qed.

(* ---------- popping one or two operands ---------- *)
Lemma pop1_cases s :
  (exists a rest, ds s = a :: rest /\ (ds_len (cx s) <= length rest)%nat /\ operands 1 s = [a]) \/
  (forall A (k : cell -> M A), (let* x := pop_data in k x) s = RErr EUnderflow None s).
Proof.
  destruct (ds s) as [|a rest] eqn:Hd.
  - right. intros A k. unfold bind. rewrite pop_data_under; [reflexivity|]. rewrite Hd. cbn [List.length]. lia.
  - destruct (Nat.le_gt_cases (ds_len (cx s)) (length rest)) as [L|L].
    + left. exists a, rest. repeat split; try assumption.
      unfold operands, data_depth. rewrite Hd. cbn [List.length].
      replace (Nat.min 1 (S (length rest) - ds_len (cx s))) with 1%nat by lia. reflexivity.
    + right. intros A k. unfold bind. rewrite pop_data_under; [reflexivity|]. rewrite Hd. cbn [List.length]. lia.
Qed.

Lemma pop2_cases s :
  (exists a b rest, ds s = b :: a :: rest /\ (ds_len (cx s) <= length rest)%nat /\ operands 2 s = [b; a]) \/
  (exists s', forall A (k : cell -> cell -> M A),
     (let* y := pop_data in let* x := pop_data in k x y) s = RErr EUnderflow None s').
Proof.
  destruct (ds s) as [|b [|a rest]] eqn:Hd.
  - right. exists s. intros A k. unfold bind. rewrite pop_data_under; [reflexivity|]. rewrite Hd. cbn [List.length]. lia.
  - right. destruct (Nat.le_gt_cases (ds_len (cx s)) 0) as [L|L].
    + eexists. intros A k. unfold bind at 1. rewrite (pop_data_run s b [] Hd) by (cbn [List.length]; lia).
      unfold bind. rewrite pop_data_under; [reflexivity|].
      destruct (inner_fields [RPushData b] s []) as (-> & _ & _). cbn [List.length]. lia.
    + exists s. intros A k. unfold bind. rewrite pop_data_under; [reflexivity|]. rewrite Hd. cbn [List.length]. lia.
  - destruct (Nat.le_gt_cases (ds_len (cx s)) (length rest)) as [L|L].
    + left. exists a, b, rest. repeat split; try assumption.
      unfold operands, data_depth. rewrite Hd. cbn [List.length].
      replace (Nat.min 2 (S (S (length rest)) - ds_len (cx s))) with 2%nat by lia. reflexivity.
    + right. destruct (Nat.le_gt_cases (ds_len (cx s)) (S (length rest))) as [L2|L2].
      * eexists. intros A k. unfold bind at 1. rewrite (pop_data_run s b (a :: rest) Hd) by (cbn [List.length]; lia).
        unfold bind. rewrite pop_data_under; [reflexivity|].
        destruct (inner_fields [RPushData b] s (a :: rest)) as (-> & -> & _). cbn [List.length]. lia.
      * exists s. intros A k. unfold bind. rewrite pop_data_under; [reflexivity|]. rewrite Hd. cbn [List.length]. lia.
Qed.

Lemma operands_mono s c : In c (operands 1 s) -> In c (operands 2 s).
Proof.
  unfold operands. intros H.
  destruct (Nat.le_gt_cases (data_depth s) 1) as [L|L].
  - replace (Nat.min 2 (data_depth s)) with (Nat.min 1 (data_depth s)) by lia. assumption.
  - replace (Nat.min 1 (data_depth s)) with 1%nat in H by lia.
    replace (Nat.min 2 (data_depth s)) with 2%nat by lia.
    destruct (ds s) as [|x [|y r]]; cbn [firstn In] in *; tauto.
Qed.

Ltac use_a a Ha := exists a; split; [cbn [In]; tauto | right; try rewrite Ha; reflexivity].
Ltac use_b b := exists b; split; [cbn [In]; tauto | left; reflexivity].

Section Payload.
  Variable fo : fops.

  (* ---------- binary words built on arith_real ---------- *)
  Lemma arith_real_payload oi orl s :
    (forall x y s0 p s1, oi x y s0 <> RErr EType p s1) ->
    reports_operand 2 s (arith_real oi orl s).
  Proof.
    intros Hoi p s' H. unfold arith_real in H.
    destruct (pop2_cases s)
      as [(a & b & rest & Hd & Hm & Hop)|(s1 & E)]; [|rewrite E in H; discriminate].
    rewrite (run_pop2 _ s a b rest Hd Hm) in H. rewrite Hop.
    destruct (value b) eqn:Hb;
      try (unfold num_type_error, fail in H; injection H as <- _; use_b b).
    - unfold bind in H. destruct (m_xint a _) as [x s2|k q s2| |] eqn:E; try discriminate.
      + destruct (oi x z s2) as [r s3|k q s3| |] eqn:E2; try discriminate.
        * exfalso. eapply push_not_type. eassumption.
        * exfalso. injection H as -> -> ->. eapply Hoi. eassumption.
      + apply m_xint_err in E. destruct E as (-> & -> & ->). injection H as <- _. use_a a Hb.
    - unfold bind in H. destruct (m_real a _) as [x s2|k q s2| |] eqn:E; try discriminate.
      + exfalso. eapply push_not_type. eassumption.
      + apply m_real_err in E. destruct E as (-> & -> & ->). injection H as <- _. use_a a Hb.
  Qed.

  Lemma wrapping_no_type f x y s0 p s1 : wrapping f x y s0 <> RErr EType p s1.
  Proof. unfold wrapping, ret. discriminate. Qed.

  Lemma add_payload s : reports_operand 2 s (w_add fo s).
  Proof. apply arith_real_payload. apply wrapping_no_type. Qed.
  Lemma sub_payload s : reports_operand 2 s (w_sub fo s).
  Proof. apply arith_real_payload. apply wrapping_no_type. Qed.
  Lemma mul_payload s : reports_operand 2 s (w_mul fo s).
  Proof. apply arith_real_payload. apply wrapping_no_type. Qed.
  Lemma rem_payload s : reports_operand 2 s (w_rem fo s).
  Proof.
    apply arith_real_payload. intros x y s0 p s1. unfold fail, ret. destruct (y =? 0); discriminate.
  Qed.
  Lemma min_payload s : reports_operand 2 s (w_min fo s).
  Proof. apply arith_real_payload. intros. unfold ret. discriminate. Qed.
  Lemma max_payload s : reports_operand 2 s (w_max fo s).
  Proof. apply arith_real_payload. intros. unfold ret. discriminate. Qed.

  Lemma div_payload s : reports_operand 2 s (w_div fo s).
  Proof.
    intros p s' H. unfold w_div in H.
    destruct (pop2_cases s)
      as [(a & b & rest & Hd & Hm & Hop)|(s1 & E)]; [|rewrite E in H; discriminate].
    rewrite (run_pop2 _ s a b rest Hd Hm) in H. rewrite Hop.
    destruct (value b) eqn:Hb;
      try (unfold num_type_error, fail in H; injection H as <- _; use_b b).
    - unfold bind in H. destruct (m_xint a _) as [x s2|k q s2| |] eqn:E; try discriminate.
      + destruct (z =? 0); [discriminate|]. cbv zeta in H. destruct (in_i128 (Z.quot x z)); [|discriminate].
        exfalso. eapply push_not_type. eassumption.
      + apply m_xint_err in E. destruct E as (-> & -> & ->). injection H as <- _. use_a a Hb.
    - unfold bind in H. destruct (m_real a _) as [x s2|k q s2| |] eqn:E; try discriminate.
      + match type of H with context [f64_is_zero ?y] => destruct (f64_is_zero y) end; [discriminate|].
        exfalso. eapply push_not_type. eassumption.
      + apply m_real_err in E. destruct E as (-> & -> & ->). injection H as <- _. use_a a Hb.
  Qed.

  Lemma cmp_payload f s : reports_operand 2 s (w_cmp f s).
  Proof.
    intros p s' H. unfold w_cmp in H. unfold bind at 1 in H. unfold compare_cells in H.
    destruct (pop2_cases s)
      as [(a & b & rest & Hd & Hm & Hop)|(s1 & E)]; [|rewrite E in H; discriminate].
    rewrite (run_pop2 _ s a b rest Hd Hm) in H. rewrite Hop.
    destruct (value b) eqn:Hb;
      try (unfold num_type_error, fail in H; injection H as <- _; use_b b).
    - unfold bind in H. destruct (m_xint a _) as [x s2|k q s2| |] eqn:E; try discriminate.
      + unfold ret in H. exfalso. eapply push_not_type. eassumption.
      + apply m_xint_err in E. destruct E as (-> & -> & ->). injection H as <- _. use_a a Hb.
    - unfold bind in H. destruct (m_real a _) as [x s2|k q s2| |] eqn:E; try discriminate.
      + unfold ret in H. exfalso. eapply push_not_type. eassumption.
      + apply m_real_err in E. destruct E as (-> & -> & ->). injection H as <- _. use_a a Hb.
  Qed.

  (* ---------- band bor bxor bsl bsr ---------- *)
  Lemma arith_int_payload f s : reports_operand 2 s (arith_int f s).
  Proof.
    intros p s' H. unfold arith_int in H.
    destruct (pop1_cases s)
      as [(b & rest0 & Hd & Hm & Hop)|E]; [|rewrite E in H; discriminate].
    rewrite (run_pop1 _ s b rest0 Hd Hm) in H.
    unfold bind at 1 in H. destruct (m_xint b _) as [y s2|k q s2| |] eqn:E; try discriminate.
    - pose proof (m_xint_ok _ _ _ _ E) as ->.
      destruct (pop1_cases (set_ds (with_log [RPushData b] s) rest0))
        as [(a & rest & Hd2 & Hm2 & _)|E2]; [|rewrite E2 in H; discriminate].
      rewrite (run_pop1 _ _ a rest Hd2 Hm2) in H.
      destruct (inner_fields [RPushData b] s rest0) as (F1 & F2 & _).
      rewrite F1 in Hd2. subst rest0. rewrite F2 in Hm2.
      assert (Hop2 : operands 2 s = [b; a]).
      { unfold operands, data_depth. rewrite Hd. cbn [List.length].
        replace (Nat.min 2 (S (S (length rest)) - ds_len (cx s))) with 2%nat by lia. reflexivity. }
      rewrite Hop2. unfold bind in H. destruct (m_xint a _) as [x s3|k q s3| |] eqn:E3; try discriminate.
      + exfalso. eapply push_not_type. eassumption.
      + apply m_xint_err in E3. destruct E3 as (-> & -> & ->). injection H as <- _.
        exists a. split; [cbn [In]; tauto|right; reflexivity].
    - apply m_xint_err in E. destruct E as (-> & -> & ->). injection H as <- _.
      exists b. split; [apply operands_mono; rewrite Hop; left; reflexivity|right; reflexivity].
  Qed.

  (* ---------- unary words ---------- *)
  Lemma neg_payload s : reports_operand 1 s (w_neg s).
  Proof.
    intros p s' H. unfold w_neg in H.
    destruct (pop1_cases s) as [(a & rest & Hd & Hm & Hop)|E]; [|rewrite E in H; discriminate].
    rewrite (run_pop1 _ s a rest Hd Hm) in H. rewrite Hop.
    destruct (value a) eqn:Ha;
      try (unfold num_type_error, fail in H; injection H as <- _; use_b a).
    - destruct (in_i128 (- z)); [|discriminate]. exfalso. eapply push_not_type. eassumption.
    - exfalso. eapply push_not_type. eassumption.
  Qed.
  Lemma abs_payload s : reports_operand 1 s (w_abs s).
  Proof.
    intros p s' H. unfold w_abs in H.
    destruct (pop1_cases s) as [(a & rest & Hd & Hm & Hop)|E]; [|rewrite E in H; discriminate].
    rewrite (run_pop1 _ s a rest Hd Hm) in H. rewrite Hop.
    destruct (value a) eqn:Ha;
      try (unfold num_type_error, fail in H; injection H as <- _; use_b a).
    - destruct (in_i128 (Z.abs z)); [|discriminate]. exfalso. eapply push_not_type. eassumption.
    - exfalso. eapply push_not_type. eassumption.
  Qed.
  Lemma sign_test_payload fi fr s : reports_operand 1 s (w_sign_test fi fr s).
  Proof.
    intros p s' H. unfold w_sign_test in H.
    destruct (pop1_cases s) as [(a & rest & Hd & Hm & Hop)|E]; [|rewrite E in H; discriminate].
    rewrite (run_pop1 _ s a rest Hd Hm) in H. rewrite Hop.
    destruct (value a) eqn:Ha;
      try (unfold num_type_error, fail in H; injection H as <- _; use_b a);
      exfalso; eapply push_not_type; eassumption.
  Qed.

  Lemma unary_xint_payload (g : Z -> cell) s :
    reports_operand 1 s ((let* a := pop_data in let* x := m_xint a in push_data (g x)) s).
  Proof.
    intros p s' H.
    destruct (pop1_cases s)
      as [(a & rest & Hd & Hm & Hop)|E]; [|rewrite E in H; discriminate].
    rewrite (run_pop1 _ s a rest Hd Hm) in H. rewrite Hop.
    unfold bind in H. destruct (m_xint a _) as [x s2|k q s2| |] eqn:E; try discriminate.
    - exfalso. eapply push_not_type. eassumption.
    - apply m_xint_err in E. destruct E as (-> & -> & ->). injection H as <- _.
      exists a. split; [cbn [In]; tauto|right; reflexivity].
  Qed.
  Lemma unary_real_payload (g : Z -> cell) s :
    reports_operand 1 s ((let* a := pop_data in let* x := m_real a in push_data (g x)) s).
  Proof.
    intros p s' H.
    destruct (pop1_cases s)
      as [(a & rest & Hd & Hm & Hop)|E]; [|rewrite E in H; discriminate].
    rewrite (run_pop1 _ s a rest Hd Hm) in H. rewrite Hop.
    unfold bind in H. destruct (m_real a _) as [x s2|k q s2| |] eqn:E; try discriminate.
    - exfalso. eapply push_not_type. eassumption.
    - apply m_real_err in E. destruct E as (-> & -> & ->). injection H as <- _.
      exists a. split; [cbn [In]; tauto|right; reflexivity].
  Qed.

  Lemma bnot_payload s : reports_operand 1 s (w_bnot s).
  Proof. apply (unary_xint_payload (fun x => cint (Z.lnot x))). Qed.
  Lemma popcnt_payload s : reports_operand 1 s (w_popcnt s).
  Proof. apply (unary_xint_payload (fun x => cint (popcount x))). Qed.
  Lemma round_payload s : reports_operand 1 s (w_round fo s).
  Proof. apply (unary_real_payload (fun x => CReal (f_round fo x))). Qed.

  Lemma top_data_cases s :
    (exists a rest, ds s = a :: rest /\ (ds_len (cx s) <= length rest)%nat /\ top_data s = ROk a s) \/
    top_data s = RErr EUnderflow None s.
  Proof.
    unfold top_data. destruct (ds s) as [|a rest] eqn:Hd; [right; reflexivity|].
    destruct (ds_len (cx s) <? length (a :: rest))%nat eqn:E; [left|right; reflexivity].
    exists a, rest. repeat split. apply Nat.ltb_lt in E. cbn [List.length] in E. lia.
  Qed.

  Lemma into_real_payload s : reports_operand 1 s (w_into_real fo s).
  Proof.
    intros p s' H. unfold w_into_real in H. unfold bind at 1 in H.
    destruct (top_data_cases s) as [(a & rest & Hd & Hm & E)|E]; rewrite E in H; [|discriminate].
    destruct (value a); try (eapply (unary_xint_payload (fun x => CReal (f_of_int fo x))); eassumption).
    discriminate.
  Qed.
  Lemma into_int_payload s : reports_operand 1 s (w_into_int fo s).
  Proof.
    intros p s' H. unfold w_into_int in H. unfold bind at 1 in H.
    destruct (top_data_cases s) as [(a & rest & Hd & Hm & E)|E]; rewrite E in H; [|discriminate].
    destruct (value a); try (eapply (unary_real_payload (fun x => cint (f_to_int fo x))); eassumption).
    discriminate.
  Qed.

  (* ---------- every word of the property, through the table of native words ---------- *)
  Definition c09_words : list (string * nat) :=
    [ ("+", 2); ("-", 2); ("*", 2); ("/", 2); ("rem", 2); ("neg", 1); ("abs", 1); ("min", 2); ("max", 2);
      ("<", 2); ("<=", 2); (">", 2); (">=", 2); ("==", 2); ("<>", 2);
      ("band", 2); ("bor", 2); ("bxor", 2); ("bnot", 1); ("popcnt", 1); ("bsl", 2); ("bsr", 2);
      (">int", 1); (">real", 1); ("round", 1); ("zero?", 1); ("positive?", 1); ("negative?", 1) ]%string%nat.

  Theorem type_error_payload : forall name n w s,
    In (name, n) c09_words -> native_fn fo name = Some w -> reports_operand n s (w s).
  Proof.
    intros name n w s Hin Hw. unfold c09_words in Hin. cbn [In] in Hin.
    destruct Hin as [Hin|Hin];
      [injection Hin as <- <-; change (Some (w_add fo) = Some w) in Hw; injection Hw as <-; apply add_payload|].
    destruct Hin as [Hin|Hin];
      [injection Hin as <- <-; change (Some (w_sub fo) = Some w) in Hw; injection Hw as <-; apply sub_payload|].
    destruct Hin as [Hin|Hin];
      [injection Hin as <- <-; change (Some (w_mul fo) = Some w) in Hw; injection Hw as <-; apply mul_payload|].
    destruct Hin as [Hin|Hin];
      [injection Hin as <- <-; change (Some (w_div fo) = Some w) in Hw; injection Hw as <-; apply div_payload|].
    destruct Hin as [Hin|Hin];
      [injection Hin as <- <-; change (Some (w_rem fo) = Some w) in Hw; injection Hw as <-; apply rem_payload|].
    destruct Hin as [Hin|Hin];
      [injection Hin as <- <-; change (Some (w_neg) = Some w) in Hw; injection Hw as <-; apply neg_payload|].
    destruct Hin as [Hin|Hin];
      [injection Hin as <- <-; change (Some (w_abs) = Some w) in Hw; injection Hw as <-; apply abs_payload|].
    destruct Hin as [Hin|Hin];
      [injection Hin as <- <-; change (Some (w_min fo) = Some w) in Hw; injection Hw as <-; apply min_payload|].
    destruct Hin as [Hin|Hin];
      [injection Hin as <- <-; change (Some (w_max fo) = Some w) in Hw; injection Hw as <-; apply max_payload|].
    destruct Hin as [Hin|Hin];
      [injection Hin as <- <-; change (Some (w_cmp is_lt) = Some w) in Hw; injection Hw as <-; apply cmp_payload|].
    destruct Hin as [Hin|Hin];
      [injection Hin as <- <-; change (Some (w_cmp is_le) = Some w) in Hw; injection Hw as <-; apply cmp_payload|].
    destruct Hin as [Hin|Hin];
      [injection Hin as <- <-; change (Some (w_cmp is_gt) = Some w) in Hw; injection Hw as <-; apply cmp_payload|].
    destruct Hin as [Hin|Hin];
      [injection Hin as <- <-; change (Some (w_cmp is_ge) = Some w) in Hw; injection Hw as <-; apply cmp_payload|].
    destruct Hin as [Hin|Hin];
      [injection Hin as <- <-; change (Some (w_cmp is_eq) = Some w) in Hw; injection Hw as <-; apply cmp_payload|].
    destruct Hin as [Hin|Hin];
      [injection Hin as <- <-; change (Some (w_cmp is_ne) = Some w) in Hw; injection Hw as <-; apply cmp_payload|].
    destruct Hin as [Hin|Hin];
      [injection Hin as <- <-; change (Some (arith_int Z.land) = Some w) in Hw; injection Hw as <-; apply arith_int_payload|].
    destruct Hin as [Hin|Hin];
      [injection Hin as <- <-; change (Some (arith_int Z.lor) = Some w) in Hw; injection Hw as <-; apply arith_int_payload|].
    destruct Hin as [Hin|Hin];
      [injection Hin as <- <-; change (Some (arith_int Z.lxor) = Some w) in Hw; injection Hw as <-; apply arith_int_payload|].
    destruct Hin as [Hin|Hin];
      [injection Hin as <- <-; change (Some (w_bnot) = Some w) in Hw; injection Hw as <-; apply bnot_payload|].
    destruct Hin as [Hin|Hin];
      [injection Hin as <- <-; change (Some (w_popcnt) = Some w) in Hw; injection Hw as <-; apply popcnt_payload|].
    destruct Hin as [Hin|Hin];
      [injection Hin as <- <-; change (Some (arith_int shl128) = Some w) in Hw; injection Hw as <-; apply arith_int_payload|].
    destruct Hin as [Hin|Hin];
      [injection Hin as <- <-; change (Some (arith_int shr128) = Some w) in Hw; injection Hw as <-; apply arith_int_payload|].
    destruct Hin as [Hin|Hin];
      [injection Hin as <- <-; change (Some (w_into_int fo) = Some w) in Hw; injection Hw as <-; apply into_int_payload|].
    destruct Hin as [Hin|Hin];
      [injection Hin as <- <-; change (Some (w_into_real fo) = Some w) in Hw; injection Hw as <-; apply into_real_payload|].
    destruct Hin as [Hin|Hin];
      [injection Hin as <- <-; change (Some (w_round fo) = Some w) in Hw; injection Hw as <-; apply round_payload|].
    destruct Hin as [Hin|Hin];
      [injection Hin as <- <-; change (Some (w_sign_test (Z.eqb 0) f64_is_zero) = Some w) in Hw; injection Hw as <-; apply sign_test_payload|].
    destruct Hin as [Hin|Hin];
      [injection Hin as <- <-; change (Some (w_sign_test (Z.ltb 0) f64_pos) = Some w) in Hw; injection Hw as <-; apply sign_test_payload|].
    destruct Hin as [Hin|Hin];
      [injection Hin as <- <-; change (Some (w_sign_test (fun x => Z.ltb x 0) f64_negv) = Some w) in Hw; injection Hw as <-; apply sign_test_payload|].
    contradiction.
  Qed.
End Payload.
