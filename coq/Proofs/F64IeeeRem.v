(* F64IeeeRem.v: f64_of_scaled is the correctly rounded value of m * 2^e, and fl_rem (fmod) is exact:
   x - trunc(x / y) * y with the sign of x. *)
From Coq Require Import ZArith Reals Lia Lra Psatz ZifyBool.
From Flocq Require Import Core.Core IEEE754.BinarySingleNaN IEEE754.Binary IEEE754.Bits.
From Xeh Require Import Model.Prelude Model.Cell Model.F64c Model.Words Model.Boot Model.F64.
From Xeh Require Import Proofs.ArithNum Proofs.F64cProofs Proofs.F64Ieee Proofs.F64IeeeConv.
Local Open Scope Z_scope.

(* the value m * 2^e (m > 0) rounded to binary64, in integer arithmetic *)
Lemma of_scaled_correct neg m e : 0 < m ->
  let p := f64_of_scaled neg m e in
  let v := rnd64 (IZR m * bpow radix2 e) in
  f64_pat p /\ f64_neg p = neg /\
  ((v < bpow radix2 1024)%R -> f64_exp p <> 2047 /\ fval p = cond_Ropp neg v) /\
  ((bpow radix2 1024 <= v)%R -> p = f64_inf neg).
Proof.
  intros Hm p v. unfold p, f64_of_scaled. replace (m =? 0) with false by lia. cbv zeta.
  destruct (bitlen_spec m Hm) as (L1 & L2 & L3). set (L := bitlen m) in *.
  pose proof (round_scaled m e Hm) as RS. cbv zeta in RS. fold L in RS. fold v in RS.
  destruct (Z.ltb_spec 0 (e + (L - 53) + 1075)) as [G|G].
  - replace (Z.max (L + e - 53) (-1074)) with (e + (L - 53)) in RS by lia.
    replace (e + (L - 53) - e) with (L - 53) in RS by lia.
    pose proof (sig_of_range m Hm) as SR. rewrite sig_of_rne in SR. fold L in SR.
    set (m53 := rne_shr m (L - 53)) in *. set (E := e + (L - 53) + 1075) in *.
    assert (PE : (if m53 =? 2 ^ 53 then (2 ^ 52, E + 1) else (m53, E)) =
                 ((if m53 =? 2 ^ 53 then 2 ^ 52 else m53), (if m53 =? 2 ^ 53 then E + 1 else E)))
      by (destruct (m53 =? 2 ^ 53); reflexivity).
    rewrite PE. clear PE.
    set (E' := if m53 =? 2 ^ 53 then E + 1 else E). set (m' := if m53 =? 2 ^ 53 then 2 ^ 52 else m53).
    assert (Vv : v = (IZR m' * bpow radix2 (E' - 1075))%R).
    { rewrite RS. unfold m', E'. destruct (Z.eqb_spec m53 (2 ^ 53)) as [Q|Q].
      - rewrite Q. replace (E + 1 - 1075) with (1 + (e + (L - 53))) by (unfold E; lia).
        rewrite (bpow_plus radix2 1). change (2 ^ 53) with (2 ^ 52 * 2). rewrite mult_IZR. change (bpow radix2 1) with 2%R. ring.
      - f_equal. f_equal. unfold E. lia. }
    assert (Mr : 2 ^ 52 <= m' < 2 ^ 53).
    { unfold m'. destruct (Z.eqb_spec m53 (2 ^ 53)); rewrite ?p52, ?p53 in *; lia. }
    destruct (Z.leb_spec 2047 E') as [O|O].
    + split; [apply inf_pat|]. split; [destruct neg; reflexivity|]. split; [|reflexivity].
      intros Hv. exfalso. rewrite Vv in Hv.
      assert (bpow radix2 1024 <= IZR m' * bpow radix2 (E' - 1075))%R; [|lra].
      replace 1024 with (52 + 972) by lia. rewrite bpow_plus. apply Rmult_le_compat.
      * apply bpow_ge_0. * apply bpow_ge_0.
      * rewrite bpow2 by lia. apply IZR_le. lia.
      * apply bpow_le. lia.
    + assert (EQ : f64_sign_bit neg + E' * 2 ^ 52 + (m' - 2 ^ 52) = f64_sign_bit neg + E * 2 ^ 52 + (m53 - 2 ^ 52)).
      { unfold E', m'. destruct (Z.eqb_spec m53 (2 ^ 53)) as [Q|Q]; [rewrite Q, p53, p52|]; lia. }
      destruct (fval_pack neg E' m' ltac:(unfold E'; destruct (m53 =? 2 ^ 53); lia) ltac:(lia) ltac:(lia)) as (P1 & P2 & P3 & P4).
      cbv zeta in P1, P2, P3, P4.
      split; [exact P1|]. split; [exact P2|]. split.
      * intros _. split; [exact P3|]. rewrite P4, Vv. reflexivity.
      * intros Hv. exfalso. rewrite Vv in Hv.
        assert (IZR m' * bpow radix2 (E' - 1075) < bpow radix2 1024)%R; [|lra].
        apply Rlt_le_trans with (bpow radix2 53 * bpow radix2 (E' - 1075))%R.
        -- apply Rmult_lt_compat_r; [apply bpow_gt_0|]. rewrite bpow2 by lia. apply IZR_lt. lia.
        -- rewrite <- bpow_plus. apply bpow_le. lia.
  - replace (Z.max (L + e - 53) (-1074)) with (-1074) in RS by lia.
    replace (-1074 - e) with (- (e + 1074)) in RS by lia.
    set (k := - (e + 1074)) in *. set (n := rne_shr m k) in *.
    assert (Hn : 0 <= n <= 2 ^ 52).
    { unfold n. destruct (Z.leb_spec k 0) as [K|K].
      - unfold rne_shr. replace (k <=? 0) with true by lia.
        assert (0 < 2 ^ (- k)) by (apply Z.pow_pos_nonneg; lia).
        assert (m * 2 ^ (- k) < 2 ^ L * 2 ^ (- k)) by nia.
        rewrite <- Z.pow_add_r in * by lia.
        assert (2 ^ (L + - k) <= 2 ^ 52) by (apply Z.pow_le_mono_r; lia). nia.
      - pose proof (rne_shr_bounds m k ltac:(lia) K) as RB.
        assert (0 < 2 ^ k) by (apply Z.pow_pos_nonneg; lia).
        assert (0 <= m / 2 ^ k) by (apply Z.div_pos; lia).
        assert (m / 2 ^ k < 2 ^ 52).
        { apply Z.div_lt_upper_bound; [lia|].
          assert (2 ^ L <= 2 ^ (k + 52)) by (apply Z.pow_le_mono_r; lia).
          rewrite Z.pow_add_r in * by lia. lia. }
        lia. }
    destruct (fval_pack_sub neg n Hn) as (P1 & P2 & P3 & P4). cbv zeta in P1, P2, P3, P4.
    split; [exact P1|]. split; [exact P2|]. split.
    + intros _. split; [exact P3|]. rewrite P4, RS. reflexivity.
    + intros Hv. exfalso. rewrite RS in Hv.
      assert (IZR n * bpow radix2 (-1074) < bpow radix2 1024)%R; [|lra].
      apply Rle_lt_trans with (bpow radix2 52 * bpow radix2 (-1074))%R.
      * apply Rmult_le_compat_r; [apply bpow_ge_0|]. rewrite bpow2 by lia. apply IZR_le. lia.
      * rewrite <- bpow_plus. apply bpow_lt. lia.
Qed.

(* a finite pattern as an integer multiple of 2^e, for any e not above its exponent *)
Lemma fval_scaled p e : f64_pat p -> f64_exp p <> 2047 -> e <= f64_ex p ->
  fval p = (IZR (cond_Zopp (f64_neg p) (f64_mant p * 2 ^ (f64_ex p - e))) * bpow radix2 e)%R.
Proof.
  intros Hp Fp He. rewrite (fval_mag p Hp Fp), IZR_cond_Zopp, <- cond_Ropp_mult_l. f_equal.
  rewrite mult_IZR, <- bpow2 by lia. rewrite Rmult_assoc, <- bpow_plus. f_equal. f_equal. lia.
Qed.

Lemma fmod_real a b e : b <> 0 ->
  (IZR a * bpow radix2 e - IZR (Ztrunc ((IZR a * bpow radix2 e) / (IZR b * bpow radix2 e))) * (IZR b * bpow radix2 e)
   = IZR (Z.rem a b) * bpow radix2 e)%R.
Proof.
  intros Hb.
  assert (Rb : IZR b <> 0%R) by (apply not_0_IZR; exact Hb).
  pose proof (bpow_gt_0 radix2 e) as Be.
  replace ((IZR a * bpow radix2 e) / (IZR b * bpow radix2 e))%R with (IZR a / IZR b)%R by (field; lra).
  rewrite Ztrunc_div by exact Hb.
  pose proof (Z.quot_rem' a b) as QR.
  replace (Z.rem a b) with (a - b * Z.quot a b) by lia.
  rewrite minus_IZR, mult_IZR. ring.
Qed.

Lemma rem_signs sx sy X Y : 0 <= X -> 0 < Y ->
  Z.rem (cond_Zopp sx X) (cond_Zopp sy Y) = cond_Zopp sx (X mod Y).
Proof.
  intros HX HY. destruct sx, sy; cbn [cond_Zopp];
  rewrite ?Z.rem_opp_r', ?Z.rem_opp_l'; rewrite Z.rem_mod_nonneg by lia; reflexivity.
Qed.

Lemma mant_bounds p : f64_pat p -> 0 <= f64_mant p < 2 ^ 53 /\ -1074 <= f64_ex p <= 972 /\
  (f64_exp p <> 2047 -> f64_ex p <= 971) /\ (f64_is_zero p = false -> f64_exp p <> 2047 -> 0 < f64_mant p).
Proof.
  intros Hp. destruct (f64_decompose p Hp) as (_ & He & Hm). rewrite (is_zero_fields p Hp).
  unfold f64_mant, f64_ex. rewrite p52 in *. rewrite p53.
  destruct (Z.eqb_spec (f64_exp p) 0); repeat split; lia.
Qed.

Lemma rem_correct x y : f64_pat x -> f64_pat y -> f64_exp x <> 2047 -> f64_exp y <> 2047 -> f64_is_zero y = false ->
  let r := fl_rem x y in
  f64_pat r /\ f64_exp r <> 2047 /\ f64_neg r = f64_neg x /\
  fval r = (fval x - IZR (Ztrunc (fval x / fval y)) * fval y)%R.
Proof.
  intros Hx Hy Fx Fy Zy. cbv zeta. unfold fl_rem. rewrite !pat_id by assumption. cbv zeta.
  assert (Nx : f64_is_nan x = false) by (unfold f64_is_nan; destruct (Z.eqb_spec (f64_exp x) 2047); [contradiction|reflexivity]).
  assert (Ny : f64_is_nan y = false) by (unfold f64_is_nan; destruct (Z.eqb_spec (f64_exp y) 2047); [contradiction|reflexivity]).
  rewrite Nx, Ny, Zy. replace (f64_exp x =? 2047) with false by lia. replace (f64_exp y =? 2047) with false by lia.
  cbn [orb].
  destruct (mant_bounds x Hx) as (Mx & Ex & Ex' & _). destruct (mant_bounds y Hy) as (My & Ey & Ey' & My').
  specialize (Ex' Fx). specialize (Ey' Fy). specialize (My' Zy Fy).
  set (e := Z.min (f64_ex x) (f64_ex y)).
  set (X := f64_mant x * 2 ^ (f64_ex x - e)). set (Y := f64_mant y * 2 ^ (f64_ex y - e)).
  assert (HX : 0 <= X) by (unfold X; apply Z.mul_nonneg_nonneg; [lia|apply Z.pow_nonneg; lia]).
  assert (HY : 0 < Y) by (unfold Y; apply Z.mul_pos_pos; [lia|apply Z.pow_pos_nonneg; unfold e; lia]).
  assert (VAL : (fval x - IZR (Ztrunc (fval x / fval y)) * fval y
                 = cond_Ropp (f64_neg x) (IZR (X mod Y) * bpow radix2 e))%R).
  { rewrite (fval_scaled x e Hx Fx) by (unfold e; lia). rewrite (fval_scaled y e Hy Fy) by (unfold e; lia).
    fold X Y. rewrite fmod_real by (destruct (f64_neg y); cbn [cond_Zopp]; lia).
    rewrite rem_signs by assumption. rewrite IZR_cond_Zopp, <- cond_Ropp_mult_l. reflexivity. }
  rewrite VAL.
  destruct (f64_is_zero x) eqn:Zx.
  - (* a zero dividend is returned as it is *)
    split; [exact Hx|]. split; [exact Fx|]. split; [reflexivity|].
    assert (f64_mant x = 0).
    { rewrite (is_zero_fields x Hx) in Zx. unfold f64_mant. replace (f64_exp x =? 0) with true by lia. lia. }
    assert (X0 : X = 0) by (unfold X; lia). rewrite X0, Z.mod_0_l by lia. rewrite Rmult_0_l.
    rewrite (fval_mag x Hx Fx). replace (f64_mant x) with 0 by lia. rewrite Rmult_0_l. reflexivity.
  - pose proof (Z.mod_pos_bound X Y HY) as RB. set (R := X mod Y) in *.
    assert (R53 : R < 2 ^ 53).
    { destruct (Z.le_ge_cases (f64_ex x) (f64_ex y)) as [C|C].
      - assert (X = f64_mant x) as XE by (unfold X, e; rewrite Z.min_l by lia; rewrite Z.sub_diag; lia).
        assert (R <= X) by (apply Z.mod_le; lia). lia.
      - assert (Y = f64_mant y) as YE by (unfold Y, e; rewrite Z.min_r by lia; rewrite Z.sub_diag; lia). lia. }
    destruct (Z.eq_dec R 0) as [R0|R0].
    + unfold f64_of_scaled. rewrite R0. cbn [Z.eqb].
      destruct (fval_pack_sub (f64_neg x) 0 ltac:(lia)) as (P1 & P2 & P3 & P4). cbv zeta in P1, P2, P3, P4.
      rewrite Z.add_0_r in *.
      split; [exact P1|]. split; [exact P3|]. split; [exact P2|]. rewrite P4, !Rmult_0_l. reflexivity.
    + destruct (of_scaled_correct (f64_neg x) R e ltac:(lia)) as (P1 & P2 & P3 & _). cbv zeta in P1, P2, P3.
      assert (V : rnd64 (IZR R * bpow radix2 e) = (IZR R * bpow radix2 e)%R).
      { unfold rnd64. apply round_generic; [typeclasses eauto|]. apply generic_format_FLT.
        exists (Float radix2 R e); [reflexivity| |cbn [Fexp]; unfold e; lia].
        cbn [Fnum]. change (Z.abs R < 2 ^ 53). lia. }
      rewrite V in P3. destruct P3 as (P3 & P4).
      { apply Rlt_le_trans with (bpow radix2 53 * bpow radix2 e)%R.
        - apply Rmult_lt_compat_r; [apply bpow_gt_0|]. rewrite bpow2 by lia. apply IZR_lt. lia.
        - rewrite <- bpow_plus. apply bpow_le. unfold e. lia. }
      split; [exact P1|]. split; [exact P3|]. split; [exact P2|]. exact P4.
Qed.

(* special operands of fmod *)
Lemma rem_special x y : f64_pat x -> f64_pat y ->
  (f64_is_nan x || f64_is_nan y || (f64_exp x =? 2047) || f64_is_zero y = true -> fl_rem x y = f64_default_nan) /\
  (f64_exp x <> 2047 -> f64_exp y = 2047 -> f64_man y = 0 -> fl_rem x y = x).
Proof.
  intros Hx Hy. unfold fl_rem. rewrite !pat_id by assumption. cbv zeta. split.
  - intros ->. reflexivity.
  - intros Fx Ey My.
    assert (Nx : f64_is_nan x = false) by (unfold f64_is_nan; destruct (Z.eqb_spec (f64_exp x) 2047); [contradiction|reflexivity]).
    assert (Ny : f64_is_nan y = false) by (unfold f64_is_nan; rewrite My; rewrite Bool.andb_false_r; reflexivity).
    assert (Zy : f64_is_zero y = false) by (rewrite (is_zero_fields y Hy), Ey; reflexivity).
    rewrite Nx, Ny, Zy. replace (f64_exp x =? 2047) with false by lia. rewrite Ey. reflexivity.
Qed.
