(* TagProofs.v: C13 - tags never change what a value does.
   1. strip facts and the typed accessors;
   2. the tag words behave as a map attached to the value;
   (the simulation theorem [strip_commutes] is in TagSim.v) *)
From Xeh Require Import Model.Prelude Model.Bits Model.Codec Model.Cell Model.Lexer Model.Fmt
                        Model.Vm Model.Words Proofs.BitsProofs Proofs.CellProofs Proofs.CollProofs.
From Coq Require Import Sorting.Sorted ZifyBool ZifyNat ZifyN.
Local Notation length := List.length.

(* ------------------------------------------------------------------ *)
(* 1. strip                                                            *)
(* ------------------------------------------------------------------ *)
Lemma strip_value_any : forall c, strip (value c) = strip c.
Proof. destruct c; reflexivity. Qed.

Lemma strip_with_tags : forall c t, strip (with_tags c t) = strip c.
Proof. intros. unfold with_tags. cbn [strip]. apply strip_value_any. Qed.

Lemma value_with_tags : forall c t, value (with_tags c t) = value c.
Proof. reflexivity. Qed.

Lemma tags_of_with_tags : forall c t, tags_of (with_tags c t) = Some t.
Proof. reflexivity. Qed.

(* tags never influence equality or order *)
Theorem eqb_strip_both : forall a b, tagwf a -> tagwf b -> cell_eqb a b = cell_eqb (strip a) (strip b).
Proof. exact eqb_strip. Qed.

Theorem cmp_strip_both : forall a b, tagwf a -> tagwf b -> cell_cmp a b = cell_cmp (strip a) (strip b).
Proof. exact cmp_strip. Qed.

Theorem eqb_with_tags : forall a b t, tagwf a -> tagwf b -> cell_eqb (with_tags a t) b = cell_eqb a b.
Proof.
  intros a b t Ha Hb.
  assert (Hw : tagwf (with_tags a t)).
  { unfold with_tags. apply tagwf_tag. destruct (tagwf_value _ Ha). auto. }
  rewrite !eqb_strip by assumption. unfold seqb. rewrite strip_with_tags. reflexivity.
Qed.

Theorem cmp_with_tags : forall a b t, tagwf a -> tagwf b -> cell_cmp (with_tags a t) b = cell_cmp a b.
Proof.
  intros a b t Ha Hb.
  assert (Hw : tagwf (with_tags a t)).
  { unfold with_tags. apply tagwf_tag. destruct (tagwf_value _ Ha). auto. }
  rewrite !cmp_strip by assumption. unfold scmp. rewrite strip_with_tags. reflexivity.
Qed.

(* typed accessors look through the tag wrapper: they depend on [value c] only, except for
   the payload of the error some of them report (the whole cell) *)
Definition payload_strip {A} (r : res A) : res A :=
  match r with RErr k p s => RErr k (option_map strip p) s | x => x end.

Section Accessors.
  Variables (a b : cell).
  Hypothesis H : value a = value b.

  Lemma to_xint_value : to_xint a = to_xint b.   Proof. unfold to_xint. rewrite H. reflexivity. Qed.
  Lemma to_real_value : to_real a = to_real b.   Proof. unfold to_real. rewrite H. reflexivity. Qed.
  Lemma to_bool_value : to_bool a = to_bool b.   Proof. unfold to_bool. rewrite H. reflexivity. Qed.
  Lemma cond_true_value : cond_true a = cond_true b. Proof. unfold cond_true. rewrite H. reflexivity. Qed.
  Lemma to_vec_value : to_vec a = to_vec b.      Proof. unfold to_vec. rewrite H. reflexivity. Qed.
  Lemma to_map_value : to_map a = to_map b.      Proof. unfold to_map. rewrite H. reflexivity. Qed.
  Lemma to_xstr_value : to_xstr a = to_xstr b.   Proof. unfold to_xstr. rewrite H. reflexivity. Qed.
  Lemma to_bitstr_value : to_bitstr a = to_bitstr b. Proof. unfold to_bitstr. rewrite H. reflexivity. Qed.
  Lemma to_usize_value : to_usize a = to_usize b. Proof. unfold to_usize. rewrite H. reflexivity. Qed.
  Lemma to_isize_value : to_isize a = to_isize b. Proof. unfold to_isize. rewrite H. reflexivity. Qed.

  Lemma m_xint_value : m_xint a = m_xint b.   Proof. unfold m_xint. rewrite H. reflexivity. Qed.
  Lemma m_real_value : m_real a = m_real b.   Proof. unfold m_real. rewrite H. reflexivity. Qed.
  Lemma m_vec_value : m_vec a = m_vec b.      Proof. unfold m_vec. rewrite H. reflexivity. Qed.
  Lemma m_map_value : m_map a = m_map b.      Proof. unfold m_map. rewrite H. reflexivity. Qed.
  Lemma m_str_value : m_str a = m_str b.      Proof. unfold m_str. rewrite H. reflexivity. Qed.
  Lemma m_bits_value : m_bits a = m_bits b.   Proof. unfold m_bits. rewrite H. reflexivity. Qed.
  Lemma m_isize_value : m_isize a = m_isize b. Proof. unfold m_isize. rewrite H. reflexivity. Qed.

  (* these report the whole cell on a type error *)
  Hypothesis Hs : strip a = strip b.
  Lemma m_bool_value : forall s, payload_strip (m_bool a s) = payload_strip (m_bool b s).
  Proof. intro s. unfold m_bool. rewrite H. destruct (value b); cbn; rewrite ?Hs; reflexivity. Qed.
  Lemma m_cond_value : forall s, payload_strip (m_cond a s) = payload_strip (m_cond b s).
  Proof. intro s. unfold m_cond. rewrite H. destruct (value b); cbn; rewrite ?Hs; reflexivity. Qed.
  Lemma m_usize_value : forall s, payload_strip (m_usize a s) = payload_strip (m_usize b s).
  Proof.
    intro s. unfold m_usize. rewrite H. destruct (value b); cbn; try reflexivity.
    destruct (z <? 0)%Z; cbn; rewrite ?Hs; reflexivity.
  Qed.
End Accessors.

(* instances: a tag wrapper is invisible to every accessor *)
Theorem m_xint_with_tags : forall c t, m_xint (with_tags c t) = m_xint c.
Proof. intros. apply m_xint_value. reflexivity. Qed.
Theorem m_real_with_tags : forall c t, m_real (with_tags c t) = m_real c.
Proof. intros. apply m_real_value. reflexivity. Qed.
Theorem m_vec_with_tags : forall c t, m_vec (with_tags c t) = m_vec c.
Proof. intros. apply m_vec_value. reflexivity. Qed.
Theorem m_map_with_tags : forall c t, m_map (with_tags c t) = m_map c.
Proof. intros. apply m_map_value. reflexivity. Qed.
Theorem m_str_with_tags : forall c t, m_str (with_tags c t) = m_str c.
Proof. intros. apply m_str_value. reflexivity. Qed.
Theorem m_bits_with_tags : forall c t, m_bits (with_tags c t) = m_bits c.
Proof. intros. apply m_bits_value. reflexivity. Qed.
Theorem m_isize_with_tags : forall c t, m_isize (with_tags c t) = m_isize c.
Proof. intros. apply m_isize_value. reflexivity. Qed.
Theorem m_bool_with_tags : forall c t s, payload_strip (m_bool (with_tags c t) s) = payload_strip (m_bool c s).
Proof. intros. apply m_bool_value; [reflexivity | apply strip_with_tags]. Qed.
Theorem m_cond_with_tags : forall c t s, payload_strip (m_cond (with_tags c t) s) = payload_strip (m_cond c s).
Proof. intros. apply m_cond_value; [reflexivity | apply strip_with_tags]. Qed.
Theorem m_usize_with_tags : forall c t s, payload_strip (m_usize (with_tags c t) s) = payload_strip (m_usize c s).
Proof. intros. apply m_usize_value; [reflexivity | apply strip_with_tags]. Qed.

(* ------------------------------------------------------------------ *)
(* 2. the tag words: a map attached to the value                       *)
(* ------------------------------------------------------------------ *)
Definition tags_or_empty (c : cell) : list (cell * cell) :=
  match tags_of c with Some t => t | None => [] end.

Lemma value_insert_tag : forall c k v, value (insert_tag c k v) = value c.
Proof. reflexivity. Qed.
Lemma value_remove_tag : forall c k, value (remove_tag c k) = value c.
Proof. reflexivity. Qed.
Lemma strip_insert_tag : forall c k v, strip (insert_tag c k v) = strip c.
Proof. intros. apply strip_with_tags. Qed.
Lemma strip_remove_tag : forall c k, strip (remove_tag c k) = strip c.
Proof. intros. apply strip_with_tags. Qed.

Lemma get_tag_with_tags : forall c t k, get_tag (with_tags c t) k = assoc_find t k.
Proof. reflexivity. Qed.

Lemma tags_of_insert_tag : forall c k v, tags_of (insert_tag c k v) = Some (assoc_insert (tags_or_empty c) k v).
Proof. reflexivity. Qed.

Lemma tags_of_remove_tag : forall c k, tags_of (remove_tag c k) = Some (assoc_remove (tags_or_empty c) k).
Proof. intros. unfold remove_tag, tags_or_empty. destruct (tags_of c); reflexivity. Qed.

Lemma get_tag_find : forall c k, get_tag c k = assoc_find (tags_or_empty c) k.
Proof. intros. unfold get_tag, tags_or_empty. destruct (tags_of c); reflexivity. Qed.

Lemma tags_ok : forall c, cell_ok c -> map_ok (tags_or_empty c).
Proof.
  intros c H. unfold tags_or_empty. destruct c; cbn [tags_of]; try (apply cell_ok_map; repeat split; constructor).
  apply cell_ok_tag in H. unfold map_ok. tauto.
Qed.

Theorem get_insert_tag_cmp : forall c k v k', keys_tagwf (tags_or_empty c) -> tagwf k -> tagwf k' ->
  get_tag (insert_tag c k v) k' = if cmp_is_eq (cell_cmp k k') then Some v else get_tag c k'.
Proof.
  intros c k v k' Hc Hk Hk'. rewrite (get_tag_find c). unfold insert_tag. rewrite get_tag_with_tags.
  apply find_insert_cmp; assumption.
Qed.

Theorem get_insert_tag : forall c k v k', cell_ok c -> cell_ok k -> NoNaN k -> cell_ok k' -> NoNaN k' ->
  get_tag (insert_tag c k v) k' = if cell_eqb k k' then Some v else get_tag c k'.
Proof.
  intros c k v k' Hc Hk Nk Hk' Nk'. rewrite (get_tag_find c). unfold insert_tag. rewrite get_tag_with_tags.
  apply find_insert; auto using tags_ok.
Qed.

Theorem get_remove_tag : forall c k k', cell_ok c -> cell_ok k -> NoNaN k -> cell_ok k' -> NoNaN k' ->
  get_tag (remove_tag c k) k' = if cell_eqb k k' then None else get_tag c k'.
Proof.
  intros c k k' Hc Hk Nk Hk' Nk'. rewrite (get_tag_find c), (get_tag_find (remove_tag c k)).
  unfold tags_or_empty at 1. rewrite tags_of_remove_tag.
  apply find_remove; auto using tags_ok.
Qed.

Theorem with_tags_ok : forall c t, cell_ok c -> map_ok t -> cell_ok (with_tags c t).
Proof.
  intros c t Hc Ht. unfold with_tags. apply cell_ok_tag. split; [|split]; auto.
  - destruct c; cbn; auto. apply cell_ok_tag in Hc. tauto.
  - destruct c; cbn [value]; auto. apply cell_ok_tag in Hc. tauto.
Qed.

Theorem insert_tag_ok : forall c k v, cell_ok c -> cell_ok k -> NoNaN k -> cell_ok v -> cell_ok (insert_tag c k v).
Proof.
  intros c k v Hc Hk Nk Hv. unfold insert_tag. apply with_tags_ok; auto.
  apply insert_ok; auto. apply tags_ok. assumption.
Qed.

Theorem remove_tag_ok : forall c k, cell_ok c -> cell_ok k -> cell_ok (remove_tag c k).
Proof.
  intros c k Hc Hk. unfold remove_tag. apply with_tags_ok; auto.
  pose proof (tags_ok c Hc) as T. unfold tags_or_empty in T.
  destruct (tags_of c); [apply remove_ok; assumption | exact T].
Qed.

(* tags do not alter what the value is: equality, order and every accessor ignore them *)
Theorem eqb_insert_tag : forall c k v b, tagwf c -> tagwf b -> cell_eqb (insert_tag c k v) b = cell_eqb c b.
Proof. intros. apply eqb_with_tags; assumption. Qed.
Theorem eqb_remove_tag : forall c k b, tagwf c -> tagwf b -> cell_eqb (remove_tag c k) b = cell_eqb c b.
Proof. intros. apply eqb_with_tags; assumption. Qed.

(* the size of the tag map *)
Theorem insert_tag_size : forall c k v, cell_ok c -> cell_ok k ->
  length (tags_or_empty (insert_tag c k v)) =
  match get_tag c k with Some _ => length (tags_or_empty c) | None => S (length (tags_or_empty c)) end.
Proof.
  intros c k v Hc Hk. rewrite get_tag_find. unfold tags_or_empty at 1. rewrite tags_of_insert_tag.
  pose proof (tags_ok c Hc) as T.
  apply insert_length; auto using map_ok_keys_tagwf, map_ok_sorted, cell_ok_tagwf.
Qed.
