(* MetaBuild.v (C11): the frame [sealed] for the builder.

   Every program of the compiler front end except the three words that change the context
   stack (#( , #) , ~) ) keeps [sealed] when started in a meta context: it leaves the heap, the
   context stack and the context marks alone and touches no stack below its mark.  This covers
   all immediate words of the table (control structures, definitions, let patterns, var, const,
   ...), user-defined immediate words and the execution of pending code before each token. *)
From Xeh Require Import Model.Prelude Model.Bits Model.Codec Model.Cell Model.Lexer Model.Fmt
                        Model.Vm Model.Words Model.Build.
From Xeh Require Import Proofs.VmFrame Proofs.VmLimits Proofs.NoPanic Proofs.NoPanicBuild Proofs.NoPanicFlow
                        Proofs.MetaBase.
Local Notation length := List.length.
Local Open Scope list_scope.
Local Open Scope string_scope.

(* ---------- programs that leave the sealed fields alone ---------- *)
Definition scorep {A} (m : M A) : Prop := forall s, res_all (fun s' => score s' = score s) (m s).

Lemma scorep_ret A (a : A) : scorep (ret a).
Proof. intros s. reflexivity. Qed.
Lemma scorep_fail A k p : scorep (@fail A k p).
Proof. intros s. reflexivity. Qed.
Lemma scorep_unsup A : scorep (@unsup A).
Proof. intros s. exact I. Qed.
Lemma scorep_bind A B (m : M A) (f : A -> M B) : scorep m -> (forall a, scorep (f a)) -> scorep (bind m f).
Proof.
  intros Hm Hf s. unfold bind. specialize (Hm s).
  destruct (m s) as [a s1|k p s1| |]; cbn [res_all] in *; auto.
  specialize (Hf a s1). destruct (f a s1); cbn [res_all] in *; auto; congruence.
Qed.

Lemma scorep_code_emit op : scorep (code_emit op).
Proof.
  intros s. unfold code_emit. cbv zeta.
  destruct (_ <? _)%nat; [reflexivity|]. destruct (_ =? _)%nat; [reflexivity|exact I].
Qed.

Lemma scorep_backpatch pos op : scorep (backpatch pos op).
Proof. intros s. unfold backpatch. destruct (_ <? _)%nat; [reflexivity|exact I]. Qed.

Lemma scorep_backpatch_jump pos offs : scorep (backpatch_jump pos offs).
Proof.
  intros s. unfold backpatch_jump. destruct (nth_error (code s) pos) as [op|]; [|reflexivity].
  destruct op; try exact I; apply scorep_backpatch.
Qed.

Lemma scorep_dict_insert name e : scorep (dict_insert name e).
Proof. intros s. reflexivity. Qed.

Lemma scorep_intern_source buf : scorep (intern_source buf).
Proof. intros s. reflexivity. Qed.

Lemma scorep_join_str_vec sep v : scorep (join_str_vec sep v).
Proof. unfold join_str_vec. destruct (join_cells 40 sep v); [apply scorep_ret|apply scorep_unsup]. Qed.

Section Tokens.
  Variable pr : string -> option Z.

  Lemma scorep_next_token : forall fuel, scorep (next_token pr fuel).
  Proof.
    induction fuel as [|f IH]; intros s; cbn [next_token]; [exact I|].
    destruct (input s) as [|il rest]; [reflexivity|]. cbv zeta.
    destruct (lex_next_nonws _ _) as [t l'].
    destruct t; try exact I; try reflexivity.
    - specialize (IH (set_input (set_last_tok (set_input s (mkinlex (in_src il) l' :: rest))
                                              (Some (in_src il, lstart l', lpos l'))) rest)).
      destruct (next_token pr f _); cbn [res_all] in *; auto.
    - destruct (pr text); reflexivity.
  Qed.

  Lemma scorep_get_token : scorep (get_token pr).
  Proof. intros s. unfold get_token. apply scorep_next_token. Qed.

  Lemma scorep_next_name : scorep (next_name pr).
  Proof.
    intros s. unfold next_name. cbv zeta. pose proof (scorep_get_token s) as H.
    destruct (get_token pr s) as [t s1|k p s1| |]; cbn [res_all] in *; auto.
    destruct t; cbn [res_all]; try exact H; destruct (last_tok s); exact H.
  Qed.
End Tokens.

Lemma fp_scorep A (m : M A) : scorep m -> fp SF m.
Proof.
  intros H s [Hm W]. specialize (H s). cbn [SF fr_rel].
  destruct (m s); cbn [res_all] in *; auto; apply sealed_score; assumption.
Qed.

(* ---------- the flow stack ---------- *)
Lemma sealed_flows s fl' : wfm s -> keeps (fs_len (cx s)) (flows s) fl' -> sealed s (set_flows s fl').
Proof.
  intros (H1 & H2 & H3 & H4 & H5) K. unfold sealed. cbn [set_flows heap nested cx ds rs loops special flows].
  repeat split; try reflexivity; try assumption; apply K.
Qed.

Lemma fps_push_flow f : fp SF (push_flow f).
Proof.
  intros s [Hm W]. unfold push_flow, modify. cbn [res_all SF fr_rel]. apply sealed_flows; [exact W|].
  apply (keeps_app _ [f]). apply W.
Qed.

Lemma skipn_pending s : fs_len (cx s) <= length (flows s) ->
  skipn (length (pending s)) (flows s) = lastn (fs_len (cx s)) (flows s).
Proof. intros H. unfold lastn, pending. f_equal. rewrite firstn_length. lia. Qed.

Lemma keeps_pending s a' : fs_len (cx s) <= length (flows s) ->
  keeps (fs_len (cx s)) (flows s) (a' ++ skipn (length (pending s)) (flows s)).
Proof.
  intros H. rewrite skipn_pending by exact H.
  destruct (flows_split s H) as [E1 E2]. rewrite E1 at 1.
  apply keeps_app_l. rewrite E2. lia.
Qed.

Lemma fps_pop_flow : fp SF pop_flow.
Proof.
  intros s [Hm W]. unfold pop_flow. cbn [SF fr_rel].
  destruct (flows s) as [|f r] eqn:E; [apply sealed_refl; exact W|].
  destruct (_ <? _)%nat eqn:El; [|apply sealed_refl; exact W].
  cbn [res_all]. apply sealed_flows; [exact W|]. apply Nat.ltb_lt in El. rewrite E.
  unfold keeps. cbn [length] in *. split; [lia|]. symmetry. apply lastn_cons. lia.
Qed.

Lemma fps_take : fp SF take_first_cond_flow.
Proof.
  intros s [Hm W]. unfold take_first_cond_flow. cbv zeta. cbn [SF fr_rel].
  destruct (take_cond (pending s)) as [[f act']|]; [|apply sealed_refl; exact W].
  cbn [res_all]. apply sealed_flows; [exact W|]. apply keeps_pending. apply W.
Qed.

Lemma sealed_set_dict s d' : wfm s -> sealed s (set_dict s d').
Proof. intros W. apply sealed_score; [exact W|reflexivity]. Qed.

Lemma sealed_set_locals s ls : wfm s ->
  sealed s (set_flows s (set_fun_locals (pending s) ls ++ skipn (length (pending s)) (flows s))).
Proof. intros W. apply sealed_flows; [exact W|]. apply keeps_pending. apply W. Qed.

Lemma fps_wl A (m : M A) : wl m -> fp SF m.
Proof. apply wl_sealed. Qed.

(* ---------- the stepwise tactic ---------- *)
Ltac fps_prim :=
  lazymatch goal with
  | |- fpa _ _ (ret _) => apply fpa_ret
  | |- fpa _ _ (fail _ _) => apply fpa_fail
  | |- fpa _ _ unsup => apply fpa_unsup
  | |- fpa _ _ panic => apply fpa_panic
  | |- fpa _ _ (code_emit _) => apply (fp_scorep _ _ (scorep_code_emit _))
  | |- fpa _ _ (backpatch _ _) => apply (fp_scorep _ _ (scorep_backpatch _ _))
  | |- fpa _ _ (backpatch_jump _ _) => apply (fp_scorep _ _ (scorep_backpatch_jump _ _))
  | |- fpa _ _ (dict_insert _ _) => apply (fp_scorep _ _ (scorep_dict_insert _ _))
  | |- fpa _ _ (intern_source _) => apply (fp_scorep _ _ (scorep_intern_source _))
  | |- fpa _ _ (join_str_vec _ _) => apply (fp_scorep _ _ (scorep_join_str_vec _ _))
  | |- fpa _ _ (get_token _) => apply (fp_scorep _ _ (scorep_get_token _))
  | |- fpa _ _ (next_name _) => apply (fp_scorep _ _ (scorep_next_name _))
  | |- fpa _ _ (push_flow _) => apply fps_push_flow
  | |- fpa _ _ pop_flow => apply fps_pop_flow
  | |- fpa _ _ take_first_cond_flow => apply fps_take
  | |- fpa _ _ (alloc_heap _) => apply fp_alloc_heap
  | |- fpa _ _ (run_m _ _) => apply fp_run_m
  | |- fpa _ _ pop_data => apply (fps_wl _ _ wl_pop_data)
  | |- fpa _ _ (push_data _) => apply (fps_wl _ _ (wl_push_data _))
  | |- fpa _ _ (push_return _) => apply (fps_wl _ _ (wl_push_return _))
  | |- fpa _ _ (set_ip _) => apply (fps_wl _ _ (wl_set_ip _))
  end.

Create HintDb fpsdb.

Ltac fps_step :=
  cbv beta zeta;
  first
    [ fps_prim
    | solve [ auto 2 with fpsdb nocore ]
    | match goal with H : _ |- fpa _ _ _ => solve [ apply H ] end
    | lazymatch goal with
      | |- fp _ _ => intro
      | |- fpa _ _ (bind get _) => apply fpa_get_bind
      | |- fpa _ _ (bind _ _) => apply fpa_bind; [ | intro ]
      | |- fpa _ _ (match ?x with _ => _ end) => destruct x eqn:?
      | |- fpa _ _ (put (set_dict _ _)) => apply fpa_put; intros [_ ?]; apply sealed_set_dict; assumption
      | |- fpa _ _ ?m => let h := head_of m in unfold h
      end ].

Ltac fps_solve := repeat fps_step.

Lemma fps_endcase_loop : forall fuel org s, fpa SF s (endcase_loop fuel org).
Proof. induction fuel as [|f IH]; intros org; change (fp SF (endcase_loop (S f) org)) || change (fp SF (endcase_loop 0 org)); cbn [endcase_loop]; fps_solve. Qed.
#[export] Hint Resolve fps_endcase_loop : fpsdb.

Lemma fps_repeat_loop : forall fuel s, fpa SF s (repeat_loop fuel).
Proof. induction fuel as [|f IH]; change (fp SF (repeat_loop (S f))) || change (fp SF (repeat_loop 0)); cbn [repeat_loop]; fps_solve. Qed.
#[export] Hint Resolve fps_repeat_loop : fpsdb.

Lemma fps_loop_loop : forall fuel a b s, fpa SF s (loop_loop fuel a b).
Proof. induction fuel as [|f IH]; intros a b; change (fp SF (loop_loop (S f) a b)) || change (fp SF (loop_loop 0 a b)); cbn [loop_loop]; fps_solve. Qed.
#[export] Hint Resolve fps_loop_loop : fpsdb.

Lemma fps_vec_collect p : fp SF (vec_collect_till_ptr p).
Proof. apply fps_wl. wl_solve. Qed.

Lemma fps_build_local_variable name s : fpa SF s (build_local_variable name).
Proof.
  revert s. change (fp SF (build_local_variable name)). unfold build_local_variable. fps_solve.
  apply fpa_put. intros [_ W]. apply sealed_set_locals. exact W.
Qed.
#[export] Hint Resolve fps_build_local_variable : fpsdb.

Lemma fps_build_global_variable name s : fpa SF s (build_global_variable name).
Proof. unfold build_global_variable. fps_solve. Qed.
#[export] Hint Resolve fps_build_global_variable : fpsdb.

Lemma fps_emit_native w s : fpa SF s (emit_native w).
Proof. fps_solve. Qed.
Lemma fps_code_emit_value v s : fpa SF s (code_emit_value v).
Proof. fps_solve. Qed.
#[export] Hint Resolve fps_emit_native fps_code_emit_value : fpsdb.

Lemma fps_build_let_named w s : fpa SF s (build_let_named w).
Proof. fps_solve. Qed.
Lemma fps_build_let_match v s : fpa SF s (build_let_match v).
Proof. fps_solve. Qed.
Lemma fps_let_vec_next i s : fpa SF s (let_vec_next i).
Proof. fps_solve. Qed.
#[export] Hint Resolve fps_build_let_named fps_build_let_match fps_let_vec_next : fpsdb.

Section Let3.
  Variable pr : string -> option Z.

  Lemma fps_build_let : forall f,
    fp SF (build_let_in pr f) /\ fp SF (build_let_tags pr f) /\ fp SF (build_let_map pr f) /\
    (forall i, fp SF (build_let_vec pr f i)).
  Proof.
    induction f as [|f (IHin & IHtags & IHmap & IHvec)].
    - repeat split; intros; apply fp_unsup.
    - assert (Hmap : fp SF (build_let_map pr (S f))).
      { rewrite build_let_map_S. apply fp_bind; [exact (fps_emit_native _)|intros _].
        generalize (S f) as k. induction k as [|k IHk]; cbn [let_map_go]; [apply fp_unsup|].
        fold (let_map_go pr f) in *. fps_solve. }
      assert (Hvec : forall i, fp SF (build_let_vec pr (S f) i)).
      { intros i. rewrite build_let_vec_S. revert i.
        generalize (S f) as k. induction k as [|k IHk]; intros i; cbn [let_vec_go]; [apply fp_unsup|].
        fold (let_vec_go pr f) in *. fps_solve. }
      assert (Htags : fp SF (build_let_tags pr (S f))) by (cbn [build_let_tags]; fps_solve).
      assert (Hin : fp SF (build_let_in pr (S f))) by (cbn [build_let_in]; fps_solve).
      repeat split; assumption.
  Qed.

  Lemma fps_build_let_in f : fp SF (build_let_in pr f).
  Proof. exact (proj1 (fps_build_let f)). Qed.
End Let3.

(* ---------- the table of immediate words ---------- *)
(* the four words of the enum builder (`enum`, `endenum` and the two field words, which close
   the inner block of the enum and open the next one), by the name of their native function *)
Definition enum_native (name : string) : bool :=
  String.eqb name "enum" || String.eqb name "endenum" ||
  String.eqb name "%enum-field" || String.eqb name "%enum-field-set".

(* the words that open or close a context: the three bracket words and the enum builder *)
Definition ctx_word (name : string) : bool :=
  String.eqb name "#(" || String.eqb name "#)" || String.eqb name "~)" || enum_native name.

Section Top3.
  Variable fo : fops.
  Variable pr : string -> option Z.
  Variable rf : nat.

  (* the table without the three context words *)
  Lemma table_find_filter : forall (P : M unit -> Prop) (t : list (string * M unit)) name w,
    Forall (fun nw => ctx_word (fst nw) = false -> P (snd nw)) t ->
    table_find t name = Some w -> ctx_word name = false -> P w.
  Proof.
    induction t as [|[n x] r IH]; intros name w HF H Hc; cbn [table_find] in H; [discriminate|].
    inversion HF; subst. destruct (String.eqb n name) eqn:E.
    - injection H as <-. apply String.eqb_eq in E. subst n. cbn [fst snd] in *. auto.
    - eapply IH; eauto.
  Qed.

  Lemma fps_immediate_fn : forall fuel name w,
    immediate_fn fo pr rf fuel name = Some w -> ctx_word name = false -> fp SF w.
  Proof.
    intros fuel name w H Hc. unfold immediate_fn in H. cbv zeta in H.
    eapply table_find_filter with (P := fun m => fp SF m); [|exact H|exact Hc].
    pose proof (fps_build_let_in pr fuel) as HL.
    repeat (apply Forall_cons;
            [ cbn [fst snd]; intros Hcw;
              first [ discriminate Hcw | fps_solve ] | ]).
    apply Forall_nil.
  Qed.

  Lemma fps_run_interp fuel x : fp SF (run_immediate fo pr rf fuel (FInterp x)).
  Proof. unfold run_immediate. fps_solve. Qed.
End Top3.
